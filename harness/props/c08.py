"""C08 — every operation uses its own qubits' parameters, phases and tensor slots.

Lean: QG.Props.C08 about the executable wiring model QG/Model/Wiring.lean (simulator layout / preprocessing / call
generation for both branches + the circuit classes as state machines, abstract gate set, symbolic device parameters).
Tie: exact differential correspondence — the REAL simulator runs with a recording gate set and tagged device parameters
(every table entry has a unique value), the single shot is intercepted to snapshot the built circuit object; layout,
gate-set calls (method, phases, parameter tokens) and placements are compared with the model.
Oracle (independent of the model): a role table read off the property statement (and C06's slot roles) is evaluated on
the recorded calls and placements; relabelling; measured-subset marginals with the noise-free gate set.
"""
import json, math, itertools
import numpy as np
from qgv import core, wiring as W

CLASSES = ["binary", "grid", "standard", "efficient", "one"]


def two_q_pars(c, t):
    return [f"t_int[{c}][{t}]", f"p_int[{c}][{t}]", f"p[{c}]", f"p[{t}]", f"T1[{c}]", f"T2[{c}]", f"T1[{t}]", f"T2[{t}]"]


def swap_roles(p):
    return [p[0], p[1], p[3], p[2], p[6], p[7], p[4], p[5]]


def oracle(cls, ops, nqubit, real, dp=None):
    """the statement of C08 on the recorded calls / placements of one run; returns list of failure texts.
    dp: the run used these (untagged, numeric) device parameters - the recorded raw arguments are compared with the numbers the
    role table names"""
    if "err" in real:
        return [f"valid circuit raised {real['err']}: {real.get('msg', '')}"]
    used = []
    for op in ops:
        if op[0] == "delay":
            continue
        qs = op[1] if op[0] == "barrier" else ([op[1], op[2]] if op[0] in ("cx", "ecr") else [op[1]])
        if op[0] == "barrier" and len(qs) > 2:
            continue
        for q in qs:
            if q not in used:
                used.append(q)
    layout = sorted(used)
    pos = {q: i for i, q in enumerate(layout)} if cls == "binary" else {q: q for q in layout}
    bad = []
    if real["layout"] != layout:
        bad.append(f"the simulator orders the used qubits as {real['layout']}; ascending physical order is {layout} "
                   f"(tensor factors of psi0 and the rows of the layered classes are in ascending order)")
    data = [op for op in ops if op[0] in ("sx", "x", "cx", "ecr", "delay") and all(q in used for q in ([op[1], op[2]] if op[0] in ("cx", "ecr") else [op[1]]))]
    calls = [dict(c, raw=r) for c, r in zip(real["calls"], real.get("raw") or [None] * len(real["calls"]))]
    body = [c for c in calls if c["m"] != "bitflip"]
    flips = [c for c in calls if c["m"] == "bitflip"]
    if len(body) != len(data):
        bad.append(f"{len(data)} noisy operations but {len(body)} gate-set calls")
    want_slots = []
    for k, (op, c) in enumerate(zip(data, body)):
        name = op[0]
        if name in ("sx", "x"):
            q = op[1]
            exp_m, exp_p, slots = name.upper(), [f"p[{q}]", f"T1[{q}]", f"T2[{q}]"], (pos[q],)
        elif name == "delay":
            q = op[1]
            exp_m, exp_p, slots = "relaxation", [f"dur[{op[2]}]", f"T1[{q}]", f"T2[{q}]"], (pos[q],)
        else:
            c_, t_ = op[1], op[2]
            fwd = pos[c_] < pos[t_]
            base = "CNOT" if name == "cx" else "ECR"
            exp_m = base if fwd else base + "_inv"
            # CNOT_inv takes its arguments in (control, target) order and hands the target's to slot 0 (C06 handoff_CNOT_inv);
            # ECR_inv takes them in slot order (C06 handoff_ECR_inv): slot 0 = the lower position = the target here
            exp_p = two_q_pars(c_, t_) if (fwd or name == "cx") else swap_roles(two_q_pars(c_, t_))
            slots = (min(pos[c_], pos[t_]), max(pos[c_], pos[t_]))
        if c["m"] != exp_m:
            bad.append(f"operation {k} {op}: gate-set method {c['m']}, expected {exp_m}")
        elif dp is not None:
            want = [W.value_of(t, dp) for t in exp_p]
            if c["raw"] != want:
                j = next(i for i, (a, b) in enumerate(zip(c["raw"], want)) if a != b) if len(c["raw"]) == len(want) else 0
                bad.append(f"operation {k} {op} on layout {layout}: {c['m']} received {c['raw'][j] if j < len(c['raw']) else None!r} as argument {j} "
                           f"where {exp_p[j]} = {want[j]!r} is the calibration value of its own qubits (tables with exact zeros)")
        elif c["pars"] != exp_p:
            bad.append(f"operation {k} {op} on layout {layout}: {c['m']} was called with {c['pars']}, its own qubits' values in role order are {exp_p}")
        want_slots.append(slots)
    expf = [[f"tm[{q}]", f"rout[{q}]"] for q in layout][:nqubit]
    if dp is not None:
        if [c["raw"] for c in flips] != [[W.value_of(t, dp) for t in e] for e in expf]:
            bad.append(f"readout bit-flips received {[c['raw'] for c in flips]}, the qubits' own (tm, rout) are {[[W.value_of(t, dp) for t in e] for e in expf]}")
    elif [c["pars"] for c in flips] != expf:
        bad.append(f"readout bit-flips were called with {[c['pars'] for c in flips]}, expected {expf}")
    # placements
    st = real["state"]
    body_idx = [i for i, c in enumerate(calls) if c["m"] != "bitflip"]
    if st["kind"] == "binary":
        items = {it[0]: (it[1],) if it[2] == -1 else (it[1], it[2]) for it in st["items"] if it[0] != "I"}
        for k, slots in zip(body_idx, want_slots):
            if items.get(k) != slots:
                bad.append(f"matrix of call {k} ({calls[k]['m']}) is registered on qubit slots {items.get(k)}, expected {slots} "
                           f"(two-qubit matrices are in (lower, higher) slot order)")
    else:
        layers = st["mp_list"] + [st["mp"]] if st["kind"] == "layered" else [list(col) for col in zip(*st["grid"])] if st["grid"] and st["grid"][0] else []
        where = {}
        for li, layer in enumerate(layers):
            for r, e in enumerate(layer):
                if isinstance(e, int):
                    where[e] = (li, r, layer)
        for k, slots in zip(body_idx, want_slots):
            if k not in where:
                bad.append(f"matrix of call {k} ({calls[k]['m']}) is not in any layer"); continue
            li, r, layer = where[k]
            if len(slots) == 1:
                if r != slots[0]:
                    bad.append(f"matrix of call {k} sits in row {r}, expected {slots[0]}")
            else:
                rows = sorted([r] + [i for i, e in enumerate(layer) if e == "1" and abs(i - r) == 1 and i in slots])
                if tuple(rows) != slots:
                    bad.append(f"two-qubit matrix of call {k} ({calls[k]['m']}) occupies rows {rows}, expected {slots}")
    return bad


class _Transient(Exception):
    pass


def fault_retry_case(rng, cls):
    """a circuit object used directly; ONE gate-set request raises once (a transient failure of the sampler), the caller catches it and
    issues the same build call again.  Every successful gate-set request must carry the phases and parameters it carries in a
    faultless execution of the same build calls on a new object: a failed request leaves no trace in the object's phases.
    Returns (history, failure | None)."""
    from props import c11 as H11
    n, depth = rng.randint(2, 4), 12
    hist = [H11.random_call(rng, cls, n, bad=0.0) for _ in range(rng.randint(3, 9))]

    def execute(fail_at):
        W.RecGates.clear()
        circ = H11.new_object(cls, n, depth)
        gs = circ.gates
        state = {"n": 0, "fired": False}
        orig = gs._rec

        def rec(method, dim, args):
            state["n"] += 1
            if fail_at is not None and state["n"] == fail_at and not state["fired"]:
                state["fired"] = True
                raise _Transient("transient sampling failure (injected by the check)")
            return orig(method, dim, args)
        gs._rec = rec
        for c in hist:
            try:
                H11.do_call(circ, c)
            except _Transient:
                try:
                    H11.do_call(circ, c)                     # the caller repeats the build call
                except (IndexError, ValueError, AssertionError):
                    return None, state
            except (IndexError, ValueError, AssertionError):
                return None, state                           # the history does not fit the object (e.g. grid too shallow): not a case
        return [(c["m"], tuple(c["ph"]), tuple(c["pars"])) for c in W.RecGates.calls], state
    clean, st0 = execute(None)
    if clean is None or st0["n"] < 1:
        return hist, None
    k = rng.randint(1, st0["n"])
    faulty, st1 = execute(k)
    if faulty is None or not st1["fired"]:
        return hist, None
    if faulty != clean:
        j = next((i for i, (a, b) in enumerate(zip(faulty, clean)) if a != b), min(len(faulty), len(clean)))
        return hist, (f"gate-set request number {k} raised once and the build call was repeated: successful request {j} is "
                      f"{faulty[j] if j < len(faulty) else None}, in a faultless execution of the same calls it is "
                      f"{clean[j] if j < len(clean) else None} - the failed request left a trace in the virtual phases")
    return hist, None


def relabel_check(rng, n):
    """binary class: relabelling the physical qubits maps the call sequence to its image"""
    ops, labels = W.random_ops(rng, "binary", n, rng.randint(3, 10))
    pool = list(range(0, max(labels) + 4))
    new = sorted(rng.sample(pool, len(labels)))
    perm = new[:]
    rng.shuffle(perm)
    pi = dict(zip(labels, perm))
    ops2 = []
    for op in ops:
        if op[0] == "barrier":
            ops2.append(["barrier", [pi[q] for q in op[1]]])
        elif op[0] in ("cx", "ecr"):
            ops2.append([op[0], pi[op[1]], pi[op[2]]])
        elif op[0] == "measure":
            ops2.append(["measure", pi[op[1]], op[2]])
        else:
            ops2.append([op[0], pi[op[1]]] + op[2:])
    a, b = W.observe_run("binary", ops, n), W.observe_run("binary", ops2, n)
    if "err" in a or "err" in b:
        return ops, ops2, [f"raised: {a.get('err')} / {b.get('err')}"]
    import re
    def image(tok):
        return re.sub(r"\[(\d+)\]", lambda m: f"[{pi[int(m.group(1))]}]" if not tok.startswith("dur") else m.group(0), tok)
    ca = sorted((c["m"], tuple(c["ph"]), tuple(image(t) for t in c["pars"])) for c in a["calls"])
    cb = sorted((c["m"], tuple(c["ph"]), tuple(c["pars"])) for c in b["calls"])
    # a non-monotone relabelling may turn a forward gate into a reversed one (other method, other frame); compare the
    # multiset of parameter tokens per call instead of the exact call in that case
    ta = sorted(tuple(sorted(x[2])) for x in ca)
    tb = sorted(tuple(sorted(x[2])) for x in cb)
    return ops, ops2, ([] if ta == tb else [f"relabelling {pi}: parameter sets of the calls differ"])


def marginal_check(rng, cls, n):
    """measuring a subset gives the marginal of measuring all (noise-free gate set, real simulator end to end)"""
    from quantum_gates._gates.gates import NoiseFreeGates
    ops, labels = W.random_ops(rng, cls, n, rng.randint(4, 10), measure="all")
    body = [op for op in ops if op[0] != "measure"]
    if cls in ("grid", "standard") and not any(op[0] in ("cx", "ecr") for op in body):
        return None
    sub = sorted(rng.sample(labels, rng.randint(1, n)))
    order = labels[:]
    rng.shuffle(order)                          # measuring all, in any instruction order
    full = body + [["measure", q, i] for i, q in enumerate(order)]
    part = body + [["measure", q, i] for i, q in enumerate(sub)]
    dp = W.tagged_params(max(labels))
    dp.update(T1=np.ones(max(labels) + 1), T2=np.ones(max(labels) + 1), dt=[1e-9])
    a = W.observe_run(cls, full, n, gates=NoiseFreeGates(), device_param=dp, want_result=True)
    b = W.observe_run(cls, part, n, gates=NoiseFreeGates(), device_param=dp, want_result=True)
    if "err" in a or "err" in b:
        return full, part, [f"raised: {a.get('err')} {a.get('msg', '')} / {b.get('err')} {b.get('msg', '')}"]
    idx = [order.index(q) for q in sub]
    marg = {}
    for key, v in a["result"].items():
        k2 = "".join(key[i] for i in idx)
        marg[k2] = marg.get(k2, 0.0) + v
    ok = set(marg) == set(b["result"]) and all(abs(marg[k] - b["result"][k]) < 1e-9 for k in marg)
    return full, part, ([] if ok else [f"measuring {sub} gives {b['result']}, the marginal of measuring all is {marg}"])


def classify(bad):
    t = bad[0]
    if "orders the used qubits" in t:
        return {"kind": "layout-first-touch"}
    if "ECR_inv was called with" in t:
        return {"kind": "reversed-ecr-noise-args"}
    if "is registered on qubit slots" in t and "CNOT_inv" in t:
        return {"kind": "reversed-cnot-slot-order"}
    return {"kind": "wiring", "what": t.split(":")[0][:50]}


def cases(ctx):
    rng = ctx.rng
    out = []
    corpus = [("binary", [["sx", 0], ["cx", 1, 0], ["measure", 0, 0], ["measure", 1, 1]], 2),
              ("binary", [["ecr", 1, 0], ["measure", 0, 0], ["measure", 1, 1]], 2),
              ("efficient", [["x", 1], ["rz", 0, 5], ["measure", 0, 0], ["measure", 1, 1]], 2),
              ("grid", [["ecr", 1, 0], ["cx", 0, 1], ["measure", 1, 0]], 2),
              ("binary", [["cx", 5, 2], ["delay", 5, 7], ["sx", 2], ["measure", 5, 0]], 2),
              # two-digit labels whose decimal spellings collide when written next to each other: (1,12) / (11,2), (1,10) / (11,0)
              ("binary", [["cx", 1, 12], ["cx", 11, 2], ["ecr", 1, 10], ["ecr", 11, 0], ["cx", 11, 2], ["sx", 12], ["measure", 1, 0]], 6),
              ("binary", [["ecr", 11, 2], ["ecr", 1, 12], ["cx", 11, 0], ["cx", 1, 10], ["measure", 12, 1], ["measure", 0, 0]], 6)]
    out += corpus
    for cls in CLASSES:
        for _ in range(120 if ctx.thorough else 24):
            n = rng.randint(1, 6 if ctx.thorough else 4)
            ops, _ = W.random_ops(rng, cls, n, rng.randint(0, 14))
            out.append((cls, ops, n))
    return out


def main(ctx):
    cov = ctx.coverage
    lean = ctx.lean("QG.Props.C08")
    cs = cases(ctx)
    reals = [W.observe_run(c, o, n, shots=1 + (k % 3 == 2)) for k, (c, o, n) in enumerate(cs)]     # every third case runs two shots
    models = core.Driver("C08").batch([W.model_request(c, o, n) for c, o, n in cs])
    fails, mism, nontrivial, hist = [], [], set(), {}
    for (cls, ops, n), r, m in zip(cs, reals, models):
        ctx.count()
        key = core.sha([cls, ops, n])
        two = [op for op in ops if op[0] in ("cx", "ecr")]
        if two:
            nontrivial.add(key)
        hist[cls] = hist.get(cls, 0) + 1
        for op in two:
            d = "rev" if op[1] > op[2] else "fwd"
            hist[f"{op[0]}-{d}"] = hist.get(f"{op[0]}-{d}", 0) + 1
        bad = oracle(cls, ops, n, r)
        if not bad and "err" not in r:
            # independent of the model: every shot of a run issues the calls of the first shot (same circuit, same phases)
            bad = W.later_shots(r)
        if bad:
            fails.append((cls, ops, n, bad))
        d = W.compare_run(r, m, cls)
        if d:
            mism.append((cls, ops, n, d))
    # numeric calibration tables with exact zeros (the tagged tables above have none): the recorded raw arguments must be the
    # numbers of the operation's own qubits, a zero included
    nz = 0
    for cls in CLASSES:
        for _ in range(40 if ctx.thorough else 8):
            n = ctx.rng.randint(1, 4)
            ops, labels = W.random_ops(ctx.rng, cls, n, ctx.rng.randint(2, 12))
            dp = W.numeric_params_with_zeros(ctx.rng, max(labels))
            r = W.observe_run(cls, ops, n, device_param=dp)
            ctx.count(); nz += 1
            bad = oracle(cls, ops, n, r, dp=dp)
            if bad:
                fails.append((cls, ops, n, bad + [{"device_param": {k: np.asarray(v).tolist() for k, v in dp.items() if k != "metadata"}}]))
    cov["runs_with_numeric_tables_holding_exact_zeros"] = nz
    # circuit objects used directly and reused after reset(): every operation after a reset is sampled with the phases a newly
    # constructed object would have (histories of build calls / evaluations / resets, the vocabulary of C11's check)
    from props import c11 as H11
    nh = 0
    for cls in CLASSES:
        for _ in range(30 if ctx.thorough else 8):
            n, depth = ctx.rng.randint(1, 4), ctx.rng.randint(1, 4)
            hist = H11.random_history(ctx.rng, cls, n, ctx.rng.randint(4, 16))
            if hist.count("reset") < 2:
                k1, k2 = sorted(ctx.rng.sample(range(1, len(hist) + 1), 2)) if len(hist) >= 2 else (1, 1)
                hist = hist[:k1] + ["reset"] + hist[k1:k2] + ["reset"] + hist[k2:]
            snaps, raised, bad, circ = H11.run_history(cls, n, depth, hist, np.eye(1, 2 ** n)[0].astype(complex))
            ctx.count(); nh += 1
            if raised is None and snaps and not bad:
                b2 = H11.fresh_suffix_check(cls, n, depth, hist, snaps[-1])
                if b2 and "phi" in b2:
                    fails.append((cls, hist, None, [f"circuit object used directly, history of {len(hist)} operations with {hist.count('reset')} resets: {b2} "
                                                    f"- operations after the reset are sampled with stale virtual phases",
                                                    {"history": {"n": n, "depth": depth}}]))
    cov["direct_histories_with_resets"] = nh
    # one simulator object serves circuits of the same name / size and circuit objects edited in place (C03's sequence, noise-free gate
    # set): every run uses the operations and the measured qubits of the circuit as it is at that moment
    from props import c03 as S03
    for cls in (CLASSES if ctx.thorough else ["binary", ctx.rng.choice(["grid", "standard", "efficient", "one"])]):
        ops_s, bad_s = S03.same_simulator_case(ctx.rng, cls); ctx.count()
        if bad_s:
            fails.append((cls, ops_s, None, [f"one simulator object, several circuits / circuit objects edited in place: {bad_s}"]))
    # a transient failure of one gate-set request, the build call repeated by the caller
    for cls in CLASSES:
        for _ in range(12 if ctx.thorough else 4):
            hist_f, bad_f = fault_retry_case(ctx.rng, cls); ctx.count()
            if bad_f:
                fails.append((cls, hist_f, None, [f"circuit object used directly, {len(hist_f)} build calls: {bad_f}", {"fault": True}]))
    # relabelling and marginals
    for _ in range(30 if ctx.thorough else 8):
        ops, ops2, bad = relabel_check(ctx.rng, ctx.rng.randint(2, 4)); ctx.count()
        if bad:
            fails.append(("binary", ops, None, bad))
    for cls in CLASSES:
        for _ in range(10 if ctx.thorough else 2):
            r = marginal_check(ctx.rng, cls, ctx.rng.randint(2, 4))
            if r is None:
                continue
            ctx.count()
            if r[2]:
                fails.append((cls, r[1], None, r[2]))
    ctx.sample({"cls": cs[-1][0], "nqubit": cs[-1][2], "ops": cs[-1][1], "impl_calls": reals[-1].get("calls", [])[:3]})
    cov["distinct_nontrivial"] = len(nontrivial)
    cov["rule"] = ("case = (circuit class, native-basis op list, nqubit): all five classes; layered classes on labels 0..n-1 with adjacent "
                   "pairs, index-based class on contiguous and scattered labels with arbitrary pairs; qubits first touched in random order, "
                   "both directions of cx/ecr, delays, barriers, measured subsets in random order; non-trivial = distinct case with at "
                   "least one two-qubit gate; device tables have pairwise distinct (tagged) entries")
    cov["traces_validated_against_impl"] = len(cs)
    cov["correspondence_mismatches"] = len(mism)
    cov["branch_histogram"] = hist
    cov["trusted_base"] += [
        "hand-written wiring model QG/Model/Wiring.lean, tied by exact differential correspondence on every case of this run "
        "(real MrAndersonSimulator.run with a recording gate set; the single shot is intercepted to snapshot the circuit object)",
        "Qiskit's QuantumCircuit records the instructions it is given; the role table of the oracle is read off the property "
        "statement and C06's hand-off theorems"]
    ctx.assumptions += ["circuits over the native operations; layered classes: qubit set {0..n-1}, adjacent pairs; nqubit = number of used qubits",
                        "current virtual phases are decided by C03 (noise-free end-to-end oracle); here phases are compared with the model only"]
    seen = set()
    for cls, ops, n, bad in fails:
        sig = classify(bad)
        k = json.dumps(sig, sort_keys=True)
        if k in seen:
            continue
        seen.add(k)
        ctx.violation(sig, {"cls": cls, "ops": ops, "nqubit": n, "failure": bad}, f"{cls} circuit {json.dumps(ops)}: {bad[0]}")
    if not fails:
        if mism:
            cls, ops, n, d = mism[0]
            ctx.violation({"kind": "correspondence"}, {"cls": cls, "ops": ops, "nqubit": n, "diff": d,
                          "broken": "correspondence real pipeline vs QG.Model.Wiring"},
                          f"model and implementation disagree ({d[0]}) although the oracle passes on every case", no_failing_input=True)
        if not lean.ok:
            ctx.violation({"kind": "proof"}, {"broken": lean.failed}, "Lean obligations of C08 do not check; the oracle passes on every case",
                          no_failing_input=True)


def replay(ctx, path):
    rp = json.load(open(path))["replay"]
    extra = next((x for x in rp.get("failure", []) if isinstance(x, dict)), {})
    if extra.get("fault"):
        import random
        for sd in range(60):
            h, b = fault_retry_case(random.Random(sd), rp["cls"])
            if b:
                print(rp["cls"], "build calls", json.dumps(h)[:400]); print("oracle:", b); return 1
        print("transient failure + repeated build call: oracle holds on 60 histories"); return 0
    if "history" in extra:
        from props import c11 as H11
        n, depth, hist = extra["history"]["n"], extra["history"]["depth"], rp["ops"]
        snaps, raised, bad, circ = H11.run_history(rp["cls"], n, depth, hist, np.eye(1, 2 ** n)[0].astype(complex))
        b2 = H11.fresh_suffix_check(rp["cls"], n, depth, hist, snaps[-1]) if (raised is None and snaps) else None
        print(rp["cls"], "history", json.dumps(hist)); print("oracle:", b2 or "holds")
        return 1 if b2 else 0
    if "ops" not in rp or rp.get("nqubit") is None:
        print("replay without a single-run input:", json.dumps(rp)[:500]); return 1
    dp = None
    if "device_param" in extra:
        dp = {k: (np.array(v) if k != "dt" else v) for k, v in extra["device_param"].items()}
        dp["metadata"] = {}
    r = W.observe_run(rp["cls"], rp["ops"], rp["nqubit"], device_param=dp)
    bad = oracle(rp["cls"], rp["ops"], rp["nqubit"], r, dp=dp)
    print(rp["cls"], rp["ops"]); print("oracle:", bad or "holds")
    return 1 if bad else 0
