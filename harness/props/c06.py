"""C06 — composite two-qubit gates apply each qubit's own noise on that qubit.

Tie: translator (factories.py source text -> lean/QG/Gen/Factories.lean on every run) + translation validation.
Lean: QG.Props.C06 (handoff_* : every composite factory is a pulse sequence whose evaluator hands each slot-r pulse the
record of the qubit in slot r and each CR pulse the derived error and both records; pcr_*; one_sided_*).
Oracle (independent of the translator): a spy on the real constituent factories and on np.kron — every constituent call is
recorded with the arguments it received, its owner qubit is inferred from the (tagged) phase it was given, the tensor slot from
the np.kron call its result went into.
"""
import json, math
import numpy as np
from qgv import core, gatecheck as gc

TG = 35e-9
FACT = {"CNOT": "CNOTFactory", "CNOT_inv": "CNOTInvFactory", "ECR": "ECRFactory", "ECR_inv": "ECRInvFactory"}


def schedule_t_cr(gate, t):
    """duration of each cross-resonance pulse in the documented pulse sequences"""
    return (t - 3 * TG) / 2 if gate == "CNOT_inv" else t / 2 - TG


def derived_pcr(gate, p2, pc, pt):
    """error of the CR pulses such that the whole sequence has the two-qubit error p2 (fidelities multiply)"""
    k = 3 if gate == "CNOT_inv" else 1
    x = (1 - 0.75 * p2) ** 2 / ((1 - 0.75 * pc) ** 2 * (1 - 0.75 * pt) ** k)
    return max(0.0, (4 / 3) * (1 - x ** 0.25)) if x >= 0 else float("nan")       # never negative: 0 where the derivation gives < 0


def make_args(rng, mode="asym"):
    a = {"phi_ctr": rng.uniform(0.1, 1.4), "phi_trg": rng.uniform(1.7, 3.0),
         "t": rng.choice([rng.uniform(6, 20), rng.uniform(3.1, 6)]) * TG,
         "p2": rng.uniform(0.03, 0.12), "pc": rng.uniform(1e-4, 3e-3), "pt": rng.uniform(1e-4, 3e-3),
         "T1c": rng.uniform(2e-6, 300e-6), "T1t": rng.uniform(2e-6, 300e-6)}
    a["T2c"] = rng.uniform(0.3, 2.0) * a["T1c"]; a["T2t"] = rng.uniform(0.3, 2.0) * a["T1t"]
    if mode == "ctr-only":
        a.update(pt=0.0, T1t=0.0, T2t=0.0, p2=a["pc"])
    if mode == "trg-only":
        a.update(pc=0.0, T1c=0.0, T2c=0.0)
    if mode == "dephasing-only":                 # relaxation off (T1 = 0) on one or both qubits, pure dephasing on
        if rng.random() < 0.7:
            a.update(T1c=0.0, T2c=rng.uniform(5e-6, 200e-6))
        if rng.random() < 0.7:
            a.update(T1t=0.0, T2t=rng.uniform(5e-6, 200e-6))
    return a


def spy(gate, a, pulse_desc, seed):
    """run the real composite factory with spies on its constituents and on np.kron"""
    import quantum_gates._gates.factories as F
    from quantum_gates._gates.integrator import Integrator
    fac = getattr(F, FACT[gate])(Integrator(gc.build_pulse(pulse_desc)))
    via = a.get("_via")
    if via == "deepcopy":                        # what the simulator does with the gate set for every shot
        import copy
        fac = copy.deepcopy(fac)
    elif via == "pickle":                        # what a process pool does with it
        import pickle
        fac = pickle.loads(pickle.dumps(fac))
    if a.get("_history"):
        # the SAME factory object has served the same gate time and two-qubit error with OTHER single-qubit errors before
        np.random.seed(seed ^ 0x1234)
        with np.errstate(all="ignore"):
            fac.construct(a["phi_ctr"], a["phi_trg"], a["t"], a["p2"], a["pc"] * 3.0 + 1e-4, a["pt"] * 0.5 + 2e-4, a["T1c"], a["T2c"], a["T1t"], a["T2t"])
            fac.construct(a["phi_ctr"], a["phi_trg"], a["t"], a["p2"], 0.9 * a["p2"], 0.9 * a["p2"], a["T1c"], a["T2c"], a["T1t"], a["T2t"])
    calls, krons = [], []
    restore = []
    for attr, sub in list(vars(fac).items()):
        if hasattr(sub, "construct"):
            orig = sub.construct

            def wrapper(*args, _orig=orig, _attr=attr):
                before = np.random.get_state()
                r = _orig(*args)
                calls.append({"attr": _attr, "args": [float(x) for x in args], "result": np.array(r), "rng_before": before})
                return r
            sub.construct = wrapper
            restore.append((sub, orig))
    okron = np.kron

    def kron(x, y):
        krons.append((np.array(x), np.array(y)))
        return okron(x, y)
    np.kron = kron
    try:
        np.random.seed(seed)
        with np.errstate(all="ignore"):
            G = fac.construct(a["phi_ctr"], a["phi_trg"], a["t"], a["p2"], a["pc"], a["pt"], a["T1c"], a["T2c"], a["T1t"], a["T2t"])
        spy.last_result = np.array(G, dtype=complex)
    finally:
        np.kron = okron
        for sub, orig in restore:
            if "construct" in vars(sub):
                del sub.construct
    return calls, krons


def owner_by_phase(psi, a):
    hit = []
    for q, phi in (("c", a["phi_ctr"]), ("t", a["phi_trg"])):
        for sgn in (1, -1):
            r = (psi + sgn * phi) / (math.pi / 2)
            if abs(r - round(r)) < 1e-9:
                hit.append(q)
    return hit[0] if len(set(hit)) == 1 else None


def find_call(M, calls):
    for k, c in enumerate(calls):
        R = c["result"]
        if R.shape != M.shape:
            continue
        for z in (1, -1j, 1j, -1):
            if np.allclose(M, z * R, rtol=0, atol=1e-14):
                return k
    return None


def oracle(gate, a, pulse_desc, seed):
    """returns list of failure texts (empty = the hand-off obeys C06)"""
    try:
        calls, krons = spy(gate, a, pulse_desc, seed)
    except Exception as e:                       # noqa
        return [f"raised {type(e).__name__}: {e}"]
    rec = {"c": (a["pc"], a["T1c"], a["T2c"]), "t": (a["pt"], a["T1t"], a["T2t"])}
    bad, owner = [], {}
    # every constituent is a pulse OF THIS GATE SET: sampled from the same generator state with the same arguments, the elementary
    # gate of a gate set on the same pulse gives the same matrix (so the composite's noise is that of the pulse sequence on its pulse)
    prim = {"cr_c": "CR", "single_qubit_gate_c": "single_qubit_gate", "x_c": "X", "sx_c": "SX", "relaxation_c": "relaxation"}
    try:
        from quantum_gates._gates.gates import Gates
        ref = Gates(gc.build_pulse(pulse_desc))
        keep = np.random.get_state()
        for c in calls:
            if c["attr"] in prim and "rng_before" in c:
                np.random.set_state(c["rng_before"])
                with np.errstate(all="ignore"):
                    R = np.array(getattr(ref, prim[c["attr"]])(*c["args"]), dtype=complex)
                got = np.array(c["result"], dtype=complex)
                if R.shape == got.shape and np.isfinite(R).all() and not float(np.abs(R - got).max()) <= 1e-12:
                    bad.append(f"the {c['attr']} constituent with arguments {tuple(c['args'])} is not the {prim[c['attr']]} pulse of a gate set on the same pulse "
                               f"{pulse_desc} (same generator state): it differs by {float(np.abs(R - got).max()):.3e}")
                    break
        np.random.set_state(keep)
    except Exception as e:                       # noqa  (a gate set without these primitives: nothing to compare)
        pass
    for k, c in enumerate(calls):
        if c["attr"] in ("x_c", "sx_c", "single_qubit_gate_c"):
            psi = c["args"][-4]
            q = owner_by_phase(psi, a)
            if q is None:
                bad.append(f"pulse {k} ({c['attr']}): phase {psi} mentions neither or both qubits' phases")
                continue
            owner[k] = q
            if tuple(c["args"][-3:]) != rec[q]:
                other = "control" if q == "t" else "target"
                bad.append(f"{c['attr']} pulse with phase of the {'control' if q == 'c' else 'target'} qubit was handed "
                           f"(p,T1,T2)={tuple(c['args'][-3:])}, that qubit's own values are {rec[q]}"
                           + (f" (these are the {other}'s)" if tuple(c['args'][-3:]) == rec['c' if q == 't' else 't'] else ""))
    slots = {0: set(), 1: set()}
    for x, y in krons:
        kx, ky = find_call(x, calls), find_call(y, calls)
        if kx is None or ky is None:
            bad.append("a np.kron operand is not the result of a constituent call")
            continue
        for k, other in ((kx, ky), (ky, kx)):
            if calls[k]["attr"] == "relaxation_c" and other in owner:
                q = "t" if owner[other] == "c" else "c"
                owner[k] = q
                if tuple(calls[k]["args"][1:]) != rec[q][1:]:
                    bad.append(f"idle relaxation on the {'control' if q == 'c' else 'target'} qubit (tensor partner of a "
                               f"{calls[other]['attr']} pulse of the other qubit) was handed (T1,T2)={tuple(calls[k]['args'][1:])}, "
                               f"that qubit's own values are {rec[q][1:]}")
        if kx in owner and ky in owner:
            if owner[kx] == owner[ky]:
                bad.append("both tensor slots of one np.kron hold pulses of the same qubit")
            slots[0].add(owner[kx]); slots[1].add(owner[ky])
    if len(slots[0]) > 1 or len(slots[1]) > 1:
        bad.append(f"tensor slots are not used consistently: slot0={sorted(slots[0])}, slot1={sorted(slots[1])}")
    crs = [c for c in calls if c["attr"] == "cr_c"]
    if len(slots[0]) == 1 and len(slots[1]) == 1:
        q0, q1 = next(iter(slots[0])), next(iter(slots[1]))
        for c in crs:
            if tuple(c["args"][4:8]) != rec[q0][1:] + rec[q1][1:]:
                bad.append(f"CR pulse was handed (T1,T2,T1,T2)={tuple(c['args'][4:8])}, slot order demands {rec[q0][1:] + rec[q1][1:]}")
    if len({c["args"][3] for c in crs}) > 1:
        bad.append("the CR pulses of one gate were handed different two-qubit errors")
    want_pcr, want_t = derived_pcr(gate, a["p2"], a["pc"], a["pt"]), schedule_t_cr(gate, a["t"])
    for c in crs:
        if want_pcr == want_pcr and not abs(c["args"][3] - want_pcr) <= 1e-12:
            bad.append(f"a CR pulse was handed the two-qubit error {c['args'][3]!r}, the error derived from (p_2q, p_ctr, p_trg) is {want_pcr!r}")
            break
        if not abs(c["args"][2] - want_t) <= 1e-18 + 1e-12 * abs(want_t):
            bad.append(f"a CR pulse was handed the duration {c['args'][2]!r}, the pulse sequence schedules {want_t!r} "
                       f"(gate time {a['t']!r})")
            break
    # the sampled gate is the product of its pulse layers, every sampled pulse entering exactly once (independent pulses)
    if not bad:
        import itertools
        layers = [np.kron(x, y) for x, y in krons] + [c["result"] for c in crs]
        G = spy.last_result
        ok = False
        if len(layers) <= 6 and np.isfinite(G).all():
            i = np.unravel_index(np.argmax(np.abs(G)), G.shape)
            for perm in itertools.permutations(range(len(layers))):
                P = np.eye(4, dtype=complex)
                for k in perm:
                    P = layers[k] @ P
                if abs(P[i]) > 1e-12 and np.abs(G - (G[i] / P[i]) * P).max() <= 1e-10:
                    ok = True
                    break
            if not ok:
                bad.append(f"the sampled gate is not the product of its {len(layers)} pulse layers with every sampled pulse entering exactly "
                           "once (a sampled pulse is reused, dropped, or replaced): the pulses of the sequence are not sampled independently")

    return bad, (crs[0]["args"][3] if crs else None), len(calls)


def main(ctx):
    cov = ctx.coverage
    ir, fmeta, gmeta, tie_broken = gc.regenerate()
    lean = ctx.lean("QG.Props.C06") if tie_broken is None else None
    tv_n, tv_mism = gc.translation_validation(ctx, ir, n_per=2) if ir is not None else (0, [])
    rng = ctx.rng
    fails, nontrivial, hist, ncalls = [], set(), {}, 0
    reps = 12 if ctx.thorough else 4
    pds = gc.pulse_descs(rng, ctx.thorough)
    for gate in FACT:
        pcr_seen = {}
        for mode in ("asym", "ctr-only", "trg-only", "dephasing-only"):
            for r in range(reps):
                a = make_args(rng, mode)
                pd = pds[r % len(pds)]
                if r % 4 == 2 or (r % 4 == 0 and r > 0):
                    a["_history"] = True         # the factory object has a history with the same gate time and two-qubit error
                if r % 4 == 1:
                    a["_via"] = "deepcopy"       # the factory object is a deep copy (as inside a simulator shot) ...
                elif r % 4 == 3 and pd[0] != "user-smooth":
                    a["_via"] = "pickle"         # ... or went through pickle (as inside a process pool)
                seed = rng.randrange(2 ** 31)
                res = oracle(gate, a, pd, seed)
                ctx.count()
                nontrivial.add(core.sha([gate, a]))
                hist[f"{gate}/{mode}"] = hist.get(f"{gate}/{mode}", 0) + 1
                if isinstance(res, list):
                    fails.append((gate, a, pd, seed, res)); continue
                bad, pcr, n = res
                ncalls += n
                if mode == "ctr-only" and pcr is not None and pcr != 0.0:
                    bad.append(f"with the target quiet and p_2q = p_ctr the derived CR error is {pcr}, not 0")
                if bad:
                    fails.append((gate, a, pd, seed, bad))
        # the four composites requested with the SAME numbers one after the other in one process (both orders)
        a = make_args(rng)
        earlier = []
        for g2 in (list(FACT) + list(reversed(list(FACT)))):
            res = oracle(g2, a, pds[0], 7)
            ctx.count()
            rec = dict(a, _earlier_gates=list(earlier))
            if isinstance(res, list):
                fails.append((g2, rec, pds[0], 7, res))
            elif res[0]:
                fails.append((g2, rec, pds[0], 7, [b + " (after the other composite gates had been requested with the same numbers)" for b in res[0]]))
            earlier.append(g2)
        # the derived error depends on the three probabilities only
        base = make_args(rng)
        vals = set()
        for _ in range(3):
            b = make_args(rng); b.update(p2=base["p2"], pc=base["pc"], pt=base["pt"])
            res = oracle(gate, b, pds[0], 1)
            ctx.count()
            if not isinstance(res, list):
                vals.add(res[1])
        if len(vals) > 1:
            fails.append((gate, base, pds[0], 1, [f"derived CR error changes with T1/T2/phases/duration: {sorted(vals)}"]))
    ctx.sample({"gate": "CNOT_inv", "args": make_args(rng), "pulse": pds[2]})
    cov["distinct_nontrivial"] = len(nontrivial)
    cov["rule"] = ("case = (composite gate, tagged phases, duration, pairwise distinct control/target p,T1,T2, pulse, seed); modes: "
                   "asymmetric, control-only noise (target and two-qubit error off), target-only; every case is non-trivial "
                   "(all six per-qubit values distinct or one side zero); oracle = spy on constituent construct calls and np.kron")
    cov["constituent_calls_observed"] = ncalls
    cov["programs"] = len(FACT)
    cov["translation_validation_cases"] = tv_n
    cov["translation_validation_mismatches"] = len(tv_mism)
    cov["case_histogram"] = hist
    cov["trusted_base"] += [
        "translator (harness/qgv/{pyexpr,pymat}.py, harness/gen/factories*.py); validated on every run by evaluating the IR against "
        "the real construct under injected samples, and independently by the spy oracle on the real hand-off",
        "equality of matrices for all samples yields equality of noise statistics given independent constituent draws "
        "(numpy's global generator; C10)"]
    ctx.assumptions += ["the qubit a single-qubit pulse acts on is identified by the phase it is given (phases of control and target "
                        "are generic and distinct); the qubit of an idle period by its tensor partner"]
    seen = set()
    for gate, a, pd, seed, bad in fails:
        if gate in seen:
            continue
        seen.add(gate)
        ctx.violation({"kind": "handoff", "gate": gate}, {"gate": gate, "args": a, "pulse": pd, "seed": seed, "failure": bad},
                      f"{FACT[gate]}.construct: {bad[0]}")
    if not fails:
        broken = tie_broken or (None if lean.ok else f"Lean obligations fail: {list(lean.failed.items())[:3]}") or \
            (f"translation validation: IR and implementation differ: {tv_mism[0]}" if tv_mism else None)
        if broken:
            ctx.violation({"kind": "tie"}, {"broken": broken}, broken + "; the spy oracle found no failing input", no_failing_input=True)


def replay(ctx, path):
    rp = json.load(open(path))["replay"]
    if "gate" not in rp:
        print("replay names a broken obligation:", json.dumps(rp)[:400]); return 1
    for g in rp["args"].get("_earlier_gates", []):           # the same numbers were requested from these composites first
        oracle(g, rp["args"], rp["pulse"], rp["seed"])
    res = oracle(rp["gate"], rp["args"], rp["pulse"], rp["seed"])
    bad = res if isinstance(res, list) else res[0]
    print("gate", rp["gate"], "args", rp["args"]); print("oracle:", bad or "holds")
    return 1 if bad else 0
