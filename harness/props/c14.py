"""C14 — a run returns a normalised distribution over all measured outcomes.

Lean: QG.Props.C14 about QG.Model.RunValidate (`run` = _process_layout ; "None qubit measured" ; _validate_input_of_run ;
      [simulation = parameter] ; r/Σr with its assert ; _measurament).
Tie:  hand-written model + differential correspondence through the driver `drv_c14`:
      * every case is a JSON *recipe* (circuit ops, argument values, circuit class, gate set) from which the Python
        arguments are built; the real `MrAndersonSimulator.run` is executed with `_perform_simulation` wrapped from the
        outside so that the mean vector it returns is recorded;
      * the model gets the *abstraction* of the very same Python objects (`abs_val`, `abs_circ`) and the recorded mean
        vector (as IEEE bit patterns) and must predict the exception class or the returned dict (keys, order exact;
        values to 1e-12 because `np.sum` may add pairwise);
      * `_measurament` alone is compared bit-exactly on integer-valued and float vectors (op "measurament").
Oracle (independent of the model): the statement of C14 evaluated on the returned dict / raised exception, with the
      argument classes of the statement recognised directly on the Python objects (`classify`).
"""
import collections, collections.abc, copy, json, math, numbers, os, struct, types
import numpy as np
from qgv import core

CLASSES = ["Circuit", "StandardCircuit", "EfficientCircuit", "OneCircuit", "BinaryCircuit"]
LAYERED = CLASSES[:4]
DEVDIR = os.path.join(core.REPO, "tests", "helpers", "device_parameters")
DEVKEYS = ["T1", "T2", "p", "rout", "p_int", "t_int", "tm", "dt"]
TOL = 1e-12

# ------------------------------------------------------------------------------------------------ real-code access

_cache = {}


def repo():
    if "repo" not in _cache:
        from qiskit import QuantumCircuit
        from quantum_gates.simulators import MrAndersonSimulator
        from quantum_gates.gates import standard_gates, noise_free_gates
        from quantum_gates._simulation import circuit as cm
        from quantum_gates.utilities import DeviceParameters
        _cache["repo"] = types.SimpleNamespace(
            QuantumCircuit=QuantumCircuit, Sim=MrAndersonSimulator, standard_gates=standard_gates,
            noise_free_gates=noise_free_gates, DeviceParameters=DeviceParameters,
            classes={c: getattr(cm, c) for c in CLASSES})
    return _cache["repo"]


def device_dict(name):
    """device parameters exactly as the repository's tests build them (DeviceParameters.load_from_texts().__dict__())"""
    key = ("dev", name)
    if key not in _cache:
        R = repo()
        if name.startswith("fake:"):
            from qiskit_ibm_runtime import fake_provider
            b = getattr(fake_provider, name[5:])()
            dp = R.DeviceParameters(list(range(b.num_qubits)))
            dp.load_from_backend(b)
        else:
            loc = os.path.join(DEVDIR, name) + "/"
            n = len(np.loadtxt(loc + "T1.txt"))
            dp = R.DeviceParameters(list(range(n)))
            dp.load_from_texts(loc)
        _cache[key] = (dp, dp.__dict__())
    return _cache[key]


class InjectedGates(object):
    """strongly non-unitary deterministic gate set with the method names of `Gates`; `kind`:
    pos (positive reals) | complex | zero | nan | inf (the last three leave the domain "finite entries, non-zero")."""

    def __init__(self, seed, kind="pos"):
        r = np.random.RandomState(seed)
        self.kind = kind

        def mat(d):
            m = r.uniform(0.2, 1.6, (d, d))
            if kind == "complex":
                m = m * np.exp(2j * np.pi * r.uniform(0, 1, (d, d)))
            if kind == "zero":
                m = np.zeros((d, d))
            if kind == "nan":
                m = m.copy(); m[0, 0] = np.nan
            if kind == "inf":
                m = m.copy(); m[0, 0] = np.inf
            return m
        self.m = {k: mat(2) for k in ["relaxation", "bitflip", "depolarizing", "single_qubit_gate", "X", "SX"]}
        self.m.update({k: mat(4) for k in ["CR", "CNOT", "CNOT_inv", "ECR", "ECR_inv"]})

    def relaxation(self, *a): return self.m["relaxation"].copy()
    def bitflip(self, *a): return self.m["bitflip"].copy()
    def depolarizing(self, *a): return self.m["depolarizing"].copy()
    def single_qubit_gate(self, *a): return self.m["single_qubit_gate"].copy()
    def X(self, *a): return self.m["X"].copy()
    def SX(self, *a): return self.m["SX"].copy()
    def CR(self, *a): return self.m["CR"].copy()
    def CNOT(self, *a): return self.m["CNOT"].copy()
    def CNOT_inv(self, *a): return self.m["CNOT_inv"].copy()
    def ECR(self, *a): return self.m["ECR"].copy()
    def ECR_inv(self, *a): return self.m["ECR_inv"].copy()


class Duck(object):
    """not a QuantumCircuit, but has `.data`"""


# ------------------------------------------------------------------------------------------------ recipes -> objects

def build_circuit(rec):
    R = repo()
    t = rec["py"]
    if t == "none": return None
    if t == "list": return []
    if t == "str": return "circuit"
    qc = R.QuantumCircuit(rec["nreg"], rec["nclbits"])
    for op in rec["ops"]:
        name, qs = op[0], op[1]
        if name == "rz": qc.rz(op[2], qs[0])
        elif name == "sx": qc.sx(qs[0])
        elif name == "x": qc.x(qs[0])
        elif name == "cx": qc.cx(qs[0], qs[1])
        elif name == "ecr": qc.ecr(qs[0], qs[1])
        elif name == "delay": qc.delay(op[2], qs[0])
        elif name == "barrier": qc.barrier(*qs)
        elif name == "measure": qc.measure(qs[0], op[2])
        else: raise ValueError(name)
    if t == "duck":
        d = Duck(); d.data = qc.data
        return d
    return qc


def build_value(rec):
    """argument recipes (shots, nqubit, psi0, user layout, device_param)"""
    t = rec["py"]
    if t == "int": return int(rec["v"])
    if t == "bool": return bool(rec["v"])
    if t == "float": return float(rec["v"])
    if t == "npint": return np.int64(rec["v"])
    if t == "npfloat": return np.float64(rec["v"])
    if t == "none": return None
    if t == "str": return str(rec["v"])
    if t == "intlist": return list(rec["v"])
    if t in ("list", "tuple"):
        v = [1.0] + [0.0] * (rec["n"] - 1) if rec["n"] else []
        return v if t == "list" else tuple(v)
    if t in ("ndarray", "matrix"):
        shape = tuple(rec["shape"])
        size = int(np.prod(shape)) if shape else 1
        r = np.random.RandomState(rec.get("seed", 0))
        fill = rec.get("fill", "basis0")
        if fill == "basis0":
            v = np.zeros(size); v[:1] = 1.0
        elif fill == "basis":
            v = np.zeros(size); v[r.randint(size)] = 1.0
        elif fill == "basis-int":                # a basis state written with integers: np.array([0, 1, 0, 0])
            v = np.zeros(size, dtype=int); v[r.randint(size)] = 1
        elif fill == "rand":
            v = r.normal(size=size); v = v / np.linalg.norm(v)
        else:
            v = r.normal(size=size) + 1j * r.normal(size=size); v = v / np.linalg.norm(v)
        v = v.reshape(shape)
        return np.matrix(v) if t == "matrix" else v
    if t == "device":
        dp, d = device_dict(rec["name"])
        wrap = rec.get("wrap", "dict")
        if wrap == "object": return dp
        d = dict(d)
        if rec.get("truncate") is not None:
            k = rec["truncate"]
            for key in DEVKEYS[:-1]:
                d[key] = d[key][:k, :k] if d[key].ndim == 2 else d[key][:k]
        for key in rec.get("drop", []):
            d.pop(key, None)
        if rec.get("T1") == "scalar": d["T1"] = 5e-5
        if rec.get("T1") == "none": d["T1"] = None
        if rec.get("T1") == "list": d["T1"] = [float(x) for x in d["T1"]]
        if wrap == "ordered": return collections.OrderedDict(d)
        if wrap == "proxy": return types.MappingProxyType(d)
        return d
    raise ValueError(t)


def build_gates(rec):
    R = repo()
    if rec == "noise_free": return R.noise_free_gates
    if rec == "standard": return R.standard_gates
    return InjectedGates(rec["inj"], rec.get("kind", "pos"))


def build(case):
    return {"circ": build_circuit(case["circ"]), "layout": build_value(case["layout"]), "psi0": build_value(case["psi0"]),
            "shots": build_value(case["shots"]), "device": build_value(case["device"]),
            "nqubit": build_value(case["nqubit"]), "gates": build_gates(case["gates"]), "cls": case["cls"],
            "np_seed": case.get("np_seed", 0)}


# ------------------------------------------------------------------------------------------------ running the real code

def f2b(x):
    return struct.unpack("<Q", struct.pack("<d", float(x)))[0]


def b2f(b):
    return struct.unpack("<d", struct.pack("<Q", int(b)))[0]


def run_real(objs):
    """returns dict(kind='ok'|'err', exc, stage, mean, result)"""
    R = repo()
    sim = R.Sim(gates=objs["gates"], CircuitClass=R.classes[objs["cls"]], parallel=False)
    rec = {"stage": "pre", "mean": None}
    orig = sim._perform_simulation
    orig_prep = sim._preprocess_circuit

    def spy_prep(*a, **k):
        rec["stage"] = "prep"               # _preprocess_circuit: its only raising statement is modelled (preprocessCheck)
        out = orig_prep(*a, **k)
        rec["stage"] = "prep-done"
        return out
    sim._preprocess_circuit = spy_prep

    def spy(*a, **k):
        rec["stage"] = "sim"
        out = orig(*a, **k)
        rec["mean"] = np.array(out, dtype=float, copy=True)
        rec["stage"] = "post"
        return out
    sim._perform_simulation = spy
    import quantum_gates._simulation.simulator as simmod
    orig_single = simmod._single_shot
    shots_rec = []

    def spy_single(args):
        out = orig_single(args)
        shots_rec.append(np.array(out, dtype=float, copy=True))
        return out
    simmod._single_shot = spy_single
    np.random.seed(objs.get("np_seed", 0))      # the noisy gate sets draw from numpy's global generator
    try:
        res = sim.run(objs["circ"], objs["layout"], objs["psi0"], objs["shots"], objs["device"], objs["nqubit"])
    except BaseException as e:          # noqa  (AssertionError etc. are part of what is observed)
        if isinstance(e, (KeyboardInterrupt, SystemExit, MemoryError)):
            raise
        return {"kind": "err", "exc": type(e).__name__, "msg": str(e)[:160], "stage": rec["stage"], "mean": rec["mean"],
                "result": None, "shots_rec": shots_rec}
    finally:
        simmod._single_shot = orig_single
    return {"kind": "ok", "exc": None, "msg": "", "stage": rec["stage"], "mean": rec["mean"], "result": res,
            "shots_rec": shots_rec}


# ------------------------------------------------------------------------------------------------ abstraction (Python -> model)

def abs_val(x):
    """what the validation can observe of a Python value (mirrors `PyVal` of the model)"""
    if isinstance(x, bool): return {"t": "bool", "v": bool(x)}
    if type(x) is int or (isinstance(x, int) and not isinstance(x, bool)): return {"t": "int", "v": int(x)}
    if isinstance(x, np.integer): return {"t": "npint", "v": int(x)}
    if isinstance(x, (float, np.floating)): return {"t": "float"}
    if x is None: return {"t": "none"}
    if isinstance(x, str): return {"t": "str"}
    if isinstance(x, np.ndarray): return {"t": "ndarray", "shape": [int(s) for s in x.shape]}
    if isinstance(x, dict):
        if "T1" not in x: return {"t": "dict", "T1": "missing"}
        try:
            return {"t": "dict", "T1": len(x["T1"])}
        except TypeError:
            return {"t": "dict", "T1": "unsized"}
    if isinstance(x, list): return {"t": "list", "n": len(x)}
    if isinstance(x, tuple): return {"t": "tuple", "n": len(x)}
    return {"t": "other"}


def abs_circ(c):
    R = repo()
    if not hasattr(c, "data"):
        return {"t": "nodata"}
    data = []
    for inst in c.data:
        name = inst.operation.name
        qs = [q._index for q in inst.qubits]
        if name == "delay": data.append(["d", qs])
        elif name == "measure": data.append(["m", qs[0], inst.clbits[0]._index])
        else: data.append(["g", qs])
    return {"t": "qc" if isinstance(c, R.QuantumCircuit) else "duck", "data": data}


def model_request(objs, real, repaired=True):
    probs = None
    if real["mean"] is not None:
        probs = [f2b(x) for x in np.asarray(real["mean"]).ravel()]
    return {"op": "run", "repaired": repaired, "circ": abs_circ(objs["circ"]), "psi0": abs_val(objs["psi0"]),
            "shots": abs_val(objs["shots"]), "device": abs_val(objs["device"]), "nqubit": abs_val(objs["nqubit"]),
            "probs": probs}


def agree(real, ans):
    """does the model's answer describe what the real code did?  returns (bool, note)"""
    if "bad" in ans:
        return False, "driver: " + ans["bad"]
    if real["kind"] == "err":
        if real["stage"] == "sim":          # raised inside the simulation proper: the model must have reached it
            ok = isinstance(ans.get("ok"), dict)
            return ok, "real code raised inside the simulation stage; model " + ("reached it" if ok else json.dumps(ans)[:80])
        return ans.get("err") == real["exc"], ""
    if not isinstance(ans.get("ok"), list):
        return False, "model: " + json.dumps(ans)[:80]
    items = list(real["result"].items())
    if [k for k, _ in items] != [k for k, _ in ans["ok"]]:
        return False, "keys / key order differ"
    for (k, v), (_, b) in zip(items, ans["ok"]):
        m = b2f(b)
        v = float(v)
        if math.isnan(v) and math.isnan(m):
            continue
        if not abs(v - m) <= TOL * max(1.0, abs(v)):
            return False, f"value under {k}: real {v!r} model {m!r}"
    return True, ""


# ------------------------------------------------------------------------------------------------ the oracle

def circuit_facts(c):
    """(measured qubit labels in instruction order, labels used by gates/measures, labels touched by anything but a
    delay) — the oracle's own reading: a qubit is certainly used when a gate or a measurement acts on it, certainly not
    used when only delays act on it; a qubit touched by barriers only is left undecided"""
    meas, used, touched = [], [], []
    for inst in c.data:
        name = inst.operation.name
        qs = [c.find_bit(q).index for q in inst.qubits]
        if name == "measure":
            meas.append(qs[0])
        if name != "delay":
            for q in qs:
                if name != "barrier" and q not in used:
                    used.append(q)
                if q not in touched:
                    touched.append(q)
    return meas, used, touched


def classify(objs):
    """the argument classes of the statement, recognised directly on the Python objects.
    returns (named_defects, strictly_valid, facts)"""
    R = repo()
    circ, psi0, shots, device, nqubit = objs["circ"], objs["psi0"], objs["shots"], objs["device"], objs["nqubit"]
    named = []
    is_qc = isinstance(circ, R.QuantumCircuit)
    meas, used, touched = circuit_facts(circ) if is_qc else ([], [], [])
    if is_qc and not meas:
        named.append("no-measurement")
    if not isinstance(shots, numbers.Integral):
        named.append("shots-not-integer")
    elif shots < 1:
        named.append("shots-below-one")
    if not isinstance(device, collections.abc.Mapping):
        named.append("device-not-mapping")
    if isinstance(nqubit, numbers.Integral):
        if isinstance(psi0, (np.ndarray, list, tuple)):
            want = (2 ** int(nqubit),) if nqubit >= 0 else None
            if want is None or tuple(np.shape(psi0)) != want:
                named.append("psi0-length")
        if is_qc and nqubit > len(touched):
            named.append("more-qubits-than-used")
        if isinstance(device, collections.abc.Mapping) and "T1" in device and hasattr(device["T1"], "__len__") \
                and nqubit > len(device["T1"]):
            named.append("more-qubits-than-device")
    strict = (not named and is_qc and type(shots) in (int, bool) and type(nqubit) is int and nqubit == len(used)
              and len(touched) == len(used)
              and isinstance(psi0, np.ndarray) and bool(np.all(np.isfinite(psi0))) and bool(np.any(psi0 != 0))
              and isinstance(device, dict) and all(k in device for k in DEVKEYS)
              and all(hasattr(device[k], "__len__") and len(device[k]) > max(used) for k in DEVKEYS[:-1])
              and (isinstance(objs["gates"], InjectedGates) and objs["gates"].kind in ("pos", "complex")
                   or not isinstance(objs["gates"], InjectedGates)))
    return named, strict, {"meas": meas, "used": used, "has_data": hasattr(circ, "data")}


def oracle(objs, real, family_valid):
    """None, or a description of how the statement of C14 fails on this call.  `family_valid`: the generator built the
    call as a valid one for this circuit class (labels 0..n-1 and adjacent pairs for the layered classes, calibrated
    pairs for noisy gate sets)."""
    named, strict, facts = classify(objs)
    if named and facts["has_data"]:
        if real["kind"] == "ok":
            return "named", f"inconsistent arguments ({', '.join(named)}) produced a result"
        if real["exc"] != "ValueError":
            return "named", f"inconsistent arguments ({', '.join(named)}) rejected with {real['exc']} instead of ValueError"
        return "named", None
    if strict and family_valid:
        if real["kind"] != "ok":
            return "valid", f"valid call raised {real['exc']}: {real['msg'][:100]}"
        res = real["result"]
        if not isinstance(res, dict):
            return "valid", "result is not a mapping"
        meas = facts["meas"]
        if not all(isinstance(v, (float, int, np.floating, np.integer)) and not isinstance(v, (bool, np.bool_)) for v in res.values()):
            return "valid", f"values are not real numbers: {[type(v).__name__ for v in res.values()][:3]}"
        vals = [float(v) for v in res.values()]
        if any(math.isnan(v) or v < -1e-15 for v in vals):
            return "valid", f"negative or NaN value: {min(vals)!r}"
        if not abs(math.fsum(vals) - 1.0) <= 1e-9:
            return "valid", f"values sum to {math.fsum(vals)!r}"
        if len(set(meas)) == len(meas):
            m = len(meas)
            want = {format(i, f"0{m}b") for i in range(2 ** m)}
            if set(res.keys()) != want or len(res) != 2 ** m:
                return "valid", f"keys are not the 2^{m} bit strings: {sorted(res.keys())[:8]}"
            return "valid", None
        return "valid-repeated-measure", None
    return "unspecified", None


# ------------------------------------------------------------------------------------------------ generators (recipes)

def V(py, **kw):
    d = {"py": py}; d.update(kw); return d


CAL = {"ibm_kyiv": [(0, 1), (1, 2), (2, 3), (4, 3), (5, 4), (6, 5), (7, 6), (7, 8), (8, 9)],
       "ibm_kyoto": [(1, 0), (1, 2), (3, 2), (4, 3), (4, 5), (6, 5), (7, 6), (8, 7), (8, 9)]}


def gen_valid(rng, cls, gates, n, dev, shots_max, idx):
    """a valid call for circuit class `cls`: layered classes get labels 0..n-1, all touched, adjacent pairs only;
    the index-based class gets scattered labels in a 10-qubit register.  Noisy real parameters: calibrated pairs only."""
    noisy = gates == "standard"
    if cls == "BinaryCircuit":
        if noisy:
            # a connected set of labels along calibrated pairs
            labels = [rng.randrange(10)]
            while len(labels) < n:
                nb = [b if a in labels else a for a, b in CAL[dev] if (a in labels) != (b in labels)]
                labels.append(rng.choice(nb))
        else:
            labels = rng.sample(range(10), n)
        nreg = 10
    else:
        labels = list(range(n)); nreg = n
    if noisy:
        pairs = [p for p in CAL[dev] if p[0] in labels and p[1] in labels]
    elif cls == "BinaryCircuit":
        pairs = [(a, b) for a in labels for b in labels if a != b]
    else:
        pairs = [(a, b) for a in labels for b in labels if abs(a - b) == 1]
    ops = []
    need2 = cls in ("Circuit", "StandardCircuit") and n >= 2      # D7 (C01/C03): a layer list with only 2x2 entries crashes
    for _ in range(rng.randint(1, 9)):
        k = rng.random()
        if k < 0.25 and pairs:
            a, b = rng.choice(pairs); ops.append([rng.choice(["cx", "ecr"]), [a, b]])
        elif k < 0.45: ops.append(["sx", [rng.choice(labels)]])
        elif k < 0.6: ops.append(["x", [rng.choice(labels)]])
        elif k < 0.8: ops.append(["rz", [rng.choice(labels)], round(rng.uniform(-3.1, 3.1), 3)])
        elif k < 0.9: ops.append(["delay", [rng.choice(labels)], rng.choice([16, 64, 160])])
        else: ops.append(["barrier", sorted(rng.sample(labels, rng.randint(1, n)))])
    if need2 and not any(o[0] in ("cx", "ecr") for o in ops):
        a, b = rng.choice(pairs); ops.insert(rng.randrange(len(ops) + 1), [rng.choice(["cx", "ecr"]), [a, b]])
    # every label must be used (gate or measure): touch the untouched ones
    m = rng.randint(1, n)
    measured = rng.sample(labels, m)
    touched = {q for o in ops if o[0] not in ("delay", "barrier") for q in o[1]} | set(measured)
    for q in labels:
        if q not in touched:
            ops.insert(rng.randrange(len(ops) + 1), [rng.choice(["sx", "x"]), [q]])
    nclbits = rng.randint(m, m + 2)
    clbits = rng.sample(range(nclbits), m)
    mops = [["measure", [q], c] for q, c in zip(measured, clbits)]
    if rng.random() < 0.3 and ops:          # a mid-circuit position of a measure instruction (treated as terminal by the code)
        ops.insert(rng.randrange(len(ops)), mops.pop(0))
    ops += mops
    fill = rng.choice(["basis0", "basis0", "basis", "rand", "randc", "basis-int"])
    return {"family": "valid", "cls": cls, "gates": gates, "valid_for_class": True,
            "circ": V("qc", nreg=nreg, nclbits=nclbits, ops=ops),
            "layout": V("intlist", v=rng.choice([labels, list(range(n)), []])),
            "psi0": V("ndarray", shape=[2 ** n], fill=fill, seed=idx),
            "shots": V("int", v=rng.randint(1, shots_max)),
            "device": V("device", name=dev, wrap=rng.choice(["dict", "dict", "dict", "ordered"]),
                        truncate=(max(labels) + 1 if rng.random() < 0.3 else None)),   # boundary: len(T1) = nqubit for labels 0..n-1
            "nqubit": V("int", v=n)}


def base_case(rng, n=2, cls="BinaryCircuit", gates="noise_free"):
    """small valid call the malformed stream starts from (labels 0..n-1, all classes can run it)"""
    ops = [["sx", [0]], ["rz", [0], 0.7]]
    for q in range(1, n):
        ops += [["cx", [q - 1, q]], ["x", [q]]]
    measured = rng.sample(range(n), rng.randint(1, n))
    ops += [["measure", [q], i] for i, q in enumerate(measured)]
    return {"family": "base", "cls": cls, "gates": gates, "valid_for_class": True,
            "circ": V("qc", nreg=n, nclbits=n, ops=ops), "layout": V("intlist", v=list(range(n))),
            "psi0": V("ndarray", shape=[2 ** n], fill="basis0"), "shots": V("int", v=2),
            "device": V("device", name="ibm_kyiv"), "nqubit": V("int", v=n)}


SHOTS_BELOW = [V("int", v=0), V("int", v=-1), V("int", v=-7), V("bool", v=False), V("npint", v=0), V("npint", v=-2)]
SHOTS_NONINT = [V("float", v=2.0), V("float", v=2.5), V("str", v="3"), V("none"), V("float", v="nan"),
                V("npfloat", v=3.0), V("intlist", v=[2]), V("float", v=0.0), V("float", v=-1.0)]
DEVICE_NOTMAP = [V("none"), V("intlist", v=[1, 2, 3]), V("device", name="ibm_kyiv", wrap="object"), V("str", v="dev"),
                 V("int", v=5), V("tuple", n=2)]


def psi0_bad_variants(good):
    return [V("ndarray", shape=[good + 1]), V("ndarray", shape=[good - 1]), V("ndarray", shape=[2 * good]),
            V("ndarray", shape=[good // 2]), V("ndarray", shape=[good, 1]), V("ndarray", shape=[1, good]), V("ndarray", shape=[]),
            V("ndarray", shape=[0]), V("matrix", shape=[1, good]),
            V("list", n=good + 1), V("list", n=good - 1), V("tuple", n=2 * good), V("list", n=0)]


def malformed_case(rng, combo, pick):
    """one malformed call; `pick(name, variants)` selects the variant of each active defect class"""
    sh, ps, ms, nqm, dv = combo
    n = rng.randint(1, 3)
    c = base_case(rng, n, cls=rng.choice(CLASSES), gates=rng.choice(["noise_free", {"inj": 5}]))
    c["family"] = "malformed"
    c["defects"] = [x for x in (sh != "ok" and "shots-" + sh, ps != "ok" and "psi0", ms != "ok" and "nomeas",
                                nqm != "ok" and "nq>used", dv != "ok" and "device-" + dv) if x]
    if ms == "none":
        c["circ"]["ops"] = [o for o in c["circ"]["ops"] if o[0] != "measure"]
    nq = n + pick("more", [1, 2]) if nqm == "more" else n
    c["nqubit"] = V("int", v=nq)
    if rng.random() < 0.6:
        # the circuit's register has idle wires (as a transpiled circuit has): what counts is the number of qubits the circuit USES,
        # not the number of wires - a requested size between the two is "more qubits than the circuit uses"
        c["circ"]["nreg"] = max(nq, n) + rng.choice([0, 1, 3])
    if sh == "below": c["shots"] = copy.deepcopy(pick("below", SHOTS_BELOW))
    if sh == "nonint": c["shots"] = copy.deepcopy(pick("nonint", SHOTS_NONINT))
    good = 2 ** nq
    c["psi0"] = V("ndarray", shape=[good], fill="basis0") if ps == "ok" else copy.deepcopy(pick("psi0", psi0_bad_variants(good)))
    if dv == "short":
        k, t1 = pick("short", [(nq - 1, None), (0, None), (nq - 1, "list"), (max(0, nq - 2), None)])
        c["device"] = V("device", name="ibm_kyiv", truncate=k, T1=t1)
    if dv == "notmap":
        c["device"] = copy.deepcopy(pick("notmap", DEVICE_NOTMAP))
    return c


def gen_malformed(rng, variants_per_combo):
    """all combinations of the named defect classes: shots {ok, below one, not an integer} × psi0 {ok, wrong length} ×
    measurement {yes, none} × nqubit {= used, > used} × device {ok, covers fewer, not a mapping}.  Combinations with a
    single defect enumerate *every* variant of it (boundary values included: shots 0 / False, nqubit = used+1,
    len(T1) = nqubit-1, length 2^n±1); combinations of several defects draw their variants at random."""
    out = []
    nvar = {"below": len(SHOTS_BELOW), "nonint": len(SHOTS_NONINT), "psi0": len(psi0_bad_variants(4)), "more": 2, "short": 4,
            "notmap": len(DEVICE_NOTMAP)}
    for sh in ("ok", "below", "nonint"):
        for ps in ("ok", "bad"):
            for ms in ("ok", "none"):
                for nqm in ("ok", "more"):
                    for dv in ("ok", "short", "notmap"):
                        combo = (sh, ps, ms, nqm, dv)
                        active = sum(x != "ok" for x in combo)
                        if active == 0:
                            continue
                        if active == 1 and ms == "ok":
                            name = {"below": "below", "nonint": "nonint"}.get(sh) or (ps == "bad" and "psi0") or \
                                   (nqm == "more" and "more") or dv
                            for j in range(nvar[name]):
                                for _ in range(2):
                                    out.append(malformed_case(rng, combo, lambda nm, vs, j=j: vs[j]))
                        else:
                            for _ in range(variants_per_combo):
                                out.append(malformed_case(rng, combo, lambda nm, vs: rng.choice(vs)))
    return out


def gen_unspecified(rng):
    """calls that are neither valid nor in a class the statement names: the model must still predict the real code's
    exception class (or reach the simulation); no verdict of the oracle.  Also valid calls with unusual but legal
    argument types (shots=True, an OrderedDict, a garbage user layout, a numpy matrix of the right shape is NOT legal)."""
    out = []

    def mk(tag, n=2, cls="BinaryCircuit", **kw):
        c = base_case(rng, n, cls=cls)
        c["family"] = "unspecified"; c["tag"] = tag
        for k, v in kw.items():
            c[k] = v
        out.append(c)
        return c
    for cls in CLASSES:
        mk("shots=True", cls=cls, shots=V("bool", v=True))
    mk("shots=np.int64(3)", shots=V("npint", v=3))
    mk("psi0 list of the right length", psi0=V("list", n=4))
    mk("psi0 tuple of the right length", psi0=V("tuple", n=4))
    mk("psi0 None", psi0=V("none"))
    mk("psi0 None, nqubit > used", psi0=V("none"), nqubit=V("int", v=3))
    mk("psi0 list right length, device short", psi0=V("list", n=4), device=V("device", name="ibm_kyiv", truncate=1))
    mk("psi0 list right length, shots 0", psi0=V("list", n=4), shots=V("int", v=0))
    mk("psi0 list right length, device None", psi0=V("list", n=4), device=V("none"))
    mk("psi0 np.matrix (1,4)", psi0=V("matrix", shape=[1, 4]))
    for tag, v in [("nqubit 2.0", V("float", v=2.0)), ("nqubit np.int64(2)", V("npint", v=2)), ("nqubit None", V("none")),
                   ("nqubit '2'", V("str", v="2"))]:
        mk(tag, nqubit=v)
    mk("nqubit -1", nqubit=V("int", v=-1))
    mk("nqubit -1, psi0 shape (0,)", nqubit=V("int", v=-1), psi0=V("ndarray", shape=[0]))
    mk("nqubit 0, psi0 shape (1,)", nqubit=V("int", v=0), psi0=V("ndarray", shape=[1]))
    mk("nqubit True, psi0 shape (2,)", nqubit=V("bool", v=True), psi0=V("ndarray", shape=[2]))
    for cls in CLASSES:
        mk("nqubit < used qubits", n=3, cls=cls, nqubit=V("int", v=2), psi0=V("ndarray", shape=[4]))
        mk("nqubit < used qubits (1 of 2)", n=2, cls=cls, nqubit=V("int", v=1), psi0=V("ndarray", shape=[2]))
    for cls in CLASSES:          # the extra qubit carries one-qubit gates only and is not measured: nothing raises in the layered classes
        c = mk("nqubit < used qubits, third qubit idle-ish", n=3, cls=cls, nqubit=V("int", v=2), psi0=V("ndarray", shape=[4]))
        c["circ"] = V("qc", nreg=3, nclbits=2, ops=[["sx", [0]], ["cx", [0, 1]], ["sx", [2]], ["measure", [1], 0], ["measure", [0], 1]])
    mk("device {}", device=V("device", name="ibm_kyiv", drop=DEVKEYS))
    mk("device without T1", device=V("device", name="ibm_kyiv", drop=["T1"]))
    mk("device without T1, nqubit > used", device=V("device", name="ibm_kyiv", drop=["T1"]), nqubit=V("int", v=3),
       psi0=V("ndarray", shape=[8]))
    mk("device without T2", device=V("device", name="ibm_kyiv", drop=["T2"]))
    mk("device without dt", device=V("device", name="ibm_kyiv", drop=["dt"]))
    mk("device T1 scalar", device=V("device", name="ibm_kyiv", T1="scalar"))
    mk("device T1 None", device=V("device", name="ibm_kyiv", T1="none"))
    mk("device mappingproxy", device=V("device", name="ibm_kyiv", wrap="proxy"))
    mk("device OrderedDict", device=V("device", name="ibm_kyiv", wrap="ordered"))
    for tag, v in [("circuit None", V("none")), ("circuit list", V("list")), ("circuit str", V("str"))]:
        mk(tag, circ=v)
        mk(tag + ", shots 0", circ=v, shots=V("int", v=0))
        mk(tag + ", device None", circ=v, device=V("none"))
    c = mk("duck circuit with .data"); c["circ"]["py"] = "duck"
    c = mk("duck circuit with .data, shots 0", shots=V("int", v=0)); c["circ"]["py"] = "duck"
    c = mk("duck circuit without measurement"); c["circ"]["py"] = "duck"
    c["circ"]["ops"] = [o for o in c["circ"]["ops"] if o[0] != "measure"]
    for tag, v in [("user layout None", V("none")), ("user layout 'abc'", V("str", v="abc")), ("user layout too short", V("intlist", v=[0])),
                   ("user layout foreign labels", V("intlist", v=[7, 9]))]:
        mk(tag, layout=v)
    # a qubit measured twice into two classical bits (legal in Qiskit)
    for cls in CLASSES:
        c = mk("qubit measured twice", n=2, cls=cls)
        c["circ"]["ops"] = [o for o in c["circ"]["ops"] if o[0] != "measure"] + [["measure", [1], 0], ["measure", [1], 1]]
        c["circ"]["nclbits"] = 2
        c = mk("qubit measured twice among three", n=3, cls=cls)
        c["circ"]["ops"] = [o for o in c["circ"]["ops"] if o[0] != "measure"] + [["measure", [2], 0], ["measure", [0], 2], ["measure", [2], 1]]
        c["circ"]["nclbits"] = 3
    # index-based class: a label beyond what the device parameters hold, although len(T1) >= nqubit
    c = mk("label beyond device parameters (index-based class)")
    c["circ"] = V("qc", nreg=8, nclbits=2, ops=[["sx", [1]], ["cx", [1, 6]], ["measure", [6], 0], ["measure", [1], 1]])
    c["device"] = V("device", name="ibm_kyiv", truncate=3)
    # wide barrier over an untouched qubit does not make it used; a one-qubit barrier does
    c = mk("wide barrier over an idle qubit", n=2)
    c["circ"] = V("qc", nreg=3, nclbits=2, ops=[["sx", [0]], ["cx", [0, 1]], ["barrier", [0, 1, 2]], ["measure", [0], 0], ["measure", [1], 1]])
    c = mk("one-qubit barrier on an idle qubit, nqubit = 3", n=2, cls="EfficientCircuit")
    c["circ"] = V("qc", nreg=3, nclbits=2, ops=[["sx", [0]], ["cx", [0, 1]], ["barrier", [2]], ["measure", [0], 0], ["measure", [1], 1]])
    c["nqubit"] = V("int", v=3); c["psi0"] = V("ndarray", shape=[8])
    c = mk("delay only on a third qubit", n=2)
    c["circ"] = V("qc", nreg=3, nclbits=2, ops=[["sx", [0]], ["cx", [0, 1]], ["delay", [2], 16], ["measure", [0], 0], ["measure", [1], 1]])
    # gate sets outside the domain "finite entries": zero, NaN, infinite
    for kind in ("zero", "nan", "inf"):
        for cls in ("EfficientCircuit", "BinaryCircuit"):
            mk(f"gate set with {kind} entries", cls=cls, gates={"inj": 3, "kind": kind})
    return out


def gen_measurament(rng, count, nmax):
    """direct calls of `_measurament` (exact comparison): random layouts, measured lists (repeats, foreign qubits),
    n_qubit equal to / smaller / larger than the layout, integer-valued and float vectors of any length"""
    out = []
    corpus = [([1, 2, 3, 4], [(0, 0), (1, 1)], 2, [0, 1]), ([1, 2, 3, 4], [(1, 0), (0, 5)], 2, [0, 1]),
              ([1, 2, 3, 4], [(7, 0)], 2, [3, 7]), ([1, 2], [(0, 0), (0, 1)], 1, [0]), ([1, 2, 3, 4], [(5, 0)], 2, [0, 1]),
              ([1, 2, 3, 4], [(1, 0)], 1, [0, 1]), ([1, 2, 3, 4, 5, 6, 7, 8], [(1, 0)], 2, [0, 1]), ([1, 2], [(1, 0)], 3, [0, 1, 2]),
              ([], [(0, 0)], 1, [0]), ([1, 2], [], 1, [0]), ([0.5, 0.25, 0.125, 0.125], [(2, 0)], 2, [2, 4])]
    for prob, meas, n, layout in corpus:
        out.append({"prob": [float(x) for x in prob], "meas": [list(t) for t in meas], "n": n, "layout": layout})
    for i in range(count):
        n = rng.randint(1, nmax)
        layout = rng.sample(range(12), n)
        kind = rng.random()
        m = rng.randint(1, n)
        if kind < 0.6:
            qs = rng.sample(layout, m)
        elif kind < 0.8:
            qs = [rng.choice(layout) for _ in range(m + 1)]
        else:
            qs = rng.sample(layout, m)
            qs[rng.randrange(m)] = rng.choice([q for q in range(13) if q not in layout])
        nq = n if rng.random() < 0.8 else max(0, n + rng.choice([-1, 1]))
        size = 2 ** nq if rng.random() < 0.85 else rng.randint(0, 2 ** nq + 3)
        if rng.random() < 0.5:
            prob = [float(rng.randint(0, 9)) for _ in range(size)]
        else:
            prob = [rng.random() * 10 ** rng.randint(-12, 2) for _ in range(size)]
        out.append({"prob": prob, "meas": [[q, rng.randrange(6)] for q in qs], "n": nq, "layout": layout})
    return out


def big_measurament_case(seed):
    """`_measurament` on long registers / many measured qubits (9..17 qubits, up to all of them measured), with an independent
    marginalisation as oracle: keys exactly the 2^m strings of the measured qubits, values the sums over the others (1e-12).
    Returns (description, failure | None)."""
    import random
    rng = random.Random(seed)
    n = rng.choice([9, 10, 12, 16, 17])
    layout = sorted(rng.sample(range(n + 6), n))
    m = rng.choice([1, 3, 8, 9, min(n, 10), min(n, 12)])
    qs = rng.sample(layout, m)
    if n >= 16 and layout[-1] not in qs:
        qs[0] = layout[-1]
    rs = np.random.RandomState(seed % (2 ** 31))
    prob = rs.random_sample(2 ** n)
    prob /= prob.sum()
    desc = f"_measurament(prob of length 2^{n} (numpy RandomState({seed % (2 ** 31)}).random_sample, normalised), measured qubits {qs}, layout {layout})"
    R = repo()
    try:
        res = R.Sim()._measurament(prob=prob.copy(), q_meas_list=[(q, c) for c, q in enumerate(qs)], n_qubit=n, qubits_layout=list(layout))
    except Exception as e:              # noqa
        return desc, f"raised {type(e).__name__}: {str(e)[:120]}"
    pos = [layout.index(q) for q in qs]
    t = prob.reshape([2] * n)
    others = tuple(i for i in range(n) if i not in pos)
    marg = t.sum(axis=others) if others else t
    kept = [i for i in range(n) if i in pos]                      # axes of `marg` in ascending position order
    marg = np.transpose(marg, [kept.index(p) for p in pos])       # into the order of the measure instructions
    want = {format(k, "b").zfill(m): float(v) for k, v in enumerate(marg.reshape(-1))}
    if set(res) != set(want):
        return desc, f"{len(res)} keys returned, the {2 ** m} bit strings of the {m} measured qubits are expected (first keys {sorted(res)[:3]})"
    k = max(want, key=lambda k: abs(want[k] - float(res[k])))
    if abs(want[k] - float(res[k])) > 1e-12:
        return desc, f"value of outcome {k!r} is {float(res[k])!r}, the marginal probability is {want[k]!r}"
    return desc, None


def run_measurament_real(c):
    R = repo()
    sim = R.Sim()
    try:
        res = sim._measurament(prob=np.array(c["prob"], dtype=float), q_meas_list=[tuple(t) for t in c["meas"]],
                               n_qubit=c["n"], qubits_layout=list(c["layout"]))
    except Exception as e:              # noqa
        return {"err": type(e).__name__}
    return {"ok": [[k, f2b(v)] for k, v in res.items()]}


# ------------------------------------------------------------------------------------------------ R2: negative derived CR error

def derived_pcr_negative(case, objs):
    """is there a two-qubit gate in the circuit whose derived cross-resonance error (factories.py) is negative?"""
    d = objs["device"]
    if not isinstance(d, dict) or case["gates"] != "standard":
        return None
    for op in case["circ"].get("ops", []):
        if op[0] in ("cx", "ecr"):
            c, t = op[1]
            try:
                ratio = (1 - 0.75 * d["p_int"][c][t]) ** 2 / ((1 - 0.75 * d["p"][c]) ** 2 * (1 - 0.75 * d["p"][t]))
            except Exception:           # noqa
                continue
            if ratio > 1:
                return [c, t]
    return None


def gen_r2(thorough):
    """valid calls on *bundled calibration data* on which the derived CR error is negative (DESIGN section 6, R2)"""
    probes = [("fake:FakeAlgiers", "cx", 10, 12, 27)]
    if thorough:
        probes += [("fake:FakeBrussels", "ecr", 57, 58, 127), ("fake:FakeBrussels", "ecr", 71, 58, 127)]
    out = []
    for dev, gate, c, t, nreg in probes:
        out.append({"family": "r2-calibration", "cls": "BinaryCircuit", "gates": "standard", "valid_for_class": True,
                    "circ": V("qc", nreg=nreg, nclbits=2, ops=[["sx", [c]], [gate, [c, t]], ["measure", [c], 0], ["measure", [t], 1]]),
                    "layout": V("intlist", v=[c, t]), "psi0": V("ndarray", shape=[4], fill="basis0"), "shots": V("int", v=2),
                    "device": V("device", name=dev), "nqubit": V("int", v=2)})
        # the neighbouring control: same device, a pair with positive derived error must work
    out.append({"family": "r2-calibration", "cls": "BinaryCircuit", "gates": "standard", "valid_for_class": True,
                "circ": V("qc", nreg=27, nclbits=2, ops=[["sx", [12]], ["cx", [12, 13]], ["measure", [12], 0], ["measure", [13], 1]]),
                "layout": V("intlist", v=[12, 13]), "psi0": V("ndarray", shape=[4], fill="basis0"), "shots": V("int", v=2),
                "device": V("device", name="fake:FakeAlgiers"), "nqubit": V("int", v=2)})
    return out


# ------------------------------------------------------------------------------------------------ main

def signature(case, objs, real, cat, why):
    """canonical identification of a failing input (matched against known_findings.json)"""
    if cat == "named" and real["exc"] == "AttributeError" and abs_val(objs["psi0"])["t"] != "ndarray":
        return {"kind": "psi0-not-ndarray", "exc": "AttributeError"}
    if cat == "valid" and real["exc"] == "AssertionError":
        pair = derived_pcr_negative(case, objs)
        if pair:
            return {"kind": "nan-cr-error", "derived_p_cr_negative": True, "device": case["device"].get("name"), "pair": pair}
    if cat == "valid" and real["kind"] == "err":
        return {"kind": "valid-call-raises", "exc": real["exc"], "stage": real["stage"], "cls": case["cls"]}
    if cat == "named":
        return {"kind": "named-defect-not-valueerror", "outcome": real["exc"] or "result",
                "defects": sorted(classify(objs)[0])}
    return {"kind": "not-a-distribution", "cls": case["cls"], "gates": case["gates"] if isinstance(case["gates"], str) else "injected"}


def describe(case):
    d = {k: case[k] for k in ("family", "cls", "gates", "shots", "nqubit", "psi0", "device", "layout")}
    d["circ"] = case["circ"]
    if "tag" in case: d["tag"] = case["tag"]
    return d


def sequence_oracle(rng, cls):
    """ONE simulator object serving several runs: a circuit, the same circuit object extended in place by one more
    measurement, another circuit, the first again.  With the noise-free gate set every result must be the mapping a NEW
    simulator returns for the same arguments (all 2^m keys, same values).  Returns (description of the sequence, failure)."""
    import contextlib, io
    from qgv import wiring as W
    R = repo()
    from quantum_gates._gates.gates import NoiseFreeGates
    kind = {"BinaryCircuit": "binary", "Circuit": "grid", "StandardCircuit": "standard", "EfficientCircuit": "efficient",
            "OneCircuit": "one"}[cls]
    n = rng.randint(2, 4)

    def circuit():
        ops, labels = W.random_ops(rng, kind, n, rng.randint(3, 9))
        body = [op for op in ops if op[0] != "measure"]
        if kind in ("grid", "standard") and not any(op[0] in ("cx", "ecr") for op in body):
            body.append(["cx", labels[0], labels[1]])
        order = labels[:]
        rng.shuffle(order)
        meas = order[:rng.randint(1, n - 1)]              # at least one qubit stays unmeasured
        ops = body + [["measure", q, i] for i, q in enumerate(meas)]
        qc = W.build_qiskit(ops, max(labels) + 1, n + 1)
        return ops, labels, meas, qc
    opsA, labA, measA, qcA = circuit()
    opsB, labB, measB, qcB = circuit()
    nl = max(max(labA), max(labB)) + 1
    dp = W.tagged_params(nl - 1)
    dp.update(T1=np.ones(nl), T2=np.ones(nl), dt=[1e-9])
    psi0 = np.eye(1, 2 ** n)[0].astype(complex)
    sim = R.Sim(gates=NoiseFreeGates(), CircuitClass=R.classes[cls], parallel=False)

    def run(s, qc, nlab):
        with contextlib.redirect_stdout(io.StringIO()):
            return s.run(t_qiskit_circ=qc, qubits_layout=list(range(nlab)), psi0=psi0, shots=1, device_param=dp, nqubit=n)
    steps = [("first circuit", qcA, max(labA) + 1, len(measA)), ("second circuit", qcB, max(labB) + 1, len(measB)),
             ("first circuit again", qcA, max(labA) + 1, len(measA))]
    extra = [q for q in labA if q not in measA][0]
    desc = {"cls": cls, "n": n, "opsA": opsA, "opsB": opsB, "extra_measure": [extra, len(measA)]}
    for k, (tag, qc, nlab, m) in enumerate(steps + [("the first circuit OBJECT after one more measurement was appended to it", qcA, max(labA) + 1, len(measA) + 1)]):
        if k == 3:
            qcA.measure(extra, len(measA))
        try:
            got = run(sim, qc, nlab)
            want = run(R.Sim(gates=NoiseFreeGates(), CircuitClass=R.classes[cls], parallel=False), qc, nlab)
        except Exception as e:                  # noqa
            return desc, f"run #{k + 1} ({tag}) raised {type(e).__name__}: {str(e)[:120]}"
        keys = {format(i, f"0{m}b") for i in range(2 ** m)}
        if set(got) != keys:
            return desc, f"run #{k + 1} on one simulator object ({tag}): keys are not the 2^{m} bit strings: {sorted(got)[:6]}"
        if set(want) != set(got) or any(abs(float(got[x]) - float(want[x])) > 1e-12 for x in got):
            return desc, f"run #{k + 1} on one simulator object ({tag}) differs from a new simulator's result for the same arguments"
    return desc, None


def multi_register_oracle(rng, cls):
    """a valid circuit whose measurements go into bits of SEVERAL classical registers (bits of different registers share
    their register-relative index): the result must still have exactly the 2^m keys of the m measured qubits, non-negative
    values summing to 1.  Returns (description, failure)."""
    import contextlib, io
    from qiskit import QuantumCircuit, QuantumRegister, ClassicalRegister
    from qgv import wiring as W
    from quantum_gates._gates.gates import NoiseFreeGates
    R = repo()
    kind = {"BinaryCircuit": "binary", "Circuit": "grid", "StandardCircuit": "standard", "EfficientCircuit": "efficient",
            "OneCircuit": "one"}[cls]
    n = rng.randint(2, 4)
    ops, labels = W.random_ops(rng, kind, n, rng.randint(3, 8))
    body = [op for op in ops if op[0] not in ("measure", "barrier", "delay")]
    if kind in ("grid", "standard") and not any(op[0] in ("cx", "ecr") for op in body):
        body.append(["cx", labels[0], labels[1]])
    nl = max(labels) + 1
    m = rng.randint(2, n)
    sizes = [rng.randint(1, 2) for _ in range(m)]                      # one small register per measured qubit
    qr = QuantumRegister(nl, "q")
    crs = [ClassicalRegister(sz, f"c{i}") for i, sz in enumerate(sizes)]
    qc = QuantumCircuit(qr, *crs)
    for op in body:
        if op[0] == "rz":
            qc.rz(op[2] * W.UNIT, op[1])
        elif op[0] in ("sx", "x"):
            getattr(qc, op[0])(op[1])
        else:
            getattr(qc, op[0])(op[1], op[2])
    for q in labels:                                                   # every label is used
        if not any(q in op[1:3] for op in body):
            qc.sx(q)
    measured = rng.sample(labels, m)
    for q, cr in zip(measured, crs):
        qc.measure(qr[q], cr[rng.randrange(len(cr))])
    dp = W.tagged_params(nl - 1)
    dp.update(T1=np.ones(nl), T2=np.ones(nl), dt=[1e-9])
    psi0 = np.eye(1, 2 ** n)[0].astype(complex)
    desc = {"cls": cls, "n": n, "body": body, "measured": measured, "register_sizes": sizes}
    try:
        with contextlib.redirect_stdout(io.StringIO()):
            res = R.Sim(gates=NoiseFreeGates(), CircuitClass=R.classes[cls], parallel=False).run(
                t_qiskit_circ=qc, qubits_layout=list(range(nl)), psi0=psi0, shots=1, device_param=dp, nqubit=n)
    except Exception as e:                      # noqa
        return desc, f"valid call (measurements into {m} classical registers) raised {type(e).__name__}: {str(e)[:100]}"
    keys = {format(i, f"0{m}b") for i in range(2 ** m)}
    if set(res) != keys or len(res) != 2 ** m:
        return desc, f"measurements into {m} classical registers: keys are not the 2^{m} bit strings: {sorted(res)[:6]}"
    vals = [float(v) for v in res.values()]
    if any(v < -1e-15 or v != v for v in vals) or abs(math.fsum(vals) - 1) > 1e-9:
        return desc, f"measurements into {m} classical registers: values are not a distribution (sum {math.fsum(vals)!r})"
    return desc, None


def main(ctx):
    lean = ctx.lean("QG.Props.C14")
    rng = ctx.rng
    th = ctx.thorough
    cases = []
    # ---- corpus (designed edge cases / past disagreements) runs first
    for psi0 in (V("list", n=3), V("tuple", n=8), V("list", n=0)):       # D20: an initial state of the wrong length that is not an ndarray
        c = base_case(rng, 2); c["family"] = "malformed"; c["psi0"] = psi0; c["defects"] = ["psi0"]
        cases.append(c)
    cases += gen_unspecified(rng)
    cases += gen_r2(th)
    # ---- valid stream
    gate_sets = ["noise_free", "standard", {"inj": 11, "kind": "pos"}, {"inj": 12, "kind": "complex"}]
    per = 24 if th else 6
    idx = 0
    for cls in CLASSES:
        for g in gate_sets:
            for n in (1, 2, 3, 4) + ((5,) if th else ()):
                if cls in ("Circuit", "StandardCircuit") and n == 1:
                    continue                       # D7 (C01/C03 territory): only 2x2 entries -> object dtype crash; probed below
                if n == 5 and g == "standard" and cls != "BinaryCircuit":
                    continue                       # the calibrated chain 0-1-2-3 of the test data ends at label 3 for labels 0..n-1
                for _ in range(per):
                    idx += 1
                    dev = rng.choice(["ibm_kyiv", "ibm_kyoto"])
                    cases.append(gen_valid(rng, cls, g, n, dev, 50 if th and rng.random() < 0.2 else 5, idx))
    # ---- malformed stream
    cases += gen_malformed(rng, 8 if th else 2)
    # ---- D7 probe (information only: other properties own it)
    d7 = base_case(rng, 1, cls="Circuit"); d7["family"] = "d7-probe"
    cases.append(d7)

    for i, c in enumerate(cases):
        c["np_seed"] = (ctx.seed * 100003 + i) % (2 ** 31)
    reqs, reals, objs_l, verdicts = [], [], [], []
    hist = collections.Counter(); exc_hist = collections.Counter(); cat_hist = collections.Counter()
    size_hist = collections.Counter(); cls_hist = collections.Counter(); meas_hist = collections.Counter()
    nontrivial = set(); improper_results = []; repeated = []; sim_ok = 0
    for case in cases:
        objs = build(case)
        real = run_real(objs)
        cat, why = oracle(objs, real, case.get("valid_for_class", False) and case["family"] in ("valid", "r2-calibration", "unspecified"))
        if case["family"] == "d7-probe":
            ctx.notes["D7_probe"] = f"Circuit class, one qubit, only 2x2 entries: {real['exc'] or 'returns a result'} (stage {real['stage']}); owned by C01/C03"
            cat, why = "unspecified", None
        ctx.count()
        reqs.append(model_request(objs, real))
        reals.append(real); objs_l.append(objs); verdicts.append((cat, why))
        hist[case["family"]] += 1; cat_hist[cat] += 1; cls_hist[case["cls"]] += 1
        exc_hist[(real["exc"] or "result") + "@" + real["stage"]] += 1
        if case["family"] == "valid":
            facts = classify(objs)[2]
            size_hist[f"n={len(facts['used'])}"] += 1
            meas_hist[f"m={len(facts['meas'])}/n={len(facts['used'])}"] += 1
            if len(facts["meas"]) < len(facts["used"]) or case["gates"] != "noise_free":
                nontrivial.add(core.sha(describe(case)))
        elif case["family"] == "malformed":
            nontrivial.add(core.sha(describe(case)))
        if case["family"] == "malformed" and cat != "named":
            raise RuntimeError("generator/oracle inconsistency: malformed recipe not recognised as a named class: " + json.dumps(case)[:300])
        if cat.startswith("valid") and real["mean"] is not None:
            mv = np.asarray(real["mean"])
            if mv.shape == (2 ** objs["nqubit"],) and bool(np.all(mv >= 0)) and float(mv.sum()) > 0:
                sim_ok += 1
            elif not np.any(np.isnan(mv)):
                raise RuntimeError("simulation stage returned something that is not a non-negative vector of length 2^nqubit")
        if cat == "valid-repeated-measure" and real["kind"] == "ok":
            repeated.append({"cls": case["cls"], "measured": classify(objs)[2]["meas"], "keys": list(real["result"].keys())})
        if cat == "unspecified" and real["kind"] == "ok" and case["family"] == "unspecified":
            res = real["result"]
            named, strict, facts = classify(objs)
            m = len(set(facts["meas"]))
            vals = [float(v) for v in res.values()]
            if len(res) != 2 ** m or any(math.isnan(v) for v in vals) or abs(sum(vals) - 1) > 1e-9:
                improper_results.append({"tag": case.get("tag"), "cls": case["cls"], "keys": list(res.keys())[:8],
                                         "sum": float(np.sum(vals))})
    # ---- model answers: repaired model for all; pinned-tree model where they differ (to name the cause)
    drv = core.Driver(ctx.pid)
    answers = drv.batch(reqs)
    mism = []
    for i, (case, real, ans) in enumerate(zip(cases, reals, answers)):
        ok, note = agree(real, ans)
        if not ok:
            mism.append((i, note))
    legacy = {}
    if mism:
        leg = drv.batch([dict(reqs[i], repaired=False) for i, _ in mism])
        for (i, _), a in zip(mism, leg):
            legacy[i] = agree(reals[i], a)[0]
    # ---- accumulation over the shots, exact: recorded per-shot vectors -> recorded mean
    mean_idx = [i for i, r in enumerate(reals) if r["mean"] is not None and r["shots_rec"]
                and all(v.shape == r["mean"].shape for v in r["shots_rec"])]
    mean_ans = drv.batch([{"op": "mean", "len": int(reals[i]["mean"].shape[0]), "shots": int(objs_l[i]["shots"]),
                           "results": [[f2b(x) for x in v] for v in reals[i]["shots_rec"]]} for i in mean_idx])
    mean_mis = [i for i, a in zip(mean_idx, mean_ans)
                if a.get("ok") != [f2b(x) for x in reals[i]["mean"]] or len(reals[i]["shots_rec"]) != int(objs_l[i]["shots"])]
    # ---- _measurament alone, exact
    mcases = gen_measurament(rng, 3000 if th else 500, 8 if th else 6)
    mreal = [run_measurament_real(c) for c in mcases]
    mans = drv.batch([{"op": "measurament", "prob": [f2b(x) for x in c["prob"]], "meas": c["meas"], "n": c["n"],
                       "layout": c["layout"]} for c in mcases])
    mmis = [(c, a, b) for c, a, b in zip(mcases, mreal, mans) if a != b]
    ctx.count(len(mcases))
    merr = collections.Counter(("err:" + a["err"]) if "err" in a else "ok" for a in mreal)

    # ---- evidence
    cov = ctx.coverage
    cov["distinct_nontrivial"] = len(nontrivial) + sum(1 for c, a in zip(mcases, mreal) if "ok" in a and len(c["meas"]) < len(c["layout"]))
    cov["rule"] = ("valid stream: distinct recipes whose gate set is noisy/non-unitary or whose measured subset is a proper "
                   "subset of the used qubits (marginalisation acts); malformed stream: every distinct recipe (each has >= 1 "
                   "named defect); _measurament stream: successful calls that marginalise over at least one qubit")
    cov["families"] = dict(hist)
    cov["oracle_categories"] = dict(cat_hist)
    cov["outcomes_real_code"] = {k: v for k, v in sorted(exc_hist.items())}
    cov["circuit_classes"] = dict(cls_hist)
    cov["valid_stream_sizes"] = dict(sorted(size_hist.items()))
    cov["valid_stream_measured_subsets"] = dict(sorted(meas_hist.items()))
    cov["measurament_direct"] = {"cases": len(mcases), "outcomes": dict(merr), "mismatches": len(mmis)}
    cov["shot_accumulation"] = {"cases": len(mean_idx), "mismatches": len(mean_mis),
                                "shots_histogram": dict(collections.Counter(str(int(objs_l[i]["shots"])) for i in mean_idx))}
    cov["traces_validated_against_impl"] = len(cases) + len(mcases)
    cov["correspondence_mismatches"] = len(mism) + len(mmis) + len(mean_mis)
    cov["mismatches_explained_by_pinned_tree_model"] = sum(1 for v in legacy.values() if v)
    cov["unspecified_calls_returning_improper_mapping"] = improper_results[:12]
    cov["repeated_measure_results"] = repeated[:6]
    cov["valid_cases_with_nonnegative_positive_total_sim_vector"] = sim_ok
    cov["value_tolerance"] = TOL
    cov["trusted_base"] += [
        "hand-written model QG/Model/RunValidate.lean, tied on every run by the differential correspondence described in "
        "harness/props/c14.py (exception class / keys and order exact, values to 1e-12; _measurament bit-exact)",
        "the abstraction functions abs_val / abs_circ of the harness (what isinstance / .shape / len / .data observe)",
        "the simulation stage (_preprocess_circuit, _perform_simulation) is a parameter of the model: its recorded result is "
        "fed to the model; that it is a non-negative vector of length 2^nqubit with positive total is checked on every valid case",
        "IEEE doubles are modelled by an ordered field in the theorems; np.sum's pairwise order is not modelled (1e-12)",
        "Python semantics listed at the head of the model file (isinstance on bool/numpy scalars, tuple comparison of shapes, "
        "KeyError/TypeError/ValueError of dict lookup, len, list.index, zip truncation, dict insertion order, format(i,'0nb'))"]
    ctx.assumptions += [
        "a 'valid' call: QuantumCircuit in the native basis with >= 1 measurement, psi0 a finite non-zero ndarray of shape (2^nqubit,), "
        "shots a Python int >= 1 (True counts as 1), nqubit = number of used qubits, device_param a dict with the 8 entries "
        "covering every used label, a gate set with finite entries, and for the layer-based classes labels 0..n-1 with adjacent "
        "pairs (the documented restriction of those classes); noisy gate sets only on calibrated (control,target) pairs",
        "the clause 'rejected with ValueError' is decided for objects that have a `.data` attribute in the circuit position "
        "(an object without it raises AttributeError in _process_layout before any validation; theorem hypothesis `hd`)",
        "calls that are neither valid nor in a named class (nqubit < used qubits, numpy integer shots, dict without T1, psi0 of the "
        "right length but not an ndarray, non-finite gate sets, a qubit measured twice) carry no verdict of the oracle; the "
        "model must still predict them and what the real code does is recorded under outcomes / improper mappings",
        "objects that merely duck-type `.shape` (neither ndarray nor sequence) are not generated as psi0"]
    vs = [i for i, c in enumerate(cases) if c["family"] == "valid"]
    ms = [i for i, c in enumerate(cases) if c["family"] == "malformed"]
    for i in vs[:2] + ms[:2]:
        r = reals[i]
        ctx.sample({"case": describe(cases[i]), "real": r["exc"] or {k: float(v) for k, v in r["result"].items()},
                    "oracle_category": verdicts[i][0]})

    # ---- one simulator object, several runs
    seq_fail = []
    for cls in CLASSES:
        for _ in range(6 if th else 2):
            desc, bad = sequence_oracle(rng, cls); ctx.count()
            if bad:
                seq_fail.append((desc, bad))
    ctx.coverage["simulator_reuse_sequences"] = (6 if th else 2) * len(CLASSES)
    for cls in CLASSES:
        for _ in range(6 if th else 2):
            desc, bad = multi_register_oracle(rng, cls); ctx.count()
            if bad:
                seq_fail.append((desc, bad))
    ctx.coverage["multi_register_circuits"] = (6 if th else 2) * len(CLASSES)
    for desc, bad in seq_fail[:1]:
        ctx.violation({"kind": "multi-register" if "register_sizes" in desc else "simulator-reuse", "cls": desc["cls"]},
                      {"sequence": desc, "failure": bad}, f"{desc['cls']}: {bad}")
    # ---- decide
    fails = [(i, verdicts[i]) for i in range(len(cases)) if verdicts[i][1]]
    seen_sig = set()
    explained = set()
    for i, (cat, why) in fails:
        sig = signature(cases[i], objs_l[i], reals[i], cat, why)
        key = json.dumps(sig, sort_keys=True)
        explained.add(i)
        if key in seen_sig:
            continue
        seen_sig.add(key)
        ctx.violation(sig, {"case": cases[i], "observed": reals[i]["exc"] or "result", "stage": reals[i]["stage"],
                            "message": reals[i]["msg"], "oracle": why},
                      f"{cases[i]['cls']}: {why}")
    # mismatches that share the cause of an oracle-confirmed failure (same pinned-tree behaviour) need no second line
    d20_confirmed = any(json.loads(k).get("kind") == "psi0-not-ndarray" for k in seen_sig)
    open_mism = [(i, note) for i, note in mism
                 if i not in explained and not (legacy.get(i) and d20_confirmed and abs_val(objs_l[i]["psi0"])["t"] != "ndarray")]
    if open_mism:
        i, note = open_mism[0]
        ctx.violation({"kind": "correspondence", "family": cases[i]["family"]},
                      {"case": cases[i], "real": reals[i]["exc"] or "result", "stage": reals[i]["stage"], "model": answers[i],
                       "note": note, "agrees_with_pinned_tree_model": legacy.get(i),
                       "broken": "correspondence MrAndersonSimulator.run vs QG.Model.RunValidate.run", "count": len(open_mism)},
                      "model and implementation disagree where the oracle has no complaint: " + note, no_failing_input=True)
    big_bad = None
    n_big = 10 if th else 4
    for kbig in range(n_big):
        sd = ctx.seed * 7919 + kbig
        desc, bad = big_measurament_case(sd)
        ctx.count()
        if bad and big_bad is None:
            big_bad = (sd, desc, bad)
    cov["measurament_long_registers"] = n_big
    if big_bad:
        ctx.violation({"kind": "measurament-long-register"}, {"mode": "big-measurament", "seed": big_bad[0], "call": big_bad[1], "failure": big_bad[2]},
                      f"{big_bad[1]}: {big_bad[2]}")
    if mmis:
        c, a, b = mmis[0]
        ctx.violation({"kind": "correspondence-measurament"}, {"call": c, "real": a, "model": b, "count": len(mmis),
                      "broken": "correspondence _measurament vs QG.Model.RunValidate.measurement"},
                      "model and _measurament disagree", no_failing_input=True)
    if mean_mis:
        i = mean_mis[0]
        ctx.violation({"kind": "correspondence-mean"}, {"case": cases[i], "count": len(mean_mis),
                      "broken": "correspondence r_sum/shots vs QG.Model.RunValidate.meanOfShots"},
                      "model and the accumulation over the shots disagree", no_failing_input=True)
    if not lean.ok and not fails:
        ctx.violation({"kind": "proof"}, {"broken": lean.failed}, "Lean obligations of C14 do not check; the oracle passes "
                      "on every explored call", no_failing_input=True)
    elif not lean.ok:
        print(f"[{ctx.pid}] note: Lean obligations do not check: {list(lean.failed)[:5]}")


def replay(ctx, path):
    body = json.load(open(path))
    rp = body["replay"]
    if rp.get("mode") == "big-measurament":
        desc, bad = big_measurament_case(rp["seed"])
        print(desc); print("oracle:", bad or "holds")
        return 1 if bad else 0
    if "case" not in rp:
        print("replay names a broken obligation, no input to re-run:", json.dumps(rp)[:400]); return 1
    case = rp["case"]
    objs = build(case)
    real = run_real(objs)
    cat, why = oracle(objs, real, case.get("valid_for_class", False))
    print("call:", json.dumps(describe(case))[:900])
    print("implementation:", real["exc"] + ": " + real["msg"] if real["kind"] == "err" else dict(real["result"]), f"(stage {real['stage']})")
    print("statement class:", cat, "| named defects:", classify(objs)[0])
    print("oracle:", why or "holds")
    return 1 if why else 0
