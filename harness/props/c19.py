"""C19 — batch helpers run every job exactly once; the merge is exact and refuses to clobber.

Lean: QG.Props.C19 about QG.Model.Merge (post_process_split over a file-system map) and QG.Model.Pool
(chunking formula, schedules, the three helpers).  The models describe the code after the minimal
repairs of D13 (`not any`) and D14 (no `concurrent.futures.wait` on result values).
Tie: hand-written models + exact differential correspondence through the C19 driver:
  * merge: the real `post_process_split` in temporary directories (integer-valued tables, so means
    are exact), directory snapshot (names + bytes) before/after;
  * helpers, plan level: the real helpers with `multiprocessing.Pool` / `ProcessPoolExecutor` replaced
    by in-process stand-ins that use the pool's own batching code (`Pool._get_tasks`, `mapstar`) and
    run the tasks under a schedule drawn from ctx.rng — the same schedule is given to the model;
  * helpers, real pools: marker-file jobs in real worker processes; the observed schedule (which pid
    ran what, arrival order of the printed lines) is given to the model.
Oracle (independent of the models): the property statement evaluated on the disk / the marker files.
"""
import contextlib, io, itertools, json, multiprocessing, multiprocessing.pool, os, re, shutil, tempfile
import concurrent.futures
from unittest import mock
from qgv import core, c19_jobs

MSG = {"Number of provided files and split does not go together.": "count",
       "Found invalid filename.": "source",
       "At least one target files already exists.": "target"}


def _su():
    from quantum_gates._utility import simulations_utility as su
    return su


# ================================================================================================ merge
def write_table(path, spec):
    vals, shape, fmt = spec["vals"], spec["shape"], spec.get("fmt", "col")
    with open(path, "w") as f:
        if len(shape) == 2:
            r, c = shape
            for i in range(r):
                f.write(" ".join(str(v) for v in vals[i * c:(i + 1) * c]) + "\n")
        elif fmt == "row":
            f.write(" ".join(str(v) for v in vals) + "\n")
        else:
            for v in vals:
                f.write(f"{v}\n")


def snapshot(d):
    out = {}
    for root, _, files in os.walk(d):
        for n in files:
            p = os.path.join(root, n)
            out[os.path.relpath(p, d)] = open(p, "rb").read()
    return out


def run_merge_impl(case, base):
    """the real post_process_split on a fresh directory; returns everything observed"""
    import numpy as np
    su = _su()
    d = tempfile.mkdtemp(prefix="m", dir=base)
    try:
        for name, spec in case["files"].items():
            write_table(os.path.join(d, name), spec)
        before = snapshot(d)
        exc = None
        with contextlib.redirect_stdout(io.StringIO()):
            try:
                su.post_process_split([os.path.join(d, s) for s in case["sources"]],
                                      [os.path.join(d, t) for t in case["targets"]], case["split"])
            except Exception as e:                                              # noqa
                exc = e
        after = snapshot(d)
        if exc is None:
            outcome = "ok"
        elif isinstance(exc, AssertionError):
            m = str(exc)
            outcome = "AssertionError:" + (MSG.get(m) or ("split" if m.startswith("Using a split of") else m))
        else:
            outcome = type(exc).__name__
        loaded = {}
        for name in after:
            with contextlib.redirect_stderr(io.StringIO()):
                a = np.loadtxt(os.path.join(d, name))
            loaded[name] = (list(a.shape), [float(x) for x in a.reshape(-1)])
        return {"outcome": outcome, "before": before, "after": after, "loaded": loaded}
    finally:
        shutil.rmtree(d, ignore_errors=True)


def loaded_shape(spec):
    """shape np.loadtxt gives for a table written by write_table (singleton axes are squeezed)"""
    return [s for s in spec["shape"] if s != 1]


def merge_domain(case):
    """hypotheses of the positive clause that are not the code's own checks"""
    k, split, src = len(case["targets"]), case["split"], case["sources"]
    if k < 1 or len(set(case["targets"])) != k:
        return False
    for j in range(k):
        shapes = {tuple(loaded_shape(case["files"][s])) for s in src[j * split:(j + 1) * split]}
        if len(shapes) != 1:
            return False
    return True


def merge_refusal(case):
    k, split, src, pre = len(case["targets"]), case["split"], case["sources"], case["files"]
    return (split * k != len(src) or any(s not in pre for s in src) or any(t in pre for t in case["targets"])
            or split < 2)


def merge_oracle(case, res):
    """C19's merge clause evaluated on the disk; None or (failure id, description)"""
    before, after = res["before"], res["after"]
    if merge_refusal(case):
        if res["outcome"] == "ok":
            clob = [t for t in case["targets"] if t in before and after.get(t) != before[t]]
            if any(t in before for t in case["targets"]):
                return ("existing-target-not-refused",
                        f"the call returned normally although target(s) {sorted(t for t in case['targets'] if t in before)} "
                        f"already existed; overwritten: {sorted(set(clob))}")
            return ("inconsistent-arguments-not-refused", "the call returned normally on inconsistent arguments")
        if before != after:
            return ("refused-but-wrote", f"raised {res['outcome']} but the directory changed")
        return None
    if not merge_domain(case):
        return None
    if res["outcome"] != "ok":
        return ("raised-on-consistent-call", f"raised {res['outcome']} on a consistent call")
    created = sorted(set(after) - set(before))
    if created != sorted(case["targets"]):
        return ("wrong-files-created", f"created {created}, expected exactly the targets")
    for name, b in before.items():
        if after.get(name) != b:
            return ("other-file-modified", f"{name} (not a target) was modified or removed")
    split = case["split"]
    for j, t in enumerate(case["targets"]):
        group = [case["files"][s] for s in case["sources"][j * split:(j + 1) * split]]
        want_shape = loaded_shape(group[0])
        want = [sum(g["vals"][e] for g in group) / split for e in range(len(group[0]["vals"]))]
        shape, vals = res["loaded"][t]
        if shape != want_shape or vals != want:
            return ("wrong-mean", f"target {t}: shape {shape} values {vals[:6]}, expected shape {want_shape} values {want[:6]}")
    return None


def merge_request(case):
    return {"op": "merge", "files": [[n, s["vals"]] for n, s in case["files"].items()],
            "sources": case["sources"], "targets": case["targets"], "split": case["split"]}


def merge_canon_impl(res):
    return {"outcome": res["outcome"], "files": {n: [repr(v) for v in vals] for n, (_, vals) in res["loaded"].items()}}


def merge_canon_model(ans):
    return {"outcome": ans["outcome"], "files": {n: [repr(float(a / b)) for a, b in vals] for n, vals in ans["files"]}}


def mk_table(rng, shape, fmt="col", big=False):
    n = 1
    for s in shape:
        n *= s
    hi = 2 ** 40 if big else 1000
    return {"shape": list(shape), "fmt": fmt, "vals": [rng.randint(-hi, hi) for _ in range(n)]}


def merge_case(rng, k, split, pre=(), missing=(), n_src=None, shapes=None, tnames=None, extra=None, family=""):
    """k targets, split, `pre` = indices of targets that exist beforehand, `missing` = indices of sources
    that do not exist, n_src = number of source names (default k*split), shapes[j] = shape of group j"""
    n_src = max(0, k * split) if n_src is None else n_src
    per = max(split, 1)
    shapes = shapes or {}
    default = rng.choice([(3,), (4,), (2,), (8,), (2, 3), (3, 2), (1,)])      # (1,): a result file holding a single number
    fmt = rng.choice(["col", "row"])
    files = {}
    sources = [f"s{i}.txt" for i in range(n_src)]
    for i, s in enumerate(sources):
        if i not in missing:
            files[s] = mk_table(rng, shapes.get(i // per, default), fmt, big=rng.random() < 0.2)
    targets = list(tnames) if tnames is not None else [f"t{j}.txt" for j in range(k)]
    for j in pre:
        files[targets[j]] = mk_table(rng, (3,), "col")
    files["other.txt"] = mk_table(rng, (2,), "col")
    for n, spec in (extra or {}).items():
        files[n] = spec
    return {"kind": "merge", "family": family, "files": files, "sources": sources, "targets": targets, "split": split}


def gen_merge_cases(ctx):
    rng, cases = ctx.rng, []
    # corpus (designed / past disagreements first): D13 witness, the repo's own test shape, boundary splits
    cases.append(merge_case(rng, 2, 2, pre=[1], family="corpus:one-of-two-targets-exists"))
    cases.append(merge_case(rng, 2, 2, pre=[0], family="corpus:one-of-two-targets-exists"))
    cases.append(merge_case(rng, 1, 4, family="corpus:repo-test-shape"))
    cases.append(merge_case(rng, 3, 2, pre=[0, 1, 2], family="corpus:all-targets-exist"))
    cases.append(merge_case(rng, 1, 1, family="corpus:split-1"))
    cases.append(merge_case(rng, 2, 3, shapes={0: (4,), 1: (2, 2)}, family="corpus:groups-of-different-shape"))
    kmax, smax = (4, 5) if ctx.thorough else (3, 4)
    reps = 4 if ctx.thorough else 2
    # exhaustive small scope: every k, split, every subset of pre-existing targets, x missing-source patterns
    for _ in range(reps):
        for k in range(1, kmax + 1):
            for split in range(2, smax + 1):
                for r in range(k + 1):
                    for pre in itertools.combinations(range(k), r):
                        n = k * split
                        for missing in [(), (0,), (n - 1,), (rng.randrange(n),)]:
                            cases.append(merge_case(rng, k, split, pre=pre, missing=missing,
                                                    family="scope:k-split-preexisting-missing"))
    # count mismatches (with and without pre-existing targets)
    for k in range(1, kmax + 1):
        for split in range(2, smax + 1):
            for dn in (-1, 1, split, -split):
                n = k * split + dn
                if n >= 0:
                    pre = tuple(j for j in range(k) if rng.random() < 0.3)
                    cases.append(merge_case(rng, k, split, pre=pre, n_src=n, family="scope:count-mismatch"))
    # different shapes in different groups (valid), two-dimensional tables, large values
    for _ in range(300 if ctx.thorough else 60):
        k, split = rng.randint(1, kmax), rng.randint(2, smax)
        shapes = {j: rng.choice([(2,), (3,), (5,), (16,), (2, 2), (2, 4), (3, 3), (1,)]) for j in range(k)}
        cases.append(merge_case(rng, k, split, shapes=shapes, family="random:valid-mixed-shapes"))
    for _ in range(150 if ctx.thorough else 20):
        k, split = rng.randint(1, 6), rng.randint(2, 12)
        cases.append(merge_case(rng, k, split, shapes={j: (rng.choice([2, 4, 8, 32]),) for j in range(k)},
                                family="random:larger"))
    return cases


def gen_merge_malformed(ctx):
    """outside the positive clause: split < 2, k = 0, duplicate names, targets that are sources, shape
    mismatches (numpy raises half-way) — the correspondence must still be exact, the refusal clause of the
    oracle still applies where a refusal condition holds"""
    rng, cases = ctx.rng, []
    for split in (-2, -1, 0, 1):
        for k in (0, 1, 2):
            cases.append(merge_case(rng, k, split, n_src=max(0, split * k), family="malformed:split<2"))
            cases.append(merge_case(rng, k, split, n_src=k, pre=tuple(range(k))[:1], family="malformed:split<2"))
    cases.append(merge_case(rng, 0, 2, family="malformed:k=0"))
    cases.append(merge_case(rng, 0, 3, n_src=3, family="malformed:k=0"))
    for k, split in ((2, 2), (3, 2), (2, 3), (3, 3)):
        for dup in ([0] * k, [0, 1, 0][:k] if k == 3 else [0, 0]):
            cases.append(merge_case(rng, k, split, tnames=[f"t{j}.txt" for j in dup], family="remark:duplicate-targets"))
        c = merge_case(rng, k, split, family="malformed:target-is-a-source")
        c["targets"][-1] = c["sources"][0]
        cases.append(c)
        c = merge_case(rng, k, split, family="malformed:duplicate-sources")
        c["sources"][1] = c["sources"][0]
        cases.append(c)
        # the same source file listed in several groups (a shared reference run averaged into every target) and several
        # times in one group: still k*split paths, every target is the mean of the files its group names
        c = merge_case(rng, k, split, family="valid:duplicate-sources-across-groups")
        for j in range(1, k):
            c["sources"][j * split] = c["sources"][0]
        cases.append(c)
        c = merge_case(rng, k, split, family="valid:duplicate-sources-across-groups")
        c["sources"][split + split - 1] = c["sources"][1]
        c["sources"][0] = c["sources"][1]
        cases.append(c)
        for bad in range(k):                      # shape mismatch inside group `bad` (1-D tables of different length)
            shapes = {j: (3,) for j in range(k)}
            c = merge_case(rng, k, split, shapes=shapes, family="remark:shape-mismatch-in-group")
            c["files"][c["sources"][bad * split + split - 1]] = mk_table(rng, (2,), "col")
            cases.append(c)
    return cases


# ============================================================================================== helpers
class FakePool:
    """in-process stand-in for multiprocessing.Pool: same argument checks and the pool's own batching
    (`Pool._get_tasks`) and task body (`mapstar`); tasks run lazily in the order of a given schedule"""
    rec = None
    make_schedule = None

    def __init__(self, processes=None, *a, **kw):
        self.processes = processes
        FakePool.rec["processes"] = processes

    def imap_unordered(self, func, iterable, chunksize=1):
        if chunksize < 1:
            raise ValueError("Chunksize must be 1+, not {0!r}".format(chunksize))
        tasks = list(multiprocessing.pool.Pool._get_tasks(func, iterable, chunksize))
        rec = FakePool.rec
        rec["chunksize"] = chunksize
        rec["tasks"] = [list(t[1]) for t in tasks]
        worker, order = FakePool.make_schedule(len(tasks), self.processes)
        rec["schedule"] = {"worker": worker, "order": order}

        def gen():
            for i in order:
                c19_jobs.CURRENT_WORKER = worker[i]
                try:
                    res = multiprocessing.pool.mapstar(tasks[i])
                finally:
                    c19_jobs.CURRENT_WORKER = None
                for item in res:
                    yield item
        return gen()

    def close(self):
        FakePool.rec["closed"] = True

    def join(self):
        FakePool.rec["joined"] = True


class FakeExecutor:
    """in-process stand-in for ProcessPoolExecutor: one task per argument, all submitted at once (run here
    in schedule order), results handed out in argument order, the first exception re-raised in that order"""
    rec = None
    make_schedule = None
    cpu = 1

    def __init__(self, max_workers=None, *a, **kw):
        if max_workers is not None and max_workers <= 0:
            raise ValueError("max_workers must be greater than 0")
        self.n = max_workers if max_workers is not None else (FakeExecutor.cpu or 1)

    def __enter__(self):
        return self

    def __exit__(self, *a):
        FakeExecutor.rec["shutdown"] = True
        return False

    def map(self, fn, *iterables, timeout=None, chunksize=1):
        items = list(zip(*iterables))
        worker, order = FakeExecutor.make_schedule(len(items), self.n)
        FakeExecutor.rec["schedule"] = {"worker": worker, "order": order}
        results = {}
        for i in order:
            c19_jobs.CURRENT_WORKER = worker[i]
            try:
                results[i] = (True, fn(*items[i]))
            except Exception as e:                                              # noqa
                results[i] = (False, e)
            finally:
                c19_jobs.CURRENT_WORKER = None

        def gen():
            for i in range(len(items)):
                ok, v = results[i]
                if not ok:
                    raise v
                yield v
        return gen()


def res_of_kind(kind, idx):
    if kind == "pair":
        return ["pair", c19_jobs.elapsed_of(idx), c19_jobs.label_of(idx)]
    if kind in ("none", "scalar"):
        return ["value", "TypeError"]
    if kind == "triple":
        return ["value", "ValueError"]
    return ["raised", "KeyError"]


HDR = [re.compile(r"Our CPU count is (\d+)"), re.compile(r"Use 80% of the cores, so (\d+) processes\."),
       re.compile(r"As we perform (\d+) simulations, we use a chunksize of (\d+)\.")]
LINE = re.compile(r"Simulated (\S+) qubits in (\S+) s\.")


def run_helper_impl(case, base):
    """one call of a real helper (fake or real pools); returns what was observed"""
    su = _su()
    variant, mode, S = case["variant"], case["mode"], case["S"]
    d = tempfile.mkdtemp(prefix="h", dir=base)
    try:
        args = [(d, i, case["kinds"][i]) for i in range(S)]
        rec = {}
        sched = case.get("schedule")
        mk = (lambda m, n: (list(sched["worker"]), list(sched["order"]))) if sched else None
        FakePool.rec = FakeExecutor.rec = rec
        FakePool.make_schedule = FakeExecutor.make_schedule = mk
        FakeExecutor.cpu = case.get("cpu", 1)
        buf = io.StringIO()
        exc = None
        with contextlib.ExitStack() as st:
            st.enter_context(contextlib.redirect_stdout(buf))
            if variant == "pool":
                st.enter_context(mock.patch.object(multiprocessing, "cpu_count", return_value=case["cpu"]))
                if mode == "fake":
                    st.enter_context(mock.patch.object(multiprocessing, "Pool", FakePool))
                fn = lambda: su.perform_parallel_simulation_with_multiprocessing(args, c19_jobs.job)   # noqa
            elif variant == "executor":
                if mode == "fake":
                    st.enter_context(mock.patch.object(concurrent.futures, "ProcessPoolExecutor", FakeExecutor))
                fn = lambda: su.perform_parallel_simulation(args, c19_jobs.job, case["max_workers"])    # noqa
            else:
                fn = lambda: su.mock_perform_parallel_simulation(args, c19_jobs.job)                    # noqa
            try:
                ret = fn()
            except Exception as e:                                              # noqa
                exc, ret = e, None
        if exc is not None:            # drop the references that keep a half-used real pool alive
            exc_name, exc = type(exc).__name__, None
            import gc
            gc.collect()
        else:
            exc_name = None
        markers, per_worker = c19_jobs.read_traces(d)
        out = buf.getvalue().splitlines()
        printed = [[m.group(1), m.group(2)] for m in map(LINE.match, out) if m]
        hdr = {}
        if variant == "pool":
            m = [HDR[i].match(out[i]) if i < len(out) else None for i in range(3)]
            if all(m):
                hdr = {"cpu": int(m[0].group(1)), "n_processes": int(m[1].group(1)),
                       "S": int(m[2].group(1)), "chunksize": int(m[2].group(2))}
        return {"outcome": "ok" if exc_name is None else exc_name, "returned": repr(ret), "markers": markers,
                "per_worker": per_worker, "printed": printed, "hdr": hdr, "rec": rec}
    finally:
        shutil.rmtree(d, ignore_errors=True)


def observed_schedule(case, obs):
    """(schedule, calls in completion order) reconstructed from the traces of a helper run.
    worker ids: fake mode = the scheduler's ids; real mode = rank of the pid among the pids seen"""
    per_worker = obs["per_worker"]
    if case["mode"] == "fake":
        wid = {w: int(w[1:]) for w in per_worker}
    else:
        wid = {w: r for r, w in enumerate(sorted(per_worker, key=int))}
    worker_of, stamp = {}, {}
    for w, rows in per_worker.items():
        for idx, ns in rows:
            worker_of.setdefault(idx, wid[w])
            stamp.setdefault(idx, ns)
    S = case["S"]
    if case["variant"] == "pool":
        if case["mode"] == "fake":
            return obs["rec"].get("schedule"), None
        cs = max(1, obs["hdr"].get("chunksize", 1))          # a printed chunksize of 0 (then Pool raises) must not break the harness
        m = (S + cs - 1) // cs
        label_idx = {c19_jobs.label_of(i): i for i in range(S)}
        arrival = [label_idx[l] for l, _ in obs["printed"] if l in label_idx]
        order = []
        for idx in arrival:
            if idx // cs not in order:
                order.append(idx // cs)
        order += [i for i in range(m) if i not in order]      # batches whose results never arrived (helper raised)
        worker = [worker_of.get(i * cs, 0) for i in range(m)]
        calls = [[worker_of.get(idx, -1), idx] for idx in arrival]
        return {"worker": worker, "order": order}, calls
    if case["variant"] == "executor":
        if case["mode"] == "fake":
            return obs["rec"].get("schedule"), None
        order = sorted(stamp, key=lambda i: (stamp[i], i))
        worker = [worker_of.get(i, 0) for i in range(S)]
        calls = [[worker_of[i], i] for i in order]
        order += [i for i in range(S) if i not in stamp]       # tasks that never ran (cancelled after a failure)
        return {"worker": worker, "order": order}, calls
    return None, None


def arg_indices(task):
    """job indices inside one pool task, whatever the helper wrapped the argument tuples (d, index, kind) into"""
    if isinstance(task, tuple) and len(task) == 3 and isinstance(task[0], str) and isinstance(task[1], int):
        return [task[1]]
    if isinstance(task, (tuple, list)):
        return [i for t in task for i in arg_indices(t)]
    return []


def impl_calls(case, obs):
    """calls as (worker, index) in the order the model lists them, derived from the traces only"""
    per_worker = obs["per_worker"]
    if case["variant"] == "mock":
        rows = [r for rows in per_worker.values() for r in rows]
        assert len(per_worker) <= 1
        return [[0, idx] for idx, _ in rows]
    if case["mode"] == "fake":
        sched = obs["rec"].get("schedule")
        if sched is None:
            return []
        out = []
        if case["variant"] == "pool":
            for i in sched["order"]:
                out += [[sched["worker"][i], idx] for idx in arg_indices(obs["rec"]["tasks"][i])]
        else:
            out = [[sched["worker"][i], i] for i in sched["order"]]
        # the traces must say the same (the stand-ins record the worker in the file names)
        seen = sorted([int(w[1:]), idx] for w, rows in per_worker.items() for idx, _ in rows)
        if obs["outcome"] == "ok" and seen != sorted(out):
            return [["trace-mismatch", seen]]
        return out
    return observed_schedule(case, obs)[1]


def helper_success_domain(case):
    ks = case["kinds"]
    if case["variant"] == "pool":
        return all(k == "pair" for k in ks)
    if case["variant"] == "executor":
        return all(k != "raise" for k in ks) and (case["max_workers"] is None or case["max_workers"] > 0)
    return all(k != "raise" for k in ks)


def helper_oracle(case, obs):
    """C19's helper clause on the marker files: one call per argument, helper returned normally"""
    if not helper_success_domain(case):
        return None
    S, markers = case["S"], obs["markers"]
    counts = [markers.get(i, 0) for i in range(S)]
    extra = sorted(set(markers) - set(range(S)))
    if any(c != 1 for c in counts) or extra:
        bad = {i: c for i, c in enumerate(counts) if c != 1}
        return ("not-exactly-once", f"calls per argument != 1: {dict(list(bad.items())[:8])} extra={extra[:4]}")
    if obs["outcome"] != "ok":
        return ("raised-after-all-jobs-ran",
                f"every job ran exactly once and succeeded, but the helper raised {obs['outcome']}")
    return None


def helper_request(case, sched):
    S = case["S"]
    results = [res_of_kind(case["kinds"][i], i) for i in range(S)]
    sched = sched or {"worker": [], "order": []}
    if case["variant"] == "pool":
        return {"op": "pool", "cpu": case["cpu"], "results": results, **sched}
    if case["variant"] == "executor":
        return {"op": "executor", "max_workers": case["max_workers"], "cpu": case["exec_cpu"], "results": results, **sched}
    return {"op": "mock", "results": results}


def helper_canon_impl(case, obs):
    full = obs["outcome"] == "ok" or case["variant"] == "mock"
    c = {"outcome": obs["outcome"]}
    if full:
        c["calls"] = impl_calls(case, obs)
        c["printed"] = obs["printed"] if case["variant"] == "pool" else []
        c["valid"] = True
    return c


def helper_canon_model(case, ans):
    full = ans["outcome"] == "ok" or case["variant"] == "mock"
    c = {"outcome": ans["outcome"]}
    if full:
        c.update(calls=ans["calls"], printed=ans["printed"], valid=ans["valid"])
    return c


def rand_schedule(rng, m, n):
    worker = [rng.randrange(max(n, 1)) for _ in range(m)]
    order = list(range(m))
    rng.shuffle(order)
    return {"worker": worker, "order": order}


def model_plan(cpu, S):
    """python transcription used ONLY to size schedules for the stand-ins (the value is re-derived by the
    real helper and by the Lean model; a wrong size here shows up as an invalid schedule)"""
    n = max(int(0.8 * cpu), 2)
    cs = max(1, int(S / n) + (1 if S % n > 0 else 0))
    return n, cs, (S + cs - 1) // cs


def gen_helper_cases(ctx):
    rng, cases = ctx.rng, []
    exec_cpu = getattr(os, "process_cpu_count", os.cpu_count)() or 1

    def pool(mode, S, cpu, kinds=None):
        c = {"kind": "helper", "variant": "pool", "mode": mode, "S": S, "cpu": cpu, "kinds": kinds or ["pair"] * S}
        if mode == "fake":
            n, cs, m = model_plan(cpu, S)
            c["schedule"] = rand_schedule(rng, m, n)
        return c

    def executor(mode, S, mw, kinds=None):
        c = {"kind": "helper", "variant": "executor", "mode": mode, "S": S, "max_workers": mw,
             "kinds": kinds or ["pair"] * S, "exec_cpu": exec_cpu, "cpu": exec_cpu}
        if mode == "fake":
            c["schedule"] = rand_schedule(rng, S, mw if mw is not None else exec_cpu)
        return c

    def mockc(S, kinds=None):
        return {"kind": "helper", "variant": "mock", "mode": "inproc", "S": S, "kinds": kinds or ["pair"] * S}

    # corpus: D14 witness (one job through the executor helper), empty batch, one job, a remainder chunk
    cases += [executor("real", 1, 2), executor("fake", 1, 2), executor("real", 0, 2), pool("real", 0, 4),
              pool("real", 1, 4), pool("real", 5, 4), pool("fake", 5, 4), mockc(0), mockc(3)]
    # stand-in pools: every job count 0..40 x worker counts 2..12 (cpu chosen so that n = 2..12)
    cpus = [1, 3, 4, 5, 7, 8, 9, 10, 12, 13, 14, 15]          # n = 2,2,3,4,5,6,7,8,9,10,11,12
    for S in range(0, 41):
        for cpu in (cpus if ctx.thorough else rng.sample(cpus, 3)):
            cases.append(pool("fake", S, cpu))
        for mw in ([1, 2, 3, 5, 8, 12, None] if ctx.thorough else rng.sample([1, 2, 3, 5, 8, 12, None], 2)):
            kinds = [rng.choice(["pair", "pair", "none", "scalar", "triple"]) for _ in range(S)]
            cases.append(executor("fake", S, mw, kinds))
        cases.append(mockc(S, [rng.choice(["pair", "none", "triple"]) for _ in range(S)]))
    for _ in range(60 if ctx.thorough else 10):
        cases.append(pool("fake", rng.randint(41, 300), rng.randint(1, 64)))
    # large batches for every helper (sizes around 256 / 512 / 1024 and not a multiple of them): every job still runs exactly once
    for S in ([257, 300, 511, 513, 700, 1025, 1500] if ctx.thorough else [rng.choice([257, 300]), rng.choice([513, 700, 1025])]):
        cases.append(executor("fake", S, rng.choice([1, 3, 8, None])))
        cases.append(pool("fake", S, rng.choice([1, 4, 9, 15])))
        cases.append(mockc(S))
    # real worker processes
    real_S = list(range(0, 41)) if ctx.thorough else [0, 1, 2, 3, 4, 5, 7, 9, 12, 13, 16, 24, 25, 33, 40]
    for S in real_S:
        for cpu in (cpus if ctx.thorough else rng.sample(cpus, 3)):
            cases.append(pool("real", S, cpu))
        for mw in ([1, 2, 3, 5, 12] if ctx.thorough else rng.sample([1, 2, 3, 5, 12], 2)):
            cases.append(executor("real", S, mw))
    cases.append(executor("real", 6, None))
    return cases


def gen_helper_malformed(ctx):
    """calls that fail / results that are not pairs / rejected worker counts: the helper must raise the
    same exception class as the model (which calls ran besides is compared only for the sequential mock)"""
    rng, cases = ctx.rng, []
    exec_cpu = getattr(os, "process_cpu_count", os.cpu_count)() or 1
    for S in (1, 2, 5, 9, 17):
        for bad in ("none", "scalar", "triple", "raise"):
            kinds = ["pair"] * S
            kinds[rng.randrange(S)] = bad
            n, cs, m = model_plan(4, S)
            cases.append({"kind": "helper", "variant": "pool", "mode": "fake", "S": S, "cpu": 4, "kinds": kinds,
                          "schedule": rand_schedule(rng, m, n), "malformed": True})
            if bad == "raise":
                cases.append({"kind": "helper", "variant": "executor", "mode": "fake", "S": S, "max_workers": 3,
                              "kinds": kinds, "exec_cpu": exec_cpu, "cpu": exec_cpu,
                              "schedule": rand_schedule(rng, S, 3), "malformed": True})
                cases.append({"kind": "helper", "variant": "mock", "mode": "inproc", "S": S, "kinds": kinds,
                              "malformed": True})
    for mw in (0, -1, -5):
        for mode in ("fake", "real"):
            cases.append({"kind": "helper", "variant": "executor", "mode": mode, "S": 3, "max_workers": mw,
                          "kinds": ["pair"] * 3, "exec_cpu": exec_cpu, "cpu": exec_cpu,
                          "schedule": {"worker": [0, 0, 0], "order": [0, 1, 2]} if mode == "fake" else None,
                          "malformed": True})
    if ctx.thorough:        # a failing job in real worker processes (only the exception class is compared)
        for S in (3, 9):
            kinds = ["pair"] * S
            kinds[S // 2] = "raise"
            cases.append({"kind": "helper", "variant": "pool", "mode": "real", "S": S, "cpu": 4, "kinds": kinds,
                          "malformed": True})
            cases.append({"kind": "helper", "variant": "executor", "mode": "real", "S": S, "max_workers": 2,
                          "kinds": kinds, "exec_cpu": exec_cpu, "cpu": exec_cpu, "malformed": True})
    return cases


# ---- plan level: worker count, chunk size and batches for many (cpu, S) without running jobs
def _noop(a):
    return ("0", "x")


def run_plans(ctx, pairs):
    su = _su()
    impl, reqs = [], []
    for cpu, S in pairs:
        rec = {}
        FakePool.rec = rec
        FakePool.make_schedule = lambda m, n: ([0] * m, list(range(m)))
        with contextlib.redirect_stdout(io.StringIO()), mock.patch.object(multiprocessing, "cpu_count", return_value=cpu), \
                mock.patch.object(multiprocessing, "Pool", FakePool):
            try:
                su.perform_parallel_simulation_with_multiprocessing(list(range(S)), _noop)
            except Exception as e:                                              # noqa
                rec["raised"] = type(e).__name__
        impl.append({"n_processes": rec.get("processes"), "chunksize": rec.get("chunksize"), "chunks": rec.get("tasks", []),
                     "closed": rec.get("closed"), "joined": rec.get("joined")})
        reqs.append({"op": "plan", "cpu": cpu, "S": S})
    return impl, reqs


def plan_oracle(cpu, S, p):
    """the property on what the real helper handed to the pool: the pool accepts the chunk size and the
    batches contain every argument exactly once (given that the pool runs every batch exactly once)"""
    def leaves(t):                        # the helper may wrap the arguments (here: the integers 0..S-1) into tuples of its own
        return [x for u in t for x in leaves(u)] if isinstance(t, (tuple, list)) else [t]
    flat = sorted(x for c in p["chunks"] for x in leaves(c))
    if p["chunksize"] is None or p["chunksize"] < 1:
        return "chunk size < 1: the pool rejects the call"
    if flat != list(range(S)):
        return "the batches handed to the pool do not contain every argument exactly once"
    return None


def plan_conformance(cpu, S, p):
    """the rest of `chunks_partition` (not demanded by the property; a failure is a broken tie, not a violation)"""
    if p["n_processes"] < 2 or len(p["chunks"]) > p["n_processes"]:
        return "fewer than two workers or more batches than workers"
    if any(not c or len(c) > p["chunksize"] for c in p["chunks"]) or [x for c in p["chunks"] for x in c] != list(range(S)):
        return "an empty batch, a batch longer than the chunk size, or batches out of order"
    if not (p["closed"] and p["joined"]):
        return "pool not closed and joined"
    return None


# ================================================================================================= main
def case_key(case):
    c = {k: v for k, v in case.items() if k not in ("family",)}
    return core.sha(c)


def run_case_impl(case, base):
    if case["kind"] == "merge":
        res = run_merge_impl(case, base)
        return res, merge_oracle(case, res)
    obs = run_helper_impl(case, base)
    return obs, helper_oracle(case, obs)


def public_obs(case, res):
    if case["kind"] == "merge":
        changed = sorted(n for n in res["after"] if res["before"].get(n) != res["after"][n])
        return {"outcome": res["outcome"], "changed_or_created": changed,
                "removed": sorted(set(res["before"]) - set(res["after"])),
                "loaded": {n: res["loaded"][n] for n in changed}}
    return {"outcome": res["outcome"], "markers_per_argument": [res["markers"].get(i, 0) for i in range(case["S"])],
            "printed": res["printed"][:50]}


def main(ctx):
    lean = ctx.lean("QG.Props.C19")
    base = tempfile.mkdtemp(prefix="c19-")
    cov = ctx.coverage
    try:
        merge_cases = gen_merge_cases(ctx)
        merge_bad = gen_merge_malformed(ctx)
        helper_cases = gen_helper_cases(ctx)
        helper_bad = gen_helper_malformed(ctx)
        allc = merge_cases + merge_bad + helper_cases + helper_bad
        observed, reqs, oracle_fail = [], [], []
        for case in allc:
            res, bad = run_case_impl(case, base)
            observed.append(res)
            ctx.count()
            if bad:
                oracle_fail.append((case, res, bad))
            if case["kind"] == "merge":
                reqs.append(merge_request(case))
            else:
                reqs.append(helper_request(case, observed_schedule(case, res)[0]))
        # plan level
        grid = [(cpu, S) for cpu in range(1, 41) for S in range(0, 61)] if ctx.thorough else \
               [(cpu, S) for cpu in range(1, 21) for S in range(0, 41, 1) if (cpu + S) % 2 == 0 or S < 6]
        grid += [(ctx.rng.randint(1, 512), ctx.rng.randint(0, 20000)) for _ in range(400 if ctx.thorough else 60)]
        plan_impl, plan_reqs = run_plans(ctx, grid)
        ctx.count(len(grid))
        plan_fail = [(g, p, plan_oracle(g[0], g[1], p)) for g, p in zip(grid, plan_impl) if plan_oracle(g[0], g[1], p)]
        plan_nonconf = [(g, plan_conformance(g[0], g[1], p)) for g, p in zip(grid, plan_impl) if plan_conformance(g[0], g[1], p)]
        drv = core.Driver(ctx.pid)
        answers = drv.batch(reqs + plan_reqs)
        model_out, plan_model = answers[:len(reqs)], answers[len(reqs):]
        mismatches = []
        for case, res, ans in zip(allc, observed, model_out):
            if "bad" in ans:
                mismatches.append((case, "driver: " + ans["bad"], None)); continue
            if case["kind"] == "merge":
                a, b = merge_canon_impl(res), merge_canon_model(ans)
            else:
                a, b = helper_canon_impl(case, res), helper_canon_model(case, ans)
            if a != b:
                mismatches.append((case, a, b))
        for (cpu, S), p, ans in zip(grid, plan_impl, plan_model):
            a = {k: p[k] for k in ("n_processes", "chunksize", "chunks")}
            if a != ans:
                mismatches.append(({"kind": "plan", "cpu": cpu, "S": S}, a if S < 50 else "…", ans if S < 50 else "…"))
        for (cpu, S), text in plan_nonconf:
            mismatches.append(({"kind": "plan", "cpu": cpu, "S": S}, text, "chunks_partition"))

        # ---- evidence
        seen, nontrivial = set(), set()
        fam, outcomes = {}, {}
        for case, res in zip(allc, observed):
            key = case_key(case)
            if case["kind"] == "merge":
                f = case["family"].split(":")[0] + ":" + case["family"].split(":")[1]
                fam["merge/" + f] = fam.get("merge/" + f, 0) + 1
                nt = len(case["targets"]) >= 2 or any(t in case["files"] for t in case["targets"]) or merge_refusal(case)
            else:
                f = f"{case['variant']}/{case['mode']}" + ("/malformed" if case.get("malformed") else "")
                fam["helper/" + f] = fam.get("helper/" + f, 0) + 1
                nt = case["S"] >= 2
            outcomes[res["outcome"]] = outcomes.get(res["outcome"], 0) + 1
            if key not in seen:
                seen.add(key)
                if nt:
                    nontrivial.add(key)
        cov["distinct_nontrivial"] = len(nontrivial) + sum(1 for cpu, S in set(grid) if S > max(int(0.8 * cpu), 2))
        cov["rule"] = ("distinct inputs beyond the repository's own single test (one target, nothing pre-existing): merge "
                       "cases with >= 2 targets, or a pre-existing target, or a refusal condition; helper runs with >= 2 "
                       "jobs; plan-level (cpu, S) pairs with more jobs than workers (chunk size > 1)")
        cov["case_families"] = fam
        cov["outcome_histogram"] = outcomes
        cov["merge_cases"] = len(merge_cases) + len(merge_bad)
        cov["helper_runs_fake_pools"] = sum(1 for c in helper_cases + helper_bad if c["mode"] == "fake")
        cov["helper_runs_real_worker_processes"] = sum(1 for c in helper_cases + helper_bad if c["mode"] == "real")
        cov["helper_runs_sequential_mock"] = sum(1 for c in helper_cases + helper_bad if c["variant"] == "mock")
        cov["plan_level_pairs"] = len(grid)
        cov["job_counts"] = sorted({c["S"] for c in helper_cases})[:60]
        cov["worker_counts_pool"] = sorted({max(int(0.8 * c["cpu"]), 2) for c in helper_cases if c["variant"] == "pool"})
        cov["traces_validated_against_impl"] = len(reqs) + len(plan_reqs)
        cov["correspondence_mismatches"] = len(mismatches)
        cov["oracle_failures"] = len(oracle_fail)
        ex = merge_cases[0]
        ctx.sample({"merge": {k: ex[k] for k in ("sources", "targets", "split")},
                    "preexisting": sorted(ex["files"]), "impl": observed[0]["outcome"], "model": model_out[0].get("outcome")})
        hi = len(merge_cases) + len(merge_bad)
        for off in (0, 5, len(helper_cases) - 1):
            c, o = helper_cases[off], observed[hi + off]
            ctx.sample({"helper": {k: c.get(k) for k in ("variant", "mode", "S", "cpu", "max_workers")},
                        "impl_outcome": o["outcome"], "calls": impl_calls(c, o)[:12] if o["outcome"] == "ok" else None})
        # remarks (reported, not violations)
        dup = [(c, r) for c, r in zip(allc, observed) if c.get("family") == "remark:duplicate-targets"]
        shp = [(c, r) for c, r in zip(allc, observed) if c.get("family") == "remark:shape-mismatch-in-group"]
        partial = sum(1 for c, r in shp if r["outcome"] == "ValueError" and r["before"] != r["after"])
        ctx.notes["remarks"] = [
            f"duplicate target names are accepted and silently overwrite: {sum(1 for _, r in dup if r['outcome'] == 'ok')} of "
            f"{len(dup)} such calls returned normally; the name ends up holding the mean of the LAST group written under it "
            "(Lean: merge_duplicate_targets_last_wins; the model agrees on every such case)",
            f"tables of different length inside one group: numpy raises ValueError half-way; in {partial} of {len(shp)} such "
            "calls earlier targets had already been written (outside the statement, which lists only the four refusal "
            "conditions; Lean: merge_frame still guarantees that nothing but targets is touched)",
        ]
        cov["trusted_base"] += [
            "hand-written models QG/Model/Merge.lean and QG/Model/Pool.lean, tied by exact differential correspondence on every "
            "case of this run (file system = map path -> table compared as strings; tables = flat entry lists)",
            "multiprocessing.Pool.imap_unordered / ProcessPoolExecutor.map run every submitted task exactly once, a batch's calls "
            "in order on one worker (Schedule.Valid); observed on every real-pool run of this check, not proved",
            "numpy: loadtxt/savetxt('%.18e') round-trip doubles, += and / are entry-wise IEEE operations (exact on the integer "
            "data used here); os.path.isfile / open as a map from path strings to regular files (no aliases, no directories)",
            "int(0.8*c) = floor(8c/10) and int(S/n) = floor(S/n) (float vs natural-number arithmetic), compared at plan level",
            "in-process stand-ins for the pools (FakePool/FakeExecutor in this file; they reuse Pool._get_tasks and mapstar) for the "
            "schedule-controlled runs",
        ]
        ctx.assumptions += [
            "merge theorem hypotheses that are not the code's own checks: tables of one group have the same shape (>= 2 entries); "
            "target names pairwise distinct (duplicates: remark); disjointness of targets and sources is derived, not assumed",
            "asserts are active (python is not run with -O)",
            "helpers: 'every call succeeds' = no call raises and, for the pool variant, every call returns a 2-tuple; when a call "
            "fails only the exception class is claimed/compared (except for the sequential mock, which is compared completely)",
            "max_workers is ignored by the pool and mock variants (as in the code); the pool variant sizes the pool from cpu_count",
        ]

        # ---- decide
        by_sig, sig_count = {}, {}
        for case, res, (fid, text) in oracle_fail:
            if case["kind"] == "merge":
                sig = {"kind": "merge", "failure": fid}
                size = (0 if case["family"].startswith("corpus") else 1, len(case["targets"]), len(case["files"]), case["split"])
            else:
                sig = {"kind": "helper", "variant": case["variant"], "failure": fid}
                if fid == "raised-after-all-jobs-ran":
                    sig["exception"] = res["outcome"]
                size = (case["S"], 0 if case["mode"] == "real" else 1, 0)
            k = json.dumps(sig, sort_keys=True)
            sig_count[k] = sig_count.get(k, 0) + 1
            if k not in by_sig or size < by_sig[k][0]:
                by_sig[k] = (size, sig, case, res, text)
        cov["oracle_failure_signatures"] = sig_count
        for k, (size, sig, case, res, text) in sorted(by_sig.items()):
            what = (f"post_process_split(sources={case['sources']}, targets={case['targets']}, split={case['split']}) with "
                    f"{sorted(case['files'])} on disk: {text}") if case["kind"] == "merge" else \
                   (f"{case['variant']} helper, {case['S']} job(s), mode={case['mode']}: {text}")
            ctx.violation(sig, {"case": case, "failure": [sig["failure"], text], "observed": public_obs(case, res)}, what)
        for (cpu, S), p, text in plan_fail[:3]:
            ctx.violation({"kind": "plan", "failure": text}, {"case": {"kind": "plan", "cpu": cpu, "S": S}, "failure": text},
                          f"pool helper with cpu_count={cpu}, {S} jobs: {text}")
        # a disagreement between model and code at an input where the oracle ALSO fails is that failing input seen twice;
        # a disagreement anywhere else is a broken tie and is reported even when (known) oracle failures exist.
        failing_keys = {case_key(c) for c, _, _ in oracle_fail} | {json.dumps({"kind": "plan", "cpu": g[0], "S": g[1]}) for g, _, _ in plan_fail}
        d13_seen = any(f == "existing-target-not-refused" for _, _, (f, _) in oracle_fail)

        def explained(case, a, b):
            if case["kind"] == "plan":
                return json.dumps(case) in failing_keys
            if case_key(case) in failing_keys:
                return True
            # same call site as D13, seen from outside the positive clause: the third assertion decides differently with
            # `all` (pinned) and `any` — k = 0 (`not all([])` refuses an empty merge) or a later assertion refuses instead;
            # nothing is written either way, only the identity of the AssertionError differs
            return (d13_seen and case["kind"] == "merge" and isinstance(a, dict) and isinstance(b, dict)
                    and a.get("files") == b.get("files")
                    and "AssertionError:target" in (a.get("outcome"), b.get("outcome")))
        unexplained = [m for m in mismatches if not explained(*m)]
        cov["correspondence_mismatches_not_at_oracle_failures"] = len(unexplained)
        if unexplained:
            case, a, b = unexplained[0]
            ctx.violation({"kind": "correspondence"},
                          {"case": case, "impl": a, "model": b, "n_mismatches": len(unexplained),
                           "broken": "correspondence between the real code and QG.Model.Merge / QG.Model.Pool"},
                          "model and implementation disagree at an input on which the property's oracle passes",
                          no_failing_input=True)
        if not lean.ok:
            ctx.violation({"kind": "proof"}, {"broken": lean.failed},
                          "Lean obligations of C19 do not check", no_failing_input=True)
    finally:
        shutil.rmtree(base, ignore_errors=True)


def replay(ctx, path):
    rp = json.load(open(path))["replay"]
    case = rp.get("case")
    if not case or case.get("kind") not in ("merge", "helper", "plan"):
        print("replay names a broken obligation, no input to re-run:", json.dumps(rp)[:400]); return 1
    base = tempfile.mkdtemp(prefix="c19-replay-")
    try:
        if case["kind"] == "plan":
            impl, _ = run_plans(ctx, [(case["cpu"], case["S"])])
            bad = plan_oracle(case["cpu"], case["S"], impl[0])
            print("input:", case); print("implementation:", {k: impl[0][k] for k in ("n_processes", "chunksize")})
            print("oracle:", bad or "holds")
            return 1 if bad else 0
        res, bad = run_case_impl(case, base)
        shown = {k: v for k, v in case.items() if k != "files"}
        if case["kind"] == "merge":
            shown["files_on_disk_before"] = {n: s["vals"] for n, s in case["files"].items()}
        print("input:", json.dumps(shown))
        print("implementation:", json.dumps(public_obs(case, res)))
        print("oracle:", f"{bad[0]}: {bad[1]}" if bad else "holds")
        return 1 if bad else 0
    finally:
        shutil.rmtree(base, ignore_errors=True)
