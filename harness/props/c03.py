"""C03 — with noise switched off the simulator reproduces the ideal circuit.

Lean: QG.Props.C03 — frame identities for every noise-free gate (regenerated from gates.py, all phases) and the virtual-Z
frame invariant of the index-based circuit class proved on the wiring model for every native circuit, every register size and
every real rz angle; layered classes via C01 (layer semantics) + the correspondence of C08.
Tie: translator for the gate formulas (gen/gatesets) + the wiring correspondence (shared with C08, run here with the noise-free
gate set) .  Oracle (independent of both): qiskit.quantum_info.Statevector of the same circuit, marginalised to the measured qubits.
"""
import json, math
import numpy as np
from qgv import core, pyexpr, wiring as W
from gen import frames

CLASSES = ["binary", "grid", "standard", "efficient", "one"]


def ideal_probs(ops, labels, psi0):
    """Born probabilities of the ideal circuit (Qiskit), keys: k-th character = bit of the k-th measured qubit.
    Position p (ascending labels) is Qiskit qubit n-1-p, so Qiskit's little-endian index equals numpy's big-endian index."""
    from qiskit import QuantumCircuit
    from qiskit.quantum_info import Statevector
    n = len(labels)
    pos = {q: i for i, q in enumerate(sorted(labels))}
    qb = lambda q: n - 1 - pos[q]
    qc = QuantumCircuit(n)
    for op in ops:
        k = op[0]
        if k == "rz":
            qc.rz(op[2] * W.UNIT, qb(op[1]))
        elif k == "sx":
            qc.sx(qb(op[1]))
        elif k == "x":
            qc.x(qb(op[1]))
        elif k == "cx":
            qc.cx(qb(op[1]), qb(op[2]))
        elif k == "ecr":
            qc.ecr(qb(op[1]), qb(op[2]))
    p = np.abs(Statevector(psi0).evolve(qc).data) ** 2
    meas = [op for op in ops if op[0] == "measure"]
    out = {}
    for i, v in enumerate(p):
        bits = format(i, f"0{n}b")
        key = "".join(bits[pos[m[1]]] for m in meas)
        out[key] = out.get(key, 0.0) + float(v)
    return out


def random_psi0(rng, n, entangled=False):
    if entangled:
        v = np.array([rng.gauss(0, 1) + 1j * rng.gauss(0, 1) for _ in range(2 ** n)])
        return v / np.linalg.norm(v)
    psi = np.array([1.0 + 0j])
    for _ in range(n):
        f = np.array([rng.gauss(0, 1) + 1j * rng.gauss(0, 1), rng.gauss(0, 1) + 1j * rng.gauss(0, 1)])
        psi = np.kron(psi, f / np.linalg.norm(f))
    return psi


def noise_free_params(maxlabel):
    dp = W.tagged_params(maxlabel)
    dp.update(T1=np.ones(maxlabel + 1), T2=np.ones(maxlabel + 1), dt=[1e-9])
    return dp


def run_case(cls, ops, labels, n, psi0, shots=1):
    """noise-free gates are deterministic: the mean over any number of shots must be the ideal distribution too"""
    from quantum_gates._gates.gates import NoiseFreeGates
    r = W.observe_run(cls, ops, n, gates=NoiseFreeGates(), psi0=psi0, device_param=noise_free_params(max(labels)), want_result=True,
                      shots=shots)
    if "err" in r:
        return f"valid circuit raised {r['err']}: {r.get('msg', '')}", r
    want = ideal_probs(ops, labels, psi0)
    got = r["result"]
    if set(want) != set(got):
        return f"outcome keys {sorted(got)} differ from the ideal circuit's {sorted(want)}", r
    dev = max(abs(want[k] - got[k]) for k in want)
    if not dev <= 1e-9:
        k = max(want, key=lambda k: abs(want[k] - got[k]))
        return f"probability of outcome {k!r} is {got[k]:.6f}, the ideal circuit gives {want[k]:.6f}", r
    return None, r


def same_simulator_case(rng, cls):
    """ONE simulator object serves two circuits of the same name, register size and measured qubits (the second is the
    first with more operations in front of the read-out, as `QuantumCircuit.copy()` + appended gates would give): each
    run must reproduce ITS circuit's ideal distribution.  Returns (ops of the second circuit, failure or None)."""
    import contextlib, io
    import quantum_gates._simulation.simulator as S
    from quantum_gates._gates.gates import NoiseFreeGates
    n = rng.randint(2, 4)
    opsA, labels = W.random_ops(rng, cls, n, rng.randint(3, 9))
    body = [op for op in opsA if op[0] != "measure"]
    if cls in ("grid", "standard") and not any(op[0] in ("cx", "ecr") for op in body):
        body.append(["cx", labels[0], labels[1]])
    meas = [op for op in opsA if op[0] == "measure"]
    q = rng.choice(labels)
    extra = [["rz", q, rng.randint(20, 100)], ["sx", q], ["rz", q, rng.randint(20, 100)], ["sx", rng.choice(labels)]]
    opsA, opsB = body + meas, body + extra + meas
    nl = max(labels) + 1
    ncl = max(op[2] for op in meas) + 1
    psi0 = random_psi0(rng, n)
    dp = noise_free_params(max(labels))
    sim = S.MrAndersonSimulator(gates=NoiseFreeGates(), CircuitClass=W.circuit_class(cls), parallel=False)
    # third: the first circuit with other angles / gate kinds at the same positions (a parameter sweep: same name, same number of
    # instructions, same qubits); fourth: the FIRST circuit's own object edited in place (read-out removed, gates appended, read out again)
    swap = {"sx": "x", "x": "sx", "cx": "ecr", "ecr": "cx"}
    bodyC = [[op[0], op[1], op[2] + rng.choice([-77, 31, 64, 113])] if op[0] == "rz" else
             ([swap[op[0]]] + op[1:] if op[0] in swap and rng.random() < 0.7 else list(op)) for op in body]
    opsC = bodyC + meas
    extraD = [["sx", q], ["rz", q, rng.randint(20, 100)], ["x", rng.choice(labels)]]
    opsD = body + extraD + meas
    qcs = [W.build_qiskit(o, nl, ncl) for o in (opsA, opsB, opsC)]
    qcs[1].name = qcs[0].name
    qcs[2].name = qcs[0].name
    steps = [("first", opsA, lambda: qcs[0]), ("second (same name, more gates)", opsB, lambda: qcs[1]),
             ("third (same name, same number of instructions, other angles / gate kinds)", opsC, lambda: qcs[2])]

    def edited_in_place():
        qc = qcs[0]
        for _ in meas:
            qc.data.pop()
        for op in extraD + meas:
            k = op[0]
            (qc.rz(op[2] * W.UNIT, op[1]) if k == "rz" else qc.sx(op[1]) if k == "sx" else qc.x(op[1]) if k == "x" else qc.measure(op[1], op[2]))
        return qc
    steps.append(("fourth (the first circuit object edited in place: read-out removed, gates appended, read out again)", opsD, edited_in_place))

    # fifth: the same object edited in place WITHOUT changing its length: one rz angle / one sx <-> x replaced through circuit.data
    # (an angle sweep on one circuit object), and the first measurement re-targeted to another clbit-preserving qubit when there is one
    opsE = [list(op) for op in opsD]
    idx = [i for i, op in enumerate(opsE) if op[0] in ("rz", "sx", "x")]

    def edited_same_length():
        from qiskit.circuit.library import RZGate, SXGate, XGate
        qc = qcs[0]
        for i in (idx[:2] if idx else []):
            op = opsE[i]
            if op[0] == "rz":
                op[2] = op[2] + 45
                new = RZGate(op[2] * W.UNIT)
            elif op[0] == "sx":
                op[0] = "x"; new = XGate()
            else:
                op[0] = "sx"; new = SXGate()
            # position of this op inside circuit.data: ops and data are in the same order (measure ops included)
            qc.data[i] = qc.data[i].replace(operation=new)
        return qc
    if idx:
        steps.append(("fifth (the same circuit object edited in place, same number of instructions: an rz angle / sx <-> x replaced)", opsE, edited_same_length))
    for tag, ops, mk in steps:
        qc = mk()
        try:
            with contextlib.redirect_stdout(io.StringIO()):
                got = sim.run(t_qiskit_circ=qc, qubits_layout=list(range(nl)), psi0=psi0, shots=1, device_param=dp, nqubit=n)
        except Exception as e:                  # noqa
            return opsB, f"{tag} run on one simulator object raised {type(e).__name__}: {str(e)[:100]}"
        want = ideal_probs(ops, labels, psi0)
        if set(want) != set(got):
            return opsB, f"{tag} run on one simulator object: outcome keys {sorted(got)[:4]} differ from the ideal circuit's"
        dev = max(abs(want[k] - got[k]) for k in want)
        if not dev <= 1e-9:
            k = max(want, key=lambda k: abs(want[k] - got[k]))
            return opsB, (f"{tag} run on one simulator object: probability of outcome {k!r} is {got[k]:.6f}, the ideal circuit gives "
                          f"{want[k]:.6f}")
    return opsB, None


def fix_counts_case(rng, n):
    """ascending classical bits: reversing the keys with fix_counts gives Qiskit's little-endian table"""
    from quantum_gates._utility.simulations_utility import fix_counts
    from qiskit import QuantumCircuit
    from qiskit.quantum_info import Statevector
    from quantum_gates._gates.gates import NoiseFreeGates
    ops, labels = W.random_ops(rng, "binary", n, rng.randint(3, 10), measure="ascending")
    ops = [op for op in ops if op[0] != "measure"] + [["measure", q, i] for i, q in enumerate(sorted(labels))]
    psi0 = np.eye(1, 2 ** n)[0].astype(complex)
    r = W.observe_run("binary", ops, n, gates=NoiseFreeGates(), psi0=psi0, device_param=noise_free_params(max(labels)), want_result=True)
    if "err" in r:
        return ops, f"raised {r['err']}"
    fixed = fix_counts(dict(r["result"]), n)
    pos = {q: i for i, q in enumerate(sorted(labels))}
    qc = QuantumCircuit(n)                     # Qiskit's own ordering: qubit k = k-th label
    for op in ops:
        k = op[0]
        if k == "rz":
            qc.rz(op[2] * W.UNIT, pos[op[1]])
        elif k in ("sx", "x"):
            getattr(qc, k)(pos[op[1]])
        elif k in ("cx", "ecr"):
            getattr(qc, k)(pos[op[1]], pos[op[2]])
    want = Statevector.from_instruction(qc).probabilities_dict()
    dev = max(abs(fixed.get(k, 0.0) - want.get(k, 0.0)) for k in set(fixed) | set(want))
    return ops, (None if dev <= 1e-9 else f"fix_counts(result) deviates from Qiskit's little-endian probabilities by {dev:.3e}")


def transpiled_cases(ctx):
    """the bundled benchmark circuits transpiled offline for a cx- and an ecr-based fake backend (thorough tier)"""
    out = []
    try:
        from qiskit import transpile
        from qiskit_ibm_runtime.fake_provider import FakeLimaV2, FakeSherbrooke
        from quantum_gates._utility.quantum_algorithms import ghz_circ, hadamard_reverse_qft_circ
        for backend, lay in ((FakeLimaV2(), [0, 1, 2]), (FakeSherbrooke(), [0, 1, 2])):
            for gen in (ghz_circ, hadamard_reverse_qft_circ):
                t = transpile(gen(3), backend, initial_layout=lay, scheduling_method="asap", seed_transpiler=7, optimization_level=1)
                out.append((type(backend).__name__, gen.__name__, t, lay))
    except Exception as e:                       # noqa
        ctx.notes["transpiled_benchmarks_skipped"] = f"{type(e).__name__}: {e}"
    return out


def classify(bad):
    if "UFuncTypeError" in bad or "dtype" in bad:
        return {"kind": "object-dtype-without-two-qubit-gate"}
    return {"kind": "ideal-mismatch"}


def main(ctx):
    cov = ctx.coverage
    tie_broken, fr_bad = None, []
    try:
        trees = frames.generate()
        fr_bad = frames.validate(trees, ctx.rng, 12 if ctx.thorough else 5)
    except (pyexpr.Unsupported, SyntaxError, OSError, KeyError, IndexError, AttributeError, TypeError) as e:
        tie_broken = f"translator fails closed on NoiseFreeGates: {type(e).__name__}: {e}"
    lean = ctx.lean("QG.Props.C03") if tie_broken is None else None
    rng = ctx.rng
    fails, nontrivial, hist = [], set(), {}
    corpus = [("binary", [["sx", 0], ["cx", 1, 0], ["measure", 0, 0], ["measure", 1, 1]], [0, 1]),
              ("efficient", [["x", 1], ["rz", 0, 5], ["measure", 0, 0], ["measure", 1, 1]], [0, 1]),
              ("grid", [["rz", 0, -5], ["sx", 0], ["measure", 0, 1]], [0]),
              ("standard", [["sx", 0], ["x", 1], ["measure", 1, 0]], [0, 1]),
              ("binary", [["ecr", 7, 2], ["sx", 7], ["cx", 2, 7], ["measure", 7, 0], ["measure", 2, 1]], [2, 7])]
    cs = [(c, o, l, len(l)) for c, o, l in corpus]
    for cls in CLASSES:
        for _ in range(60 if ctx.thorough else 14):
            n = rng.randint(1, 7 if ctx.thorough else 5)
            ops, labels = W.random_ops(rng, cls, n, rng.randint(0, 16))
            cs.append((cls, ops, labels, n))
    # one long register (17 qubits, beyond two bytes of basis index; thorough: also 18) on the index-based class, few gates
    for nbig in ([17, 18] if ctx.thorough else [17]):
        ops, labels = W.random_ops(rng, "binary", nbig, 5)
        ops = [op for op in ops if op[0] != "measure"]
        mq = rng.sample(labels, 3)
        if labels[-1] not in mq:
            mq[0] = labels[-1]
        ops += [["measure", q, c] for c, q in enumerate(mq)]
        cs.append(("binary", ops, labels, nbig))
    for i, (cls, ops, labels, n) in enumerate(cs):
        psi0 = random_psi0(rng, n, entangled=(i % 3 == 2 and n <= 10))
        shots = 1 + (i % 3)
        bad, r = run_case(cls, ops, labels, n, psi0, shots=shots)
        ctx.count()
        if any(op[0] in ("cx", "ecr") for op in ops):
            nontrivial.add(core.sha([cls, ops]))
        hist[cls] = hist.get(cls, 0) + 1
        for op in ops:
            if op[0] in ("cx", "ecr"):
                key = f"{op[0]}-{'rev' if op[1] > op[2] else 'fwd'}"
                hist[key] = hist.get(key, 0) + 1
        if bad:
            fails.append((cls, ops, labels, n, [complex(x) for x in psi0], bad + (f" (mean of {shots} shots)" if shots > 1 else ""), shots))
    for cls in CLASSES:
        for _ in range(4 if ctx.thorough else 1):
            ops, bad = same_simulator_case(rng, cls); ctx.count()
            hist["same-simulator"] = hist.get("same-simulator", 0) + 1
            if bad:
                fails.append((cls, ops, None, None, None, bad))
    # parallel mode under every start method: a noise-free run is deterministic, so the pool must return the ideal distribution too
    # (the workers must use the gate set and the circuit class the simulator was given, whatever the way they were started)
    par_reqs = []
    for sm in (("fork", "spawn", "forkserver") if ctx.thorough else ("fork", "spawn")):
        for cls in (CLASSES if ctx.thorough else [rng.choice(["binary", "efficient"]), rng.choice(["grid", "standard", "one"])]):
            n = rng.randint(2, 3)
            ops, labels = W.random_ops(rng, cls, n, rng.randint(4, 9))
            if not any(op[0] in ("sx", "x", "cx", "ecr") for op in ops):
                ops.insert(0, ["sx", labels[0]])
            psi0 = random_psi0(rng, n)
            par_reqs.append((sm, cls, ops, labels, n, psi0))
    for sm in ("fork", "spawn", "forkserver"):
        idx = [i for i, r in enumerate(par_reqs) if r[0] == sm]
        if not idx:
            continue
        rc, so, se = core.run_repo_python(["-c", "from qgv.c03_parallel import cli; cli()"],
                                          {"start_method": sm, "cases": [{"cls": par_reqs[i][1], "ops": par_reqs[i][2], "n": par_reqs[i][4],
                                                                          "psi0": [[z.real, z.imag] for z in par_reqs[i][5]], "shots": 3, "cpu": 3}
                                                                         for i in idx]}, timeout=1500)
        if rc != 0:
            raise RuntimeError(f"parallel case runner failed rc={rc}: {se[-800:]}")
        for i, o in zip(idx, json.loads(so)):
            _, cls, ops, labels, n, psi0 = par_reqs[i]
            ctx.count()
            hist[f"parallel-{sm}"] = hist.get(f"parallel-{sm}", 0) + 1
            if "internal_error" in o:
                raise RuntimeError(f"parallel case runner: {o['internal_error']}")
            bad = None
            if "err" in o:
                bad = f"parallel run (start method {sm}) of a valid circuit raised {o['err']}"
            else:
                want, got = ideal_probs(ops, labels, psi0), o["result"]
                if set(want) != set(got):
                    bad = f"parallel run (start method {sm}): outcome keys {sorted(got)[:4]} differ from the ideal circuit's"
                else:
                    k = max(want, key=lambda k: abs(want[k] - got[k]))
                    if not abs(want[k] - got[k]) <= 1e-9:
                        bad = (f"parallel run (start method {sm}, 3 shots on 2 workers): probability of outcome {k!r} is {got[k]:.6f}, the ideal "
                               f"circuit gives {want[k]:.6f}")
            if bad:
                fails.append((cls, ops, labels, n, [complex(x) for x in psi0], bad, {"parallel": sm}))
    # the interpreter's optimisation switch (python -O / PYTHONOPTIMIZE strips assert statements): a noise-free sequential run of
    # every layered class in such an interpreter returns the ideal distribution too
    o_reqs = []
    for cls in (CLASSES if ctx.thorough else ["standard", "one", "binary"]):
        n = rng.randint(2, 3)
        ops, labels = W.random_ops(rng, cls, n, rng.randint(4, 8))
        if not any(op[0] in ("sx", "x", "cx", "ecr") for op in ops):
            ops.insert(0, ["sx", labels[0]])
        o_reqs.append((cls, ops, labels, n, random_psi0(rng, n)))
    rc, so, se = core.run_repo_python(["-O", "-c", "from qgv.c03_parallel import cli; cli()"],
                                      {"start_method": None, "cases": [{"cls": c, "ops": o, "n": n, "psi0": [[z.real, z.imag] for z in p], "shots": 1,
                                                                        "sequential": True} for c, o, l, n, p in o_reqs]}, timeout=900)
    if rc != 0:
        raise RuntimeError(f"python -O case runner failed rc={rc}: {se[-800:]}")
    for (cls, ops, labels, n, psi0), o in zip(o_reqs, json.loads(so)):
        ctx.count()
        hist["python -O"] = hist.get("python -O", 0) + 1
        bad = None
        if "err" in o or "internal_error" in o:
            bad = f"run under `python -O` of a valid circuit raised {o.get('err') or o.get('internal_error')}"
        else:
            want, got = ideal_probs(ops, labels, psi0), o["result"]
            if set(want) != set(got) or max(abs(want[k] - got[k]) for k in want) > 1e-9:
                k = max(want, key=lambda k: abs(want[k] - got.get(k, 0.0)))
                bad = (f"run in an interpreter started with -O (assert statements stripped): probability of outcome {k!r} is "
                       f"{got.get(k, float('nan')):.6f}, the ideal circuit gives {want[k]:.6f}")
        if bad:
            fails.append((cls, ops, labels, n, [complex(x) for x in psi0], bad, {"parallel": "python -O"}))
    for _ in range(12 if ctx.thorough else 4):
        ops, bad = fix_counts_case(rng, rng.randint(1, 4)); ctx.count()
        if bad:
            fails.append(("binary", ops, None, None, None, bad))
    if ctx.thorough:
        from quantum_gates._gates.gates import NoiseFreeGates
        import quantum_gates._simulation.simulator as S
        from quantum_gates._utility.device_parameters import DeviceParameters
        import contextlib, io
        for bname, gname, t, lay in transpiled_cases(ctx):
            ctx.count()
            try:
                with contextlib.redirect_stdout(io.StringIO()):
                    sim = S.MrAndersonSimulator(gates=NoiseFreeGates(), parallel=False)
                    dp = noise_free_params(max(lay))
                    dp["p_int"] = np.zeros((max(lay) + 1,) * 2); dp["t_int"] = np.ones((max(lay) + 1,) * 2)
                    res = sim.run(t_qiskit_circ=t, qubits_layout=lay, psi0=np.eye(1, 8)[0].astype(complex), shots=1, device_param=dp, nqubit=3)
                want = {"000": 1.0} if "hadamard" in gname else {"000": 0.5, "111": 0.5}
                dev = max(abs(res.get(k, 0.0) - want.get(k, 0.0)) for k in set(res) | set(want))
                if dev > 1e-9:
                    fails.append(("binary", f"{gname} transpiled for {bname}", None, None, None,
                                  f"{gname}(3) transpiled for {bname}: noise-free result {res} instead of {want}"))
            except Exception as e:              # noqa
                fails.append(("binary", f"{gname} transpiled for {bname}", None, None, None, f"raised {type(e).__name__}: {e}"))
    ctx.sample({"cls": cs[-1][0], "ops": cs[-1][1], "nqubit": cs[-1][3]})
    cov["distinct_nontrivial"] = len(nontrivial)
    cov["rule"] = ("case = (circuit class, native-basis op list, initial state): all five classes, interleaved rz (multiples of pi/128), both "
                   "directions of cx/ecr, qubits first touched in random order, barriers, delays, measured subsets in random order and random "
                   "clbits, random product and (every third case) entangled psi0; index-based class on scattered labels and non-adjacent pairs; "
                   "non-trivial = distinct circuit with a two-qubit gate; oracle = Qiskit Statevector, 1e-9")
    cov["branch_histogram"] = hist
    cov["programs"] = 6
    cov["frame_rendering_mismatches"] = len(fr_bad)
    cov["trusted_base"] += [
        "translator harness/gen/frames.py (NoiseFreeGates source text -> product trees in frame variables), validated on every run "
        "by evaluating the rendering at actual values against the real NoiseFreeGates; closed forms of the partial products are "
        "untrusted sympy hints re-checked by Lean (grind) step by step",
        "wiring model QG/Model/Wiring.lean tied by the correspondence of C08 (same driver)",
        "Qiskit's Statevector / standard gate matrices as the reference semantics of the ideal circuit; Qiskit's transpiler (thorough tier)"]
    ctx.assumptions += ["layered classes: qubit set {0..n-1}, adjacent pairs; nqubit = number of used qubits; psi0 factors in ascending qubit order",
                        "rounding: numeric oracle tolerance 1e-9"]
    seen = set()
    for cls, ops, labels, n, psi0, bad, *rest in fails:
        shots = rest[0] if rest else 1
        par = None
        if isinstance(shots, dict):
            par, shots = shots["parallel"], 3
        sig = classify(bad)
        k = json.dumps(sig, sort_keys=True) + cls
        if k in seen:
            continue
        seen.add(k)
        sig = dict(sig, cls=cls)
        ctx.violation(sig, {"cls": cls, "ops": ops, "labels": labels, "nqubit": n,
                            "psi0": [[z.real, z.imag] for z in psi0] if psi0 is not None else None, "shots": shots, "failure": bad,
                            **({"parallel": par} if par else {})},
                      f"{cls} circuit {json.dumps(ops)[:300]}: {bad}")
    if not fails:
        broken = tie_broken or (None if lean.ok else f"Lean obligations fail: {list(lean.failed.items())[:3]}") or \
            (f"frame rendering validation: {fr_bad[0]}" if fr_bad else None)
        if broken:
            ctx.violation({"kind": "tie"}, {"broken": broken}, broken + "; the Qiskit oracle found no failing input", no_failing_input=True)


def replay(ctx, path):
    rp = json.load(open(path))["replay"]
    if not rp.get("labels"):
        print("replay without a single-run input:", json.dumps(rp)[:500]); return 1
    psi0 = np.array([complex(a, b) for a, b in rp["psi0"]])
    if rp.get("parallel"):
        optimise = rp["parallel"] == "python -O"
        rc, so, se = core.run_repo_python((["-O"] if optimise else []) + ["-c", "from qgv.c03_parallel import cli; cli()"],
                                          {"start_method": None if optimise else rp["parallel"],
                                           "cases": [{"cls": rp["cls"], "ops": rp["ops"], "n": rp["nqubit"], "psi0": rp["psi0"],
                                                      "shots": 1 if optimise else 3, "cpu": 3, "sequential": optimise}]}, timeout=900)
        o = json.loads(so)[0] if rc == 0 else {"err": se[-300:]}
        want = ideal_probs(rp["ops"], rp["labels"], psi0)
        got = o.get("result", {})
        bad = o.get("err") or (None if set(want) == set(got) and max(abs(want[k] - got[k]) for k in want) <= 1e-9 else
                               f"parallel ({rp['parallel']}) result {got} differs from the ideal distribution {want}")
        print(rp["cls"], rp["ops"], "parallel, start method", rp["parallel"]); print("oracle:", bad or "holds")
        return 1 if bad else 0
    bad, _ = run_case(rp["cls"], rp["ops"], rp["labels"], rp["nqubit"], psi0, shots=rp.get("shots", 1))
    print(rp["cls"], rp["ops"]); print("oracle:", bad or "holds")
    return 1 if bad else 0
