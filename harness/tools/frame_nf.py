"""Untrusted hint generator (runs under python3-vt: sympy): normal forms of matrix products in the frame variables.
stdin: JSON {"factors": [[[expr-string,...],...], ...]} with expressions in u ub v vb z zb (python syntax, ** for powers);
stdout: JSON {"chain": [matrix, ...]} where chain[k] = normal form of factors[0] * ... * factors[k+1], entries as strings in the
same variables (negative powers through ub, vb, zb; z reduced modulo z^8 + 1).  Lean re-checks every step, so nothing here is trusted."""
import json, sys
import sympy as sp

u, v, z = sp.symbols("u v z")
ub, vb, zb = 1 / u, 1 / v, 1 / z
ENV = {"u": u, "ub": ub, "v": v, "vb": vb, "z": z, "zb": zb}


def nf(e):
    e = sp.together(sp.expand(e))
    num, den = sp.fraction(e)
    # denominators are monomials in u, v, z (times integers)
    num = sp.Poly(sp.expand(num), u, v, z)
    den = sp.Poly(sp.expand(den), u, v, z)
    assert len(den.terms()) == 1, den
    (du, dv, dz), dc = den.terms()[0]
    out = 0
    for (a, b, c), coef in num.terms():
        a, b, c = a - du, b - dv, c - dz
        coef = sp.nsimplify(coef / dc)
        # reduce z exponent into [-3, 4] using z^8 = -1
        k, r = divmod(c + 3, 8)
        c = r - 3
        if k % 2:
            coef = -coef
        out += coef * (sp.Symbol("u") ** a) * (sp.Symbol("v") ** b) * (sp.Symbol("z") ** c)
    return sp.expand(out)


def render(e):
    e = sp.expand(e)
    if e == 0:
        return "0"
    terms = []
    for t in sp.Add.make_args(e):
        coef, rest = t.as_coeff_Mul()
        pw = rest.as_powers_dict()
        fac = []
        for sym, inv in (("u", "ub"), ("v", "vb"), ("z", "zb")):
            k = int(pw.get(sp.Symbol(sym), 0))
            if k > 0:
                fac.append(f"{sym}**{k}")
            elif k < 0:
                fac.append(f"{inv}**{-k}")
        c = sp.Rational(coef)
        s = f"({c.p})" if c.q == 1 else f"(({c.p})/{c.q})"
        terms.append("*".join([s] + fac))
    return " + ".join(terms)


def main():
    req = json.load(sys.stdin)
    mats = [sp.Matrix([[sp.sympify(x, locals=ENV) for x in row] for row in m]) for m in req["factors"]]
    chain = []
    acc = mats[0].applyfunc(nf)
    for m in mats[1:]:
        acc = (acc * m).applyfunc(nf)
        chain.append([[render(x) for x in row] for row in acc.tolist()])
    json.dump({"chain": chain}, sys.stdout)


main()
