"""Runs every translator instance (harness/gen/*.py with a `generate()` function) against /repo's working tree, so that
lean/QG/Gen/*.lean say what the code says now.  Used by setup_cmd; each check regenerates its own files again."""
import importlib, os, sys, traceback
HERE = os.path.dirname(os.path.abspath(__file__))
sys.path.insert(0, HERE)
rc = 0
for f in sorted(os.listdir(os.path.join(HERE, "gen"))):
    if f.endswith(".py") and f != "__init__.py":
        try:
            m = importlib.import_module("gen." + f[:-3])
            if hasattr(m, "generate"):
                m.generate(); print("regenerated", f[:-3])
        except Exception:
            traceback.print_exc(); rc = 1
sys.exit(0)   # a translator that fails closed is reported by the property's check, not by setup
