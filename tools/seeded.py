#!/usr/bin/env python3
"""Confirms a seeded change delivered by a mutation sub-agent and runs the property's check against it.

  tools/seeded.py <PID> <k> [--src /tmp/mut-<PID>/out/<k>] [--name <slug>]

In a scratch worktree of /repo (under /tmp, removed afterwards):
  1. demo.py exits 0 on the clean tree,
  2. the patch applies; demo.py exits 1 on the changed tree,
  3. the pinned test suite (BASELINE.json command, guard off) passes exactly the baseline's stable tests on the changed tree,
  4. `VERIF_REPO=<worktree> ./check <PID>` quick (and thorough when quick is silent): caught = exit 1 with a VIOLATION line.
Writes /verif/seeded/<PID>/<slug>/{patch.diff, demo.py, meta.json}.  Generated Lean files are regenerated from /repo at the end.
"""
import json, os, re, shutil, subprocess, sys, time, xml.etree.ElementTree as ET

HERE = os.path.dirname(os.path.dirname(os.path.abspath(__file__)))
PY = "/venv/bin/python"


def sh(cmd, cwd=None, env=None, timeout=7200):
    e = dict(os.environ)
    e.update(env or {})
    p = subprocess.run(cmd, shell=True, cwd=cwd, env=e, capture_output=True, text=True, timeout=timeout)
    return p.returncode, p.stdout + p.stderr


def run_tests(wt):
    base = json.load(open("/root/.vp/BASELINE.json"))
    junit = f"{wt}/.junit.xml"
    code, out = sh(f"cd {wt} && OMP_NUM_THREADS=2 OPENBLAS_NUM_THREADS=2 {PY} -m pytest -ra -q -p no:cacheprovider --timeout=900 --continue-on-collection-errors --junitxml={junit}",
                   env={"PYTHONPATH": f"{wt}/src"})
    passed = set()
    if os.path.exists(junit):
        for tc in ET.parse(junit).getroot().iter("testcase"):
            if not any(ch.tag in ("failure", "error", "skipped") for ch in tc):
                passed.add(f"{tc.get('classname')}::{tc.get('name')}")
        os.remove(junit)
    stable = set(base["stable_pass"]) if isinstance(base["stable_pass"], list) else set()
    missing = sorted(stable - passed)
    tail = out.strip().splitlines()[-1] if out.strip() else ""
    return missing, tail


def tests_only(pid, k, name):
    """phase B: the pinned test suite on the changed tree (slow; run many of these in parallel)"""
    dst = f"{HERE}/seeded/{pid}/{name}"
    rec = json.load(open(f"{dst}/meta.json"))
    wt = f"/tmp/seedtest-{pid}-{k}"
    sh(f"git -C /repo worktree remove --force {wt}")
    code, out = sh(f"git -C /repo worktree add --detach {wt} HEAD")
    assert code == 0, out
    try:
        ca, oa = sh(f"git -C {wt} apply {dst}/patch.diff")
        assert ca == 0, oa
        missing, tail = run_tests(wt)
        # timing-based tests fail under load: re-run what is missing alone, twice at most
        rerun = {}
        for m in [x for x in missing if "faster_than" not in x]:
            mod, name = m.split("::", 1)
            node = mod.replace(".", "/") + ".py::" + name
            for _ in range(2):
                c, o = sh(f"cd {wt} && {PY} -m pytest -q -p no:cacheprovider '{node}'", env={"PYTHONPATH": f"{wt}/src"})
                rerun[m] = (c == 0)
                if c == 0:
                    break
        still = [m for m in missing if "faster_than" not in m and not rerun.get(m)]
    finally:
        sh(f"git -C /repo worktree remove --force {wt}")
    rec = json.load(open(f"{dst}/meta.json"))
    rec["tests_on_changed_tree"] = {"baseline_tests_not_passing": missing, "summary": tail, "passed_when_rerun_alone": rerun,
                                    "note": "test_one_backend_is_faster_than_efficient_backend is the baseline's flaky wall-clock test"}
    missing = still + [m for m in missing if "faster_than" in m]
    rec["confirmed"] = bool(rec.get("demo_clean_exit") == 0 and rec.get("demo_changed_exit") not in (0, None) and rec.get("patch_applies")
                            and not [m for m in missing if "faster_than" not in m])
    json.dump(rec, open(f"{dst}/meta.json", "w"), indent=1)
    print(pid, name, "confirmed" if rec["confirmed"] else "NOT confirmed", tail, missing[:3])


def main():
    pid, k = sys.argv[1], sys.argv[2]
    args = sys.argv[3:]
    src = args[args.index("--src") + 1] if "--src" in args else f"/tmp/mut-{pid}/out/{k}"
    name = args[args.index("--name") + 1] if "--name" in args else str(k)
    checks = args[args.index("--checks") + 1].split(",") if "--checks" in args else [pid]
    skip_tests = "--skip-tests" in args
    if "--tests-only" in args:
        return tests_only(pid, k, name)
    wt = f"/tmp/seedwt-{pid}-{k}"
    sh(f"git -C /repo worktree remove --force {wt}")
    code, out = sh(f"git -C /repo worktree add --detach {wt} HEAD")
    assert code == 0, out
    meta = json.load(open(f"{src}/meta.json")) if os.path.exists(f"{src}/meta.json") else {}
    rec = {"property": pid, "summary": meta.get("summary"), "needs": meta.get("needs"), "agent_tests_run": meta.get("tests_run"),
           "base_commit": sh("git -C /repo rev-parse HEAD")[1].strip(), "confirmed_at": time.strftime("%Y-%m-%dT%H:%M:%SZ", time.gmtime())}
    try:
        env = {"PYTHONPATH": f"{wt}/src"}
        c0, o0 = sh(f"{PY} {src}/demo.py", cwd="/tmp", env=env, timeout=1800)
        rec["demo_clean_exit"] = c0
        ca, oa = sh(f"git -C {wt} apply {src}/patch.diff")
        rec["patch_applies"] = ca == 0
        if ca != 0:
            rec["error"] = oa[-400:]
        c1, o1 = sh(f"{PY} {src}/demo.py", cwd="/tmp", env=env, timeout=1800)
        rec["demo_changed_exit"] = c1
        rec["demo_output"] = o1.strip()[-600:]
        if not skip_tests:
            missing, tail = run_tests(wt)
            rec["tests_on_changed_tree"] = {"baseline_tests_not_passing": missing, "summary": tail}
        demos_ok = c0 == 0 and c1 != 0 and ca == 0
        rec["confirmed"] = (None if demos_ok else False) if skip_tests else bool(
            demos_ok and not [m for m in rec["tests_on_changed_tree"]["baseline_tests_not_passing"] if "faster_than" not in m])
        rec["checks"] = {}
        import fcntl
        lock = open("/tmp/verif-gen.lock", "w")           # generated Lean files are shared: one changed tree at a time
        fcntl.flock(lock, fcntl.LOCK_EX)
        for chk in checks:
            for tier in ("quick", "thorough"):
                t0 = time.time()
                code, out = sh(f"./check {chk} --tier {tier}", cwd=HERE, env={"VERIF_REPO": wt, "VERIF_SEED": "0", "VERIF_EVIDENCE_DIR": "/tmp/seed-evidence"}, timeout=14400)
                vio = [l for l in out.splitlines() if l.startswith("VIOLATION")]
                ctx = [l.strip()[:300] for l in out.splitlines() if l.startswith("    ")][:4]
                rec["checks"][f"{chk}:{tier}"] = {"exit": code, "violations": vio, "what": ctx, "wall_s": round(time.time() - t0, 1)}
                if code == 1 and vio:
                    break
        rec["caught"] = any(v["exit"] == 1 and v["violations"] for v in rec["checks"].values())
    finally:
        sh(f"git -C /repo worktree remove --force {wt}")
        sh(f"{PY} harness/regen.py", cwd=HERE)
    dst = f"{HERE}/seeded/{pid}/{name}"
    os.makedirs(dst, exist_ok=True)
    if os.path.exists(f"{dst}/meta.json"):                 # keep the record of earlier runs (e.g. "missed before the check was strengthened")
        old = json.load(open(f"{dst}/meta.json"))
        rec["earlier_runs"] = old.get("earlier_runs", []) + [{"at": old.get("confirmed_at"), "caught": old.get("caught"),
                                                              "checks": {k: v["exit"] for k, v in old.get("checks", {}).items()}}]
        if "initially_missed" in old:
            rec["initially_missed"] = old["initially_missed"]
        if "tests_on_changed_tree" in old and "tests_on_changed_tree" not in rec:
            rec["tests_on_changed_tree"] = old["tests_on_changed_tree"]
            rec["confirmed"] = old.get("confirmed") if rec["confirmed"] is None else rec["confirmed"]
    if os.path.abspath(src) != os.path.abspath(dst):
        shutil.copy(f"{src}/patch.diff", f"{dst}/patch.diff")
        shutil.copy(f"{src}/demo.py", f"{dst}/demo.py")
    json.dump(rec, open(f"{dst}/meta.json", "w"), indent=1)
    print(json.dumps({k: rec.get(k) for k in ("property", "confirmed", "caught", "demo_clean_exit", "demo_changed_exit")}),
          {k: (v["exit"], v["what"][:1]) for k, v in rec.get("checks", {}).items()},
          rec.get("tests_on_changed_tree", {}).get("summary"))


if __name__ == "__main__":
    main()
