#!/usr/bin/env python3
"""Regenerates /verif/MANIFEST.json from the table below (keeps it schema-valid at all times)."""
import json, os
HERE = os.path.dirname(os.path.dirname(os.path.abspath(__file__)))
ALL = [f"C{i:02d}" for i in range(1, 21)]

# only checks accepted by the coordinator are registered (builders may have work in progress in harness/props)
ENABLED = set(open(os.path.join(HERE, "harness", "props", "ENABLED")).read().split())
CHECKS = {}
for _f in sorted(os.listdir(os.path.join(HERE, "harness", "props"))):
    if _f.endswith(".meta.json") and _f[:3].upper() in ENABLED:
        CHECKS[_f[:3].upper()] = json.load(open(os.path.join(HERE, "harness", "props", _f)))

NOT_YET = "check not built yet in this session (see DESIGN.md section 7 for the build order); no claim is made"

def main():
    checks = []
    for pid in ALL:
        if pid not in CHECKS:
            continue
        c = CHECKS[pid]
        checks.append({
            "property_id": pid,
            "quick_cmd": f"./check {pid} --tier quick",
            "thorough_cmd": f"./check {pid} --tier thorough",
            "evidence_file": f"/verif/evidence/{pid}.json",
            "replay_cmd_template": f"./check {pid} --replay {{path}}",
            "engine": "lean4-proof+correspondence",
            "level_claimed": {"category": c.get("category", "proof"), "text": c["text"], "design_ref": c["design"]},
            "level_note": c["note"],
            "technique": c["technique"],
        })
    man = {
        "version": 1,
        "setup_cmd": "/venv/bin/python harness/regen.py && cd lean && lake build " + " ".join(
            [f"QG.Props.{p}" for p in sorted(CHECKS)] +
            [f"drv_{p.lower()}" for p in sorted(CHECKS) if os.path.exists(os.path.join(HERE, "lean", "QG", "Driver", p + ".lean"))]),
        "hooks": {
            "guard": "QUANTUM_GATES_VERIF",
            "enable": "no source hooks are needed: the checks observe the code from outside (injected gate sets, monkey-patched "
                      "numpy.random / opt_einsum, before/after comparison); the variable is exported by ./check but read by nothing in /repo",
            "baseline_off_cmd": "cd /repo && /venv/bin/python -m pytest -ra -q -p no:cacheprovider --timeout=900 --continue-on-collection-errors",
            "source_commits": [],
            "add_only": True,
        },
        "engines": [{
            "name": "lean4-proof+correspondence", "path": "/verif/check",
            "serves_properties": [c["property_id"] for c in checks],
            "kind_free_text": "Lean 4 theorems about executable models / regenerated formula definitions (lean/QG), audited with "
                              "#print axioms; models tied to /repo by a translator (tools/py2ir.py) or by differential correspondence "
                              "through a native line-protocol driver (lean/Main.lean); Python oracles search for failing inputs",
        }],
        "checks": checks,
        "notes": "Every check: ./check <id> [--tier quick|thorough] [--replay file]; exit 0 held / 1 VIOLATION / 2 internal error or timeout. "
                 "known_findings.json lists recorded defects (KNOWN-FINDING lines) and fixed ones.",
        "not_applicable": [{"property_id": p, "reason": NA.get(p, NOT_YET)} for p in ALL if p not in CHECKS],
    }
    with open(os.path.join(HERE, "MANIFEST.json"), "w") as f:
        json.dump(man, f, indent=1)
    print("wrote MANIFEST.json with", len(checks), "checks")

NA = {}
if __name__ == "__main__":
    main()
