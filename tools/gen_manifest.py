#!/usr/bin/env python3
"""Regenerates /verif/MANIFEST.json from the table below (keeps it schema-valid at all times)."""
import json, os
HERE = os.path.dirname(os.path.dirname(os.path.abspath(__file__)))
ALL = [f"C{i:02d}" for i in range(1, 21)]

CHECKS = {
 "C16": dict(
   technique="Lean 4 proof (induction over the gap-filling loop; sort/perm lemmas) + exact differential correspondence",
   text="fix_counts_spec/fix_counts_keys/fix_counts_twice are proved in Lean for every n>=1, every non-empty table of distinct "
        "n-bit keys and every value type, about a statement-by-statement executable model (QG/Model/FixCounts.lean) that returns "
        "IndexError where the Python would; the model is tied to the code on every run by an exact differential over all key subsets "
        "for n<=3 (n<=4 thorough) and random tables up to n=10/12, and an independent oracle evaluates the statement on every case.",
   design="3 (C16)",
   note="Lean kernel + propext/Classical.choice/Quot.sound; hand-written model trusted as far as the correspondence exercises it; "
        "Python str ordering, int(s,2), format/zfill as modelled; the Qiskit-order clause is decided with C03."),
}

NOT_YET = "check not built yet in this session (see DESIGN.md section 7 for the build order); no claim is made"

def main():
    checks = []
    for pid in ALL:
        if pid not in CHECKS:
            continue
        c = CHECKS[pid]
        checks.append({
            "property_id": pid,
            "quick_cmd": f"./check {pid} --tier quick",
            "thorough_cmd": f"./check {pid} --tier thorough",
            "evidence_file": f"/verif/evidence/{pid}.json",
            "replay_cmd_template": f"./check {pid} --replay {{path}}",
            "engine": "lean4-proof+correspondence",
            "level_claimed": {"category": c.get("category", "proof"), "text": c["text"], "design_ref": c["design"]},
            "level_note": c["note"],
            "technique": c["technique"],
        })
    man = {
        "version": 1,
        "setup_cmd": "cd lean && lake build",
        "hooks": {
            "guard": "QUANTUM_GATES_VERIF",
            "enable": "no source hooks are needed: the checks observe the code from outside (injected gate sets, monkey-patched "
                      "numpy.random / opt_einsum, before/after comparison); the variable is exported by ./check but read by nothing in /repo",
            "baseline_off_cmd": "cd /repo && /venv/bin/python -m pytest -ra -q -p no:cacheprovider --timeout=900 --continue-on-collection-errors",
            "source_commits": [],
            "add_only": True,
        },
        "engines": [{
            "name": "lean4-proof+correspondence", "path": "/verif/check",
            "serves_properties": [c["property_id"] for c in checks],
            "kind_free_text": "Lean 4 theorems about executable models / regenerated formula definitions (lean/QG), audited with "
                              "#print axioms; models tied to /repo by a translator (tools/py2ir.py) or by differential correspondence "
                              "through a native line-protocol driver (lean/Main.lean); Python oracles search for failing inputs",
        }],
        "checks": checks,
        "notes": "Every check: ./check <id> [--tier quick|thorough] [--replay file]; exit 0 held / 1 VIOLATION / 2 internal error or timeout. "
                 "known_findings.json lists recorded defects (KNOWN-FINDING lines) and fixed ones.",
        "not_applicable": [{"property_id": p, "reason": NA.get(p, NOT_YET)} for p in ALL if p not in CHECKS],
    }
    with open(os.path.join(HERE, "MANIFEST.json"), "w") as f:
        json.dump(man, f, indent=1)
    print("wrote MANIFEST.json with", len(checks), "checks")

NA = {}
if __name__ == "__main__":
    main()
