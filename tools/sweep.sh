#!/bin/sh
# tools/sweep.sh "<seeds>" <tier> : every enabled check on the unchanged tree with several seeds; prints one line per run
cd "$(dirname "$0")/.."
for s in $1; do
  for c in $(cat harness/props/ENABLED); do
    out=$(VERIF_SEED=$s VERIF_EVIDENCE_DIR=/tmp/sweep-evidence flock /tmp/verif-gen.lock ./check $c --tier ${2:-quick} 2>&1); code=$?
    echo "seed=$s $c exit=$code $(echo "$out" | tail -1)"
    [ $code -ne 0 ] && echo "$out" | grep -v "^\[" | head -8
  done
done
