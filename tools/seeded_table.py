#!/usr/bin/env python3
"""Fills the seeded-change table of DESIGN.md (between the SEEDED-TABLE markers) from seeded/*/*/meta.json."""
import json, os, glob, re
HERE = os.path.dirname(os.path.dirname(os.path.abspath(__file__)))
rows = []
for f in sorted(glob.glob(f"{HERE}/seeded/*/*/meta.json")):
    m = json.load(open(f))
    pid, name = f.split("/")[-3], f.split("/")[-2]
    caught_by = []
    for k, v in m.get("checks", {}).items():
        if v["exit"] == 1 and v["violations"]:
            nf = any("no-failing-input-found" in x for x in v["violations"])
            caught_by.append(k.replace(":", " ") + (" (no-failing-input-found)" if nf else ""))
    conf = {True: "yes", False: "NO", None: "demo yes, tests pending"}[m.get("confirmed")]
    what = (m.get("summary") or "").replace("|", "/").replace("\n", " ")
    if len(what) > 230:
        what = what[:227] + "..."
    first = ""
    for k, v in m.get("checks", {}).items():
        if v["exit"] == 1 and v["what"]:
            first = v["what"][0].replace("|", "/")[:160]
            break
    missed_before = m.get("initially_missed") or any(r.get("caught") is False for r in m.get("earlier_runs", []))
    flag = " (missed at first, see below)" if missed_before else (" (at first without a failing input)" if m.get("initially_without_failing_input") else "")
    rows.append(f"| {pid} #{name} | {what} | {conf} | {(', '.join(caught_by) if caught_by else '**missed**') + flag} | {first} |")
table = "| change | what it does | confirmed | caught by | first report |\n|---|---|---|---|---|\n" + "\n".join(rows) + "\n"
p = f"{HERE}/DESIGN.md"
s = open(p).read()
s = re.sub(r"<!-- SEEDED-TABLE-BEGIN -->.*?<!-- SEEDED-TABLE-END -->", "<!-- SEEDED-TABLE-BEGIN -->\n" + table.replace("\\", "\\\\") + "<!-- SEEDED-TABLE-END -->", s, flags=re.S)
open(p, "w").write(s)
print(len(rows), "rows;", sum("**missed**" in r for r in rows), "missed")
