import Mathlib.Tactic
import Mathlib.LinearAlgebra.Matrix.Notation
import QG.Spec.Attr
/-! GENERATED on every run by harness/gen/frames.py from src/quantum_gates/_gates/gates.py (class NoiseFreeGates, methods X, SX, CNOT, CNOT_inv, ECR, ECR_inv;
`self.<method>` calls inlined, np.kron and scalar factors expanded to literal matrices).
Frame variables: u = exp(i phi_ctr/2) (or exp(i phi/2) for one-qubit gates), ub = 1/u, v = exp(i phi_trg/2), vb = 1/v,
z = exp(i pi/8), zb = 1/z; the imaginary unit is z^4.  `G_f<k>` are the factors of the product as written in the source,
`G_c<k>` the closed forms of the partial products (hints computed by sympy, re-checked here step by step with `grind`),
`G_closed : G e = G_c<last> e`.  Do not edit. -/
set_option linter.unusedVariables false
set_option linter.unusedSimpArgs false
namespace QG.Gen.Frames
open Matrix

structure Env (K : Type) where
  u : K
  ub : K
  v : K
  vb : K
  z : K
  zb : K

/-- the relations between the frame variables (satisfied by the actual values, `QG.Lemmas.Frames.actual_rel`) -/
structure Env.Rel {K : Type} [Field K] (e : Env K) : Prop where
  hu : e.u * e.ub = 1
  hv : e.v * e.vb = 1
  hz : e.z * e.zb = 1
  hz8 : e.z ^ 8 = -1

variable {K : Type} [Field K] [CharZero K]

/-- factor 0 of `NoiseFreeGates.X` (left to right) -/
def X_f0 (e : Env K) : Matrix (Fin 2) (Fin 2) K :=
  !![(((e.z ^ 4) + (e.zb ^ 4)) / (2 : K)), (((-(e.z ^ 4)) * (((-(e.z ^ 4)) * ((e.z ^ 4) - (e.zb ^ 4))) / (2 : K))) * (e.ub ^ 2)); (((-(e.z ^ 4)) * (((-(e.z ^ 4)) * ((e.z ^ 4) - (e.zb ^ 4))) / (2 : K))) * (e.u ^ 2)), (((e.z ^ 4) + (e.zb ^ 4)) / (2 : K))]

/-- `NoiseFreeGates.X` in frame variables: the product as written in the source -/
def X (e : Env K) : Matrix (Fin 2) (Fin 2) K :=
  X_f0 e

def X_closed_form (e : Env K) : Matrix (Fin 2) (Fin 2) K := X_f0 e

theorem X_closed (e : Env K) (h : e.Rel) : X e = X_closed_form e := rfl

/-- factor 0 of `NoiseFreeGates.SX` (left to right) -/
def SX_f0 (e : Env K) : Matrix (Fin 2) (Fin 2) K :=
  !![(((e.z ^ 2) + (e.zb ^ 2)) / (2 : K)), (((-(e.z ^ 4)) * (((-(e.z ^ 4)) * ((e.z ^ 2) - (e.zb ^ 2))) / (2 : K))) * (e.ub ^ 2)); (((-(e.z ^ 4)) * (((-(e.z ^ 4)) * ((e.z ^ 2) - (e.zb ^ 2))) / (2 : K))) * (e.u ^ 2)), (((e.z ^ 2) + (e.zb ^ 2)) / (2 : K))]

/-- `NoiseFreeGates.SX` in frame variables: the product as written in the source -/
def SX (e : Env K) : Matrix (Fin 2) (Fin 2) K :=
  SX_f0 e

def SX_closed_form (e : Env K) : Matrix (Fin 2) (Fin 2) K := SX_f0 e

theorem SX_closed (e : Env K) (h : e.Rel) : SX e = SX_closed_form e := rfl

/-- factor 0 of `NoiseFreeGates.CNOT` (left to right) -/
def CNOT_f0 (e : Env K) : Matrix (Fin 4) (Fin 4) K :=
  !![(((e.zb ^ 1) + (e.z ^ 1)) / (2 : K)), (((-(e.z ^ 4)) * (((-(e.z ^ 4)) * ((e.zb ^ 1) - (e.z ^ 1))) / (2 : K))) * (e.v ^ 2)), (0 : K), (0 : K); (((-(e.z ^ 4)) * (((-(e.z ^ 4)) * ((e.zb ^ 1) - (e.z ^ 1))) / (2 : K))) * (e.vb ^ 2)), (((e.zb ^ 1) + (e.z ^ 1)) / (2 : K)), (0 : K), (0 : K); (0 : K), (0 : K), (((e.zb ^ 1) + (e.z ^ 1)) / (2 : K)), (((e.z ^ 4) * (((-(e.z ^ 4)) * ((e.zb ^ 1) - (e.z ^ 1))) / (2 : K))) * (e.v ^ 2)); (0 : K), (0 : K), (((e.z ^ 4) * (((-(e.z ^ 4)) * ((e.zb ^ 1) - (e.z ^ 1))) / (2 : K))) * (e.vb ^ 2)), (((e.zb ^ 1) + (e.z ^ 1)) / (2 : K))]

/-- factor 1 of `NoiseFreeGates.CNOT` (left to right) -/
def CNOT_f1 (e : Env K) : Matrix (Fin 4) (Fin 4) K :=
  !![((((e.z ^ 4) + (e.zb ^ 4)) / (2 : K)) * (1 : K)), ((((e.z ^ 4) + (e.zb ^ 4)) / (2 : K)) * (0 : K)), ((((-(e.z ^ 4)) * (((-(e.z ^ 4)) * ((e.z ^ 4) - (e.zb ^ 4))) / (2 : K))) * ((e.u ^ 2) * (e.zb ^ 4))) * (1 : K)), ((((-(e.z ^ 4)) * (((-(e.z ^ 4)) * ((e.z ^ 4) - (e.zb ^ 4))) / (2 : K))) * ((e.u ^ 2) * (e.zb ^ 4))) * (0 : K)); ((((e.z ^ 4) + (e.zb ^ 4)) / (2 : K)) * (0 : K)), ((((e.z ^ 4) + (e.zb ^ 4)) / (2 : K)) * (1 : K)), ((((-(e.z ^ 4)) * (((-(e.z ^ 4)) * ((e.z ^ 4) - (e.zb ^ 4))) / (2 : K))) * ((e.u ^ 2) * (e.zb ^ 4))) * (0 : K)), ((((-(e.z ^ 4)) * (((-(e.z ^ 4)) * ((e.z ^ 4) - (e.zb ^ 4))) / (2 : K))) * ((e.u ^ 2) * (e.zb ^ 4))) * (1 : K)); ((((-(e.z ^ 4)) * (((-(e.z ^ 4)) * ((e.z ^ 4) - (e.zb ^ 4))) / (2 : K))) * ((e.ub ^ 2) * (e.z ^ 4))) * (1 : K)), ((((-(e.z ^ 4)) * (((-(e.z ^ 4)) * ((e.z ^ 4) - (e.zb ^ 4))) / (2 : K))) * ((e.ub ^ 2) * (e.z ^ 4))) * (0 : K)), ((((e.z ^ 4) + (e.zb ^ 4)) / (2 : K)) * (1 : K)), ((((e.z ^ 4) + (e.zb ^ 4)) / (2 : K)) * (0 : K)); ((((-(e.z ^ 4)) * (((-(e.z ^ 4)) * ((e.z ^ 4) - (e.zb ^ 4))) / (2 : K))) * ((e.ub ^ 2) * (e.z ^ 4))) * (0 : K)), ((((-(e.z ^ 4)) * (((-(e.z ^ 4)) * ((e.z ^ 4) - (e.zb ^ 4))) / (2 : K))) * ((e.ub ^ 2) * (e.z ^ 4))) * (1 : K)), ((((e.z ^ 4) + (e.zb ^ 4)) / (2 : K)) * (0 : K)), ((((e.z ^ 4) + (e.zb ^ 4)) / (2 : K)) * (1 : K))]

/-- factor 2 of `NoiseFreeGates.CNOT` (left to right) -/
def CNOT_f2 (e : Env K) : Matrix (Fin 4) (Fin 4) K :=
  !![(((e.z ^ 1) + (e.zb ^ 1)) / (2 : K)), (((-(e.z ^ 4)) * (((-(e.z ^ 4)) * ((e.z ^ 1) - (e.zb ^ 1))) / (2 : K))) * (e.v ^ 2)), (0 : K), (0 : K); (((-(e.z ^ 4)) * (((-(e.z ^ 4)) * ((e.z ^ 1) - (e.zb ^ 1))) / (2 : K))) * (e.vb ^ 2)), (((e.z ^ 1) + (e.zb ^ 1)) / (2 : K)), (0 : K), (0 : K); (0 : K), (0 : K), (((e.z ^ 1) + (e.zb ^ 1)) / (2 : K)), (((e.z ^ 4) * (((-(e.z ^ 4)) * ((e.z ^ 1) - (e.zb ^ 1))) / (2 : K))) * (e.v ^ 2)); (0 : K), (0 : K), (((e.z ^ 4) * (((-(e.z ^ 4)) * ((e.z ^ 1) - (e.zb ^ 1))) / (2 : K))) * (e.vb ^ 2)), (((e.z ^ 1) + (e.zb ^ 1)) / (2 : K))]

/-- factor 3 of `NoiseFreeGates.CNOT` (left to right) -/
def CNOT_f3 (e : Env K) : Matrix (Fin 4) (Fin 4) K :=
  !![((((e.zb ^ 4) + (e.z ^ 4)) / (2 : K)) * (((e.z ^ 2) + (e.zb ^ 2)) / (2 : K))), ((((e.zb ^ 4) + (e.z ^ 4)) / (2 : K)) * (((-(e.z ^ 4)) * (((-(e.z ^ 4)) * ((e.z ^ 2) - (e.zb ^ 2))) / (2 : K))) * (e.v ^ 2))), ((((-(e.z ^ 4)) * (((-(e.z ^ 4)) * ((e.zb ^ 4) - (e.z ^ 4))) / (2 : K))) * ((e.u ^ 2) * (e.zb ^ 8))) * (((e.z ^ 2) + (e.zb ^ 2)) / (2 : K))), ((((-(e.z ^ 4)) * (((-(e.z ^ 4)) * ((e.zb ^ 4) - (e.z ^ 4))) / (2 : K))) * ((e.u ^ 2) * (e.zb ^ 8))) * (((-(e.z ^ 4)) * (((-(e.z ^ 4)) * ((e.z ^ 2) - (e.zb ^ 2))) / (2 : K))) * (e.v ^ 2))); ((((e.zb ^ 4) + (e.z ^ 4)) / (2 : K)) * (((-(e.z ^ 4)) * (((-(e.z ^ 4)) * ((e.z ^ 2) - (e.zb ^ 2))) / (2 : K))) * (e.vb ^ 2))), ((((e.zb ^ 4) + (e.z ^ 4)) / (2 : K)) * (((e.z ^ 2) + (e.zb ^ 2)) / (2 : K))), ((((-(e.z ^ 4)) * (((-(e.z ^ 4)) * ((e.zb ^ 4) - (e.z ^ 4))) / (2 : K))) * ((e.u ^ 2) * (e.zb ^ 8))) * (((-(e.z ^ 4)) * (((-(e.z ^ 4)) * ((e.z ^ 2) - (e.zb ^ 2))) / (2 : K))) * (e.vb ^ 2))), ((((-(e.z ^ 4)) * (((-(e.z ^ 4)) * ((e.zb ^ 4) - (e.z ^ 4))) / (2 : K))) * ((e.u ^ 2) * (e.zb ^ 8))) * (((e.z ^ 2) + (e.zb ^ 2)) / (2 : K))); ((((-(e.z ^ 4)) * (((-(e.z ^ 4)) * ((e.zb ^ 4) - (e.z ^ 4))) / (2 : K))) * ((e.ub ^ 2) * (e.z ^ 8))) * (((e.z ^ 2) + (e.zb ^ 2)) / (2 : K))), ((((-(e.z ^ 4)) * (((-(e.z ^ 4)) * ((e.zb ^ 4) - (e.z ^ 4))) / (2 : K))) * ((e.ub ^ 2) * (e.z ^ 8))) * (((-(e.z ^ 4)) * (((-(e.z ^ 4)) * ((e.z ^ 2) - (e.zb ^ 2))) / (2 : K))) * (e.v ^ 2))), ((((e.zb ^ 4) + (e.z ^ 4)) / (2 : K)) * (((e.z ^ 2) + (e.zb ^ 2)) / (2 : K))), ((((e.zb ^ 4) + (e.z ^ 4)) / (2 : K)) * (((-(e.z ^ 4)) * (((-(e.z ^ 4)) * ((e.z ^ 2) - (e.zb ^ 2))) / (2 : K))) * (e.v ^ 2))); ((((-(e.z ^ 4)) * (((-(e.z ^ 4)) * ((e.zb ^ 4) - (e.z ^ 4))) / (2 : K))) * ((e.ub ^ 2) * (e.z ^ 8))) * (((-(e.z ^ 4)) * (((-(e.z ^ 4)) * ((e.z ^ 2) - (e.zb ^ 2))) / (2 : K))) * (e.vb ^ 2))), ((((-(e.z ^ 4)) * (((-(e.z ^ 4)) * ((e.zb ^ 4) - (e.z ^ 4))) / (2 : K))) * ((e.ub ^ 2) * (e.z ^ 8))) * (((e.z ^ 2) + (e.zb ^ 2)) / (2 : K))), ((((e.zb ^ 4) + (e.z ^ 4)) / (2 : K)) * (((-(e.z ^ 4)) * (((-(e.z ^ 4)) * ((e.z ^ 2) - (e.zb ^ 2))) / (2 : K))) * (e.vb ^ 2))), ((((e.zb ^ 4) + (e.z ^ 4)) / (2 : K)) * (((e.z ^ 2) + (e.zb ^ 2)) / (2 : K)))]

/-- `NoiseFreeGates.CNOT` in frame variables: the product as written in the source -/
def CNOT (e : Env K) : Matrix (Fin 4) (Fin 4) K :=
  CNOT_f0 e * CNOT_f1 e * CNOT_f2 e * CNOT_f3 e

def CNOT_c1 (e : Env K) : Matrix (Fin 4) (Fin 4) K :=
  !![(0 : K), (0 : K), (((((-(1 : K)) / (2 : K)) * (e.u ^ 2)) * (e.z ^ 1)) + ((((-(1 : K)) / (2 : K)) * (e.u ^ 2)) * (e.zb ^ 1))), ((((((1 : K) / (2 : K)) * (e.u ^ 2)) * (e.v ^ 2)) * (e.zb ^ 1)) + (((((-(1 : K)) / (2 : K)) * (e.u ^ 2)) * (e.v ^ 2)) * (e.z ^ 1))); (0 : K), (0 : K), ((((((1 : K) / (2 : K)) * (e.u ^ 2)) * (e.vb ^ 2)) * (e.zb ^ 1)) + (((((-(1 : K)) / (2 : K)) * (e.u ^ 2)) * (e.vb ^ 2)) * (e.z ^ 1))), (((((-(1 : K)) / (2 : K)) * (e.u ^ 2)) * (e.z ^ 1)) + ((((-(1 : K)) / (2 : K)) * (e.u ^ 2)) * (e.zb ^ 1))); (((((1 : K) / (2 : K)) * (e.ub ^ 2)) * (e.z ^ 1)) + ((((1 : K) / (2 : K)) * (e.ub ^ 2)) * (e.zb ^ 1))), ((((((1 : K) / (2 : K)) * (e.ub ^ 2)) * (e.v ^ 2)) * (e.zb ^ 1)) + (((((-(1 : K)) / (2 : K)) * (e.ub ^ 2)) * (e.v ^ 2)) * (e.z ^ 1))), (0 : K), (0 : K); ((((((1 : K) / (2 : K)) * (e.ub ^ 2)) * (e.vb ^ 2)) * (e.zb ^ 1)) + (((((-(1 : K)) / (2 : K)) * (e.ub ^ 2)) * (e.vb ^ 2)) * (e.z ^ 1))), (((((1 : K) / (2 : K)) * (e.ub ^ 2)) * (e.z ^ 1)) + ((((1 : K) / (2 : K)) * (e.ub ^ 2)) * (e.zb ^ 1))), (0 : K), (0 : K)]

theorem CNOT_step1 (e : Env K) (h : e.Rel) : CNOT_f0 e * CNOT_f1 e = CNOT_c1 e := by
  obtain ⟨hu, hv, hz, hz8⟩ := h
  ext a b; fin_cases a <;> fin_cases b <;>
    simp [CNOT_f0, CNOT_f1, CNOT_c1, Matrix.mul_apply, Fin.sum_univ_four] <;> grind

def CNOT_c2 (e : Env K) : Matrix (Fin 4) (Fin 4) K :=
  !![(0 : K), (0 : K), (((((-(1 : K)) / (2 : K)) * (e.u ^ 2)) * (e.zb ^ 2)) + ((((-(1 : K)) / (2 : K)) * (e.u ^ 2)) * (e.z ^ 2))), ((((((1 : K) / (2 : K)) * (e.u ^ 2)) * (e.v ^ 2)) * (e.zb ^ 2)) + (((((-(1 : K)) / (2 : K)) * (e.u ^ 2)) * (e.v ^ 2)) * (e.z ^ 2))); (0 : K), (0 : K), ((((((1 : K) / (2 : K)) * (e.u ^ 2)) * (e.vb ^ 2)) * (e.zb ^ 2)) + (((((-(1 : K)) / (2 : K)) * (e.u ^ 2)) * (e.vb ^ 2)) * (e.z ^ 2))), (((((-(1 : K)) / (2 : K)) * (e.u ^ 2)) * (e.zb ^ 2)) + ((((-(1 : K)) / (2 : K)) * (e.u ^ 2)) * (e.z ^ 2))); (((((1 : K) / (2 : K)) * (e.ub ^ 2)) * (e.zb ^ 2)) + ((((1 : K) / (2 : K)) * (e.ub ^ 2)) * (e.z ^ 2))), ((((((1 : K) / (2 : K)) * (e.ub ^ 2)) * (e.v ^ 2)) * (e.zb ^ 2)) + (((((-(1 : K)) / (2 : K)) * (e.ub ^ 2)) * (e.v ^ 2)) * (e.z ^ 2))), (0 : K), (0 : K); ((((((1 : K) / (2 : K)) * (e.ub ^ 2)) * (e.vb ^ 2)) * (e.zb ^ 2)) + (((((-(1 : K)) / (2 : K)) * (e.ub ^ 2)) * (e.vb ^ 2)) * (e.z ^ 2))), (((((1 : K) / (2 : K)) * (e.ub ^ 2)) * (e.zb ^ 2)) + ((((1 : K) / (2 : K)) * (e.ub ^ 2)) * (e.z ^ 2))), (0 : K), (0 : K)]

theorem CNOT_step2 (e : Env K) (h : e.Rel) : CNOT_c1 e * CNOT_f2 e = CNOT_c2 e := by
  obtain ⟨hu, hv, hz, hz8⟩ := h
  ext a b; fin_cases a <;> fin_cases b <;>
    simp [CNOT_c1, CNOT_f2, CNOT_c2, Matrix.mul_apply, Fin.sum_univ_four] <;> grind

def CNOT_c3 (e : Env K) : Matrix (Fin 4) (Fin 4) K :=
  !![((1 : K) * (e.z ^ 4)), (0 : K), (0 : K), (0 : K); (0 : K), ((1 : K) * (e.z ^ 4)), (0 : K), (0 : K); (0 : K), (0 : K), (0 : K), ((-(1 : K)) * (e.v ^ 2)); (0 : K), (0 : K), ((-(1 : K)) * (e.vb ^ 2)), (0 : K)]

theorem CNOT_step3 (e : Env K) (h : e.Rel) : CNOT_c2 e * CNOT_f3 e = CNOT_c3 e := by
  obtain ⟨hu, hv, hz, hz8⟩ := h
  ext a b; fin_cases a <;> fin_cases b <;>
    simp [CNOT_c2, CNOT_f3, CNOT_c3, Matrix.mul_apply, Fin.sum_univ_four] <;> grind

def CNOT_closed_form (e : Env K) : Matrix (Fin 4) (Fin 4) K := CNOT_c3 e

theorem CNOT_closed (e : Env K) (h : e.Rel) : CNOT e = CNOT_closed_form e := by
  unfold CNOT CNOT_closed_form
  rw [CNOT_step1 e h, CNOT_step2 e h, CNOT_step3 e h]

/-- factor 0 of `NoiseFreeGates.CNOT_inv` (left to right) -/
def CNOT_inv_f0 (e : Env K) : Matrix (Fin 4) (Fin 4) K :=
  !![((((e.zb ^ 2) + (e.z ^ 2)) / (2 : K)) * (((e.z ^ 2) + (e.zb ^ 2)) / (2 : K))), ((((e.zb ^ 2) + (e.z ^ 2)) / (2 : K)) * (((-(e.z ^ 4)) * (((-(e.z ^ 4)) * ((e.z ^ 2) - (e.zb ^ 2))) / (2 : K))) * ((e.u ^ 2) * (e.z ^ 12)))), ((((-(e.z ^ 4)) * (((-(e.z ^ 4)) * ((e.zb ^ 2) - (e.z ^ 2))) / (2 : K))) * (e.v ^ 2)) * (((e.z ^ 2) + (e.zb ^ 2)) / (2 : K))), ((((-(e.z ^ 4)) * (((-(e.z ^ 4)) * ((e.zb ^ 2) - (e.z ^ 2))) / (2 : K))) * (e.v ^ 2)) * (((-(e.z ^ 4)) * (((-(e.z ^ 4)) * ((e.z ^ 2) - (e.zb ^ 2))) / (2 : K))) * ((e.u ^ 2) * (e.z ^ 12)))); ((((e.zb ^ 2) + (e.z ^ 2)) / (2 : K)) * (((-(e.z ^ 4)) * (((-(e.z ^ 4)) * ((e.z ^ 2) - (e.zb ^ 2))) / (2 : K))) * ((e.ub ^ 2) * (e.zb ^ 12)))), ((((e.zb ^ 2) + (e.z ^ 2)) / (2 : K)) * (((e.z ^ 2) + (e.zb ^ 2)) / (2 : K))), ((((-(e.z ^ 4)) * (((-(e.z ^ 4)) * ((e.zb ^ 2) - (e.z ^ 2))) / (2 : K))) * (e.v ^ 2)) * (((-(e.z ^ 4)) * (((-(e.z ^ 4)) * ((e.z ^ 2) - (e.zb ^ 2))) / (2 : K))) * ((e.ub ^ 2) * (e.zb ^ 12)))), ((((-(e.z ^ 4)) * (((-(e.z ^ 4)) * ((e.zb ^ 2) - (e.z ^ 2))) / (2 : K))) * (e.v ^ 2)) * (((e.z ^ 2) + (e.zb ^ 2)) / (2 : K))); ((((-(e.z ^ 4)) * (((-(e.z ^ 4)) * ((e.zb ^ 2) - (e.z ^ 2))) / (2 : K))) * (e.vb ^ 2)) * (((e.z ^ 2) + (e.zb ^ 2)) / (2 : K))), ((((-(e.z ^ 4)) * (((-(e.z ^ 4)) * ((e.zb ^ 2) - (e.z ^ 2))) / (2 : K))) * (e.vb ^ 2)) * (((-(e.z ^ 4)) * (((-(e.z ^ 4)) * ((e.z ^ 2) - (e.zb ^ 2))) / (2 : K))) * ((e.u ^ 2) * (e.z ^ 12)))), ((((e.zb ^ 2) + (e.z ^ 2)) / (2 : K)) * (((e.z ^ 2) + (e.zb ^ 2)) / (2 : K))), ((((e.zb ^ 2) + (e.z ^ 2)) / (2 : K)) * (((-(e.z ^ 4)) * (((-(e.z ^ 4)) * ((e.z ^ 2) - (e.zb ^ 2))) / (2 : K))) * ((e.u ^ 2) * (e.z ^ 12)))); ((((-(e.z ^ 4)) * (((-(e.z ^ 4)) * ((e.zb ^ 2) - (e.z ^ 2))) / (2 : K))) * (e.vb ^ 2)) * (((-(e.z ^ 4)) * (((-(e.z ^ 4)) * ((e.z ^ 2) - (e.zb ^ 2))) / (2 : K))) * ((e.ub ^ 2) * (e.zb ^ 12)))), ((((-(e.z ^ 4)) * (((-(e.z ^ 4)) * ((e.zb ^ 2) - (e.z ^ 2))) / (2 : K))) * (e.vb ^ 2)) * (((e.z ^ 2) + (e.zb ^ 2)) / (2 : K))), ((((e.zb ^ 2) + (e.z ^ 2)) / (2 : K)) * (((-(e.z ^ 4)) * (((-(e.z ^ 4)) * ((e.z ^ 2) - (e.zb ^ 2))) / (2 : K))) * ((e.ub ^ 2) * (e.zb ^ 12)))), ((((e.zb ^ 2) + (e.z ^ 2)) / (2 : K)) * (((e.z ^ 2) + (e.zb ^ 2)) / (2 : K)))]

/-- factor 1 of `NoiseFreeGates.CNOT_inv` (left to right) -/
def CNOT_inv_f1 (e : Env K) : Matrix (Fin 4) (Fin 4) K :=
  !![(((e.zb ^ 1) + (e.z ^ 1)) / (2 : K)), (((-(e.z ^ 4)) * (((-(e.z ^ 4)) * ((e.zb ^ 1) - (e.z ^ 1))) / (2 : K))) * ((e.u ^ 2) * (e.z ^ 8))), (0 : K), (0 : K); (((-(e.z ^ 4)) * (((-(e.z ^ 4)) * ((e.zb ^ 1) - (e.z ^ 1))) / (2 : K))) * ((e.ub ^ 2) * (e.zb ^ 8))), (((e.zb ^ 1) + (e.z ^ 1)) / (2 : K)), (0 : K), (0 : K); (0 : K), (0 : K), (((e.zb ^ 1) + (e.z ^ 1)) / (2 : K)), (((e.z ^ 4) * (((-(e.z ^ 4)) * ((e.zb ^ 1) - (e.z ^ 1))) / (2 : K))) * ((e.u ^ 2) * (e.z ^ 8))); (0 : K), (0 : K), (((e.z ^ 4) * (((-(e.z ^ 4)) * ((e.zb ^ 1) - (e.z ^ 1))) / (2 : K))) * ((e.ub ^ 2) * (e.zb ^ 8))), (((e.zb ^ 1) + (e.z ^ 1)) / (2 : K))]

/-- factor 2 of `NoiseFreeGates.CNOT_inv` (left to right) -/
def CNOT_inv_f2 (e : Env K) : Matrix (Fin 4) (Fin 4) K :=
  !![((((e.z ^ 4) + (e.zb ^ 4)) / (2 : K)) * (1 : K)), ((((e.z ^ 4) + (e.zb ^ 4)) / (2 : K)) * (0 : K)), ((((-(e.z ^ 4)) * (((-(e.z ^ 4)) * ((e.z ^ 4) - (e.zb ^ 4))) / (2 : K))) * ((e.v ^ 2) * (e.z ^ 4))) * (1 : K)), ((((-(e.z ^ 4)) * (((-(e.z ^ 4)) * ((e.z ^ 4) - (e.zb ^ 4))) / (2 : K))) * ((e.v ^ 2) * (e.z ^ 4))) * (0 : K)); ((((e.z ^ 4) + (e.zb ^ 4)) / (2 : K)) * (0 : K)), ((((e.z ^ 4) + (e.zb ^ 4)) / (2 : K)) * (1 : K)), ((((-(e.z ^ 4)) * (((-(e.z ^ 4)) * ((e.z ^ 4) - (e.zb ^ 4))) / (2 : K))) * ((e.v ^ 2) * (e.z ^ 4))) * (0 : K)), ((((-(e.z ^ 4)) * (((-(e.z ^ 4)) * ((e.z ^ 4) - (e.zb ^ 4))) / (2 : K))) * ((e.v ^ 2) * (e.z ^ 4))) * (1 : K)); ((((-(e.z ^ 4)) * (((-(e.z ^ 4)) * ((e.z ^ 4) - (e.zb ^ 4))) / (2 : K))) * ((e.vb ^ 2) * (e.zb ^ 4))) * (1 : K)), ((((-(e.z ^ 4)) * (((-(e.z ^ 4)) * ((e.z ^ 4) - (e.zb ^ 4))) / (2 : K))) * ((e.vb ^ 2) * (e.zb ^ 4))) * (0 : K)), ((((e.z ^ 4) + (e.zb ^ 4)) / (2 : K)) * (1 : K)), ((((e.z ^ 4) + (e.zb ^ 4)) / (2 : K)) * (0 : K)); ((((-(e.z ^ 4)) * (((-(e.z ^ 4)) * ((e.z ^ 4) - (e.zb ^ 4))) / (2 : K))) * ((e.vb ^ 2) * (e.zb ^ 4))) * (0 : K)), ((((-(e.z ^ 4)) * (((-(e.z ^ 4)) * ((e.z ^ 4) - (e.zb ^ 4))) / (2 : K))) * ((e.vb ^ 2) * (e.zb ^ 4))) * (1 : K)), ((((e.z ^ 4) + (e.zb ^ 4)) / (2 : K)) * (0 : K)), ((((e.z ^ 4) + (e.zb ^ 4)) / (2 : K)) * (1 : K))]

/-- factor 3 of `NoiseFreeGates.CNOT_inv` (left to right) -/
def CNOT_inv_f3 (e : Env K) : Matrix (Fin 4) (Fin 4) K :=
  !![(((e.z ^ 1) + (e.zb ^ 1)) / (2 : K)), (((-(e.z ^ 4)) * (((-(e.z ^ 4)) * ((e.z ^ 1) - (e.zb ^ 1))) / (2 : K))) * ((e.u ^ 2) * (e.z ^ 8))), (0 : K), (0 : K); (((-(e.z ^ 4)) * (((-(e.z ^ 4)) * ((e.z ^ 1) - (e.zb ^ 1))) / (2 : K))) * ((e.ub ^ 2) * (e.zb ^ 8))), (((e.z ^ 1) + (e.zb ^ 1)) / (2 : K)), (0 : K), (0 : K); (0 : K), (0 : K), (((e.z ^ 1) + (e.zb ^ 1)) / (2 : K)), (((e.z ^ 4) * (((-(e.z ^ 4)) * ((e.z ^ 1) - (e.zb ^ 1))) / (2 : K))) * ((e.u ^ 2) * (e.z ^ 8))); (0 : K), (0 : K), (((e.z ^ 4) * (((-(e.z ^ 4)) * ((e.z ^ 1) - (e.zb ^ 1))) / (2 : K))) * ((e.ub ^ 2) * (e.zb ^ 8))), (((e.z ^ 1) + (e.zb ^ 1)) / (2 : K))]

/-- factor 4 of `NoiseFreeGates.CNOT_inv` (left to right) -/
def CNOT_inv_f4 (e : Env K) : Matrix (Fin 4) (Fin 4) K :=
  !![((((e.z ^ 2) + (e.zb ^ 2)) / (2 : K)) * (((e.z ^ 2) + (e.zb ^ 2)) / (2 : K))), ((((e.z ^ 2) + (e.zb ^ 2)) / (2 : K)) * (((-(e.z ^ 4)) * (((-(e.z ^ 4)) * ((e.z ^ 2) - (e.zb ^ 2))) / (2 : K))) * ((e.u ^ 2) * (e.z ^ 4)))), ((((-(e.z ^ 4)) * (((-(e.z ^ 4)) * ((e.z ^ 2) - (e.zb ^ 2))) / (2 : K))) * ((e.v ^ 2) * (e.z ^ 4))) * (((e.z ^ 2) + (e.zb ^ 2)) / (2 : K))), ((((-(e.z ^ 4)) * (((-(e.z ^ 4)) * ((e.z ^ 2) - (e.zb ^ 2))) / (2 : K))) * ((e.v ^ 2) * (e.z ^ 4))) * (((-(e.z ^ 4)) * (((-(e.z ^ 4)) * ((e.z ^ 2) - (e.zb ^ 2))) / (2 : K))) * ((e.u ^ 2) * (e.z ^ 4)))); ((((e.z ^ 2) + (e.zb ^ 2)) / (2 : K)) * (((-(e.z ^ 4)) * (((-(e.z ^ 4)) * ((e.z ^ 2) - (e.zb ^ 2))) / (2 : K))) * ((e.ub ^ 2) * (e.zb ^ 4)))), ((((e.z ^ 2) + (e.zb ^ 2)) / (2 : K)) * (((e.z ^ 2) + (e.zb ^ 2)) / (2 : K))), ((((-(e.z ^ 4)) * (((-(e.z ^ 4)) * ((e.z ^ 2) - (e.zb ^ 2))) / (2 : K))) * ((e.v ^ 2) * (e.z ^ 4))) * (((-(e.z ^ 4)) * (((-(e.z ^ 4)) * ((e.z ^ 2) - (e.zb ^ 2))) / (2 : K))) * ((e.ub ^ 2) * (e.zb ^ 4)))), ((((-(e.z ^ 4)) * (((-(e.z ^ 4)) * ((e.z ^ 2) - (e.zb ^ 2))) / (2 : K))) * ((e.v ^ 2) * (e.z ^ 4))) * (((e.z ^ 2) + (e.zb ^ 2)) / (2 : K))); ((((-(e.z ^ 4)) * (((-(e.z ^ 4)) * ((e.z ^ 2) - (e.zb ^ 2))) / (2 : K))) * ((e.vb ^ 2) * (e.zb ^ 4))) * (((e.z ^ 2) + (e.zb ^ 2)) / (2 : K))), ((((-(e.z ^ 4)) * (((-(e.z ^ 4)) * ((e.z ^ 2) - (e.zb ^ 2))) / (2 : K))) * ((e.vb ^ 2) * (e.zb ^ 4))) * (((-(e.z ^ 4)) * (((-(e.z ^ 4)) * ((e.z ^ 2) - (e.zb ^ 2))) / (2 : K))) * ((e.u ^ 2) * (e.z ^ 4)))), ((((e.z ^ 2) + (e.zb ^ 2)) / (2 : K)) * (((e.z ^ 2) + (e.zb ^ 2)) / (2 : K))), ((((e.z ^ 2) + (e.zb ^ 2)) / (2 : K)) * (((-(e.z ^ 4)) * (((-(e.z ^ 4)) * ((e.z ^ 2) - (e.zb ^ 2))) / (2 : K))) * ((e.u ^ 2) * (e.z ^ 4)))); ((((-(e.z ^ 4)) * (((-(e.z ^ 4)) * ((e.z ^ 2) - (e.zb ^ 2))) / (2 : K))) * ((e.vb ^ 2) * (e.zb ^ 4))) * (((-(e.z ^ 4)) * (((-(e.z ^ 4)) * ((e.z ^ 2) - (e.zb ^ 2))) / (2 : K))) * ((e.ub ^ 2) * (e.zb ^ 4)))), ((((-(e.z ^ 4)) * (((-(e.z ^ 4)) * ((e.z ^ 2) - (e.zb ^ 2))) / (2 : K))) * ((e.vb ^ 2) * (e.zb ^ 4))) * (((e.z ^ 2) + (e.zb ^ 2)) / (2 : K))), ((((e.z ^ 2) + (e.zb ^ 2)) / (2 : K)) * (((-(e.z ^ 4)) * (((-(e.z ^ 4)) * ((e.z ^ 2) - (e.zb ^ 2))) / (2 : K))) * ((e.ub ^ 2) * (e.zb ^ 4)))), ((((e.z ^ 2) + (e.zb ^ 2)) / (2 : K)) * (((e.z ^ 2) + (e.zb ^ 2)) / (2 : K)))]

/-- `NoiseFreeGates.CNOT_inv` in frame variables: the product as written in the source -/
def CNOT_inv (e : Env K) : Matrix (Fin 4) (Fin 4) K :=
  CNOT_inv_f0 e * CNOT_inv_f1 e * CNOT_inv_f2 e * CNOT_inv_f3 e * CNOT_inv_f4 e

def CNOT_inv_c1 (e : Env K) : Matrix (Fin 4) (Fin 4) K :=
  !![(((1 : K) / (2 : K)) * (e.z ^ 1)), ((((-(1 : K)) / (2 : K)) * (e.u ^ 2)) * (e.z ^ 1)), ((((1 : K) / (2 : K)) * (e.v ^ 2)) * (e.z ^ 3)), (((((-(1 : K)) / (2 : K)) * (e.u ^ 2)) * (e.v ^ 2)) * (e.z ^ 3)); ((((1 : K) / (2 : K)) * (e.ub ^ 2)) * (e.zb ^ 1)), (((1 : K) / (2 : K)) * (e.zb ^ 1)), (((((-(1 : K)) / (2 : K)) * (e.ub ^ 2)) * (e.v ^ 2)) * (e.zb ^ 3)), ((((-(1 : K)) / (2 : K)) * (e.v ^ 2)) * (e.zb ^ 3)); ((((-(1 : K)) / (2 : K)) * (e.vb ^ 2)) * (e.zb ^ 3)), (((((1 : K) / (2 : K)) * (e.u ^ 2)) * (e.vb ^ 2)) * (e.zb ^ 3)), (((1 : K) / (2 : K)) * (e.zb ^ 1)), ((((-(1 : K)) / (2 : K)) * (e.u ^ 2)) * (e.zb ^ 1)); (((((1 : K) / (2 : K)) * (e.ub ^ 2)) * (e.vb ^ 2)) * (e.z ^ 3)), ((((1 : K) / (2 : K)) * (e.vb ^ 2)) * (e.z ^ 3)), ((((1 : K) / (2 : K)) * (e.ub ^ 2)) * (e.z ^ 1)), (((1 : K) / (2 : K)) * (e.z ^ 1))]

theorem CNOT_inv_step1 (e : Env K) (h : e.Rel) : CNOT_inv_f0 e * CNOT_inv_f1 e = CNOT_inv_c1 e := by
  obtain ⟨hu, hv, hz, hz8⟩ := h
  ext a b; fin_cases a <;> fin_cases b <;>
    simp [CNOT_inv_f0, CNOT_inv_f1, CNOT_inv_c1, Matrix.mul_apply, Fin.sum_univ_four] <;> grind

def CNOT_inv_c2 (e : Env K) : Matrix (Fin 4) (Fin 4) K :=
  !![(((-(1 : K)) / (2 : K)) * (e.z ^ 3)), ((((1 : K) / (2 : K)) * (e.u ^ 2)) * (e.z ^ 3)), ((((1 : K) / (2 : K)) * (e.v ^ 2)) * (e.z ^ 1)), (((((-(1 : K)) / (2 : K)) * (e.u ^ 2)) * (e.v ^ 2)) * (e.z ^ 1)); ((((1 : K) / (2 : K)) * (e.ub ^ 2)) * (e.zb ^ 3)), (((1 : K) / (2 : K)) * (e.zb ^ 3)), (((((1 : K) / (2 : K)) * (e.ub ^ 2)) * (e.v ^ 2)) * (e.zb ^ 1)), ((((1 : K) / (2 : K)) * (e.v ^ 2)) * (e.zb ^ 1)); ((((-(1 : K)) / (2 : K)) * (e.vb ^ 2)) * (e.zb ^ 1)), (((((1 : K) / (2 : K)) * (e.u ^ 2)) * (e.vb ^ 2)) * (e.zb ^ 1)), (((-(1 : K)) / (2 : K)) * (e.zb ^ 3)), ((((1 : K) / (2 : K)) * (e.u ^ 2)) * (e.zb ^ 3)); (((((-(1 : K)) / (2 : K)) * (e.ub ^ 2)) * (e.vb ^ 2)) * (e.z ^ 1)), ((((-(1 : K)) / (2 : K)) * (e.vb ^ 2)) * (e.z ^ 1)), ((((1 : K) / (2 : K)) * (e.ub ^ 2)) * (e.z ^ 3)), (((1 : K) / (2 : K)) * (e.z ^ 3))]

theorem CNOT_inv_step2 (e : Env K) (h : e.Rel) : CNOT_inv_c1 e * CNOT_inv_f2 e = CNOT_inv_c2 e := by
  obtain ⟨hu, hv, hz, hz8⟩ := h
  ext a b; fin_cases a <;> fin_cases b <;>
    simp [CNOT_inv_c1, CNOT_inv_f2, CNOT_inv_c2, Matrix.mul_apply, Fin.sum_univ_four] <;> grind

def CNOT_inv_c3 (e : Env K) : Matrix (Fin 4) (Fin 4) K :=
  !![(((-(1 : K)) / (2 : K)) * (e.z ^ 2)), ((((1 : K) / (2 : K)) * (e.u ^ 2)) * (e.z ^ 2)), ((((1 : K) / (2 : K)) * (e.v ^ 2)) * (e.z ^ 2)), (((((-(1 : K)) / (2 : K)) * (e.u ^ 2)) * (e.v ^ 2)) * (e.z ^ 2)); ((((1 : K) / (2 : K)) * (e.ub ^ 2)) * (e.zb ^ 2)), (((1 : K) / (2 : K)) * (e.zb ^ 2)), (((((1 : K) / (2 : K)) * (e.ub ^ 2)) * (e.v ^ 2)) * (e.zb ^ 2)), ((((1 : K) / (2 : K)) * (e.v ^ 2)) * (e.zb ^ 2)); ((((-(1 : K)) / (2 : K)) * (e.vb ^ 2)) * (e.zb ^ 2)), (((((1 : K) / (2 : K)) * (e.u ^ 2)) * (e.vb ^ 2)) * (e.zb ^ 2)), (((-(1 : K)) / (2 : K)) * (e.zb ^ 2)), ((((1 : K) / (2 : K)) * (e.u ^ 2)) * (e.zb ^ 2)); (((((-(1 : K)) / (2 : K)) * (e.ub ^ 2)) * (e.vb ^ 2)) * (e.z ^ 2)), ((((-(1 : K)) / (2 : K)) * (e.vb ^ 2)) * (e.z ^ 2)), ((((1 : K) / (2 : K)) * (e.ub ^ 2)) * (e.z ^ 2)), (((1 : K) / (2 : K)) * (e.z ^ 2))]

theorem CNOT_inv_step3 (e : Env K) (h : e.Rel) : CNOT_inv_c2 e * CNOT_inv_f3 e = CNOT_inv_c3 e := by
  obtain ⟨hu, hv, hz, hz8⟩ := h
  ext a b; fin_cases a <;> fin_cases b <;>
    simp [CNOT_inv_c2, CNOT_inv_f3, CNOT_inv_c3, Matrix.mul_apply, Fin.sum_univ_four] <;> grind

def CNOT_inv_c4 (e : Env K) : Matrix (Fin 4) (Fin 4) K :=
  !![((-(1 : K)) * (e.z ^ 2)), (0 : K), (0 : K), (0 : K); (0 : K), (0 : K), (0 : K), (((1 : K) * (e.v ^ 2)) * (e.zb ^ 2)); (0 : K), (0 : K), ((-(1 : K)) * (e.zb ^ 2)), (0 : K); (0 : K), (((-(1 : K)) * (e.vb ^ 2)) * (e.z ^ 2)), (0 : K), (0 : K)]

theorem CNOT_inv_step4 (e : Env K) (h : e.Rel) : CNOT_inv_c3 e * CNOT_inv_f4 e = CNOT_inv_c4 e := by
  obtain ⟨hu, hv, hz, hz8⟩ := h
  ext a b; fin_cases a <;> fin_cases b <;>
    simp [CNOT_inv_c3, CNOT_inv_f4, CNOT_inv_c4, Matrix.mul_apply, Fin.sum_univ_four] <;> grind

def CNOT_inv_closed_form (e : Env K) : Matrix (Fin 4) (Fin 4) K := CNOT_inv_c4 e

theorem CNOT_inv_closed (e : Env K) (h : e.Rel) : CNOT_inv e = CNOT_inv_closed_form e := by
  unfold CNOT_inv CNOT_inv_closed_form
  rw [CNOT_inv_step1 e h, CNOT_inv_step2 e h, CNOT_inv_step3 e h, CNOT_inv_step4 e h]

/-- factor 0 of `NoiseFreeGates.ECR` (left to right) -/
def ECR_f0 (e : Env K) : Matrix (Fin 4) (Fin 4) K :=
  !![(((e.z ^ 1) + (e.zb ^ 1)) / (2 : K)), (((-(e.z ^ 4)) * (((-(e.z ^ 4)) * ((e.z ^ 1) - (e.zb ^ 1))) / (2 : K))) * ((e.v ^ 2) * (e.zb ^ 8))), (0 : K), (0 : K); (((-(e.z ^ 4)) * (((-(e.z ^ 4)) * ((e.z ^ 1) - (e.zb ^ 1))) / (2 : K))) * ((e.vb ^ 2) * (e.z ^ 8))), (((e.z ^ 1) + (e.zb ^ 1)) / (2 : K)), (0 : K), (0 : K); (0 : K), (0 : K), (((e.z ^ 1) + (e.zb ^ 1)) / (2 : K)), (((e.z ^ 4) * (((-(e.z ^ 4)) * ((e.z ^ 1) - (e.zb ^ 1))) / (2 : K))) * ((e.v ^ 2) * (e.zb ^ 8))); (0 : K), (0 : K), (((e.z ^ 4) * (((-(e.z ^ 4)) * ((e.z ^ 1) - (e.zb ^ 1))) / (2 : K))) * ((e.vb ^ 2) * (e.z ^ 8))), (((e.z ^ 1) + (e.zb ^ 1)) / (2 : K))]

/-- factor 1 of `NoiseFreeGates.ECR` (left to right) -/
def ECR_f1 (e : Env K) : Matrix (Fin 4) (Fin 4) K :=
  !![(((-(e.z ^ 4)) * (((e.z ^ 4) + (e.zb ^ 4)) / (2 : K))) * (1 : K)), (((-(e.z ^ 4)) * (((e.z ^ 4) + (e.zb ^ 4)) / (2 : K))) * (0 : K)), (((-(e.z ^ 4)) * (((-(e.z ^ 4)) * (((-(e.z ^ 4)) * ((e.z ^ 4) - (e.zb ^ 4))) / (2 : K))) * ((e.u ^ 2) * (e.zb ^ 8)))) * (1 : K)), (((-(e.z ^ 4)) * (((-(e.z ^ 4)) * (((-(e.z ^ 4)) * ((e.z ^ 4) - (e.zb ^ 4))) / (2 : K))) * ((e.u ^ 2) * (e.zb ^ 8)))) * (0 : K)); (((-(e.z ^ 4)) * (((e.z ^ 4) + (e.zb ^ 4)) / (2 : K))) * (0 : K)), (((-(e.z ^ 4)) * (((e.z ^ 4) + (e.zb ^ 4)) / (2 : K))) * (1 : K)), (((-(e.z ^ 4)) * (((-(e.z ^ 4)) * (((-(e.z ^ 4)) * ((e.z ^ 4) - (e.zb ^ 4))) / (2 : K))) * ((e.u ^ 2) * (e.zb ^ 8)))) * (0 : K)), (((-(e.z ^ 4)) * (((-(e.z ^ 4)) * (((-(e.z ^ 4)) * ((e.z ^ 4) - (e.zb ^ 4))) / (2 : K))) * ((e.u ^ 2) * (e.zb ^ 8)))) * (1 : K)); (((-(e.z ^ 4)) * (((-(e.z ^ 4)) * (((-(e.z ^ 4)) * ((e.z ^ 4) - (e.zb ^ 4))) / (2 : K))) * ((e.ub ^ 2) * (e.z ^ 8)))) * (1 : K)), (((-(e.z ^ 4)) * (((-(e.z ^ 4)) * (((-(e.z ^ 4)) * ((e.z ^ 4) - (e.zb ^ 4))) / (2 : K))) * ((e.ub ^ 2) * (e.z ^ 8)))) * (0 : K)), (((-(e.z ^ 4)) * (((e.z ^ 4) + (e.zb ^ 4)) / (2 : K))) * (1 : K)), (((-(e.z ^ 4)) * (((e.z ^ 4) + (e.zb ^ 4)) / (2 : K))) * (0 : K)); (((-(e.z ^ 4)) * (((-(e.z ^ 4)) * (((-(e.z ^ 4)) * ((e.z ^ 4) - (e.zb ^ 4))) / (2 : K))) * ((e.ub ^ 2) * (e.z ^ 8)))) * (0 : K)), (((-(e.z ^ 4)) * (((-(e.z ^ 4)) * (((-(e.z ^ 4)) * ((e.z ^ 4) - (e.zb ^ 4))) / (2 : K))) * ((e.ub ^ 2) * (e.z ^ 8)))) * (1 : K)), (((-(e.z ^ 4)) * (((e.z ^ 4) + (e.zb ^ 4)) / (2 : K))) * (0 : K)), (((-(e.z ^ 4)) * (((e.z ^ 4) + (e.zb ^ 4)) / (2 : K))) * (1 : K))]

/-- factor 2 of `NoiseFreeGates.ECR` (left to right) -/
def ECR_f2 (e : Env K) : Matrix (Fin 4) (Fin 4) K :=
  !![(((e.zb ^ 1) + (e.z ^ 1)) / (2 : K)), (((-(e.z ^ 4)) * (((-(e.z ^ 4)) * ((e.zb ^ 1) - (e.z ^ 1))) / (2 : K))) * ((e.v ^ 2) * (e.zb ^ 8))), (0 : K), (0 : K); (((-(e.z ^ 4)) * (((-(e.z ^ 4)) * ((e.zb ^ 1) - (e.z ^ 1))) / (2 : K))) * ((e.vb ^ 2) * (e.z ^ 8))), (((e.zb ^ 1) + (e.z ^ 1)) / (2 : K)), (0 : K), (0 : K); (0 : K), (0 : K), (((e.zb ^ 1) + (e.z ^ 1)) / (2 : K)), (((e.z ^ 4) * (((-(e.z ^ 4)) * ((e.zb ^ 1) - (e.z ^ 1))) / (2 : K))) * ((e.v ^ 2) * (e.zb ^ 8))); (0 : K), (0 : K), (((e.z ^ 4) * (((-(e.z ^ 4)) * ((e.zb ^ 1) - (e.z ^ 1))) / (2 : K))) * ((e.vb ^ 2) * (e.z ^ 8))), (((e.zb ^ 1) + (e.z ^ 1)) / (2 : K))]

/-- `NoiseFreeGates.ECR` in frame variables: the product as written in the source -/
def ECR (e : Env K) : Matrix (Fin 4) (Fin 4) K :=
  ECR_f0 e * ECR_f1 e * ECR_f2 e

def ECR_c1 (e : Env K) : Matrix (Fin 4) (Fin 4) K :=
  !![(0 : K), (0 : K), (((((1 : K) / (2 : K)) * (e.u ^ 2)) * (e.z ^ 1)) + ((((1 : K) / (2 : K)) * (e.u ^ 2)) * (e.zb ^ 1))), ((((((1 : K) / (2 : K)) * (e.u ^ 2)) * (e.v ^ 2)) * (e.z ^ 1)) + (((((-(1 : K)) / (2 : K)) * (e.u ^ 2)) * (e.v ^ 2)) * (e.zb ^ 1))); (0 : K), (0 : K), ((((((1 : K) / (2 : K)) * (e.u ^ 2)) * (e.vb ^ 2)) * (e.z ^ 1)) + (((((-(1 : K)) / (2 : K)) * (e.u ^ 2)) * (e.vb ^ 2)) * (e.zb ^ 1))), (((((1 : K) / (2 : K)) * (e.u ^ 2)) * (e.z ^ 1)) + ((((1 : K) / (2 : K)) * (e.u ^ 2)) * (e.zb ^ 1))); (((((1 : K) / (2 : K)) * (e.ub ^ 2)) * (e.z ^ 1)) + ((((1 : K) / (2 : K)) * (e.ub ^ 2)) * (e.zb ^ 1))), ((((((1 : K) / (2 : K)) * (e.ub ^ 2)) * (e.v ^ 2)) * (e.zb ^ 1)) + (((((-(1 : K)) / (2 : K)) * (e.ub ^ 2)) * (e.v ^ 2)) * (e.z ^ 1))), (0 : K), (0 : K); ((((((1 : K) / (2 : K)) * (e.ub ^ 2)) * (e.vb ^ 2)) * (e.zb ^ 1)) + (((((-(1 : K)) / (2 : K)) * (e.ub ^ 2)) * (e.vb ^ 2)) * (e.z ^ 1))), (((((1 : K) / (2 : K)) * (e.ub ^ 2)) * (e.z ^ 1)) + ((((1 : K) / (2 : K)) * (e.ub ^ 2)) * (e.zb ^ 1))), (0 : K), (0 : K)]

theorem ECR_step1 (e : Env K) (h : e.Rel) : ECR_f0 e * ECR_f1 e = ECR_c1 e := by
  obtain ⟨hu, hv, hz, hz8⟩ := h
  ext a b; fin_cases a <;> fin_cases b <;>
    simp [ECR_f0, ECR_f1, ECR_c1, Matrix.mul_apply, Fin.sum_univ_four] <;> grind

def ECR_c2 (e : Env K) : Matrix (Fin 4) (Fin 4) K :=
  !![(0 : K), (0 : K), (((((1 : K) / (2 : K)) * (e.u ^ 2)) * (e.zb ^ 2)) + ((((1 : K) / (2 : K)) * (e.u ^ 2)) * (e.z ^ 2))), ((((((1 : K) / (2 : K)) * (e.u ^ 2)) * (e.v ^ 2)) * (e.z ^ 2)) + (((((-(1 : K)) / (2 : K)) * (e.u ^ 2)) * (e.v ^ 2)) * (e.zb ^ 2))); (0 : K), (0 : K), ((((((1 : K) / (2 : K)) * (e.u ^ 2)) * (e.vb ^ 2)) * (e.z ^ 2)) + (((((-(1 : K)) / (2 : K)) * (e.u ^ 2)) * (e.vb ^ 2)) * (e.zb ^ 2))), (((((1 : K) / (2 : K)) * (e.u ^ 2)) * (e.zb ^ 2)) + ((((1 : K) / (2 : K)) * (e.u ^ 2)) * (e.z ^ 2))); (((((1 : K) / (2 : K)) * (e.ub ^ 2)) * (e.zb ^ 2)) + ((((1 : K) / (2 : K)) * (e.ub ^ 2)) * (e.z ^ 2))), ((((((1 : K) / (2 : K)) * (e.ub ^ 2)) * (e.v ^ 2)) * (e.zb ^ 2)) + (((((-(1 : K)) / (2 : K)) * (e.ub ^ 2)) * (e.v ^ 2)) * (e.z ^ 2))), (0 : K), (0 : K); ((((((1 : K) / (2 : K)) * (e.ub ^ 2)) * (e.vb ^ 2)) * (e.zb ^ 2)) + (((((-(1 : K)) / (2 : K)) * (e.ub ^ 2)) * (e.vb ^ 2)) * (e.z ^ 2))), (((((1 : K) / (2 : K)) * (e.ub ^ 2)) * (e.zb ^ 2)) + ((((1 : K) / (2 : K)) * (e.ub ^ 2)) * (e.z ^ 2))), (0 : K), (0 : K)]

theorem ECR_step2 (e : Env K) (h : e.Rel) : ECR_c1 e * ECR_f2 e = ECR_c2 e := by
  obtain ⟨hu, hv, hz, hz8⟩ := h
  ext a b; fin_cases a <;> fin_cases b <;>
    simp [ECR_c1, ECR_f2, ECR_c2, Matrix.mul_apply, Fin.sum_univ_four] <;> grind

def ECR_closed_form (e : Env K) : Matrix (Fin 4) (Fin 4) K := ECR_c2 e

theorem ECR_closed (e : Env K) (h : e.Rel) : ECR e = ECR_closed_form e := by
  unfold ECR ECR_closed_form
  rw [ECR_step1 e h, ECR_step2 e h]

/-- factor 0 of `NoiseFreeGates.ECR_inv` (left to right) -/
def ECR_inv_f0 (e : Env K) : Matrix (Fin 4) (Fin 4) K :=
  !![((e.z ^ 4) * ((((e.z ^ 2) + (e.zb ^ 2)) / (2 : K)) * (((e.z ^ 2) + (e.zb ^ 2)) / (2 : K)))), ((e.z ^ 4) * ((((e.z ^ 2) + (e.zb ^ 2)) / (2 : K)) * (((-(e.z ^ 4)) * (((-(e.z ^ 4)) * ((e.z ^ 2) - (e.zb ^ 2))) / (2 : K))) * ((e.v ^ 2) * (e.z ^ 4))))), ((e.z ^ 4) * ((((-(e.z ^ 4)) * (((-(e.z ^ 4)) * ((e.z ^ 2) - (e.zb ^ 2))) / (2 : K))) * ((e.u ^ 2) * (e.z ^ 4))) * (((e.z ^ 2) + (e.zb ^ 2)) / (2 : K)))), ((e.z ^ 4) * ((((-(e.z ^ 4)) * (((-(e.z ^ 4)) * ((e.z ^ 2) - (e.zb ^ 2))) / (2 : K))) * ((e.u ^ 2) * (e.z ^ 4))) * (((-(e.z ^ 4)) * (((-(e.z ^ 4)) * ((e.z ^ 2) - (e.zb ^ 2))) / (2 : K))) * ((e.v ^ 2) * (e.z ^ 4))))); ((e.z ^ 4) * ((((e.z ^ 2) + (e.zb ^ 2)) / (2 : K)) * (((-(e.z ^ 4)) * (((-(e.z ^ 4)) * ((e.z ^ 2) - (e.zb ^ 2))) / (2 : K))) * ((e.vb ^ 2) * (e.zb ^ 4))))), ((e.z ^ 4) * ((((e.z ^ 2) + (e.zb ^ 2)) / (2 : K)) * (((e.z ^ 2) + (e.zb ^ 2)) / (2 : K)))), ((e.z ^ 4) * ((((-(e.z ^ 4)) * (((-(e.z ^ 4)) * ((e.z ^ 2) - (e.zb ^ 2))) / (2 : K))) * ((e.u ^ 2) * (e.z ^ 4))) * (((-(e.z ^ 4)) * (((-(e.z ^ 4)) * ((e.z ^ 2) - (e.zb ^ 2))) / (2 : K))) * ((e.vb ^ 2) * (e.zb ^ 4))))), ((e.z ^ 4) * ((((-(e.z ^ 4)) * (((-(e.z ^ 4)) * ((e.z ^ 2) - (e.zb ^ 2))) / (2 : K))) * ((e.u ^ 2) * (e.z ^ 4))) * (((e.z ^ 2) + (e.zb ^ 2)) / (2 : K)))); ((e.z ^ 4) * ((((-(e.z ^ 4)) * (((-(e.z ^ 4)) * ((e.z ^ 2) - (e.zb ^ 2))) / (2 : K))) * ((e.ub ^ 2) * (e.zb ^ 4))) * (((e.z ^ 2) + (e.zb ^ 2)) / (2 : K)))), ((e.z ^ 4) * ((((-(e.z ^ 4)) * (((-(e.z ^ 4)) * ((e.z ^ 2) - (e.zb ^ 2))) / (2 : K))) * ((e.ub ^ 2) * (e.zb ^ 4))) * (((-(e.z ^ 4)) * (((-(e.z ^ 4)) * ((e.z ^ 2) - (e.zb ^ 2))) / (2 : K))) * ((e.v ^ 2) * (e.z ^ 4))))), ((e.z ^ 4) * ((((e.z ^ 2) + (e.zb ^ 2)) / (2 : K)) * (((e.z ^ 2) + (e.zb ^ 2)) / (2 : K)))), ((e.z ^ 4) * ((((e.z ^ 2) + (e.zb ^ 2)) / (2 : K)) * (((-(e.z ^ 4)) * (((-(e.z ^ 4)) * ((e.z ^ 2) - (e.zb ^ 2))) / (2 : K))) * ((e.v ^ 2) * (e.z ^ 4))))); ((e.z ^ 4) * ((((-(e.z ^ 4)) * (((-(e.z ^ 4)) * ((e.z ^ 2) - (e.zb ^ 2))) / (2 : K))) * ((e.ub ^ 2) * (e.zb ^ 4))) * (((-(e.z ^ 4)) * (((-(e.z ^ 4)) * ((e.z ^ 2) - (e.zb ^ 2))) / (2 : K))) * ((e.vb ^ 2) * (e.zb ^ 4))))), ((e.z ^ 4) * ((((-(e.z ^ 4)) * (((-(e.z ^ 4)) * ((e.z ^ 2) - (e.zb ^ 2))) / (2 : K))) * ((e.ub ^ 2) * (e.zb ^ 4))) * (((e.z ^ 2) + (e.zb ^ 2)) / (2 : K)))), ((e.z ^ 4) * ((((e.z ^ 2) + (e.zb ^ 2)) / (2 : K)) * (((-(e.z ^ 4)) * (((-(e.z ^ 4)) * ((e.z ^ 2) - (e.zb ^ 2))) / (2 : K))) * ((e.vb ^ 2) * (e.zb ^ 4))))), ((e.z ^ 4) * ((((e.z ^ 2) + (e.zb ^ 2)) / (2 : K)) * (((e.z ^ 2) + (e.zb ^ 2)) / (2 : K))))]

/-- factor 1 of `NoiseFreeGates.ECR_inv` (left to right) -/
def ECR_inv_f1 (e : Env K) : Matrix (Fin 4) (Fin 4) K :=
  !![(((e.z ^ 1) + (e.zb ^ 1)) / (2 : K)), (((-(e.z ^ 4)) * (((-(e.z ^ 4)) * ((e.z ^ 1) - (e.zb ^ 1))) / (2 : K))) * ((e.v ^ 2) * (e.zb ^ 8))), (0 : K), (0 : K); (((-(e.z ^ 4)) * (((-(e.z ^ 4)) * ((e.z ^ 1) - (e.zb ^ 1))) / (2 : K))) * ((e.vb ^ 2) * (e.z ^ 8))), (((e.z ^ 1) + (e.zb ^ 1)) / (2 : K)), (0 : K), (0 : K); (0 : K), (0 : K), (((e.z ^ 1) + (e.zb ^ 1)) / (2 : K)), (((e.z ^ 4) * (((-(e.z ^ 4)) * ((e.z ^ 1) - (e.zb ^ 1))) / (2 : K))) * ((e.v ^ 2) * (e.zb ^ 8))); (0 : K), (0 : K), (((e.z ^ 4) * (((-(e.z ^ 4)) * ((e.z ^ 1) - (e.zb ^ 1))) / (2 : K))) * ((e.vb ^ 2) * (e.z ^ 8))), (((e.z ^ 1) + (e.zb ^ 1)) / (2 : K))]

/-- factor 2 of `NoiseFreeGates.ECR_inv` (left to right) -/
def ECR_inv_f2 (e : Env K) : Matrix (Fin 4) (Fin 4) K :=
  !![(((-(e.z ^ 4)) * (((e.z ^ 4) + (e.zb ^ 4)) / (2 : K))) * (1 : K)), (((-(e.z ^ 4)) * (((e.z ^ 4) + (e.zb ^ 4)) / (2 : K))) * (0 : K)), (((-(e.z ^ 4)) * (((-(e.z ^ 4)) * (((-(e.z ^ 4)) * ((e.z ^ 4) - (e.zb ^ 4))) / (2 : K))) * ((e.u ^ 2) * (e.zb ^ 8)))) * (1 : K)), (((-(e.z ^ 4)) * (((-(e.z ^ 4)) * (((-(e.z ^ 4)) * ((e.z ^ 4) - (e.zb ^ 4))) / (2 : K))) * ((e.u ^ 2) * (e.zb ^ 8)))) * (0 : K)); (((-(e.z ^ 4)) * (((e.z ^ 4) + (e.zb ^ 4)) / (2 : K))) * (0 : K)), (((-(e.z ^ 4)) * (((e.z ^ 4) + (e.zb ^ 4)) / (2 : K))) * (1 : K)), (((-(e.z ^ 4)) * (((-(e.z ^ 4)) * (((-(e.z ^ 4)) * ((e.z ^ 4) - (e.zb ^ 4))) / (2 : K))) * ((e.u ^ 2) * (e.zb ^ 8)))) * (0 : K)), (((-(e.z ^ 4)) * (((-(e.z ^ 4)) * (((-(e.z ^ 4)) * ((e.z ^ 4) - (e.zb ^ 4))) / (2 : K))) * ((e.u ^ 2) * (e.zb ^ 8)))) * (1 : K)); (((-(e.z ^ 4)) * (((-(e.z ^ 4)) * (((-(e.z ^ 4)) * ((e.z ^ 4) - (e.zb ^ 4))) / (2 : K))) * ((e.ub ^ 2) * (e.z ^ 8)))) * (1 : K)), (((-(e.z ^ 4)) * (((-(e.z ^ 4)) * (((-(e.z ^ 4)) * ((e.z ^ 4) - (e.zb ^ 4))) / (2 : K))) * ((e.ub ^ 2) * (e.z ^ 8)))) * (0 : K)), (((-(e.z ^ 4)) * (((e.z ^ 4) + (e.zb ^ 4)) / (2 : K))) * (1 : K)), (((-(e.z ^ 4)) * (((e.z ^ 4) + (e.zb ^ 4)) / (2 : K))) * (0 : K)); (((-(e.z ^ 4)) * (((-(e.z ^ 4)) * (((-(e.z ^ 4)) * ((e.z ^ 4) - (e.zb ^ 4))) / (2 : K))) * ((e.ub ^ 2) * (e.z ^ 8)))) * (0 : K)), (((-(e.z ^ 4)) * (((-(e.z ^ 4)) * (((-(e.z ^ 4)) * ((e.z ^ 4) - (e.zb ^ 4))) / (2 : K))) * ((e.ub ^ 2) * (e.z ^ 8)))) * (1 : K)), (((-(e.z ^ 4)) * (((e.z ^ 4) + (e.zb ^ 4)) / (2 : K))) * (0 : K)), (((-(e.z ^ 4)) * (((e.z ^ 4) + (e.zb ^ 4)) / (2 : K))) * (1 : K))]

/-- factor 3 of `NoiseFreeGates.ECR_inv` (left to right) -/
def ECR_inv_f3 (e : Env K) : Matrix (Fin 4) (Fin 4) K :=
  !![(((e.zb ^ 1) + (e.z ^ 1)) / (2 : K)), (((-(e.z ^ 4)) * (((-(e.z ^ 4)) * ((e.zb ^ 1) - (e.z ^ 1))) / (2 : K))) * ((e.v ^ 2) * (e.zb ^ 8))), (0 : K), (0 : K); (((-(e.z ^ 4)) * (((-(e.z ^ 4)) * ((e.zb ^ 1) - (e.z ^ 1))) / (2 : K))) * ((e.vb ^ 2) * (e.z ^ 8))), (((e.zb ^ 1) + (e.z ^ 1)) / (2 : K)), (0 : K), (0 : K); (0 : K), (0 : K), (((e.zb ^ 1) + (e.z ^ 1)) / (2 : K)), (((e.z ^ 4) * (((-(e.z ^ 4)) * ((e.zb ^ 1) - (e.z ^ 1))) / (2 : K))) * ((e.v ^ 2) * (e.zb ^ 8))); (0 : K), (0 : K), (((e.z ^ 4) * (((-(e.z ^ 4)) * ((e.zb ^ 1) - (e.z ^ 1))) / (2 : K))) * ((e.vb ^ 2) * (e.z ^ 8))), (((e.zb ^ 1) + (e.z ^ 1)) / (2 : K))]

/-- factor 4 of `NoiseFreeGates.ECR_inv` (left to right) -/
def ECR_inv_f4 (e : Env K) : Matrix (Fin 4) (Fin 4) K :=
  !![((((e.z ^ 2) + (e.zb ^ 2)) / (2 : K)) * (((e.z ^ 2) + (e.zb ^ 2)) / (2 : K))), ((((e.z ^ 2) + (e.zb ^ 2)) / (2 : K)) * (((-(e.z ^ 4)) * (((-(e.z ^ 4)) * ((e.z ^ 2) - (e.zb ^ 2))) / (2 : K))) * ((e.v ^ 2) * (e.z ^ 4)))), ((((-(e.z ^ 4)) * (((-(e.z ^ 4)) * ((e.z ^ 2) - (e.zb ^ 2))) / (2 : K))) * ((e.u ^ 2) * (e.z ^ 4))) * (((e.z ^ 2) + (e.zb ^ 2)) / (2 : K))), ((((-(e.z ^ 4)) * (((-(e.z ^ 4)) * ((e.z ^ 2) - (e.zb ^ 2))) / (2 : K))) * ((e.u ^ 2) * (e.z ^ 4))) * (((-(e.z ^ 4)) * (((-(e.z ^ 4)) * ((e.z ^ 2) - (e.zb ^ 2))) / (2 : K))) * ((e.v ^ 2) * (e.z ^ 4)))); ((((e.z ^ 2) + (e.zb ^ 2)) / (2 : K)) * (((-(e.z ^ 4)) * (((-(e.z ^ 4)) * ((e.z ^ 2) - (e.zb ^ 2))) / (2 : K))) * ((e.vb ^ 2) * (e.zb ^ 4)))), ((((e.z ^ 2) + (e.zb ^ 2)) / (2 : K)) * (((e.z ^ 2) + (e.zb ^ 2)) / (2 : K))), ((((-(e.z ^ 4)) * (((-(e.z ^ 4)) * ((e.z ^ 2) - (e.zb ^ 2))) / (2 : K))) * ((e.u ^ 2) * (e.z ^ 4))) * (((-(e.z ^ 4)) * (((-(e.z ^ 4)) * ((e.z ^ 2) - (e.zb ^ 2))) / (2 : K))) * ((e.vb ^ 2) * (e.zb ^ 4)))), ((((-(e.z ^ 4)) * (((-(e.z ^ 4)) * ((e.z ^ 2) - (e.zb ^ 2))) / (2 : K))) * ((e.u ^ 2) * (e.z ^ 4))) * (((e.z ^ 2) + (e.zb ^ 2)) / (2 : K))); ((((-(e.z ^ 4)) * (((-(e.z ^ 4)) * ((e.z ^ 2) - (e.zb ^ 2))) / (2 : K))) * ((e.ub ^ 2) * (e.zb ^ 4))) * (((e.z ^ 2) + (e.zb ^ 2)) / (2 : K))), ((((-(e.z ^ 4)) * (((-(e.z ^ 4)) * ((e.z ^ 2) - (e.zb ^ 2))) / (2 : K))) * ((e.ub ^ 2) * (e.zb ^ 4))) * (((-(e.z ^ 4)) * (((-(e.z ^ 4)) * ((e.z ^ 2) - (e.zb ^ 2))) / (2 : K))) * ((e.v ^ 2) * (e.z ^ 4)))), ((((e.z ^ 2) + (e.zb ^ 2)) / (2 : K)) * (((e.z ^ 2) + (e.zb ^ 2)) / (2 : K))), ((((e.z ^ 2) + (e.zb ^ 2)) / (2 : K)) * (((-(e.z ^ 4)) * (((-(e.z ^ 4)) * ((e.z ^ 2) - (e.zb ^ 2))) / (2 : K))) * ((e.v ^ 2) * (e.z ^ 4)))); ((((-(e.z ^ 4)) * (((-(e.z ^ 4)) * ((e.z ^ 2) - (e.zb ^ 2))) / (2 : K))) * ((e.ub ^ 2) * (e.zb ^ 4))) * (((-(e.z ^ 4)) * (((-(e.z ^ 4)) * ((e.z ^ 2) - (e.zb ^ 2))) / (2 : K))) * ((e.vb ^ 2) * (e.zb ^ 4)))), ((((-(e.z ^ 4)) * (((-(e.z ^ 4)) * ((e.z ^ 2) - (e.zb ^ 2))) / (2 : K))) * ((e.ub ^ 2) * (e.zb ^ 4))) * (((e.z ^ 2) + (e.zb ^ 2)) / (2 : K))), ((((e.z ^ 2) + (e.zb ^ 2)) / (2 : K)) * (((-(e.z ^ 4)) * (((-(e.z ^ 4)) * ((e.z ^ 2) - (e.zb ^ 2))) / (2 : K))) * ((e.vb ^ 2) * (e.zb ^ 4)))), ((((e.z ^ 2) + (e.zb ^ 2)) / (2 : K)) * (((e.z ^ 2) + (e.zb ^ 2)) / (2 : K)))]

/-- `NoiseFreeGates.ECR_inv` in frame variables: the product as written in the source -/
def ECR_inv (e : Env K) : Matrix (Fin 4) (Fin 4) K :=
  ECR_inv_f0 e * ECR_inv_f1 e * ECR_inv_f2 e * ECR_inv_f3 e * ECR_inv_f4 e

def ECR_inv_c1 (e : Env K) : Matrix (Fin 4) (Fin 4) K :=
  !![(((-(1 : K)) / (2 : K)) * (e.zb ^ 3)), ((((-(1 : K)) / (2 : K)) * (e.v ^ 2)) * (e.zb ^ 3)), ((((1 : K) / (2 : K)) * (e.u ^ 2)) * (e.z ^ 3)), (((((1 : K) / (2 : K)) * (e.u ^ 2)) * (e.v ^ 2)) * (e.z ^ 3)); ((((-(1 : K)) / (2 : K)) * (e.vb ^ 2)) * (e.z ^ 3)), (((1 : K) / (2 : K)) * (e.z ^ 3)), (((((1 : K) / (2 : K)) * (e.u ^ 2)) * (e.vb ^ 2)) * (e.zb ^ 3)), ((((-(1 : K)) / (2 : K)) * (e.u ^ 2)) * (e.zb ^ 3)); ((((1 : K) / (2 : K)) * (e.ub ^ 2)) * (e.zb ^ 3)), (((((1 : K) / (2 : K)) * (e.ub ^ 2)) * (e.v ^ 2)) * (e.zb ^ 3)), (((1 : K) / (2 : K)) * (e.z ^ 3)), ((((1 : K) / (2 : K)) * (e.v ^ 2)) * (e.z ^ 3)); (((((1 : K) / (2 : K)) * (e.ub ^ 2)) * (e.vb ^ 2)) * (e.z ^ 3)), ((((-(1 : K)) / (2 : K)) * (e.ub ^ 2)) * (e.z ^ 3)), ((((1 : K) / (2 : K)) * (e.vb ^ 2)) * (e.zb ^ 3)), (((-(1 : K)) / (2 : K)) * (e.zb ^ 3))]

theorem ECR_inv_step1 (e : Env K) (h : e.Rel) : ECR_inv_f0 e * ECR_inv_f1 e = ECR_inv_c1 e := by
  obtain ⟨hu, hv, hz, hz8⟩ := h
  ext a b; fin_cases a <;> fin_cases b <;>
    simp [ECR_inv_f0, ECR_inv_f1, ECR_inv_c1, Matrix.mul_apply, Fin.sum_univ_four] <;> grind

def ECR_inv_c2 (e : Env K) : Matrix (Fin 4) (Fin 4) K :=
  !![(((1 : K) / (2 : K)) * (e.z ^ 3)), ((((1 : K) / (2 : K)) * (e.v ^ 2)) * (e.z ^ 3)), ((((-(1 : K)) / (2 : K)) * (e.u ^ 2)) * (e.zb ^ 3)), (((((-(1 : K)) / (2 : K)) * (e.u ^ 2)) * (e.v ^ 2)) * (e.zb ^ 3)); ((((1 : K) / (2 : K)) * (e.vb ^ 2)) * (e.zb ^ 3)), (((-(1 : K)) / (2 : K)) * (e.zb ^ 3)), (((((-(1 : K)) / (2 : K)) * (e.u ^ 2)) * (e.vb ^ 2)) * (e.z ^ 3)), ((((1 : K) / (2 : K)) * (e.u ^ 2)) * (e.z ^ 3)); ((((1 : K) / (2 : K)) * (e.ub ^ 2)) * (e.z ^ 3)), (((((1 : K) / (2 : K)) * (e.ub ^ 2)) * (e.v ^ 2)) * (e.z ^ 3)), (((1 : K) / (2 : K)) * (e.zb ^ 3)), ((((1 : K) / (2 : K)) * (e.v ^ 2)) * (e.zb ^ 3)); (((((1 : K) / (2 : K)) * (e.ub ^ 2)) * (e.vb ^ 2)) * (e.zb ^ 3)), ((((-(1 : K)) / (2 : K)) * (e.ub ^ 2)) * (e.zb ^ 3)), ((((1 : K) / (2 : K)) * (e.vb ^ 2)) * (e.z ^ 3)), (((-(1 : K)) / (2 : K)) * (e.z ^ 3))]

theorem ECR_inv_step2 (e : Env K) (h : e.Rel) : ECR_inv_c1 e * ECR_inv_f2 e = ECR_inv_c2 e := by
  obtain ⟨hu, hv, hz, hz8⟩ := h
  ext a b; fin_cases a <;> fin_cases b <;>
    simp [ECR_inv_c1, ECR_inv_f2, ECR_inv_c2, Matrix.mul_apply, Fin.sum_univ_four] <;> grind

def ECR_inv_c3 (e : Env K) : Matrix (Fin 4) (Fin 4) K :=
  !![(((1 : K) / (2 : K)) * (e.z ^ 2)), ((((1 : K) / (2 : K)) * (e.v ^ 2)) * (e.z ^ 2)), ((((-(1 : K)) / (2 : K)) * (e.u ^ 2)) * (e.zb ^ 2)), (((((-(1 : K)) / (2 : K)) * (e.u ^ 2)) * (e.v ^ 2)) * (e.zb ^ 2)); ((((1 : K) / (2 : K)) * (e.vb ^ 2)) * (e.zb ^ 2)), (((-(1 : K)) / (2 : K)) * (e.zb ^ 2)), (((((-(1 : K)) / (2 : K)) * (e.u ^ 2)) * (e.vb ^ 2)) * (e.z ^ 2)), ((((1 : K) / (2 : K)) * (e.u ^ 2)) * (e.z ^ 2)); ((((1 : K) / (2 : K)) * (e.ub ^ 2)) * (e.z ^ 2)), (((((1 : K) / (2 : K)) * (e.ub ^ 2)) * (e.v ^ 2)) * (e.z ^ 2)), (((1 : K) / (2 : K)) * (e.zb ^ 2)), ((((1 : K) / (2 : K)) * (e.v ^ 2)) * (e.zb ^ 2)); (((((1 : K) / (2 : K)) * (e.ub ^ 2)) * (e.vb ^ 2)) * (e.zb ^ 2)), ((((-(1 : K)) / (2 : K)) * (e.ub ^ 2)) * (e.zb ^ 2)), ((((1 : K) / (2 : K)) * (e.vb ^ 2)) * (e.z ^ 2)), (((-(1 : K)) / (2 : K)) * (e.z ^ 2))]

theorem ECR_inv_step3 (e : Env K) (h : e.Rel) : ECR_inv_c2 e * ECR_inv_f3 e = ECR_inv_c3 e := by
  obtain ⟨hu, hv, hz, hz8⟩ := h
  ext a b; fin_cases a <;> fin_cases b <;>
    simp [ECR_inv_c2, ECR_inv_f3, ECR_inv_c3, Matrix.mul_apply, Fin.sum_univ_four] <;> grind

def ECR_inv_c4 (e : Env K) : Matrix (Fin 4) (Fin 4) K :=
  !![(0 : K), (((((1 : K) / (2 : K)) * (e.v ^ 2)) * (e.zb ^ 2)) + ((((1 : K) / (2 : K)) * (e.v ^ 2)) * (e.z ^ 2))), (0 : K), ((((((1 : K) / (2 : K)) * (e.u ^ 2)) * (e.v ^ 2)) * (e.z ^ 2)) + (((((-(1 : K)) / (2 : K)) * (e.u ^ 2)) * (e.v ^ 2)) * (e.zb ^ 2))); (((((1 : K) / (2 : K)) * (e.vb ^ 2)) * (e.zb ^ 2)) + ((((1 : K) / (2 : K)) * (e.vb ^ 2)) * (e.z ^ 2))), (0 : K), ((((((1 : K) / (2 : K)) * (e.u ^ 2)) * (e.vb ^ 2)) * (e.zb ^ 2)) + (((((-(1 : K)) / (2 : K)) * (e.u ^ 2)) * (e.vb ^ 2)) * (e.z ^ 2))), (0 : K); (0 : K), ((((((1 : K) / (2 : K)) * (e.ub ^ 2)) * (e.v ^ 2)) * (e.z ^ 2)) + (((((-(1 : K)) / (2 : K)) * (e.ub ^ 2)) * (e.v ^ 2)) * (e.zb ^ 2))), (0 : K), (((((1 : K) / (2 : K)) * (e.v ^ 2)) * (e.zb ^ 2)) + ((((1 : K) / (2 : K)) * (e.v ^ 2)) * (e.z ^ 2))); ((((((1 : K) / (2 : K)) * (e.ub ^ 2)) * (e.vb ^ 2)) * (e.zb ^ 2)) + (((((-(1 : K)) / (2 : K)) * (e.ub ^ 2)) * (e.vb ^ 2)) * (e.z ^ 2))), (0 : K), (((((1 : K) / (2 : K)) * (e.vb ^ 2)) * (e.zb ^ 2)) + ((((1 : K) / (2 : K)) * (e.vb ^ 2)) * (e.z ^ 2))), (0 : K)]

theorem ECR_inv_step4 (e : Env K) (h : e.Rel) : ECR_inv_c3 e * ECR_inv_f4 e = ECR_inv_c4 e := by
  obtain ⟨hu, hv, hz, hz8⟩ := h
  ext a b; fin_cases a <;> fin_cases b <;>
    simp [ECR_inv_c3, ECR_inv_f4, ECR_inv_c4, Matrix.mul_apply, Fin.sum_univ_four] <;> grind

def ECR_inv_closed_form (e : Env K) : Matrix (Fin 4) (Fin 4) K := ECR_inv_c4 e

theorem ECR_inv_closed (e : Env K) (h : e.Rel) : ECR_inv e = ECR_inv_closed_form e := by
  unfold ECR_inv ECR_inv_closed_form
  rw [ECR_inv_step1 e h, ECR_inv_step2 e h, ECR_inv_step3 e h, ECR_inv_step4 e h]

end QG.Gen.Frames
