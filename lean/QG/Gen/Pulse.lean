import QG.Lemmas.NormalDist
/-! GENERATED on every run by harness/gen/pulse.py from the source text of src/quantum_gates/_gates/pulse.py.  Do not edit.
Mapping table (trusted, three rows): scipy.stats.norm.pdf/cdf/sf(x, loc, scale) ↦ normPdf/normCdf/normSf x loc scale
(QG/Lemmas/NormalDist.lean).  Everything else is a literal rendering of the Python AST. -/
set_option linter.unusedVariables false
namespace QG.Gen.Pulse
open QG.Lemmas.NormalDist

/-- `GaussianPulse._gaussian_pulse` (line 184), handed to `Pulse.__init__` as `pulse=` -/
noncomputable def gaussianWaveform (loc scale x : ℝ) : ℝ :=
  ((normPdf x loc scale) / (if loc < ((1 : ℝ) / 2) then ((normSf (0 : ℝ) loc scale) - (normSf (1 : ℝ) loc scale)) else ((normCdf (1 : ℝ) loc scale) - (normCdf (0 : ℝ) loc scale))))

/-- `GaussianPulse._gaussian_parametrization` (line 187), handed over as `parametrization=` -/
noncomputable def gaussianParam (loc scale x : ℝ) : ℝ :=
  ((if loc < ((1 : ℝ) / 2) then ((normSf (0 : ℝ) loc scale) - (normSf x loc scale)) else ((normCdf x loc scale) - (normCdf (0 : ℝ) loc scale))) / (if loc < ((1 : ℝ) / 2) then ((normSf (0 : ℝ) loc scale) - (normSf (1 : ℝ) loc scale)) else ((normCdf (1 : ℝ) loc scale) - (normCdf (0 : ℝ) loc scale))))

/-- the `denominator` computed by `GaussianPulse._validate_inputs` -/
noncomputable def gaussianDenominator (loc scale : ℝ) : ℝ :=
  (if loc < ((1 : ℝ) / 2) then ((normSf (0 : ℝ) loc scale) - (normSf (1 : ℝ) loc scale)) else ((normCdf (1 : ℝ) loc scale) - (normCdf (0 : ℝ) loc scale)))

/-- the condition `_validate_inputs` asserts about it -/
def gaussianInputsAccepted (loc scale : ℝ) : Prop :=
  (if loc < ((1 : ℝ) / 2) then ((normSf (0 : ℝ) loc scale) - (normSf (1 : ℝ) loc scale)) else ((normCdf (1 : ℝ) loc scale) - (normCdf (0 : ℝ) loc scale))) ≠ (0 : ℝ)

/-- the domain guard `_validate_inputs` asserts before computing the denominator: `np.isfinite` of ['loc', 'scale'] (true of every real
number) and positivity of ['scale']; `True` when the source has no such assertion -/
def gaussianDomainOk (loc scale : ℝ) : Prop :=
  0 < scale

/-- `Pulse.epsilon = 1/1000000` and `Pulse.check_n_points` -/
def pulseEpsilonNum : ℕ := 1
def pulseEpsilonDen : ℕ := 1000000
def pulseCheckNPoints : ℕ := 10
/-- slack of the sampled monotonicity comparison of `Pulse._parametrization_is_valid` (`F(x+ε) >= F(x) - slack`) -/
def pulseMonoTolNum : ℕ := 1
def pulseMonoTolDen : ℕ := 500000000000

/-- `ConstantPulse`: `pulse=one`, `parametrization=identity`, `perform_checks=False`, `use_lookup=True` -/
noncomputable def constantPulseWaveform (x : ℝ) : ℝ := (1 : ℝ)
noncomputable def constantPulseParam (x : ℝ) : ℝ := x

/-- `ConstantPulseNumerical`: `pulse=one`, `parametrization=identity`, `perform_checks=False`, `use_lookup=False` -/
noncomputable def constantPulseNumericalWaveform (x : ℝ) : ℝ := (1 : ℝ)
noncomputable def constantPulseNumericalParam (x : ℝ) : ℝ := x

/-- bundled instance `gaussian_pulse = GaussianPulse(loc=1/2, scale=1/4)` -/
noncomputable def bundledGaussianPulseLoc : ℝ := ((1 : ℝ) / 2)
noncomputable def bundledGaussianPulseScale : ℝ := ((1 : ℝ) / 4)

end QG.Gen.Pulse
