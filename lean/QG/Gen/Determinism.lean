import QG.Model.IntegratorCache
/-! GENERATED on every run by harness/gen/determinism.py from the source text of
src/quantum_gates/_gates/integrator.py, src/quantum_gates/_gates/factories.py, src/quantum_gates/_gates/gates.py, src/quantum_gates/_simulation/simulator.py (and a scan of the package).  Do not edit.

`integrate` (line 52): parameters ('integrand', 'theta', 'a'); coerced with `float(...)` first: ('theta', 'a');
cache key ('integrand', 'theta', 'a') (read and written 2x under the same tuple); asserts ['integrand in self._INTEGRAL_LOOKUP.keys()', 'a > 0'];
the two integration routines are called with ('integrand', 'theta', 'a') in this order; `self.` attributes read: {'integrate': ['use_lookup', '_cache', '_analytical_integration', '_numerical_integration', '_INTEGRAL_LOOKUP'], '_analytical_integration': ['_RESULT_LOOKUP', '_INTEGRAL_LOOKUP'], '_numerical_integration': ['pulse_parametrization', '_INTEGRAL_LOOKUP']}.
`_cache`: instance attribute, fresh dict in __init__.
generator call sites in factories.py: ['np.random.normal:24', 'np.random.normal:50', 'np.random.normal:51', 'np.random.normal:52', 'np.random.normal:99', 'np.random.normal:100', 'np.random.multivariate_normal:254', 'np.random.multivariate_normal:294', 'np.random.normal:484', 'np.random.normal:536', 'np.random.multivariate_normal:616', 'np.random.multivariate_normal:662'].
`_perform_simulation` (line 248): shot arguments [('data', ('deepcopy', 'data')), ('circ', ('fresh', True, ['int nqubit', 'int depth', 'deepcopy(self.gates)'])), ('device_param', ('deepcopy', 'device_param')), ('psi0', ('deepcopy', 'psi0')), ('qubit_layout', ('deepcopy', 'qubit_layout'))]; sequential loop calls ['_single_shot', 'np.square'];
`_single_shot` reads ['circ', 'data', 'device_param', 'psi0', 'qubit_layout'] and calls ['_apply_gates_on_circuit', 'circ.statevector', 'np.absolute', 'np.square']; parallel-only shot arguments ['seed'], reseed guarded by their presence: ['seed']. -/
namespace QG.Gen.Determinism
open QG.Model.IntegratorCache

/-- key tuple, coerced parameters and known integrand names of `Integrator.integrate` -/
def config : Config :=
  { keyFields := [.integrand, .theta, .a]
    coerced := [.theta, .a]
    known := ["sin(theta/a)**2", "sin(theta/(2*a))**4", "sin(theta/a)*sin(theta/(2*a))**2", "sin(theta/(2*a))**2", "cos(theta/a)**2", "sin(theta/a)*cos(theta/a)", "sin(theta/a)", "cos(theta/(2*a))**2"] }
/-- the parameters handed to `_analytical_integration` / `_numerical_integration` -/
def computeArgs : List Field := [.integrand, .theta, .a]
/-- `_cache` is an instance attribute that `__init__` binds to a fresh dict (and no class-level `_cache` exists) -/
def cacheInstanceLevel : Bool := true
/-- every store, anywhere in the package, to `_cache`, `pulse_parametrization`, `use_lookup` or a lookup table:
(file, enclosing scope, attribute, kind) -/
def stateWriters : List (String × String × String × String) :=
  [("integrator.py", "Integrator", "_INTEGRAL_LOOKUP", "class-body"), ("integrator.py", "Integrator", "_RESULT_LOOKUP", "class-body"), ("integrator.py", "Integrator.__init__", "pulse_parametrization", "assign"), ("integrator.py", "Integrator.__init__", "use_lookup", "assign"), ("integrator.py", "Integrator.__init__", "_cache", "assign"), ("integrator.py", "Integrator.integrate", "_cache", "setitem")]
/-- the stores a per-instance, integrate-only cache and per-integrator constants amount to -/
def expectedStateWriters : List (String × String × String × String) :=
  [("integrator.py", "Integrator", "_INTEGRAL_LOOKUP", "class-body"), ("integrator.py", "Integrator", "_RESULT_LOOKUP", "class-body"), ("integrator.py", "Integrator.__init__", "pulse_parametrization", "assign"), ("integrator.py", "Integrator.__init__", "use_lookup", "assign"), ("integrator.py", "Integrator.__init__", "_cache", "assign"), ("integrator.py", "Integrator.integrate", "_cache", "setitem")]
/-- entropy sources / memoising decorators found in the files a sequential shot runs through, other than the modelled
`np.random.normal` / `np.random.multivariate_normal` sites of factories.py (which the symbolic execution accounts for) -/
def otherEntropySources : List String := []

/-- `__init__` attribute tables: gate factories (factories.py) and gate-set classes (gates.py) -/
def initTable : InitTable :=
  [("BitflipFactory", []),
   ("DepolarizingFactory", []),
   ("RelaxationFactory", []),
   ("SingleQubitGateFactory", [("integrator", .integratorParam)]),
   ("CRFactory", [("integrator", .integratorParam)]),
   ("XFactory", [("integrator", .integratorParam), ("constructor", .factory "SingleQubitGateFactory" true)]),
   ("SXFactory", [("integrator", .integratorParam), ("constructor", .factory "SingleQubitGateFactory" true)]),
   ("CNOTFactory", [("integrator", .integratorParam), ("cr_c", .factory "CRFactory" true), ("single_qubit_gate_c", .factory "SingleQubitGateFactory" true), ("x_c", .factory "XFactory" true), ("sx_c", .factory "SXFactory" true), ("relaxation_c", .factory "RelaxationFactory" false)]),
   ("CNOTInvFactory", [("integrator", .integratorParam), ("cr_c", .factory "CRFactory" true), ("single_qubit_gate_c", .factory "SingleQubitGateFactory" true), ("x_c", .factory "XFactory" true), ("sx_c", .factory "SXFactory" true), ("relaxation_c", .factory "RelaxationFactory" false)]),
   ("ECRFactory", [("integrator", .integratorParam), ("cr_c", .factory "CRFactory" true), ("x_c", .factory "XFactory" true), ("relaxation_c", .factory "RelaxationFactory" false)]),
   ("ECRInvFactory", [("integrator", .integratorParam), ("cr_c", .factory "CRFactory" true), ("x_c", .factory "XFactory" true), ("sx_c", .factory "SXFactory" true), ("single_qubit_gate_c", .factory "SingleQubitGateFactory" true), ("relaxation_c", .factory "RelaxationFactory" false)]),
   ("Gates", [("integrator", .newIntegrator), ("bitflip_c", .factory "BitflipFactory" false), ("depolarizing_c", .factory "DepolarizingFactory" false), ("relaxation_c", .factory "RelaxationFactory" false), ("single_qubit_gate_c", .factory "SingleQubitGateFactory" true), ("x_c", .factory "XFactory" true), ("sx_c", .factory "SXFactory" true), ("cr_c", .factory "CRFactory" true), ("cnot_c", .factory "CNOTFactory" true), ("cnot_inv_c", .factory "CNOTInvFactory" true), ("ecr_c", .factory "ECRFactory" true), ("ecr_inv_c", .factory "ECRInvFactory" true)]),
   ("NoiseFreeGates", []),
   ("ScaledNoiseGates", [("noise_scaling", .scalar), ("gates", .gateSet "Gates")])]
/-- module-level gate-set instances of gates.py (each constructor call creates its own objects) -/
def moduleInstances : List (String × String) := [("standard_gates", "Gates"), ("numerical_gates", "Gates"), ("noise_free_gates", "NoiseFreeGates"), ("almost_noise_free_gates", "ScaledNoiseGates")]

/-- draws an elementary factory's `construct` performs itself, in call order -/
def ownDraws : List (String × List Draw) :=
  [("BitflipFactory", [.normal]),
   ("DepolarizingFactory", [.normal, .normal, .normal]),
   ("RelaxationFactory", [.normal, .normal]),
   ("SingleQubitGateFactory", [.mvn 3, .mvn 3, .mvn 2, .mvn 3, .mvn 2]),
   ("CRFactory", [.mvn 2, .mvn 3, .normal, .mvn 2, .mvn 2, .mvn 2, .normal, .mvn 3, .mvn 3, .mvn 2]),
   ("XFactory", []),
   ("SXFactory", []),
   ("CNOTFactory", []),
   ("CNOTInvFactory", []),
   ("ECRFactory", []),
   ("ECRInvFactory", [])]
/-- constituent factories a composite factory's `construct` calls, in call order (class names) -/
def constituentCalls : List (String × List String) :=
  [("BitflipFactory", []),
   ("DepolarizingFactory", []),
   ("RelaxationFactory", []),
   ("SingleQubitGateFactory", []),
   ("CRFactory", []),
   ("XFactory", ["SingleQubitGateFactory"]),
   ("SXFactory", ["SingleQubitGateFactory"]),
   ("CNOTFactory", ["CRFactory", "CRFactory", "XFactory", "SXFactory", "RelaxationFactory", "SingleQubitGateFactory"]),
   ("CNOTInvFactory", ["SingleQubitGateFactory", "SingleQubitGateFactory", "SXFactory", "SXFactory", "CRFactory", "CRFactory", "XFactory", "RelaxationFactory"]),
   ("ECRFactory", ["CRFactory", "CRFactory", "XFactory", "RelaxationFactory"]),
   ("ECRInvFactory", ["CRFactory", "CRFactory", "XFactory", "RelaxationFactory", "SXFactory", "SXFactory", "SXFactory", "SXFactory"])]
/-- number of draws of the flattened script, as computed by the generator (cross-checked in QG.Props.C10) -/
def scriptLengths : List (String × Nat) :=
  [("BitflipFactory", 1), ("DepolarizingFactory", 3), ("RelaxationFactory", 2), ("SingleQubitGateFactory", 5), ("CRFactory", 10), ("XFactory", 5), ("SXFactory", 5), ("CNOTFactory", 37), ("CNOTInvFactory", 47), ("ECRFactory", 27), ("ECRInvFactory", 47)]

/-- how `_perform_simulation` builds the entries of a shot's argument dict -/
def shotArgs : List (String × ShotArg) :=
  [("data", .deepcopy), ("circ", .fresh true), ("device_param", .deepcopy), ("psi0", .deepcopy), ("qubit_layout", .deepcopy)]

end QG.Gen.Determinism
