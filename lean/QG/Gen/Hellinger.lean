import Mathlib.Analysis.SpecialFunctions.Sqrt
import Mathlib.Algebra.BigOperators.Group.Finset.Basic
/-! GENERATED on every run by harness/gen/hellinger.py from src/quantum_gates/_utility/simulations_utility.py:106
(`compute_Hellinger_distance`, source text -> IR -> this definition).  Do not edit. -/
namespace QG.Gen
open Finset

noncomputable def hellinger (p_ng p_real : ℕ → ℝ) (nqubits : ℕ) : ℝ :=
  (((1 : ℝ) / (Real.sqrt (2 : ℝ))) * (Real.sqrt ((0 : ℝ) + (∑ i ∈ Finset.range (2 ^ nqubits), (((Real.sqrt (p_real i)) - (Real.sqrt (p_ng i))) ^ 2)))))

end QG.Gen
