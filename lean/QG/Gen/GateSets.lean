import QG.Gen.Factories
/-! GENERATED on every run by harness/gen/gatesets_lean.py from src/quantum_gates/_gates/gates.py
(classes Gates, NoiseFreeGates, ScaledNoiseGates; source text -> IR -> these definitions).  Do not edit. -/
set_option linter.unusedVariables false
namespace QG.Gen
open Matrix

namespace GatesCls

/-- `Gates.relaxation` -> `RelaxationFactory.construct` -/
noncomputable def relaxation (Dt : ℝ) (T1 : ℝ) (T2 : ℝ) (w : Relaxation.Samples) : Matrix (Fin 2) (Fin 2) ℂ :=
  Relaxation.construct Dt T1 T2 w

/-- `Gates.bitflip` -> `BitflipFactory.construct` -/
noncomputable def bitflip (Dt : ℝ) (p : ℝ) (w : Bitflip.Samples) : Matrix (Fin 2) (Fin 2) ℂ :=
  Bitflip.construct Dt p w

/-- `Gates.depolarizing` -> `DepolarizingFactory.construct` -/
noncomputable def depolarizing (Dt : ℝ) (p : ℝ) (w : Depolarizing.Samples) : Matrix (Fin 2) (Fin 2) ℂ :=
  Depolarizing.construct Dt p w

/-- `Gates.single_qubit_gate` -> `SingleQubitGateFactory.construct` -/
noncomputable def single_qubit_gate (F : ℝ → ℝ) (theta : ℝ) (phi : ℝ) (p : ℝ) (T1 : ℝ) (T2 : ℝ) (w : SingleQubit.Samples) : Matrix (Fin 2) (Fin 2) ℂ :=
  SingleQubit.construct F theta phi p T1 T2 w

/-- `Gates.X` -> `XFactory.construct` -/
noncomputable def X (F : ℝ → ℝ) (phi : ℝ) (p : ℝ) (T1 : ℝ) (T2 : ℝ) (w : X.Samples) : Matrix (Fin 2) (Fin 2) ℂ :=
  X.construct F phi p T1 T2 w

/-- `Gates.SX` -> `SXFactory.construct` -/
noncomputable def SX (F : ℝ → ℝ) (phi : ℝ) (p : ℝ) (T1 : ℝ) (T2 : ℝ) (w : SX.Samples) : Matrix (Fin 2) (Fin 2) ℂ :=
  SX.construct F phi p T1 T2 w

/-- `Gates.CR` -> `CRFactory.construct` -/
noncomputable def CR (F : ℝ → ℝ) (theta : ℝ) (phi : ℝ) (t_cr : ℝ) (p_cr : ℝ) (T1_ctr : ℝ) (T2_ctr : ℝ) (T1_trg : ℝ) (T2_trg : ℝ) (w : CR.Samples) : Matrix (Fin 4) (Fin 4) ℂ :=
  CR.construct F theta phi t_cr p_cr T1_ctr T2_ctr T1_trg T2_trg w

/-- `Gates.CNOT` -> `CNOTFactory.construct` -/
noncomputable def CNOT (F : ℝ → ℝ) (phi_ctr : ℝ) (phi_trg : ℝ) (t_cnot : ℝ) (p_cnot : ℝ) (p_single_ctr : ℝ) (p_single_trg : ℝ) (T1_ctr : ℝ) (T2_ctr : ℝ) (T1_trg : ℝ) (T2_trg : ℝ) (w : CNOT.Samples) : Matrix (Fin 4) (Fin 4) ℂ :=
  CNOT.construct F phi_ctr phi_trg t_cnot p_cnot p_single_ctr p_single_trg T1_ctr T2_ctr T1_trg T2_trg w

/-- `Gates.CNOT_inv` -> `CNOTInvFactory.construct` -/
noncomputable def CNOT_inv (F : ℝ → ℝ) (phi_ctr : ℝ) (phi_trg : ℝ) (t_cnot : ℝ) (p_cnot : ℝ) (p_single_ctr : ℝ) (p_single_trg : ℝ) (T1_ctr : ℝ) (T2_ctr : ℝ) (T1_trg : ℝ) (T2_trg : ℝ) (w : CNOTInv.Samples) : Matrix (Fin 4) (Fin 4) ℂ :=
  CNOTInv.construct F phi_ctr phi_trg t_cnot p_cnot p_single_ctr p_single_trg T1_ctr T2_ctr T1_trg T2_trg w

/-- `Gates.ECR` -> `ECRFactory.construct` -/
noncomputable def ECR (F : ℝ → ℝ) (phi_ctr : ℝ) (phi_trg : ℝ) (t_ecr : ℝ) (p_ecr : ℝ) (p_single_ctr : ℝ) (p_single_trg : ℝ) (T1_ctr : ℝ) (T2_ctr : ℝ) (T1_trg : ℝ) (T2_trg : ℝ) (w : ECR.Samples) : Matrix (Fin 4) (Fin 4) ℂ :=
  ECR.construct F phi_ctr phi_trg t_ecr p_ecr p_single_ctr p_single_trg T1_ctr T2_ctr T1_trg T2_trg w

/-- `Gates.ECR_inv` -> `ECRInvFactory.construct` -/
noncomputable def ECR_inv (F : ℝ → ℝ) (phi_ctr : ℝ) (phi_trg : ℝ) (t_ecr : ℝ) (p_ecr : ℝ) (p_single_ctr : ℝ) (p_single_trg : ℝ) (T1_ctr : ℝ) (T2_ctr : ℝ) (T1_trg : ℝ) (T2_trg : ℝ) (w : ECRInv.Samples) : Matrix (Fin 4) (Fin 4) ℂ :=
  ECRInv.construct F phi_ctr phi_trg t_ecr p_ecr p_single_ctr p_single_trg T1_ctr T2_ctr T1_trg T2_trg w

attribute [qg_unfold] relaxation bitflip depolarizing single_qubit_gate X SX CR CNOT CNOT_inv ECR ECR_inv

end GatesCls

namespace NoiseFree

/-- `NoiseFreeGates.relaxation` -/
noncomputable def relaxation (Dt : ℝ) (T1 : ℝ) (T2 : ℝ) : Matrix (Fin 2) (Fin 2) ℂ :=
  !![(1 : ℂ), (0 : ℂ); (0 : ℂ), (1 : ℂ)]

/-- `NoiseFreeGates.bitflip` -/
noncomputable def bitflip (Dt : ℝ) (p : ℝ) : Matrix (Fin 2) (Fin 2) ℂ :=
  !![(1 : ℂ), (0 : ℂ); (0 : ℂ), (1 : ℂ)]

/-- `NoiseFreeGates.depolarizing` -/
noncomputable def depolarizing (Dt : ℝ) (p : ℝ) : Matrix (Fin 2) (Fin 2) ℂ :=
  !![(1 : ℂ), (0 : ℂ); (0 : ℂ), (1 : ℂ)]

/-- `NoiseFreeGates.single_qubit_gate` -/
noncomputable def single_qubit_gate (theta : ℝ) (phi : ℝ) (p : ℝ) (T1 : ℝ) (T2 : ℝ) : Matrix (Fin 2) (Fin 2) ℂ :=
  !![(Complex.cos (((theta : ℝ) : ℂ) / (2 : ℂ))), (((-Complex.I) * (Complex.sin (((theta : ℝ) : ℂ) / (2 : ℂ)))) * (Complex.exp ((-Complex.I) * ((phi : ℝ) : ℂ)))); (((-Complex.I) * (Complex.sin (((theta : ℝ) : ℂ) / (2 : ℂ)))) * (Complex.exp (Complex.I * ((phi : ℝ) : ℂ)))), (Complex.cos (((theta : ℝ) : ℂ) / (2 : ℂ)))]

noncomputable def X_.theta : ℝ :=
  Real.pi

/-- `NoiseFreeGates.X` -/
noncomputable def X (phi : ℝ) (p : ℝ) (T1 : ℝ) (T2 : ℝ) : Matrix (Fin 2) (Fin 2) ℂ :=
  !![(Complex.cos (((QG.Gen.NoiseFree.X_.theta : ℝ) : ℂ) / (2 : ℂ))), (((-Complex.I) * (Complex.sin (((QG.Gen.NoiseFree.X_.theta : ℝ) : ℂ) / (2 : ℂ)))) * (Complex.exp ((-Complex.I) * ((phi : ℝ) : ℂ)))); (((-Complex.I) * (Complex.sin (((QG.Gen.NoiseFree.X_.theta : ℝ) : ℂ) / (2 : ℂ)))) * (Complex.exp (Complex.I * ((phi : ℝ) : ℂ)))), (Complex.cos (((QG.Gen.NoiseFree.X_.theta : ℝ) : ℂ) / (2 : ℂ)))]

noncomputable def SX_.theta : ℝ :=
  (Real.pi / (2 : ℝ))

/-- `NoiseFreeGates.SX` -/
noncomputable def SX (phi : ℝ) (p : ℝ) (T1 : ℝ) (T2 : ℝ) : Matrix (Fin 2) (Fin 2) ℂ :=
  !![(Complex.cos (((QG.Gen.NoiseFree.SX_.theta : ℝ) : ℂ) / (2 : ℂ))), (((-Complex.I) * (Complex.sin (((QG.Gen.NoiseFree.SX_.theta : ℝ) : ℂ) / (2 : ℂ)))) * (Complex.exp ((-Complex.I) * ((phi : ℝ) : ℂ)))); (((-Complex.I) * (Complex.sin (((QG.Gen.NoiseFree.SX_.theta : ℝ) : ℂ) / (2 : ℂ)))) * (Complex.exp (Complex.I * ((phi : ℝ) : ℂ)))), (Complex.cos (((QG.Gen.NoiseFree.SX_.theta : ℝ) : ℂ) / (2 : ℂ)))]

/-- `NoiseFreeGates.CR` -/
noncomputable def CR (theta : ℝ) (phi : ℝ) (t_cr : ℝ) (p_cr : ℝ) (T1_ctr : ℝ) (T2_ctr : ℝ) (T1_trg : ℝ) (T2_trg : ℝ) : Matrix (Fin 4) (Fin 4) ℂ :=
  !![(Complex.cos (((theta : ℝ) : ℂ) / (2 : ℂ))), (((-Complex.I) * (Complex.sin (((theta : ℝ) : ℂ) / (2 : ℂ)))) * (Complex.exp ((-Complex.I) * ((phi : ℝ) : ℂ)))), (0 : ℂ), (0 : ℂ); (((-Complex.I) * (Complex.sin (((theta : ℝ) : ℂ) / (2 : ℂ)))) * (Complex.exp (Complex.I * ((phi : ℝ) : ℂ)))), (Complex.cos (((theta : ℝ) : ℂ) / (2 : ℂ))), (0 : ℂ), (0 : ℂ); (0 : ℂ), (0 : ℂ), (Complex.cos (((theta : ℝ) : ℂ) / (2 : ℂ))), ((Complex.I * (Complex.sin (((theta : ℝ) : ℂ) / (2 : ℂ)))) * (Complex.exp ((-Complex.I) * ((phi : ℝ) : ℂ)))); (0 : ℂ), (0 : ℂ), ((Complex.I * (Complex.sin (((theta : ℝ) : ℂ) / (2 : ℂ)))) * (Complex.exp (Complex.I * ((phi : ℝ) : ℂ)))), (Complex.cos (((theta : ℝ) : ℂ) / (2 : ℂ)))]

noncomputable def CNOT_.tg : ℝ :=
  ((7 : ℝ) / 200000000)

noncomputable def CNOT_.t_cr (t_cnot : ℝ) : ℝ :=
  ((t_cnot / (2 : ℝ)) - QG.Gen.NoiseFree.CNOT_.tg)

noncomputable def CNOT_.p_cr (p_cnot : ℝ) (p_single_ctr : ℝ) (p_single_trg : ℝ) : ℝ :=
  (((4 : ℝ) / 3) * ((1 : ℝ) - (Real.sqrt (Real.sqrt ((((1 : ℝ) - (((3 : ℝ) / 4) * p_cnot)) ^ 2) / ((((1 : ℝ) - (((3 : ℝ) / 4) * p_single_ctr)) ^ 2) * ((1 : ℝ) - (((3 : ℝ) / 4) * p_single_trg))))))))

/-- `NoiseFreeGates.CNOT` -/
noncomputable def CNOT (phi_ctr : ℝ) (phi_trg : ℝ) (t_cnot : ℝ) (p_cnot : ℝ) (p_single_ctr : ℝ) (p_single_trg : ℝ) (T1_ctr : ℝ) (T2_ctr : ℝ) (T1_trg : ℝ) (T2_trg : ℝ) : Matrix (Fin 4) (Fin 4) ℂ :=
  ((((NoiseFree.CR ((-Real.pi) / (4 : ℝ)) (-phi_trg) (QG.Gen.NoiseFree.CNOT_.t_cr t_cnot) (QG.Gen.NoiseFree.CNOT_.p_cr p_cnot p_single_ctr p_single_trg) T1_ctr T2_ctr T1_trg T2_trg) * (QG.Spec.kron2 (NoiseFree.X ((-phi_ctr) + (Real.pi / (2 : ℝ))) p_single_ctr T1_ctr T2_ctr) (NoiseFree.relaxation QG.Gen.NoiseFree.CNOT_.tg T1_trg T2_trg))) * (NoiseFree.CR (Real.pi / (4 : ℝ)) (-phi_trg) (QG.Gen.NoiseFree.CNOT_.t_cr t_cnot) (QG.Gen.NoiseFree.CNOT_.p_cr p_cnot p_single_ctr p_single_trg) T1_ctr T2_ctr T1_trg T2_trg)) * (QG.Spec.kron2 (NoiseFree.single_qubit_gate (-Real.pi) (((-phi_ctr) + (Real.pi / (2 : ℝ))) + (Real.pi / (2 : ℝ))) p_single_ctr T1_ctr T2_ctr) (NoiseFree.SX (-phi_trg) p_single_trg T1_trg T2_trg)))

noncomputable def CNOT_inv_.tg : ℝ :=
  ((7 : ℝ) / 200000000)

noncomputable def CNOT_inv_.t_cr (t_cnot : ℝ) : ℝ :=
  ((t_cnot - ((3 : ℝ) * QG.Gen.NoiseFree.CNOT_inv_.tg)) / (2 : ℝ))

noncomputable def CNOT_inv_.p_cr (p_cnot : ℝ) (p_single_ctr : ℝ) (p_single_trg : ℝ) : ℝ :=
  (((4 : ℝ) / 3) * ((1 : ℝ) - (Real.sqrt (Real.sqrt ((((1 : ℝ) - (((3 : ℝ) / 4) * p_cnot)) ^ 2) / ((((1 : ℝ) - (((3 : ℝ) / 4) * p_single_ctr)) ^ 2) * (((1 : ℝ) - (((3 : ℝ) / 4) * p_single_trg)) ^ 3)))))))

/-- `NoiseFreeGates.CNOT_inv` -/
noncomputable def CNOT_inv (phi_ctr : ℝ) (phi_trg : ℝ) (t_cnot : ℝ) (p_cnot : ℝ) (p_single_ctr : ℝ) (p_single_trg : ℝ) (T1_ctr : ℝ) (T2_ctr : ℝ) (T1_trg : ℝ) (T2_trg : ℝ) : Matrix (Fin 4) (Fin 4) ℂ :=
  (((((QG.Spec.kron2 (NoiseFree.single_qubit_gate ((-Real.pi) / (2 : ℝ)) (((-phi_trg) - (Real.pi / (2 : ℝ))) + (Real.pi / (2 : ℝ))) p_single_trg T1_trg T2_trg) (NoiseFree.SX (((-phi_ctr) - Real.pi) - (Real.pi / (2 : ℝ))) p_single_ctr T1_ctr T2_ctr)) * (NoiseFree.CR ((-Real.pi) / (4 : ℝ)) ((-phi_ctr) - Real.pi) (QG.Gen.NoiseFree.CNOT_inv_.t_cr t_cnot) (QG.Gen.NoiseFree.CNOT_inv_.p_cr p_cnot p_single_ctr p_single_trg) T1_trg T2_trg T1_ctr T2_ctr)) * (QG.Spec.kron2 (NoiseFree.X ((-phi_trg) - (Real.pi / (2 : ℝ))) p_single_trg T1_trg T2_trg) (NoiseFree.relaxation QG.Gen.NoiseFree.CNOT_inv_.tg T1_ctr T2_ctr))) * (NoiseFree.CR (Real.pi / (4 : ℝ)) ((-phi_ctr) - Real.pi) (QG.Gen.NoiseFree.CNOT_inv_.t_cr t_cnot) (QG.Gen.NoiseFree.CNOT_inv_.p_cr p_cnot p_single_ctr p_single_trg) T1_trg T2_trg T1_ctr T2_ctr)) * (QG.Spec.kron2 (NoiseFree.SX ((-phi_trg) - (Real.pi / (2 : ℝ))) p_single_ctr T1_ctr T2_ctr) (NoiseFree.single_qubit_gate (Real.pi / (2 : ℝ)) (((-phi_ctr) - Real.pi) + (Real.pi / (2 : ℝ))) p_single_ctr T1_ctr T2_ctr)))

noncomputable def ECR_.tg : ℝ :=
  ((7 : ℝ) / 200000000)

noncomputable def ECR_.t_cr (t_ecr : ℝ) : ℝ :=
  ((t_ecr / (2 : ℝ)) - QG.Gen.NoiseFree.ECR_.tg)

noncomputable def ECR_.p_cr (p_ecr : ℝ) (p_single_ctr : ℝ) (p_single_trg : ℝ) : ℝ :=
  (((4 : ℝ) / 3) * ((1 : ℝ) - (Real.sqrt (Real.sqrt ((((1 : ℝ) - (((3 : ℝ) / 4) * p_ecr)) ^ 2) / ((((1 : ℝ) - (((3 : ℝ) / 4) * p_single_ctr)) ^ 2) * ((1 : ℝ) - (((3 : ℝ) / 4) * p_single_trg))))))))

/-- `NoiseFreeGates.ECR` -/
noncomputable def ECR (phi_ctr : ℝ) (phi_trg : ℝ) (t_ecr : ℝ) (p_ecr : ℝ) (p_single_ctr : ℝ) (p_single_trg : ℝ) (T1_ctr : ℝ) (T2_ctr : ℝ) (T1_trg : ℝ) (T2_trg : ℝ) : Matrix (Fin 4) (Fin 4) ℂ :=
  (((NoiseFree.CR (Real.pi / (4 : ℝ)) (Real.pi - phi_trg) (QG.Gen.NoiseFree.ECR_.t_cr t_ecr) (QG.Gen.NoiseFree.ECR_.p_cr p_ecr p_single_ctr p_single_trg) T1_ctr T2_ctr T1_trg T2_trg) * (QG.Spec.kron2 ((-Complex.I) • (NoiseFree.X (Real.pi - phi_ctr) p_single_ctr T1_ctr T2_ctr)) (NoiseFree.relaxation QG.Gen.NoiseFree.ECR_.tg T1_trg T2_trg))) * (NoiseFree.CR ((-Real.pi) / (4 : ℝ)) (Real.pi - phi_trg) (QG.Gen.NoiseFree.ECR_.t_cr t_ecr) (QG.Gen.NoiseFree.ECR_.p_cr p_ecr p_single_ctr p_single_trg) T1_ctr T2_ctr T1_trg T2_trg))

noncomputable def ECR_inv_.tg : ℝ :=
  ((7 : ℝ) / 200000000)

noncomputable def ECR_inv_.t_cr (t_ecr : ℝ) : ℝ :=
  ((t_ecr / (2 : ℝ)) - QG.Gen.NoiseFree.ECR_inv_.tg)

noncomputable def ECR_inv_.p_cr (p_ecr : ℝ) (p_single_ctr : ℝ) (p_single_trg : ℝ) : ℝ :=
  (((4 : ℝ) / 3) * ((1 : ℝ) - (Real.sqrt (Real.sqrt ((((1 : ℝ) - (((3 : ℝ) / 4) * p_ecr)) ^ 2) / ((((1 : ℝ) - (((3 : ℝ) / 4) * p_single_ctr)) ^ 2) * ((1 : ℝ) - (((3 : ℝ) / 4) * p_single_trg))))))))

/-- `NoiseFreeGates.ECR_inv` -/
noncomputable def ECR_inv (phi_ctr : ℝ) (phi_trg : ℝ) (t_ecr : ℝ) (p_ecr : ℝ) (p_single_ctr : ℝ) (p_single_trg : ℝ) (T1_ctr : ℝ) (T2_ctr : ℝ) (T1_trg : ℝ) (T2_trg : ℝ) : Matrix (Fin 4) (Fin 4) ℂ :=
  (((Complex.I • (QG.Spec.kron2 (NoiseFree.SX (((-Real.pi) / (2 : ℝ)) - phi_ctr) p_single_ctr T1_ctr T2_ctr) (NoiseFree.SX (((-Real.pi) / (2 : ℝ)) - phi_trg) p_single_trg T1_trg T2_trg))) * (((NoiseFree.CR (Real.pi / (4 : ℝ)) (Real.pi - phi_trg) (QG.Gen.NoiseFree.ECR_inv_.t_cr t_ecr) (QG.Gen.NoiseFree.ECR_inv_.p_cr p_ecr p_single_ctr p_single_trg) T1_ctr T2_ctr T1_trg T2_trg) * (QG.Spec.kron2 ((-Complex.I) • (NoiseFree.X (Real.pi - phi_ctr) p_single_ctr T1_ctr T2_ctr)) (NoiseFree.relaxation QG.Gen.NoiseFree.ECR_inv_.tg T1_trg T2_trg))) * (NoiseFree.CR ((-Real.pi) / (4 : ℝ)) (Real.pi - phi_trg) (QG.Gen.NoiseFree.ECR_inv_.t_cr t_ecr) (QG.Gen.NoiseFree.ECR_inv_.p_cr p_ecr p_single_ctr p_single_trg) T1_ctr T2_ctr T1_trg T2_trg))) * (QG.Spec.kron2 (NoiseFree.SX (((-Real.pi) / (2 : ℝ)) - phi_ctr) p_single_ctr T1_ctr T2_ctr) (NoiseFree.SX (((-Real.pi) / (2 : ℝ)) - phi_trg) p_single_trg T1_trg T2_trg)))

attribute [qg_unfold] relaxation bitflip depolarizing single_qubit_gate X_.theta X SX_.theta SX CR CNOT_.tg CNOT_.t_cr CNOT_.p_cr CNOT CNOT_inv_.tg CNOT_inv_.t_cr CNOT_inv_.p_cr CNOT_inv ECR_.tg ECR_.t_cr ECR_.p_cr ECR ECR_inv_.tg ECR_inv_.t_cr ECR_inv_.p_cr ECR_inv

end NoiseFree

namespace Scaled

/-- `ScaledNoiseGates.relaxation` -> `Gates.relaxation` with scaled noise arguments -/
noncomputable def relaxation (noise_scaling : ℝ) (Dt : ℝ) (T1 : ℝ) (T2 : ℝ) (w : Relaxation.Samples) : Matrix (Fin 2) (Fin 2) ℂ :=
  GatesCls.relaxation Dt (T1 / noise_scaling) (T2 / noise_scaling) w

/-- `ScaledNoiseGates.bitflip` -> `Gates.bitflip` with scaled noise arguments -/
noncomputable def bitflip (noise_scaling : ℝ) (Dt : ℝ) (p : ℝ) (w : Bitflip.Samples) : Matrix (Fin 2) (Fin 2) ℂ :=
  GatesCls.bitflip Dt (p * noise_scaling) w

/-- `ScaledNoiseGates.depolarizing` -> `Gates.depolarizing` with scaled noise arguments -/
noncomputable def depolarizing (noise_scaling : ℝ) (Dt : ℝ) (p : ℝ) (w : Depolarizing.Samples) : Matrix (Fin 2) (Fin 2) ℂ :=
  GatesCls.depolarizing Dt (p * noise_scaling) w

/-- `ScaledNoiseGates.single_qubit_gate` -> `Gates.single_qubit_gate` with scaled noise arguments -/
noncomputable def single_qubit_gate (F : ℝ → ℝ) (noise_scaling : ℝ) (theta : ℝ) (phi : ℝ) (p : ℝ) (T1 : ℝ) (T2 : ℝ) (w : SingleQubit.Samples) : Matrix (Fin 2) (Fin 2) ℂ :=
  GatesCls.single_qubit_gate F theta phi (p * noise_scaling) (T1 / noise_scaling) (T2 / noise_scaling) w

/-- `ScaledNoiseGates.X` -> `Gates.X` with scaled noise arguments -/
noncomputable def X (F : ℝ → ℝ) (noise_scaling : ℝ) (phi : ℝ) (p : ℝ) (T1 : ℝ) (T2 : ℝ) (w : X.Samples) : Matrix (Fin 2) (Fin 2) ℂ :=
  GatesCls.X F phi (p * noise_scaling) (T1 / noise_scaling) (T2 / noise_scaling) w

/-- `ScaledNoiseGates.SX` -> `Gates.SX` with scaled noise arguments -/
noncomputable def SX (F : ℝ → ℝ) (noise_scaling : ℝ) (phi : ℝ) (p : ℝ) (T1 : ℝ) (T2 : ℝ) (w : SX.Samples) : Matrix (Fin 2) (Fin 2) ℂ :=
  GatesCls.SX F phi (p * noise_scaling) (T1 / noise_scaling) (T2 / noise_scaling) w

/-- `ScaledNoiseGates.CR` -> `Gates.CR` with scaled noise arguments -/
noncomputable def CR (F : ℝ → ℝ) (noise_scaling : ℝ) (theta : ℝ) (phi : ℝ) (t_cr : ℝ) (p_cr : ℝ) (T1_ctr : ℝ) (T2_ctr : ℝ) (T1_trg : ℝ) (T2_trg : ℝ) (w : CR.Samples) : Matrix (Fin 4) (Fin 4) ℂ :=
  GatesCls.CR F theta phi t_cr (p_cr * noise_scaling) (T1_ctr / noise_scaling) (T2_ctr / noise_scaling) (T1_trg / noise_scaling) (T2_trg / noise_scaling) w

/-- `ScaledNoiseGates.CNOT` -> `Gates.CNOT` with scaled noise arguments -/
noncomputable def CNOT (F : ℝ → ℝ) (noise_scaling : ℝ) (phi_ctr : ℝ) (phi_trg : ℝ) (t_cnot : ℝ) (p_cnot : ℝ) (p_single_ctr : ℝ) (p_single_trg : ℝ) (T1_ctr : ℝ) (T2_ctr : ℝ) (T1_trg : ℝ) (T2_trg : ℝ) (w : CNOT.Samples) : Matrix (Fin 4) (Fin 4) ℂ :=
  GatesCls.CNOT F phi_ctr phi_trg t_cnot (p_cnot * noise_scaling) (p_single_ctr * noise_scaling) (p_single_trg * noise_scaling) (T1_ctr / noise_scaling) (T2_ctr / noise_scaling) (T1_trg / noise_scaling) (T2_trg / noise_scaling) w

/-- `ScaledNoiseGates.CNOT_inv` -> `Gates.CNOT_inv` with scaled noise arguments -/
noncomputable def CNOT_inv (F : ℝ → ℝ) (noise_scaling : ℝ) (phi_ctr : ℝ) (phi_trg : ℝ) (t_cnot : ℝ) (p_cnot : ℝ) (p_single_ctr : ℝ) (p_single_trg : ℝ) (T1_ctr : ℝ) (T2_ctr : ℝ) (T1_trg : ℝ) (T2_trg : ℝ) (w : CNOTInv.Samples) : Matrix (Fin 4) (Fin 4) ℂ :=
  GatesCls.CNOT_inv F phi_ctr phi_trg t_cnot (p_cnot * noise_scaling) (p_single_ctr * noise_scaling) (p_single_trg * noise_scaling) (T1_ctr / noise_scaling) (T2_ctr / noise_scaling) (T1_trg / noise_scaling) (T2_trg / noise_scaling) w

/-- `ScaledNoiseGates.ECR` -> `Gates.ECR` with scaled noise arguments -/
noncomputable def ECR (F : ℝ → ℝ) (noise_scaling : ℝ) (phi_ctr : ℝ) (phi_trg : ℝ) (t_ecr : ℝ) (p_ecr : ℝ) (p_single_ctr : ℝ) (p_single_trg : ℝ) (T1_ctr : ℝ) (T2_ctr : ℝ) (T1_trg : ℝ) (T2_trg : ℝ) (w : ECR.Samples) : Matrix (Fin 4) (Fin 4) ℂ :=
  GatesCls.ECR F phi_ctr phi_trg t_ecr (p_ecr * noise_scaling) (p_single_ctr * noise_scaling) (p_single_trg * noise_scaling) (T1_ctr / noise_scaling) (T2_ctr / noise_scaling) (T1_trg / noise_scaling) (T2_trg / noise_scaling) w

/-- `ScaledNoiseGates.ECR_inv` -> `Gates.ECR_inv` with scaled noise arguments -/
noncomputable def ECR_inv (F : ℝ → ℝ) (noise_scaling : ℝ) (phi_ctr : ℝ) (phi_trg : ℝ) (t_ecr : ℝ) (p_ecr : ℝ) (p_single_ctr : ℝ) (p_single_trg : ℝ) (T1_ctr : ℝ) (T2_ctr : ℝ) (T1_trg : ℝ) (T2_trg : ℝ) (w : ECRInv.Samples) : Matrix (Fin 4) (Fin 4) ℂ :=
  GatesCls.ECR_inv F phi_ctr phi_trg t_ecr (p_ecr * noise_scaling) (p_single_ctr * noise_scaling) (p_single_trg * noise_scaling) (T1_ctr / noise_scaling) (T2_ctr / noise_scaling) (T1_trg / noise_scaling) (T2_trg / noise_scaling) w

attribute [qg_unfold] relaxation bitflip depolarizing single_qubit_gate X SX CR CNOT CNOT_inv ECR ECR_inv

end Scaled

end QG.Gen
