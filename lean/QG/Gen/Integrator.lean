import Mathlib.Analysis.SpecialFunctions.Integrals.Basic
/-! GENERATED on every run by harness/gen/integrator.py from src/quantum_gates/_gates/integrator.py (source text -> IR -> these definitions).
Do not edit.

`integrate` (line 52): parameters ('integrand', 'theta', 'a'); cache key ('integrand', 'theta', 'a') (read and written 2x under the same tuple; `cached = uncached` is C10);
input validation ['integrand in self._INTEGRAL_LOOKUP.keys()', 'a > 0']; dispatch `if self.use_lookup` -> self._analytical_integration else self._numerical_integration.
First statement `theta, a = float(theta), float(a)`: the identity on the real numbers the arguments denote (it only fixes the Python type seen by the cache key, C10).
`__init__`: {'pulse_parametrization': 'pulse.get_parametrization()', 'use_lookup': 'pulse.use_lookup', '_cache': 'dict()'}.
pulse.py: {'ConstantPulse': {'parametrization': 'identity', 'use_lookup': True}, 'ConstantPulseNumerical': {'parametrization': 'identity', 'use_lookup': False}, 'GaussianPulse': {'parametrization': 'self._gaussian_parametrization', 'use_lookup': False}}; `identity(x)` returns `x`; `get_parametrization` returns the stored callable.
`F` stands for `self.pulse_parametrization`.  `*_defined_*` is the conjunction of `denominator ≠ 0` over every division
the expression performs (numpy evaluates 0/0 to nan; Lean's `x / 0 = 0` must not hide that). -/
set_option linter.unusedVariables false
namespace QG.Gen.Integrator
noncomputable section

/-! ### key "sin(theta/a)**2" -/
/-- `_INTEGRAL_LOOKUP["sin(theta/a)**2"]` (integrator.py:25) -/
def integrand_sin_sq (theta a : ℝ) : ℝ :=
  ((Real.sin (theta / a)) ^ 2)
def integrand_defined_sin_sq (theta a : ℝ) : Prop :=
  a ≠ 0
/-- `_RESULT_LOOKUP["sin(theta/a)**2"]` (integrator.py:37) -/
def result_sin_sq (theta a : ℝ) : ℝ :=
  ((a * (((2 : ℝ) * theta) - (Real.sin ((2 : ℝ) * theta)))) / ((4 : ℝ) * theta))
def result_defined_sin_sq (theta a : ℝ) : Prop :=
  ((4 : ℝ) * theta) ≠ 0
/-- value returned by `_analytical_integration("sin(theta/a)**2", theta, a)` (line 92) -/
def analytic_sin_sq (theta a : ℝ) : ℝ :=
  (if theta = (0 : ℝ) then (a * ((Real.sin ((0 : ℝ) / a)) ^ 2)) else ((a * (((2 : ℝ) * theta) - (Real.sin ((2 : ℝ) * theta)))) / ((4 : ℝ) * theta)))
def analytic_defined_sin_sq (theta a : ℝ) : Prop :=
  (if theta = (0 : ℝ) then a ≠ 0 else ((4 : ℝ) * theta) ≠ 0)
/-- the function `_numerical_integration("sin(theta/a)**2", theta, a)` (line 109) hands to `scipy.integrate.quad`, at `t` -/
def numeric_integrand_sin_sq (F : ℝ → ℝ) (theta a t : ℝ) : ℝ :=
  ((Real.sin ((((F (t / a)) * theta) * a) / a)) ^ 2)
def numeric_integrand_defined_sin_sq (F : ℝ → ℝ) (theta a t : ℝ) : Prop :=
  a ≠ 0
/-- the value component of `scipy.integrate.quad(<that function>, (0 : ℝ), a)`, read as the integral (assumption on scipy) -/
def numeric_sin_sq (F : ℝ → ℝ) (theta a : ℝ) : ℝ :=
  ∫ t in ((0 : ℝ))..(a), numeric_integrand_sin_sq F theta a t
/-- `integrate("sin(theta/a)**2", theta, a)` on a cold cache, for an input that passes the validation (`a > 0`) -/
def integrate_sin_sq (use_lookup : Bool) (F : ℝ → ℝ) (theta a : ℝ) : ℝ :=
  if use_lookup then analytic_sin_sq theta a else numeric_sin_sq F theta a

/-! ### key "sin(theta/(2*a))**4" -/
/-- `_INTEGRAL_LOOKUP["sin(theta/(2*a))**4"]` (integrator.py:26) -/
def integrand_sin_half_pow4 (theta a : ℝ) : ℝ :=
  ((Real.sin (theta / ((2 : ℝ) * a))) ^ 4)
def integrand_defined_sin_half_pow4 (theta a : ℝ) : Prop :=
  ((2 : ℝ) * a) ≠ 0
/-- `_RESULT_LOOKUP["sin(theta/(2*a))**4"]` (integrator.py:38) -/
def result_sin_half_pow4 (theta a : ℝ) : ℝ :=
  ((a * ((((6 : ℝ) * theta) - ((8 : ℝ) * (Real.sin theta))) + (Real.sin ((2 : ℝ) * theta)))) / ((16 : ℝ) * theta))
def result_defined_sin_half_pow4 (theta a : ℝ) : Prop :=
  ((16 : ℝ) * theta) ≠ 0
/-- value returned by `_analytical_integration("sin(theta/(2*a))**4", theta, a)` (line 92) -/
def analytic_sin_half_pow4 (theta a : ℝ) : ℝ :=
  (if theta = (0 : ℝ) then (a * ((Real.sin ((0 : ℝ) / ((2 : ℝ) * a))) ^ 4)) else ((a * ((((6 : ℝ) * theta) - ((8 : ℝ) * (Real.sin theta))) + (Real.sin ((2 : ℝ) * theta)))) / ((16 : ℝ) * theta)))
def analytic_defined_sin_half_pow4 (theta a : ℝ) : Prop :=
  (if theta = (0 : ℝ) then ((2 : ℝ) * a) ≠ 0 else ((16 : ℝ) * theta) ≠ 0)
/-- the function `_numerical_integration("sin(theta/(2*a))**4", theta, a)` (line 109) hands to `scipy.integrate.quad`, at `t` -/
def numeric_integrand_sin_half_pow4 (F : ℝ → ℝ) (theta a t : ℝ) : ℝ :=
  ((Real.sin ((((F (t / a)) * theta) * a) / ((2 : ℝ) * a))) ^ 4)
def numeric_integrand_defined_sin_half_pow4 (F : ℝ → ℝ) (theta a t : ℝ) : Prop :=
  a ≠ 0 ∧ ((2 : ℝ) * a) ≠ 0
/-- the value component of `scipy.integrate.quad(<that function>, (0 : ℝ), a)`, read as the integral (assumption on scipy) -/
def numeric_sin_half_pow4 (F : ℝ → ℝ) (theta a : ℝ) : ℝ :=
  ∫ t in ((0 : ℝ))..(a), numeric_integrand_sin_half_pow4 F theta a t
/-- `integrate("sin(theta/(2*a))**4", theta, a)` on a cold cache, for an input that passes the validation (`a > 0`) -/
def integrate_sin_half_pow4 (use_lookup : Bool) (F : ℝ → ℝ) (theta a : ℝ) : ℝ :=
  if use_lookup then analytic_sin_half_pow4 theta a else numeric_sin_half_pow4 F theta a

/-! ### key "sin(theta/a)*sin(theta/(2*a))**2" -/
/-- `_INTEGRAL_LOOKUP["sin(theta/a)*sin(theta/(2*a))**2"]` (integrator.py:27) -/
def integrand_sin_mul_sin_half_sq (theta a : ℝ) : ℝ :=
  ((Real.sin (theta / a)) * ((Real.sin (theta / ((2 : ℝ) * a))) ^ 2))
def integrand_defined_sin_mul_sin_half_sq (theta a : ℝ) : Prop :=
  a ≠ 0 ∧ ((2 : ℝ) * a) ≠ 0
/-- `_RESULT_LOOKUP["sin(theta/a)*sin(theta/(2*a))**2"]` (integrator.py:39) -/
def result_sin_mul_sin_half_sq (theta a : ℝ) : ℝ :=
  ((a * ((Real.sin (theta / (2 : ℝ))) ^ 4)) / theta)
def result_defined_sin_mul_sin_half_sq (theta a : ℝ) : Prop :=
  (2 : ℝ) ≠ 0 ∧ theta ≠ 0
/-- value returned by `_analytical_integration("sin(theta/a)*sin(theta/(2*a))**2", theta, a)` (line 92) -/
def analytic_sin_mul_sin_half_sq (theta a : ℝ) : ℝ :=
  (if theta = (0 : ℝ) then (a * ((Real.sin ((0 : ℝ) / a)) * ((Real.sin ((0 : ℝ) / ((2 : ℝ) * a))) ^ 2))) else ((a * ((Real.sin (theta / (2 : ℝ))) ^ 4)) / theta))
def analytic_defined_sin_mul_sin_half_sq (theta a : ℝ) : Prop :=
  (if theta = (0 : ℝ) then a ≠ 0 ∧ ((2 : ℝ) * a) ≠ 0 else (2 : ℝ) ≠ 0 ∧ theta ≠ 0)
/-- the function `_numerical_integration("sin(theta/a)*sin(theta/(2*a))**2", theta, a)` (line 109) hands to `scipy.integrate.quad`, at `t` -/
def numeric_integrand_sin_mul_sin_half_sq (F : ℝ → ℝ) (theta a t : ℝ) : ℝ :=
  ((Real.sin ((((F (t / a)) * theta) * a) / a)) * ((Real.sin ((((F (t / a)) * theta) * a) / ((2 : ℝ) * a))) ^ 2))
def numeric_integrand_defined_sin_mul_sin_half_sq (F : ℝ → ℝ) (theta a t : ℝ) : Prop :=
  a ≠ 0 ∧ ((2 : ℝ) * a) ≠ 0
/-- the value component of `scipy.integrate.quad(<that function>, (0 : ℝ), a)`, read as the integral (assumption on scipy) -/
def numeric_sin_mul_sin_half_sq (F : ℝ → ℝ) (theta a : ℝ) : ℝ :=
  ∫ t in ((0 : ℝ))..(a), numeric_integrand_sin_mul_sin_half_sq F theta a t
/-- `integrate("sin(theta/a)*sin(theta/(2*a))**2", theta, a)` on a cold cache, for an input that passes the validation (`a > 0`) -/
def integrate_sin_mul_sin_half_sq (use_lookup : Bool) (F : ℝ → ℝ) (theta a : ℝ) : ℝ :=
  if use_lookup then analytic_sin_mul_sin_half_sq theta a else numeric_sin_mul_sin_half_sq F theta a

/-! ### key "sin(theta/(2*a))**2" -/
/-- `_INTEGRAL_LOOKUP["sin(theta/(2*a))**2"]` (integrator.py:28) -/
def integrand_sin_half_sq (theta a : ℝ) : ℝ :=
  ((Real.sin (theta / ((2 : ℝ) * a))) ^ 2)
def integrand_defined_sin_half_sq (theta a : ℝ) : Prop :=
  ((2 : ℝ) * a) ≠ 0
/-- `_RESULT_LOOKUP["sin(theta/(2*a))**2"]` (integrator.py:40) -/
def result_sin_half_sq (theta a : ℝ) : ℝ :=
  ((a * (theta - (Real.sin theta))) / ((2 : ℝ) * theta))
def result_defined_sin_half_sq (theta a : ℝ) : Prop :=
  ((2 : ℝ) * theta) ≠ 0
/-- value returned by `_analytical_integration("sin(theta/(2*a))**2", theta, a)` (line 92) -/
def analytic_sin_half_sq (theta a : ℝ) : ℝ :=
  (if theta = (0 : ℝ) then (a * ((Real.sin ((0 : ℝ) / ((2 : ℝ) * a))) ^ 2)) else ((a * (theta - (Real.sin theta))) / ((2 : ℝ) * theta)))
def analytic_defined_sin_half_sq (theta a : ℝ) : Prop :=
  (if theta = (0 : ℝ) then ((2 : ℝ) * a) ≠ 0 else ((2 : ℝ) * theta) ≠ 0)
/-- the function `_numerical_integration("sin(theta/(2*a))**2", theta, a)` (line 109) hands to `scipy.integrate.quad`, at `t` -/
def numeric_integrand_sin_half_sq (F : ℝ → ℝ) (theta a t : ℝ) : ℝ :=
  ((Real.sin ((((F (t / a)) * theta) * a) / ((2 : ℝ) * a))) ^ 2)
def numeric_integrand_defined_sin_half_sq (F : ℝ → ℝ) (theta a t : ℝ) : Prop :=
  a ≠ 0 ∧ ((2 : ℝ) * a) ≠ 0
/-- the value component of `scipy.integrate.quad(<that function>, (0 : ℝ), a)`, read as the integral (assumption on scipy) -/
def numeric_sin_half_sq (F : ℝ → ℝ) (theta a : ℝ) : ℝ :=
  ∫ t in ((0 : ℝ))..(a), numeric_integrand_sin_half_sq F theta a t
/-- `integrate("sin(theta/(2*a))**2", theta, a)` on a cold cache, for an input that passes the validation (`a > 0`) -/
def integrate_sin_half_sq (use_lookup : Bool) (F : ℝ → ℝ) (theta a : ℝ) : ℝ :=
  if use_lookup then analytic_sin_half_sq theta a else numeric_sin_half_sq F theta a

/-! ### key "cos(theta/a)**2" -/
/-- `_INTEGRAL_LOOKUP["cos(theta/a)**2"]` (integrator.py:29) -/
def integrand_cos_sq (theta a : ℝ) : ℝ :=
  ((Real.cos (theta / a)) ^ 2)
def integrand_defined_cos_sq (theta a : ℝ) : Prop :=
  a ≠ 0
/-- `_RESULT_LOOKUP["cos(theta/a)**2"]` (integrator.py:41) -/
def result_cos_sq (theta a : ℝ) : ℝ :=
  ((a * (((2 : ℝ) * theta) + (Real.sin ((2 : ℝ) * theta)))) / ((4 : ℝ) * theta))
def result_defined_cos_sq (theta a : ℝ) : Prop :=
  ((4 : ℝ) * theta) ≠ 0
/-- value returned by `_analytical_integration("cos(theta/a)**2", theta, a)` (line 92) -/
def analytic_cos_sq (theta a : ℝ) : ℝ :=
  (if theta = (0 : ℝ) then (a * ((Real.cos ((0 : ℝ) / a)) ^ 2)) else ((a * (((2 : ℝ) * theta) + (Real.sin ((2 : ℝ) * theta)))) / ((4 : ℝ) * theta)))
def analytic_defined_cos_sq (theta a : ℝ) : Prop :=
  (if theta = (0 : ℝ) then a ≠ 0 else ((4 : ℝ) * theta) ≠ 0)
/-- the function `_numerical_integration("cos(theta/a)**2", theta, a)` (line 109) hands to `scipy.integrate.quad`, at `t` -/
def numeric_integrand_cos_sq (F : ℝ → ℝ) (theta a t : ℝ) : ℝ :=
  ((Real.cos ((((F (t / a)) * theta) * a) / a)) ^ 2)
def numeric_integrand_defined_cos_sq (F : ℝ → ℝ) (theta a t : ℝ) : Prop :=
  a ≠ 0
/-- the value component of `scipy.integrate.quad(<that function>, (0 : ℝ), a)`, read as the integral (assumption on scipy) -/
def numeric_cos_sq (F : ℝ → ℝ) (theta a : ℝ) : ℝ :=
  ∫ t in ((0 : ℝ))..(a), numeric_integrand_cos_sq F theta a t
/-- `integrate("cos(theta/a)**2", theta, a)` on a cold cache, for an input that passes the validation (`a > 0`) -/
def integrate_cos_sq (use_lookup : Bool) (F : ℝ → ℝ) (theta a : ℝ) : ℝ :=
  if use_lookup then analytic_cos_sq theta a else numeric_cos_sq F theta a

/-! ### key "sin(theta/a)*cos(theta/a)" -/
/-- `_INTEGRAL_LOOKUP["sin(theta/a)*cos(theta/a)"]` (integrator.py:30) -/
def integrand_sin_mul_cos (theta a : ℝ) : ℝ :=
  ((Real.sin (theta / a)) * (Real.cos (theta / a)))
def integrand_defined_sin_mul_cos (theta a : ℝ) : Prop :=
  a ≠ 0
/-- `_RESULT_LOOKUP["sin(theta/a)*cos(theta/a)"]` (integrator.py:42) -/
def result_sin_mul_cos (theta a : ℝ) : ℝ :=
  ((a * ((Real.sin theta) ^ 2)) / ((2 : ℝ) * theta))
def result_defined_sin_mul_cos (theta a : ℝ) : Prop :=
  ((2 : ℝ) * theta) ≠ 0
/-- value returned by `_analytical_integration("sin(theta/a)*cos(theta/a)", theta, a)` (line 92) -/
def analytic_sin_mul_cos (theta a : ℝ) : ℝ :=
  (if theta = (0 : ℝ) then (a * ((Real.sin ((0 : ℝ) / a)) * (Real.cos ((0 : ℝ) / a)))) else ((a * ((Real.sin theta) ^ 2)) / ((2 : ℝ) * theta)))
def analytic_defined_sin_mul_cos (theta a : ℝ) : Prop :=
  (if theta = (0 : ℝ) then a ≠ 0 ∧ a ≠ 0 else ((2 : ℝ) * theta) ≠ 0)
/-- the function `_numerical_integration("sin(theta/a)*cos(theta/a)", theta, a)` (line 109) hands to `scipy.integrate.quad`, at `t` -/
def numeric_integrand_sin_mul_cos (F : ℝ → ℝ) (theta a t : ℝ) : ℝ :=
  ((Real.sin ((((F (t / a)) * theta) * a) / a)) * (Real.cos ((((F (t / a)) * theta) * a) / a)))
def numeric_integrand_defined_sin_mul_cos (F : ℝ → ℝ) (theta a t : ℝ) : Prop :=
  a ≠ 0
/-- the value component of `scipy.integrate.quad(<that function>, (0 : ℝ), a)`, read as the integral (assumption on scipy) -/
def numeric_sin_mul_cos (F : ℝ → ℝ) (theta a : ℝ) : ℝ :=
  ∫ t in ((0 : ℝ))..(a), numeric_integrand_sin_mul_cos F theta a t
/-- `integrate("sin(theta/a)*cos(theta/a)", theta, a)` on a cold cache, for an input that passes the validation (`a > 0`) -/
def integrate_sin_mul_cos (use_lookup : Bool) (F : ℝ → ℝ) (theta a : ℝ) : ℝ :=
  if use_lookup then analytic_sin_mul_cos theta a else numeric_sin_mul_cos F theta a

/-! ### key "sin(theta/a)" -/
/-- `_INTEGRAL_LOOKUP["sin(theta/a)"]` (integrator.py:31) -/
def integrand_sin (theta a : ℝ) : ℝ :=
  (Real.sin (theta / a))
def integrand_defined_sin (theta a : ℝ) : Prop :=
  a ≠ 0
/-- `_RESULT_LOOKUP["sin(theta/a)"]` (integrator.py:43) -/
def result_sin (theta a : ℝ) : ℝ :=
  ((a * ((1 : ℝ) - (Real.cos theta))) / theta)
def result_defined_sin (theta a : ℝ) : Prop :=
  theta ≠ 0
/-- value returned by `_analytical_integration("sin(theta/a)", theta, a)` (line 92) -/
def analytic_sin (theta a : ℝ) : ℝ :=
  (if theta = (0 : ℝ) then (a * (Real.sin ((0 : ℝ) / a))) else ((a * ((1 : ℝ) - (Real.cos theta))) / theta))
def analytic_defined_sin (theta a : ℝ) : Prop :=
  (if theta = (0 : ℝ) then a ≠ 0 else theta ≠ 0)
/-- the function `_numerical_integration("sin(theta/a)", theta, a)` (line 109) hands to `scipy.integrate.quad`, at `t` -/
def numeric_integrand_sin (F : ℝ → ℝ) (theta a t : ℝ) : ℝ :=
  (Real.sin ((((F (t / a)) * theta) * a) / a))
def numeric_integrand_defined_sin (F : ℝ → ℝ) (theta a t : ℝ) : Prop :=
  a ≠ 0
/-- the value component of `scipy.integrate.quad(<that function>, (0 : ℝ), a)`, read as the integral (assumption on scipy) -/
def numeric_sin (F : ℝ → ℝ) (theta a : ℝ) : ℝ :=
  ∫ t in ((0 : ℝ))..(a), numeric_integrand_sin F theta a t
/-- `integrate("sin(theta/a)", theta, a)` on a cold cache, for an input that passes the validation (`a > 0`) -/
def integrate_sin (use_lookup : Bool) (F : ℝ → ℝ) (theta a : ℝ) : ℝ :=
  if use_lookup then analytic_sin theta a else numeric_sin F theta a

/-! ### key "cos(theta/(2*a))**2" -/
/-- `_INTEGRAL_LOOKUP["cos(theta/(2*a))**2"]` (integrator.py:32) -/
def integrand_cos_half_sq (theta a : ℝ) : ℝ :=
  ((Real.cos (theta / ((2 : ℝ) * a))) ^ 2)
def integrand_defined_cos_half_sq (theta a : ℝ) : Prop :=
  ((2 : ℝ) * a) ≠ 0
/-- `_RESULT_LOOKUP["cos(theta/(2*a))**2"]` (integrator.py:44) -/
def result_cos_half_sq (theta a : ℝ) : ℝ :=
  ((a * (theta + (Real.sin theta))) / ((2 : ℝ) * theta))
def result_defined_cos_half_sq (theta a : ℝ) : Prop :=
  ((2 : ℝ) * theta) ≠ 0
/-- value returned by `_analytical_integration("cos(theta/(2*a))**2", theta, a)` (line 92) -/
def analytic_cos_half_sq (theta a : ℝ) : ℝ :=
  (if theta = (0 : ℝ) then (a * ((Real.cos ((0 : ℝ) / ((2 : ℝ) * a))) ^ 2)) else ((a * (theta + (Real.sin theta))) / ((2 : ℝ) * theta)))
def analytic_defined_cos_half_sq (theta a : ℝ) : Prop :=
  (if theta = (0 : ℝ) then ((2 : ℝ) * a) ≠ 0 else ((2 : ℝ) * theta) ≠ 0)
/-- the function `_numerical_integration("cos(theta/(2*a))**2", theta, a)` (line 109) hands to `scipy.integrate.quad`, at `t` -/
def numeric_integrand_cos_half_sq (F : ℝ → ℝ) (theta a t : ℝ) : ℝ :=
  ((Real.cos ((((F (t / a)) * theta) * a) / ((2 : ℝ) * a))) ^ 2)
def numeric_integrand_defined_cos_half_sq (F : ℝ → ℝ) (theta a t : ℝ) : Prop :=
  a ≠ 0 ∧ ((2 : ℝ) * a) ≠ 0
/-- the value component of `scipy.integrate.quad(<that function>, (0 : ℝ), a)`, read as the integral (assumption on scipy) -/
def numeric_cos_half_sq (F : ℝ → ℝ) (theta a : ℝ) : ℝ :=
  ∫ t in ((0 : ℝ))..(a), numeric_integrand_cos_half_sq F theta a t
/-- `integrate("cos(theta/(2*a))**2", theta, a)` on a cold cache, for an input that passes the validation (`a > 0`) -/
def integrate_cos_half_sq (use_lookup : Bool) (F : ℝ → ℝ) (theta a : ℝ) : ℝ :=
  if use_lookup then analytic_cos_half_sq theta a else numeric_cos_half_sq F theta a

/-- lower / upper bound handed to `quad` -/
def quad_lower (theta a : ℝ) : ℝ := (0 : ℝ)
def quad_upper (theta a : ℝ) : ℝ := a
/-- the input validation of `integrate` on the real arguments (the membership assert is the fixed key table) -/
def precondition (theta a : ℝ) : Prop := a > 0

end
end QG.Gen.Integrator
