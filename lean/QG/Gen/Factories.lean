import Mathlib.Analysis.Normed.Algebra.MatrixExponential
import Mathlib.Analysis.SpecialFunctions.Trigonometric.Basic
import Mathlib.Analysis.SpecialFunctions.Sqrt
import Mathlib.LinearAlgebra.Matrix.Notation
import QG.Spec.Integ
import QG.Spec.Kron2
import QG.Spec.Attr
/-! GENERATED on every run by harness/gen/factories_lean.py from
  src/quantum_gates/_gates/factories.py  (classes BitflipFactory, DepolarizingFactory, RelaxationFactory, SingleQubitGateFactory, CRFactory, XFactory, SXFactory, CNOTFactory, CNOTInvFactory, ECRFactory, ECRInvFactory)  and  src/quantum_gates/_gates/integrator.py  (`_INTEGRAL_LOOKUP`).
Source text -> IR (harness/gen/factories.py) -> these definitions.  Do not edit.
Conventions: see the docstring of harness/gen/factories_lean.py (environment variables c s e eb i). -/
set_option linter.unusedVariables false
namespace QG.Gen
open Matrix

/-! integrands `g_k(x)` = the k-th lambda of `_INTEGRAL_LOOKUP` at `(theta, a) = (x, 1)` -/
/-- key `sin(theta/a)**2` -/
noncomputable def g0 (x : ℝ) : ℝ :=
  ((Real.sin (x / (1 : ℝ))) ^ 2)

/-- key `sin(theta/(2*a))**4` -/
noncomputable def g1 (x : ℝ) : ℝ :=
  ((Real.sin (x / (2 : ℝ))) ^ 4)

/-- key `sin(theta/a)*sin(theta/(2*a))**2` -/
noncomputable def g2 (x : ℝ) : ℝ :=
  ((Real.sin (x / (1 : ℝ))) * ((Real.sin (x / (2 : ℝ))) ^ 2))

/-- key `sin(theta/(2*a))**2` -/
noncomputable def g3 (x : ℝ) : ℝ :=
  ((Real.sin (x / (2 : ℝ))) ^ 2)

/-- key `cos(theta/a)**2` -/
noncomputable def g4 (x : ℝ) : ℝ :=
  ((Real.cos (x / (1 : ℝ))) ^ 2)

/-- key `sin(theta/a)*cos(theta/a)` -/
noncomputable def g5 (x : ℝ) : ℝ :=
  ((Real.sin (x / (1 : ℝ))) * (Real.cos (x / (1 : ℝ))))

/-- key `sin(theta/a)` -/
noncomputable def g6 (x : ℝ) : ℝ :=
  (Real.sin (x / (1 : ℝ)))

/-- key `cos(theta/(2*a))**2` -/
noncomputable def g7 (x : ℝ) : ℝ :=
  ((Real.cos (x / (2 : ℝ))) ^ 2)

namespace Bitflip

noncomputable def tg : ℝ :=
  ((7 : ℝ) / 200000000)

noncomputable def Dtm (tm : ℝ) : ℝ :=
  (tm / QG.Gen.Bitflip.tg)

noncomputable def e (rout : ℝ) (tm : ℝ) : ℝ :=
  (Real.sqrt (rout / (QG.Gen.Bitflip.Dtm tm)))

structure Samples where
  W : ℝ

noncomputable def resultMat (tm : ℝ) (rout : ℝ) (w : Samples) : Matrix (Fin 2) (Fin 2) ℂ :=
  !![(Complex.cos ((((QG.Gen.Bitflip.e rout tm) : ℝ) : ℂ) * ((w.W : ℝ) : ℂ))), (Complex.I * (Complex.sin ((((QG.Gen.Bitflip.e rout tm) : ℝ) : ℂ) * ((w.W : ℝ) : ℂ)))); (Complex.I * (Complex.sin ((((QG.Gen.Bitflip.e rout tm) : ℝ) : ℂ) * ((w.W : ℝ) : ℂ)))), (Complex.cos ((((QG.Gen.Bitflip.e rout tm) : ℝ) : ℂ) * ((w.W : ℝ) : ℂ)))]

noncomputable def construct (tm : ℝ) (rout : ℝ) (w : Samples) : Matrix (Fin 2) (Fin 2) ℂ :=
  resultMat tm rout w

/-- standard deviation handed to `np.random.normal` for W -/
noncomputable def std_W (tm : ℝ) : ℝ :=
  (Real.sqrt (QG.Gen.Bitflip.Dtm tm))

attribute [qg_unfold] tg Dtm e resultMat construct std_W

end Bitflip

namespace Depolarizing

noncomputable def tg : ℝ :=
  ((7 : ℝ) / 200000000)

noncomputable def Dt_1 (Dt : ℝ) : ℝ :=
  (Dt / QG.Gen.Depolarizing.tg)

noncomputable def ed (p : ℝ) : ℝ :=
  (Real.sqrt (p / (4 : ℝ)))

structure Samples where
  W1 : ℝ
  W2 : ℝ
  W3 : ℝ

noncomputable def XMat (Dt : ℝ) (p : ℝ) (w : Samples) : Matrix (Fin 2) (Fin 2) ℂ :=
  !![(0 : ℂ), (1 : ℂ); (1 : ℂ), (0 : ℂ)]

noncomputable def YMat (Dt : ℝ) (p : ℝ) (w : Samples) : Matrix (Fin 2) (Fin 2) ℂ :=
  !![(0 : ℂ), (-Complex.I); Complex.I, (0 : ℂ)]

noncomputable def ZMat (Dt : ℝ) (p : ℝ) (w : Samples) : Matrix (Fin 2) (Fin 2) ℂ :=
  !![(1 : ℂ), (0 : ℂ); (0 : ℂ), (-1 : ℂ)]

noncomputable def I1Mat (Dt : ℝ) (p : ℝ) (w : Samples) : Matrix (Fin 2) (Fin 2) ℂ :=
  (((w.W1 : ℝ) : ℂ) • ((((QG.Gen.Depolarizing.ed p) : ℝ) : ℂ) • (XMat Dt p w)))

noncomputable def I2Mat (Dt : ℝ) (p : ℝ) (w : Samples) : Matrix (Fin 2) (Fin 2) ℂ :=
  (((w.W2 : ℝ) : ℂ) • ((((QG.Gen.Depolarizing.ed p) : ℝ) : ℂ) • (YMat Dt p w)))

noncomputable def I3Mat (Dt : ℝ) (p : ℝ) (w : Samples) : Matrix (Fin 2) (Fin 2) ℂ :=
  (((w.W3 : ℝ) : ℂ) • ((((QG.Gen.Depolarizing.ed p) : ℝ) : ℂ) • (ZMat Dt p w)))

/-- argument of `expm`, literally as in the source -/
noncomputable def noiseArg (Dt : ℝ) (p : ℝ) (w : Samples) : Matrix (Fin 2) (Fin 2) ℂ :=
  (((Complex.I • (I1Mat Dt p w)) + (Complex.I • (I2Mat Dt p w))) + (Complex.I • (I3Mat Dt p w)))

open scoped Matrix.Norms.Operator in
noncomputable def construct (Dt : ℝ) (p : ℝ) (w : Samples) : Matrix (Fin 2) (Fin 2) ℂ :=
  NormedSpace.exp (noiseArg Dt p w)

/-- standard deviation handed to `np.random.normal` for W1 -/
noncomputable def std_W1 (Dt : ℝ) : ℝ :=
  (Real.sqrt (QG.Gen.Depolarizing.Dt_1 Dt))

/-- standard deviation handed to `np.random.normal` for W2 -/
noncomputable def std_W2 (Dt : ℝ) : ℝ :=
  (Real.sqrt (QG.Gen.Depolarizing.Dt_1 Dt))

/-- standard deviation handed to `np.random.normal` for W3 -/
noncomputable def std_W3 (Dt : ℝ) : ℝ :=
  (Real.sqrt (QG.Gen.Depolarizing.Dt_1 Dt))

attribute [qg_unfold] tg Dt_1 ed XMat YMat ZMat I1Mat I2Mat I3Mat noiseArg construct std_W1 std_W2 std_W3

end Depolarizing

namespace Relaxation

noncomputable def tg : ℝ :=
  ((7 : ℝ) / 200000000)

noncomputable def Dt_1 (Dt : ℝ) : ℝ :=
  (Dt / QG.Gen.Relaxation.tg)

noncomputable def e1 (T1 : ℝ) : ℝ :=
  (if T1 = (0 : ℝ) then (0 : ℝ) else (Real.sqrt (QG.Gen.Relaxation.tg / T1)))

noncomputable def ep (T2 : ℝ) (T1 : ℝ) : ℝ :=
  (if T2 = (0 : ℝ) then (0 : ℝ) else (Real.sqrt (((1 : ℝ) / 2) * ((QG.Gen.Relaxation.tg / T2) - ((if T1 ≠ (0 : ℝ) then (QG.Gen.Relaxation.tg / T1) else (0 : ℝ)) / (2 : ℝ))))))

structure Samples where
  W : ℝ
  I : ℝ

noncomputable def resultMat (Dt : ℝ) (T1 : ℝ) (T2 : ℝ) (w : Samples) : Matrix (Fin 2) (Fin 2) ℂ :=
  !![(Complex.exp ((Complex.I * (((QG.Gen.Relaxation.ep T2 T1) : ℝ) : ℂ)) * ((w.W : ℝ) : ℂ))), ((Complex.I * ((w.I : ℝ) : ℂ)) * (Complex.exp (((-Complex.I) * (((QG.Gen.Relaxation.ep T2 T1) : ℝ) : ℂ)) * ((w.W : ℝ) : ℂ)))); (0 : ℂ), ((Complex.exp (((-((((QG.Gen.Relaxation.e1 T1) : ℝ) : ℂ) ^ 2)) / (2 : ℂ)) * (((QG.Gen.Relaxation.Dt_1 Dt) : ℝ) : ℂ))) * (Complex.exp (((-Complex.I) * (((QG.Gen.Relaxation.ep T2 T1) : ℝ) : ℂ)) * ((w.W : ℝ) : ℂ))))]

noncomputable def construct (Dt : ℝ) (T1 : ℝ) (T2 : ℝ) (w : Samples) : Matrix (Fin 2) (Fin 2) ℂ :=
  resultMat Dt T1 T2 w

/-- standard deviation handed to `np.random.normal` for W -/
noncomputable def std_W (Dt : ℝ) : ℝ :=
  (Real.sqrt (QG.Gen.Relaxation.Dt_1 Dt))

/-- standard deviation handed to `np.random.normal` for I -/
noncomputable def std_I (T1 : ℝ) (Dt : ℝ) : ℝ :=
  (Real.sqrt ((1 : ℝ) - (Real.exp ((-((QG.Gen.Relaxation.e1 T1) ^ 2)) * (QG.Gen.Relaxation.Dt_1 Dt)))))

attribute [qg_unfold] tg Dt_1 e1 ep resultMat construct std_W std_I

end Relaxation

namespace SingleQubit

noncomputable def tg : ℝ :=
  ((7 : ℝ) / 200000000)

noncomputable def ed (p : ℝ) : ℝ :=
  (Real.sqrt (p / (4 : ℝ)))

noncomputable def e1 (T1 : ℝ) : ℝ :=
  (if T1 = (0 : ℝ) then (0 : ℝ) else (Real.sqrt (QG.Gen.SingleQubit.tg / T1)))

noncomputable def ep (T2 : ℝ) (T1 : ℝ) : ℝ :=
  (if T2 = (0 : ℝ) then (0 : ℝ) else (Real.sqrt (((1 : ℝ) / 2) * ((QG.Gen.SingleQubit.tg / T2) - ((if T1 ≠ (0 : ℝ) then (QG.Gen.SingleQubit.tg / T1) else (0 : ℝ)) / (2 : ℝ))))))

noncomputable def det1 (F : ℝ → ℝ) (theta : ℝ) : ℝ :=
  (QG.Spec.integ F QG.Gen.g3 theta (1 : ℝ))

noncomputable def det2 (F : ℝ → ℝ) (theta : ℝ) : ℝ :=
  (QG.Spec.integ F QG.Gen.g6 theta (1 : ℝ))

noncomputable def det3 (F : ℝ → ℝ) (theta : ℝ) : ℝ :=
  (QG.Spec.integ F QG.Gen.g7 theta (1 : ℝ))

/-- environment: drive atoms `c s e eb i` (see file header), named scalars and Gaussian samples used by the matrices -/
structure Env (K : Type) where
  c : K
  s : K
  e : K
  eb : K
  i : K
  ed : K
  Idx1 : K
  Wdx : K
  Idx2 : K
  Idy1 : K
  Wdy : K
  Idy2 : K
  Idz1 : K
  Idz2 : K
  e1 : K
  Ir1 : K
  Wr : K
  Ir2 : K
  det1 : K
  det2 : K
  det3 : K
  ep : K
  Ip1 : K
  Ip2 : K

section
variable {K : Type} [Field K]

def U (v : Env K) : Matrix (Fin 2) (Fin 2) K :=
  !![v.c, (((-v.i) * v.s) * (v.eb ^ 1)); (((-v.i) * v.s) * (v.e ^ 1)), v.c]

def Idx (v : Env K) : Matrix (Fin 2) (Fin 2) K :=
  !![(v.ed * ((((-v.i) * (v.e - v.eb)) / (2 : K)) * v.Idx1)), (v.ed * (v.Wdx + (((v.eb ^ 2) - (1 : K)) * v.Idx2))); (v.ed * (v.Wdx + (((v.e ^ 2) - (1 : K)) * v.Idx2))), (v.ed * ((-(((-v.i) * (v.e - v.eb)) / (2 : K))) * v.Idx1))]

def Idy (v : Env K) : Matrix (Fin 2) (Fin 2) K :=
  !![(v.ed * ((-((v.e + v.eb) / (2 : K))) * v.Idy1)), (v.ed * (((-v.i) * v.Wdy) + ((v.i * ((v.eb ^ 2) + (1 : K))) * v.Idy2))); (v.ed * ((v.i * v.Wdy) - ((v.i * ((v.e ^ 2) + (1 : K))) * v.Idy2))), (v.ed * (((v.e + v.eb) / (2 : K)) * v.Idy1))]

def Idz (v : Env K) : Matrix (Fin 2) (Fin 2) K :=
  !![(v.ed * v.Idz1), (v.ed * (((-v.i) * (v.eb ^ 1)) * v.Idz2)); (v.ed * ((v.i * (v.e ^ 1)) * v.Idz2)), (v.ed * (-v.Idz1))]

def Ir (v : Env K) : Matrix (Fin 2) (Fin 2) K :=
  !![(v.e1 * ((((-v.i) / (2 : K)) * (v.e ^ 1)) * v.Ir1)), (v.e1 * (v.Wr - v.Ir2)); (v.e1 * ((v.e ^ 2) * v.Ir2)), (v.e1 * (((v.i / (2 : K)) * (v.e ^ 1)) * v.Ir1))]

def deterministic (v : Env K) : Matrix (Fin 2) (Fin 2) K :=
  !![(((-(v.e1 ^ 2)) / (2 : K)) * v.det1), (((-(v.e1 ^ 2)) / (2 : K)) * (((v.i / (2 : K)) * (v.eb ^ 1)) * v.det2)); (((-(v.e1 ^ 2)) / (2 : K)) * ((((-v.i) / (2 : K)) * (v.e ^ 1)) * v.det2)), (((-(v.e1 ^ 2)) / (2 : K)) * v.det3)]

def Ip (v : Env K) : Matrix (Fin 2) (Fin 2) K :=
  !![(v.ep * v.Ip1), (v.ep * (((-v.i) * (v.eb ^ 1)) * v.Ip2)); (v.ep * ((v.i * (v.e ^ 1)) * v.Ip2)), (v.ep * (-v.Ip1))]

/-- argument of the first `expm` (deterministic drift), literally as in the source -/
def driftArg (v : Env K) : Matrix (Fin 2) (Fin 2) K :=
  (deterministic v)

/-- argument of the second `expm` (i times the stochastic generator), literally as in the source -/
def noiseArg (v : Env K) : Matrix (Fin 2) (Fin 2) K :=
  (((((v.i • (Idx v)) + (v.i • (Idy v))) + (v.i • (Idz v))) + (v.i • (Ir v))) + (v.i • (Ip v)))

end

/-- the Gaussian samples drawn by one call, in draw-script order -/
structure Samples where
  Idx1 : ℝ
  Idx2 : ℝ
  Wdx : ℝ
  Idy1 : ℝ
  Idy2 : ℝ
  Wdy : ℝ
  Idz1 : ℝ
  Idz2 : ℝ
  Ir1 : ℝ
  Ir2 : ℝ
  Wr : ℝ
  Ip1 : ℝ
  Ip2 : ℝ

/-- the environment of one call `construct(theta, phi, p, T1, T2)` with pulse parametrisation `F` and samples `w` -/
noncomputable def envOf (F : ℝ → ℝ) (theta : ℝ) (phi : ℝ) (p : ℝ) (T1 : ℝ) (T2 : ℝ) (w : Samples) : Env ℂ :=
  {
    c := Complex.cos ((theta : ℂ) / 2),
    s := Complex.sin ((theta : ℂ) / 2),
    e := Complex.exp (Complex.I * (phi : ℂ)),
    eb := Complex.exp (-(Complex.I * (phi : ℂ))),
    i := Complex.I,
    ed := ((ed p : ℝ) : ℂ),
    Idx1 := ((w.Idx1 : ℝ) : ℂ),
    Wdx := ((w.Wdx : ℝ) : ℂ),
    Idx2 := ((w.Idx2 : ℝ) : ℂ),
    Idy1 := ((w.Idy1 : ℝ) : ℂ),
    Wdy := ((w.Wdy : ℝ) : ℂ),
    Idy2 := ((w.Idy2 : ℝ) : ℂ),
    Idz1 := ((w.Idz1 : ℝ) : ℂ),
    Idz2 := ((w.Idz2 : ℝ) : ℂ),
    e1 := ((e1 T1 : ℝ) : ℂ),
    Ir1 := ((w.Ir1 : ℝ) : ℂ),
    Wr := ((w.Wr : ℝ) : ℂ),
    Ir2 := ((w.Ir2 : ℝ) : ℂ),
    det1 := ((det1 F theta : ℝ) : ℂ),
    det2 := ((det2 F theta : ℝ) : ℂ),
    det3 := ((det3 F theta : ℝ) : ℂ),
    ep := ((ep T2 T1 : ℝ) : ℂ),
    Ip1 := ((w.Ip1 : ℝ) : ℂ),
    Ip2 := ((w.Ip2 : ℝ) : ℂ) }

open scoped ComplexConjugate in
/-- reality conditions every actual call satisfies: `c s`, strengths, drift integrals and samples are real, `e* = eb`, `i* = -i` -/
structure IsReal (v : Env ℂ) : Prop where
  c : conj v.c = v.c
  s : conj v.s = v.s
  e : conj v.e = v.eb
  eb : conj v.eb = v.e
  i : conj v.i = -v.i
  ed : conj v.ed = v.ed
  Idx1 : conj v.Idx1 = v.Idx1
  Wdx : conj v.Wdx = v.Wdx
  Idx2 : conj v.Idx2 = v.Idx2
  Idy1 : conj v.Idy1 = v.Idy1
  Wdy : conj v.Wdy = v.Wdy
  Idy2 : conj v.Idy2 = v.Idy2
  Idz1 : conj v.Idz1 = v.Idz1
  Idz2 : conj v.Idz2 = v.Idz2
  e1 : conj v.e1 = v.e1
  Ir1 : conj v.Ir1 = v.Ir1
  Wr : conj v.Wr = v.Wr
  Ir2 : conj v.Ir2 = v.Ir2
  det1 : conj v.det1 = v.det1
  det2 : conj v.det2 = v.det2
  det3 : conj v.det3 = v.det3
  ep : conj v.ep = v.ep
  Ip1 : conj v.Ip1 = v.Ip1
  Ip2 : conj v.Ip2 = v.Ip2

open scoped Matrix.Norms.Operator in
/-- the sampled gate: `U @ expm(driftArg) @ expm(noiseArg)` (the composition is read off the source) -/
noncomputable def gate (v : Env ℂ) : Matrix (Fin 2) (Fin 2) ℂ :=
  U v * NormedSpace.exp (driftArg v) * NormedSpace.exp (noiseArg v)

noncomputable def construct (F : ℝ → ℝ) (theta : ℝ) (phi : ℝ) (p : ℝ) (T1 : ℝ) (T2 : ℝ) (w : Samples) : Matrix (Fin 2) (Fin 2) ℂ :=
  gate (envOf F theta phi p T1 T2 w)

/-! draw script (np.random calls in order):
  mvn      Idx1, Idx2, Wdx
  mvn      Idy1, Idy2, Wdy
  mvn      Idz1, Idz2
  mvn      Ir1, Ir2, Wr
  mvn      Ip1, Ip2
-/

/-- covariance handed to `multivariate_normal` for (Idx1, Idx2, Wdx) -/
noncomputable def cov_Idx1 (F : ℝ → ℝ) (theta : ℝ) : Matrix (Fin 3) (Fin 3) ℝ :=
  !![(QG.Spec.integ F QG.Gen.g0 theta (1 : ℝ)), (QG.Spec.integ F QG.Gen.g2 theta (1 : ℝ)), (QG.Spec.integ F QG.Gen.g6 theta (1 : ℝ)); (QG.Spec.integ F QG.Gen.g2 theta (1 : ℝ)), (QG.Spec.integ F QG.Gen.g1 theta (1 : ℝ)), (QG.Spec.integ F QG.Gen.g3 theta (1 : ℝ)); (QG.Spec.integ F QG.Gen.g6 theta (1 : ℝ)), (QG.Spec.integ F QG.Gen.g3 theta (1 : ℝ)), (1 : ℝ)]

/-- covariance handed to `multivariate_normal` for (Idy1, Idy2, Wdy) -/
noncomputable def cov_Idy1 (F : ℝ → ℝ) (theta : ℝ) : Matrix (Fin 3) (Fin 3) ℝ :=
  !![(QG.Spec.integ F QG.Gen.g0 theta (1 : ℝ)), (QG.Spec.integ F QG.Gen.g2 theta (1 : ℝ)), (QG.Spec.integ F QG.Gen.g6 theta (1 : ℝ)); (QG.Spec.integ F QG.Gen.g2 theta (1 : ℝ)), (QG.Spec.integ F QG.Gen.g1 theta (1 : ℝ)), (QG.Spec.integ F QG.Gen.g3 theta (1 : ℝ)); (QG.Spec.integ F QG.Gen.g6 theta (1 : ℝ)), (QG.Spec.integ F QG.Gen.g3 theta (1 : ℝ)), (1 : ℝ)]

/-- covariance handed to `multivariate_normal` for (Idz1, Idz2) -/
noncomputable def cov_Idz1 (F : ℝ → ℝ) (theta : ℝ) : Matrix (Fin 2) (Fin 2) ℝ :=
  !![(QG.Spec.integ F QG.Gen.g4 theta (1 : ℝ)), (QG.Spec.integ F QG.Gen.g5 theta (1 : ℝ)); (QG.Spec.integ F QG.Gen.g5 theta (1 : ℝ)), (QG.Spec.integ F QG.Gen.g0 theta (1 : ℝ))]

/-- covariance handed to `multivariate_normal` for (Ir1, Ir2, Wr) -/
noncomputable def cov_Ir1 (F : ℝ → ℝ) (theta : ℝ) : Matrix (Fin 3) (Fin 3) ℝ :=
  !![(QG.Spec.integ F QG.Gen.g0 theta (1 : ℝ)), (QG.Spec.integ F QG.Gen.g2 theta (1 : ℝ)), (QG.Spec.integ F QG.Gen.g6 theta (1 : ℝ)); (QG.Spec.integ F QG.Gen.g2 theta (1 : ℝ)), (QG.Spec.integ F QG.Gen.g1 theta (1 : ℝ)), (QG.Spec.integ F QG.Gen.g3 theta (1 : ℝ)); (QG.Spec.integ F QG.Gen.g6 theta (1 : ℝ)), (QG.Spec.integ F QG.Gen.g3 theta (1 : ℝ)), (1 : ℝ)]

/-- covariance handed to `multivariate_normal` for (Ip1, Ip2) -/
noncomputable def cov_Ip1 (F : ℝ → ℝ) (theta : ℝ) : Matrix (Fin 2) (Fin 2) ℝ :=
  !![(QG.Spec.integ F QG.Gen.g4 theta (1 : ℝ)), (QG.Spec.integ F QG.Gen.g5 theta (1 : ℝ)); (QG.Spec.integ F QG.Gen.g5 theta (1 : ℝ)), (QG.Spec.integ F QG.Gen.g0 theta (1 : ℝ))]

attribute [qg_unfold] tg ed e1 ep det1 det2 det3 U Idx Idy Idz Ir deterministic Ip driftArg noiseArg envOf gate construct cov_Idx1 cov_Idy1 cov_Idz1 cov_Ir1 cov_Ip1

end SingleQubit

namespace CR

noncomputable def tg : ℝ :=
  ((7 : ℝ) / 200000000)

noncomputable def a (t_cr : ℝ) : ℝ :=
  (t_cr / QG.Gen.CR.tg)

noncomputable def ed_cr (p_cr : ℝ) (t_cr : ℝ) : ℝ :=
  (Real.sqrt (p_cr / ((4 : ℝ) * (QG.Gen.CR.a t_cr))))

noncomputable def e1_ctr (T1_ctr : ℝ) : ℝ :=
  (if T1_ctr = (0 : ℝ) then (0 : ℝ) else (Real.sqrt (QG.Gen.CR.tg / T1_ctr)))

noncomputable def ep_ctr (T2_ctr : ℝ) (T1_ctr : ℝ) : ℝ :=
  (if T2_ctr = (0 : ℝ) then (0 : ℝ) else (Real.sqrt (((1 : ℝ) / 2) * ((QG.Gen.CR.tg / T2_ctr) - ((if T1_ctr ≠ (0 : ℝ) then (QG.Gen.CR.tg / T1_ctr) else (0 : ℝ)) / (2 : ℝ))))))

noncomputable def e1_trg (T1_trg : ℝ) : ℝ :=
  (if T1_trg = (0 : ℝ) then (0 : ℝ) else (Real.sqrt (QG.Gen.CR.tg / T1_trg)))

noncomputable def ep_trg (T2_trg : ℝ) (T1_trg : ℝ) : ℝ :=
  (if T2_trg = (0 : ℝ) then (0 : ℝ) else (Real.sqrt (((1 : ℝ) / 2) * ((QG.Gen.CR.tg / T2_trg) - ((if T1_trg ≠ (0 : ℝ) then (QG.Gen.CR.tg / T1_trg) else (0 : ℝ)) / (2 : ℝ))))))

noncomputable def det1 (F : ℝ → ℝ) (theta : ℝ) (t_cr : ℝ) : ℝ :=
  (QG.Spec.integ F QG.Gen.g3 theta (QG.Gen.CR.a t_cr))

noncomputable def det2 (F : ℝ → ℝ) (theta : ℝ) (t_cr : ℝ) : ℝ :=
  (QG.Spec.integ F QG.Gen.g6 theta (QG.Gen.CR.a t_cr))

noncomputable def det3 (F : ℝ → ℝ) (theta : ℝ) (t_cr : ℝ) : ℝ :=
  (QG.Spec.integ F QG.Gen.g7 theta (QG.Gen.CR.a t_cr))

/-- environment: drive atoms `c s e eb i` (see file header), named scalars and Gaussian samples used by the matrices -/
structure Env (K : Type) where
  c : K
  s : K
  e : K
  eb : K
  i : K
  e1_ctr : K
  Ir_ctr_1 : K
  Ir_ctr_2 : K
  e1_trg : K
  Ir_trg_1 : K
  Wr_trg : K
  Ir_trg_2 : K
  ep_ctr : K
  Wp_ctr : K
  ep_trg : K
  Ip_trg_1 : K
  Ip_trg_2 : K
  a : K
  det1 : K
  det2 : K
  det3 : K
  ed_cr : K
  Idx_ctr_1 : K
  Idx_ctr_2 : K
  Idy_ctr_1 : K
  Idy_ctr_2 : K
  Wdz_ctr : K
  Idx_trg_1 : K
  Wdx_trg : K
  Idx_trg_2 : K
  Idy_trg_1 : K
  Wdy_trg : K
  Idy_trg_2 : K
  Idz_trg_1 : K
  Idz_trg_2 : K

section
variable {K : Type} [Field K]

def U (v : Env K) : Matrix (Fin 4) (Fin 4) K :=
  !![v.c, (((-v.i) * v.s) * (v.eb ^ 1)), (0 : K), (0 : K); (((-v.i) * v.s) * (v.e ^ 1)), v.c, (0 : K), (0 : K); (0 : K), (0 : K), v.c, ((v.i * v.s) * (v.eb ^ 1)); (0 : K), (0 : K), ((v.i * v.s) * (v.e ^ 1)), v.c]

def Ir_ctr (v : Env K) : Matrix (Fin 4) (Fin 4) K :=
  !![(v.e1_ctr * (0 : K)), (v.e1_ctr * (0 : K)), (v.e1_ctr * v.Ir_ctr_1), (v.e1_ctr * ((v.i * v.Ir_ctr_2) * (v.eb ^ 1))); (v.e1_ctr * (0 : K)), (v.e1_ctr * (0 : K)), (v.e1_ctr * ((v.i * v.Ir_ctr_2) * (v.e ^ 1))), (v.e1_ctr * v.Ir_ctr_1); (v.e1_ctr * (0 : K)), (v.e1_ctr * (0 : K)), (v.e1_ctr * (0 : K)), (v.e1_ctr * (0 : K)); (v.e1_ctr * (0 : K)), (v.e1_ctr * (0 : K)), (v.e1_ctr * (0 : K)), (v.e1_ctr * (0 : K))]

def Ir_trg (v : Env K) : Matrix (Fin 4) (Fin 4) K :=
  !![(v.e1_trg * ((((-v.i) * ((1 : K) / 2)) * v.Ir_trg_1) * (v.e ^ 1))), (v.e1_trg * (v.Wr_trg - v.Ir_trg_2)), (v.e1_trg * (0 : K)), (v.e1_trg * (0 : K)); (v.e1_trg * (v.Ir_trg_2 * (v.e ^ 2))), (v.e1_trg * (((v.i * ((1 : K) / 2)) * v.Ir_trg_1) * (v.e ^ 1))), (v.e1_trg * (0 : K)), (v.e1_trg * (0 : K)); (v.e1_trg * (0 : K)), (v.e1_trg * (0 : K)), (v.e1_trg * (((v.i * ((1 : K) / 2)) * v.Ir_trg_1) * (v.e ^ 1))), (v.e1_trg * (v.Wr_trg - v.Ir_trg_2)); (v.e1_trg * (0 : K)), (v.e1_trg * (0 : K)), (v.e1_trg * (v.Ir_trg_2 * (v.e ^ 2))), (v.e1_trg * ((((-v.i) * ((1 : K) / 2)) * v.Ir_trg_1) * (v.e ^ 1)))]

def Ip_ctr (v : Env K) : Matrix (Fin 4) (Fin 4) K :=
  !![(v.ep_ctr * v.Wp_ctr), (v.ep_ctr * (0 : K)), (v.ep_ctr * (0 : K)), (v.ep_ctr * (0 : K)); (v.ep_ctr * (0 : K)), (v.ep_ctr * v.Wp_ctr), (v.ep_ctr * (0 : K)), (v.ep_ctr * (0 : K)); (v.ep_ctr * (0 : K)), (v.ep_ctr * (0 : K)), (v.ep_ctr * (-v.Wp_ctr)), (v.ep_ctr * (0 : K)); (v.ep_ctr * (0 : K)), (v.ep_ctr * (0 : K)), (v.ep_ctr * (0 : K)), (v.ep_ctr * (-v.Wp_ctr))]

def Ip_trg (v : Env K) : Matrix (Fin 4) (Fin 4) K :=
  !![(v.ep_trg * v.Ip_trg_1), (v.ep_trg * (((-v.i) * v.Ip_trg_2) * (v.eb ^ 1))), (v.ep_trg * (0 : K)), (v.ep_trg * (0 : K)); (v.ep_trg * ((v.i * v.Ip_trg_2) * (v.e ^ 1))), (v.ep_trg * (-v.Ip_trg_1)), (v.ep_trg * (0 : K)), (v.ep_trg * (0 : K)); (v.ep_trg * (0 : K)), (v.ep_trg * (0 : K)), (v.ep_trg * v.Ip_trg_1), (v.ep_trg * ((v.i * v.Ip_trg_2) * (v.eb ^ 1))); (v.ep_trg * (0 : K)), (v.ep_trg * (0 : K)), (v.ep_trg * (((-v.i) * v.Ip_trg_2) * (v.e ^ 1))), (v.ep_trg * (-v.Ip_trg_1))]

def deterministic_r_ctr (v : Env K) : Matrix (Fin 4) (Fin 4) K :=
  !![(((-(v.e1_ctr ^ 2)) / (2 : K)) * (0 : K)), (((-(v.e1_ctr ^ 2)) / (2 : K)) * (0 : K)), (((-(v.e1_ctr ^ 2)) / (2 : K)) * (0 : K)), (((-(v.e1_ctr ^ 2)) / (2 : K)) * (0 : K)); (((-(v.e1_ctr ^ 2)) / (2 : K)) * (0 : K)), (((-(v.e1_ctr ^ 2)) / (2 : K)) * (0 : K)), (((-(v.e1_ctr ^ 2)) / (2 : K)) * (0 : K)), (((-(v.e1_ctr ^ 2)) / (2 : K)) * (0 : K)); (((-(v.e1_ctr ^ 2)) / (2 : K)) * (0 : K)), (((-(v.e1_ctr ^ 2)) / (2 : K)) * (0 : K)), (((-(v.e1_ctr ^ 2)) / (2 : K)) * v.a), (((-(v.e1_ctr ^ 2)) / (2 : K)) * (0 : K)); (((-(v.e1_ctr ^ 2)) / (2 : K)) * (0 : K)), (((-(v.e1_ctr ^ 2)) / (2 : K)) * (0 : K)), (((-(v.e1_ctr ^ 2)) / (2 : K)) * (0 : K)), (((-(v.e1_ctr ^ 2)) / (2 : K)) * v.a)]

def deterministic_r_trg (v : Env K) : Matrix (Fin 4) (Fin 4) K :=
  !![(((-(v.e1_trg ^ 2)) / (2 : K)) * v.det1), (((-(v.e1_trg ^ 2)) / (2 : K)) * (((v.i * ((1 : K) / 2)) * v.det2) * (v.eb ^ 1))), (((-(v.e1_trg ^ 2)) / (2 : K)) * (0 : K)), (((-(v.e1_trg ^ 2)) / (2 : K)) * (0 : K)); (((-(v.e1_trg ^ 2)) / (2 : K)) * ((((-v.i) * ((1 : K) / 2)) * v.det2) * (v.e ^ 1))), (((-(v.e1_trg ^ 2)) / (2 : K)) * v.det3), (((-(v.e1_trg ^ 2)) / (2 : K)) * (0 : K)), (((-(v.e1_trg ^ 2)) / (2 : K)) * (0 : K)); (((-(v.e1_trg ^ 2)) / (2 : K)) * (0 : K)), (((-(v.e1_trg ^ 2)) / (2 : K)) * (0 : K)), (((-(v.e1_trg ^ 2)) / (2 : K)) * v.det1), (((-(v.e1_trg ^ 2)) / (2 : K)) * ((((-v.i) * ((1 : K) / 2)) * v.det2) * (v.eb ^ 1))); (((-(v.e1_trg ^ 2)) / (2 : K)) * (0 : K)), (((-(v.e1_trg ^ 2)) / (2 : K)) * (0 : K)), (((-(v.e1_trg ^ 2)) / (2 : K)) * (((v.i * ((1 : K) / 2)) * v.det2) * (v.e ^ 1))), (((-(v.e1_trg ^ 2)) / (2 : K)) * v.det3)]

def Idx_ctr (v : Env K) : Matrix (Fin 4) (Fin 4) K :=
  !![(v.ed_cr * (0 : K)), (v.ed_cr * (0 : K)), (v.ed_cr * v.Idx_ctr_1), (v.ed_cr * ((v.i * v.Idx_ctr_2) * (v.eb ^ 1))); (v.ed_cr * (0 : K)), (v.ed_cr * (0 : K)), (v.ed_cr * ((v.i * v.Idx_ctr_2) * (v.e ^ 1))), (v.ed_cr * v.Idx_ctr_1); (v.ed_cr * v.Idx_ctr_1), (v.ed_cr * (((-v.i) * v.Idx_ctr_2) * (v.eb ^ 1))), (v.ed_cr * (0 : K)), (v.ed_cr * (0 : K)); (v.ed_cr * (((-v.i) * v.Idx_ctr_2) * (v.e ^ 1))), (v.ed_cr * v.Idx_ctr_1), (v.ed_cr * (0 : K)), (v.ed_cr * (0 : K))]

def Idy_ctr (v : Env K) : Matrix (Fin 4) (Fin 4) K :=
  !![(v.ed_cr * (0 : K)), (v.ed_cr * (0 : K)), (v.ed_cr * ((-v.i) * v.Idy_ctr_1)), (v.ed_cr * (v.Idy_ctr_2 * (v.eb ^ 1))); (v.ed_cr * (0 : K)), (v.ed_cr * (0 : K)), (v.ed_cr * (v.Idy_ctr_2 * (v.e ^ 1))), (v.ed_cr * ((-v.i) * v.Idy_ctr_1)); (v.ed_cr * (v.i * v.Idy_ctr_1)), (v.ed_cr * (v.Idy_ctr_2 * (v.eb ^ 1))), (v.ed_cr * (0 : K)), (v.ed_cr * (0 : K)); (v.ed_cr * (v.Idy_ctr_2 * (v.e ^ 1))), (v.ed_cr * (v.i * v.Idy_ctr_1)), (v.ed_cr * (0 : K)), (v.ed_cr * (0 : K))]

def Idz_ctr (v : Env K) : Matrix (Fin 4) (Fin 4) K :=
  !![(v.ed_cr * v.Wdz_ctr), (v.ed_cr * (0 : K)), (v.ed_cr * (0 : K)), (v.ed_cr * (0 : K)); (v.ed_cr * (0 : K)), (v.ed_cr * v.Wdz_ctr), (v.ed_cr * (0 : K)), (v.ed_cr * (0 : K)); (v.ed_cr * (0 : K)), (v.ed_cr * (0 : K)), (v.ed_cr * (-v.Wdz_ctr)), (v.ed_cr * (0 : K)); (v.ed_cr * (0 : K)), (v.ed_cr * (0 : K)), (v.ed_cr * (0 : K)), (v.ed_cr * (-v.Wdz_ctr))]

def Idx_trg (v : Env K) : Matrix (Fin 4) (Fin 4) K :=
  !![(v.ed_cr * (v.Idx_trg_1 * (((-v.i) * (v.e - v.eb)) / (2 : K)))), (v.ed_cr * (v.Wdx_trg + (((v.eb ^ 2) - (1 : K)) * v.Idx_trg_2))), (v.ed_cr * (0 : K)), (v.ed_cr * (0 : K)); (v.ed_cr * (v.Wdx_trg + (((v.e ^ 2) - (1 : K)) * v.Idx_trg_2))), (v.ed_cr * ((-v.Idx_trg_1) * (((-v.i) * (v.e - v.eb)) / (2 : K)))), (v.ed_cr * (0 : K)), (v.ed_cr * (0 : K)); (v.ed_cr * (0 : K)), (v.ed_cr * (0 : K)), (v.ed_cr * ((-v.Idx_trg_1) * (((-v.i) * (v.e - v.eb)) / (2 : K)))), (v.ed_cr * (v.Wdx_trg + (((v.eb ^ 2) - (1 : K)) * v.Idx_trg_2))); (v.ed_cr * (0 : K)), (v.ed_cr * (0 : K)), (v.ed_cr * (v.Wdx_trg + (((v.e ^ 2) - (1 : K)) * v.Idx_trg_2))), (v.ed_cr * (v.Idx_trg_1 * (((-v.i) * (v.e - v.eb)) / (2 : K))))]

def Idy_trg (v : Env K) : Matrix (Fin 4) (Fin 4) K :=
  !![(v.ed_cr * ((-v.Idy_trg_1) * ((v.e + v.eb) / (2 : K)))), (v.ed_cr * (((-v.i) * v.Wdy_trg) + ((v.i * ((v.eb ^ 2) + (1 : K))) * v.Idy_trg_2))), (v.ed_cr * (0 : K)), (v.ed_cr * (0 : K)); (v.ed_cr * ((v.i * v.Wdy_trg) - ((v.i * ((v.e ^ 2) + (1 : K))) * v.Idy_trg_2))), (v.ed_cr * (v.Idy_trg_1 * ((v.e + v.eb) / (2 : K)))), (v.ed_cr * (0 : K)), (v.ed_cr * (0 : K)); (v.ed_cr * (0 : K)), (v.ed_cr * (0 : K)), (v.ed_cr * (v.Idy_trg_1 * ((v.e + v.eb) / (2 : K)))), (v.ed_cr * (((-v.i) * v.Wdy_trg) + ((v.i * ((v.eb ^ 2) + (1 : K))) * v.Idy_trg_2))); (v.ed_cr * (0 : K)), (v.ed_cr * (0 : K)), (v.ed_cr * ((v.i * v.Wdy_trg) - ((v.i * ((v.e ^ 2) + (1 : K))) * v.Idy_trg_2))), (v.ed_cr * ((-v.Idy_trg_1) * ((v.e + v.eb) / (2 : K))))]

def Idz_trg (v : Env K) : Matrix (Fin 4) (Fin 4) K :=
  !![(v.ed_cr * v.Idz_trg_1), (v.ed_cr * (((-v.i) * v.Idz_trg_2) * (v.eb ^ 1))), (v.ed_cr * (0 : K)), (v.ed_cr * (0 : K)); (v.ed_cr * ((v.i * v.Idz_trg_2) * (v.e ^ 1))), (v.ed_cr * (-v.Idz_trg_1)), (v.ed_cr * (0 : K)), (v.ed_cr * (0 : K)); (v.ed_cr * (0 : K)), (v.ed_cr * (0 : K)), (v.ed_cr * v.Idz_trg_1), (v.ed_cr * ((v.i * v.Idz_trg_2) * (v.eb ^ 1))); (v.ed_cr * (0 : K)), (v.ed_cr * (0 : K)), (v.ed_cr * (((-v.i) * v.Idz_trg_2) * (v.e ^ 1))), (v.ed_cr * (-v.Idz_trg_1))]

/-- argument of the first `expm` (deterministic drift), literally as in the source -/
def driftArg (v : Env K) : Matrix (Fin 4) (Fin 4) K :=
  ((deterministic_r_ctr v) + (deterministic_r_trg v))

/-- argument of the second `expm` (i times the stochastic generator), literally as in the source -/
def noiseArg (v : Env K) : Matrix (Fin 4) (Fin 4) K :=
  ((((((((((v.i • (Ir_ctr v)) + (v.i • (Ir_trg v))) + (v.i • (Ip_ctr v))) + (v.i • (Ip_trg v))) + (v.i • (Idx_ctr v))) + (v.i • (Idy_ctr v))) + (v.i • (Idz_ctr v))) + (v.i • (Idx_trg v))) + (v.i • (Idy_trg v))) + (v.i • (Idz_trg v)))

end

/-- the Gaussian samples drawn by one call, in draw-script order -/
structure Samples where
  Ir_ctr_1 : ℝ
  Ir_ctr_2 : ℝ
  Ir_trg_1 : ℝ
  Ir_trg_2 : ℝ
  Wr_trg : ℝ
  Wp_ctr : ℝ
  Ip_trg_1 : ℝ
  Ip_trg_2 : ℝ
  Idx_ctr_1 : ℝ
  Idx_ctr_2 : ℝ
  Idy_ctr_1 : ℝ
  Idy_ctr_2 : ℝ
  Wdz_ctr : ℝ
  Idx_trg_1 : ℝ
  Idx_trg_2 : ℝ
  Wdx_trg : ℝ
  Idy_trg_1 : ℝ
  Idy_trg_2 : ℝ
  Wdy_trg : ℝ
  Idz_trg_1 : ℝ
  Idz_trg_2 : ℝ

/-- the environment of one call `construct(theta, phi, t_cr, p_cr, T1_ctr, T2_ctr, T1_trg, T2_trg)` with pulse parametrisation `F` and samples `w` -/
noncomputable def envOf (F : ℝ → ℝ) (theta : ℝ) (phi : ℝ) (t_cr : ℝ) (p_cr : ℝ) (T1_ctr : ℝ) (T2_ctr : ℝ) (T1_trg : ℝ) (T2_trg : ℝ) (w : Samples) : Env ℂ :=
  {
    c := Complex.cos ((theta : ℂ) / 2),
    s := Complex.sin ((theta : ℂ) / 2),
    e := Complex.exp (Complex.I * (phi : ℂ)),
    eb := Complex.exp (-(Complex.I * (phi : ℂ))),
    i := Complex.I,
    e1_ctr := ((e1_ctr T1_ctr : ℝ) : ℂ),
    Ir_ctr_1 := ((w.Ir_ctr_1 : ℝ) : ℂ),
    Ir_ctr_2 := ((w.Ir_ctr_2 : ℝ) : ℂ),
    e1_trg := ((e1_trg T1_trg : ℝ) : ℂ),
    Ir_trg_1 := ((w.Ir_trg_1 : ℝ) : ℂ),
    Wr_trg := ((w.Wr_trg : ℝ) : ℂ),
    Ir_trg_2 := ((w.Ir_trg_2 : ℝ) : ℂ),
    ep_ctr := ((ep_ctr T2_ctr T1_ctr : ℝ) : ℂ),
    Wp_ctr := ((w.Wp_ctr : ℝ) : ℂ),
    ep_trg := ((ep_trg T2_trg T1_trg : ℝ) : ℂ),
    Ip_trg_1 := ((w.Ip_trg_1 : ℝ) : ℂ),
    Ip_trg_2 := ((w.Ip_trg_2 : ℝ) : ℂ),
    a := ((a t_cr : ℝ) : ℂ),
    det1 := ((det1 F theta t_cr : ℝ) : ℂ),
    det2 := ((det2 F theta t_cr : ℝ) : ℂ),
    det3 := ((det3 F theta t_cr : ℝ) : ℂ),
    ed_cr := ((ed_cr p_cr t_cr : ℝ) : ℂ),
    Idx_ctr_1 := ((w.Idx_ctr_1 : ℝ) : ℂ),
    Idx_ctr_2 := ((w.Idx_ctr_2 : ℝ) : ℂ),
    Idy_ctr_1 := ((w.Idy_ctr_1 : ℝ) : ℂ),
    Idy_ctr_2 := ((w.Idy_ctr_2 : ℝ) : ℂ),
    Wdz_ctr := ((w.Wdz_ctr : ℝ) : ℂ),
    Idx_trg_1 := ((w.Idx_trg_1 : ℝ) : ℂ),
    Wdx_trg := ((w.Wdx_trg : ℝ) : ℂ),
    Idx_trg_2 := ((w.Idx_trg_2 : ℝ) : ℂ),
    Idy_trg_1 := ((w.Idy_trg_1 : ℝ) : ℂ),
    Wdy_trg := ((w.Wdy_trg : ℝ) : ℂ),
    Idy_trg_2 := ((w.Idy_trg_2 : ℝ) : ℂ),
    Idz_trg_1 := ((w.Idz_trg_1 : ℝ) : ℂ),
    Idz_trg_2 := ((w.Idz_trg_2 : ℝ) : ℂ) }

open scoped ComplexConjugate in
/-- reality conditions every actual call satisfies: `c s`, strengths, drift integrals and samples are real, `e* = eb`, `i* = -i` -/
structure IsReal (v : Env ℂ) : Prop where
  c : conj v.c = v.c
  s : conj v.s = v.s
  e : conj v.e = v.eb
  eb : conj v.eb = v.e
  i : conj v.i = -v.i
  e1_ctr : conj v.e1_ctr = v.e1_ctr
  Ir_ctr_1 : conj v.Ir_ctr_1 = v.Ir_ctr_1
  Ir_ctr_2 : conj v.Ir_ctr_2 = v.Ir_ctr_2
  e1_trg : conj v.e1_trg = v.e1_trg
  Ir_trg_1 : conj v.Ir_trg_1 = v.Ir_trg_1
  Wr_trg : conj v.Wr_trg = v.Wr_trg
  Ir_trg_2 : conj v.Ir_trg_2 = v.Ir_trg_2
  ep_ctr : conj v.ep_ctr = v.ep_ctr
  Wp_ctr : conj v.Wp_ctr = v.Wp_ctr
  ep_trg : conj v.ep_trg = v.ep_trg
  Ip_trg_1 : conj v.Ip_trg_1 = v.Ip_trg_1
  Ip_trg_2 : conj v.Ip_trg_2 = v.Ip_trg_2
  a : conj v.a = v.a
  det1 : conj v.det1 = v.det1
  det2 : conj v.det2 = v.det2
  det3 : conj v.det3 = v.det3
  ed_cr : conj v.ed_cr = v.ed_cr
  Idx_ctr_1 : conj v.Idx_ctr_1 = v.Idx_ctr_1
  Idx_ctr_2 : conj v.Idx_ctr_2 = v.Idx_ctr_2
  Idy_ctr_1 : conj v.Idy_ctr_1 = v.Idy_ctr_1
  Idy_ctr_2 : conj v.Idy_ctr_2 = v.Idy_ctr_2
  Wdz_ctr : conj v.Wdz_ctr = v.Wdz_ctr
  Idx_trg_1 : conj v.Idx_trg_1 = v.Idx_trg_1
  Wdx_trg : conj v.Wdx_trg = v.Wdx_trg
  Idx_trg_2 : conj v.Idx_trg_2 = v.Idx_trg_2
  Idy_trg_1 : conj v.Idy_trg_1 = v.Idy_trg_1
  Wdy_trg : conj v.Wdy_trg = v.Wdy_trg
  Idy_trg_2 : conj v.Idy_trg_2 = v.Idy_trg_2
  Idz_trg_1 : conj v.Idz_trg_1 = v.Idz_trg_1
  Idz_trg_2 : conj v.Idz_trg_2 = v.Idz_trg_2

open scoped Matrix.Norms.Operator in
/-- the sampled gate: `U @ expm(driftArg) @ expm(noiseArg)` (the composition is read off the source) -/
noncomputable def gate (v : Env ℂ) : Matrix (Fin 4) (Fin 4) ℂ :=
  U v * NormedSpace.exp (driftArg v) * NormedSpace.exp (noiseArg v)

noncomputable def construct (F : ℝ → ℝ) (theta : ℝ) (phi : ℝ) (t_cr : ℝ) (p_cr : ℝ) (T1_ctr : ℝ) (T2_ctr : ℝ) (T1_trg : ℝ) (T2_trg : ℝ) (w : Samples) : Matrix (Fin 4) (Fin 4) ℂ :=
  gate (envOf F theta phi t_cr p_cr T1_ctr T2_ctr T1_trg T2_trg w)

/-! draw script (np.random calls in order):
  mvn      Ir_ctr_1, Ir_ctr_2
  mvn      Ir_trg_1, Ir_trg_2, Wr_trg
  normal   Wp_ctr  std = (Real.sqrt (QG.Gen.CR.a t_cr))
  mvn      Ip_trg_1, Ip_trg_2
  mvn      Idx_ctr_1, Idx_ctr_2
  mvn      Idy_ctr_1, Idy_ctr_2
  normal   Wdz_ctr  std = (Real.sqrt (QG.Gen.CR.a t_cr))
  mvn      Idx_trg_1, Idx_trg_2, Wdx_trg
  mvn      Idy_trg_1, Idy_trg_2, Wdy_trg
  mvn      Idz_trg_1, Idz_trg_2
-/

/-- covariance handed to `multivariate_normal` for (Ir_ctr_1, Ir_ctr_2) -/
noncomputable def cov_Ir_ctr_1 (F : ℝ → ℝ) (theta : ℝ) (t_cr : ℝ) : Matrix (Fin 2) (Fin 2) ℝ :=
  !![(QG.Spec.integ F QG.Gen.g4 theta (QG.Gen.CR.a t_cr)), (QG.Spec.integ F QG.Gen.g5 theta (QG.Gen.CR.a t_cr)); (QG.Spec.integ F QG.Gen.g5 theta (QG.Gen.CR.a t_cr)), (QG.Spec.integ F QG.Gen.g0 theta (QG.Gen.CR.a t_cr))]

/-- covariance handed to `multivariate_normal` for (Ir_trg_1, Ir_trg_2, Wr_trg) -/
noncomputable def cov_Ir_trg_1 (F : ℝ → ℝ) (theta : ℝ) (t_cr : ℝ) : Matrix (Fin 3) (Fin 3) ℝ :=
  !![(QG.Spec.integ F QG.Gen.g0 theta (QG.Gen.CR.a t_cr)), (QG.Spec.integ F QG.Gen.g2 theta (QG.Gen.CR.a t_cr)), (QG.Spec.integ F QG.Gen.g6 theta (QG.Gen.CR.a t_cr)); (QG.Spec.integ F QG.Gen.g2 theta (QG.Gen.CR.a t_cr)), (QG.Spec.integ F QG.Gen.g1 theta (QG.Gen.CR.a t_cr)), (QG.Spec.integ F QG.Gen.g3 theta (QG.Gen.CR.a t_cr)); (QG.Spec.integ F QG.Gen.g6 theta (QG.Gen.CR.a t_cr)), (QG.Spec.integ F QG.Gen.g3 theta (QG.Gen.CR.a t_cr)), (QG.Gen.CR.a t_cr)]

/-- standard deviation handed to `np.random.normal` for Wp_ctr -/
noncomputable def std_Wp_ctr (t_cr : ℝ) : ℝ :=
  (Real.sqrt (QG.Gen.CR.a t_cr))

/-- covariance handed to `multivariate_normal` for (Ip_trg_1, Ip_trg_2) -/
noncomputable def cov_Ip_trg_1 (F : ℝ → ℝ) (theta : ℝ) (t_cr : ℝ) : Matrix (Fin 2) (Fin 2) ℝ :=
  !![(QG.Spec.integ F QG.Gen.g4 theta (QG.Gen.CR.a t_cr)), (QG.Spec.integ F QG.Gen.g5 theta (QG.Gen.CR.a t_cr)); (QG.Spec.integ F QG.Gen.g5 theta (QG.Gen.CR.a t_cr)), (QG.Spec.integ F QG.Gen.g0 theta (QG.Gen.CR.a t_cr))]

/-- covariance handed to `multivariate_normal` for (Idx_ctr_1, Idx_ctr_2) -/
noncomputable def cov_Idx_ctr_1 (F : ℝ → ℝ) (theta : ℝ) (t_cr : ℝ) : Matrix (Fin 2) (Fin 2) ℝ :=
  !![(QG.Spec.integ F QG.Gen.g4 theta (QG.Gen.CR.a t_cr)), (QG.Spec.integ F QG.Gen.g5 theta (QG.Gen.CR.a t_cr)); (QG.Spec.integ F QG.Gen.g5 theta (QG.Gen.CR.a t_cr)), (QG.Spec.integ F QG.Gen.g0 theta (QG.Gen.CR.a t_cr))]

/-- covariance handed to `multivariate_normal` for (Idy_ctr_1, Idy_ctr_2) -/
noncomputable def cov_Idy_ctr_1 (F : ℝ → ℝ) (theta : ℝ) (t_cr : ℝ) : Matrix (Fin 2) (Fin 2) ℝ :=
  !![(QG.Spec.integ F QG.Gen.g4 theta (QG.Gen.CR.a t_cr)), (QG.Spec.integ F QG.Gen.g5 theta (QG.Gen.CR.a t_cr)); (QG.Spec.integ F QG.Gen.g5 theta (QG.Gen.CR.a t_cr)), (QG.Spec.integ F QG.Gen.g0 theta (QG.Gen.CR.a t_cr))]

/-- standard deviation handed to `np.random.normal` for Wdz_ctr -/
noncomputable def std_Wdz_ctr (t_cr : ℝ) : ℝ :=
  (Real.sqrt (QG.Gen.CR.a t_cr))

/-- covariance handed to `multivariate_normal` for (Idx_trg_1, Idx_trg_2, Wdx_trg) -/
noncomputable def cov_Idx_trg_1 (F : ℝ → ℝ) (theta : ℝ) (t_cr : ℝ) : Matrix (Fin 3) (Fin 3) ℝ :=
  !![(QG.Spec.integ F QG.Gen.g0 theta (QG.Gen.CR.a t_cr)), (QG.Spec.integ F QG.Gen.g2 theta (QG.Gen.CR.a t_cr)), (QG.Spec.integ F QG.Gen.g6 theta (QG.Gen.CR.a t_cr)); (QG.Spec.integ F QG.Gen.g2 theta (QG.Gen.CR.a t_cr)), (QG.Spec.integ F QG.Gen.g1 theta (QG.Gen.CR.a t_cr)), (QG.Spec.integ F QG.Gen.g3 theta (QG.Gen.CR.a t_cr)); (QG.Spec.integ F QG.Gen.g6 theta (QG.Gen.CR.a t_cr)), (QG.Spec.integ F QG.Gen.g3 theta (QG.Gen.CR.a t_cr)), (QG.Gen.CR.a t_cr)]

/-- covariance handed to `multivariate_normal` for (Idy_trg_1, Idy_trg_2, Wdy_trg) -/
noncomputable def cov_Idy_trg_1 (F : ℝ → ℝ) (theta : ℝ) (t_cr : ℝ) : Matrix (Fin 3) (Fin 3) ℝ :=
  !![(QG.Spec.integ F QG.Gen.g0 theta (QG.Gen.CR.a t_cr)), (QG.Spec.integ F QG.Gen.g2 theta (QG.Gen.CR.a t_cr)), (QG.Spec.integ F QG.Gen.g6 theta (QG.Gen.CR.a t_cr)); (QG.Spec.integ F QG.Gen.g2 theta (QG.Gen.CR.a t_cr)), (QG.Spec.integ F QG.Gen.g1 theta (QG.Gen.CR.a t_cr)), (QG.Spec.integ F QG.Gen.g3 theta (QG.Gen.CR.a t_cr)); (QG.Spec.integ F QG.Gen.g6 theta (QG.Gen.CR.a t_cr)), (QG.Spec.integ F QG.Gen.g3 theta (QG.Gen.CR.a t_cr)), (QG.Gen.CR.a t_cr)]

/-- covariance handed to `multivariate_normal` for (Idz_trg_1, Idz_trg_2) -/
noncomputable def cov_Idz_trg_1 (F : ℝ → ℝ) (theta : ℝ) (t_cr : ℝ) : Matrix (Fin 2) (Fin 2) ℝ :=
  !![(QG.Spec.integ F QG.Gen.g4 theta (QG.Gen.CR.a t_cr)), (QG.Spec.integ F QG.Gen.g5 theta (QG.Gen.CR.a t_cr)); (QG.Spec.integ F QG.Gen.g5 theta (QG.Gen.CR.a t_cr)), (QG.Spec.integ F QG.Gen.g0 theta (QG.Gen.CR.a t_cr))]

attribute [qg_unfold] tg a ed_cr e1_ctr ep_ctr e1_trg ep_trg det1 det2 det3 U Ir_ctr Ir_trg Ip_ctr Ip_trg deterministic_r_ctr deterministic_r_trg Idx_ctr Idy_ctr Idz_ctr Idx_trg Idy_trg Idz_trg driftArg noiseArg envOf gate construct cov_Ir_ctr_1 cov_Ir_trg_1 std_Wp_ctr cov_Ip_trg_1 cov_Idx_ctr_1 cov_Idy_ctr_1 std_Wdz_ctr cov_Idx_trg_1 cov_Idy_trg_1 cov_Idz_trg_1

end CR

namespace X

/-- the samples of the constituent pulses, one record per constituent call (in call order) -/
structure Samples where
  g0 : SingleQubit.Samples

/-- `XFactory.construct`: the product is read off the source; every constituent call with its argument expressions -/
noncomputable def construct (F : ℝ → ℝ) (phi : ℝ) (p : ℝ) (T1 : ℝ) (T2 : ℝ) (w : Samples) : Matrix (Fin 2) (Fin 2) ℂ :=
  (SingleQubit.construct F Real.pi phi p T1 T2 w.g0)

attribute [qg_unfold] construct

end X

namespace SX

/-- the samples of the constituent pulses, one record per constituent call (in call order) -/
structure Samples where
  g0 : SingleQubit.Samples

/-- `SXFactory.construct`: the product is read off the source; every constituent call with its argument expressions -/
noncomputable def construct (F : ℝ → ℝ) (phi : ℝ) (p : ℝ) (T1 : ℝ) (T2 : ℝ) (w : Samples) : Matrix (Fin 2) (Fin 2) ℂ :=
  (SingleQubit.construct F (Real.pi / (2 : ℝ)) phi p T1 T2 w.g0)

attribute [qg_unfold] construct

end SX

namespace CNOT

noncomputable def tg : ℝ :=
  ((7 : ℝ) / 200000000)

noncomputable def t_cr (t_cnot : ℝ) : ℝ :=
  ((t_cnot / (2 : ℝ)) - QG.Gen.CNOT.tg)

noncomputable def p_cr (p_cnot : ℝ) (p_single_ctr : ℝ) (p_single_trg : ℝ) : ℝ :=
  (((4 : ℝ) / 3) * ((1 : ℝ) - (Real.sqrt (Real.sqrt ((((1 : ℝ) - (((3 : ℝ) / 4) * p_cnot)) ^ 2) / ((((1 : ℝ) - (((3 : ℝ) / 4) * p_single_ctr)) ^ 2) * ((1 : ℝ) - (((3 : ℝ) / 4) * p_single_trg))))))))

noncomputable def p_cr_1 (p_cnot : ℝ) (p_single_ctr : ℝ) (p_single_trg : ℝ) : ℝ :=
  (if (QG.Gen.CNOT.p_cr p_cnot p_single_ctr p_single_trg) < (0 : ℝ) then (0 : ℝ) else (QG.Gen.CNOT.p_cr p_cnot p_single_ctr p_single_trg))

/-- the samples of the constituent pulses, one record per constituent call (in call order) -/
structure Samples where
  first_cr : CR.Samples
  second_cr : CR.Samples
  x_gate : X.Samples
  sx_gate : SX.Samples
  relaxation_gate : Relaxation.Samples
  Y_Rz : SingleQubit.Samples

/-- `CNOTFactory.construct`: the product is read off the source; every constituent call with its argument expressions -/
noncomputable def construct (F : ℝ → ℝ) (phi_ctr : ℝ) (phi_trg : ℝ) (t_cnot : ℝ) (p_cnot : ℝ) (p_single_ctr : ℝ) (p_single_trg : ℝ) (T1_ctr : ℝ) (T2_ctr : ℝ) (T1_trg : ℝ) (T2_trg : ℝ) (w : Samples) : Matrix (Fin 4) (Fin 4) ℂ :=
  ((((CR.construct F ((-Real.pi) / (4 : ℝ)) (-phi_trg) (QG.Gen.CNOT.t_cr t_cnot) (QG.Gen.CNOT.p_cr_1 p_cnot p_single_ctr p_single_trg) T1_ctr T2_ctr T1_trg T2_trg w.first_cr) * (QG.Spec.kron2 (X.construct F ((-phi_ctr) + (Real.pi / (2 : ℝ))) p_single_ctr T1_ctr T2_ctr w.x_gate) (Relaxation.construct QG.Gen.CNOT.tg T1_trg T2_trg w.relaxation_gate))) * (CR.construct F (Real.pi / (4 : ℝ)) (-phi_trg) (QG.Gen.CNOT.t_cr t_cnot) (QG.Gen.CNOT.p_cr_1 p_cnot p_single_ctr p_single_trg) T1_ctr T2_ctr T1_trg T2_trg w.second_cr)) * (QG.Spec.kron2 (SingleQubit.construct F (-Real.pi) (((-phi_ctr) + (Real.pi / (2 : ℝ))) + (Real.pi / (2 : ℝ))) p_single_ctr T1_ctr T2_ctr w.Y_Rz) (SX.construct F (-phi_trg) p_single_trg T1_trg T2_trg w.sx_gate)))

attribute [qg_unfold] tg t_cr p_cr p_cr_1 construct

end CNOT

namespace CNOTInv

noncomputable def tg : ℝ :=
  ((7 : ℝ) / 200000000)

noncomputable def t_cr (t_cnot : ℝ) : ℝ :=
  ((t_cnot - ((3 : ℝ) * QG.Gen.CNOTInv.tg)) / (2 : ℝ))

noncomputable def p_cr (p_cnot : ℝ) (p_single_ctr : ℝ) (p_single_trg : ℝ) : ℝ :=
  (((4 : ℝ) / 3) * ((1 : ℝ) - (Real.sqrt (Real.sqrt ((((1 : ℝ) - (((3 : ℝ) / 4) * p_cnot)) ^ 2) / ((((1 : ℝ) - (((3 : ℝ) / 4) * p_single_ctr)) ^ 2) * (((1 : ℝ) - (((3 : ℝ) / 4) * p_single_trg)) ^ 3)))))))

noncomputable def p_cr_1 (p_cnot : ℝ) (p_single_ctr : ℝ) (p_single_trg : ℝ) : ℝ :=
  (if (QG.Gen.CNOTInv.p_cr p_cnot p_single_ctr p_single_trg) < (0 : ℝ) then (0 : ℝ) else (QG.Gen.CNOTInv.p_cr p_cnot p_single_ctr p_single_trg))

/-- the samples of the constituent pulses, one record per constituent call (in call order) -/
structure Samples where
  Ry : SingleQubit.Samples
  Y_Z : SingleQubit.Samples
  first_sx_gate : SX.Samples
  second_sx_gate : SX.Samples
  first_cr : CR.Samples
  second_cr : CR.Samples
  x_gate : X.Samples
  relaxation_gate : Relaxation.Samples

/-- `CNOTInvFactory.construct`: the product is read off the source; every constituent call with its argument expressions -/
noncomputable def construct (F : ℝ → ℝ) (phi_ctr : ℝ) (phi_trg : ℝ) (t_cnot : ℝ) (p_cnot : ℝ) (p_single_ctr : ℝ) (p_single_trg : ℝ) (T1_ctr : ℝ) (T2_ctr : ℝ) (T1_trg : ℝ) (T2_trg : ℝ) (w : Samples) : Matrix (Fin 4) (Fin 4) ℂ :=
  (((((QG.Spec.kron2 (SingleQubit.construct F ((-Real.pi) / (2 : ℝ)) (((-phi_trg) - (Real.pi / (2 : ℝ))) + (Real.pi / (2 : ℝ))) p_single_trg T1_trg T2_trg w.Ry) (SX.construct F (((-phi_ctr) - Real.pi) - (Real.pi / (2 : ℝ))) p_single_ctr T1_ctr T2_ctr w.first_sx_gate)) * (CR.construct F ((-Real.pi) / (4 : ℝ)) ((-phi_ctr) - Real.pi) (QG.Gen.CNOTInv.t_cr t_cnot) (QG.Gen.CNOTInv.p_cr_1 p_cnot p_single_ctr p_single_trg) T1_trg T2_trg T1_ctr T2_ctr w.first_cr)) * (QG.Spec.kron2 (X.construct F ((-phi_trg) - (Real.pi / (2 : ℝ))) p_single_trg T1_trg T2_trg w.x_gate) (Relaxation.construct QG.Gen.CNOTInv.tg T1_ctr T2_ctr w.relaxation_gate))) * (CR.construct F (Real.pi / (4 : ℝ)) ((-phi_ctr) - Real.pi) (QG.Gen.CNOTInv.t_cr t_cnot) (QG.Gen.CNOTInv.p_cr_1 p_cnot p_single_ctr p_single_trg) T1_trg T2_trg T1_ctr T2_ctr w.second_cr)) * (QG.Spec.kron2 (SX.construct F ((-phi_trg) - (Real.pi / (2 : ℝ))) p_single_trg T1_trg T2_trg w.second_sx_gate) (SingleQubit.construct F (Real.pi / (2 : ℝ)) (((-phi_ctr) - Real.pi) + (Real.pi / (2 : ℝ))) p_single_ctr T1_ctr T2_ctr w.Y_Z)))

attribute [qg_unfold] tg t_cr p_cr p_cr_1 construct

end CNOTInv

namespace ECR

noncomputable def tg : ℝ :=
  ((7 : ℝ) / 200000000)

noncomputable def t_cr (t_ecr : ℝ) : ℝ :=
  ((t_ecr / (2 : ℝ)) - QG.Gen.ECR.tg)

noncomputable def p_cr (p_ecr : ℝ) (p_single_ctr : ℝ) (p_single_trg : ℝ) : ℝ :=
  (((4 : ℝ) / 3) * ((1 : ℝ) - (Real.sqrt (Real.sqrt ((((1 : ℝ) - (((3 : ℝ) / 4) * p_ecr)) ^ 2) / ((((1 : ℝ) - (((3 : ℝ) / 4) * p_single_ctr)) ^ 2) * ((1 : ℝ) - (((3 : ℝ) / 4) * p_single_trg))))))))

noncomputable def p_cr_1 (p_ecr : ℝ) (p_single_ctr : ℝ) (p_single_trg : ℝ) : ℝ :=
  (if (QG.Gen.ECR.p_cr p_ecr p_single_ctr p_single_trg) < (0 : ℝ) then (0 : ℝ) else (QG.Gen.ECR.p_cr p_ecr p_single_ctr p_single_trg))

/-- the samples of the constituent pulses, one record per constituent call (in call order) -/
structure Samples where
  first_cr : CR.Samples
  second_cr : CR.Samples
  x_gate : X.Samples
  relaxation_gate : Relaxation.Samples

/-- `ECRFactory.construct`: the product is read off the source; every constituent call with its argument expressions -/
noncomputable def construct (F : ℝ → ℝ) (phi_ctr : ℝ) (phi_trg : ℝ) (t_ecr : ℝ) (p_ecr : ℝ) (p_single_ctr : ℝ) (p_single_trg : ℝ) (T1_ctr : ℝ) (T2_ctr : ℝ) (T1_trg : ℝ) (T2_trg : ℝ) (w : Samples) : Matrix (Fin 4) (Fin 4) ℂ :=
  (((CR.construct F (Real.pi / (4 : ℝ)) (Real.pi - phi_trg) (QG.Gen.ECR.t_cr t_ecr) (QG.Gen.ECR.p_cr_1 p_ecr p_single_ctr p_single_trg) T1_ctr T2_ctr T1_trg T2_trg w.first_cr) * (QG.Spec.kron2 ((-Complex.I) • (X.construct F (Real.pi - phi_ctr) p_single_ctr T1_ctr T2_ctr w.x_gate)) (Relaxation.construct QG.Gen.ECR.tg T1_trg T2_trg w.relaxation_gate))) * (CR.construct F ((-Real.pi) / (4 : ℝ)) (Real.pi - phi_trg) (QG.Gen.ECR.t_cr t_ecr) (QG.Gen.ECR.p_cr_1 p_ecr p_single_ctr p_single_trg) T1_ctr T2_ctr T1_trg T2_trg w.second_cr))

attribute [qg_unfold] tg t_cr p_cr p_cr_1 construct

end ECR

namespace ECRInv

noncomputable def tg : ℝ :=
  ((7 : ℝ) / 200000000)

noncomputable def t_cr (t_ecr : ℝ) : ℝ :=
  ((t_ecr / (2 : ℝ)) - QG.Gen.ECRInv.tg)

noncomputable def p_cr (p_ecr : ℝ) (p_single_ctr : ℝ) (p_single_trg : ℝ) : ℝ :=
  (((4 : ℝ) / 3) * ((1 : ℝ) - (Real.sqrt (Real.sqrt ((((1 : ℝ) - (((3 : ℝ) / 4) * p_ecr)) ^ 2) / ((((1 : ℝ) - (((3 : ℝ) / 4) * p_single_ctr)) ^ 2) * ((1 : ℝ) - (((3 : ℝ) / 4) * p_single_trg))))))))

noncomputable def p_cr_1 (p_ecr : ℝ) (p_single_ctr : ℝ) (p_single_trg : ℝ) : ℝ :=
  (if (QG.Gen.ECRInv.p_cr p_ecr p_single_ctr p_single_trg) < (0 : ℝ) then (0 : ℝ) else (QG.Gen.ECRInv.p_cr p_ecr p_single_ctr p_single_trg))

/-- the samples of the constituent pulses, one record per constituent call (in call order) -/
structure Samples where
  first_cr : CR.Samples
  second_cr : CR.Samples
  x_gate : X.Samples
  relaxation_gate : Relaxation.Samples
  sx_gate_ctr_1 : SX.Samples
  sx_gate_trg_1 : SX.Samples
  sx_gate_ctr_2 : SX.Samples
  sx_gate_trg_2 : SX.Samples

/-- `ECRInvFactory.construct`: the product is read off the source; every constituent call with its argument expressions -/
noncomputable def construct (F : ℝ → ℝ) (phi_ctr : ℝ) (phi_trg : ℝ) (t_ecr : ℝ) (p_ecr : ℝ) (p_single_ctr : ℝ) (p_single_trg : ℝ) (T1_ctr : ℝ) (T2_ctr : ℝ) (T1_trg : ℝ) (T2_trg : ℝ) (w : Samples) : Matrix (Fin 4) (Fin 4) ℂ :=
  (((Complex.I • (QG.Spec.kron2 (SX.construct F (((-Real.pi) / (2 : ℝ)) - phi_ctr) p_single_ctr T1_ctr T2_ctr w.sx_gate_ctr_1) (SX.construct F (((-Real.pi) / (2 : ℝ)) - phi_trg) p_single_trg T1_trg T2_trg w.sx_gate_trg_1))) * (((CR.construct F (Real.pi / (4 : ℝ)) (Real.pi - phi_trg) (QG.Gen.ECRInv.t_cr t_ecr) (QG.Gen.ECRInv.p_cr_1 p_ecr p_single_ctr p_single_trg) T1_ctr T2_ctr T1_trg T2_trg w.first_cr) * (QG.Spec.kron2 ((-Complex.I) • (X.construct F (Real.pi - phi_ctr) p_single_ctr T1_ctr T2_ctr w.x_gate)) (Relaxation.construct QG.Gen.ECRInv.tg T1_trg T2_trg w.relaxation_gate))) * (CR.construct F ((-Real.pi) / (4 : ℝ)) (Real.pi - phi_trg) (QG.Gen.ECRInv.t_cr t_ecr) (QG.Gen.ECRInv.p_cr_1 p_ecr p_single_ctr p_single_trg) T1_ctr T2_ctr T1_trg T2_trg w.second_cr))) * (QG.Spec.kron2 (SX.construct F (((-Real.pi) / (2 : ℝ)) - phi_ctr) p_single_ctr T1_ctr T2_ctr w.sx_gate_ctr_2) (SX.construct F (((-Real.pi) / (2 : ℝ)) - phi_trg) p_single_trg T1_trg T2_trg w.sx_gate_trg_2)))

attribute [qg_unfold] tg t_cr p_cr p_cr_1 construct

end ECRInv

attribute [qg_unfold] g0 g1 g2 g3 g4 g5 g6 g7

end QG.Gen
