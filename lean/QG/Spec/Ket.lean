import Mathlib.Data.Finsupp.Basic
import Mathlib.LinearAlgebra.Finsupp.LSum
import Mathlib.Data.Complex.Basic
import Mathlib.Analysis.SpecialFunctions.Trigonometric.Basic
import QG.Model.Algorithms

/-!
# Ket semantics of ideal circuits (vocabulary of C18)

States are finite formal combinations of computational-basis kets of an unbounded register,
`St := (ℕ → Bool) →₀ ℂ` (`b q` is the value of qubit `q`); a gate is the linear extension
(`Finsupp.lsum`) of its action on a ket.  No matrices and no dimension bookkeeping are needed, and a
gate list of the *model* (`QG.Model.Algorithms.Gate`, the type the driver executable prints) is given
its meaning directly:

* `h q      |b⟩ = r (|b[q:=0]⟩ + (−1)^{b q} |b[q:=1]⟩)`
* `cp ± k i j |b⟩ = (w k)^{± (b i ∧ b j)} |b⟩`          (`w k = e^{iπ/2^k}`)
* `swap a c |b⟩ = |b[a:=b c, c:=b a]⟩`
* `cx c t   |b⟩ = |b[t := b t ⊕ b c]⟩`
* `barrier`, `measure` : identity — `run l ψ` is the state immediately before the (terminal)
  measurements; which classical bit receives which qubit is the separate statement
  `measure_identity_map`, and `prob ψ b = |⟨b|ψ⟩|²` is the Born probability of reading `b`.

`semP r w w'` keeps the amplitude `r` and the phases `w k`, `w' k` abstract (the lemmas need only
`2 r² = 1`, `w k · w' k = 1`, and for the Fourier form `w 0 = −1`, `(w (k+1))² = w k`); `sem`/`run`
instantiate them at the real values `r = 1/√2`, `w k = exp(iπ/2^k)`, `w' k = exp(−iπ/2^k)`.
-/
namespace QG.Spec.Ket
open QG.Model.Algorithms

/-- a computational basis state of an unbounded register: the value of every qubit -/
abbrev Bits := ℕ → Bool
/-- states: finite formal combinations of kets -/
abbrev St := Bits →₀ ℂ

noncomputable section

def ket (b : Bits) : St := Finsupp.single b 1

/-- extend a map on kets linearly -/
def lin (g : Bits → St) : St →ₗ[ℂ] St :=
  Finsupp.lsum ℂ (fun b => (LinearMap.id : ℂ →ₗ[ℂ] ℂ).smulRight (g b))

@[simp] theorem lin_ket (g : Bits → St) (b : Bits) : lin g (ket b) = g b := by
  simp [lin, ket]

theorem lin_ext {f g : St →ₗ[ℂ] St} (h : ∀ b, f (ket b) = g (ket b)) : f = g := by
  apply Finsupp.lhom_ext; intro b c
  have : Finsupp.single b c = c • ket b := by simp [ket]
  rw [this, map_smul, map_smul, h]

/-- `b[q := x]` -/
def upd (b : Bits) (q : ℕ) (x : Bool) : Bits := Function.update b q x

/-- meaning of one instruction of the model, amplitude and phases abstract -/
def semP (r : ℂ) (w w' : ℕ → ℂ) : Gate → St →ₗ[ℂ] St
  | .h q => lin fun b => r • (ket (upd b q false) + (if b q then (-1 : ℂ) else 1) • ket (upd b q true))
  | .cp neg k i j => lin fun b => (if b i && b j then (if neg then w' k else w k) else 1) • ket b
  | .swap a c => lin fun b => ket (upd (upd b a (b c)) c (b a))
  | .cx c t => lin fun b => ket (upd b t (xor (b t) (b c)))
  | .barrier _ => LinearMap.id
  | .measure _ _ => LinearMap.id

/-- run an instruction list, first element first -/
def runP (r : ℂ) (w w' : ℕ → ℂ) : List Gate → St →ₗ[ℂ] St
  | [] => LinearMap.id
  | g :: l => runP r w w' l ∘ₗ semP r w w' g

/-- `1/√2` -/
def rHalf : ℂ := ((Real.sqrt 2)⁻¹ : ℝ)
/-- `exp(iπ/2^k)` -/
def wPhase (k : ℕ) : ℂ := Complex.exp (Complex.I * Real.pi / 2 ^ k)
/-- `exp(−iπ/2^k)` -/
def wPhase' (k : ℕ) : ℂ := Complex.exp (-(Complex.I * Real.pi / 2 ^ k))

/-- the textbook meaning of an instruction -/
def sem : Gate → St →ₗ[ℂ] St := semP rHalf wPhase wPhase'
/-- the state produced by an instruction list (ignoring barriers and terminal measurements) -/
def run : List Gate → St →ₗ[ℂ] St := runP rHalf wPhase wPhase'

/-- Born probability of reading the bit pattern `b` -/
def prob (ψ : St) (b : Bits) : ℝ := Complex.normSq (ψ b)

/-- `|0…0⟩` -/
def zero : Bits := fun _ => false
/-- `|1…1⟩` on the first `m` qubits -/
def ones (m : ℕ) : Bits := fun q => decide (q < m)
/-- indicator of a finite set of qubits -/
def ind (s : Finset ℕ) : Bits := fun q => decide (q ∈ s)
/-- the bit pattern that is `ind t` on the qubits `< n` and `b` above -/
def setLow (n : ℕ) (b : Bits) (t : Finset ℕ) : Bits := fun q => if q < n then decide (q ∈ t) else b q
/-- the integer `Σ_{q<n} b_q 2^q` (Qiskit's little-endian reading) -/
def val (n : ℕ) (b : Bits) : ℕ := ∑ q ∈ Finset.range n, if b q then 2 ^ q else 0
/-- the integer of the bit-reversed pattern, `Σ_{q<n} b_q 2^{n-1-q}` -/
def revVal (n : ℕ) (b : Bits) : ℕ := ∑ q ∈ Finset.range n, if b q then 2 ^ (n - 1 - q) else 0

end

end QG.Spec.Ket
