import Lean
/-! simp sets used by the proofs about generated definitions: every definition emitted by the
translators is tagged, so that proofs unfold "whatever the source defines now" instead of a
hand-maintained list of names. -/
/-- definitions generated from the gate factories / gate sets (QG/Gen/Factories.lean, GateSets.lean) -/
register_simp_attr qg_unfold
/-- per-environment reality facts (star c = c, star e = eb, ...) -/
register_simp_attr qg_real
