import Mathlib.Algebra.Group.End
import Mathlib.Algebra.BigOperators.Fin
import Mathlib.Algebra.BigOperators.Ring.Finset
import Mathlib.Data.Fintype.BigOperators
import Mathlib.Data.Matrix.Basic
import Mathlib.Data.Matrix.Mul
import Mathlib.LinearAlgebra.Matrix.Kronecker
import Mathlib.Tactic
import QG.Spec.GateAlgebra
import QG.Model.Binary
import QG.Lemmas.BinaryBits
/-!
# The concrete `n`-qubit register

Over a commutative semiring `R`.

* A basis state is a bit vector `x : BV n = Fin n → Bool`; `x q` is the bit of qubit `q`.
  **Index convention (numpy's flat order, big-endian):** the basis state `x` is the entry
  `idx x = Σ_q (x q) · 2^(n-1-q)` of the flat state vector — qubit 0 is the most significant bit;
  `bitsFn n i` is the inverse (`bitsFn n i q = testBit i (n-1-q)`).
* A state is `ψ : BV n → R`, an operator is an element of the monoid `Function.End (BV n → R)`
  (functions on states under composition, `(f * g) ψ = f (g ψ)`); equality of operators is equality of
  their action on *every* state.
* A one-qubit matrix is `Matrix Bool Bool R` (`M a b` = numpy's `M[int(a), int(b)]`), a two-qubit matrix
  is `Matrix (Bool × Bool) (Bool × Bool) R` (`M (a,b) (c,d)` = numpy's `M[2a+b, 2c+d]`), so that
  `np.kron(A, B)` is literally Mathlib's `Matrix.kroneckerMap (· * ·) A B`.
* `E1 M q`: `(E1 M q ψ) x = Σ_b M (x q) b · ψ (x[q ↦ b])`.
  `E2 M q₁ q₂` for an ordered pair of distinct qubits, `q₁` ↔ the more significant index bit of `M`:
  `(E2 M q₁ q₂ ψ) x = Σ_{(c,d)} M (x q₁, x q₂) (c, d) · ψ (x[q₁ ↦ c, q₂ ↦ d])`.
  In matrix terms (`E1_eq_matrix`, `E2_eq_matrix`): the entry `(x, y)` is `M (x q) (y q)` resp.
  `M (x q₁, x q₂) (y q₁, y q₂)` if `x` and `y` agree on all other qubits and `0` otherwise — the
  embedding `1 ⊗ … ⊗ M ⊗ … ⊗ 1`.
* `e1`/`e2` take the qubits as natural numbers (as the model does) and are the identity when a qubit is
  `≥ n` (never used: all laws carry `q < n`).

`gateAlgebra` shows that the register satisfies every law of `QG.Spec.GateAlgebra`, so the interface the
optimizer theorems are proved against is not vacuous.
-/
namespace QG.Spec.Register
open QG.Model.Optimizer QG.Spec

variable {R : Type} [CommSemiring R] {n : Nat}

abbrev BV (n : Nat) := Fin n → Bool
abbrev State (R : Type) (n : Nat) := BV n → R
abbrev Op (R : Type) (n : Nat) := Function.End (State R n)

abbrev M2 (R : Type) := Matrix Bool Bool R
abbrev M4 (R : Type) := Matrix (Bool × Bool) (Bool × Bool) R

/-- numpy's operations on 2x2 / 4x4 matrices as Mathlib matrix operations -/
def matOps (R : Type) [CommSemiring R] : MatOps (M2 R) (M4 R) where
  one2 := 1
  mul2 B A := B * A
  one4 := 1
  mul4 B A := B * A
  kron A B := Matrix.kroneckerMap (· * ·) A B

/-- `x[q ↦ b]` -/
def upd (x : BV n) (q : Fin n) (b : Bool) : BV n := Function.update x q b

/-- embedding of a one-qubit matrix on qubit `q` -/
def E1 (M : M2 R) (q : Fin n) : Op R n :=
  fun ψ x => ∑ b : Bool, M (x q) b * ψ (upd x q b)

/-- embedding of a two-qubit matrix on the ordered pair `(a, b)`; `a` ↔ first (more significant) index bit -/
def E2 (M : M4 R) (a b : Fin n) : Op R n :=
  fun ψ x => ∑ c : Bool × Bool, M (x a, x b) c * ψ (upd (upd x a c.1) b c.2)

omit [CommSemiring R] in
theorem mul_apply' (f g : Op R n) (ψ : State R n) : (f * g) ψ = f (g ψ) := rfl
omit [CommSemiring R] in
theorem one_apply' (ψ : State R n) : (1 : Op R n) ψ = ψ := rfl

theorem upd_same (x : BV n) (q : Fin n) (b : Bool) : upd x q b q = b := by simp [upd]
theorem upd_other (x : BV n) (q q' : Fin n) (b : Bool) (h : q' ≠ q) : upd x q b q' = x q' := by
  simp [upd, h]
theorem upd_upd (x : BV n) (q : Fin n) (b c : Bool) : upd (upd x q b) q c = upd x q c := by simp [upd]
theorem upd_self (x : BV n) (q : Fin n) : upd x q (x q) = x := by simp [upd]
theorem upd_comm (x : BV n) (q q' : Fin n) (b c : Bool) (h : q ≠ q') :
    upd (upd x q b) q' c = upd (upd x q' c) q b := by
  unfold upd; exact Function.update_comm h _ _ _

theorem E1_one (q : Fin n) : E1 (1 : M2 R) q = 1 := by
  funext ψ x
  simp only [E1, Fintype.sum_bool, one_apply', Matrix.one_apply]
  have hx := upd_self x q
  cases h : x q <;> rw [h] at hx <;> simp [hx]

theorem E1_mul (A B : M2 R) (q : Fin n) : E1 (B * A) q = E1 B q * E1 A q := by
  funext ψ x
  simp only [E1, mul_apply', Fintype.sum_bool, Matrix.mul_apply, upd_same, upd_upd]
  ring

theorem E1_comm (A B : M2 R) (a b : Fin n) (h : a ≠ b) : E1 A a * E1 B b = E1 B b * E1 A a := by
  funext ψ x
  simp only [E1, mul_apply', Fintype.sum_bool, upd_other _ _ _ _ h, upd_other _ _ _ _ h.symm,
    upd_comm _ a b _ _ h]
  ring

theorem E2_one (a b : Fin n) (_h : a ≠ b) : E2 (1 : M4 R) a b = 1 := by
  funext ψ x
  simp only [E2, Fintype.sum_prod_type, Fintype.sum_bool, one_apply', Matrix.one_apply, Prod.mk.injEq]
  have hx : upd (upd x a (x a)) b (x b) = x := by rw [upd_self, upd_self]
  cases ha : x a <;> cases hb : x b <;> rw [ha, hb] at hx <;> simp [hx]

theorem E2_mul (A B : M4 R) (a b : Fin n) (h : a ≠ b) : E2 (B * A) a b = E2 B a b * E2 A a b := by
  funext ψ x
  simp only [E2, mul_apply', Fintype.sum_prod_type, Fintype.sum_bool, Matrix.mul_apply, upd_same,
    upd_other _ _ _ _ h]
  simp only [upd_comm _ a b _ _ h, upd_upd]
  simp only [← upd_comm _ a b _ _ h]
  ring

theorem E2_kron (A B : M2 R) (a b : Fin n) (h : a ≠ b) :
    E2 (Matrix.kroneckerMap (· * ·) A B) a b = E1 A a * E1 B b := by
  funext ψ x
  simp only [E2, E1, mul_apply', Fintype.sum_prod_type, Fintype.sum_bool, Matrix.kroneckerMap_apply,
    upd_other _ _ _ _ h.symm]
  simp only [upd_comm _ a b _ _ h]
  ring

theorem E1_E2_comm (A : M2 R) (G : M4 R) (q a b : Fin n) (hqa : q ≠ a) (hqb : q ≠ b) :
    E1 A q * E2 G a b = E2 G a b * E1 A q := by
  funext ψ x
  simp only [E1, E2, mul_apply', Fintype.sum_prod_type, Fintype.sum_bool, upd_other _ _ _ _ hqa,
    upd_other _ _ _ _ hqb, upd_other _ _ _ _ hqa.symm, upd_other _ _ _ _ hqb.symm,
    upd_comm _ q a _ _ hqa, upd_comm _ q b _ _ hqb]
  ring

/-! ### qubits as natural numbers -/

/-- `E1` with the qubit given as a natural number (identity if `q ≥ n`) -/
def e1 (M : M2 R) (q : Nat) : Op R n := if h : q < n then E1 M ⟨q, h⟩ else 1

/-- `E2` with the qubits given as natural numbers (identity if one of them is `≥ n`) -/
def e2 (M : M4 R) (a b : Nat) : Op R n :=
  if h : a < n ∧ b < n then E2 M ⟨a, h.1⟩ ⟨b, h.2⟩ else 1

theorem e1_eq (M : M2 R) (q : Nat) (h : q < n) : (e1 M q : Op R n) = E1 M ⟨q, h⟩ := by simp [e1, h]
theorem e2_eq (M : M4 R) (a b : Nat) (ha : a < n) (hb : b < n) :
    (e2 M a b : Op R n) = E2 M ⟨a, ha⟩ ⟨b, hb⟩ := by simp [e2, ha, hb]

private theorem fin_ne {a b : Nat} (ha : a < n) (hb : b < n) (h : a ≠ b) : (⟨a, ha⟩ : Fin n) ≠ ⟨b, hb⟩ := by
  intro heq; exact h (Fin.mk.inj_iff.mp heq)

/-- **the register is a gate algebra** -/
def gateAlgebra (R : Type) [CommSemiring R] (n : Nat) : GateAlgebra (matOps R) n (Op R n) where
  e1 := e1
  e2 := e2
  e1_one q hq := by rw [e1_eq _ _ hq]; exact E1_one _
  e1_mul A B q hq := by simp only [e1_eq _ _ hq]; exact E1_mul A B _
  e2_one a b ha hb h := by rw [e2_eq _ _ _ ha hb]; exact E2_one _ _ (fin_ne ha hb h)
  e2_mul A B a b ha hb h := by simp only [e2_eq _ _ _ ha hb]; exact E2_mul A B _ _ (fin_ne ha hb h)
  e2_kron A B a b ha hb h := by
    simp only [e2_eq _ _ _ ha hb, e1_eq _ _ ha, e1_eq _ _ hb]; exact E2_kron A B _ _ (fin_ne ha hb h)
  comm11 A B a b ha hb h := by
    simp only [e1_eq _ _ ha, e1_eq _ _ hb]; exact E1_comm A B _ _ (fin_ne ha hb h)
  comm12 A G q a b hq ha hb _ hqa hqb := by
    simp only [e1_eq _ _ hq, e2_eq _ _ _ ha hb]
    exact E1_E2_comm A G _ _ _ (fin_ne hq ha hqa) (fin_ne hq hb hqb)

/-! ### the embeddings are linear and have the expected matrices -/

theorem E1_add (M : M2 R) (q : Fin n) (ψ φ : State R n) : E1 M q (ψ + φ) = E1 M q ψ + E1 M q φ := by
  funext x; simp only [E1, Pi.add_apply, Fintype.sum_bool]; ring

theorem E1_smul (M : M2 R) (q : Fin n) (c : R) (ψ : State R n) : E1 M q (c • ψ) = c • E1 M q ψ := by
  funext x; simp only [E1, Pi.smul_apply, smul_eq_mul, Fintype.sum_bool]; ring

theorem E2_add (M : M4 R) (a b : Fin n) (ψ φ : State R n) : E2 M a b (ψ + φ) = E2 M a b ψ + E2 M a b φ := by
  funext x; simp only [E2, Pi.add_apply, Fintype.sum_prod_type, Fintype.sum_bool]; ring

theorem E2_smul (M : M4 R) (a b : Fin n) (c : R) (ψ : State R n) : E2 M a b (c • ψ) = c • E2 M a b ψ := by
  funext x; simp only [E2, Pi.smul_apply, smul_eq_mul, Fintype.sum_prod_type, Fintype.sum_bool]; ring

/-- matrix form of `E1`: entry `(x, y)` is `M (x q) (y q)` if `x, y` agree off `q`, else `0` -/
theorem E1_eq_matrix (M : M2 R) (q : Fin n) (ψ : State R n) (x : BV n) :
    E1 M q ψ x = ∑ y : BV n, (if ∀ p, p ≠ q → x p = y p then M (x q) (y q) else 0) * ψ y := by
  classical
  simp only [E1]
  symm
  rw [← Finset.sum_subset (Finset.subset_univ (Finset.univ.image (fun b => upd x q b)))]
  · rw [Finset.sum_image]
    · apply Finset.sum_congr rfl
      intro b _
      have : ∀ p, p ≠ q → x p = upd x q b p := fun p hp => (upd_other x q p b hp).symm
      rw [if_pos this, upd_same]
    · intro b _ c _ hbc
      have := congrFun hbc q
      simpa [upd_same] using this
  · intro y _ hy
    have : ¬ ∀ p, p ≠ q → x p = y p := by
      intro hall
      apply hy
      refine Finset.mem_image.mpr ⟨y q, Finset.mem_univ _, ?_⟩
      funext p
      by_cases hp : p = q
      · subst hp; simp [upd_same]
      · rw [upd_other _ _ _ _ hp]; exact hall p hp
    simp [this]

/-- matrix form of `E2`: entry `(x, y)` is `M (x a, x b) (y a, y b)` if `x, y` agree off `{a, b}`, else `0` -/
theorem E2_eq_matrix (M : M4 R) (a b : Fin n) (hab : a ≠ b) (ψ : State R n) (x : BV n) :
    E2 M a b ψ x =
      ∑ y : BV n, (if ∀ p, p ≠ a → p ≠ b → x p = y p then M (x a, x b) (y a, y b) else 0) * ψ y := by
  classical
  simp only [E2]
  symm
  rw [← Finset.sum_subset (Finset.subset_univ
    (Finset.univ.image (fun c : Bool × Bool => upd (upd x a c.1) b c.2)))]
  · rw [Finset.sum_image]
    · apply Finset.sum_congr rfl
      intro c _
      have h1 : ∀ p, p ≠ a → p ≠ b → x p = upd (upd x a c.1) b c.2 p := by
        intro p hpa hpb
        rw [upd_other _ _ _ _ hpb, upd_other _ _ _ _ hpa]
      have h2 : upd (upd x a c.1) b c.2 a = c.1 := by rw [upd_other _ _ _ _ hab, upd_same]
      have h3 : upd (upd x a c.1) b c.2 b = c.2 := upd_same _ _ _
      rw [if_pos h1, h2, h3]
    · intro c _ d _ hcd
      have h1 := congrFun hcd a
      have h2 := congrFun hcd b
      simp only [upd_other _ _ _ _ hab, upd_same] at h1 h2
      exact Prod.ext h1 h2
  · intro y _ hy
    have : ¬ ∀ p, p ≠ a → p ≠ b → x p = y p := by
      intro hall
      apply hy
      refine Finset.mem_image.mpr ⟨(y a, y b), Finset.mem_univ _, ?_⟩
      funext p
      by_cases hpb : p = b
      · subst hpb; simp [upd_same]
      · rw [upd_other _ _ _ _ hpb]
        by_cases hpa : p = a
        · subst hpa; simp [upd_same]
        · rw [upd_other _ _ _ _ hpa]; exact hall p hpa hpb
    simp [this]

/-! ### flat vectors: the bridge to the model's lists

The model's state vector is the `List` of its `2^n` entries in numpy's flat order.  `idx x` is the
position of the basis state `x` (`int(bits, 2)` of the string `x 0, x 1, …`), `bitsFn n i` the basis
state at position `i`; `listOf`/`vecOf` convert between `State R n` and lists. -/
open QG.Model.Binary QG.Lemmas.Binary

/-- the scalar dictionary of the model, instantiated with the semiring operations -/
def semiringScalar (R : Type) [CommSemiring R] : Scalar R := ⟨0, 1, (· + ·), (· * ·)⟩

/-- entry lookup of the model: `gate[int(a), int(b)]`, `gate[int(a+b,2), int(c+d,2)]` -/
def regEntries (R : Type) [CommSemiring R] : Entries R (M2 R) (M4 R) where
  get2 M a b := M a b
  get4 M a b c d := M (a, b) (c, d)

/-- flat index of a basis state (qubit 0 = most significant bit) -/
def idx (x : BV n) : Nat := intOfBits (List.ofFn x)

/-- the basis state at flat index `i` -/
def bitsFn (n i : Nat) : BV n := fun q => i.testBit (n - 1 - q)

/-- the flat list of a state -/
def listOf (ψ : State R n) : List R := (List.range (2 ^ n)).map fun i => ψ (bitsFn n i)

/-- the state of a flat list -/
def vecOf (l : List R) : State R n := fun x => l.getD (idx x) 0

theorem ofFn_bitsFn (n i : Nat) : List.ofFn (bitsFn n i) = bitsBE n i := by
  apply List.ext_getElem
  · simp [bitsBE_length]
  · intro p h1 h2
    simp [bitsFn, bitsBE]

theorem idx_lt (x : BV n) : idx x < 2 ^ n := by
  have := intOfBits_lt (List.ofFn x)
  simpa [idx] using this

theorem idx_bitsFn (n i : Nat) (h : i < 2 ^ n) : idx (bitsFn n i) = i := by
  rw [idx, ofFn_bitsFn, intOfBits_bitsBE_of_lt n i h]

theorem bitsFn_idx (x : BV n) : bitsFn n (idx x) = x := by
  apply List.ofFn_injective
  rw [ofFn_bitsFn, idx]
  have := bitsBE_intOfBits (List.ofFn x)
  simpa using this

theorem idx_inj (x y : BV n) : idx x = idx y ↔ x = y :=
  ⟨fun h => by rw [← bitsFn_idx x, ← bitsFn_idx y, h], fun h => h ▸ rfl⟩

omit [CommSemiring R] in
theorem listOf_length (ψ : State R n) : (listOf ψ).length = 2 ^ n := by simp [listOf]

omit [CommSemiring R] in
theorem listOf_getElem? (ψ : State R n) (i : Nat) (h : i < 2 ^ n) : (listOf ψ)[i]? = some (ψ (bitsFn n i)) := by
  simp [listOf, h]

theorem vecOf_listOf (ψ : State R n) : vecOf (listOf ψ) = ψ := by
  funext x
  have h := idx_lt x
  simp only [vecOf, List.getD, listOf_getElem? ψ _ h, Option.getD_some, bitsFn_idx]

theorem listOf_vecOf (l : List R) (h : l.length = 2 ^ n) : listOf (vecOf l : State R n) = l := by
  apply List.ext_getElem?
  intro i
  by_cases hi : i < 2 ^ n
  · rw [listOf_getElem? _ _ hi]
    simp [vecOf, idx_bitsFn n i hi, List.getD, h, hi]
  · rw [List.getElem?_eq_none (by rw [listOf_length]; omega), List.getElem?_eq_none (by omega)]

end QG.Spec.Register
