import Mathlib.Algebra.Group.Defs
import Mathlib.Algebra.Group.Basic
import QG.Model.Optimizer
/-!
# The abstract gate algebra

The optimizer proofs (C02) are carried out against this interface instead of a concrete register, so
that list surgery is free of index arithmetic.  `Op` is a monoid of `n`-qubit operators, `e1 M q` the
embedding of a one-qubit matrix on qubit `q`, `e2 M q₁ q₂` the embedding of a two-qubit matrix on the
ordered pair `(q₁, q₂)` (`q₁` ↔ the more significant index bit of `M`, as in
`gate[int(n_str[q1] + n_str[q2], 2), …]`).  The matrix types and their operations are the model's
`MatOps` (`mul2 B A = B @ A`, `kron A B = np.kron(A, B)`).

Every law carries exactly the side conditions it needs in the concrete register
(`QG.Spec.Register`, which is an instance: the interface is not vacuous): qubits `< n`, the two
qubits of a two-qubit embedding distinct.

Derived: `e2_kron_left/right` — absorbing a one-qubit factor into a two-qubit gate on either side.
-/
namespace QG.Spec
open QG.Model.Optimizer

structure GateAlgebra {M2 M4 : Type} (ops : MatOps M2 M4) (n : Nat) (Op : Type) [Monoid Op] where
  e1 : M2 → Nat → Op
  e2 : M4 → Nat → Nat → Op
  e1_one : ∀ q, q < n → e1 ops.one2 q = 1
  e1_mul : ∀ A B q, q < n → e1 (ops.mul2 B A) q = e1 B q * e1 A q
  e2_one : ∀ a b, a < n → b < n → a ≠ b → e2 ops.one4 a b = 1
  e2_mul : ∀ A B a b, a < n → b < n → a ≠ b → e2 (ops.mul4 B A) a b = e2 B a b * e2 A a b
  e2_kron : ∀ A B a b, a < n → b < n → a ≠ b → e2 (ops.kron A B) a b = e1 A a * e1 B b
  comm11 : ∀ A B a b, a < n → b < n → a ≠ b → e1 A a * e1 B b = e1 B b * e1 A a
  comm12 : ∀ A G q a b, q < n → a < n → b < n → a ≠ b → q ≠ a → q ≠ b →
    e1 A q * e2 G a b = e2 G a b * e1 A q

variable {M2 M4 Op : Type} [Monoid Op] {ops : MatOps M2 M4} {n : Nat}

namespace GateAlgebra
variable (S : GateAlgebra ops n Op)

/-- a well-formed item: qubits `< n`, the two qubits of a two-qubit item distinct -/
def WFItem (n : Nat) : Item M2 M4 → Prop
  | .one _ q => q < n
  | .two _ a b => a < n ∧ b < n ∧ a ≠ b

instance (n : Nat) (x : Item M2 M4) : Decidable (WFItem n x) := by
  cases x <;> unfold WFItem <;> infer_instance

/-- a well-formed gate list (decidable); adjacent or not, ascending or not -/
def WFList (n : Nat) (l : List (Item M2 M4)) : Prop := ∀ x ∈ l, WFItem n x

instance (n : Nat) (l : List (Item M2 M4)) : Decidable (WFList n l) := by
  unfold WFList; infer_instance

/-- the operator of one item -/
def item (S : GateAlgebra ops n Op) : Item M2 M4 → Op
  | .one m q => S.e1 m q
  | .two m a b => S.e2 m a b

/-- the operator a gate list computes: the product of the embeddings in list order, later items
multiplying on the left (`sem [g₁, g₂, g₃] = g₃ * g₂ * g₁`) -/
def sem (S : GateAlgebra ops n Op) : List (Item M2 M4) → Op
  | [] => 1
  | g :: rest => sem S rest * S.item g

@[simp] theorem sem_nil : S.sem [] = 1 := rfl
@[simp] theorem sem_cons (g : Item M2 M4) (l) : S.sem (g :: l) = S.sem l * S.item g := rfl
@[simp] theorem item_one (m : M2) (q) : S.item (.one m q) = S.e1 m q := rfl
@[simp] theorem item_two (m : M4) (a b) : S.item (.two m a b) = S.e2 m a b := rfl
@[simp] theorem item_G1 (g : G1 M2) : S.item (g.item : Item M2 M4) = S.e1 g.m g.q := rfl

theorem sem_append (l₁ l₂ : List (Item M2 M4)) : S.sem (l₁ ++ l₂) = S.sem l₂ * S.sem l₁ := by
  induction l₁ with
  | nil => simp
  | cons g l ih => simp [ih, mul_assoc]

theorem sem_singleton (g : Item M2 M4) : S.sem [g] = S.item g := by simp

/-- absorbing a one-qubit gate on the first qubit of the pair: `G · (A ⊗ 1)` -/
theorem e2_kron_left (G : M4) (A : M2) (a b : Nat) (ha : a < n) (hb : b < n) (h : a ≠ b) :
    S.e2 (ops.mul4 G (ops.kron A ops.one2)) a b = S.e2 G a b * S.e1 A a := by
  rw [S.e2_mul _ _ _ _ ha hb h, S.e2_kron _ _ _ _ ha hb h, S.e1_one _ hb, mul_one]

/-- absorbing a one-qubit gate on the second qubit of the pair: `G · (1 ⊗ A)` -/
theorem e2_kron_right (G : M4) (A : M2) (a b : Nat) (ha : a < n) (hb : b < n) (h : a ≠ b) :
    S.e2 (ops.mul4 G (ops.kron ops.one2 A)) a b = S.e2 G a b * S.e1 A b := by
  rw [S.e2_mul _ _ _ _ ha hb h, S.e2_kron _ _ _ _ ha hb h, S.e1_one _ ha, one_mul]

/-- the same on the other side: `(A ⊗ 1) · G` -/
theorem e2_kron_left' (G : M4) (A : M2) (a b : Nat) (ha : a < n) (hb : b < n) (h : a ≠ b) :
    S.e2 (ops.mul4 (ops.kron A ops.one2) G) a b = S.e1 A a * S.e2 G a b := by
  rw [S.e2_mul _ _ _ _ ha hb h, S.e2_kron _ _ _ _ ha hb h, S.e1_one _ hb, mul_one]

/-- `(1 ⊗ A) · G` -/
theorem e2_kron_right' (G : M4) (A : M2) (a b : Nat) (ha : a < n) (hb : b < n) (h : a ≠ b) :
    S.e2 (ops.mul4 (ops.kron ops.one2 A) G) a b = S.e1 A b * S.e2 G a b := by
  rw [S.e2_mul _ _ _ _ ha hb h, S.e2_kron _ _ _ _ ha hb h, S.e1_one _ ha, one_mul]

theorem WFList.nil : WFList n ([] : List (Item M2 M4)) := by intro x hx; cases hx

theorem WFList.cons {x : Item M2 M4} {l} (hx : WFItem n x) (hl : WFList n l) : WFList n (x :: l) := by
  intro y hy
  rcases List.mem_cons.mp hy with rfl | h
  · exact hx
  · exact hl y h

theorem WFList.head {x : Item M2 M4} {l} (h : WFList n (x :: l)) : WFItem n x := h x (by simp)
theorem WFList.tail {x : Item M2 M4} {l} (h : WFList n (x :: l)) : WFList n l :=
  fun y hy => h y (List.mem_cons_of_mem _ hy)

theorem WFList.append {l₁ l₂ : List (Item M2 M4)} (h₁ : WFList n l₁) (h₂ : WFList n l₂) :
    WFList n (l₁ ++ l₂) := by
  intro y hy
  rcases List.mem_append.mp hy with h | h
  · exact h₁ y h
  · exact h₂ y h

theorem WFList.left {l₁ l₂ : List (Item M2 M4)} (h : WFList n (l₁ ++ l₂)) : WFList n l₁ :=
  fun y hy => h y (List.mem_append_left _ hy)
theorem WFList.right {l₁ l₂ : List (Item M2 M4)} (h : WFList n (l₁ ++ l₂)) : WFList n l₂ :=
  fun y hy => h y (List.mem_append_right _ hy)

theorem WFList.drop {l : List (Item M2 M4)} (h : WFList n l) (k : Nat) : WFList n (l.drop k) :=
  fun y hy => h y (List.mem_of_mem_drop hy)
theorem WFList.take {l : List (Item M2 M4)} (h : WFList n l) (k : Nat) : WFList n (l.take k) :=
  fun y hy => h y (List.mem_of_mem_take hy)

end GateAlgebra
end QG.Spec
