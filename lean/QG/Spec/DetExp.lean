import Mathlib.Analysis.Normed.Algebra.MatrixExponential
import Mathlib.Analysis.SpecialFunctions.Exponential
import Mathlib.Analysis.Calculus.Deriv.Mul
import Mathlib.Analysis.Calculus.MeanValue
import Mathlib.Analysis.Calculus.Deriv.Shift
import Mathlib.Analysis.SpecialFunctions.ExpDeriv
import Mathlib.LinearAlgebra.Matrix.Determinant.Basic
import Mathlib.LinearAlgebra.Matrix.Trace
/-! Jacobi's formula: det (exp A) = exp (trace A) for complex square matrices of any finite size
(not in Mathlib v4.33.0).  One-parameter-group argument: f t := det (exp (t • A)) satisfies
f (s+t) = f s * f t and f' 0 = trace A, so f t * exp (-t * trace A) has zero derivative. -/

namespace QG.Spec
open scoped Matrix.Norms.Operator
open NormedSpace Matrix Finset

variable {n : Type*} [Fintype n] [DecidableEq n]

/-- entry projection as a continuous linear map -/
noncomputable def entryCLM (i j : n) : Matrix n n ℂ →L[ℂ] ℂ :=
  (ContinuousLinearMap.proj (R := ℂ) (φ := fun _ : n => ℂ) j).comp
    (ContinuousLinearMap.proj (R := ℂ) (φ := fun _ : n => n → ℂ) i)

omit [Fintype n] [DecidableEq n] in
theorem entryCLM_apply (i j : n) (M : Matrix n n ℂ) : entryCLM i j M = M i j := rfl

theorem hasDerivAt_exp_entry (A : Matrix n n ℂ) (t : ℂ) (i j : n) :
    HasDerivAt (fun u : ℂ => (exp (u • A)) i j) ((exp (t • A) * A) i j) t := by
  have h := (hasDerivAt_exp_smul_const (𝕂 := ℂ) A t)
  exact (entryCLM i j).hasFDerivAt.comp_hasDerivAt t h

/-- derivative of `det (exp (u • A))` at `0` is `trace A` -/
theorem hasDerivAt_det_exp_zero (A : Matrix n n ℂ) :
    HasDerivAt (fun u : ℂ => (exp (u • A)).det) A.trace 0 := by
  have hentry : ∀ i j, HasDerivAt (fun u : ℂ => (exp (u • A)) i j) (A i j) 0 := by
    intro i j
    have := hasDerivAt_exp_entry A 0 i j
    simpa using this
  -- det as a sum over permutations
  have hdet : (fun u : ℂ => (exp (u • A)).det) =
      fun u => ∑ σ : Equiv.Perm n, (Equiv.Perm.sign σ : ℂ) * ∏ i, (exp (u • A)) (σ i) i := by
    funext u; rw [Matrix.det_apply']
  rw [hdet]
  have hprod : ∀ σ : Equiv.Perm n,
      HasDerivAt (fun u : ℂ => ∏ i, (exp (u • A)) (σ i) i)
        (∑ i, (∏ j ∈ univ.erase i, (exp ((0:ℂ) • A)) (σ j) j) • A (σ i) i) 0 := by
    intro σ
    exact HasDerivAt.fun_finsetProd (fun i _ => hentry (σ i) i)
  have hsum := HasDerivAt.fun_sum (u := (univ : Finset (Equiv.Perm n)))
    (fun σ _ => (hprod σ).const_mul ((Equiv.Perm.sign σ : ℂ)))
  refine HasDerivAt.congr_deriv hsum ?_
  simp only [Matrix.trace, Matrix.diag_apply]
  simp only [zero_smul, NormedSpace.exp_zero, smul_eq_mul]
  rw [Finset.sum_eq_single (1 : Equiv.Perm n)]
  · have h1 : ∀ j : n, (1 : Matrix n n ℂ) ((1 : Equiv.Perm n) j) j = 1 := fun j => by
      rw [Equiv.Perm.one_apply]; exact Matrix.one_apply_eq j
    simp [h1]
  · intro σ _ hσ
    -- σ ≠ 1: every product over `erase i` contains a moved point
    have : ∀ i, ∏ j ∈ univ.erase i, (1 : Matrix n n ℂ) (σ j) j = 0 := by
      intro i
      obtain ⟨k, hk⟩ : ∃ k, σ k ≠ k := by
        by_contra h; push Not at h; exact hσ (Equiv.ext h)
      by_cases hki : k = i
      · -- then σ k ≠ k, and σ (σ k) ≠ σ k, with σ k ≠ i
        subst hki
        have h2 : σ (σ k) ≠ σ k := fun h => hk (σ.injective h)
        exact Finset.prod_eq_zero (i := σ k) (by simp [hk]) (by simp [Matrix.one_apply, h2])
      · exact Finset.prod_eq_zero (i := k) (by simp [hki]) (by simp [Matrix.one_apply, hk])
    simp [this]
  · simp

theorem det_exp_add (A : Matrix n n ℂ) (s t : ℂ) :
    (exp ((s + t) • A)).det = (exp (s • A)).det * (exp (t • A)).det := by
  rw [add_smul, Matrix.exp_add_of_commute _ _ ((Commute.refl A).smul_left s |>.smul_right t),
    Matrix.det_mul]

theorem hasDerivAt_det_exp (A : Matrix n n ℂ) (t : ℂ) :
    HasDerivAt (fun u : ℂ => (exp (u • A)).det) ((exp (t • A)).det * A.trace) t := by
  have h0 : HasDerivAt (fun u : ℂ => (exp (u • A)).det) A.trace (t - t) := by
    rw [sub_self]; exact hasDerivAt_det_exp_zero A
  have h1 := (HasDerivAt.comp_sub_const t t h0).const_mul ((exp (t • A)).det)
  refine h1.congr_of_eventuallyEq (Filter.Eventually.of_forall fun u => ?_)
  simp only
  rw [← det_exp_add]; congr 2; ring

/-- Jacobi's formula. -/
theorem det_exp (A : Matrix n n ℂ) : (exp A).det = Complex.exp A.trace := by
  let F : ℂ → ℂ := fun u => (exp (u • A)).det * Complex.exp (-(u * A.trace))
  have hF : ∀ u, HasDerivAt F 0 u := by
    intro u
    have h1 := hasDerivAt_det_exp A u
    have h2 : HasDerivAt (fun u : ℂ => Complex.exp (-(u * A.trace)))
        (Complex.exp (-(u * A.trace)) * (-(A.trace))) u := by
      have := HasDerivAt.cexp ((hasDerivAt_id u).mul_const A.trace).neg
      simpa using this
    have := h1.mul h2
    refine this.congr_deriv ?_
    ring
  have hconst := is_const_of_deriv_eq_zero (f := F) (fun u => (hF u).differentiableAt)
    (fun u => (hF u).deriv) 1 0
  simp only [F, one_smul, zero_smul, NormedSpace.exp_zero, Matrix.det_one, one_mul, zero_mul,
    neg_zero, Complex.exp_zero] at hconst
  have hne : Complex.exp (-A.trace) ≠ 0 := Complex.exp_ne_zero _
  have : (exp A).det = (Complex.exp (-A.trace))⁻¹ := by
    field_simp; simpa using hconst
  rw [this, Complex.exp_neg, inv_inv]


end QG.Spec
