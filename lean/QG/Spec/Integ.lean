import Mathlib.MeasureTheory.Integral.IntervalIntegral.Basic
import Mathlib.Analysis.SpecialFunctions.Integrals.Basic

/-!
Specification vocabulary shared by the gate-factory properties (C04, C05, C07, C12).

`integ F g θ a` is the real number the property C12 says the integrator returns for the integrand
`g`, the pulse parametrisation `F : [0,1] → [0,1]`, the total angle `θ` and the duration `a`:
the integral over `t ∈ [0, a]` of `g` at the instantaneous angle `θ · F(t/a)`.
(That the code's `Integrator.integrate` returns this number is property C12; the factories' formulas
are stated in terms of it.)
-/
namespace QG.Spec
open intervalIntegral

noncomputable def integ (F : ℝ → ℝ) (g : ℝ → ℝ) (θ a : ℝ) : ℝ :=
  ∫ t in (0:ℝ)..a, g (θ * F (t / a))

/-- integrands add under the integral, for continuous `g`, `h`, `F` -/
theorem integ_add (F g h : ℝ → ℝ) (hF : Continuous F) (hg : Continuous g) (hh : Continuous h) (θ a : ℝ) :
    integ F g θ a + integ F h θ a = integ F (fun x => g x + h x) θ a := by
  unfold integ
  rw [← integral_add]
  · exact (hg.comp (continuous_const.mul (hF.comp (continuous_id.div_const a)))).intervalIntegrable _ _
  · exact (hh.comp (continuous_const.mul (hF.comp (continuous_id.div_const a)))).intervalIntegrable _ _

theorem integ_const (F : ℝ → ℝ) (k θ a : ℝ) : integ F (fun _ => k) θ a = a * k := by
  unfold integ; simp

end QG.Spec
