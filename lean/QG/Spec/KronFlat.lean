import Mathlib.Algebra.BigOperators.Intervals
import Mathlib.Algebra.BigOperators.Ring.Finset
import Mathlib.LinearAlgebra.Matrix.Kronecker
import Mathlib.Logic.Equiv.Fin.Basic
import Mathlib.Tactic
/-!
# Kronecker products on flat (numpy) indices

Mathematical vocabulary of property C01, over any commutative semiring `R`.

* A square matrix of dimension `d` is a function `ℕ → ℕ → R` that vanishes outside `[0,d) × [0,d)` (`IsCut d`);
  a vector of length `d` is a function `ℕ → R` of which only the values below `d` matter.
* `kron dB A B i j = A (i / dB) (j / dB) * B (i % dB) (j % dB)` is `np.kron`'s index definition (`dB` = dimension of
  `B`); `kron_eq_kroneckerMap` identifies it with Mathlib's `Matrix.kroneckerMap (· * ·)` under `finProdFinEquiv`.
* A *leg* is one axis of the row-major reshaped vector: its dimension and the matrix contracted with it, `none` for an
  axis that is left untouched (semantically the identity matrix).  `kronList` is the Kronecker product of the legs'
  matrices, `einsumList` the contraction `Σ_j Π_k A_k[i_k, j_k] ψ[j]` as a nested sum with untouched axes skipped.
* `einsumList_eq`: the contraction is `mulVec (kronList legs)`.
-/
open Finset

set_option linter.unusedSectionVars false

namespace QG.Spec.KronFlat

variable {R : Type} [CommSemiring R]

abbrev FMat (R : Type) := ℕ → ℕ → R

/-- `np.kron` on flat indices; `dB` = dimension of `B` -/
def kron (dB : ℕ) (A B : FMat R) : FMat R :=
  fun i j => A (i / dB) (j / dB) * B (i % dB) (j % dB)

def mulVec (d : ℕ) (M : FMat R) (v : ℕ → R) : ℕ → R :=
  fun i => ∑ j ∈ range d, M i j * v j

/-- the `d × d` identity matrix (zero outside the index range) -/
def idMat (d : ℕ) : FMat R := fun i j => if i = j ∧ i < d then 1 else 0

/-- `A` vanishes outside `[0,d) × [0,d)` -/
def IsCut (d : ℕ) (A : FMat R) : Prop := ∀ i j, d ≤ i ∨ d ≤ j → A i j = 0

/-- a leg of the contraction: dimension and matrix (`none` = identity leg left untouched) -/
abbrev Leg (R : Type) := ℕ × Option (FMat R)

def dims : List (Leg R) → ℕ
  | [] => 1
  | (d, _) :: rest => d * dims rest

def legMat : Leg R → FMat R
  | (_, some A) => A
  | (d, none) => idMat d

def kronList : List (Leg R) → FMat R
  | [] => idMat 1
  | l :: rest => kron (dims rest) (legMat l) (kronList rest)

/-- `oe.contract("aA,cC,ABC->aBc", …)` on the row-major reshaped vector, as nested sums -/
def einsumList : List (Leg R) → (ℕ → R) → ℕ → R
  | [], ψ => ψ
  | (d, some A) :: rest, ψ => fun i =>
      ∑ b ∈ range d, A (i / dims rest) b * einsumList rest (fun j => ψ (b * dims rest + j)) (i % dims rest)
  | (_, none) :: rest, ψ => fun i =>
      einsumList rest (fun j => ψ ((i / dims rest) * dims rest + j)) (i % dims rest)

/-- a leg is *good*: positive dimension and its matrix vanishes outside the index range -/
def Leg.Good (l : Leg R) : Prop := 0 < l.1 ∧ IsCut l.1 (legMat l)

/-! ### sums -/

theorem sum_range_mul (dA dB : ℕ) (f : ℕ → R) :
    ∑ j ∈ range (dA * dB), f j = ∑ b ∈ range dA, ∑ d ∈ range dB, f (b * dB + d) := by
  induction dA with
  | zero => simp
  | succ n ih => rw [Nat.succ_mul, sum_range_add, ih, sum_range_succ]

theorem mulVec_congr {d : ℕ} {M M' : FMat R} {v v' : ℕ → R} {i : ℕ}
    (hM : ∀ j < d, M i j = M' i j) (hv : ∀ j < d, v j = v' j) : mulVec d M v i = mulVec d M' v' i := by
  unfold mulVec
  exact sum_congr rfl fun j hj => by rw [hM j (mem_range.mp hj), hv j (mem_range.mp hj)]

theorem mulVec_kron (d D : ℕ) (hD : 0 < D) (A K : FMat R) (ψ : ℕ → R) (i : ℕ) :
    mulVec (d * D) (kron D A K) ψ i =
      ∑ b ∈ range d, A (i / D) b * mulVec D K (fun j => ψ (b * D + j)) (i % D) := by
  unfold mulVec kron
  rw [sum_range_mul]
  refine sum_congr rfl fun b _ => ?_
  rw [mul_sum]
  refine sum_congr rfl fun c hc => ?_
  have hc' : c < D := mem_range.mp hc
  have h1 : (b * D + c) / D = b := by
    rw [Nat.add_comm, Nat.add_mul_div_right _ _ hD, Nat.div_eq_of_lt hc', Nat.zero_add]
  have h2 : (b * D + c) % D = c := by
    rw [Nat.add_comm, Nat.add_mul_mod_self_right, Nat.mod_eq_of_lt hc']
  rw [h1, h2]; ring

/-- matrix product then application = application twice -/
theorem mulVec_mulVec (d : ℕ) (A B : FMat R) (v : ℕ → R) (i : ℕ) :
    mulVec d (fun i j => ∑ k ∈ range d, A i k * B k j) v i = mulVec d A (mulVec d B v) i := by
  unfold mulVec
  simp only [sum_mul, mul_sum]
  rw [sum_comm]
  refine sum_congr rfl fun k _ => sum_congr rfl fun j _ => ?_
  ring

/-! ### dimensions -/

theorem dims_pos (l : List (Leg R)) (h : ∀ x ∈ l, 0 < x.1) : 0 < dims l := by
  induction l with
  | nil => simp [dims]
  | cons x rest ih =>
    obtain ⟨d, o⟩ := x
    simp only [dims]
    exact Nat.mul_pos (h (d, o) (by simp)) (ih fun y hy => h y (by simp [hy]))

theorem dims_append (l₁ l₂ : List (Leg R)) : dims (l₁ ++ l₂) = dims l₁ * dims l₂ := by
  induction l₁ with
  | nil => simp [dims]
  | cons x rest ih =>
    obtain ⟨d, o⟩ := x
    simp only [List.cons_append, dims, ih, Nat.mul_assoc]

/-! ### the contraction is the Kronecker product applied -/

theorem einsumList_eq (l : List (Leg R)) (hpos : ∀ x ∈ l, 0 < x.1) (ψ : ℕ → R) (i : ℕ)
    (hi : i < dims l) : einsumList l ψ i = mulVec (dims l) (kronList l) ψ i := by
  induction l generalizing ψ i with
  | nil =>
    have : i = 0 := by simpa [dims] using hi
    subst this; simp [einsumList, mulVec, kronList, dims, idMat]
  | cons x rest ih =>
    obtain ⟨d, oA⟩ := x
    have hD : 0 < dims rest := dims_pos rest fun y hy => hpos y (by simp [hy])
    have hmod : i % dims rest < dims rest := Nat.mod_lt _ hD
    have hrest : ∀ y ∈ rest, 0 < y.1 := fun y hy => hpos y (by simp [hy])
    cases oA with
    | some A =>
      simp only [einsumList, kronList, dims, legMat]
      rw [mulVec_kron d (dims rest) hD]
      refine sum_congr rfl fun b _ => ?_
      rw [ih hrest _ _ hmod]
    | none =>
      simp only [einsumList, kronList, dims, legMat]
      rw [mulVec_kron d (dims rest) hD, ih hrest _ _ hmod]
      have hq : i / dims rest < d := by
        rw [Nat.div_lt_iff_lt_mul hD]; simpa [dims] using hi
      rw [sum_eq_single (i / dims rest)]
      · simp [idMat, hq]
      · intro b _ hb; simp [idMat, Ne.symm hb]
      · intro h; exact absurd (mem_range.mpr hq) h

/-! ### algebra of `kron` -/

theorem kron_assoc (dB dC : ℕ) (A B C : FMat R) :
    kron dC (kron dB A B) C = kron (dB * dC) A (kron dC B C) := by
  funext i j
  simp only [kron]
  rw [Nat.div_div_eq_div_mul, Nat.div_div_eq_div_mul, Nat.mul_comm dC dB,
    Nat.mod_mul_left_div_self, Nat.mod_mul_left_div_self,
    Nat.mod_mul_left_mod, Nat.mod_mul_left_mod, mul_assoc]

theorem isCut_idMat (d : ℕ) : IsCut d (idMat d : FMat R) := by
  intro i j h
  unfold idMat
  split_ifs with hc
  · omega
  · rfl

theorem isCut_kron {a b : ℕ} (hb : 0 < b) {A : FMat R} (hA : IsCut a A) (B : FMat R) :
    IsCut (a * b) (kron b A B) := by
  intro i j h
  unfold kron
  have : a ≤ i / b ∨ a ≤ j / b := by
    rcases h with h | h
    · left; exact (Nat.le_div_iff_mul_le hb).mpr h
    · right; exact (Nat.le_div_iff_mul_le hb).mpr h
  rw [hA _ _ this, zero_mul]

theorem isCut_kronList (l : List (Leg R)) (h : ∀ x ∈ l, Leg.Good x) : IsCut (dims l) (kronList l) := by
  induction l with
  | nil => exact isCut_idMat 1
  | cons x rest ih =>
    obtain ⟨d, o⟩ := x
    have hpos : 0 < dims rest := dims_pos rest fun y hy => (h y (by simp [hy])).1
    exact isCut_kron hpos (h (d, o) (by simp)).2 _

/-- `np.kron(1, K) = K` -/
theorem kron_one_left {D : ℕ} {K : FMat R} (hK : IsCut D K) : kron D (idMat 1) K = K := by
  funext i j
  unfold kron idMat
  by_cases hi : i < D
  · by_cases hj : j < D
    · simp [Nat.div_eq_of_lt hi, Nat.div_eq_of_lt hj, Nat.mod_eq_of_lt hi, Nat.mod_eq_of_lt hj]
    · have hD : 0 < D := by omega
      have : 1 ≤ j / D := (Nat.le_div_iff_mul_le hD).mpr (by omega)
      rw [hK i j (Or.inr (by omega))]
      simp [Nat.div_eq_of_lt hi]; omega
  · by_cases hD : D = 0
    · subst hD; simp [hK i j (Or.inl (Nat.zero_le _))]
    · have : 1 ≤ i / D := (Nat.le_div_iff_mul_le (by omega)).mpr (by omega)
      rw [hK i j (Or.inl (by omega))]
      have : ¬ (i / D = j / D ∧ i / D < 1) := by omega
      rw [if_neg this, zero_mul]

/-- `np.kron(A, 1) = A` -/
theorem kron_one_right (A : FMat R) : kron 1 A (idMat 1) = A := by
  funext i j
  simp [kron, idMat, Nat.mod_one]

theorem kron_idMat (a : ℕ) {b : ℕ} (hb : 0 < b) : kron b (idMat a) (idMat b : FMat R) = idMat (a * b) := by
  funext i j
  unfold kron idMat
  have hmi : i % b < b := Nat.mod_lt _ hb
  by_cases h : i = j ∧ i < a * b
  · obtain ⟨rfl, hi⟩ := h
    have : i / b < a := (Nat.div_lt_iff_lt_mul hb).mpr hi
    simp [this, hmi, hi]
  · rw [if_neg h]
    by_cases h1 : i / b = j / b ∧ i / b < a
    · by_cases h2 : i % b = j % b ∧ i % b < b
      · exfalso; apply h
        have e1 := Nat.div_add_mod i b
        have e2 := Nat.div_add_mod j b
        constructor
        · rw [← e1, ← e2, h1.1, h2.1]
        · have := (Nat.div_lt_iff_lt_mul hb).mp h1.2; exact this
      · simp [h2]
    · simp [h1]

theorem kronList_append (l₁ l₂ : List (Leg R)) (h₂ : ∀ x ∈ l₂, Leg.Good x) :
    kronList (l₁ ++ l₂) = kron (dims l₂) (kronList l₁) (kronList l₂) := by
  induction l₁ with
  | nil =>
    simp only [List.nil_append, kronList]
    exact (kron_one_left (isCut_kronList l₂ h₂)).symm
  | cons x rest ih =>
    simp only [List.cons_append, kronList, ih, dims_append]
    rw [kron_assoc]

theorem kronList_singleton (d : ℕ) (A : FMat R) : kronList [((d, some A) : Leg R)] = A := by
  simp only [kronList, dims, legMat]
  exact kron_one_right A

/-! ### bridge to Mathlib's Kronecker product -/

/-- a Mathlib matrix as a flat-index function (zero outside the range) -/
def ofMatrix {d : ℕ} (A : Matrix (Fin d) (Fin d) R) : FMat R :=
  fun i j => if h : i < d ∧ j < d then A ⟨i, h.1⟩ ⟨j, h.2⟩ else 0

/-- `kron` is Mathlib's `Matrix.kroneckerMap (· * ·)` transported along `finProdFinEquiv`
(`(i, k) ↦ i * b + k`, numpy's row-major pairing) -/
theorem kron_eq_kroneckerMap {a b : ℕ} (A : Matrix (Fin a) (Fin a) R) (B : Matrix (Fin b) (Fin b) R) :
    kron b (ofMatrix A) (ofMatrix B) =
      ofMatrix (Matrix.reindex finProdFinEquiv finProdFinEquiv (Matrix.kroneckerMap (· * ·) A B)) := by
  funext i j
  unfold kron ofMatrix
  by_cases hb : b = 0
  · subst hb; simp
  have hb' : 0 < b := Nat.pos_of_ne_zero hb
  by_cases h : i < a * b ∧ j < a * b
  · have hi : i / b < a := (Nat.div_lt_iff_lt_mul hb').mpr h.1
    have hj : j / b < a := (Nat.div_lt_iff_lt_mul hb').mpr h.2
    have hmi : i % b < b := Nat.mod_lt _ hb'
    have hmj : j % b < b := Nat.mod_lt _ hb'
    rw [dif_pos ⟨hi, hj⟩, dif_pos ⟨hmi, hmj⟩, dif_pos h]
    simp only [Matrix.reindex_apply, Matrix.submatrix_apply, Matrix.kroneckerMap_apply]
    rfl
  · rw [dif_neg h]
    have : ¬ (i / b < a ∧ j / b < a) := by
      intro hh; apply h
      exact ⟨(Nat.div_lt_iff_lt_mul hb').mp hh.1, (Nat.div_lt_iff_lt_mul hb').mp hh.2⟩
    rw [dif_neg this, zero_mul]

end QG.Spec.KronFlat
