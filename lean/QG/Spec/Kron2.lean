import Mathlib.LinearAlgebra.Matrix.Kronecker
import Mathlib.Logic.Equiv.Fin.Basic

/-! `np.kron` of two 2x2 matrices as a 4x4 matrix: row index `2*i₁ + i₂`, column index `2*j₁ + j₂`
(`finProdFinEquiv (i₁, i₂) = i₂ + 2 * i₁`), i.e. Mathlib's Kronecker product reindexed to `Fin 4`. -/
namespace QG.Spec
open Matrix Kronecker

/-- the index bijection of `np.kron` for two 2-dimensional factors: `(i₁, i₂) ↦ 2*i₁ + i₂` -/
def e22 : Fin 2 × Fin 2 ≃ Fin 4 := (finProdFinEquiv : Fin 2 × Fin 2 ≃ Fin (2 * 2))

def kron2 {R : Type*} [Mul R] (A B : Matrix (Fin 2) (Fin 2) R) : Matrix (Fin 4) (Fin 4) R :=
  Matrix.reindex e22 e22 (A ⊗ₖ B)

theorem kron2_apply {R : Type*} [Mul R] (A B : Matrix (Fin 2) (Fin 2) R) (i j : Fin 4) :
    kron2 A B i j = A (e22.symm i).1 (e22.symm j).1 * B (e22.symm i).2 (e22.symm j).2 := rfl

example : e22 (1, 0) = 2 ∧ e22 (0, 1) = 1 ∧ e22 (1, 1) = 3 := by decide

end QG.Spec
