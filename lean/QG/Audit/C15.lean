import QG.Props.C15
#print axioms QG.C15.texts_roundtrip
#print axioms QG.C15.json_roundtrip
#print axioms QG.C15.reloaded_arrays
#print axioms QG.C15.reloaded_eq
#print axioms QG.C15.roundtrip_iter
#print axioms QG.C15.layout_side
#print axioms QG.C15.texts_roundtrip_layout
#print axioms QG.C15.missing_file_raises
#print axioms QG.C15.fileNotFound_only_if_missing
#print axioms QG.C15.failed_load_incomplete
#print axioms QG.C15.save_incomplete_raises
