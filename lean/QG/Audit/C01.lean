import QG.Props.C01
#print axioms QG.C01.standard_spec
#print axioms QG.C01.efficient_spec
#print axioms QG.C01.ones_spec
#print axioms QG.C01.empty_layer_list
#print axioms QG.C01.efficient_too_many_operands
#print axioms QG.C01.numOperands_closed_form
#print axioms QG.C01.standard_linear
#print axioms QG.C01.efficient_linear
#print axioms QG.C01.ones_linear
#print axioms QG.C01.standard_identity_irrelevant
#print axioms QG.C01.efficient_identity_irrelevant
#print axioms QG.C01.ones_identity_irrelevant
#print axioms QG.C01.backends_agree
#print axioms QG.C01.singleLayer_wf
#print axioms QG.C01.msb_first
#print axioms QG.C01.layer_eq_prod_embed
#print axioms QG.C01.binary_layer_spec
