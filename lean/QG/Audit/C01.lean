import QG.Props.C01
#print axioms QG.C01.stage1_stub
