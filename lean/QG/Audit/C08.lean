import QG.Props.C08
#print axioms QG.C08.cnot_call_own
#print axioms QG.C08.ecr_call_own
#print axioms QG.C08.two_qubit_phase_args
#print axioms QG.C08.one_qubit_phase_arg
#print axioms QG.C08.binary_calls_own
#print axioms QG.C08.binary_bitflips_own
#print axioms QG.C08.layered_calls_own
#print axioms QG.C08.layered_layer_complete
#print axioms QG.C08.binary_two_qubit_slots
#print axioms QG.C08.relabel_calls
