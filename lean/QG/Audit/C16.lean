import QG.Props.C16
#print axioms QG.C16.bitsBE_length
#print axioms QG.C16.toNat_bitsBE
#print axioms QG.C16.keyOf_eq_bitsBE
#print axioms QG.C16.fix_counts_spec
#print axioms QG.C16.fix_counts_keys
#print axioms QG.C16.reverse_bitsBE_lt
#print axioms QG.C16.fix_counts_twice
#print axioms QG.C16.fix_counts_of_measurement
