import QG.Props.C05
#print axioms QG.C05.single_qubit_det
#print axioms QG.C05.x_det
#print axioms QG.C05.sx_det
#print axioms QG.C05.cr_det
#print axioms QG.C05.relaxation_det
#print axioms QG.C05.bitflip_det
#print axioms QG.C05.depolarizing_det
#print axioms QG.C05.decay_add
#print axioms QG.C05.decay_mul
#print axioms QG.C05.cnot_det
#print axioms QG.C05.cnot_inv_det
#print axioms QG.C05.ecr_det
#print axioms QG.C05.ecr_inv_det
