import QG.Props.C18
#print axioms QG.C18.ghz_circ_total
#print axioms QG.C18.ghz_state
#print axioms QG.C18.ghz_probabilities
#print axioms QG.C18.hinvqft_zero
#print axioms QG.C18.hinvqft_probability
#print axioms QG.C18.revVal_is_bit_reversal
#print axioms QG.C18.rHalf_pow_sq
#print axioms QG.C18.qft_is_dft
#print axioms QG.C18.qft_matrix_entry
#print axioms QG.C18.qft_zero_uniform
#print axioms QG.C18.measure_identity_map
#print axioms QG.C18.measure_each_qubit_once
#print axioms QG.C18.measures_terminal
