import QG.Props.C17
#print axioms QG.C17.hellinger_eq
#print axioms QG.C17.hellinger_sq
#print axioms QG.C17.hellinger_nonneg
#print axioms QG.C17.hellinger_formula
#print axioms QG.C17.hellinger_symm
#print axioms QG.C17.hellinger_le_one
#print axioms QG.C17.hellinger_eq_zero_iff
#print axioms QG.C17.hellinger_eq_one_iff
#print axioms QG.C17.hellinger_triangle
