import QG.Props.C06
#print axioms QG.C06.handoff_CNOT
#print axioms QG.C06.handoff_CNOT_inv
#print axioms QG.C06.handoff_ECR
#print axioms QG.C06.handoff_ECR_inv
#print axioms QG.C06.pcr_zero
#print axioms QG.C06.pcr_clamped
#print axioms QG.C06.pcr_nonneg_iff
#print axioms QG.C06.quiet_pulse_is_ideal
#print axioms QG.C06.one_sided_pair
#print axioms QG.C06.one_sided_pair'
#print axioms QG.C06.one_sided_cr
#print axioms QG.C06.one_sided_cr'
