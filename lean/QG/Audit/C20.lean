import QG.Props.C20
#print axioms QG.C20.max_label_spec
#print axioms QG.C20.natives_spec
#print axioms QG.C20.calib_eq_none_iff
#print axioms QG.C20.calib_eq_some_iff
#print axioms QG.C20.calib_single_gate
#print axioms QG.C20.per_qubit_spec
#print axioms QG.C20.per_qubit_at
#print axioms QG.C20.table_shape
#print axioms QG.C20.table_spec
#print axioms QG.C20.table_spec_no_self_pair
#print axioms QG.C20.table_single_label_zero
#print axioms QG.C20.error_order
#print axioms QG.C20.rejects_unsupported_type
#print axioms QG.C20.rejects_no_native_gate
#print axioms QG.C20.load_ok_iff
