import QG.Props.C02
#print axioms QG.C02.sem_level1
#print axioms QG.C02.level1_no_adjacent_same
#print axioms QG.C02.sem_process_snippet
#print axioms QG.C02.sem_level2
#print axioms QG.C02.sem_level3
#print axioms QG.C02.sem_level4
#print axioms QG.C02.optimize_sem
#print axioms QG.C02.optimize_level_out_of_range
#print axioms QG.C02.optimize_clamp
#print axioms QG.C02.optimize_sem_register
#print axioms QG.C02.create_sparse_spec_one
#print axioms QG.C02.create_sparse_spec_two
#print axioms QG.C02.create_dense_spec_one
#print axioms QG.C02.create_dense_spec_two
#print axioms QG.C02.apply_item_spec
#print axioms QG.C02.binary_spec
#print axioms QG.C02.binary_empty
