import QG.Props.C02
#print axioms QG.C02.optimize_level_out_of_range
