/-
Import-free executable model of circuit objects *as they are reused* (C11): histories of
build calls / statevector evaluations / reset() on one object of each circuit class.

It extends the state machines of `QG.Model.Wiring`:

* `Circuit` (grid) and `AlternativeCircuit` (layered): `statevector` only reads the object, so an evaluation
  is the identity on the state (`HOp.eval`).
* `BinaryCircuit`: `statevector` hands `self._info_gates_list` itself to `Optimizer.optimize`, which rewrites
  the qubit list of every item in place (`[q, -1]` becomes `[q]`, circ_optimizer.py:70-74).  The object is
  therefore modelled with the qubit lists *as they stand in memory* (`QL`), next to the `BinState` of the
  wiring model; an evaluation normalises all of them.
-/
import QG.Model.Wiring
namespace QG.Model.Reuse
open QG.Model.Wiring

variable {Φ : Type}

/-- one element of a history on a circuit object -/
inductive HOp (Φ : Type)
  | call (c : CircCall Φ)
  | eval
  | reset
  deriving Repr, DecidableEq

def HOp.isEval : HOp Φ → Bool
  | .eval => true
  | _ => false

/-! ### grid and layered classes: evaluation only reads -/

def gridH (P : PhaseOps Φ) (st : GridState Φ) : HOp Φ → Except Err (GridState Φ)
  | .call c => st.step P c
  | .eval => .ok st
  | .reset => .ok (st.reset P)

def layerH (P : PhaseOps Φ) (st : LayerState Φ) : HOp Φ → Except Err (LayerState Φ)
  | .call c => st.step P c
  | .eval => .ok st
  | .reset => .ok (st.reset P)

/-! ### index-based class -/

/-- the qubit list of an item of `_info_gates_list` as it stands in memory: `[i, -1]`, `[i]`, `[i, k]` -/
inductive QL
  | pad (i : Nat)
  | one (i : Nat)
  | two (i k : Nat)
  deriving Repr, DecidableEq

/-- `if len(i[1]) == 2: if i[1][1] == -1: i[1] = [i[1][0]]` -/
def QL.norm : QL → QL
  | .pad i => .one i
  | q => q

/-- the qubit list `apply(gate, i, j)` stores for a freshly sampled item: `[i, j]` -/
def freshQL (it : BinItem Φ) : QL := if it.j = -1 then .pad it.i else .two it.i it.j.toNat

structure BinObj (Φ : Type) where
  st : BinState Φ
  qls : List QL            -- newest first, parallel to `st.items`
  deriving Repr, DecidableEq

def BinObj.init (P : PhaseOps Φ) (n : Nat) : BinObj Φ := ⟨BinState.init P n, []⟩

/-- a build call: the wiring model's step; the items it prepends get their fresh qubit lists -/
def BinObj.step (P : PhaseOps Φ) (o : BinObj Φ) (c : CircCall Φ) : Except Err (BinObj Φ) := do
  let st' ← o.st.step P c
  let added := st'.items.take (st'.items.length - o.st.items.length)
  pure ⟨st', added.map freshQL ++ o.qls⟩

/-- `statevector`: every stored qubit list is normalised in place (only if the list is non-empty, which makes
no difference) -/
def BinObj.eval (o : BinObj Φ) : BinObj Φ := { o with qls := o.qls.map QL.norm }

def BinObj.reset (P : PhaseOps Φ) (o : BinObj Φ) : BinObj Φ := ⟨o.st.reset P, []⟩

def binH (P : PhaseOps Φ) (o : BinObj Φ) : HOp Φ → Except Err (BinObj Φ)
  | .call c => o.step P c
  | .eval => .ok o.eval
  | .reset => .ok (o.reset P)

/-- what the backend is handed by `statevector`: (sampling call, normalised qubit list), oldest first -/
def BinObj.seen (o : BinObj Φ) : List (Option (GateCall Φ) × QL) :=
  (o.st.items.map (·.gate)).reverse.zip (o.qls.map QL.norm).reverse

end QG.Model.Reuse
