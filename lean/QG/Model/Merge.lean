/-
Import-free executable model of `post_process_split`
(src/quantum_gates/_utility/simulations_utility.py:193-220), as it reads after the minimal repair of
defect D13 (`assert not any(...)` instead of `assert not all(...)`, see notes/fixes/D13-merge-any.diff).

File system.  A finite map path ↦ array, represented as an association list in which the first
binding of a path wins (`read`); `write` prepends a binding, so it creates or overwrites exactly one
path.  Paths are compared as strings (no aliases / symlinks), every existing path is a regular
file holding a numeric table (`os.path.isfile(p)` = `p` is bound).

Arrays.  What `np.loadtxt` returns is modelled by the flat list of its entries.  Arrays of the same
shape are added and divided entry by entry, so beyond "same shape" the shape plays no role; two
arrays of different length make `target_array += ...` raise `ValueError` (`Err.shape`; this is
numpy's behaviour for one-dimensional tables of different length ≥ 2 — broadcasting between a
table and a row / a single number is outside the model).  Entries are of an arbitrary type with the
two operations the code uses (`Arith`): `+` and division by the integer `split`.

Transcription, statement by statement:
  assert split * len(target_filenames) == len(source_filenames)      -> `Err.assertCount`
  assert all(os.path.isfile(f) for f in source_filenames)            -> `Err.assertSource`
  assert not any(os.path.isfile(f) for f in target_filenames)        -> `Err.assertTarget`   (repaired)
  assert split > 1                                                   -> `Err.assertSplit`
  i = 0
  for target_file in target_filenames:                               -> `mergeLoop` (recursion on the targets, index `i`)
      target_array = np.loadtxt(source_filenames[i])                 -> `src[i]?` (`IndexError`), `read` (`notFound`)
      for source_file in source_filenames[i+1:i+split]:              -> `(src.drop (i+1)).take (split-1)`
          target_array += np.loadtxt(source_file)                    -> `accumulate` / `addArr`
      mean_array = target_array / split                              -> `map (divNat · split)`
      np.savetxt(target_file, mean_array)                            -> `write`
      i += split
A Python call either returns or raises, and has changed the disk in either case; the model
therefore returns the pair (final file system, `Except Err Unit`).
-/
namespace QG.Model.Merge

/-- the two arithmetic operations the merge performs on array entries -/
structure Arith (α : Type) where
  add : α → α → α
  /-- `x / split` -/
  divNat : α → Nat → α

inductive Err
  /-- `AssertionError("Number of provided files and split does not go together.")` -/
  | assertCount
  /-- `AssertionError("Found invalid filename.")` -/
  | assertSource
  /-- `AssertionError("At least one target files already exists.")` -/
  | assertTarget
  /-- `AssertionError("Using a split of {split} does not make sense.")` -/
  | assertSplit
  /-- `IndexError` of `source_filenames[i]` (shown unreachable) -/
  | index
  /-- `FileNotFoundError` of `np.loadtxt` (shown unreachable) -/
  | notFound
  /-- `ValueError` of `target_array += ...` on arrays of different shape -/
  | shape
  deriving Repr, DecidableEq

/-- the exception is one of the four `assert`s, i.e. the call was refused before the loop -/
def Err.isAssertion : Err → Bool
  | .assertCount | .assertSource | .assertTarget | .assertSplit => true
  | _ => false

/-- association list path ↦ array; the first binding of a path is the file's content -/
abbrev FS (α : Type) := List (String × List α)

variable {α : Type}

/-- content of the file at `p` (`none`: no such file) -/
def read (fs : FS α) (p : String) : Option (List α) := fs.lookup p

/-- `os.path.isfile(p)` -/
def isFile (fs : FS α) (p : String) : Bool := (read fs p).isSome

/-- `np.savetxt(p, v)`: creates or overwrites `p`, touches nothing else -/
def write (fs : FS α) (p : String) (v : List α) : FS α := (p, v) :: fs

/-- `x += y` on arrays: entry-wise for equal shapes, `ValueError` otherwise -/
def addArr (A : Arith α) (x y : List α) : Except Err (List α) :=
  if x.length = y.length then .ok (List.zipWith A.add x y) else .error .shape

/-- `for source_file in <files>: target_array += np.loadtxt(source_file)` -/
def accumulate (A : Arith α) (fs : FS α) : List α → List String → Except Err (List α)
  | acc, [] => .ok acc
  | acc, f :: rest =>
    match read fs f with
    | none => .error .notFound
    | some a =>
      match addArr A acc a with
      | .error e => .error e
      | .ok acc' => accumulate A fs acc' rest

/-- the `for target_file in target_filenames` loop; `i` is the loop's index variable, the list
argument the targets still to be written -/
def mergeLoop (A : Arith α) (src : List String) (split : Nat) :
    Nat → List String → FS α → FS α × Except Err Unit
  | _, [], fs => (fs, .ok ())
  | i, t :: ts, fs =>
    match src[i]? with
    | none => (fs, .error .index)
    | some s0 =>
      match read fs s0 with
      | none => (fs, .error .notFound)
      | some a0 =>
        match accumulate A fs a0 ((src.drop (i + 1)).take (split - 1)) with
        | .error e => (fs, .error e)
        | .ok total => mergeLoop A src split (i + split) ts (write fs t (total.map (A.divNat · split)))

/-- `post_process_split(source_filenames, target_filenames, split)` on the file system `fs`
(repaired code: a call is refused when ANY target exists). -/
def postProcessSplit (A : Arith α) (fs : FS α) (src tgt : List String) (split : Int) :
    FS α × Except Err Unit :=
  if split * (tgt.length : Int) ≠ (src.length : Int) then (fs, .error .assertCount)
  else if !(src.all (isFile fs)) then (fs, .error .assertSource)
  else if tgt.any (isFile fs) then (fs, .error .assertTarget)
  else if ¬ (split > 1) then (fs, .error .assertSplit)
  else mergeLoop A src split.toNat 0 tgt fs

/-- the code as found on the pinned tree (defect D13): the third assertion reads
`assert not all(isfile(f) for f in target_filenames)`.  Not used by the property theorems; kept so
that the difference the repair makes can be stated (`QG/Props/C19.lean`, last `example`s). -/
def postProcessSplitPinned (A : Arith α) (fs : FS α) (src tgt : List String) (split : Int) :
    FS α × Except Err Unit :=
  if split * (tgt.length : Int) ≠ (src.length : Int) then (fs, .error .assertCount)
  else if !(src.all (isFile fs)) then (fs, .error .assertSource)
  else if tgt.all (isFile fs) then (fs, .error .assertTarget)
  else if ¬ (split > 1) then (fs, .error .assertSplit)
  else mergeLoop A src split.toNat 0 tgt fs

/-- exact rational arithmetic (what the driver runs; the correspondence feeds integer-valued tables) -/
def ratArith : Arith Rat := ⟨(· + ·), fun x n => x / (n : Rat)⟩

end QG.Model.Merge
