import QG.Model.Pool
/-
Executable model of where the shots of `MrAndersonSimulator._perform_simulation`
(src/quantum_gates/_simulation/simulator.py) take their random numbers from, and of how their
results are accumulated — as the code reads after the minimal repair of defect D12
(notes/fixes/D12-parallel-shot-seeds.diff), together with the code as found (`repaired := false`).
Imports only the import-free pool model of C19 (`nProcesses`, `chunksize`, `chunks`, `Schedule`).

Idealised generator.  A generator is a *stream* of outputs (for numpy's legacy global generator:
the sequence of Gaussian variates `np.random.normal / multivariate_normal` hand out) together with a
position.  Which stream a process draws from:
  `parent`       the global generator of the process that calls `run`, as seeded by the user;
  `server`       the global generator of a fork server that has numpy preloaded (inherited by all its workers)
  `fresh w`      the global generator of worker `w` of a pool started with `spawn` / `forkserver`:
                 a new interpreter seeds it from OS entropy;
  `child e i`    what `np.random.seed(args["seed"])` selects in the repaired code: the `i`-th child of
                 `np.random.SeedSequence(entropy)`, where the entropy was drawn from the parent's
                 generator at position `e`.
A *draw source* (`Src`) is an interval `(stream, start, len)` of such a stream.

Transcription (R = only in the repaired code):
  arg_list = [ {...} for i in range(shots) ]                                   -> `mkArgs`
R if self.parallel:
R     entropy = np.random.randint(0, 2**32, size=4, dtype=np.uint64).tolist()  -> parent advances by `entropyDraws`
R     for arg, child in zip(arg_list, np.random.SeedSequence(entropy).spawn(shots)):
R         arg["seed"] = child.generate_state(8)                                -> `seed := some (child e i)`
  if self.parallel:
      n_processes = max(int(0.8 * cpu_count), 2)                               -> `Pool.nProcesses`
      chunksize = max(1, int(shots / n_processes) + (1 if shots % n_processes > 0 else 0))  -> `Pool.chunksize`
      p = multiprocessing.Pool(n_processes)                                    -> `workerInit` (fork: copy of the parent's generator)
      for shot_result in p.imap_unordered(_single_shot, arg_list, chunksize):  -> `consume` over `Pool.chunks`, any `Schedule`
          r_sum += shot_result                                                 -> `accumulate` in completion order
  else:
      for arg in arg_list: r_sum += _single_shot(arg)                          -> `runShots` on the parent's generator
  r_mean = r_sum / shots                                                       -> `estimate`
  (run:) total_prob = np.sum(probs); assert total_prob > 0; probs / total_prob -> `normalise`
  _single_shot(args):
R     if "seed" in args: np.random.seed(args["seed"])                          -> `singleShot`, `seed`
      ... the sampled gates draw `len` outputs from the process's generator ...

Trusted (the definition of a schedule, as in C19): `imap_unordered` cuts the argument list into
consecutive batches of `chunksize`, runs every batch exactly once on one worker, the calls of a
batch in order, and yields the results batch by batch in completion order; a worker runs its
batches one after the other, so the completion order restricted to one worker is its execution order.
`fork` copies the parent's generator state into every worker (all workers are forked inside `Pool(...)`).
-/
namespace QG.Model.Shots
open QG.Model.Pool

/-- which generator stream -/
inductive Stream where
  | parent
  | fresh (w : Nat)
  | child (e i : Nat)
  | server
  deriving DecidableEq, Repr

/-- state of a process's global generator: a stream and the position of the next output -/
structure Gen where
  stream : Stream
  pos : Nat
  deriving DecidableEq, Repr

/-- a draw source: the outputs `start, …, start + len - 1` of `stream` -/
structure Src where
  stream : Stream
  start : Nat
  len : Nat
  deriving DecidableEq, Repr

/-- output number `k` of stream `s` belongs to the source -/
def Src.covers (a : Src) (s : Stream) (k : Nat) : Prop :=
  a.stream = s ∧ a.start ≤ k ∧ k < a.start + a.len

/-- two sources have no generator output in common -/
def Src.Disjoint (a b : Src) : Prop := ∀ s k, ¬ (a.covers s k ∧ b.covers s k)

/-- executable form of `Src.Disjoint` (`QG.Lemmas.Shots.disjointB_iff`) -/
def Src.disjointB (a b : Src) : Bool :=
  a.stream != b.stream || a.len == 0 || b.len == 0 ||
    decide (a.start + a.len ≤ b.start) || decide (b.start + b.len ≤ a.start)

/-- process start method of the pool.  `forkserver` is the fork server with numpy preloaded
(`multiprocessing.set_forkserver_preload`, the intended use of that start method): every worker is forked from the
server and inherits the server's one generator state (stream `server`, OS-seeded when the server imported numpy);
without the preload every worker imports numpy itself and `forkserver` behaves like `spawn` -/
inductive StartMethod where
  | fork
  | spawn
  | forkserver
  deriving DecidableEq, Repr

/-- one entry of `arg_list`, as far as randomness is concerned: the shot's number and the optional
`"seed"` key (the stream `np.random.seed(args["seed"])` selects) -/
structure Arg where
  index : Nat
  seed : Option Stream
  deriving DecidableEq, Repr

/-- number of outputs of the parent's generator the repaired code spends on the entropy -/
def entropyDraws : Nat := 4

/-- the argument list built by the parent and the parent's generator afterwards.  Only the repaired
code in parallel mode touches the generator here; the sequential path draws nothing. -/
def mkArgs (repaired parallel : Bool) (g : Gen) (S : Nat) : List Arg × Gen :=
  if repaired && parallel then
    ((List.range S).map fun i => ⟨i, some (.child g.pos i)⟩, ⟨g.stream, g.pos + entropyDraws⟩)
  else
    ((List.range S).map fun i => ⟨i, none⟩, g)

/-- `_single_shot` on a process whose generator is `g`: re-seed if the argument carries a seed, then
the shot's `len` draws.  Returns the shot's draw source and the generator afterwards. -/
def singleShot (seed : Option Stream) (len : Nat) (g : Gen) : Src × Gen :=
  let g0 : Gen := match seed with
    | some st => ⟨st, 0⟩
    | none => g
  (⟨g0.stream, g0.pos, len⟩, ⟨g0.stream, g0.pos + len⟩)

/-- one process runs the shots of `task` one after the other (the sequential loop, and `mapstar`
inside a worker); `len i` = number of generator outputs shot `i` consumes -/
def runShots (len : Nat → Nat) : Gen → List Arg → List (Nat × Src) × Gen
  | g, [] => ([], g)
  | g, a :: as =>
    match singleShot a.seed (len a.index) g with
    | (src, g') =>
      match runShots len g' as with
      | (r, g'') => ((a.index, src) :: r, g'')

/-- what is known about one executed shot -/
structure Entry where
  shot : Nat
  worker : Nat
  src : Src
  deriving DecidableEq, Repr

/-- generator of worker `w` when it starts: `fork` copies the parent's generator as it is when the
pool is created, a spawned interpreter seeds its own from the OS -/
def workerInit (start : StartMethod) (parentAtFork : Gen) (w : Nat) : Gen :=
  match start with
  | .fork => parentAtFork
  | .spawn => ⟨.fresh w, 0⟩
  | .forkserver => ⟨.server, 0⟩

/-- the pool at work: batches complete in the order `order`; batch `c` runs on worker `worker[c]`,
which continues with the generator state its previous batch left behind (`gens`) -/
def consume (len : Nat → Nat) (tasks : List (List Arg)) (worker : List Nat) :
    (Nat → Gen) → List Nat → List Entry
  | _, [] => []
  | gens, c :: rest =>
    match tasks[c]?, worker[c]? with
    | some task, some w =>
      match runShots len (gens w) task with
      | (r, g') =>
        r.map (fun p => (⟨p.1, w, p.2⟩ : Entry)) ++
          consume len tasks worker (fun v => if v = w then g' else gens v) rest
    | _, _ => consume len tasks worker gens rest   -- not a schedule of these batches (excluded by `Valid`)

/-- what varies between runs: which code, which start method, the parent's generator position on
entry to `_perform_simulation`, and how many outputs each shot consumes -/
structure Config where
  repaired : Bool
  start : StartMethod
  p0 : Nat
  len : Nat → Nat

/-- parallel mode with batches of `cs` shots under the schedule `s` (of the batches
`chunks cs args`): the executed shots in completion order -/
def parRunWith (cfg : Config) (cs S : Nat) (s : Schedule) : List Entry :=
  let ag := mkArgs cfg.repaired true ⟨.parent, cfg.p0⟩ S
  consume cfg.len (chunks cs ag.1) s.worker (workerInit cfg.start ag.2) s.order

/-- parallel mode on a pool of `n` workers: the chunk size the code computes -/
def parRunN (cfg : Config) (n S : Nat) (s : Schedule) : List Entry :=
  parRunWith cfg (chunksize S n) S s

/-- parallel mode on a machine with `cpu` cores -/
def parRun (cfg : Config) (cpu S : Nat) (s : Schedule) : List Entry :=
  parRunN cfg (nProcesses cpu) S s

/-- sequential mode: all shots in the calling process (reported as worker `0`), in order -/
def seqRun (cfg : Config) (S : Nat) : List Entry :=
  let ag := mkArgs cfg.repaired false ⟨.parent, cfg.p0⟩ S
  (runShots cfg.len ag.2 ag.1).1.map fun p => ⟨p.1, 0, p.2⟩

/-- the parent's generator when `_perform_simulation` returns: in sequential mode the shots ran on it;
in parallel mode only the repaired code has drawn from it (the entropy of the seeds) -/
def parentAfter (cfg : Config) (parallel : Bool) (S : Nat) : Gen :=
  let ag := mkArgs cfg.repaired parallel ⟨.parent, cfg.p0⟩ S
  if parallel then ag.2 else (runShots cfg.len ag.2 ag.1).2

/-- executable: are the draw sources of a run pairwise disjoint? -/
def pairwiseDisjointB : List Entry → Bool
  | [] => true
  | e :: es => es.all (fun e' => e.src.disjointB e'.src) && pairwiseDisjointB es

/-! ## Accumulation of the results -/

/-- the arithmetic the code uses, as a dictionary (driver: rationals; proofs: any field) -/
structure Num (α : Type) where
  zero : α
  add : α → α → α
  div : α → α → α
  ofNat : Nat → α
  /-- `x > 0` -/
  pos : α → Bool

/-- exact rational arithmetic (what the driver runs) -/
def ratNum : Num Rat := ⟨0, (· + ·), (· / ·), fun n => (n : Rat), fun x => decide (0 < x)⟩

/-- `r_sum += shot_result` for arrays of equal length -/
def addVec {α : Type} (num : Num α) (a b : List α) : List α := List.zipWith num.add a b

/-- `r_sum = np.zeros(d)`, then `r_sum += shot_result` for the results in the given order -/
def accumulate {α : Type} (num : Num α) (d : Nat) (rs : List (List α)) : List α :=
  rs.foldl (addVec num) (List.replicate d num.zero)

/-- `total_prob = np.sum(probs); assert total_prob > 0; probs / total_prob` (in `run`) -/
def normalise {α : Type} (num : Num α) (r : List α) : Except String (List α) :=
  let t := r.foldl num.add num.zero
  if num.pos t then .ok (r.map fun x => num.div x t) else .error "AssertionError"

/-- what `run` turns the per-shot vectors (in accumulation order) into:
`normalise(r_sum / shots)`, `d = 2**nqubit` -/
def estimate {α : Type} (num : Num α) (d S : Nat) (rs : List (List α)) : Except String (List α) :=
  normalise num ((accumulate num d rs).map fun x => num.div x (num.ofNat S))

/-- the generator outputs a source hands to its shot -/
def block {D : Type} (draw : Stream × Nat → D) (s : Src) : List D :=
  (List.range s.len).map fun k => draw (s.stream, s.start + k)

/-- the result of a run whose executed shots are `es`: every shot applies the same function `f`
(same circuit, device parameters and initial state: the arguments are deep copies) to the outputs of
its draw source -/
def runResult {α D : Type} (num : Num α) (d S : Nat) (f : List D → List α) (draw : Stream × Nat → D)
    (es : List Entry) : Except String (List α) :=
  estimate num d S (es.map fun e => f (block draw e.src))

end QG.Model.Shots
