/-
Import-free executable model of the three benchmark-circuit generators of
`src/quantum_gates/_utility/quantum_algorithms.py`:

  hadamard_reverse_qft_circ (lines 8-47)   -> `hadamardReverseQft`
  ghz_circ                  (lines 50-76)  -> `ghz`   (`ghzCirc` with the `n = 0` error)
  qft_circ                  (lines 79-106) -> `qft`

A Qiskit `QuantumCircuit` is modelled as the list of its instructions in program order
(`circuit.data`).  Every instruction the generators can emit has a constructor of `Gate`; qubits and
classical bits are their integer indices in the circuit's single quantum / classical register.

Transcribed statement by statement (Python on the left):

  def qft_rotations(circ, n):                       `qftRotations`
      if n == 0: return
      n -= 1
      qft.h(n)                                       h n
      for i in range(n):                             i = 0, 1, …, n-1 in this order
          qft.cp(np.pi/2**(n - i), i, n)             cp (angle +π/2^(n-i))  control i  target n
      qft_rotations(circ, n)                         recursion

  def swap_registers(circ, n):                      `swapRegisters`
      for qubit in range(n//2): circ.swap(qubit, n-qubit-1)

  for j in range(0, n): qft.h(j)                    `hLayer`
  qft = qft.inverse()                               `inverse` : reverse the list, invert each gate
                                                     (h, swap, cx self-inverse; cp θ ↦ cp (−θ))
  c.barrier(range(n))                               ONE instruction `barrier [0,…,n-1]`
  c.measure(range(n), range(n))                     n instructions `measure q q`, q ascending

  ghz.h(0); for j in range(1, n): ghz.cx(0, j)      `ghzBody`  (`h(0)` on a 0-qubit circuit raises
                                                     qiskit's CircuitError -> `ghzCirc 0 = error`)

The controlled-phase angle is kept exact: `cp neg k c t` stands for the angle `±π/2^k`
(`neg = true` ⇒ minus sign), so that the correspondence with the real `circuit.data` is an exact
comparison of integers and the theorems can speak about the exact phases.
-/
namespace QG.Model.Algorithms

inductive Gate
  /-- Hadamard on qubit `q` -/
  | h (q : Nat)
  /-- controlled phase with angle `(if neg then -1 else 1) * π / 2^k`, control `ctrl`, target `tgt`
  (the order of `circuit.data[i].qubits`) -/
  | cp (neg : Bool) (k : Nat) (ctrl tgt : Nat)
  | swap (a b : Nat)
  /-- CNOT, control first -/
  | cx (ctrl tgt : Nat)
  /-- one barrier instruction over the listed qubits -/
  | barrier (qs : List Nat)
  /-- measure qubit `q` into classical bit `c` -/
  | measure (q c : Nat)
  deriving Repr, DecidableEq

inductive Err
  /-- qiskit `CircuitError` ("Index 0 out of range for size 0") -/
  | circuitError
  deriving Repr, DecidableEq

/-- what `QuantumCircuit.inverse()` does to one instruction -/
def Gate.inv : Gate → Gate
  | .h q => .h q
  | .cp neg k c t => .cp (!neg) k c t
  | .swap a b => .swap a b
  | .cx c t => .cx c t
  | .barrier qs => .barrier qs
  | .measure q c => .measure q c   -- never reached: the generators invert before they measure

/-- `QuantumCircuit.inverse()`: instructions in reverse order, each inverted -/
def inverse (l : List Gate) : List Gate := l.reverse.map Gate.inv

/-- `qft_rotations(circ, n)` (identical nested function in both QFT generators) -/
def qftRotations : Nat → List Gate
  | 0 => []
  | m + 1 => (Gate.h m :: (List.range m).map (fun i => Gate.cp false (m - i) i m)) ++ qftRotations m

/-- `swap_registers(circ, n)` -/
def swapRegisters (n : Nat) : List Gate := (List.range (n / 2)).map fun q => Gate.swap q (n - q - 1)

/-- `for j in range(0, n): qft.h(j)` -/
def hLayer (n : Nat) : List Gate := (List.range n).map Gate.h

/-- `c.barrier(range(n)); c.measure(range(n), range(n))` -/
def measureAll (n : Nat) : List Gate :=
  Gate.barrier (List.range n) :: (List.range n).map fun q => Gate.measure q q

/-- the unitary part of `hadamard_reverse_qft_circ(n)` -/
def hadamardReverseQftBody (n : Nat) : List Gate :=
  inverse ((qftRotations n ++ swapRegisters n) ++ hLayer n)

/-- `hadamard_reverse_qft_circ(n).data` -/
def hadamardReverseQft (n : Nat) : List Gate := hadamardReverseQftBody n ++ measureAll n

/-- the unitary part of `ghz_circ(n)`: `h(0)`, then `cx(0, j)` for `j = 1, …, n-1` -/
def ghzBody (n : Nat) : List Gate := Gate.h 0 :: (List.range' 1 (n - 1)).map fun j => Gate.cx 0 j

/-- `ghz_circ(n).data` for `n ≥ 1` -/
def ghz (n : Nat) : List Gate := ghzBody n ++ measureAll n

/-- `ghz_circ(n)` with its behaviour on the empty register -/
def ghzCirc (n : Nat) : Except Err (List Gate) :=
  if n = 0 then .error .circuitError else .ok (ghz n)

/-- `qft_circ(n).data` -/
def qft (n : Nat) : List Gate := qftRotations n ++ measureAll n

/-- the `(qubit, clbit)` pairs of the measurement instructions, in program order -/
def measurePairs : List Gate → List (Nat × Nat)
  | [] => []
  | .measure q c :: l => (q, c) :: measurePairs l
  | _ :: l => measurePairs l

end QG.Model.Algorithms
