/-
Import-free executable model of the validation logic in src/quantum_gates/_gates/pulse.py:
`Pulse.__init__` (lines 51-58) with `_pulse_is_valid`, `_parametrization_is_valid`, `_are_compatible`
(lines 70-112) and `GaussianPulse._validate_inputs` (lines 189-199).

The model is the *decision logic*.  The number type `α` is a parameter (the driver runs it on core
Lean's exact rationals `Rat`, the theorems are proved for every linearly ordered field, in particular
`ℝ`).  What the code obtains from outside is a parameter too:
  * `f`, `F : α → α`        point values of the user's waveform / parametrisation callables,
  * `integ : α → α → α`     `integ a b` = what `scipy.integrate.quad(pulse, a, b)[0]` returns
                            (external routine; recorded assumption: it is the integral of `f` over [a,b]),
  * `ε` (`Pulse.epsilon = 1e-6`) and `n` (`Pulse.check_n_points = 10`), class attributes in Python,
  * `τ`                     the slack of the sampled monotonicity comparison: the code on the pinned tree compares
                            `F(x + ε) >= F(x)` (`τ = 0`); the repair of the rounding defect D17 compares
                            `F(x + ε) >= F(x) - ε**2` (`τ = ε²`).  The translator reads `τ` from the source text.

Transcribed statement by statement:

  integrates_to_1 = abs(quad(pulse, 0, 1)[0] - 1) < self.epsilon
  is_non_negative = all((pulse(x) >= 0) for x in np.linspace(0, 1, self.check_n_points))
  return integrates_to_1 and is_non_negative                                        -> `pulseIsValid`

  starts_at_0 = abs(parametrization(0) - 0) < self.epsilon
  stops_at_0 = abs(parametrization(1) - 1) < self.epsilon
  is_monotone = all((parametrization(x + self.epsilon) >= parametrization(x))
                    for x in np.linspace(0, 1-self.epsilon, self.check_n_points))
  return starts_at_0 and stops_at_0 and is_monotone                                 -> `paramIsValid`

  for x in np.linspace(self.epsilon, 1-self.epsilon, self.check_n_points):
      difference = abs(quad(pulse, 0, x)[0] - parametrization(x))
      if difference > self.epsilon: return False
  return True                                                                       -> `areCompatible`

  if perform_checks:
      assert self._pulse_is_valid(pulse), "Pulse was not valid"
      assert self._parametrization_is_valid(parametrization), "Parametrization was not valid"
      assert self._are_compatible(pulse, parametrization), "Pulse and parametrization are incompatible. "
                                                                                    -> `construct`
All three failures are `AssertionError`s (the code uses `assert`, not `raise ValueError`); the model
keeps the message apart (`Err`), the correspondence compares class and message.
-/
namespace QG.Model.PulseValidate

/-- which `assert` of `Pulse.__init__` fails (each raises `AssertionError`) -/
inductive Err
  | pulseNotValid      -- AssertionError("Pulse was not valid")
  | paramNotValid      -- AssertionError("Parametrization was not valid")
  | incompatible       -- AssertionError("Pulse and parametrization are incompatible. ")
  deriving Repr, DecidableEq

/-- which `assert` of `GaussianPulse._validate_inputs` fails (each raises `AssertionError`) -/
inductive GErr
  | inputType          -- one of the `assert type(v) in valid_types`
  | denominatorZero    -- `assert denominator != 0`
  deriving Repr, DecidableEq

section
variable {α : Type} [OfNat α 0] [OfNat α 1] [NatCast α] [Add α] [Sub α] [Mul α] [Div α] [Neg α]
  [LT α] [LE α] [DecidableLT α] [DecidableLE α]

/-- Python's `abs` on an ordered field -/
def absv (x : α) : α := if x < 0 then -x else x

/-- `np.linspace(a, b, n)` (endpoint included): `a + k·(b−a)/(n−1)`, `k = 0..n−1`; `[a]` for `n = 1`;
empty for `n = 0` -/
def linspace (a b : α) : Nat → List α
  | 0 => []
  | 1 => [a]
  | n + 2 => (List.range (n + 2)).map fun (k : Nat) => a + (k : α) * ((b - a) / ((n + 1 : Nat) : α))

/-- `Pulse._pulse_is_valid` -/
def pulseIsValid (ε : α) (n : Nat) (integ : α → α → α) (f : α → α) : Bool :=
  let integratesTo1 := decide (absv (integ 0 1 - 1) < ε)
  let isNonNegative := (linspace (0 : α) 1 n).all fun x => decide (0 ≤ f x)
  integratesTo1 && isNonNegative

/-- `Pulse._parametrization_is_valid` (`parametrization(x + ε) >= parametrization(x) - τ`) -/
def paramIsValid (ε τ : α) (n : Nat) (F : α → α) : Bool :=
  let startsAt0 := decide (absv (F 0 - 0) < ε)
  let stopsAt1 := decide (absv (F 1 - 1) < ε)
  let isMonotone := (linspace (0 : α) (1 - ε) n).all fun x => decide (F x - τ ≤ F (x + ε))
  startsAt0 && stopsAt1 && isMonotone

/-- the `for` loop of `Pulse._are_compatible` over the remaining grid points -/
def compatLoop (ε : α) (integ : α → α → α) (F : α → α) : List α → Bool
  | [] => true
  | x :: xs => if ε < absv (integ 0 x - F x) then false else compatLoop ε integ F xs

/-- `Pulse._are_compatible` -/
def areCompatible (ε : α) (n : Nat) (integ : α → α → α) (F : α → α) : Bool :=
  compatLoop ε integ F (linspace ε (1 - ε) n)

/-- `Pulse.__init__(pulse, parametrization, perform_checks)`: `.ok ()` = the object is constructed -/
def construct (performChecks : Bool) (ε τ : α) (n : Nat) (integ : α → α → α) (f F : α → α) : Except Err Unit :=
  if performChecks then
    if !pulseIsValid ε n integ f then .error .pulseNotValid
    else if !paramIsValid ε τ n F then .error .paramNotValid
    else if !areCompatible ε n integ F then .error .incompatible
    else .ok ()
  else .ok ()

/-- `GaussianPulse._validate_inputs(loc, scale)`: `typeChecks` = the outcomes of the `assert type(v) in valid_types`
statements in source order (which variable each one tests is read from the source by the translator: at present
both test `scale`, `loc` is never type-checked), `denominator` = the computed `cdf(1, loc, scale) − cdf(0, loc, scale)` -/
def gaussianValidateInputs [DecidableEq α] (typeChecks : List Bool) (denominator : α) : Except GErr Unit :=
  if !typeChecks.all id then .error .inputType
  else if denominator = 0 then .error .denominatorZero
  else .ok ()

end

/-- the instance the driver executes: exact rationals of core Lean (elaborated here, without Mathlib, so every
operation is core `Rat`'s; `QG.C13` shows the theorems apply to it) -/
def constructRat (performChecks : Bool) (ε τ : Rat) (n : Nat) (integ : Rat → Rat → Rat) (f F : Rat → Rat) :
    Except Err Unit := construct performChecks ε τ n integ f F

def gaussianValidateInputsRat (typeChecks : List Bool) (denominator : Rat) : Except GErr Unit :=
  gaussianValidateInputs typeChecks denominator

end QG.Model.PulseValidate
