/-
Import-free executable model of the save / load paths of `DeviceParameters`
(src/quantum_gates/_utility/device_parameters.py): `save_to_texts`, `load_from_texts`, `save_to_json`,
`load_from_json`, `is_complete`, `__str__`, `__eq__`, `_texts_exist_at_location`, `_json_exists_at_location`.

What is modelled and how
* A float is an opaque token `Tok` (the harness uses the 16 hex digits of the IEEE-754 double).  The trusted
  assumption is that `'%.18e' % x` / `float(s)` and `float.__repr__` / `json.loads` give back the same double
  (exercised on every run with subnormals, ±inf, nan, -0.0, 1e±308, …); nothing about rounding is proved.
* A numpy array is `(shape, data)` with `data` in row-major order (`Arr`).
* `np.savetxt(fname, X)`: 1-D -> one value per line, 2-D -> one row per line, any other `ndim` -> `ValueError`
  (after the file has been created empty).  `np.loadtxt(fname, ndmin=k)`: blank lines are skipped, a row with a
  different number of columns -> `ValueError`, the raw result has shape `(rows, cols)` (`(0,1)` for no rows);
  `ndmin=2` keeps it, `ndmin=0` squeezes every axis of length one, `ndmin=1` squeezes and then promotes a 0-d
  result to `(1,)`.  These are numpy 2.x semantics, observed by experiment (the experiments are designed cases
  of the correspondence: ops `txt` and `loadtxt` of the driver).
* `ndarray.tolist()` -> nested lists (`JVal`), `json.dump`/`json.load` keep the nesting, `np.array(nested)`
  infers the shape (`[]` -> `(0,)`; children of different shapes or a mixture of numbers and lists ->
  `ValueError`).
* `metadata` is an opaque token; `canon md` is what `json.load(json.dump(md, default=default_serializer))`
  returns (datetime / complex values become strings, tuples lists, int keys strings).  The theorems assume only
  that `canon` is idempotent.
* The file system is a function `Loc → FName → Option File`; `location + self.f_xxx` is modelled as the pair
  `(location, xxx)` (string concatenation with a fixed prefix is injective in the file name; the ten file names
  are pairwise different).
* Python's attribute assignments happen one after the other, so an exception in the middle of a load leaves the
  earlier attributes assigned.  Every procedure is therefore a list of steps `σ → σ × Option Err` run by
  `runSteps`, which stops at the first error and returns the state reached so far.
* The model describes the code AFTER the repair of D15: in the one-qubit branch of `load_from_texts` the two
  tables are read with `np.loadtxt(..., ndmin=2)` instead of `np.array([np.loadtxt(...)])`.
-/
namespace QG.Model.DevParamsIO

/-- exception classes: `FileNotFoundError`, `ValueError` (incl. `json.JSONDecodeError`), plain `Exception` -/
inductive Err | fileNotFound | value | exception
  deriving Repr, DecidableEq, Inhabited

variable {Tok : Type}

/-! ### arrays, text files -/

structure Arr (Tok : Type) where
  shape : List Nat
  data : List Tok
  deriving Repr, DecidableEq

/-- number of elements of a shape -/
def prod : List Nat → Nat
  | [] => 1
  | n :: s => n * prod s

/-- `data` has as many elements as `shape` says -/
def Arr.wf (a : Arr Tok) : Bool := a.data.length == prod a.shape

/-- `n` consecutive pieces of length `k` -/
def chunks (k : Nat) : Nat → List Tok → List (List Tok)
  | 0, _ => []
  | n + 1, d => d.take k :: chunks k n (d.drop k)

/-- `np.savetxt`: the lines written (each line = its list of values).  `ValueError` unless 1-D or 2-D. -/
def savetxt (a : Arr Tok) : Except Err (List (List Tok)) :=
  match a.shape with
  | [_] => .ok (a.data.map fun x => [x])
  | [r, c] => .ok (chunks c r a.data)
  | _ => .error .value

/-- `np.squeeze` on a shape -/
def squeeze (s : List Nat) : List Nat := s.filter (· != 1)

/-- `np.loadtxt(fname, ndmin=ndmin)` on the lines of a file -/
def loadtxt (ndmin : Nat) (lines : List (List Tok)) : Except Err (Arr Tok) :=
  let rows := lines.filter (fun l => !l.isEmpty)
  match rows with
  | [] => .ok ⟨if 2 ≤ ndmin then [0, 1] else [0], []⟩
  | r0 :: _ =>
    if rows.all (fun r => r.length == r0.length) then
      let raw := [rows.length, r0.length]
      let s := if 2 ≤ ndmin then raw
               else
                 let q := squeeze raw
                 if ndmin == 1 && q.isEmpty then [1] else q
      .ok ⟨s, rows.flatten⟩
    else .error .value

/-- `np.array([a])` -/
def wrap (a : Arr Tok) : Arr Tok := ⟨1 :: a.shape, a.data⟩

/-! ### nested lists / JSON -/

inductive JVal (Tok : Type) where
  | num : Tok → JVal Tok
  | arr : List (JVal Tok) → JVal Tok
  deriving Repr

/-- `ndarray.tolist()` -/
def tolist : List Nat → List Tok → JVal Tok
  | [], x :: _ => .num x
  | [], [] => .arr []
  | n :: s, d => .arr ((chunks (prod s) n d).map (tolist s))

mutual
/-- `np.array(nested)`: shape inference; `ValueError` for an inhomogeneous nesting -/
def npArray : JVal Tok → Except Err (Arr Tok)
  | .num t => .ok ⟨[], [t]⟩
  | .arr l =>
    match npArrayList l with
    | .error e => .error e
    | .ok none => .ok ⟨[0], []⟩
    | .ok (some (n, a)) => .ok ⟨n :: a.shape, a.data⟩
/-- the children of a list: `none` for no child, otherwise their number, common shape and joined data -/
def npArrayList : List (JVal Tok) → Except Err (Option (Nat × Arr Tok))
  | [] => .ok none
  | x :: xs =>
    match npArray x with
    | .error e => .error e
    | .ok a =>
      match npArrayList xs with
      | .error e => .error e
      | .ok none => .ok (some (1, a))
      | .ok (some (n, b)) =>
        if a.shape = b.shape then .ok (some (n + 1, ⟨a.shape, a.data ++ b.data⟩)) else .error .value
end

/-- symbols of the canonical string `__str__` (json.dumps of the dict, arrays as nested lists) -/
inductive Sym (Tok : Type) | lb | rb | tok (t : Tok) | null | sep | md (t : Tok)
  deriving Repr, DecidableEq

mutual
def render : JVal Tok → List (Sym Tok)
  | .num t => [.tok t]
  | .arr l => .lb :: (renderList l ++ [.rb])
def renderList : List (JVal Tok) → List (Sym Tok)
  | [] => []
  | x :: xs => render x ++ renderList xs
end

/-! ### objects, files -/

/-- the eight array attributes -/
inductive Field | T1 | T2 | p | rout | pInt | tInt | tm | dt
  deriving Repr, DecidableEq

/-- file names: the eight text files, `metadata.json`, `device_parameters.json` -/
inductive FName | T1 | T2 | p | rout | pInt | tInt | tm | dt | mdata | json
  deriving Repr, DecidableEq

def Field.file : Field → FName
  | .T1 => .T1 | .T2 => .T2 | .p => .p | .rout => .rout | .pInt => .pInt | .tInt => .tInt | .tm => .tm | .dt => .dt

def Field.key : Field → String
  | .T1 => "T1" | .T2 => "T2" | .p => "p" | .rout => "rout" | .pInt => "p_int" | .tInt => "t_int" | .tm => "tm" | .dt => "dt"

def Field.isTable : Field → Bool
  | .pInt | .tInt => true
  | _ => false

/-- order of the entries of `__dict__()` (and of the assignments in `load_from_json`) -/
def dictOrder : List Field := [.T1, .T2, .p, .rout, .pInt, .tInt, .tm, .dt]
/-- order of the `np.savetxt` calls in `save_to_texts` -/
def saveOrder : List Field := [.T1, .T2, .p, .rout, .pInt, .tInt, .dt, .tm]
/-- order of the assignments in `load_from_texts` -/
def loadOrder : List Field := [.T1, .T2, .p, .rout, .pInt, .tInt, .tm, .dt]
/-- `self._f_txt` -/
def textFiles : List FName := [.T1, .T2, .p, .rout, .pInt, .tInt, .tm, .dt, .mdata]

inductive File (Tok : Type) where
  | txt (lines : List (List Tok))                                  -- a file written by `np.savetxt`
  | doc (fields : List (String × JVal Tok)) (md : Option Tok)      -- `device_parameters.json`
  | mdata (md : Tok)                                               -- `metadata.json`

abbrev FS (Loc Tok : Type) := Loc → FName → Option (File Tok)

def FS.write {Loc : Type} [DecidableEq Loc] (fs : FS Loc Tok) (l : Loc) (n : FName) (f : File Tok) : FS Loc Tok :=
  fun l' n' => if l' = l ∧ n' = n then some f else fs l' n'

def FS.delete {Loc : Type} [DecidableEq Loc] (fs : FS Loc Tok) (l : Loc) (n : FName) : FS Loc Tok :=
  fun l' n' => if l' = l ∧ n' = n then none else fs l' n'

/-- a `DeviceParameters` instance: `nq = len(qubits_layout)`, attributes `None` or a value -/
structure DevParams (Tok : Type) where
  nq : Nat
  arr : Field → Option (Arr Tok)
  md : Option Tok

/-- `DeviceParameters(qubits_layout)` -/
def DevParams.fresh (nq : Nat) : DevParams Tok := ⟨nq, fun _ => none, none⟩

def DevParams.set (dp : DevParams Tok) (f : Field) (a : Arr Tok) : DevParams Tok :=
  { dp with arr := fun g => if g = f then some a else dp.arr g }

/-- `is_complete()` -/
def DevParams.isComplete (dp : DevParams Tok) : Bool :=
  dictOrder.all (fun f => (dp.arr f).isSome) && dp.md.isSome

/-- run the statements one after the other; stop at the first exception, keeping the state reached -/
def runSteps {σ : Type} : List (σ → σ × Option Err) → σ → σ × Option Err
  | [], s => (s, none)
  | f :: fs, s =>
    match f s with
    | (s', some e) => (s', some e)
    | (s', none) => runSteps fs s'

section io
variable {Loc : Type} [DecidableEq Loc] (canon : Tok → Tok)

/-! ### save -/

/-- `np.savetxt(location + f, self.<f>)`; numpy creates the file before it rejects the array -/
def stepSaveTxt (loc : Loc) (dp : DevParams Tok) (f : Field) : FS Loc Tok → FS Loc Tok × Option Err := fun fs =>
  match dp.arr f with
  | none => (fs, some .exception)          -- unreachable after the `is_complete` guard
  | some a =>
    match savetxt a with
    | .ok lines => (fs.write loc f.file (.txt lines), none)
    | .error e => (fs.write loc f.file (.txt []), some e)

/-- `json.dump(self.metadata, fp, default=default_serializer)` -/
def stepSaveMeta (loc : Loc) (dp : DevParams Tok) : FS Loc Tok → FS Loc Tok × Option Err := fun fs =>
  match dp.md with
  | none => (fs, some .exception)          -- unreachable after the `is_complete` guard
  | some m => (fs.write loc .mdata (.mdata (canon m)), none)

/-- `save_to_texts(location)` -/
def saveTexts (fs : FS Loc Tok) (loc : Loc) (dp : DevParams Tok) : FS Loc Tok × Option Err :=
  if !dp.isComplete then (fs, some .exception)
  else runSteps (saveOrder.map (stepSaveTxt loc dp) ++ [stepSaveMeta canon loc dp]) fs

/-- the dict written by `save_to_json`: every array `.tolist()` -/
def docOf (dp : DevParams Tok) : List (String × JVal Tok) :=
  dictOrder.filterMap fun f => (dp.arr f).map fun a => (f.key, tolist a.shape a.data)

/-- `save_to_json(location)` -/
def saveJson (fs : FS Loc Tok) (loc : Loc) (dp : DevParams Tok) : FS Loc Tok × Option Err :=
  if !dp.isComplete then (fs, some .exception)
  else (fs.write loc .json (.doc (docOf dp) (dp.md.map canon)), none)

/-! ### load -/

/-- `_texts_exist_at_location`: raises before anything is assigned -/
def stepExistTxt (fs : FS Loc Tok) (loc : Loc) : DevParams Tok → DevParams Tok × Option Err := fun dp =>
  if textFiles.all (fun n => (fs loc n).isSome) then (dp, none) else (dp, some .fileNotFound)

/-- what is assigned to attribute `f` from the lines of its file (REPAIRED one-qubit branch, D15) -/
def loadField (nq : Nat) (f : Field) (lines : List (List Tok)) : Except Err (Arr Tok) :=
  if f = .dt then (loadtxt 0 lines).map wrap               -- self.dt = np.array([np.loadtxt(...)])
  else if nq = 1 then
    if f.isTable then loadtxt 2 lines                      -- np.loadtxt(..., ndmin=2)          (repair of D15)
    else (loadtxt 0 lines).map wrap                        -- np.array([np.loadtxt(...)])
  else loadtxt 0 lines                                     -- np.loadtxt(...)

def stepLoadTxt (fs : FS Loc Tok) (loc : Loc) (f : Field) : DevParams Tok → DevParams Tok × Option Err := fun dp =>
  match fs loc f.file with
  | some (.txt lines) =>
    match loadField dp.nq f lines with
    | .ok a => (dp.set f a, none)
    | .error e => (dp, some e)
  | some _ => (dp, some .value)              -- not a table of numbers: `ValueError`
  | none => (dp, some .fileNotFound)         -- unreachable after the existence check

def stepLoadMeta (fs : FS Loc Tok) (loc : Loc) : DevParams Tok → DevParams Tok × Option Err := fun dp =>
  match fs loc .mdata with
  | some (.mdata m) => ({ dp with md := some m }, none)
  | some _ => (dp, some .value)              -- `json.JSONDecodeError` is a `ValueError`
  | none => (dp, some .fileNotFound)

/-- `if not self.is_complete(): raise Exception(...)` -/
def stepVerify : DevParams Tok → DevParams Tok × Option Err := fun dp =>
  if dp.isComplete then (dp, none) else (dp, some .exception)

/-- `load_from_texts(location)`: the object after the call and the exception raised, if any -/
def loadTexts (fs : FS Loc Tok) (loc : Loc) (dp : DevParams Tok) : DevParams Tok × Option Err :=
  runSteps (stepExistTxt fs loc :: (loadOrder.map (stepLoadTxt fs loc) ++ [stepLoadMeta fs loc, stepVerify])) dp

/-- `self.<f> = np.array(data_dict[<f>])` -/
def stepLoadKey (fields : List (String × JVal Tok)) (f : Field) : DevParams Tok → DevParams Tok × Option Err := fun dp =>
  match fields.lookup f.key with
  | none => (dp, some .exception)            -- unreachable after the key check
  | some v =>
    match npArray v with
    | .ok a => (dp.set f a, none)
    | .error e => (dp, some e)

/-- `load_from_json(location)` -/
def loadJson (fs : FS Loc Tok) (loc : Loc) (dp : DevParams Tok) : DevParams Tok × Option Err :=
  match fs loc .json with
  | none => (dp, some .fileNotFound)                                   -- `_json_exists_at_location`
  | some (.doc fields md) =>
    match md with
    | none => (dp, some .exception)                                    -- "At least one quantity is missing."
    | some m =>
      if dictOrder.all (fun f => (fields.lookup f.key).isSome) then
        runSteps (dictOrder.map (stepLoadKey fields) ++
                  [fun dp => ({ dp with md := some m }, none), stepVerify]) dp
      else (dp, some .exception)
  | some _ => (dp, some .value)                                        -- `json.JSONDecodeError`

/-! ### `__str__`, `__eq__` -/

/-- `__str__`: json.dumps of the dict, arrays through `default_serializer` (= `tolist`) -/
def strOf (dp : DevParams Tok) : List (Sym Tok) :=
  dictOrder.flatMap (fun f =>
    (match dp.arr f with
     | none => [Sym.null]
     | some a => render (tolist a.shape a.data)) ++ [Sym.sep]) ++
  [match dp.md with
   | none => Sym.null
   | some m => Sym.md (canon m)]

/-- `__eq__` -/
def dpEq [DecidableEq Tok] (a b : DevParams Tok) : Bool := strOf canon a == strOf canon b

inductive Fmt | texts | json
  deriving Repr, DecidableEq

def save (fmt : Fmt) (fs : FS Loc Tok) (loc : Loc) (dp : DevParams Tok) : FS Loc Tok × Option Err :=
  match fmt with
  | .texts => saveTexts canon fs loc dp
  | .json => saveJson canon fs loc dp

def load (fmt : Fmt) (fs : FS Loc Tok) (loc : Loc) (dp : DevParams Tok) : DevParams Tok × Option Err :=
  match fmt with
  | .texts => loadTexts fs loc dp
  | .json => loadJson fs loc dp

end io

end QG.Model.DevParamsIO
