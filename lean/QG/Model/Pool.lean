/-
Import-free executable model of the three batch helpers
(src/quantum_gates/_utility/simulations_utility.py:49-103) — the helpers' OWN logic around the
process pools, as it reads after the minimal repair of defect D14 (the executor variant no longer
passes the collected result VALUES to `concurrent.futures.wait`, see
notes/fixes/D14-executor-wait.diff).

Trusted, not modelled (stated as the definition of a schedule below): `multiprocessing.Pool.
imap_unordered(func, iterable, chunksize)` cuts the iterable into consecutive batches of `chunksize`
items (`Pool._get_tasks`, `chunks` here), runs every batch exactly once on one of its `processes`
workers, the calls of one batch in order (`mapstar`), and yields the results batch by batch in
completion order; `ProcessPoolExecutor.map(fn, args)` submits one task per argument, runs each
exactly once on one of at most `max_workers` workers and yields the results in argument order.

What a pool may do is a `Schedule`: which worker runs which task and in which order the tasks
complete.  The helpers are functions of the schedule; the theorems quantify over all valid schedules.

Transcription:
  cpu_count = multiprocessing.cpu_count()
  n_processes = max(int(0.8 * cpu_count), 2)                                    -> `nProcesses`
  simulations = len(args)
  chunksize = max(1, int(simulations / n_processes)
                     + (1 if simulations % n_processes > 0 else 0))             -> `chunksize`
  p = multiprocessing.Pool(n_processes)
  for time, nqubit in p.imap_unordered(func=simulation, iterable=args, chunksize=chunksize):
      print(f"Simulated {nqubit} qubits in {time} s.", flush=True)              -> `consumePool` / `unpack`
  p.close(); p.join()
(`int(0.8 * c)` and `int(S / n)` are float computations in Python; they equal `8*c/10` and `S/n` in
natural-number arithmetic for every count below 2^50 — compared on every run by the harness.)

  with concurrent.futures.ProcessPoolExecutor(max_workers=max_workers) as executor:
      result_list = [val for val in executor.map(simulation, args)]             -> `executorHelper`

  for arg in args: simulation(arg)                                              -> `mockHelper`

A call of `simulation` is summarised by a `Res`: it returned a 2-tuple `(elapsed, label)`, it
returned something that cannot be unpacked into two names (the exception class the unpacking raises is
recorded), or it raised.  When the helper raises, `Run.calls` lists only the calls whose outcome the
helper has consumed up to that point (workers may have made further calls; not modelled, not claimed).
-/
namespace QG.Model.Pool

variable {α : Type}

/-- `max(int(0.8 * cpu_count), 2)` -/
def nProcesses (cpu : Nat) : Nat := max (8 * cpu / 10) 2

/-- `max(1, int(S / n) + (1 if S % n > 0 else 0))` -/
def chunksize (S n : Nat) : Nat := max 1 (S / n + (if S % n > 0 then 1 else 0))

/-- `Pool._get_tasks`: consecutive batches of `cs` items, the last one possibly shorter
(`cs = 0` is rejected by the pool before this point, see `poolHelper`). -/
def chunks (cs : Nat) (l : List α) : List (List α) :=
  if _h : cs = 0 ∨ l = [] then [] else l.take cs :: chunks cs (l.drop cs)
termination_by l.length
decreasing_by
  have h1 : cs ≠ 0 := fun e => _h (Or.inl e)
  have h2 : l.length ≠ 0 := fun e => _h (Or.inr (List.eq_nil_of_length_eq_zero e))
  simp only [List.length_drop]
  omega

/-- what one call of `simulation` does, as far as the helpers look at it -/
inductive Res where
  /-- returned the 2-tuple `(elapsed, label)` -/
  | pair (elapsed label : String)
  /-- returned a value for which `time, nqubit = value` raises `unpackErr`
      (`TypeError` for `None` or a number, `ValueError` for a tuple of another length) -/
  | value (unpackErr : String)
  /-- raised an exception of class `exc` -/
  | raised (exc : String)
  deriving Repr, DecidableEq

/-- which worker runs task `i` (`worker[i]`) and in which order the tasks complete (`order`) -/
structure Schedule where
  worker : List Nat
  order : List Nat
  deriving Repr

/-- a schedule of `m` tasks on `n` workers that runs every task exactly once (the trusted
behaviour of the pools) -/
def Schedule.Valid (s : Schedule) (m n : Nat) : Prop :=
  s.worker.length = m ∧ (∀ w ∈ s.worker, w < n) ∧ s.order.Perm (List.range m)

def allDistinct : List Nat → Bool
  | [] => true
  | a :: l => !l.contains a && allDistinct l

/-- executable form of `Schedule.Valid` (equivalence: `QG.Lemmas.Pool.validB_iff`) -/
def Schedule.validB (s : Schedule) (m n : Nat) : Bool :=
  s.worker.length == m && s.worker.all (· < n) && s.order.length == m && s.order.all (· < m) &&
    allDistinct s.order

/-- the observable course of one helper call -/
structure Run (α : Type) where
  /-- `(worker, argument)` of every call of `simulation`, task by task in completion order -/
  calls : List (Nat × α)
  /-- pool variant: `(label, elapsed)` of every "Simulated … qubits in … s." line, in order -/
  printed : List (String × String)
  /-- `.ok ()`: the helper returned; `.error c`: it raised an exception of class `c` -/
  outcome : Except String Unit

/-- one task on worker `w` (`mapstar`): the calls in order up to the first one that raises -/
def runTask (sim : α → Res) (w : Nat) : List α → List (Nat × α) × Except String (List Res)
  | [] => ([], .ok [])
  | a :: as =>
    match sim a with
    | .raised e => ([(w, a)], .error e)
    | r =>
      match runTask sim w as with
      | (cs, .ok rs) => ((w, a) :: cs, .ok (r :: rs))
      | (cs, .error e) => ((w, a) :: cs, .error e)

/-- `for time, nqubit in <results>: print(...)` on the results of one task -/
def unpack : List Res → List (String × String) × Except String Unit
  | [] => ([], .ok ())
  | .pair t l :: rs =>
    match unpack rs with
    | (p, o) => ((l, t) :: p, o)
  | .value e :: _ => ([], .error e)
  | .raised e :: _ => ([], .error e)

/-- the helper's `for` loop over `imap_unordered`, tasks arriving in the order `order` -/
def consumePool (sim : α → Res) (tasks : List (List α)) (worker : List Nat) : List Nat → Run α
  | [] => ⟨[], [], .ok ()⟩                       -- p.close(); p.join()
  | i :: rest =>
    match tasks[i]?, worker[i]? with
    | some task, some w =>
      match runTask sim w task with
      | (cs, .error e) => ⟨cs, [], .error e⟩     -- the task's exception is re-raised by the iterator
      | (cs, .ok rs) =>
        match unpack rs with
        | (pr, .error e) => ⟨cs, pr, .error e⟩
        | (pr, .ok ()) =>
          let r := consumePool sim tasks worker rest
          ⟨cs ++ r.calls, pr ++ r.printed, r.outcome⟩
    | _, _ => ⟨[], [], .error "InvalidSchedule"⟩  -- not a schedule of these tasks (excluded by `Valid`)

/-- `perform_parallel_simulation_with_multiprocessing(args, simulation)` on a machine with
`cpu` cores under the schedule `s` (of the tasks `chunks (chunksize …) args` on `nProcesses cpu` workers) -/
def poolHelper (cpu : Nat) (args : List α) (sim : α → Res) (s : Schedule) : Run α :=
  let n := nProcesses cpu
  let cs := chunksize args.length n
  if cs < 1 then ⟨[], [], .error "ValueError"⟩    -- imap_unordered: "Chunksize must be 1+, not {n}"
  else consumePool sim (chunks cs args) s.worker s.order

/-- the first exception in a list of call outcomes -/
def firstRaise : List Res → Option String
  | [] => none
  | .raised e :: _ => some e
  | _ :: rs => firstRaise rs

/-- `ProcessPoolExecutor(max_workers)`: `None` = number of cores, otherwise the given number -/
def executorWorkers (maxWorkers : Option Int) (cpu : Nat) : Nat :=
  match maxWorkers with
  | some w => w.toNat
  | none => if cpu = 0 then 1 else cpu

/-- the calls a schedule of the one-argument tasks of `executor.map` makes -/
def executorCalls (args : List α) (s : Schedule) : List (Nat × α) :=
  s.order.filterMap fun i =>
    match args[i]?, s.worker[i]? with
    | some a, some w => some (w, a)
    | _, _ => none

/-- `perform_parallel_simulation(args, simulation, max_workers)` (repaired: nothing is done with
the collected results) under the schedule `s` of the `args.length` one-argument tasks. -/
def executorHelper (maxWorkers : Option Int) (args : List α) (sim : α → Res) (s : Schedule) : Run α :=
  match maxWorkers with
  | some w =>
    if w ≤ 0 then ⟨[], [], .error "ValueError"⟩   -- "max_workers must be greater than 0"
    else
      match firstRaise (args.map sim) with
      | some e => ⟨executorCalls args s, [], .error e⟩
      | none => ⟨executorCalls args s, [], .ok ()⟩
  | none =>
    match firstRaise (args.map sim) with
    | some e => ⟨executorCalls args s, [], .error e⟩
    | none => ⟨executorCalls args s, [], .ok ()⟩

/-- the code as found on the pinned tree (defect D14): the list of result VALUES is handed to
`concurrent.futures.wait`, which needs futures: with at least one (hashable) result it raises
`AttributeError` — after every job has run.  Not used by the property theorems. -/
def executorHelperPinned (maxWorkers : Option Int) (args : List α) (sim : α → Res) (s : Schedule) : Run α :=
  let r := executorHelper maxWorkers args sim s
  match r.outcome with
  | .error _ => r
  | .ok () => if args.isEmpty then r else ⟨r.calls, r.printed, .error "AttributeError"⟩

/-- `mock_perform_parallel_simulation(args, simulation)`: sequential, in the calling process
(reported as worker `0`); an exception of `simulation` propagates at once. -/
def mockHelper (sim : α → Res) : List α → Run α
  | [] => ⟨[], [], .ok ()⟩
  | a :: as =>
    match sim a with
    | .raised e => ⟨[(0, a)], [], .error e⟩
    | _ =>
      let r := mockHelper sim as
      ⟨(0, a) :: r.calls, [], r.outcome⟩

end QG.Model.Pool
