/-
Import-free executable model of the gate-fusion optimizer
(src/quantum_gates/_utility/circ_optimizer.py: `Optimizer.__init__`, `optimize`, `opt_level_1 … 4`,
`process_snippet`), transcribed branch by branch from the code **after the three minimal repairs**
D1 (bounded scan in `opt_level_1`), D2 (`snippet[loc+1]` in the single-trailing-gate test of
`process_snippet`) and D3 (`elif len(indices) == 1` in the branch of `opt_level_4` without two-qubit
gates); see /verif/notes/fixes/D0{1,2,3}-*.diff.

Conventions
* A Python item `[M, [q]]` / `[M, [q, -1]]` / `[M, [q1, q2]]` is a `Raw`; `optimize` first rewrites
  `[q, -1]` to `[q]` (`normalize`), after which an item is `Item.one M q` or `Item.two M q₁ q₂`.
* The model is generic over the matrix types: `MatOps` is the explicit record of the numpy operations the
  optimizer uses (`np.identity(2)`, `@` on 2x2, `np.identity(4)`, `@` on 4x4, `np.kron` of two 2x2).
  `mul2 B A` is `B @ A`.
* Where the Python can raise, the model returns `Except.error` with the kind of the exception
  (`IndexError`, `ValueError`, `UnboundLocalError`, `AssertionError`).  That no well-formed list
  reaches one of them is a theorem (`QG.C02.optimize_sem`), not a convention.
* `qubit_list` enters the optimizer only through `len(qubit_list)` (`nq`).
-/
namespace QG.Model.Optimizer

inductive Err | index | value | unbound | assertion
  deriving Repr, DecidableEq

def Err.name : Err → String
  | .index => "IndexError"
  | .value => "ValueError"
  | .unbound => "UnboundLocalError"
  | .assertion => "AssertionError"

/-- the numpy operations used by the optimizer -/
structure MatOps (M2 M4 : Type) where
  one2 : M2                 -- np.identity(2)
  mul2 : M2 → M2 → M2       -- mul2 B A = B @ A
  one4 : M4                 -- np.identity(4)
  mul4 : M4 → M4 → M4       -- mul4 B A = B @ A
  kron : M2 → M2 → M4       -- np.kron(A, B)

/-- an item after normalisation: `[M, [q]]` or `[M, [q1, q2]]` -/
inductive Item (M2 M4 : Type) where
  | one (m : M2) (q : Nat)
  | two (m : M4) (q1 q2 : Nat)
  deriving Repr

/-- an item as the caller passes it -/
inductive Raw (M2 M4 : Type) where
  | single (m : M2) (q : Nat)        -- [M, [q]]
  | padded (m : M2) (q : Nat)        -- [M, [q, -1]]
  | pair (m : M4) (q1 q2 : Nat)      -- [M, [q1, q2]]
  deriving Repr

/-- a one-qubit item as (matrix, qubit) -/
structure G1 (M2 : Type) where
  m : M2
  q : Nat
  deriving Repr

variable {M2 M4 : Type}

def G1.item (g : G1 M2) : Item M2 M4 := .one g.m g.q

/-- `if len(i[1]) == 2: if i[1][1] == -1: i[1] = [i[1][0]]` -/
def normalize : Raw M2 M4 → Item M2 M4
  | .single m q => .one m q
  | .padded m q => .one m q
  | .pair m a b => .two m a b

def Item.isTwo : Item M2 M4 → Bool
  | .one .. => false
  | .two .. => true

/-! ### level 1 : merge runs of one-qubit gates on one qubit -/

/-- `c - 1` after the (bounded, D1) scan
`c = 1; while c < len(gate_list) and len(gate_list[c][1]) == 1 and qubit == gate_list[c][1]: c += 1`:
the number of items directly after the head that are one-qubit items on `q`. -/
def scanRun1 (q : Nat) : List (Item M2 M4) → Nat
  | .one _ q' :: rest => if q' = q then scanRun1 q rest + 1 else 0
  | _ => 0

/-- `gate = acc; for g in run: gate = g @ gate` over one-qubit items -/
def mergeRun1 (ops : MatOps M2 M4) : List (Item M2 M4) → M2 → M2
  | .one m _ :: rest, acc => mergeRun1 ops rest (ops.mul2 m acc)
  | _, acc => acc

/-- `c - 1` for the head `g` of the list `g :: rest` (0 for a two-qubit head: `gate_list[1:]`) -/
def run1 (g : Item M2 M4) (rest : List (Item M2 M4)) : Nat :=
  match g with
  | .one _ q => scanRun1 q rest
  | .two .. => 0

/-- what one pass of the `while gate_list:` loop appends to `result_1` -/
def emit1 (ops : MatOps M2 M4) (g : Item M2 M4) (rest : List (Item M2 M4)) : Item M2 M4 :=
  match g with
  | .one m q =>
    let r := scanRun1 q rest
    if r ≥ 1 then .one (mergeRun1 ops (rest.take r) (ops.mul2 m ops.one2)) q   -- c > 1
    else g
  | .two .. => g

/-- `opt_level_1`.  One pass consumes the head and its run (`gate_list = gate_list[c:]`); if exactly
one item is left afterwards it is appended unchanged (`if len(gate_list) == 1`). -/
def level1 (ops : MatOps M2 M4) (gl : List (Item M2 M4)) : List (Item M2 M4) :=
  match gl with
  | [] => []
  | g :: rest =>
    if (rest.drop (run1 g rest)).length = 1 then emit1 ops g rest :: rest.drop (run1 g rest)
    else emit1 ops g rest :: level1 ops (rest.drop (run1 g rest))
termination_by gl.length
decreasing_by simp only [List.length_drop, List.length_cons]; omega

/-! ### level 2 : absorb neighbouring one-qubit gates into a two-qubit gate -/

/-- A snippet as `opt_level_2` builds it: the one-qubit gates in front of the next two-qubit gate,
that gate, and the at most two one-qubit gates directly after it.  (`loc = len(before)`.) -/
structure Snippet (M2 M4 : Type) where
  before : List (G1 M2)
  g : M4
  q1 : Nat
  q2 : Nat
  after : List (G1 M2)     -- length ≤ 2

/-- "Before the two qubit gate": returns (items kept in front, fused two-qubit matrix).
`b1 = snippet[loc-1]`, `b2 = snippet[loc-2]`. -/
def beforePart (ops : MatOps M2 M4) (s : Snippet M2 M4) : List (G1 M2) × M4 :=
  match s.before.reverse with
  | b1 :: b2 :: rest =>            -- loc - 2 ≥ 0
    if b2.q = s.q1 ∧ b1.q = s.q2 then (rest.reverse, ops.mul4 s.g (ops.kron b2.m b1.m))
    else if b2.q = s.q2 ∧ b1.q = s.q1 then (rest.reverse, ops.mul4 s.g (ops.kron b1.m b2.m))
    else if b1.q = s.q1 then ((b2 :: rest).reverse, ops.mul4 s.g (ops.kron b1.m ops.one2))
    else if b1.q = s.q2 then ((b2 :: rest).reverse, ops.mul4 s.g (ops.kron ops.one2 b1.m))
    else (s.before, s.g)
  | [b1] =>                         -- loc - 1 ≥ 0
    if b1.q = s.q1 then ([], ops.mul4 s.g (ops.kron b1.m ops.one2))
    else if b1.q = s.q2 then ([], ops.mul4 s.g (ops.kron ops.one2 b1.m))
    else (s.before, s.g)
  | [] => ([], s.g)                 -- loc = 0 (the `ValueError` needs `snippet[0]` not to be a
                                    -- two-qubit item, which a `Snippet` cannot express)

/-- "After the two qubit gate", applied to the fused matrix `g' = proces_snippet[-1][0]`: returns
(new matrix, trailing one-qubit items).  `a1 = snippet[loc+1]`, `a2 = snippet[loc+2]`.  The second
test of the one-trailing-gate case reads `snippet[loc+1]` (D2). -/
def afterPart (ops : MatOps M2 M4) (s : Snippet M2 M4) (g' : M4) : M4 × List (G1 M2) :=
  match s.after with
  | [a1, a2] =>                     -- loc + 2 ≤ n_elem
    if a2.q = s.q1 ∧ a1.q = s.q2 then (ops.mul4 (ops.kron a2.m a1.m) g', [])
    else if a2.q = s.q2 ∧ a1.q = s.q1 then (ops.mul4 (ops.kron a1.m a2.m) g', [])
    else if a2.q = s.q1 ∧ a1.q ≠ s.q2 then (ops.mul4 (ops.kron a2.m ops.one2) g', [a1])
    else if a2.q = s.q2 ∧ a1.q ≠ s.q1 then (ops.mul4 (ops.kron ops.one2 a2.m) g', [a1])
    else if a1.q = s.q1 then (ops.mul4 (ops.kron a1.m ops.one2) g', [a2])
    else if a1.q = s.q2 then (ops.mul4 (ops.kron ops.one2 a1.m) g', [a2])
    else (g', [a1, a2])
  | [a1] =>                         -- loc + 1 ≤ n_elem
    if a1.q = s.q1 then (ops.mul4 (ops.kron a1.m ops.one2) g', [])
    else if a1.q = s.q2 then (ops.mul4 (ops.kron ops.one2 a1.m) g', [])
    else (g', [a1])
  | _ => (g', s.after)

/-- `process_snippet` -/
def processSnippet (ops : MatOps M2 M4) (s : Snippet M2 M4) : List (Item M2 M4) :=
  let bp := beforePart ops s
  let ap := afterPart ops s bp.2
  bp.1.map G1.item ++ [.two ap.1 s.q1 s.q2] ++ ap.2.map G1.item

def Snippet.items (s : Snippet M2 M4) : List (Item M2 M4) :=
  s.before.map G1.item ++ [.two s.g s.q1 s.q2] ++ s.after.map G1.item

/-- `counter = 0; while len(gate_list[counter][1]) != 2: _snippet.append(...); counter += 1`:
split at the first two-qubit item; `none` = the scan walks off the end (IndexError). -/
def splitAtTwo : List (Item M2 M4) → Option (List (G1 M2) × M4 × Nat × Nat × List (Item M2 M4))
  | [] => none
  | .one m q :: rest =>
    match splitAtTwo rest with
    | none => none
    | some (b, g, q1, q2, r) => some (⟨m, q⟩ :: b, g, q1, q2, r)
  | .two g q1 q2 :: rest => some ([], g, q1, q2, rest)

/-- the at most two one-qubit items directly after the two-qubit gate that join the snippet
(`gate_list[counter+1]`, and `gate_list[counter+2]` only if the first was taken) -/
def takeAfter : List (Item M2 M4) → List (G1 M2) × List (Item M2 M4)
  | .one m q :: .one m' q' :: rest => ([⟨m, q⟩, ⟨m', q'⟩], rest)
  | .one m q :: rest => ([⟨m, q⟩], rest)
  | rest => ([], rest)

def countTwo : List (Item M2 M4) → Nat
  | [] => 0
  | .one .. :: rest => countTwo rest
  | .two .. :: rest => countTwo rest + 1

/-- `for i in range(q2_gate): …` followed by `result_2 += gate_list` -/
def level2Loop (ops : MatOps M2 M4) :
    Nat → List (Item M2 M4) → List (Item M2 M4) → Except Err (List (Item M2 M4))
  | 0, gl, res => .ok (res ++ gl)
  | k + 1, gl, res =>
    match splitAtTwo gl with
    | none => .error .index
    | some (before, g, q1, q2, rest) =>
      level2Loop ops k (takeAfter rest).2
        (res ++ processSnippet ops ⟨before, g, q1, q2, (takeAfter rest).1⟩)

/-- `opt_level_2` -/
def level2 (ops : MatOps M2 M4) (gl : List (Item M2 M4)) : Except Err (List (Item M2 M4)) :=
  if countTwo gl > 0 then level2Loop ops (countTwo gl) gl [] else .ok gl

/-! ### level 3 : merge runs of two-qubit gates on the same ordered pair -/

/-- `c - 1` after `c = 1; while len(gate_list[c][1]) == 2 and qubit == gate_list[c][1]: c += 1;
if c >= len(gate_list): break` (entered only when `len(gate_list) > 1`) -/
def scanRun2 (q1 q2 : Nat) : List (Item M2 M4) → Nat
  | .two _ a b :: rest => if a = q1 ∧ b = q2 then scanRun2 q1 q2 rest + 1 else 0
  | _ => 0

def mergeRun2 (ops : MatOps M2 M4) : List (Item M2 M4) → M4 → M4
  | .two m _ _ :: rest, acc => mergeRun2 ops rest (ops.mul4 m acc)
  | _, acc => acc

def run3 (g : Item M2 M4) (rest : List (Item M2 M4)) : Nat :=
  match g with
  | .two _ q1 q2 => scanRun2 q1 q2 rest      -- `rest = []` (len(gate_list) = 1) gives 0 as well
  | .one .. => 0

def emit3 (ops : MatOps M2 M4) (g : Item M2 M4) (rest : List (Item M2 M4)) : Item M2 M4 :=
  match g with
  | .two m q1 q2 =>
    let r := scanRun2 q1 q2 rest
    if r ≥ 1 then .two (mergeRun2 ops (rest.take r) (ops.mul4 m ops.one4)) q1 q2
    else g
  | .one .. => g

/-- `opt_level_3` -/
def level3 (ops : MatOps M2 M4) (gl : List (Item M2 M4)) : List (Item M2 M4) :=
  match gl with
  | [] => []
  | g :: rest =>
    if (rest.drop (run3 g rest)).length = 1 then emit3 ops g rest :: rest.drop (run3 g rest)
    else emit3 ops g rest :: level3 ops (rest.drop (run3 g rest))
termination_by gl.length
decreasing_by simp only [List.length_drop, List.length_cons]; omega

/-! ### level 4 : regroup the trailing one-qubit gates per qubit -/

/-- the `for item in gate_list: if len(item[1]) == 2: q2_gate_check = True; break` scan:
`some l` (the items as one-qubit gates) iff there is no two-qubit item -/
def allOnes : List (Item M2 M4) → Option (List (G1 M2))
  | [] => some []
  | .one m q :: rest => (allOnes rest).map (⟨m, q⟩ :: ·)
  | .two .. :: _ => none

/-- `while len(gate_list[l][1]) == 1: last_part.append(gate_list[l]); l += 1` on the reversed list;
walking off the end is an IndexError (impossible when a two-qubit item exists) -/
def leadingOnes : List (Item M2 M4) → Except Err (List (G1 M2))
  | [] => .error .index
  | .one m q :: rest =>
    match leadingOnes rest with
    | .error e => .error e
    | .ok l => .ok (⟨m, q⟩ :: l)
  | .two .. :: _ => .ok []

def mergeG1 (ops : MatOps M2 M4) : List (G1 M2) → M2 → M2
  | g :: rest, acc => mergeG1 ops rest (ops.mul2 g.m acc)
  | [], acc => acc

/-- what one pass of `for q_i in reorder_qubit_list:` appends for the gates `sel` found on `q_i`
(`indices`): their product if there are several, the gate itself if there is one, nothing if there
is none (D3: `elif len(indices) == 1`) -/
def groupItem (ops : MatOps M2 M4) (q : Nat) (sel : List (G1 M2)) : List (Item M2 M4) :=
  if sel.length > 1 then [Item.one (mergeG1 ops sel ops.one2) q]
  else match sel with
    | [g] => [Item.one g.m q]
    | _ => []

/-- `for q_i in reorder_qubit_list:` over the remaining `last_part`; returns what is appended to
`result_4`.  When the qubit list is exhausted whatever is left in `last_part` is dropped (it is
empty for well-formed lists: every qubit is `< len(qubit_list)`).  With D3 repaired both copies of
the loop in `opt_level_4` are this function. -/
def regroup (ops : MatOps M2 M4) : List Nat → List (G1 M2) → List (Item M2 M4)
  | [], _ => []
  | q :: qs, lp =>
    if lp.length > 1 then
      groupItem ops q (lp.filter (fun g => g.q == q)) ++ regroup ops qs (lp.filter (fun g => !(g.q == q)))
    else if lp.length = 1 then lp.map G1.item      -- append last_part[0]; break
    else []                                         -- break

/-- `opt_level_4`; `nq = len(self.qubit_list)` -/
def level4 (ops : MatOps M2 M4) (nq : Nat) (gl : List (Item M2 M4)) : Except Err (List (Item M2 M4)) :=
  match gl with
  | [] => .error .unbound                           -- `q2_gate_check` is never assigned
  | _ =>
    match allOnes gl with
    | none =>                                        -- there is a two-qubit gate
      match leadingOnes gl.reverse with
      | .error e => .error e
      | .ok lastRev =>
        let l := lastRev.length                      -- `l != length_last_part` cannot happen
        if l > 1 then .ok (gl.take (gl.length - l) ++ regroup ops (List.range nq) lastRev.reverse)
        else .ok gl
    | some lp =>                                     -- only one-qubit gates
      if lp.length > 1 then .ok (regroup ops (List.range nq) lp)
      else .ok gl

/-! ### `Optimizer(level_opt, circ_list, qubit_list).optimize()` -/

def optimize (ops : MatOps M2 M4) (level : Int) (nq : Nat) (raw : List (Raw M2 M4)) :
    Except Err (List (Item M2 M4)) :=
  if level > 4 ∨ level < 0 then .error .value      -- constructor
  else
    let gl := raw.map normalize
    let lvl : Int := if raw.length ≤ 2 then 0 else if nq = 1 then 0 else level
    if lvl = 0 then .ok gl
    else if lvl = 1 then .ok (level1 ops gl)
    else if lvl = 2 then level2 ops (level1 ops gl)
    else if lvl = 3 then
      match level2 ops (level1 ops gl) with
      | .error e => .error e
      | .ok r2 => .ok (level3 ops r2)
    else
      match level2 ops (level1 ops gl) with
      | .error e => .error e
      | .ok r2 => level4 ops nq (level3 ops r2)

end QG.Model.Optimizer
