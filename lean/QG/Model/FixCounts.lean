/-
Import-free executable model of `fix_counts` (src/quantum_gates/_utility/simulations_utility.py:15-46).

A Python `dict` is modelled as the list of its `(key, value)` items in insertion order (keys
pairwise distinct is a hypothesis of the theorems).  Keys are bit strings, modelled as `List Bool`
(most significant character first); values are an arbitrary type with a designated `zero`
(the literal `0` the code inserts).

Transcribed statement by statement:
  mirrored_counts = {j[::-1]: counts_0[j] for j in counts_0}       -> `mirror`
  counts = sorted(dict_items)                                      -> `List.mergeSort` by `lexLe`
  if int(counts[0][0], 2) != 0: counts.insert(0, (zero, 0))        -> `padFirst`
  if int(counts[len-1][0], 2) != 2**n - 1: counts.append((uno, 0)) -> `padLast`
  for j in range(2**n - 1): if int(counts[j+1][0],2) != int(counts[j][0],2)+1: counts.insert(j+1,...)
                                                                   -> `fill` (cursor form)
  dict(counts)                                                     -> the list itself
`counts[0]` on an empty table and `counts[j+1]` past the end raise `IndexError`; the model returns
`Except.error .index` there, so that "never raises" is part of the theorem.
-/
namespace QG.Model.FixCounts

inductive Err | index
  deriving Repr, DecidableEq

/-- `int(s, 2)` for a string of binary digits (most significant first). -/
def toNat (bs : List Bool) : Nat :=
  bs.foldl (fun acc b => 2 * acc + (if b then 1 else 0)) 0

/-- `format(k, 'b')` : minimal binary representation, `"0"` for 0 (most significant first).
Built with an accumulator so that it is structurally recursive on fuel. -/
def natBitsAux : Nat → Nat → List Bool → List Bool
  | 0, _, acc => acc
  | fuel + 1, k, acc =>
    if k < 2 then (k == 1) :: acc else natBitsAux fuel (k / 2) ((k % 2 == 1) :: acc)

def natBits (k : Nat) : List Bool := natBitsAux (k + 1) k []

/-- `s.zfill(n)` for a digit string: pad with `'0'` on the left up to length `n`, never truncate. -/
def zfill (n : Nat) (l : List Bool) : List Bool := List.replicate (n - l.length) false ++ l

/-- `format(k, 'b').zfill(n)` -/
def keyOf (n k : Nat) : List Bool := zfill n (natBits k)

/-- Python's string comparison `a <= b` on digit strings (lexicographic, shorter prefix first). -/
def lexLe : List Bool → List Bool → Bool
  | [], _ => true
  | _ :: _, [] => false
  | a :: as, b :: bs => if a == b then lexLe as bs else (!a && b)

variable {α : Type}

def mirror (t : List (List Bool × α)) : List (List Bool × α) := t.map fun p => (p.1.reverse, p.2)

/-- the gap-filling `for j in range(2**n - 1)` loop as a left-to-right cursor:
 `cur = counts[j]`, `rest = counts[j+1:]`, `done` = reversed `counts[:j]`; first argument = remaining
 iterations. -/
def fill (zero : α) (n : Nat) :
    Nat → List (List Bool × α) → (List Bool × α) → List (List Bool × α) → Except Err (List (List Bool × α))
  | 0, done, cur, rest => .ok (done.reverse ++ cur :: rest)
  | k + 1, done, cur, rest =>
    match rest with
    | [] => .error .index                       -- counts[j+1] out of range
    | nxt :: rest' =>
      if toNat nxt.1 ≠ toNat cur.1 + 1 then
        fill zero n k (cur :: done) (keyOf n (toNat cur.1 + 1), zero) (nxt :: rest')  -- insert(j+1, (new_bin, 0))
      else fill zero n k (cur :: done) nxt rest'

def padFirst (zero : α) (n : Nat) (l : List (List Bool × α)) : Except Err (List (List Bool × α)) :=
  match l with
  | [] => .error .index                          -- counts[0] on an empty table
  | h :: t => if toNat h.1 ≠ 0 then .ok ((keyOf n 0, zero) :: h :: t) else .ok (h :: t)

def padLast (zero : α) (n : Nat) (l : List (List Bool × α)) : Except Err (List (List Bool × α)) :=
  match l.getLast? with
  | none => .error .index
  | some p => if toNat p.1 ≠ 2 ^ n - 1 then .ok (l ++ [(keyOf n (2 ^ n - 1), zero)]) else .ok l

def fixCounts (zero : α) (t : List (List Bool × α)) (n : Nat) : Except Err (List (List Bool × α)) :=
  let counts := (mirror t).mergeSort (fun a b => lexLe a.1 b.1)
  match padFirst zero n counts with
  | .error e => .error e
  | .ok l1 =>
    match padLast zero n l1 with
    | .error e => .error e
    | .ok l2 =>
      match l2 with
      | [] => .error .index
      | c :: r => fill zero n (2 ^ n - 1) [] c r

end QG.Model.FixCounts
