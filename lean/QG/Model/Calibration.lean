/-
Import-free executable model of `DeviceParameters.load_from_backend`
(src/quantum_gates/_utility/device_parameters.py:129-192).

A backend is what the function reads from it, as a record of finite maps.  A Python `dict` is modelled as
the list of its `(key, value)` items in insertion order and `d[k]` as `List.lookup k d` (first match; a
dict has pairwise distinct keys, so "first" is "the").  Calibration values are opaque tokens of a type
`Val` with a designated `zero` (the `0.0` of `np.zeros`): the function only moves them around.

Transcribed statement by statement (the code as repaired by notes/fixes/D25-mixed-two-qubit-basis.diff):
  isinstance(backend, FakeBackend) / isinstance(backend, Backend) / else: raise ValueError     -> `Kind`
  int_gates = [x for x in config.basis_gates if x == 'ecr' or x == 'cx']                       -> `natives`
  if len(int_gates) == 0: raise ValueError
  self.T1   = [prop.t1(j) for j in self.qubits_layout]                                         -> `perQubit b.t1`
  self.T2   = [prop.t2(j) ...]; self.p = [prop.gate_error('x', [j]) ...]; self.rout = [prop.readout_error(j) ...]
  self.dt   = [config.dt]                                                                      -> `b.dt`
  self.tm   = [prop.readout_length(j) ...]
  max_qubit = np.max(self.qubits_layout) + 1                                                   -> `maxLabel`
  t_int = np.zeros((max_qubit, max_qubit)); p_int = np.zeros(...)                              -> `zeros`
  int_infos = [prop.gate_property(x) for x in int_gates]                                       -> `intInfos`
  if max_qubit > 1:
      for int_info in reversed(int_infos):                                                     -> `fillAll` on the reversed list
          for x in int_info: i, j = x; if i > max_qubit-1 or j > max_qubit-1: continue
              p_int[i,j] = int_info[i,j]['gate_error'][0]; t_int[i,j] = int_info[i,j]['gate_length'][0]   -> `fill`

(The unrepaired code took only the first `ecr`/`cx` of the basis and tested for it after the per-qubit lookups;
on it the correspondence disagrees on mixed cx/ecr devices and on unsupported devices with an incomplete layout.)

Errors (the order of the statements decides which one wins):
  `value`     ValueError            unsupported backend type; no `ecr`/`cx` in the basis; `np.max` of an empty layout
  `property`  BackendPropertyError  qiskit's accessor does not find T1/T2/x error/readout error/readout length of a
                                    requested qubit, or the basis names `ecr`/`cx` but the properties have no such gate
  `attribute` AttributeError        the configuration has no `dt`
Not modelled (recorded as assumptions of the check): the `metadata` entry; a two-qubit gate record without a
`gate_error` or `gate_length` parameter (KeyError); negative labels (BackendPropertyError; labels are `Nat` here).
-/
namespace QG.Model.Calibration

inductive Err | value | property | attribute
  deriving Repr, DecidableEq

inductive Kind | fake | v2 | other
  deriving Repr, DecidableEq

/-- what `load_from_backend` reads from a backend -/
structure Backend (Val : Type) where
  kind : Kind
  /-- `prop.t1(q)` -/
  t1 : List (Nat × Val)
  /-- `prop.t2(q)` -/
  t2 : List (Nat × Val)
  /-- `prop.gate_error('x', [q])` -/
  xerr : List (Nat × Val)
  /-- `prop.readout_error(q)` -/
  rerr : List (Nat × Val)
  /-- `prop.readout_length(q)` -/
  rlen : List (Nat × Val)
  /-- `config.dt` (absent: the attribute does not exist) -/
  dt : Option Val
  /-- `config.basis_gates` -/
  basis : List String
  /-- `prop.gate_property(name)` for the two-qubit gates: name ↦ ordered pair ↦ (gate_error, gate_length) -/
  gate2 : List (String × List ((Nat × Nat) × (Val × Val)))

/-- the numerical attributes of `DeviceParameters` after loading (`metadata` is not modelled) -/
structure Params (Val : Type) where
  T1 : List Val
  T2 : List Val
  p : List Val
  rout : List Val
  tm : List Val
  dt : List Val
  p_int : List (List Val)
  t_int : List (List Val)
  deriving Repr, DecidableEq

variable {Val : Type}

/-- `[accessor(j) for j in layout]`; the accessor raises `BackendPropertyError` on a missing entry -/
def perQubit (m : List (Nat × Val)) : List Nat → Except Err (List Val)
  | [] => .ok []
  | q :: L =>
    match List.lookup q m with
    | none => .error .property
    | some v =>
      match perQubit m L with
      | .error e => .error e
      | .ok vs => .ok (v :: vs)

/-- `np.max(layout)`; `none` = the `ValueError` numpy raises on an empty sequence -/
def maxLabel : List Nat → Option Nat
  | [] => none
  | q :: L => some (L.foldl max q)

/-- `[x for x in basis_gates if x == 'ecr' or x == 'cx']`: the supported two-qubit gates, in basis order -/
def natives (basis : List String) : List String := basis.filter fun x => x == "ecr" || x == "cx"

/-- `np.zeros((n, n))` -/
def zeros (zero : Val) (n : Nat) : List (List Val) := List.replicate n (List.replicate n zero)

/-- `t[i, j] = v` (both indices are in range wherever the model calls it) -/
def setCell (t : List (List Val)) (i j : Nat) (v : Val) : List (List Val) := t.modify i (fun row => row.set j v)

/-- the `for x in int_info` loop over the remaining keys `rest` of the dict `G`; the state is `(p_int, t_int)` -/
def fill (mq : Nat) (G : List ((Nat × Nat) × (Val × Val))) :
    List ((Nat × Nat) × (Val × Val)) → List (List Val) × List (List Val) → List (List Val) × List (List Val)
  | [], acc => acc
  | (k, _) :: rest, (p, t) =>
    if k.1 > mq - 1 ∨ k.2 > mq - 1 then fill mq G rest (p, t)              -- continue
    else
      match List.lookup k G with                                           -- int_info[i, j]
      | some (e, l) => fill mq G rest (setCell p k.1 k.2 e, setCell t k.1 k.2 l)
      | none => fill mq G rest (p, t)                                      -- unreachable: `k` is a key of `G`

/-- `for int_info in <list>: <the loop above>` : the tables of the list are written one after the other, so a later
table overwrites an earlier one on a common pair -/
def fillAll (mq : Nat) : List (List ((Nat × Nat) × (Val × Val))) → List (List Val) × List (List Val) →
    List (List Val) × List (List Val)
  | [], acc => acc
  | G :: rest, acc => fillAll mq rest (fill mq G G acc)

/-- `[prop.gate_property(x) for x in int_gates]`; the accessor raises on a gate the properties do not hold -/
def intInfos (gate2 : List (String × List ((Nat × Nat) × (Val × Val)))) :
    List String → Except Err (List (List ((Nat × Nat) × (Val × Val))))
  | [] => .ok []
  | g :: gs =>
    match List.lookup g gate2 with
    | none => .error .property
    | some G =>
      match intInfos gate2 gs with
      | .error e => .error e
      | .ok Gs => .ok (G :: Gs)

/-- everything after the two rejections; `gs` = `int_gates` (non-empty when called) -/
def loadCore (zero : Val) (L : List Nat) (b : Backend Val) (gs : List String) : Except Err (Params Val) :=
  match perQubit b.t1 L with
  | .error e => .error e
  | .ok T1 =>
  match perQubit b.t2 L with
  | .error e => .error e
  | .ok T2 =>
  match perQubit b.xerr L with
  | .error e => .error e
  | .ok p =>
  match perQubit b.rerr L with
  | .error e => .error e
  | .ok rout =>
  match b.dt with
  | none => .error .attribute
  | some d =>
  match perQubit b.rlen L with
  | .error e => .error e
  | .ok tm =>
  match maxLabel L with
  | none => .error .value
  | some m =>
  let mq := m + 1
  let z := zeros zero mq
  match intInfos b.gate2 gs with
  | .error e => .error e
  | .ok Gs =>
    let pt := if mq > 1 then fillAll mq Gs.reverse (z, z) else (z, z)
    .ok { T1 := T1, T2 := T2, p := p, rout := rout, tm := tm, dt := [d], p_int := pt.1, t_int := pt.2 }

def load (zero : Val) (L : List Nat) (b : Backend Val) : Except Err (Params Val) :=
  match b.kind with
  | .other => .error .value                                  -- neither a BackendV2 nor a FakeBackendV2
  | _ =>
    match natives b.basis with
    | [] => .error .value                                    -- no supported interaction gate
    | g0 :: gs => loadCore zero L b (g0 :: gs)

end QG.Model.Calibration
