/-
Import-free executable model of the *wiring* of the simulator (C03, C08, C11):

  MrAndersonSimulator._process_layout / _preprocess_circuit          (simulator.py)
  _apply_gates_on_circuit, both branches                              (simulator.py)
  the circuit classes Circuit, AlternativeCircuit (= Standard/Efficient/One), BinaryCircuit (circuit.py)

with an *abstract gate set*: a gate-set call is recorded with its arguments and returns the opaque
token `tok k` (k = index of the call).  Device parameters are symbolic tokens (`Par.T1 q` = `T1[q]`,
`Par.tint c t` = `t_int[c][t]`, ...), phases are exact integers in units of π/128 (the harness uses rz
angles k·π/128), so the model is exact and computable.

What the Python would raise is an `Except` value (`IndexError`, `ValueError` of `list.index`,
`AssertionError` of the neighbour check).
-/
namespace QG.Model.Wiring

inductive Err | index | value | assertion
  deriving Repr, DecidableEq

/-- one instruction of `QuantumCircuit.data`; qubits are physical labels, `theta` in units of π/128 -/
inductive Op
  | rz (q : Nat) (theta : Int)
  | sx (q : Nat)
  | x (q : Nat)
  | cx (c t : Nat)
  | ecr (c t : Nat)
  | delay (q : Nat) (dur : Nat)
  | barrier (qs : List Nat)
  | measure (q c : Nat)
  deriving Repr, DecidableEq

/-- symbolic device parameters -/
inductive Par
  | T1 (q : Nat) | T2 (q : Nat) | p (q : Nat) | rout (q : Nat) | tm (q : Nat)
  | pint (c t : Nat) | tint (c t : Nat)
  | durDt (dur : Nat)          -- `operation.duration * dt`
  deriving Repr, DecidableEq

/-- a call into the gate set: method, phase arguments (units of π/128), noise / duration arguments -/
structure GateCall where
  method : String
  phases : List Int
  pars : List Par
  deriving Repr, DecidableEq

/-- a method call on a circuit object, as issued by `_apply_gates_on_circuit` -/
inductive CircCall
  | Rz (i : Nat) (theta : Int)
  | I (i : Nat)
  | X (i : Nat) (pars : List Par)
  | SX (i : Nat) (pars : List Par)
  | CNOT (i k : Nat) (pars : List Par)
  | ECR (i k : Nat) (pars : List Par)
  | relaxation (i : Nat) (pars : List Par)
  | bitflip (i : Nat) (pars : List Par)
  deriving Repr, DecidableEq

/-! ## simulator: layout, preprocessing, call generation -/

def addNew (l : List Nat) (q : Nat) : List Nat := if l.contains q then l else l ++ [q]

/-- `_process_layout`: used qubits (first touch; `delay` does not count; a barrier counts only with one or
two qubits, exactly like the `len(x.qubits)` tests), measured (qubit, clbit) pairs, number of used qubits.
The used qubits are sorted ascending (the repaired code, D6). -/
def usedFirstTouch : List Op → List Nat → List Nat
  | [], acc => acc
  | op :: rest, acc =>
    let acc' := match op with
      | .rz q _ => addNew acc q
      | .sx q => addNew acc q
      | .x q => addNew acc q
      | .cx c t => addNew (addNew acc c) t
      | .ecr c t => addNew (addNew acc c) t
      | .delay _ _ => acc
      | .barrier [q] => addNew acc q
      | .barrier [q1, q2] => addNew (addNew acc q1) q2
      | .barrier _ => acc
      | .measure q _ => addNew acc q
    usedFirstTouch rest acc'

def measuredPairs : List Op → List (Nat × Nat)
  | [] => []
  | .measure q c :: rest => (q, c) :: measuredPairs rest
  | _ :: rest => measuredPairs rest

def insertSorted (x : Nat) : List Nat → List Nat
  | [] => [x]
  | y :: ys => if x ≤ y then x :: y :: ys else y :: insertSorted x ys

def sortNat (l : List Nat) : List Nat := l.foldr insertSorted []

structure Layout where
  used : List Nat
  measured : List (Nat × Nat)
  deriving Repr, DecidableEq

def processLayout (sorted : Bool) (ops : List Op) : Layout :=
  let u := usedFirstTouch ops []
  { used := if sorted then sortNat u else u, measured := measuredPairs ops }

/-- `_preprocess_circuit`: the instructions kept in `data` and the number of rz among them -/
def keep (layout : List Nat) : Op → Bool
  | .ecr c t => layout.contains c && layout.contains t
  | .cx c t => layout.contains c && layout.contains t
  | .measure _ _ => false
  | .barrier _ => false
  | .rz q _ => layout.contains q
  | .sx q => layout.contains q
  | .x q => layout.contains q
  | .delay q _ => layout.contains q

def preprocess (layout : List Nat) (ops : List Op) : List Op := ops.filter (keep layout)

def countRz : List Op → Nat
  | [] => 0
  | .rz _ _ :: r => countRz r + 1
  | _ :: r => countRz r

/-- `depth = len(data) - n_rz + 1` -/
def depthOf (data : List Op) : Nat := data.length - countRz data + 1

def indexOf? (l : List Nat) (q : Nat) : Option Nat :=
  let rec go : List Nat → Nat → Option Nat
    | [], _ => none
    | y :: ys, k => if y = q then some k else go ys (k + 1)
  go l 0

def indexE (l : List Nat) (q : Nat) : Except Err Nat :=
  match indexOf? l q with
  | some k => .ok k
  | none => .error .value           -- list.index raises ValueError

def twoQubitPars (c t : Nat) : List Par :=
  [.tint c t, .pint c t, .p c, .p t, .T1 c, .T2 c, .T1 t, .T2 t]

/-- `_apply_gates_on_circuit`, `BinaryCircuit` branch: physical labels index the device tables, positions in
the layout index the circuit object -/
def callsBinaryOp (layout : List Nat) : Op → Except Err (List CircCall)
  | .rz q th => do let v ← indexE layout q; pure [.Rz v th]
  | .sx q => do let v ← indexE layout q; pure [.SX v [.p q, .T1 q, .T2 q]]
  | .x q => do let v ← indexE layout q; pure [.X v [.p q, .T1 q, .T2 q]]
  | .ecr c t => do
      let cv ← indexE layout c
      let tv ← indexE layout t
      pure [.ECR cv tv (twoQubitPars c t)]
  | .cx c t => do
      let cv ← indexE layout c
      let tv ← indexE layout t
      pure [.CNOT cv tv (twoQubitPars c t)]
  | .delay q d => do let v ← indexE layout q; pure [.relaxation v [.durDt d, .T1 q, .T2 q]]
  | _ => pure []

def concatE {α : Type} : List (Except Err (List α)) → Except Err (List α)
  | [] => .ok []
  | x :: xs => do let a ← x; let b ← concatE xs; pure (a ++ b)

/-- `for k in range(nqubit): q_r = qubit_layout[k]; circ.bitflip(k, tm[q_r], rout[q_r])` -/
def flipCall (layout : List Nat) (k : Nat) : Except Err (List CircCall) :=
  match layout[k]? with
  | some q => .ok [CircCall.bitflip k [.tm q, .rout q]]
  | none => .error .index

def flipCalls (nqubit : Nat) (layout : List Nat) : Except Err (List CircCall) :=
  concatE ((List.range nqubit).map (flipCall layout))

def callsBinary (nqubit : Nat) (layout : List Nat) (data : List Op) : Except Err (List CircCall) := do
  let body ← concatE (data.map (callsBinaryOp layout))
  let flips ← flipCalls nqubit layout
  pure (body ++ flips)

/-- the per-qubit loop `for k in range(nqubit): if k == q: ... else: circ.I(k)` of the layered branch -/
def layerLoop (nqubit : Nat) (hit : Nat → Option (List CircCall)) : List CircCall :=
  (List.range nqubit).flatMap fun k => match hit k with
    | some cs => cs
    | none => [.I k]

/-- `_apply_gates_on_circuit`, layered branch: the physical label **is** the row index -/
def callsLayeredOp (nqubit : Nat) : Op → List CircCall
  | .rz q th => [.Rz q th]
  | .sx q => layerLoop nqubit fun k => if k = q then some [.SX k [.p k, .T1 k, .T2 q]] else none
  | .x q => layerLoop nqubit fun k => if k = q then some [.X k [.p k, .T1 k, .T2 q]] else none
  | .ecr c t => layerLoop nqubit fun k =>
      if k = c then some [.ECR k t (twoQubitPars k t)] else if k = t then some [] else none
  | .cx c t => layerLoop nqubit fun k =>
      if k = c then some [.CNOT k t (twoQubitPars k t)] else if k = t then some [] else none
  | .delay q d => layerLoop nqubit fun k => if k = q then some [.relaxation k [.durDt d, .T1 k, .T2 k]] else none
  | _ => []

def callsLayered (nqubit : Nat) (data : List Op) : List CircCall :=
  data.flatMap (callsLayeredOp nqubit) ++ (List.range nqubit).map fun k => .bitflip k [.tm k, .rout k]

/-! ## circuit classes as state machines -/

/-- an entry of a layer: the initial scalar `1`, the literal identity matrix of `I()`, or a sampled gate -/
inductive Entry | one | ident | tok (k : Nat)
  deriving Repr, DecidableEq

/-- `np.pi/2` in phase units -/
def halfPi : Int := 64

def setAt {α : Type} (l : List α) (i : Nat) (v : α) : Except Err (List α) :=
  if i < l.length then .ok (l.set i v) else .error .index

def getAt {α : Type} (l : List α) (i : Nat) : Except Err α :=
  match l[i]? with
  | some v => .ok v
  | none => .error .index

/-- what a two-qubit method does with the gate set and the phases, common to all classes:
returns the call, the updated phases, and the pair (row that stores the matrix, order of the item for the
index-based class) -/
structure TwoQ where
  call : GateCall
  phi : List Int

/-- `CNOT(i, k, ...)`: forward if `i < k`; the reversed gate is sampled with the *same* argument order
(control first) and updates both phases -/
def twoQCNOT (phi : List Int) (i k : Nat) (pars : List Par) : Except Err TwoQ := do
  let pi_ ← getAt phi i
  let pk ← getAt phi k
  if i < k then
    let phi' ← setAt phi i (pi_ - halfPi)
    pure { call := ⟨"CNOT", [pi_, pk], pars⟩, phi := phi' }
  else
    let phi1 ← setAt phi i (pi_ + halfPi + 2 * halfPi)
    let pk' ← getAt phi1 k
    let phi2 ← setAt phi1 k (pk' + halfPi)
    pure { call := ⟨"CNOT_inv", [pi_, pk], pars⟩, phi := phi2 }

/-- `[t, p2, p_i, p_k, T1i, T2i, T1k, T2k]` with the two qubits' entries exchanged (slot order of the reversed ECR) -/
def swapRoles : List Par → List Par
  | [t, p2, pi_, pk, t1i, t2i, t1k, t2k] => [t, p2, pk, pi_, t1k, t2k, t1i, t2i]
  | l => l

/-- `ECR(i, k, ...)`: forward if `i < k`; the reversed gate takes phases **and** noise arguments in slot
order (lower index first) — the repaired code (D5) -/
def twoQECR (phi : List Int) (i k : Nat) (pars : List Par) : Except Err TwoQ := do
  let pi_ ← getAt phi i
  let pk ← getAt phi k
  if i < k then pure { call := ⟨"ECR", [pi_, pk], pars⟩, phi := phi }
  else pure { call := ⟨"ECR_inv", [pk, pi_], swapRoles pars⟩, phi := phi }

def oneQCall (method : String) (phi : List Int) (i : Nat) (pars : List Par) (withPhase : Bool) :
    Except Err GateCall := do
  if withPhase then
    let p ← getAt phi i
    pure ⟨method, [-p], pars⟩
  else pure ⟨method, [], pars⟩

/-! ### `Circuit` (fixed depth grid) -/
structure GridState where
  nqubit : Nat
  depth : Nat
  j : Nat
  s : Nat
  phi : List Int
  grid : List (List Entry)        -- grid[row][col]
  calls : List GateCall           -- gate-set calls so far (reversed)
  deriving Repr, DecidableEq

def GridState.init (n depth : Nat) : GridState :=
  { nqubit := n, depth := depth, j := 0, s := 0, phi := List.replicate n 0,
    grid := List.replicate n (List.replicate depth .one), calls := [] }

def gridWrite (g : List (List Entry)) (i j : Nat) (e : Entry) : Except Err (List (List Entry)) := do
  let row ← getAt g i
  let row' ← setAt row j e
  setAt g i row'

/-- `Circuit.apply` -/
def GridState.apply1 (st : GridState) (i : Nat) (e : Entry) : Except Err GridState :=
  if st.s < st.nqubit then do
    let g ← gridWrite st.grid i st.j e
    pure { st with grid := g, s := st.s + 1 }
  else if st.s = st.nqubit then do
    let g ← gridWrite st.grid i (st.j + 1) e
    pure { st with grid := g, s := 1, j := st.j + 1 }
  else pure st

def GridState.apply2 (st : GridState) (i : Nat) (e : Entry) (phi : List Int) : Except Err GridState :=
  if st.s < st.nqubit then do
    let g ← gridWrite st.grid i st.j e
    pure { st with grid := g, s := st.s + 2, phi := phi }
  else if st.s = st.nqubit then do
    let g ← gridWrite st.grid i (st.j + 1) e
    pure { st with grid := g, s := 2, j := st.j + 1, phi := phi }
  else pure st

def absDiff (a b : Nat) : Nat := if a ≤ b then b - a else a - b

def GridState.step (st : GridState) : CircCall → Except Err GridState
  | .Rz i th => do
      let p ← getAt st.phi i
      let phi ← setAt st.phi i (p + th)
      pure { st with phi := phi }
  | .I i => st.apply1 i .ident
  | .X i pars => do
      let c ← oneQCall "X" st.phi i pars true
      ({ st with calls := c :: st.calls }).apply1 i (.tok st.calls.length)
  | .SX i pars => do
      let c ← oneQCall "SX" st.phi i pars true
      ({ st with calls := c :: st.calls }).apply1 i (.tok st.calls.length)
  | .relaxation i pars => do
      let c ← oneQCall "relaxation" st.phi i pars false
      ({ st with calls := c :: st.calls }).apply1 i (.tok st.calls.length)
  | .bitflip i pars => do
      let c ← oneQCall "bitflip" st.phi i pars false
      ({ st with calls := c :: st.calls }).apply1 i (.tok st.calls.length)
  | .CNOT i k pars =>
      if absDiff i k ≠ 1 then .error .assertion
      else if st.s < st.nqubit ∨ st.s = st.nqubit then do
        let t ← twoQCNOT st.phi i k pars
        ({ st with calls := t.call :: st.calls }).apply2 i (.tok st.calls.length) t.phi
      else pure st
  | .ECR i k pars =>
      if absDiff i k ≠ 1 then .error .assertion
      else if st.s < st.nqubit ∨ st.s = st.nqubit then do
        let t ← twoQECR st.phi i k pars
        ({ st with calls := t.call :: st.calls }).apply2 i (.tok st.calls.length) t.phi
      else pure st

def GridState.reset (st : GridState) : GridState :=
  { st with j := 0, s := 0, grid := List.replicate st.nqubit (List.replicate st.depth .one),
            phi := List.replicate st.nqubit 0 }

/-! ### `AlternativeCircuit` (Standard / Efficient / One circuit): layers on demand -/
structure LayerState where
  nqubit : Nat
  s : Nat
  phi : List Int
  mp : List Entry
  mpList : List (List Entry)      -- completed layers (reversed)
  calls : List GateCall
  deriving Repr, DecidableEq

def LayerState.init (n : Nat) : LayerState :=
  { nqubit := n, s := 0, phi := List.replicate n 0, mp := List.replicate n .one, mpList := [], calls := [] }

def LayerState.flush (st : LayerState) : LayerState :=
  if st.s = st.nqubit then
    { st with mpList := st.mp :: st.mpList, mp := List.replicate st.nqubit .one, s := 0 }
  else st

def LayerState.apply1 (st : LayerState) (i : Nat) (e : Entry) : Except Err LayerState := do
  let mp ← setAt st.mp i e
  pure ({ st with mp := mp, s := st.s + 1 }).flush

def LayerState.apply2 (st : LayerState) (i : Nat) (e : Entry) (phi : List Int) : Except Err LayerState := do
  let mp ← setAt st.mp i e
  pure ({ st with mp := mp, s := st.s + 2, phi := phi }).flush

def LayerState.step (st : LayerState) : CircCall → Except Err LayerState
  | .Rz i th => do
      let p ← getAt st.phi i
      let phi ← setAt st.phi i (p + th)
      pure { st with phi := phi }
  | .I i => st.apply1 i .ident
  | .X i pars => do
      let c ← oneQCall "X" st.phi i pars true
      ({ st with calls := c :: st.calls }).apply1 i (.tok st.calls.length)
  | .SX i pars => do
      let c ← oneQCall "SX" st.phi i pars true
      ({ st with calls := c :: st.calls }).apply1 i (.tok st.calls.length)
  | .relaxation i pars => do
      let c ← oneQCall "relaxation" st.phi i pars false
      ({ st with calls := c :: st.calls }).apply1 i (.tok st.calls.length)
  | .bitflip i pars => do
      let c ← oneQCall "bitflip" st.phi i pars false
      ({ st with calls := c :: st.calls }).apply1 i (.tok st.calls.length)
  | .CNOT i k pars => do
      let t ← twoQCNOT st.phi i k pars
      ({ st with calls := t.call :: st.calls }).apply2 i (.tok st.calls.length) t.phi
  | .ECR i k pars => do
      let t ← twoQECR st.phi i k pars
      ({ st with calls := t.call :: st.calls }).apply2 i (.tok st.calls.length) t.phi

def LayerState.reset (st : LayerState) : LayerState :=
  { st with s := 0, phi := List.replicate st.nqubit 0, mp := List.replicate st.nqubit .one, mpList := [] }

/-! ### `BinaryCircuit` (index based) -/
structure BinState where
  nqubit : Nat
  phi : List Int
  items : List (Nat × Nat × Int)  -- (token, i, j) with j = -1 for one-qubit items (reversed)
  calls : List GateCall
  deriving Repr, DecidableEq

def BinState.init (n : Nat) : BinState := { nqubit := n, phi := List.replicate n 0, items := [], calls := [] }

def BinState.step (st : BinState) : CircCall → Except Err BinState
  | .Rz i th => do
      let p ← getAt st.phi i
      let phi ← setAt st.phi i (p + th)
      pure { st with phi := phi }
  | .I i => pure { st with items := (0, i, -2) :: st.items }     -- literal identity, marked by j = -2
  | .X i pars => do
      let c ← oneQCall "X" st.phi i pars true
      pure { st with calls := c :: st.calls, items := (st.calls.length, i, -1) :: st.items }
  | .SX i pars => do
      let c ← oneQCall "SX" st.phi i pars true
      pure { st with calls := c :: st.calls, items := (st.calls.length, i, -1) :: st.items }
  | .relaxation i pars => do
      let c ← oneQCall "relaxation" st.phi i pars false
      pure { st with calls := c :: st.calls, items := (st.calls.length, i, -1) :: st.items }
  | .bitflip i pars => do
      let c ← oneQCall "bitflip" st.phi i pars false
      pure { st with calls := c :: st.calls, items := (st.calls.length, i, -1) :: st.items }
  | .CNOT i k pars => do
      let t ← twoQCNOT st.phi i k pars
      -- the matrix is in (lower, higher) slot order: forward [i,k]; reversed [k,i] (repaired, D4)
      let item := if i < k then (st.calls.length, i, (k : Int)) else (st.calls.length, k, (i : Int))
      pure { st with calls := t.call :: st.calls, phi := t.phi, items := item :: st.items }
  | .ECR i k pars => do
      let t ← twoQECR st.phi i k pars
      let item := if i < k then (st.calls.length, i, (k : Int)) else (st.calls.length, k, (i : Int))
      pure { st with calls := t.call :: st.calls, phi := t.phi, items := item :: st.items }

def BinState.reset (st : BinState) : BinState := { st with phi := List.replicate st.nqubit 0, items := [] }

def foldE {σ α : Type} (f : σ → α → Except Err σ) : σ → List α → Except Err σ
  | s, [] => .ok s
  | s, a :: as => do let s' ← f s a; foldE f s' as

end QG.Model.Wiring
