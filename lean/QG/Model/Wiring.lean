/-
Import-free executable model of the *wiring* of the simulator (C03, C08, C11):

  MrAndersonSimulator._process_layout / _preprocess_circuit          (simulator.py)
  _apply_gates_on_circuit, both branches                              (simulator.py)
  the circuit classes Circuit, AlternativeCircuit (= Standard/Efficient/One), BinaryCircuit (circuit.py)

with an *abstract gate set*: a gate-set call is recorded with its arguments and returns the opaque
token `tok k` (k = index of the call).  Device parameters are symbolic tokens (`Par.T1 q` = `T1[q]`,
`Par.tint c t` = `t_int[c][t]`, ...).  Phases are elements of an arbitrary type `Φ` with an explicit dictionary
`PhaseOps Φ` (zero, add, neg, π/2): the driver runs the model at `Φ = Int` (units of π/128; the harness uses rz
angles k·π/128, so the comparison is exact), the theorems instantiate it at `Φ = ℝ`.

What the Python would raise is an `Except` value (`IndexError`, `ValueError` of `list.index`,
`AssertionError` of the neighbour check).
-/
namespace QG.Model.Wiring

inductive Err | index | value | assertion
  deriving Repr, DecidableEq

/-- phase arithmetic: `np.pi/2` and float addition / negation, as an explicit dictionary -/
structure PhaseOps (Φ : Type) where
  zero : Φ
  add : Φ → Φ → Φ
  neg : Φ → Φ
  halfPi : Φ

/-- the driver's instance: integers in units of π/128 -/
def intPhase : PhaseOps Int := ⟨0, (· + ·), (- ·), 64⟩

/-- one instruction of `QuantumCircuit.data`; qubits are physical labels -/
inductive Op (Φ : Type)
  | rz (q : Nat) (theta : Φ)
  | sx (q : Nat)
  | x (q : Nat)
  | cx (c t : Nat)
  | ecr (c t : Nat)
  | delay (q : Nat) (dur : Nat)
  | barrier (qs : List Nat)
  | measure (q c : Nat)
  deriving Repr, DecidableEq

/-- symbolic device parameters -/
inductive Par
  | T1 (q : Nat) | T2 (q : Nat) | p (q : Nat) | rout (q : Nat) | tm (q : Nat)
  | pint (c t : Nat) | tint (c t : Nat)
  | durDt (dur : Nat)          -- `operation.duration * dt`
  deriving Repr, DecidableEq

/-- a call into the gate set: method, phase arguments, noise / duration arguments -/
structure GateCall (Φ : Type) where
  method : String
  phases : List Φ
  pars : List Par
  deriving Repr, DecidableEq

/-- a method call on a circuit object, as issued by `_apply_gates_on_circuit` -/
inductive CircCall (Φ : Type)
  | Rz (i : Nat) (theta : Φ)
  | I (i : Nat)
  | X (i : Nat) (pars : List Par)
  | SX (i : Nat) (pars : List Par)
  | CNOT (i k : Nat) (pars : List Par)
  | ECR (i k : Nat) (pars : List Par)
  | relaxation (i : Nat) (pars : List Par)
  | bitflip (i : Nat) (pars : List Par)
  deriving Repr, DecidableEq

/-! ## simulator: layout, preprocessing, call generation -/

def addNew (l : List Nat) (q : Nat) : List Nat := if l.contains q then l else l ++ [q]

/-- `_process_layout`: used qubits (first touch; `delay` does not count; a barrier counts only with one or
two qubits, exactly like the `len(x.qubits)` tests), measured (qubit, clbit) pairs, number of used qubits.
The used qubits are sorted ascending (the repaired code, D6). -/
def usedFirstTouch {Φ : Type} : List (Op Φ) → List Nat → List Nat
  | [], acc => acc
  | op :: rest, acc =>
    let acc' := match op with
      | .rz q _ => addNew acc q
      | .sx q => addNew acc q
      | .x q => addNew acc q
      | .cx c t => addNew (addNew acc c) t
      | .ecr c t => addNew (addNew acc c) t
      | .delay _ _ => acc
      | .barrier [q] => addNew acc q
      | .barrier [q1, q2] => addNew (addNew acc q1) q2
      | .barrier _ => acc
      | .measure q _ => addNew acc q
    usedFirstTouch rest acc'

def measuredPairs {Φ : Type} : List (Op Φ) → List (Nat × Nat)
  | [] => []
  | .measure q c :: rest => (q, c) :: measuredPairs rest
  | _ :: rest => measuredPairs rest

def insertSorted (x : Nat) : List Nat → List Nat
  | [] => [x]
  | y :: ys => if x ≤ y then x :: y :: ys else y :: insertSorted x ys

def sortNat (l : List Nat) : List Nat := l.foldr insertSorted []

structure Layout where
  used : List Nat
  measured : List (Nat × Nat)
  deriving Repr, DecidableEq

def processLayout {Φ : Type} (sorted : Bool) (ops : List (Op Φ)) : Layout :=
  let u := usedFirstTouch ops []
  { used := if sorted then sortNat u else u, measured := measuredPairs ops }

/-- `_preprocess_circuit`: the instructions kept in `data` and the number of rz among them -/
def keep {Φ : Type} (layout : List Nat) : Op Φ → Bool
  | .ecr c t => layout.contains c && layout.contains t
  | .cx c t => layout.contains c && layout.contains t
  | .measure _ _ => false
  | .barrier _ => false
  | .rz q _ => layout.contains q
  | .sx q => layout.contains q
  | .x q => layout.contains q
  | .delay q _ => layout.contains q

def preprocess {Φ : Type} (layout : List Nat) (ops : List (Op Φ)) : List (Op Φ) := ops.filter (keep layout)

def countRz {Φ : Type} : List (Op Φ) → Nat
  | [] => 0
  | .rz _ _ :: r => countRz r + 1
  | _ :: r => countRz r

/-- `depth = len(data) - n_rz + 1` -/
def depthOf {Φ : Type} (data : List (Op Φ)) : Nat := data.length - countRz data + 1

def indexOf? (l : List Nat) (q : Nat) : Option Nat :=
  let rec go : List Nat → Nat → Option Nat
    | [], _ => none
    | y :: ys, k => if y = q then some k else go ys (k + 1)
  go l 0

def indexE (l : List Nat) (q : Nat) : Except Err Nat :=
  match indexOf? l q with
  | some k => .ok k
  | none => .error .value           -- list.index raises ValueError

def twoQubitPars (c t : Nat) : List Par :=
  [.tint c t, .pint c t, .p c, .p t, .T1 c, .T2 c, .T1 t, .T2 t]

/-- `_apply_gates_on_circuit`, `BinaryCircuit` branch: physical labels index the device tables, positions in
the layout index the circuit object -/
def callsBinaryOp {Φ : Type} (layout : List Nat) : Op Φ → Except Err (List (CircCall Φ))
  | .rz q th => do let v ← indexE layout q; pure [.Rz v th]
  | .sx q => do let v ← indexE layout q; pure [.SX v [.p q, .T1 q, .T2 q]]
  | .x q => do let v ← indexE layout q; pure [.X v [.p q, .T1 q, .T2 q]]
  | .ecr c t => do
      let cv ← indexE layout c
      let tv ← indexE layout t
      pure [.ECR cv tv (twoQubitPars c t)]
  | .cx c t => do
      let cv ← indexE layout c
      let tv ← indexE layout t
      pure [.CNOT cv tv (twoQubitPars c t)]
  | .delay q d => do let v ← indexE layout q; pure [.relaxation v [.durDt d, .T1 q, .T2 q]]
  | _ => pure []

def concatE {α : Type} : List (Except Err (List α)) → Except Err (List α)
  | [] => .ok []
  | x :: xs => do let a ← x; let b ← concatE xs; pure (a ++ b)

/-- `for k in range(nqubit): q_r = qubit_layout[k]; circ.bitflip(k, tm[q_r], rout[q_r])` -/
def flipCall {Φ : Type} (layout : List Nat) (k : Nat) : Except Err (List (CircCall Φ)) :=
  match layout[k]? with
  | some q => .ok [CircCall.bitflip k [.tm q, .rout q]]
  | none => .error .index

def flipCalls {Φ : Type} (nqubit : Nat) (layout : List Nat) : Except Err (List (CircCall Φ)) :=
  concatE ((List.range nqubit).map (flipCall layout))

def callsBinary {Φ : Type} (nqubit : Nat) (layout : List Nat) (data : List (Op Φ)) : Except Err (List (CircCall Φ)) := do
  let body ← concatE (data.map (callsBinaryOp layout))
  let flips ← flipCalls nqubit layout
  pure (body ++ flips)

/-- the per-qubit loop `for k in range(nqubit): if k == q: ... else: circ.I(k)` of the layered branch -/
def layerLoop {Φ : Type} (nqubit : Nat) (hit : Nat → Option (List (CircCall Φ))) : List (CircCall Φ) :=
  (List.range nqubit).flatMap fun k => match hit k with
    | some cs => cs
    | none => [.I k]

/-- `_apply_gates_on_circuit`, layered branch: the physical label **is** the row index -/
def callsLayeredOp {Φ : Type} (nqubit : Nat) : Op Φ → List (CircCall Φ)
  | .rz q th => [.Rz q th]
  | .sx q => layerLoop nqubit fun k => if k = q then some [.SX k [.p k, .T1 k, .T2 q]] else none
  | .x q => layerLoop nqubit fun k => if k = q then some [.X k [.p k, .T1 k, .T2 q]] else none
  | .ecr c t => layerLoop nqubit fun k =>
      if k = c then some [.ECR k t (twoQubitPars k t)] else if k = t then some [] else none
  | .cx c t => layerLoop nqubit fun k =>
      if k = c then some [.CNOT k t (twoQubitPars k t)] else if k = t then some [] else none
  | .delay q d => layerLoop nqubit fun k => if k = q then some [.relaxation k [.durDt d, .T1 k, .T2 k]] else none
  | _ => []

def callsLayered {Φ : Type} (nqubit : Nat) (data : List (Op Φ)) : List (CircCall Φ) :=
  data.flatMap (callsLayeredOp nqubit) ++ (List.range nqubit).map fun k => .bitflip k [.tm k, .rout k]

/-! ## circuit classes as state machines -/

/-- an entry of a layer: the initial scalar `1`, the literal identity matrix of `I()`, or a sampled gate -/
inductive Entry | one | ident | tok (k : Nat)
  deriving Repr, DecidableEq

def setAt {α : Type} (l : List α) (i : Nat) (v : α) : Except Err (List α) :=
  if i < l.length then .ok (l.set i v) else .error .index

def getAt {α : Type} (l : List α) (i : Nat) : Except Err α :=
  match l[i]? with
  | some v => .ok v
  | none => .error .index

/-- what a two-qubit method does with the gate set and the phases, common to all classes:
returns the call, the updated phases, and the pair (row that stores the matrix, order of the item for the
index-based class) -/
structure TwoQ (Φ : Type) where
  call : GateCall Φ
  phi : List Φ

/-- `CNOT(i, k, ...)`: forward if `i < k`; the reversed gate is sampled with the *same* argument order
(control first) and updates both phases -/
def twoQCNOT {Φ : Type} (P : PhaseOps Φ) (phi : List Φ) (i k : Nat) (pars : List Par) : Except Err (TwoQ Φ) := do
  let pi_ ← getAt phi i
  let pk ← getAt phi k
  if i < k then
    let phi' ← setAt phi i (P.add pi_ (P.neg P.halfPi))
    pure { call := ⟨"CNOT", [pi_, pk], pars⟩, phi := phi' }
  else
    let phi1 ← setAt phi i (P.add (P.add pi_ P.halfPi) (P.add P.halfPi P.halfPi))
    let pk' ← getAt phi1 k
    let phi2 ← setAt phi1 k (P.add pk' P.halfPi)
    pure { call := ⟨"CNOT_inv", [pi_, pk], pars⟩, phi := phi2 }

/-- `[t, p2, p_i, p_k, T1i, T2i, T1k, T2k]` with the two qubits' entries exchanged (slot order of the reversed ECR) -/
def swapRoles : List Par → List Par
  | [t, p2, pi_, pk, t1i, t2i, t1k, t2k] => [t, p2, pk, pi_, t1k, t2k, t1i, t2i]
  | l => l

/-- `ECR(i, k, ...)`: forward if `i < k`; the reversed gate takes phases **and** noise arguments in slot
order (lower index first) — the repaired code (D5) -/
def twoQECR {Φ : Type} (phi : List Φ) (i k : Nat) (pars : List Par) : Except Err (TwoQ Φ) := do
  let pi_ ← getAt phi i
  let pk ← getAt phi k
  if i < k then pure { call := ⟨"ECR", [pi_, pk], pars⟩, phi := phi }
  else pure { call := ⟨"ECR_inv", [pk, pi_], swapRoles pars⟩, phi := phi }

def oneQCall {Φ : Type} (P : PhaseOps Φ) (method : String) (phi : List Φ) (i : Nat) (pars : List Par) (withPhase : Bool) :
    Except Err (GateCall Φ) := do
  if withPhase then
    let p ← getAt phi i
    pure ⟨method, [P.neg p], pars⟩
  else pure ⟨method, [], pars⟩

/-! ### `Circuit` (fixed depth grid) -/
structure GridState (Φ : Type) where
  nqubit : Nat
  depth : Nat
  j : Nat
  s : Nat
  phi : List Φ
  grid : List (List Entry)        -- grid[row][col]
  calls : List (GateCall Φ)       -- gate-set calls so far (reversed)
  deriving Repr, DecidableEq

variable {Φ : Type}

def GridState.init (P : PhaseOps Φ) (n depth : Nat) : GridState Φ :=
  { nqubit := n, depth := depth, j := 0, s := 0, phi := List.replicate n P.zero,
    grid := List.replicate n (List.replicate depth .one), calls := [] }

def gridWrite (g : List (List Entry)) (i j : Nat) (e : Entry) : Except Err (List (List Entry)) := do
  let row ← getAt g i
  let row' ← setAt row j e
  setAt g i row'

/-- `Circuit.apply` -/
def GridState.apply1 (st : GridState Φ) (i : Nat) (e : Entry) : Except Err (GridState Φ) :=
  if st.s < st.nqubit then do
    let g ← gridWrite st.grid i st.j e
    pure { st with grid := g, s := st.s + 1 }
  else if st.s = st.nqubit then do
    let g ← gridWrite st.grid i (st.j + 1) e
    pure { st with grid := g, s := 1, j := st.j + 1 }
  else pure st

def GridState.apply2 (st : GridState Φ) (i : Nat) (e : Entry) (phi : List Φ) : Except Err (GridState Φ) :=
  if st.s < st.nqubit then do
    let g ← gridWrite st.grid i st.j e
    pure { st with grid := g, s := st.s + 2, phi := phi }
  else if st.s = st.nqubit then do
    let g ← gridWrite st.grid i (st.j + 1) e
    pure { st with grid := g, s := 2, j := st.j + 1, phi := phi }
  else pure st

def absDiff (a b : Nat) : Nat := if a ≤ b then b - a else a - b

def GridState.step (P : PhaseOps Φ) (st : GridState Φ) : CircCall Φ → Except Err (GridState Φ)
  | .Rz i th => do
      let p ← getAt st.phi i
      let phi ← setAt st.phi i (P.add p th)
      pure { st with phi := phi }
  | .I i => st.apply1 i .ident
  | .X i pars => do
      let c ← oneQCall P "X" st.phi i pars true
      ({ st with calls := c :: st.calls }).apply1 i (.tok st.calls.length)
  | .SX i pars => do
      let c ← oneQCall P "SX" st.phi i pars true
      ({ st with calls := c :: st.calls }).apply1 i (.tok st.calls.length)
  | .relaxation i pars => do
      let c ← oneQCall P "relaxation" st.phi i pars false
      ({ st with calls := c :: st.calls }).apply1 i (.tok st.calls.length)
  | .bitflip i pars => do
      let c ← oneQCall P "bitflip" st.phi i pars false
      ({ st with calls := c :: st.calls }).apply1 i (.tok st.calls.length)
  | .CNOT i k pars =>
      if absDiff i k ≠ 1 then .error .assertion
      else if st.s < st.nqubit ∨ st.s = st.nqubit then do
        let t ← twoQCNOT P st.phi i k pars
        ({ st with calls := t.call :: st.calls }).apply2 i (.tok st.calls.length) t.phi
      else pure st
  | .ECR i k pars =>
      if absDiff i k ≠ 1 then .error .assertion
      else if st.s < st.nqubit ∨ st.s = st.nqubit then do
        let t ← twoQECR st.phi i k pars
        ({ st with calls := t.call :: st.calls }).apply2 i (.tok st.calls.length) t.phi
      else pure st

def GridState.reset (P : PhaseOps Φ) (st : GridState Φ) : GridState Φ :=
  { st with j := 0, s := 0, grid := List.replicate st.nqubit (List.replicate st.depth .one),
            phi := List.replicate st.nqubit P.zero }

/-! ### `AlternativeCircuit` (Standard / Efficient / One circuit): layers on demand -/
structure LayerState (Φ : Type) where
  nqubit : Nat
  s : Nat
  phi : List Φ
  mp : List Entry
  mpList : List (List Entry)      -- completed layers (reversed)
  calls : List (GateCall Φ)
  deriving Repr, DecidableEq

def LayerState.init (P : PhaseOps Φ) (n : Nat) : LayerState Φ :=
  { nqubit := n, s := 0, phi := List.replicate n P.zero, mp := List.replicate n .one, mpList := [], calls := [] }

def LayerState.flush (st : LayerState Φ) : LayerState Φ :=
  if st.s = st.nqubit then
    { st with mpList := st.mp :: st.mpList, mp := List.replicate st.nqubit .one, s := 0 }
  else st

def LayerState.apply1 (st : LayerState Φ) (i : Nat) (e : Entry) : Except Err (LayerState Φ) := do
  let mp ← setAt st.mp i e
  pure ({ st with mp := mp, s := st.s + 1 }).flush

def LayerState.apply2 (st : LayerState Φ) (i : Nat) (e : Entry) (phi : List Φ) : Except Err (LayerState Φ) := do
  let mp ← setAt st.mp i e
  pure ({ st with mp := mp, s := st.s + 2, phi := phi }).flush

def LayerState.step (P : PhaseOps Φ) (st : LayerState Φ) : CircCall Φ → Except Err (LayerState Φ)
  | .Rz i th => do
      let p ← getAt st.phi i
      let phi ← setAt st.phi i (P.add p th)
      pure { st with phi := phi }
  | .I i => st.apply1 i .ident
  | .X i pars => do
      let c ← oneQCall P "X" st.phi i pars true
      ({ st with calls := c :: st.calls }).apply1 i (.tok st.calls.length)
  | .SX i pars => do
      let c ← oneQCall P "SX" st.phi i pars true
      ({ st with calls := c :: st.calls }).apply1 i (.tok st.calls.length)
  | .relaxation i pars => do
      let c ← oneQCall P "relaxation" st.phi i pars false
      ({ st with calls := c :: st.calls }).apply1 i (.tok st.calls.length)
  | .bitflip i pars => do
      let c ← oneQCall P "bitflip" st.phi i pars false
      ({ st with calls := c :: st.calls }).apply1 i (.tok st.calls.length)
  | .CNOT i k pars => do
      let t ← twoQCNOT P st.phi i k pars
      ({ st with calls := t.call :: st.calls }).apply2 i (.tok st.calls.length) t.phi
  | .ECR i k pars => do
      let t ← twoQECR st.phi i k pars
      ({ st with calls := t.call :: st.calls }).apply2 i (.tok st.calls.length) t.phi

def LayerState.reset (P : PhaseOps Φ) (st : LayerState Φ) : LayerState Φ :=
  { st with s := 0, phi := List.replicate st.nqubit P.zero, mp := List.replicate st.nqubit .one, mpList := [] }

/-! ### `BinaryCircuit` (index based) -/

/-- an entry of `_info_gates_list`: the matrix (the gate-set call that sampled it, `none` = the literal identity
of `I()`), and the qubit list `[i, j]` (`j = -1` for one-qubit items) -/
structure BinItem (Φ : Type) where
  gate : Option (GateCall Φ)
  i : Nat
  j : Int
  deriving Repr, DecidableEq

structure BinState (Φ : Type) where
  nqubit : Nat
  phi : List Φ
  items : List (BinItem Φ)        -- newest first
  deriving Repr, DecidableEq

def BinState.init (P : PhaseOps Φ) (n : Nat) : BinState Φ := { nqubit := n, phi := List.replicate n P.zero, items := [] }

/-- the gate-set calls so far, oldest first (every call produced exactly one item) -/
def BinState.calls (st : BinState Φ) : List (GateCall Φ) := st.items.reverse.filterMap (·.gate)

def BinState.step (P : PhaseOps Φ) (st : BinState Φ) : CircCall Φ → Except Err (BinState Φ)
  | .Rz i th => do
      let p ← getAt st.phi i
      let phi ← setAt st.phi i (P.add p th)
      pure { st with phi := phi }
  | .I i => pure { st with items := ⟨none, i, -1⟩ :: st.items }
  | .X i pars => do
      let c ← oneQCall P "X" st.phi i pars true
      pure { st with items := ⟨some c, i, -1⟩ :: st.items }
  | .SX i pars => do
      let c ← oneQCall P "SX" st.phi i pars true
      pure { st with items := ⟨some c, i, -1⟩ :: st.items }
  | .relaxation i pars => do
      let c ← oneQCall P "relaxation" st.phi i pars false
      pure { st with items := ⟨some c, i, -1⟩ :: st.items }
  | .bitflip i pars => do
      let c ← oneQCall P "bitflip" st.phi i pars false
      pure { st with items := ⟨some c, i, -1⟩ :: st.items }
  | .CNOT i k pars => do
      let t ← twoQCNOT P st.phi i k pars
      -- the matrix is in (lower, higher) slot order: forward [i,k]; reversed [k,i] (repaired, D4)
      let item : BinItem Φ := if i < k then ⟨some t.call, i, (k : Int)⟩ else ⟨some t.call, k, (i : Int)⟩
      pure { st with phi := t.phi, items := item :: st.items }
  | .ECR i k pars => do
      let t ← twoQECR st.phi i k pars
      let item : BinItem Φ := if i < k then ⟨some t.call, i, (k : Int)⟩ else ⟨some t.call, k, (i : Int)⟩
      pure { st with phi := t.phi, items := item :: st.items }

def BinState.reset (P : PhaseOps Φ) (st : BinState Φ) : BinState Φ :=
  { st with phi := List.replicate st.nqubit P.zero, items := [] }

def foldE {σ α : Type} (f : σ → α → Except Err σ) : σ → List α → Except Err σ
  | s, [] => .ok s
  | s, a :: as => do let s' ← f s a; foldE f s' as

end QG.Model.Wiring
