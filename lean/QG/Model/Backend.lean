/-
Import-free executable model of the layer-based statevector backends of
`src/quantum_gates/_simulation/backend.py` (property C01):

  StandardBackend.statevector                       (lines 46-68)    -> `standard`
  EfficientBackend.statevector / regime dispatch    (lines 108-131)  -> `efficient`, `effLayer`
    _statevector_low/medium/high_qubit_regime       (lines 133-164)  -> the three branches of `effLayer`
    _opt_einsum_many_matrices                       (lines 166-191)  -> `einsumMany` (+ `applyPlan`, `contract`)
    _chunk_list                                     (lines 193-215)  -> `chunkList`
  BackendForOnes.statevector / regimes              (lines 440-488)  -> `ones`, `onesLayer`
    _is_identity                                    (line 455)       -> `isIdentity`
    _kronecker                                      (lines 457-473)  -> `kroneckerG`
    _opt_einsum_ignoring_ones                       (lines 490-659)  -> `onesEinsum` (`scanInit`, `scanStep`,
                                                                        `splitRun`, `flush`, `mkLegs`)

  (the item-by-item form of a layer for BinaryBackend, lines 250-293: qubit lists)         -> `itemQubits`

The model describes the code AFTER the two minimal repairs
  D7  StandardBackend: iterate over the nested list instead of `np.array(nested, dtype=object)`,
  D8  EfficientBackend high regime: `np.atleast_2d(ft.reduce(np.kron, chunk[:]))`.

Conventions.
* Scalars are abstract: every function takes an explicit dictionary `S : Scalar α` (`zero one add mul`), so that the
  driver runs on Gaussian integers `GInt = Int × Int` and the theorems instantiate `α` with any commutative semiring.
* A numpy square matrix is `Mat α` = (dimension, flat row-major array); `Mat.get` reads an entry (zero outside the
  index range).  A statevector is `Array α`.
* What a layer entry / an intermediate `np.kron` result can be at run time is `PyVal`: the Python int `1`
  (`int1`: it has no `.shape` → AttributeError), a numpy 0-d scalar of value 1 (`np0`: `np.kron(1, 1)`, its `.shape`
  is `()` → IndexError on `.shape[0]`) or an ndarray (`arr`).  Only the value 1 occurs as a scalar (the placeholder).
* Everything that depends only on the *shapes* of the entries (regime dispatch, chunking, the identity scan, the
  splitting of long runs, which factors are multiplied into which operand, the contraction string) is written once,
  generically over a dictionary `MatOps β` of matrix operations.  The value ops instantiate it with real matrices
  (`matOps S`), the plan ops of the driver with symbolic matrices (`symOps`: dimension, identity flag, list of the
  layer positions multiplied together) — so plans for n = 26 are produced by the *same* code without any 2^n data.
* A layer is processed into a `LayerPlan`: `dense K` (`K @ psi`), `einsum legs` (an `opt_einsum.contract` call: one
  leg per tensor axis, `some A` = axis contracted with the operand `A`, `none` = axis left untouched) or `skip`
  (`return psi`).  `applyPlan` evaluates it: the contraction is the explicit nested sum
  `out[i₁..i_m] = Σ_{j} Π_k A_k[i_k, j_k] · ψ[j₁..j_m]` over the row-major multi-indices of `psi.reshape(shape)`.
* Whatever the Python raises is an `Err` (the exception class).  `StandardBackend` on an empty list does not raise
  but returns the matrix `np.eye(2**n)` instead of a vector: modelled as `Err.eyeMatrix`.
-/
namespace QG.Model.Backend

/-- explicit scalar dictionary -/
structure Scalar (α : Type) where
  zero : α
  one : α
  add : α → α → α
  mul : α → α → α

/-- Gaussian integers, the scalars of the driver (numpy's complex128 arithmetic is exact on them below 2^53) -/
abbrev GInt := Int × Int

def gint : Scalar GInt where
  zero := (0, 0)
  one := (1, 0)
  add a b := (a.1 + b.1, a.2 + b.2)
  mul a b := (a.1 * b.1 - a.2 * b.2, a.1 * b.2 + a.2 * b.1)

/-- exception classes (plus `eyeMatrix`, see the header) -/
inductive Err
  | assertion    -- AssertionError
  | attribute    -- AttributeError: 'int' object has no attribute 'shape'
  | index        -- IndexError
  | value        -- ValueError (matmul / reshape / einsum size mismatch, range() step 0)
  | typeError    -- TypeError: reduce() of empty iterable with no initial value
  | exception    -- Exception("Function kronecker_with_einsum received empty list.")
  | eyeMatrix    -- StandardBackend, depth 0: returns np.eye(2**n) (a matrix, not a vector); not an exception
  deriving Repr, DecidableEq

def Err.name : Err → String
  | .assertion => "AssertionError"
  | .attribute => "AttributeError"
  | .index => "IndexError"
  | .value => "ValueError"
  | .typeError => "TypeError"
  | .exception => "Exception"
  | .eyeMatrix => "returns-eye-matrix"

/-! ### numpy matrices and vectors -/

structure Mat (α : Type) where
  dim : Nat
  data : Array α

section Numeric
variable {α : Type} (S : Scalar α)

/-- `M[i, j]` (zero outside the index range) -/
def Mat.get (M : Mat α) (i j : Nat) : α :=
  if i < M.dim ∧ j < M.dim then M.data.getD (i * M.dim + j) S.zero else S.zero

/-- the `d × d` matrix with entries `f i j`, materialised row-major -/
def Mat.tab (d : Nat) (f : Nat → Nat → α) : Mat α :=
  ⟨d, Array.ofFn (n := d * d) fun k => f (k.val / d) (k.val % d)⟩

/-- `Σ_{k < n} f k`, summed in ascending order -/
def sumTo (f : Nat → α) : Nat → α
  | 0 => S.zero
  | k + 1 => S.add (sumTo f k) (f k)

/-- `np.kron(A, B)` for two square matrices: `K[i, j] = A[i // dB, j // dB] * B[i % dB, j % dB]` -/
def kronM (A B : Mat α) : Mat α :=
  Mat.tab (A.dim * B.dim) fun i j =>
    S.mul (A.get S (i / B.dim) (j / B.dim)) (B.get S (i % B.dim) (j % B.dim))

/-- `np.atleast_2d(1)` : the 1x1 matrix `[[1]]` -/
def one1 : Mat α := ⟨1, #[S.one]⟩

/-- `isinstance(m, np.ndarray) and np.array_equal(m, np.eye(2))` for an ndarray `m`: same shape, all entries equal
(exact comparison, no tolerance) -/
def isIdentity [DecidableEq α] (M : Mat α) : Bool :=
  M.dim == 2 && decide (M.data = #[S.one, S.zero, S.zero, S.one])

/-- `A @ B` for square matrices; numpy raises ValueError on a core-dimension mismatch -/
def matMul (A B : Mat α) : Except Err (Mat α) :=
  if A.dim ≠ B.dim then .error .value
  else .ok (Mat.tab A.dim fun i j => sumTo S (fun k => S.mul (A.get S i k) (B.get S k j)) A.dim)

/-- `A @ psi` for a 1-d `psi` -/
def matVec (A : Mat α) (ψ : Array α) : Except Err (Array α) :=
  if A.dim ≠ ψ.size then .error .value
  else .ok (Array.ofFn (n := A.dim) fun i => sumTo S (fun j => S.mul (A.get S i.val j) (ψ.getD j S.zero)) A.dim)

end Numeric

/-! ### shape-level code, generic over the matrix operations -/

/-- the operations on matrices that the shape-level code uses -/
structure MatOps (β : Type) where
  dim : β → Nat            -- `m.shape[0]`
  isId : β → Bool          -- `np.array_equal(m, np.eye(2))`
  kron : β → β → β         -- `np.kron(a, b)`
  one1 : β                 -- `np.atleast_2d(1)`

def matOps {α : Type} (S : Scalar α) [DecidableEq α] : MatOps (Mat α) where
  dim := Mat.dim
  isId := isIdentity S
  kron := kronM S
  one1 := one1 S

/-- symbolic matrices of the plan ops: dimension, "equals np.eye(2)" flag, positions of the layer entries that were
multiplied together (in order) -/
structure Sym where
  dim : Nat
  isId : Bool
  factors : List Nat
  deriving Repr

def symOps : MatOps Sym where
  dim := Sym.dim
  isId := Sym.isId
  kron a b := ⟨a.dim * b.dim, false, a.factors ++ b.factors⟩
  one1 := ⟨1, false, []⟩

/-- run-time values: the Python int `1`, a numpy 0-d `1`, an ndarray -/
inductive PyVal (β : Type)
  | int1
  | np0
  | arr (M : β)

/-- an entry of a layer: the scalar placeholder `1` or a matrix -/
inductive Block (β : Type)
  | scalar
  | mat (M : β)

def Block.toPy {β : Type} : Block β → PyVal β
  | .scalar => .int1
  | .mat M => .arr M

abbrev Layer (β : Type) := List (Block β)

/-- one axis of the reshaped statevector: its dimension and the operand contracted with it (`none`: untouched) -/
abbrev Leg (β : Type) := Nat × Option β

inductive LayerPlan (β : Type)
  | dense (K : PyVal β)             -- `psi = K @ psi`
  | einsum (legs : List (Leg β))    -- `psi = oe.contract(cs, *operands, psi.reshape(shape)).reshape(psi.shape)`
  | skip                            -- `return psi`

section Generic
variable {β : Type} (ops : MatOps β)

/-- `np.kron(a, b)` on run-time values: `np.kron(1, 1)` is a 0-d array, `np.kron(1, A) = np.kron(A, 1) = A` -/
def pyKron : PyVal β → PyVal β → PyVal β
  | .arr A, .arr B => .arr (ops.kron A B)
  | .arr A, _ => .arr A
  | _, .arr B => .arr B
  | _, _ => .np0

/-- `ft.reduce(np.kron, l)` -/
def reduceKron : List (PyVal β) → Except Err (PyVal β)
  | [] => .error .typeError
  | x :: xs => .ok (xs.foldl (pyKron ops) x)

/-- `np.atleast_2d(v)` -/
def atleast2d : PyVal β → β
  | .arr M => M
  | _ => ops.one1

/-- `BackendForOnes._kronecker`, generic in the product: lengths 1, 2, 3 are the left fold
(`a[0]`, `np.kron(a[0], a[1])`, `ft.reduce(np.kron, a)`), longer lists divide and conquer at `n // 2` -/
def kroneckerG {γ : Type} (op : γ → γ → γ) (l : List γ) : Except Err γ :=
  if _h : l.length ≤ 3 then
    match l with
    | [] => .error .exception
    | x :: xs => .ok (xs.foldl op x)
  else do
    let a ← kroneckerG op (l.take (l.length / 2))
    let b ← kroneckerG op (l.drop (l.length / 2))
    pure (op a b)
termination_by l.length
decreasing_by
  · simp only [List.length_take]; omega
  · simp only [List.length_drop]; omega

/-- `EfficientBackend._chunk_list(l, min_chunk_size, optimal_chunk_size)` -/
def chunkList {γ : Type} (l : List γ) (minChunk optChunk : Nat) : Except Err (List (List γ)) :=
  if l.length < 2 * optChunk then .error .assertion
  else if optChunk = 0 then .error .value            -- range(0, len(l), 0)
  else
    -- chunks = [l[i:i + opt] for i in range(0, len(l), opt)]
    let chunks := (List.range ((l.length + optChunk - 1) / optChunk)).map fun k =>
      (l.drop (k * optChunk)).take optChunk
    match chunks.reverse with
    | [] => .error .index                            -- chunks[-1] of an empty list
    | last :: before =>
      if last.length < minChunk then
        match before with
        | [] => .error .index                        -- chunks[-2] of a one-element list
        | prev :: rest => .ok (rest.reverse ++ [prev ++ last])
      else .ok chunks

/-- `_opt_einsum_many_matrices` up to the reshape: the assert, then `a.shape[0] for a in mp` -/
def einsumMany (mp : List (PyVal β)) : Except Err (LayerPlan β) :=
  if mp.length * 2 > 26 then .error .assertion
  else do
    let legs ← mp.mapM fun a =>
      match a with
      | .int1 => Except.error Err.attribute
      | .np0 => Except.error Err.index
      | .arr M => Except.ok ((ops.dim M, some M) : Leg β)
    pure (.einsum legs)

/-- one layer of `EfficientBackend` (regime dispatch of `statevector` + the regime's loop body) -/
def effLayer (n minChunk optChunk : Nat) (mp : List (PyVal β)) : Except Err (LayerPlan β) :=
  if n < 4 then do
    let k ← reduceKron ops mp
    pure (.dense k)
  else if n ≥ 2 * optChunk then do
    let raw ← chunkList mp minChunk optChunk
    let aList ← raw.mapM fun chunk => do
      let k ← reduceKron ops chunk
      pure (PyVal.arr (atleast2d ops k))            -- repair D8
    einsumMany ops aList
  else do
    let a1 ← reduceKron ops (mp.take (n / 2))
    let a2 ← reduceKron ops (mp.drop (n / 2))
    einsumMany ops [a1, a2]

/-! #### BackendForOnes._opt_einsum_ignoring_ones -/

/-- state of the identity scan.  `legsRev` is `zip(shape, column_is_identity)` (the two Python lists always grow
together) with the LAST entry first, `chunksRev` is `non_one_chunks` with the last entry first. -/
structure Scan (β : Type) where
  legsRev : List (Nat × Bool)
  chunksRev : List β
  proto : List β
  last : Bool

/-- `shape[-1] *= k` -/
def bumpHead (k : Nat) : List (Nat × Bool) → List (Nat × Bool)
  | [] => []                                    -- unreachable: `shape` starts with one entry and never shrinks
  | (d, b) :: r => (d * k, b) :: r

/-- `shape[-1] = d` -/
def setHead (d : Nat) : List (Nat × Bool) → List (Nat × Bool)
  | [] => []
  | (_, b) :: r => (d, b) :: r

/-- `l[a:b]` -/
def slice {γ : Type} (a b : Nat) (l : List γ) : List γ := (l.drop a).take (b - a)

/-- the pieces a run of `n_terms` non-identity factors is cut into.  `mid = true`: the copy inside the loop
(thresholds 19 / 11 / 8), `mid = false`: the copy after the loop (19 / 14 / 8). -/
def splitRun {γ : Type} (mid : Bool) (p : List γ) : List (List γ) :=
  let n := p.length
  if n ≥ 19 then [slice 0 (n / 4) p, slice (n / 4) (2 * n / 4) p, slice (2 * n / 4) (3 * n / 4) p, p.drop (3 * n / 4)]
  else if n ≥ (if mid then 11 else 14) then [slice 0 (n / 3) p, slice (n / 3) (2 * n / 3) p, p.drop (2 * n / 3)]
  else if n ≥ 8 then [slice 0 (n / 2) p, p.drop (n / 2)]
  else [p]

/-- "contract the previous chunk of non-1s, split if it is too big": appends the chunk(s) to `non_one_chunks`;
when the run was split, `shape[-1] = chunk1.shape[0]`, the other chunks' dimensions are appended to `shape` and one
`False` per further chunk to `column_is_identity` (an unsplit run leaves `shape` alone) -/
def flush (mid : Bool) (st : Scan β) : Except Err (Scan β) := do
  let chunks ← (splitRun mid st.proto).mapM (kroneckerG ops.kron)
  match chunks with
  | [] => pure st                                -- unreachable: `splitRun` returns 1-4 pieces
  | [c] => pure { st with chunksRev := c :: st.chunksRev }
  | c1 :: more =>
    pure { st with chunksRev := more.reverse ++ c1 :: st.chunksRev,
                   legsRev := (more.map fun c => (ops.dim c, false)).reverse ++ setHead (ops.dim c1) st.legsRev }

/-- the statements before the loop (`matrices[0]`) -/
def scanInit (m0 : β) : Scan β :=
  let b := ops.isId m0
  { legsRev := [(ops.dim m0, b)], chunksRev := [], proto := if b then [] else [m0], last := b }

/-- the loop body `for m in matrices[1:]` -/
def scanStep (st : Scan β) (m : β) : Except Err (Scan β) :=
  let cur := ops.isId m
  if st.last then
    if cur then
      pure { st with legsRev := bumpHead 2 st.legsRev, last := cur }
    else
      pure { st with proto := [m], legsRev := (ops.dim m, false) :: st.legsRev, last := cur }
  else
    if cur then do
      let st' ← flush ops true st
      pure { st' with proto := [], legsRev := (2, true) :: st'.legsRev, last := cur }
    else
      pure { st with proto := st.proto ++ [m], legsRev := bumpHead (ops.dim m) st.legsRev, last := cur }

/-- pairing of the tensor axes with the operands, as the contraction string does it: axis `i` is contracted with the
next element of `non_one_chunks` iff `column_is_identity[i]` is false.  (einsum raises ValueError when an operand's
size differs from the axis' size, and when operands are missing.) -/
def mkLegs : List (Nat × Bool) → List β → Except Err (List (Leg β))
  | [], _ => .ok []
  | (d, true) :: r, ks => do
    let rest ← mkLegs r ks
    pure ((d, none) :: rest)
  | (_, false) :: _, [] => .error .value
  | (d, false) :: r, k :: ks =>
    if ops.dim k ≠ d then .error .value
    else do
      let rest ← mkLegs r ks
      pure ((d, some k) :: rest)

/-- `BackendForOnes._opt_einsum_ignoring_ones` up to the reshape -/
def onesEinsum (mp : List (PyVal β)) : Except Err (LayerPlan β) :=
  let matrices := mp.filterMap fun v => match v with | .arr M => some M | _ => none
  if matrices.length > 26 then .error .assertion
  else
    match matrices with
    | [] => .error .index                          -- matrices[0]
    | m0 :: rest => do
      let st ← rest.foldlM (scanStep ops) (scanInit ops m0)
      let st ← if st.last then pure st
               else if st.proto.isEmpty then Except.error Err.assertion
               else flush ops false st
      if st.legsRev.all (fun p => p.2) then pure .skip
      else do
        let legs ← mkLegs ops st.legsRev.reverse st.chunksRev.reverse
        pure (.einsum legs)

/-- one layer of `BackendForOnes` (`low_qubit_regime = 6`) -/
def onesLayer (n : Nat) (mp : List (PyVal β)) : Except Err (LayerPlan β) :=
  if n ≤ 6 then do
    let k ← kroneckerG (pyKron ops) mp
    pure (.dense k)
  else onesEinsum ops mp

end Generic

/-! ### contraction strings (what the plan ops print) -/

def lower (i : Nat) : Char := Char.ofNat (97 + i)
def upper (i : Nat) : Char := Char.ofNat (65 + i)

/-- `_opt_einsum_many_matrices`: `"ab,cd,…,bd…->ac…"` for `m` operands -/
def effString (m : Nat) : String :=
  let r := List.range m
  let pairs := r.map fun i => String.ofList [lower (2 * i), lower (2 * i + 1)]
  String.intercalate "," pairs ++ "," ++ String.ofList (r.map fun i => lower (2 * i + 1))
    ++ "->" ++ String.ofList (r.map fun i => lower (2 * i))

/-- `_opt_einsum_ignoring_ones`: `"aA,cC,ABC->aBc"` from `column_is_identity` -/
def onesString (flags : List Bool) : String :=
  let idx := (List.range flags.length).zip flags
  let ms := idx.filterMap fun (i, b) => if b then none else some (String.ofList [lower i, upper i])
  String.intercalate "," ms ++ "," ++ String.ofList (idx.map fun (i, _) => upper i)
    ++ "->" ++ String.ofList (idx.map fun (i, b) => if b then upper i else lower i)

/-! ### evaluation of a layer plan on a statevector -/

section Apply
variable {α : Type} (S : Scalar α)

def legDims {β : Type} : List (Leg β) → Nat
  | [] => 1
  | (d, _) :: rest => d * legDims rest

/-- the contraction as a nested sum.  `acc` is the flat (row-major) index of the input axes already fixed, `i` the
flat index of the output over the remaining axes:
`contractAt ψ legs 0 i = Σ_{j : contracted axes} Π_k A_k[i_k, j_k] · ψ[j]`, untouched axes have `j_k = i_k`. -/
def contractAt (ψ : Array α) : List (Leg (Mat α)) → Nat → Nat → α
  | [], acc, _ => ψ.getD acc S.zero
  | (d, some A) :: rest, acc, i =>
    sumTo S (fun b => S.mul (A.get S (i / legDims rest) b) (contractAt ψ rest (acc * d + b) (i % legDims rest))) d
  | (d, none) :: rest, acc, i =>
    contractAt ψ rest (acc * d + i / legDims rest) (i % legDims rest)

/-- `K @ psi` for a run-time value `K` (a scalar has too few dimensions for matmul: ValueError) -/
def pyMatVec (K : PyVal (Mat α)) (ψ : Array α) : Except Err (Array α) :=
  match K with
  | .arr M => matVec S M ψ
  | _ => .error .value

def applyPlan (p : LayerPlan (Mat α)) (ψ : Array α) : Except Err (Array α) :=
  match p with
  | .dense K => pyMatVec S K ψ
  | .skip => .ok ψ
  | .einsum legs =>
    -- psi.view().reshape(shape): ValueError unless the sizes agree
    if legDims legs ≠ ψ.size then .error .value
    else .ok (Array.ofFn (n := legDims legs) fun i => contractAt S ψ legs 0 i.val)

/-! ### the three backends -/

variable [DecidableEq α]

/-- `EfficientBackend(n, min_chunk_size, optimal_chunk_size).statevector(mp_list, psi0)` -/
def efficient (n minChunk optChunk : Nat) (L : List (Layer (Mat α))) (ψ : Array α) : Except Err (Array α) :=
  if L.isEmpty then .error .assertion
  else L.foldlM (fun ψ mp => do
    let p ← effLayer (matOps S) n minChunk optChunk (mp.map Block.toPy)
    applyPlan S p ψ) ψ

/-- `BackendForOnes(n).statevector(mp_list, psi0)` -/
def ones (n : Nat) (L : List (Layer (Mat α))) (ψ : Array α) : Except Err (Array α) :=
  if L.isEmpty then .error .assertion
  else L.foldlM (fun ψ mp => do
    let p ← onesLayer (matOps S) n (mp.map Block.toPy)
    applyPlan S p ψ) ψ

/-- `A @ B` on run-time values -/
def pyMatMul (A B : PyVal (Mat α)) : Except Err (PyVal (Mat α)) :=
  match A, B with
  | .arr A, .arr B => do
    let C ← matMul S A B
    pure (.arr C)
  | _, _ => .error .value

/-- `StandardBackend(n).statevector(mp_list, psi0)` (after repair D7: the nested list is iterated directly) -/
def standard (_n : Nat) (L : List (Layer (Mat α))) (ψ : Array α) : Except Err (Array α) :=
  match L with
  | [] => .error .eyeMatrix
  | l0 :: rest => do
    let p0 ← reduceKron (matOps S) (l0.map Block.toPy)
    let prop ← rest.foldlM (fun p l => do
      let k ← reduceKron (matOps S) (l.map Block.toPy)
      pyMatMul S k p) p0
    pyMatVec S prop ψ

end Apply

/-! ### well-formed layers (the domain of the property) -/

/-- the grammar `layer ::= ε | M₂ layer | M₄ 1 layer | 1 M₄ layer` : every 4x4 block has exactly one scalar placeholder
immediately after or before it, and every placeholder belongs to exactly one block -/
def wfBlocks {β : Type} (dim : β → Nat) : List (Block β) → Bool
  | [] => true
  | .scalar :: .mat M :: rest => dim M == 4 && wfBlocks dim rest
  | .scalar :: _ => false
  | .mat M :: rest =>
    if dim M == 2 then wfBlocks dim rest
    else dim M == 4 && (match rest with
      | .scalar :: rest' => wfBlocks dim rest'
      | _ => false)

/-- `Layer.WF n`: a left-to-right list of 2x2 and 4x4 matrices, placeholders as above, covering `n` qubits
(a 4x4 block and its placeholder are two list entries for two qubits, so the list has exactly `n` entries) -/
def Layer.wf {α : Type} (n : Nat) (l : Layer (Mat α)) : Bool := wfBlocks Mat.dim l && l.length == n

/-- the qubit lists of the items `[[M, [q]], [G, [q, q+1]], …]` that a layer becomes when the same matrices are handed to
the index-based backend item by item (first block on qubit `q`): a 2x2 entry acts on its list position, a 4x4 entry and
its placeholder (after or before it) on the adjacent ascending pair -/
def itemQubits {β : Type} (dim : β → Nat) : List (Block β) → Nat → List (List Nat)
  | [], _ => []
  | .scalar :: .mat _ :: rest, q => [q, q + 1] :: itemQubits dim rest (q + 2)
  | .scalar :: _, _ => []
  | .mat M :: rest, q =>
    if dim M = 2 then [q] :: itemQubits dim rest (q + 1)
    else match rest with
      | .scalar :: rest' => [q, q + 1] :: itemQubits dim rest' (q + 2)
      | _ => []

end QG.Model.Backend
