import QG.Model.Optimizer
/-
Executable model (core Lean only, no Mathlib) of the index-based backend
(src/quantum_gates/_simulation/backend.py: `BinaryBackend.statevector`, `create_sparse`, `join_str`,
`create_dense`).

* Scalars come through an explicit dictionary `Scalar S` (`zero one add mul`), so the same definition
  runs on Gaussian integers `Int × Int` in the driver and is reasoned about over a commutative
  semiring in the proofs.  Matrix *entries* are read through `Entries` (`gate[int(a), int(b)]` for a
  2x2 matrix, `gate[int(a+b, 2), int(c+d, 2)]` for a 4x4 matrix, `a b c d` one-character bit strings).
* A Python bit string is a `List Bool`, most significant character first.
  `fmtBin w x` is `f"{x:0{w}b}"` (at least `w` digits, never truncated), `intOfBits s` is `int(s, 2)`.
* `coo_matrix((data, (rows, cols)), shape=(2**N, 2**N))` is the list of its triplets; `.dot(psi)` adds
  up `data * psi[col]` into `out[row]` (duplicates are therefore summed); an index outside the
  shape or a vector of the wrong length is a `ValueError` as in scipy / numpy.
* The vector is the list of its `2**N` entries in numpy's flat order (index `i` ↔ the `N`-character
  big-endian string of `i`; qubit 0 is the most significant bit).
-/
namespace QG.Model.Binary
open QG.Model.Optimizer

structure Scalar (S : Type) where
  zero : S
  one : S
  add : S → S → S
  mul : S → S → S

/-- reading an entry of a gate by bit characters -/
structure Entries (S M2 M4 : Type) where
  get2 : M2 → Bool → Bool → S                     -- gate[int(a), int(b)]
  get4 : M4 → Bool → Bool → Bool → Bool → S       -- gate[int(a+b,2), int(c+d,2)]

variable {S M2 M4 : Type}

/-! ### strings of binary digits -/

/-- the `w` low binary digits of `x`, most significant first -/
def bitsBE (w x : Nat) : List Bool := (List.range w).map fun p => x.testBit (w - 1 - p)

/-- `f"{x:0{w}b}"`: the binary digits of `x` padded with zeros to at least `w` characters -/
def fmtBin (w x : Nat) : List Bool :=
  if x < 2 ^ w then bitsBE w x else bitsBE (Nat.log2 x + 1) x

/-- `int(s, 2)` -/
def intOfBits (bs : List Bool) : Nat := bs.foldl (fun a b => 2 * a + b.toNat) 0

/-- `l[i]` with Python's IndexError -/
def getE {α : Type} (l : List α) (i : Nat) : Except Err α :=
  match l[i]? with
  | some x => .ok x
  | none => .error .index

/-- `l[i] = x` with Python's IndexError -/
def setE {α : Type} (l : List α) (i : Nat) (x : α) : Except Err (List α) :=
  if i < l.length then .ok (l.set i x) else .error .index

/-- `[f(x) for x in l]` where `f` may raise -/
def mapE {α β : Type} (f : α → Except Err β) : List α → Except Err (List β)
  | [] => .ok []
  | x :: xs =>
    match f x with
    | .error e => .error e
    | .ok y =>
      match mapE f xs with
      | .error e => .error e
      | .ok ys => .ok (y :: ys)

/-- `q_list.remove(q)`: drop the first occurrence, ValueError if there is none -/
def removeE (q : Nat) : List Nat → Except Err (List Nat)
  | [] => .error .value
  | x :: xs =>
    if x = q then .ok xs
    else match removeE q xs with
      | .error e => .error e
      | .ok r => .ok (x :: r)

/-! ### `join_str` -/

/-- `for i, q in enumerate(qs): tot_str[q] = src[i]; tot_str[q+n] = src[i+w]` (from index `i` on) -/
def joinLoop (n w : Nat) (src : List Bool) : Nat → List Nat → List Bool → Except Err (List Bool)
  | _, [], tot => .ok tot
  | i, q :: qs, tot =>
    match getE src i with
    | .error e => .error e
    | .ok a =>
      match setE tot q a with
      | .error e => .error e
      | .ok tot1 =>
        match getE src (i + w) with
        | .error e => .error e
        | .ok b =>
          match setE tot1 (q + n) b with
          | .error e => .error e
          | .ok tot2 => joinLoop n w src (i + 1) qs tot2

/-- `join_str(k_str, m_str, q_n_used, q_used, k, m)`; positions that are never assigned keep the
integer `0` of `[0] * 2*n`, which `''.join(map(str, …))` prints as the character `'0'` -/
def joinStr (kStr mStr : List Bool) (qn qu : List Nat) (k m : Nat) : Except Err (List Bool) :=
  let n := k + m
  if qn.length ≠ k ∨ qu.length ≠ m then .error .value
  else
    match joinLoop n k kStr 0 qn (List.replicate (2 * n) false) with
    | .error e => .error e
    | .ok tot => joinLoop n m mStr 0 qu tot

/-! ### entries, `create_sparse`, `create_dense` -/

/-- the matrix entry selected by the bit characters of `nStr` (`d = 1; d *= gate[…]`) -/
def entryOf (en : Entries S M2 M4) (item : Item M2 M4) (nStr : List Bool) (N : Nat) : Except Err S :=
  match item with
  | .one g q =>
    match getE nStr q, getE nStr (q + N) with
    | .ok a, .ok b => .ok (en.get2 g a b)
    | .error e, _ => .error e
    | _, .error e => .error e
  | .two g q1 q2 =>
    match getE nStr q1, getE nStr q2, getE nStr (q1 + N), getE nStr (q2 + N) with
    | .ok a, .ok b, .ok c, .ok d => .ok (en.get4 g a b c d)
    | .error e, _, _, _ => .error e
    | _, .error e, _, _ => .error e
    | _, _, .error e, _ => .error e
    | _, _, _, .error e => .error e

/-- one pass of the inner loop of `create_sparse`: the triplet `(row, col, data)` for `(i, j)` -/
def sparseTriplet (en : Entries S M2 M4) (item : Item M2 M4) (qn qu : List Nat) (N k m i j : Nat) :
    Except Err (Nat × Nat × S) :=
  let kStr := fmtBin (2 * k) (i * (2 ^ k + 1))
  let mStr := fmtBin (2 * m) j
  match joinStr kStr mStr qn qu k m with
  | .error e => .error e
  | .ok nStr =>
    match entryOf en item nStr N with
    | .error e => .error e
    | .ok d => .ok (intOfBits (nStr.take N), intOfBits (nStr.drop N), d)

/-- `create_sparse(item, q_n_used, q_used, N)` as the list of the triplets handed to `coo_matrix` -/
def createSparse (en : Entries S M2 M4) (item : Item M2 M4) (qn qu : List Nat) (N : Nat) :
    Except Err (List (Nat × Nat × S)) :=
  let k := qn.length
  let m := qu.length
  if k + m ≠ N then .error .value
  else
    match mapE (fun i => mapE (fun j => sparseTriplet en item qn qu N k m i j) (List.range (2 ^ (2 * m))))
        (List.range (2 ^ k)) with
    | .error e => .error e
    | .ok ll => .ok ll.flatten

/-- `coo_matrix(…, shape=(dim, dim)).tocsr().dot(psi)` -/
def spmv (sc : Scalar S) (dim : Nat) (trips : List (Nat × Nat × S)) (psi : List S) : Except Err (List S) :=
  if trips.any (fun t => decide (dim ≤ t.1) || decide (dim ≤ t.2.1)) then .error .value
  else if psi.length ≠ dim then .error .value
  else
    let v := psi.toArray
    .ok (trips.foldl (fun (out : Array S) t =>
        out.modify t.1 (fun x => sc.add x (sc.mul t.2.2 (v.getD t.2.1 sc.zero))))
      (Array.replicate dim sc.zero)).toList

/-- `create_dense(item, q_used, q_n_used)`: all `2**N × 2**N` entries -/
def createDense (en : Entries S M2 M4) (item : Item M2 M4) (qn qu : List Nat) (N : Nat) :
    Except Err (List (List S)) :=
  if qn.length + qu.length ≠ N then .error .value
  else
    mapE (fun i => mapE (fun j => entryOf en item (fmtBin N i ++ fmtBin N j) N) (List.range (2 ^ N)))
      (List.range (2 ^ N))

def dot (sc : Scalar S) : List S → List S → S
  | a :: as, b :: bs => sc.add (sc.mul a b) (dot sc as bs)
  | _, _ => sc.zero

/-- `U @ psi` for a dense `dim × dim` matrix -/
def matVec (sc : Scalar S) (dim : Nat) (U : List (List S)) (psi : List S) : Except Err (List S) :=
  if psi.length ≠ dim then .error .value else .ok (U.map fun row => dot sc row psi)

/-! ### `BinaryBackend(N).statevector(mp_list, psi0)` -/

/-- one pass of `for item in mp_list_opt:` -/
def applyItem (sc : Scalar S) (en : Entries S M2 M4) (N : Nat) (psi : List S) (item : Item M2 M4) :
    Except Err (List S) :=
  let split : Except Err (List Nat × List Nat) :=
    match item with
    | .one _ q =>
      match removeE q (List.range N) with
      | .error e => .error e
      | .ok l => .ok (l, [q])
    | .two _ q1 q2 =>
      match removeE q1 (List.range N) with
      | .error e => .error e
      | .ok l =>
        match removeE q2 l with
        | .error e => .error e
        | .ok l' => .ok (l', [q1, q2])
  match split with
  | .error e => .error e
  | .ok (qn, qu) =>
    if qn.length = 0 then
      match createDense en item qn qu N with
      | .error e => .error e
      | .ok U => matVec sc (2 ^ N) U psi
    else
      match createSparse en item qn qu N with
      | .error e => .error e
      | .ok T => spmv sc (2 ^ N) T psi

def applyItems (sc : Scalar S) (en : Entries S M2 M4) (N : Nat) :
    List (Item M2 M4) → List S → Except Err (List S)
  | [], psi => .ok psi
  | it :: rest, psi =>
    match applyItem sc en N psi it with
    | .error e => .error e
    | .ok psi' => applyItems sc en N rest psi'

/-- `BinaryBackend(N).statevector(mp_list, psi0)` with the default `qubit_layout = list(range(N))` -/
def statevector (sc : Scalar S) (ops : MatOps M2 M4) (en : Entries S M2 M4) (N : Nat)
    (mpList : List (Raw M2 M4)) (psi0 : List S) : Except Err (List S) :=
  if mpList.isEmpty then .error .assertion
  else
    match optimize ops 4 N mpList with
    | .error e => .error e
    | .ok l => applyItems sc en N l psi0

/-! ### concrete matrices as lists of rows (what the driver runs) -/

abbrev Mat (S : Type) := List (List S)

def Mat.get (sc : Scalar S) (A : Mat S) (i j : Nat) : S := (A.getD i []).getD j sc.zero

def Mat.identity (sc : Scalar S) (d : Nat) : Mat S :=
  (List.range d).map fun i => (List.range d).map fun j => if i = j then sc.one else sc.zero

def sumRange (sc : Scalar S) (d : Nat) (f : Nat → S) : S :=
  (List.range d).foldl (fun acc k => sc.add acc (f k)) sc.zero

/-- `B @ A` for `d × d` matrices -/
def Mat.mul (sc : Scalar S) (d : Nat) (B A : Mat S) : Mat S :=
  (List.range d).map fun i => (List.range d).map fun j =>
    sumRange sc d fun k => sc.mul (Mat.get sc B i k) (Mat.get sc A k j)

/-- `np.kron(A, B)` for 2x2 matrices: entry `[2a+c, 2b+d] = A[a,b] * B[c,d]` -/
def Mat.kron2 (sc : Scalar S) (A B : Mat S) : Mat S :=
  (List.range 4).map fun i => (List.range 4).map fun j =>
    sc.mul (Mat.get sc A (i / 2) (j / 2)) (Mat.get sc B (i % 2) (j % 2))

def listOps (sc : Scalar S) : MatOps (Mat S) (Mat S) where
  one2 := Mat.identity sc 2
  mul2 := Mat.mul sc 2
  one4 := Mat.identity sc 4
  mul4 := Mat.mul sc 4
  kron := Mat.kron2 sc

def listEntries (sc : Scalar S) : Entries S (Mat S) (Mat S) where
  get2 g a b := Mat.get sc g a.toNat b.toNat
  get4 g a b c d := Mat.get sc g (2 * a.toNat + b.toNat) (2 * c.toNat + d.toNat)

/-- Gaussian integers -/
abbrev GInt := Int × Int

def gint : Scalar GInt where
  zero := (0, 0)
  one := (1, 0)
  add x y := (x.1 + y.1, x.2 + y.2)
  mul x y := (x.1 * y.1 - x.2 * y.2, x.1 * y.2 + x.2 * y.1)

end QG.Model.Binary
