/-
Import-free executable model of what `MrAndersonSimulator.run` (src/quantum_gates/_simulation/simulator.py)
does with its arguments *around* the simulation proper:

  run                      -> `run`  = `precheck` ; (simulation, a parameter) ; `normalise` ; `measurement`
  _perform_simulation      -> only its accumulation `r_sum += shot ; r_mean = r_sum / shots` (`meanOfShots`)
  _process_layout          -> `processLayout` (= `layoutLoop`, then `used_q.sort()` = `sortAsc`)
  "None qubit measured"    -> second step of `precheck`
  _validate_input_of_run   -> `validate` (the code, which since repair D20 type-checks psi0) and `validateUnrepaired` (before D20)
  r / Σ r, assert Σ r > 0  -> `normalise`
  _measurament             -> `measurement`

Everything the real code can raise on this path is an `Except.error` of the model, with the Python exception
class (`ValueError`, `AttributeError`, `KeyError`, `TypeError`, `AssertionError`, `IndexError`), and the checks fire in the order
in which the Python statements are executed, so that the model answers "which error wins when several defects
are present".

The simulation between validation and normalisation (`_perform_simulation`: gate sampling, circuit classes, backends;
and the bookkeeping of `_preprocess_circuit` except the one statement that can raise, `preprocessCheck`) is NOT modelled
here (properties C01-C12); its result, the mean over the shots of the Born-rule vectors, is the parameter `sim` of `run`.

Python facts used (each is exercised by the correspondence on every run):
* `isinstance(True, int)` is True (bool ⊂ int, `True == 1`); a `numpy.int64`, a float, a str, `None` are not `int`.
* `isinstance(x, dict)` holds for dict and its subclasses only (not for other mappings, not for a `DeviceParameters` object).
* `psi0.shape != (2**nqubit,)` compares a tuple of ints with a 1-tuple; for `nqubit < 0`, `2**nqubit` is a float
  in (0,1) that no array dimension equals.
* `device_param["T1"]` raises `KeyError` when the key is absent; `len(x)` raises `TypeError` on an unsized object.
* `list.index(x)` raises `ValueError` when `x` is absent; `s[i]` raises `IndexError` past the end.
* `format(i, '0nb')` for `0 ≤ i < 2^n` is the n-character big-endian binary numeral of `i` (`bits`).
* `zip` stops at the shorter argument; a dict keeps its keys in insertion order (`upsert`).
-/
namespace QG.Model.RunValidate

inductive Err
  | valueError | attributeError | keyError | typeError | assertionError | indexError
  deriving Repr, DecidableEq

/-! ## The part of a Python value that the validation can observe -/

/-- what `device_param["T1"]` / `len(...)` can observe of a dict -/
inductive T1Entry
  | missing                 -- no key "T1": `KeyError`
  | unsized                 -- a value without `len()` (float, None): `TypeError`
  | sized (k : Nat)         -- `len(device_param["T1"]) = k`
  deriving Repr, DecidableEq

inductive PyVal
  | int (i : Int)           -- exactly `int`
  | bool (b : Bool)         -- `bool`, a subclass of `int`
  | float                   -- any `float` (also `numpy.float64`); the value is never inspected
  | npInt (i : Int)         -- a numpy integer scalar: NOT an `int`
  | none
  | str
  | list (len : Nat)
  | tuple (len : Nat)
  | ndarray (shape : List Nat)
  | dict (t1 : T1Entry)     -- `dict` or a subclass
  | other                   -- any other object (DeviceParameters instance, mappingproxy, …)
  deriving Repr, DecidableEq

/-- `isinstance(x, int)`, with the integer value -/
def asInt? : PyVal → Option Int
  | .int i => some i
  | .bool b => some (if b then 1 else 0)
  | _ => none

/-- `isinstance(x, dict)` -/
def asDict? : PyVal → Option T1Entry
  | .dict t => some t
  | _ => none

/-- `isinstance(x, np.ndarray)`, with `x.shape` -/
def asNdarray? : PyVal → Option (List Nat)
  | .ndarray s => some s
  | _ => none

/-- `psi0.shape != (2**nqubit,)` -/
def shapeMismatch (shape : List Nat) (nq : Int) : Bool :=
  if nq < 0 then true else shape != [2 ^ nq.toNat]

/-! ## Circuits as `_process_layout` sees them -/

inductive Instr
  | delay (qubits : List Nat)          -- `operation.name == 'delay'`: skipped
  | gate (qubits : List Nat)           -- any other instruction except `measure` (rz, sx, x, cx, ecr, barrier, …)
  | measure (q c : Nat)                -- `measure` of qubit index `q` into classical bit index `c`
  deriving Repr, DecidableEq

inductive CircArg
  | qc (data : List Instr)             -- a `QuantumCircuit`
  | duck (data : List Instr)           -- not a `QuantumCircuit`, but has an iterable `.data` of instructions
  | noData                             -- any object without `.data` (None, list, str, …)
  deriving Repr, DecidableEq

def CircArg.data? : CircArg → Option (List Instr)
  | .qc d => some d
  | .duck d => some d
  | .noData => none

def CircArg.isQC : CircArg → Bool
  | .qc _ => true
  | _ => false

/-- `if q not in used_q: used_q.append(q)` -/
def addUsed (used : List Nat) (q : Nat) : List Nat := if q ∈ used then used else used ++ [q]

/-- one iteration of the loop of `_process_layout`; state = `(used_q, measure_qc)` -/
def stepLayout (st : List Nat × List (Nat × Nat)) : Instr → List Nat × List (Nat × Nat)
  | .delay _ => st
  | .gate [q] => (addUsed st.1 q, st.2)
  | .gate [q1, q2] => (addUsed (addUsed st.1 q1) q2, st.2)
  | .gate _ => st                                  -- 0 or ≥ 3 qubits (wide barrier): nothing recorded
  | .measure q c => (addUsed st.1 q, st.2 ++ [(q, c)])

/-- the loop of `_process_layout`: used qubits in order of first touch, measure instructions in order -/
def layoutLoop (data : List Instr) : List Nat × List (Nat × Nat) := data.foldl stepLayout ([], [])

/-- insertion into an ascending list -/
def insertAsc (q : Nat) : List Nat → List Nat
  | [] => [q]
  | x :: xs => if q ≤ x then q :: x :: xs else x :: insertAsc q xs

/-- `used_q.sort()`: ascending (the entries are pairwise distinct, so stability plays no role) -/
def sortAsc : List Nat → List Nat
  | [] => []
  | x :: xs => insertAsc x (sortAsc xs)

/-- `_process_layout`: `(used_q, measure_qc)` with `used_q` sorted ascending after the loop (repair D6: the circuit
classes and the tensor factors of `psi0` are ordered by ascending qubit index); `n_qubit = len(used_q)` -/
def processLayout (data : List Instr) : List Nat × List (Nat × Nat) :=
  let st := layoutLoop data
  (sortAsc st.1, st.2)

/-! ## `_validate_input_of_run` as an ordered decision list -/

/-- The validation **after repair D20** (a type check of `psi0` joins the block of type checks).
`layoutLen` = length of the *processed* layout (the user's `qubits_layout` argument is never looked at by `run`). -/
def validate (circIsQC : Bool) (layoutLen : Nat) (psi0 shots device nqubit : PyVal) : Except Err Unit :=
  if !circIsQC then .error .valueError else                 -- isinstance(t_qiskit_circ, QuantumCircuit)
  -- isinstance(qubits_layout, list): always true, the processed layout is a list
  match asInt? shots with
  | none => .error .valueError                               -- isinstance(shots, int)
  | some s =>
  match asDict? device with
  | none => .error .valueError                               -- isinstance(device_param, dict)
  | some t1 =>
  match asInt? nqubit with
  | none => .error .valueError                               -- isinstance(nqubit, int)
  | some nq =>
  match asNdarray? psi0 with
  | none => .error .valueError                               -- (D20) isinstance(psi0, np.ndarray)
  | some shape =>
  if s < 1 then .error .valueError else                      -- shots < 1
  if shapeMismatch shape nq then .error .valueError else     -- psi0.shape != (2**nqubit,)
  if nq > (layoutLen : Int) then .error .valueError else     -- nqubit > len(qubits_layout)
  match t1 with
  | .missing => .error .keyError                             -- device_param["T1"]
  | .unsized => .error .typeError                            -- len(device_param["T1"])
  | .sized k => if nq > (k : Int) then .error .valueError else .ok ()   -- nqubit > len(device_param["T1"])

/-- The validation **on the pinned tree**: `psi0` is not type-checked; `psi0.shape` raises `AttributeError` for an
object without that attribute, after the `shots < 1` test. -/
def validateUnrepaired (circIsQC : Bool) (layoutLen : Nat) (psi0 shots device nqubit : PyVal) : Except Err Unit :=
  if !circIsQC then .error .valueError else
  match asInt? shots with
  | none => .error .valueError
  | some s =>
  match asDict? device with
  | none => .error .valueError
  | some t1 =>
  match asInt? nqubit with
  | none => .error .valueError
  | some nq =>
  if s < 1 then .error .valueError else
  match asNdarray? psi0 with
  | none => .error .attributeError                           -- `psi0.shape`
  | some shape =>
  if shapeMismatch shape nq then .error .valueError else
  if nq > (layoutLen : Int) then .error .valueError else
  match t1 with
  | .missing => .error .keyError
  | .unsized => .error .typeError
  | .sized k => if nq > (k : Int) then .error .valueError else .ok ()

/-- everything `run` does before the simulation: `_process_layout`, the "None qubit measured" test, the validation.
`repaired = false` selects the pinned tree's validation. Returns `(qubits_layout_t, qubit_bit)`. -/
def precheckWith (repaired : Bool) (circ : CircArg) (psi0 shots device nqubit : PyVal) :
    Except Err (List Nat × List (Nat × Nat)) :=
  match circ.data? with
  | none => .error .attributeError                           -- `circ.data` in _process_layout
  | some data =>
    let lm := processLayout data
    if lm.2.isEmpty then .error .valueError else             -- "None qubit measured"
    match (if repaired then validate else validateUnrepaired) circ.isQC lm.1.length psi0 shots device nqubit with
    | .error e => .error e
    | .ok () => .ok lm

def precheck := precheckWith true

/-! ## Normalisation -/

/-- the arithmetic the code uses, as a dictionary (driver: IEEE doubles; proofs: an ordered field) -/
structure Num (α : Type) where
  zero : α
  add : α → α → α
  div : α → α → α
  pos : α → Bool            -- `x > 0`

/-- `np.sum(reordered_arr)` -/
def total {α : Type} (num : Num α) (r : List α) : α := r.foldl num.add num.zero

/-- `assert total_prob > 0 ; final_arr = reordered_arr / total_prob` -/
def normalise {α : Type} (num : Num α) (r : List α) : Except Err (List α) :=
  let t := total num r
  if num.pos t then .ok (r.map fun x => num.div x t) else .error .assertionError

/-! ## `_perform_simulation`: accumulation over the shots (sequential branch) -/

/-- `r_sum += shot_result` for arrays of equal length -/
def addVec {α : Type} (num : Num α) (a b : List α) : List α := List.zipWith num.add a b

/-- `r_sum = np.zeros(2**nqubit)`; `for arg in arg_list: r_sum += _single_shot(arg)`; `r_mean = r_sum / shots`.
`len = 2**nqubit`, `shotsVal` = `shots` as a number, `results` = what `_single_shot` returned, in order. -/
def meanOfShots {α : Type} (num : Num α) (len : Nat) (shotsVal : α) (results : List (List α)) : List α :=
  (results.foldl (addVec num) (List.replicate len num.zero)).map fun x => num.div x shotsVal

/-! ## `_measurament` -/

/-- the `n` low bits of `i`, most significant first (`true` = '1') -/
def bits : Nat → Nat → List Bool
  | 0, _ => []
  | n + 1, i => (i / 2 ^ n % 2 == 1) :: bits n (i % 2 ^ n)

/-- `format(i, f'0{n}b')` for `i < 2^n`: the n-character binary numeral — except that width 0 still prints the
single digit of `i = 0` (`format(0, '00b') == '0'`) -/
def formatBin (n i : Nat) : List Bool := if n = 0 then [false] else bits n i

/-- `binary_vector` -/
def binaryVector (n : Nat) : List (List Bool) := (List.range (2 ^ n)).map (formatBin n)

/-- `qubits_layout.index(q)` -/
def indexOf : List Nat → Nat → Except Err Nat
  | [], _ => .error .valueError
  | x :: xs, q => if x = q then .ok 0 else
    match indexOf xs q with
    | .error e => .error e
    | .ok i => .ok (i + 1)

/-- a Python loop / comprehension whose body may raise: the first error wins -/
def mapE {α β : Type} (f : α → Except Err β) : List α → Except Err (List β)
  | [] => .ok []
  | a :: as =>
    match f a with
    | .error e => .error e
    | .ok b =>
      match mapE f as with
      | .error e => .error e
      | .ok bs => .ok (b :: bs)

/-- `binary_str[i]` -/
def charAt (s : List Bool) (i : Nat) : Except Err Bool :=
  match s[i]? with
  | some b => .ok b
  | none => .error .indexError

/-- `if k not in sums: sums[k] = 0.0` ; `sums[k] += v` on the item list of the dict -/
def upsert {α : Type} (num : Num α) : List (List Bool × α) → List Bool → α → List (List Bool × α)
  | [], k, v => [(k, num.add num.zero v)]
  | (k', s) :: rest, k, v => if k' = k then (k', num.add s v) :: rest else (k', s) :: upsert num rest k v

/-- the final loop `for value, bit_string in zip(prob, res)` -/
def accumulate {α : Type} (num : Num α) (pairs : List (α × List Bool)) : List (List Bool × α) :=
  pairs.foldl (fun sums p => upsert num sums p.2 p.1) []

/-- `_measurament(prob, q_meas_list, n_qubit, qubits_layout)`; the dict is returned as its item list -/
def measurement {α : Type} (num : Num α) (prob : List α) (qMeasList : List (Nat × Nat)) (nQubit : Nat)
    (layout : List Nat) : Except Err (List (List Bool × α)) :=
  match mapE (fun t => indexOf layout t.1) qMeasList with       -- qc_v / q_meas (the classical bit is not used)
  | .error e => .error e
  | .ok qMeas =>
    match mapE (fun s => mapE (charAt s) qMeas) (binaryVector nQubit) with   -- res
    | .error e => .error e
    | .ok res => .ok (accumulate num (prob.zip res))

/-! ## `run` -/

/-- the only statement of `_preprocess_circuit` that can raise on a native-basis circuit: its last loop
`swap_detector[qubits_layout.index(q)] = c` over the measure instructions, on a list of length `nqubit`
(`IndexError: list assignment index out of range` when `nqubit` is smaller than the number of used qubits and a late
qubit is measured). -/
def preprocessCheck (lm : List Nat × List (Nat × Nat)) (nqubit : PyVal) : Except Err Unit :=
  match asInt? nqubit with
  | none => .ok ()                                           -- not reachable after the validation
  | some nq => if lm.2.all (fun t => ((lm.1.idxOf t.1 : Nat) : Int) < nq) then .ok () else .error .indexError

/-- what `run` does after the simulation returned the mean vector `sim` -/
def finish {α : Type} (num : Num α) (lm : List Nat × List (Nat × Nat)) (sim : List α) :
    Except Err (List (List Bool × α)) :=
  match normalise num sim with
  | .error e => .error e
  | .ok final => measurement num final lm.2 lm.1.length lm.1

def runWith {α : Type} (repaired : Bool) (num : Num α) (circ : CircArg) (psi0 shots device nqubit : PyVal)
    (sim : List α) : Except Err (List (List Bool × α)) :=
  match precheckWith repaired circ psi0 shots device nqubit with
  | .error e => .error e
  | .ok lm =>
    match preprocessCheck lm nqubit with
    | .error e => .error e
    | .ok () => finish num lm sim                            -- `sim`: what `_perform_simulation` returned

/-- `MrAndersonSimulator.run` with the simulation stage replaced by its result `sim` -/
def run {α : Type} (num : Num α) := runWith (α := α) true num

end QG.Model.RunValidate
