/-
Import-free executable model for C10 ("fixed numpy seed reproduces results; sampling has no hidden history").

Modelled, statement by statement, from src/quantum_gates/_gates/integrator.py (`Integrator.__init__`, `Integrator.integrate`):

    [theta, a = float(theta), float(a)]                      -> `Req.seen`   (only for the parameters the translator finds coerced)
    if (integrand, theta, a) in self._cache: return self._cache[...]   -> `Cache.lookup` under Python's tuple/number equality
    assert integrand in self._INTEGRAL_LOOKUP.keys(); assert a > 0     -> `valid`, `Err.assertion` (nothing is stored)
    y = <one of the two integration routines>(integrand, theta, a)     -> `compute` (a PARAMETER: an arbitrary function of
                                                                          the request as the routines see it)
    self._cache[(integrand, theta, a)] = y ; return y                  -> `Cache.store`

What is modelled of Python / numpy (stated, not verified):
 * a number is the float64 it converts to (`Num.val bits`, the IEEE-754 bit pattern as a natural number, so "identical" is
   bitwise) together with a tag of the numeric type it was passed as (`NumTy`: Python bool | int | float (`f64`), numpy int64 (`i64`) | float64 (`npf64`) |
   float32 | float16), because numpy evaluates `np.sin` in the precision of that type and promotes Python scalars weakly.  The harness only feeds integers that are exactly representable.
 * `==` / `hash` on numbers ignore the type tag and compare values: `1 == 1.0 == True == np.float32(1)`, `-0.0 == 0.0`
   (`Num.pyEq`).  A NaN is never equal to anything, but the dictionary lookup short-cuts on object identity: `Num.nan obj`
   carries an object id and two NaNs are "equal" for the lookup iff they are the same object.
 * a `dict` is the list of its items in insertion order; `d[k] = v` on an equal existing key keeps the old key object.
 * which parameters form the key (`Config.keyFields`), which are coerced (`Config.coerced`) and whether `_cache` is created
   per instance (`instanceLevel`) are NOT fixed here: they are extracted from the source text on every run
   (lean/QG/Gen/Determinism.lean) and handed to the driver by the harness.

Second part: several integrators in one process (`World`: `Integrator(pulse)`, `copy.deepcopy`, requests), programs that
sample a gate (`Prog`: the only effects are integrator requests and draws from the global generator) and the sequential
shot loop of the simulator (`runShots`).
-/
namespace QG.Model.IntegratorCache

/-! ## numbers, requests, keys -/

inductive NumTy | bool | int | i64 | f64 | npf64 | f32 | f16
  deriving DecidableEq, Repr

/-- a float64 value by its bit pattern, or a NaN object -/
inductive Num
  | val (bits : Nat)
  | nan (obj : Nat)
  deriving DecidableEq, Repr

/-- bit pattern of `-0.0` -/
def negZeroBits : Nat := 9223372036854775808
/-- bit pattern of `+inf` -/
def posInfBits : Nat := 9218868437227405312

def isZeroBits (b : Nat) : Bool := b == 0 || b == negZeroBits

/-- Python's `x == y` on numbers, with the identity short-cut the dictionary lookup applies to NaN objects -/
def Num.pyEq : Num → Num → Bool
  | .val b, .val b' => b == b' || (isZeroBits b && isZeroBits b')
  | .nan o, .nan o' => o == o'
  | _, _ => false

/-- `x > 0` -/
def Num.pos : Num → Bool
  | .val b => decide (0 < b) && decide (b ≤ posInfBits)
  | .nan _ => false

/-- an argument as the caller passes it: numeric type and the float64 it converts to -/
structure Arg where
  ty : NumTy
  val : Num
  deriving DecidableEq, Repr

/-- `float(x)` -/
def Arg.coerce (x : Arg) : Arg := ⟨.f64, x.val⟩

/-- the positional parameters of `integrate` after `self` -/
inductive Field | integrand | theta | a
  deriving DecidableEq, Repr

structure Req where
  integrand : String
  theta : Arg
  a : Arg
  deriving DecidableEq, Repr

/-- a Python value inside a key tuple -/
inductive PyVal
  | str (s : String)
  | num (x : Num)
  deriving DecidableEq, Repr

def PyVal.pyEq : PyVal → PyVal → Bool
  | .str s, .str s' => s == s'
  | .num x, .num y => x.pyEq y
  | _, _ => false

def Req.get (r : Req) : Field → PyVal
  | .integrand => .str r.integrand
  | .theta => .num r.theta.val
  | .a => .num r.a.val

abbrev Key := List PyVal

/-- the tuple built from the listed parameters -/
def keyOf (fs : List Field) (r : Req) : Key := fs.map r.get

/-- tuple equality: same length, element-wise `==` -/
def Key.pyEq : Key → Key → Bool
  | [], [] => true
  | x :: xs, y :: ys => x.pyEq y && Key.pyEq xs ys
  | _, _ => false

/-- the request as the rest of `integrate` sees it after the coercion statement -/
def Req.seen (co : List Field) (r : Req) : Req :=
  { integrand := r.integrand
    theta := if co.contains .theta then r.theta.coerce else r.theta
    a := if co.contains .a then r.a.coerce else r.a }

/-! ## one cache -/

abbrev Cache (V : Type) := List (Key × V)

def Cache.lookup {V : Type} : Cache V → Key → Option V
  | [], _ => none
  | (k', v) :: t, k => if Key.pyEq k' k then some v else Cache.lookup t k

/-- `d[k] = v` -/
def Cache.store {V : Type} : Cache V → Key → V → Cache V
  | [], k, v => [(k, v)]
  | (k', v') :: t, k, v => if Key.pyEq k' k then (k', v) :: t else (k', v') :: Cache.store t k v

inductive Err | assertion
  deriving DecidableEq, Repr

/-- what the translator extracts from `integrate` -/
structure Config where
  keyFields : List Field
  coerced : List Field
  known : List String
  deriving Repr

/-- decidable condition on the extracted configuration: every parameter of `integrate` is part of the key tuple and the
numeric parameters are converted to `float` before they are used (so the routines never see the caller's numeric type) -/
def Config.covers (cfg : Config) : Bool :=
  cfg.keyFields.contains .integrand && cfg.keyFields.contains .theta && cfg.keyFields.contains .a
    && cfg.coerced.contains .theta && cfg.coerced.contains .a

/-- the two asserts, on the request as seen -/
def valid (cfg : Config) (r : Req) : Bool := cfg.known.contains r.integrand && r.a.val.pos

def integrate {V : Type} (cfg : Config) (compute : Req → V) (c : Cache V) (r0 : Req) : Except Err V × Cache V :=
  let r := r0.seen cfg.coerced
  let k := keyOf cfg.keyFields r
  match c.lookup k with
  | some v => (.ok v, c)
  | none => if valid cfg r then (.ok (compute r), c.store k (compute r)) else (.error .assertion, c)

/-- the value a fresh integrator returns -/
def cold {V : Type} (cfg : Config) (compute : Req → V) (r : Req) : Except Err V :=
  (integrate cfg compute [] r).1

/-- a history of requests on one integrator: final cache and the answers in order -/
def runReqs {V : Type} (cfg : Config) (compute : Req → V) : Cache V → List Req → Cache V × List (Except Err V)
  | c, [] => (c, [])
  | c, r :: rs =>
    let p := integrate cfg compute c r
    let q := runReqs cfg compute p.2 rs
    (q.1, p.1 :: q.2)

/-! ## several integrators in one process -/

/-- an `Integrator` object: the pulse it was built from and the store location of the dict its `_cache` attribute denotes -/
structure Obj where
  pulse : Nat
  loc : Nat
  deriving DecidableEq, Repr

structure World (V : Type) where
  cells : List (Cache V)
  objs : List Obj

/-- location 0 is the dict a class-level `_cache = dict()` creates when the class body runs (unused when `_cache` is an
instance attribute) -/
def World.init {V : Type} : World V := ⟨[[]], []⟩

inductive Event
  | new (pulse : Nat)          -- Integrator(pulse)   (also: Gates(pulse), which builds exactly one)
  | copy (obj : Nat)           -- copy.deepcopy of an object holding that integrator
  | req (obj : Nat) (r : Req)
  deriving Repr

inductive Out (V : Type)
  | created (obj loc : Nat)
  | result (hit : Bool) (res : Except Err V)
  | badObj

def step {V : Type} (cfg : Config) (instanceLevel : Bool) (compute : Nat → Req → V) (w : World V) :
    Event → World V × Out V
  | .new p =>
    if instanceLevel then
      (⟨w.cells ++ [[]], w.objs ++ [⟨p, w.cells.length⟩]⟩, .created w.objs.length w.cells.length)
    else (⟨w.cells, w.objs ++ [⟨p, 0⟩]⟩, .created w.objs.length 0)
  | .copy i =>
    match w.objs[i]? with
    | none => (w, .badObj)
    | some o =>
      if instanceLevel then
        (⟨w.cells ++ [w.cells.getD o.loc []], w.objs ++ [⟨o.pulse, w.cells.length⟩]⟩, .created w.objs.length w.cells.length)
      else (⟨w.cells, w.objs ++ [⟨o.pulse, 0⟩]⟩, .created w.objs.length 0)    -- deepcopy does not copy class attributes
  | .req i r =>
    match w.objs[i]? with
    | none => (w, .badObj)
    | some o =>
      let c := w.cells.getD o.loc []
      let hit := (c.lookup (keyOf cfg.keyFields (r.seen cfg.coerced))).isSome
      let p := integrate cfg (compute o.pulse) c r
      (⟨w.cells.set o.loc p.2, w.objs⟩, .result hit p.1)

def run {V : Type} (cfg : Config) (instanceLevel : Bool) (compute : Nat → Req → V) :
    World V → List Event → World V × List (Out V)
  | w, [] => (w, [])
  | w, e :: es =>
    let p := step cfg instanceLevel compute w e
    let q := run cfg instanceLevel compute p.1 es
    (q.1, p.2 :: q.2)

/-! ## sampling a gate: programs whose only effects are integrator requests and draws from the global generator -/

/-- numpy's global generator: deterministic functions of its state (assumption) -/
structure Rng (G V : Type) where
  normal : G → V → V → V × G
  mvn : G → List V → List (List V) → List V × G

/-- what `construct` of a factory may do according to the translator's symbolic execution (it fails closed on anything
else): return a matrix, ask the integrator, draw `np.random.normal(mean, std)`, draw
`np.random.multivariate_normal(mean, cov, 1)`; all pure computation (and the calls into sub-factories, which share the
integrator) is in the continuations. -/
inductive Prog (V M : Type) where
  | ret (m : M)
  | integ (r : Req) (k : V → Prog V M)
  | normal (mean std : V) (k : V → Prog V M)
  | mvn (mean : List V) (cov : List (List V)) (k : List V → Prog V M)

/-- run a program from generator state `g` against one integrator cache; an `AssertionError` of the integrator propagates -/
def Prog.run {G V M : Type} (cfg : Config) (compute : Req → V) (rng : Rng G V) :
    Prog V M → G → Cache V → Except Err M × G × Cache V
  | .ret m, g, c => (.ok m, g, c)
  | .integ r k, g, c =>
    match integrate cfg compute c r with
    | (.ok v, c') => (k v).run cfg compute rng g c'
    | (.error e, c') => (.error e, g, c')
  | .normal mean std k, g, c => (k (rng.normal g mean std).1).run cfg compute rng (rng.normal g mean std).2 c
  | .mvn mean cov k, g, c => (k (rng.mvn g mean cov).1).run cfg compute rng (rng.mvn g mean cov).2 c

/-- the integrator requests issued during that run, in order -/
def Prog.reqs {G V M : Type} (cfg : Config) (compute : Req → V) (rng : Rng G V) :
    Prog V M → G → Cache V → List Req
  | .ret _, _, _ => []
  | .integ r k, g, c =>
    match integrate cfg compute c r with
    | (.ok v, c') => r :: (k v).reqs cfg compute rng g c'
    | (.error _, _) => [r]
  | .normal mean std k, g, c => (k (rng.normal g mean std).1).reqs cfg compute rng (rng.normal g mean std).2 c
  | .mvn mean cov k, g, c => (k (rng.mvn g mean cov).1).reqs cfg compute rng (rng.mvn g mean cov).2 c

/-! ## the sequential shot loop of `_perform_simulation`

`S` is everything a shot receives besides the gate set (circuit data, device parameters, psi0, layout); a shot may modify
what it receives (`shot s` returns the result and the state it leaves its arguments in).  `copied = true`: every shot gets
deep copies of the caller's objects (incl. the gate set and therefore its integrator cache), made before the first shot
runs; `copied = false`: the shots work on the caller's objects.  An exception in a shot propagates out of `run`. -/
def runShots {G V M S : Type} (cfg : Config) (compute : Req → V) (rng : Rng G V) (copied : Bool) (shot : S → Prog V (M × S)) :
    Nat → S → G → Cache V → Except Err (List M) × S × G × Cache V
  | 0, s, g, c => (.ok [], s, g, c)
  | n + 1, s, g, c =>
    match (shot s).run cfg compute rng g c with
    | (.error e, g', c') => (.error e, s, g', if copied then c else c')
    | (.ok (m, s'), g', c') =>
      let q := runShots cfg compute rng copied shot n (if copied then s else s') g' (if copied then c else c')
      (match q.1 with | .ok ms => .ok (m :: ms) | .error e => .error e, q.2)

/-! ## vocabulary of the static extraction (the tables of lean/QG/Gen/Determinism.lean) and the checks computed on them -/

/-- a call into numpy's global generator: `np.random.normal(mean, std)` or `np.random.multivariate_normal(mean, cov, 1)`
with a `dim`-dimensional mean -/
inductive Draw
  | normal
  | mvn (dim : Nat)
  deriving DecidableEq, Repr

/-- how an `__init__` obtains the value it stores in an attribute -/
inductive InitSrc
  | integratorParam                                   -- `self.integrator = integrator`  (the constructor's argument)
  | newIntegrator                                     -- `self.integrator = Integrator(pulse)`
  | factory (cls : String) (passesIntegrator : Bool)  -- `self.x = Cls(self.integrator)` / `self.x = Cls()`
  | gateSet (cls : String)                            -- `self.gates = Gates(pulse)`
  | scalar                                            -- plain data (`noise_scaling`)
  deriving DecidableEq, Repr

abbrev InitTable := List (String × List (String × InitSrc))     -- class name ↦ (attribute ↦ source), in statement order

def InitTable.attrs (t : InitTable) (cls : String) : Option (List (String × InitSrc)) :=
  (t.find? (·.1 == cls)).map (·.2)

/-- a factory class built with the constructor argument `integrator`: it creates no integrator of its own and every
sub-factory that needs one receives that same argument (`fuel` bounds the nesting depth of the table) -/
def usesGivenIntegrator (t : InitTable) : Nat → String → Bool
  | 0, _ => false
  | fuel + 1, cls =>
    match t.attrs cls with
    | none => false
    | some l => l.all fun p =>
        match p.2 with
        | .integratorParam => true
        | .factory c true => usesGivenIntegrator t fuel c
        | .factory c false => t.attrs c == some []
        | _ => false

/-- a gate-set class: exactly one `Integrator(pulse)` is created, every factory that takes an integrator receives it, the
others have no attributes at all -/
def ownsOneIntegrator (t : InitTable) (cls : String) : Bool :=
  match t.attrs cls with
  | none => false
  | some l =>
    (l.filter fun p => p.2 == .newIntegrator).length == 1 &&
    l.all fun p =>
      match p.2 with
      | .newIntegrator => true
      | .factory c true => usesGivenIntegrator t 4 c
      | .factory c false => t.attrs c == some []
      | _ => false

/-- a wrapper class (`ScaledNoiseGates`): plain data and exactly one gate set of its own, which owns one integrator -/
def wrapsOneGateSet (t : InitTable) (cls : String) : Bool :=
  match t.attrs cls with
  | none => false
  | some l =>
    (l.filter fun p => match p.2 with | .gateSet _ => true | _ => false).length == 1 &&
    l.all fun p =>
      match p.2 with
      | .gateSet c => ownsOneIntegrator t c
      | .scalar => true
      | _ => false

/-- how `_perform_simulation` builds one entry of a shot's argument dict -/
inductive ShotArg
  | deepcopy                          -- `copy.deepcopy(<caller's object>)`
  | fresh (argsIsolated : Bool)       -- a new object per shot whose constructor arguments are deep copies or immutable ints
  | shared                            -- the caller's object itself
  deriving DecidableEq, Repr

def shotArgsIsolated (l : List (String × ShotArg)) : Bool :=
  l.all fun p => match p.2 with | .deepcopy => true | .fresh b => b | .shared => false

/-- flattened draw script of a factory: its own draws, or the concatenation of its constituents' scripts in call order -/
def flattenScript (own : List (String × List Draw)) (calls : List (String × List String)) : Nat → String → List Draw
  | 0, _ => []
  | fuel + 1, cls =>
    match (calls.find? (·.1 == cls)).map (·.2) with
    | some (c :: cs) => (c :: cs).flatMap (flattenScript own calls fuel)
    | _ => ((own.find? (·.1 == cls)).map (·.2)).getD []

end QG.Model.IntegratorCache
