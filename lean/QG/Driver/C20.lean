import QG.Driver.Util
import QG.Model.Calibration
namespace QG.Driver
open Lean QG.Model.Calibration

/-- `[[q, "<token>"], ...]` -/
private def getMap (j : Json) (k : String) : Except String (List (Nat × String)) := do
  let a ← getArr j k
  a.toList.mapM fun it => do
    let xs ← it.getArr?
    match xs.toList with
    | [q, v] => pure (← q.getNat?, ← v.getStr?)
    | _ => throw s!"bad map item in {k}"

/-- `[[name, [[i, j, "<err token>", "<len token>"], ...]], ...]` -/
private def getGate2 (j : Json) : Except String (List (String × List ((Nat × Nat) × (String × String)))) := do
  let a ← getArr j "gate2"
  a.toList.mapM fun it => do
    let xs ← it.getArr?
    match xs.toList with
    | [nm, items] =>
      let its ← items.getArr?
      let G ← its.toList.mapM fun e => do
        let ys ← e.getArr?
        match ys.toList with
        | [i, jj, er, ln] => pure ((← i.getNat?, ← jj.getNat?), (← er.getStr?, ← ln.getStr?))
        | _ => throw "bad gate2 entry"
      pure (← nm.getStr?, G)
    | _ => throw "bad gate2 item"

private def jStrs (l : List String) : Json := Json.arr (l.toArray.map Json.str)
private def jTable (t : List (List String)) : Json := Json.arr (t.toArray.map jStrs)

/-- {"op":"load","kind":"fake"|"v2"|"other","layout":[..],"t1":[[q,tok]..],"t2":..,"xerr":..,"rerr":..,"rlen":..,
     "dt":tok|null,"basis":[..],"gate2":[[name,[[i,j,err,len]..]]..]} ; values are opaque tokens, zero = "0.0" -/
def handleLoad (j : Json) : Except String Json := do
  let kind ← match (← getStr j "kind") with
    | "fake" => pure Kind.fake
    | "v2" => pure Kind.v2
    | "other" => pure Kind.other
    | s => throw s!"bad kind {s}"
  let layout ← (← getArr j "layout").toList.mapM fun x => x.getNat?
  let dt ← match j.getObjVal? "dt" with
    | .ok (Json.str s) => pure (some s)
    | .ok Json.null => pure none
    | _ => throw "bad dt"
  let basis ← (← getArr j "basis").toList.mapM fun x => x.getStr?
  let b : Backend String :=
    { kind := kind, t1 := ← getMap j "t1", t2 := ← getMap j "t2", xerr := ← getMap j "xerr",
      rerr := ← getMap j "rerr", rlen := ← getMap j "rlen", dt := dt, basis := basis, gate2 := ← getGate2 j }
  match load "0.0" layout b with
  | .error .value => pure (jErr "ValueError")
  | .error .property => pure (jErr "BackendPropertyError")
  | .error .attribute => pure (jErr "AttributeError")
  | .ok r => pure (jOk (Json.mkObj [("T1", jStrs r.T1), ("T2", jStrs r.T2), ("p", jStrs r.p), ("rout", jStrs r.rout),
      ("tm", jStrs r.tm), ("dt", jStrs r.dt), ("p_int", jTable r.p_int), ("t_int", jTable r.t_int)]))

def c20Handlers : List (String × (Json → Except String Json)) := [("load", handleLoad)]

end QG.Driver
