import QG.Driver.Util
import QG.Model.DevParamsIO
/-! Line-protocol handlers for C15.  Floats and metadata are opaque string tokens.  `canon` (the effect of
`json.load ∘ json.dump(default=default_serializer)` on the metadata) is instantiated by "strip the prefix `raw:`":
the harness marks a metadata value that is changed by canonicalisation with that prefix.

ops
  txt      {"shape","data","ndmin"}            savetxt then loadtxt
  loadtxt  {"lines","ndmin"}                   loadtxt on given lines
  json     {"shape","data"}                    tolist then np.array
  nparray  {"nested"}                          np.array on a nested list
  session  {"actions":[...],"locs":[...]}      a history of new/set/save/load/delete/write_*/eq actions; answer =
                                               outcome of every action + final objects + final files at `locs` -/
namespace QG.Driver
open Lean QG.Model.DevParamsIO

abbrev T := String

def canonTok (t : T) : T := if t.startsWith "raw:" then (t.drop 4).toString else t

def errName : Err → String
  | .fileNotFound => "FileNotFoundError"
  | .value => "ValueError"
  | .exception => "Exception"

def jErrOpt : Option Err → Json
  | none => Json.null
  | some e => Json.str (errName e)

def natsOf (j : Json) : Except String (List Nat) := do
  let a ← j.getArr?
  a.toList.mapM fun x => x.getNat?

def toksOf (j : Json) : Except String (List T) := do
  let a ← j.getArr?
  a.toList.mapM fun x => x.getStr?

def linesOf (j : Json) : Except String (List (List T)) := do
  let a ← j.getArr?
  a.toList.mapM toksOf

def arrOf (j : Json) : Except String (Arr T) := do
  let s ← natsOf (← j.getObjVal? "shape")
  let d ← toksOf (← j.getObjVal? "data")
  let a : Arr T := ⟨s, d⟩
  if a.wf then pure a else throw "ill-formed array (len(data) != prod(shape))"

def jArr (a : Arr T) : Json :=
  Json.mkObj [("shape", Json.arr (a.shape.toArray.map fun n => toJson n)),
              ("data", Json.arr (a.data.toArray.map Json.str))]

def jLines (l : List (List T)) : Json :=
  Json.arr (l.toArray.map fun r => Json.arr (r.toArray.map Json.str))

def jExceptArr : Except Err (Arr T) → Json
  | .ok a => jOk (jArr a)
  | .error e => jErr (errName e)

partial def nestedOf (j : Json) : Except String (JVal T) :=
  match j with
  | .str s => pure (.num s)
  | .arr a => do
    let l ← a.toList.mapM nestedOf
    pure (.arr l)
  | _ => throw "bad nested value"

partial def jNested : JVal T → Json
  | .num t => Json.str t
  | .arr l => Json.arr (l.toArray.map jNested)

def handleTxt (j : Json) : Except String Json := do
  let a ← arrOf j
  let k ← getNat j "ndmin"
  match savetxt a with
  | .error e => pure (jErr (errName e))
  | .ok lines => pure (jOk (Json.mkObj [("lines", jLines lines), ("loaded", jExceptArr (loadtxt k lines))]))

def handleLoadtxt (j : Json) : Except String Json := do
  let lines ← linesOf (← j.getObjVal? "lines")
  let k ← getNat j "ndmin"
  pure (jExceptArr (loadtxt k lines))

def handleJson (j : Json) : Except String Json := do
  let a ← arrOf j
  let v := tolist a.shape a.data
  pure (jOk (Json.mkObj [("nested", jNested v), ("loaded", jExceptArr (npArray v))]))

def handleNpArray (j : Json) : Except String Json := do
  let v ← nestedOf (← j.getObjVal? "nested")
  pure (jExceptArr (npArray v))

/-! ### sessions -/

def fieldNames : List (String × Field) :=
  [("T1", .T1), ("T2", .T2), ("p", .p), ("rout", .rout), ("p_int", .pInt), ("t_int", .tInt), ("tm", .tm), ("dt", .dt)]

def fileNames : List (String × FName) :=
  [("T1.txt", .T1), ("T2.txt", .T2), ("p.txt", .p), ("rout.txt", .rout), ("p_int.txt", .pInt), ("t_int.txt", .tInt),
   ("tm.txt", .tm), ("dt.txt", .dt), ("metadata.json", .mdata), ("device_parameters.json", .json)]

structure World where
  objs : List (String × DevParams T) := []
  fs : FS String T := fun _ _ => none

def World.get (w : World) (id : String) : Except String (DevParams T) :=
  match w.objs.lookup id with
  | some d => pure d
  | none => throw s!"unknown object {id}"

def World.put (w : World) (id : String) (d : DevParams T) : World :=
  if (w.objs.lookup id).isSome then { w with objs := w.objs.map fun p => if p.1 == id then (id, d) else p }
  else { w with objs := w.objs ++ [(id, d)] }

def fmtOf (s : String) : Except String Fmt :=
  if s == "texts" then pure .texts else if s == "json" then pure .json else throw "bad fmt"

def fnameOf (s : String) : Except String FName :=
  match fileNames.lookup s with
  | some n => pure n
  | none => throw s!"bad file name {s}"

def optTok (j : Json) : Except String (Option T) :=
  match j with
  | .null => pure none
  | .str s => pure (some s)
  | _ => throw "bad token"

def stepAction (w : World) (act : Json) : Except String (World × Json) := do
  let a ← getStr act "a"
  if a == "new" then
    let id ← getStr act "id"
    let nq ← getNat act "nq"
    pure (w.put id (DevParams.fresh nq), Json.null)
  else if a == "set" then
    let id ← getStr act "id"
    let mut d ← w.get id
    for it in (← getArr act "fields") do
      let pr ← it.getArr?
      match pr.toList with
      | [k, v] =>
        let ks ← k.getStr?
        match fieldNames.lookup ks with
        | none => throw s!"bad field {ks}"
        | some f =>
          match v with
          | .null => d := { d with arr := fun g => if g = f then none else d.arr g }
          | _ => d := d.set f (← arrOf v)
      | _ => throw "bad field entry"
    match act.getObjVal? "md" with
    | .ok m => d := { d with md := ← optTok m }
    | .error _ => pure ()
    pure (w.put id d, Json.null)
  else if a == "save" then
    let id ← getStr act "id"
    let d ← w.get id
    let fmt ← fmtOf (← getStr act "fmt")
    let loc ← getStr act "loc"
    let (fs', e) := save canonTok fmt w.fs loc d
    pure ({ w with fs := fs' }, jErrOpt e)
  else if a == "load" then
    let id ← getStr act "id"
    let d ← w.get id
    let fmt ← fmtOf (← getStr act "fmt")
    let loc ← getStr act "loc"
    let (d', e) := load fmt w.fs loc d
    pure (w.put id d', jErrOpt e)
  else if a == "delete" then
    let loc ← getStr act "loc"
    let mut fs := w.fs
    for n in (← getArr act "names") do
      fs := fs.delete loc (← fnameOf (← n.getStr?))
    pure ({ w with fs := fs }, Json.null)
  else if a == "write_txt" then
    let loc ← getStr act "loc"
    let n ← fnameOf (← getStr act "name")
    let lines ← linesOf (← act.getObjVal? "lines")
    pure ({ w with fs := w.fs.write loc n (.txt lines) }, Json.null)
  else if a == "write_doc" then
    let loc ← getStr act "loc"
    let fields ← (← getArr act "fields").toList.mapM fun it => do
      let pr ← it.getArr?
      match pr.toList with
      | [k, v] => pure (← k.getStr?, ← nestedOf v)
      | _ => throw "bad doc entry"
    let md ← optTok (← act.getObjVal? "md")
    pure ({ w with fs := w.fs.write loc .json (.doc fields md) }, Json.null)
  else if a == "write_meta" then
    let loc ← getStr act "loc"
    let md ← getStr act "md"
    pure ({ w with fs := w.fs.write loc .mdata (.mdata md) }, Json.null)
  else if a == "eq" then
    let x ← w.get (← getStr act "x")
    let y ← w.get (← getStr act "y")
    pure (w, Json.bool (dpEq canonTok x y))
  else throw s!"unknown action {a}"

def jOptTok : Option T → Json
  | none => Json.null
  | some t => Json.str t

def jObj (id : String) (d : DevParams T) : Json :=
  Json.mkObj [("id", Json.str id), ("nq", toJson d.nq), ("complete", Json.bool d.isComplete),
    ("fields", Json.arr (fieldNames.toArray.map fun (k, f) =>
        Json.arr #[Json.str k, match d.arr f with | none => Json.null | some a => jArr a])),
    ("md", jOptTok d.md)]

def jFile : Option (File T) → Json
  | none => Json.null
  | some (.txt lines) => Json.mkObj [("txt", jLines lines)]
  | some (.doc fields md) =>
    Json.mkObj [("doc", Json.mkObj [("fields", Json.arr (fields.toArray.map fun (k, v) => Json.arr #[Json.str k, jNested v])),
                                    ("md", jOptTok md)])]
  | some (.mdata md) => Json.mkObj [("meta", Json.str md)]

def handleSession (j : Json) : Except String Json := do
  let acts ← getArr j "actions"
  let locs ← (← getArr j "locs").toList.mapM fun x => x.getStr?
  let mut w : World := {}
  let mut outs : Array Json := #[]
  for act in acts do
    let (w', o) ← stepAction w act
    w := w'
    outs := outs.push o
  let files := locs.map fun l =>
    Json.arr #[Json.str l, Json.arr (fileNames.toArray.map fun (s, n) => Json.arr #[Json.str s, jFile (w.fs l n)])]
  pure (jOk (Json.mkObj [("outcomes", Json.arr outs),
                         ("objects", Json.arr (w.objs.toArray.map fun (id, d) => jObj id d)),
                         ("files", Json.arr files.toArray)]))

def c15Handlers : List (String × (Json → Except String Json)) :=
  [("txt", handleTxt), ("loadtxt", handleLoadtxt), ("json", handleJson), ("nparray", handleNpArray),
   ("session", handleSession)]

end QG.Driver
