import QG.Driver.Util
import QG.Model.FixCounts
namespace QG.Driver
open Lean QG.Model.FixCounts

/-- {"op":"fix_counts","n":N,"items":[["010","<value token>"],...]} ; values are opaque tokens, zero = "0.0" (canonical float repr) -/
def handleFixCounts (j : Json) : Except String Json := do
  let n ← getNat j "n"
  let items ← getArr j "items"
  let t ← items.toList.mapM fun it => do
    let a ← it.getArr?
    match a.toList with
    | [k, v] =>
      let ks ← k.getStr?
      let vs ← v.getStr?
      match bitsOfString ks with
      | some b => pure (b, vs)
      | none => throw "bad key"
    | _ => throw "bad item"
  match fixCounts "0.0" t n with
  | .error .index => pure (jErr "IndexError")
  | .ok l => pure (jOk (Json.arr (l.toArray.map fun p => Json.arr #[Json.str (stringOfBits p.1), Json.str p.2])))

def c16Handlers : List (String × (Json → Except String Json)) := [("fix_counts", handleFixCounts)]

end QG.Driver
