import QG.Driver.Util
import QG.Model.Shots
namespace QG.Driver
open Lean QG.Model QG.Model.Shots

/-! JSON handlers of the C09 driver.

`plan`     {"cpu":c,"S":s} → {"n_processes","chunksize","chunks":[[i,…],…]}
`seq`      {"repaired":bool,"S":s,"p0":p,"lens":[…]}
`par`      {"repaired":bool,"start":"fork"|"spawn"|"forkserver","cpu":c,"S":s,"p0":p,"lens":[…],"worker":[…],"order":[…]}
           → {"valid":bool,"entries":[[shot,worker,stream,start,len],…] (completion order),"disjoint":bool,
              "parent_pos": position of the parent's generator afterwards}
             stream = ["parent"] | ["fresh",w] | ["child",e,i] | ["server"]
`estimate` {"d":d,"S":s,"vectors":[[[num,den],…],…]} (accumulation order)
           → {"ok":[[num,den],…]} | {"err":"AssertionError"}
`lens[i]` = number of generator outputs shot `i` consumes (missing entries: 1).
-/

private def natList (j : Json) (k : String) : Except String (List Nat) := do
  (← getArr j k).toList.mapM (·.getNat?)

private def getBool (j : Json) (k : String) : Except String Bool := do
  match ← j.getObjVal? k with
  | Json.bool b => pure b
  | _ => throw s!"{k}: not a bool"

private def streamJson : Stream → Json
  | .parent => Json.arr #[Json.str "parent"]
  | .fresh w => Json.arr #[Json.str "fresh", toJson w]
  | .child e i => Json.arr #[Json.str "child", toJson e, toJson i]
  | .server => Json.arr #[Json.str "server"]

private def entriesJson (es : List Entry) : Json :=
  Json.arr (es.toArray.map fun e =>
    Json.arr #[toJson e.shot, toJson e.worker, streamJson e.src.stream, toJson e.src.start, toJson e.src.len])

private def lenOf (lens : List Nat) : Nat → Nat := fun i => (lens[i]?).getD 1

def handlePlan09 (j : Json) : Except String Json := do
  let cpu ← getNat j "cpu"
  let S ← getNat j "S"
  let n := Pool.nProcesses cpu
  let cs := Pool.chunksize S n
  let ch := Pool.chunks cs (List.range S)
  pure (Json.mkObj [("n_processes", toJson n), ("chunksize", toJson cs),
    ("chunks", Json.arr (ch.toArray.map fun c => Json.arr (c.toArray.map fun (i : Nat) => toJson i)))])

def handleSeq (j : Json) : Except String Json := do
  let cfg : Config := ⟨← getBool j "repaired", .fork, ← getNat j "p0", lenOf (← natList j "lens")⟩
  let S ← getNat j "S"
  let es := seqRun cfg S
  pure (Json.mkObj [("valid", Json.bool true), ("entries", entriesJson es),
    ("disjoint", Json.bool (pairwiseDisjointB es)), ("parent_pos", toJson (parentAfter cfg false S).pos)])

def handlePar (j : Json) : Except String Json := do
  let start ← match ← getStr j "start" with
    | "fork" => pure StartMethod.fork
    | "spawn" => pure StartMethod.spawn
    | "forkserver" => pure StartMethod.forkserver
    | s => throw s!"unknown start method {s}"
  let cfg : Config := ⟨← getBool j "repaired", start, ← getNat j "p0", lenOf (← natList j "lens")⟩
  let cpu ← getNat j "cpu"
  let S ← getNat j "S"
  let s : Pool.Schedule := ⟨← natList j "worker", ← natList j "order"⟩
  let n := Pool.nProcesses cpu
  let m := (Pool.chunks (Pool.chunksize S n) (List.range S)).length
  let es := parRun cfg cpu S s
  pure (Json.mkObj [("valid", Json.bool (s.validB m n)), ("entries", entriesJson es),
    ("disjoint", Json.bool (pairwiseDisjointB es)), ("parent_pos", toJson (parentAfter cfg true S).pos)])

private def parseRat (j : Json) : Except String Rat := do
  match (← j.getArr?).toList with
  | [a, b] =>
    let n ← a.getInt?
    let d ← b.getInt?
    if d = 0 then throw "zero denominator" else pure ((n : Rat) / (d : Rat))
  | _ => throw "bad rational"

def handleEstimate (j : Json) : Except String Json := do
  let d ← getNat j "d"
  let S ← getNat j "S"
  let vs ← (← getArr j "vectors").toList.mapM fun v => do (← v.getArr?).toList.mapM parseRat
  match estimate ratNum d S vs with
  | .error e => pure (Json.mkObj [("err", Json.str e)])
  | .ok r => pure (Json.mkObj [("ok", Json.arr (r.toArray.map fun (x : Rat) => Json.arr #[toJson x.num, toJson x.den]))])

def c09Handlers : List (String × (Json → Except String Json)) :=
  [("plan", handlePlan09), ("seq", handleSeq), ("par", handlePar), ("estimate", handleEstimate)]

end QG.Driver
