import QG.Driver.C08
import QG.Model.Reuse
namespace QG.Driver
open Lean QG.Model.Wiring QG.Model.Reuse

def qlJson : QL → Json
  | .pad i => Json.arr #[Json.num (JsonNumber.fromNat i), Json.num (JsonNumber.fromInt (-1))]
  | .one i => Json.arr #[Json.num (JsonNumber.fromNat i)]
  | .two i k => Json.arr #[Json.num (JsonNumber.fromNat i), Json.num (JsonNumber.fromNat k)]

def binObjJson (o : BinObj Int) : Json :=
  (binJson o.st).setObjVal! "qls" (Json.arr (o.qls.reverse.toArray.map qlJson))

def hopOfJson (s : Json) : Except String (HOp Int) :=
  match s.getStr? with
  | .ok "reset" => pure .reset
  | .ok "eval" => pure .eval
  | _ => do pure (.call (← circCallOfJson s))

/-- {"op":"hist","cls":"binary"|"layered"|"grid","n":n,"depth":d,"script":[call | "eval" | "reset" | "snap"]}:
a build / evaluate / reset history on one circuit object; answers the snapshots taken at every "snap" -/
def runHist {σ : Type} (stepH : σ → HOp Int → Except Err σ) (toJ : σ → Json) (init : σ) (script : Array Json) :
    Except String Json := do
  let mut st := init
  let mut out : Array Json := #[]
  for s in script do
    match s.getStr? with
    | .ok "snap" => out := out.push (toJ st)
    | _ =>
      let op ← hopOfJson s
      match stepH st op with
      | .error e => return Json.mkObj [("snaps", Json.arr out), ("raised", errJson e)]
      | .ok st' => st := st'
  pure (Json.mkObj [("snaps", Json.arr out)])

def handleHist (j : Json) : Except String Json := do
  let cls ← getStr j "cls"
  let n ← getNat j "n"
  let depth ← getNat j "depth"
  let script ← getArr j "script"
  if cls == "binary" then runHist (binH intPhase) binObjJson (BinObj.init intPhase n) script
  else if cls == "grid" then runHist (gridH intPhase) gridJson (GridState.init intPhase n depth) script
  else runHist (layerH intPhase) layerJson (LayerState.init intPhase n) script

def c11Handlers : List (String × (Json → Except String Json)) := [("hist", handleHist)]

end QG.Driver
