import QG.Driver.Util
import QG.Model.RunValidate
namespace QG.Driver
open Lean QG.Model.RunValidate

/-! JSON handlers for C14.

Python values: {"t":"int","v":3} {"t":"bool","v":true} {"t":"float"} {"t":"npint","v":5} {"t":"none"} {"t":"str"}
  {"t":"list","n":4} {"t":"tuple","n":3} {"t":"ndarray","shape":[4]} {"t":"dict","T1":"missing"|"unsized"|<k>} {"t":"other"}
Circuits: {"t":"qc"|"duck","data":[["g",[0,1]],["d",[2]],["m",0,1],...]} | {"t":"nodata"}
Floats travel as the 64 bit patterns of the IEEE doubles (exact, NaN and infinities included). -/

namespace C14

def floatNum : Num Float := ⟨0.0, (· + ·), (· / ·), fun x => decide (x > 0)⟩

def errName : Err → String
  | .valueError => "ValueError" | .attributeError => "AttributeError" | .keyError => "KeyError"
  | .typeError => "TypeError" | .assertionError => "AssertionError" | .indexError => "IndexError"

def getNatList (j : Json) : Except String (List Nat) := do
  let a ← j.getArr?
  a.toList.mapM fun x => x.getNat?

def pyVal (j : Json) : Except String PyVal := do
  let t ← getStr j "t"
  match t with
  | "int" => pure (.int (← getInt j "v"))
  | "bool" => do
    let v ← j.getObjVal? "v"
    pure (.bool (← v.getBool?))
  | "float" => pure .float
  | "npint" => pure (.npInt (← getInt j "v"))
  | "none" => pure .none
  | "str" => pure .str
  | "list" => pure (.list (← getNat j "n"))
  | "tuple" => pure (.tuple (← getNat j "n"))
  | "ndarray" => do
    let s ← j.getObjVal? "shape"
    pure (.ndarray (← getNatList s))
  | "dict" => do
    let v ← j.getObjVal? "T1"
    match v with
    | .str "missing" => pure (.dict .missing)
    | .str "unsized" => pure (.dict .unsized)
    | _ => pure (.dict (.sized (← v.getNat?)))
  | "other" => pure .other
  | _ => throw s!"bad python value tag {t}"

def instr (j : Json) : Except String Instr := do
  let a ← j.getArr?
  match a.toList with
  | [.str "g", qs] => pure (.gate (← getNatList qs))
  | [.str "d", qs] => pure (.delay (← getNatList qs))
  | [.str "m", q, c] => pure (.measure (← q.getNat?) (← c.getNat?))
  | _ => throw "bad instruction"

def circArg (j : Json) : Except String CircArg := do
  let t ← getStr j "t"
  if t == "nodata" then pure .noData else
  let d ← getArr j "data"
  let data ← d.toList.mapM instr
  match t with
  | "qc" => pure (.qc data)
  | "duck" => pure (.duck data)
  | _ => throw s!"bad circuit tag {t}"

def floatOfJson (j : Json) : Except String Float := do
  let n ← j.getNat?
  pure (Float.ofBits n.toUInt64)

def jFloat (x : Float) : Json := Json.num (JsonNumber.fromNat x.toBits.toNat)

def jItems (l : List (List Bool × Float)) : Json :=
  Json.arr (l.toArray.map fun p => Json.arr #[Json.str (stringOfBits p.1), jFloat p.2])

def jNatPairs (l : List (Nat × Nat)) : Json :=
  Json.arr (l.toArray.map fun p => Json.arr #[Json.num (JsonNumber.fromNat p.1), Json.num (JsonNumber.fromNat p.2)])

/-- {"op":"run","repaired":bool,"circ":…,"psi0":…,"shots":…,"device":…,"nqubit":…,"probs":[bits…] | null}
 → {"err":cls} | {"ok":[[key,bits],…]} | (probs = null) {"ok":{"layout":[…],"meas":[[q,c],…]}} -/
def handleRun (j : Json) : Except String Json := do
  let repaired := match j.getObjVal? "repaired" with
    | .ok (.bool b) => b
    | _ => true
  let circ ← circArg (← j.getObjVal? "circ")
  let psi0 ← pyVal (← j.getObjVal? "psi0")
  let shots ← pyVal (← j.getObjVal? "shots")
  let device ← pyVal (← j.getObjVal? "device")
  let nqubit ← pyVal (← j.getObjVal? "nqubit")
  match precheckWith repaired circ psi0 shots device nqubit with
  | .error e => pure (jErr (errName e))
  | .ok lm =>
    match preprocessCheck lm nqubit with
    | .error e => pure (jErr (errName e))
    | .ok () =>
    match j.getObjVal? "probs" with
    | .ok (.arr a) =>
      let probs ← a.toList.mapM floatOfJson
      match finish floatNum lm probs with
      | .error e => pure (jErr (errName e))
      | .ok out => pure (jOk (jItems out))
    | _ => pure (jOk (Json.mkObj [("layout", Json.arr (lm.1.toArray.map fun q => Json.num (JsonNumber.fromNat q))),
                                  ("meas", jNatPairs lm.2)]))

/-- {"op":"measurament","prob":[bits…],"meas":[[q,c],…],"n":N,"layout":[…]} → {"err":cls} | {"ok":[[key,bits],…]} -/
def handleMeasurament (j : Json) : Except String Json := do
  let prob ← (← getArr j "prob").toList.mapM floatOfJson
  let meas ← (← getArr j "meas").toList.mapM fun p => do
    match (← p.getArr?).toList with
    | [q, c] => pure ((← q.getNat?), (← c.getNat?))
    | _ => throw "bad pair"
  let n ← getNat j "n"
  let layout ← getNatList (← j.getObjVal? "layout")
  match measurement floatNum prob meas n layout with
  | .error e => pure (jErr (errName e))
  | .ok out => pure (jOk (jItems out))

/-- {"op":"normalise","r":[bits…]} → {"err":"AssertionError"} | {"ok":[bits…]} -/
def handleNormalise (j : Json) : Except String Json := do
  let r ← (← getArr j "r").toList.mapM floatOfJson
  match normalise floatNum r with
  | .error e => pure (jErr (errName e))
  | .ok out => pure (jOk (Json.arr (out.toArray.map jFloat)))

/-- {"op":"mean","len":N,"shots":k,"results":[[bits…],…]} → {"ok":[bits…]} -/
def handleMean (j : Json) : Except String Json := do
  let len ← getNat j "len"
  let shots ← getNat j "shots"
  let results ← (← getArr j "results").toList.mapM fun r => do (← r.getArr?).toList.mapM floatOfJson
  pure (jOk (Json.arr ((meanOfShots floatNum len (Float.ofNat shots) results).toArray.map jFloat)))

end C14

def c14Handlers : List (String × (Json → Except String Json)) :=
  [("run", C14.handleRun), ("measurament", C14.handleMeasurament), ("normalise", C14.handleNormalise),
   ("mean", C14.handleMean)]

end QG.Driver
