import QG.Driver.Util
import QG.Model.IntegratorCache
namespace QG.Driver
open Lean QG.Model.IntegratorCache

/-! Line-protocol handlers for C10.

`{"op":"history","key_fields":[..],"coerced":[..],"known":[..],"instance_level":b,"events":[ev,..]}` with
`ev = ["new",pulse] | ["copy",obj] | ["req",obj,integrand,num,num]`, `num = [ty,"val",bits-as-string] | [ty,"nan",obj]`.
`compute` is the token `p<pulse>|<integrand>|<ty>:<bits>|<ty>:<bits>` of the request as the routines see it; the harness
evaluates the token on a fresh integrator of the real code. -/

def fieldOfString : String → Except String Field
  | "integrand" => pure .integrand
  | "theta" => pure .theta
  | "a" => pure .a
  | s => throw s!"bad field {s}"

def tyOfString : String → Except String NumTy
  | "bool" => pure .bool
  | "int" => pure .int
  | "i64" => pure .i64
  | "f64" => pure .f64
  | "npf64" => pure .npf64
  | "f32" => pure .f32
  | "f16" => pure .f16
  | s => throw s!"bad type {s}"

def stringOfTy : NumTy → String
  | .bool => "bool" | .int => "int" | .i64 => "i64" | .f64 => "f64" | .npf64 => "npf64" | .f32 => "f32" | .f16 => "f16"

def argOfJson (j : Json) : Except String Arg := do
  let a ← j.getArr?
  match a.toList with
  | [t, k, v] =>
    let ty ← tyOfString (← t.getStr?)
    match (← k.getStr?) with
    | "val" =>
      match (← v.getStr?).toNat? with
      | some b => pure ⟨ty, .val b⟩
      | none => throw "bad bits"
    | "nan" => pure ⟨ty, .nan (← v.getNat?)⟩
    | s => throw s!"bad number kind {s}"
  | _ => throw "bad number"

def stringOfNum : Num → String
  | .val b => s!"{b}"
  | .nan o => s!"nan{o}"

def tokenOf (pulse : Nat) (r : Req) : String :=
  s!"p{pulse}|{r.integrand}|{stringOfTy r.theta.ty}:{stringOfNum r.theta.val}|{stringOfTy r.a.ty}:{stringOfNum r.a.val}"

def jsonOfPyVal : PyVal → Json
  | .str s => Json.str ("s:" ++ s)
  | .num x => Json.str ("n:" ++ stringOfNum x)

def eventOfJson (j : Json) : Except String Event := do
  let a ← j.getArr?
  match a.toList with
  | [k, p] =>
    match (← k.getStr?) with
    | "new" => pure (.new (← p.getNat?))
    | "copy" => pure (.copy (← p.getNat?))
    | s => throw s!"bad event {s}"
  | [k, i, s, th, av] =>
    if (← k.getStr?) != "req" then throw "bad event"
    pure (.req (← i.getNat?) ⟨← s.getStr?, ← argOfJson th, ← argOfJson av⟩)
  | _ => throw "bad event"

def jsonOfOut : Out String → Json
  | .created o l => Json.mkObj [("c", Json.arr #[Json.num o, Json.num l])]
  | .result hit (.ok v) => Json.mkObj [("r", Json.arr #[Json.bool hit, Json.str "ok", Json.str v])]
  | .result hit (.error .assertion) => Json.mkObj [("r", Json.arr #[Json.bool hit, Json.str "err", Json.str "AssertionError"])]
  | .badObj => Json.str "bad-object"

def handleHistory (j : Json) : Except String Json := do
  let fs ← (← getArr j "key_fields").toList.mapM fun x => do fieldOfString (← x.getStr?)
  let co ← (← getArr j "coerced").toList.mapM fun x => do fieldOfString (← x.getStr?)
  let known ← (← getArr j "known").toList.mapM fun x => x.getStr?
  let inst ← (← j.getObjVal? "instance_level").getBool?
  let es ← (← getArr j "events").toList.mapM eventOfJson
  let cfg : Config := ⟨fs, co, known⟩
  let (w, outs) := run cfg inst tokenOf World.init es
  pure (Json.mkObj [
    ("outs", Json.arr (outs.map jsonOfOut).toArray),
    ("cells", Json.arr (w.cells.map fun c => Json.arr (c.map fun kv =>
      Json.arr #[Json.arr (kv.1.map jsonOfPyVal).toArray, Json.str kv.2]).toArray).toArray),
    ("objs", Json.arr (w.objs.map fun o => Json.arr #[Json.num o.pulse, Json.num o.loc]).toArray)])

def c10Handlers : List (String × (Json → Except String Json)) := [("history", handleHistory)]

end QG.Driver
