import QG.Driver.Util
import QG.Model.Merge
import QG.Model.Pool
namespace QG.Driver
open Lean QG.Model

/-! JSON handlers of the C19 driver.

`merge`   {"files":[["name",[int,…]],…],"sources":[…],"targets":[…],"split":int}
          → {"outcome":"ok"|"AssertionError:count|source|target|split"|"IndexError"|"FileNotFoundError"|"ValueError",
             "files":[["name",[[num,den],…]],…]}   (every path bound in the final state, first binding)
`plan`    {"cpu":c,"S":s} → {"n_processes","chunksize","chunks":[[i,…],…]}          (arguments are 0..S-1)
`pool`    {"cpu":c,"results":[res,…],"worker":[…],"order":[…]}                       (argument i has outcome results[i])
`executor`{"max_workers":int|null,"cpu":c,"results":[…],"worker":[…],"order":[…]}
`mock`    {"results":[…]}
          → {"valid":bool,"calls":[[worker,arg],…],"printed":[[label,elapsed],…],"outcome":"ok"|"<exception class>"}
res = ["pair",elapsed,label] | ["value",unpackErr] | ["raised",exc]
-/

private def strList (j : Json) (k : String) : Except String (List String) := do
  (← getArr j k).toList.mapM (·.getStr?)

private def natList (j : Json) (k : String) : Except String (List Nat) := do
  (← getArr j k).toList.mapM (·.getNat?)

private def mergeErrName : Merge.Err → String
  | .assertCount => "AssertionError:count"
  | .assertSource => "AssertionError:source"
  | .assertTarget => "AssertionError:target"
  | .assertSplit => "AssertionError:split"
  | .index => "IndexError"
  | .notFound => "FileNotFoundError"
  | .shape => "ValueError"

private def dedupKeys : List String → List String → List String
  | [], acc => acc.reverse
  | k :: ks, acc => if acc.contains k then dedupKeys ks acc else dedupKeys ks (k :: acc)

def handleMerge (j : Json) : Except String Json := do
  let files ← (← getArr j "files").toList.mapM fun it => do
    match (← it.getArr?).toList with
    | [n, v] =>
      let name ← n.getStr?
      let vals ← (← v.getArr?).toList.mapM fun x => do pure ((← x.getInt?) : Rat)
      pure (name, vals)
    | _ => throw "bad file"
  let src ← strList j "sources"
  let tgt ← strList j "targets"
  let split ← getInt j "split"
  let (post, out) := Merge.postProcessSplit Merge.ratArith files src tgt split
  let outcome := match out with
    | .ok () => "ok"
    | .error e => mergeErrName e
  let listing := (dedupKeys (post.map (·.1)) []).map fun k =>
    Json.arr #[Json.str k, Json.arr (((Merge.read post k).getD []).toArray.map fun (r : Rat) =>
      Json.arr #[toJson r.num, toJson r.den])]
  pure (Json.mkObj [("outcome", Json.str outcome), ("files", Json.arr listing.toArray)])

def handlePlan (j : Json) : Except String Json := do
  let cpu ← getNat j "cpu"
  let S ← getNat j "S"
  let n := Pool.nProcesses cpu
  let cs := Pool.chunksize S n
  let ch := Pool.chunks cs (List.range S)
  pure (Json.mkObj [("n_processes", toJson n), ("chunksize", toJson cs),
    ("chunks", Json.arr (ch.toArray.map fun c => Json.arr (c.toArray.map fun (i : Nat) => toJson i)))])

private def parseRes (j : Json) : Except String Pool.Res := do
  match (← j.getArr?).toList with
  | [k, a, b] =>
    if (← k.getStr?) == "pair" then pure (.pair (← a.getStr?) (← b.getStr?)) else throw "bad res"
  | [k, a] =>
    let ks ← k.getStr?
    if ks == "value" then pure (.value (← a.getStr?))
    else if ks == "raised" then pure (.raised (← a.getStr?))
    else throw "bad res"
  | _ => throw "bad res"

private def simOf (rs : List Pool.Res) : Nat → Pool.Res := fun i => (rs[i]?).getD (.raised "IndexError")

private def runJson (valid : Bool) (r : Pool.Run Nat) : Json :=
  Json.mkObj [("valid", Json.bool valid),
    ("calls", Json.arr (r.calls.toArray.map fun c => Json.arr #[toJson c.1, toJson c.2])),
    ("printed", Json.arr (r.printed.toArray.map fun p => Json.arr #[Json.str p.1, Json.str p.2])),
    ("outcome", Json.str (match r.outcome with | .ok () => "ok" | .error e => e))]

private def getResults (j : Json) : Except String (List Pool.Res) := do
  (← getArr j "results").toList.mapM parseRes

def handlePool (j : Json) : Except String Json := do
  let cpu ← getNat j "cpu"
  let rs ← getResults j
  let s : Pool.Schedule := ⟨← natList j "worker", ← natList j "order"⟩
  let args := List.range rs.length
  let n := Pool.nProcesses cpu
  let m := (Pool.chunks (Pool.chunksize args.length n) args).length
  pure (runJson (s.validB m n) (Pool.poolHelper cpu args (simOf rs) s))

def handleExecutor (j : Json) : Except String Json := do
  let cpu ← getNat j "cpu"
  let mw ← match ← j.getObjVal? "max_workers" with
    | Json.null => pure none
    | v => do pure (some (← v.getInt?))
  let rs ← getResults j
  let s : Pool.Schedule := ⟨← natList j "worker", ← natList j "order"⟩
  let args := List.range rs.length
  pure (runJson (s.validB args.length (Pool.executorWorkers mw cpu)) (Pool.executorHelper mw args (simOf rs) s))

def handleMock (j : Json) : Except String Json := do
  let rs ← getResults j
  pure (runJson true (Pool.mockHelper (simOf rs) (List.range rs.length)))

def c19Handlers : List (String × (Json → Except String Json)) :=
  [("merge", handleMerge), ("plan", handlePlan), ("pool", handlePool), ("executor", handleExecutor),
   ("mock", handleMock)]

end QG.Driver
