import QG.Driver.Util
import QG.Model.Algorithms
namespace QG.Driver
open Lean QG.Model.Algorithms

private def jNat (n : Nat) : Json := Json.num (JsonNumber.fromNat n)
private def jNats (l : List Nat) : Json := Json.arr (l.toArray.map jNat)

/-- canonical instruction record, the same shape `harness/props/c18.py` derives from `circuit.data`:
 `[name, qubits, clbits, param]` with `param = null` or `[sign, k]` for the angle `sign·π/2^k` -/
def gateJson : Gate → Json
  | .h q => Json.arr #[Json.str "h", jNats [q], jNats [], Json.null]
  | .cp neg k c t =>
    Json.arr #[Json.str "cp", jNats [c, t], jNats [], Json.arr #[Json.num (if neg then (-1 : Int) else 1), jNat k]]
  | .swap a b => Json.arr #[Json.str "swap", jNats [a, b], jNats [], Json.null]
  | .cx c t => Json.arr #[Json.str "cx", jNats [c, t], jNats [], Json.null]
  | .barrier qs => Json.arr #[Json.str "barrier", jNats qs, jNats [], Json.null]
  | .measure q c => Json.arr #[Json.str "measure", jNats [q], jNats [c], Json.null]

/-- {"op":"circuit","gen":"hinvqft"|"ghz"|"qft","n":N} -> {"ok":[instruction,...]} | {"err":"CircuitError"} -/
def handleCircuit (j : Json) : Except String Json := do
  let n ← getNat j "n"
  let g ← getStr j "gen"
  let r : Except Err (List Gate) ← match g with
    | "hinvqft" => pure (.ok (hadamardReverseQft n))
    | "ghz" => pure (ghzCirc n)
    | "qft" => pure (.ok (qft n))
    | _ => throw s!"unknown generator {g}"
  match r with
  | .error .circuitError => pure (jErr "CircuitError")
  | .ok l => pure (jOk (Json.arr (l.toArray.map gateJson)))

def c18Handlers : List (String × (Json → Except String Json)) := [("circuit", handleCircuit)]

end QG.Driver
