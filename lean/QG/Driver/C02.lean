import QG.Driver.Util
import QG.Model.Optimizer
import QG.Model.Binary
/-! JSON handlers of the C02 model driver.

Scalars are Gaussian integers `[re, im]`; a matrix is a list of rows; an item is `[matrix, qubits]`
with `qubits = [q] | [q, -1] | [q1, q2]`.

* `{"op":"optimize","levels":[…],"n":N,"items":[…]}` → `{"ok":[r_level, …]}` with
  `r = {"ok":[[matrix, qubits], …]} | {"err":"IndexError"|…}` — `Optimizer(level, items, list(range(N))).optimize()`
  (an optional `"nq"` is `len(qubit_list)` when it differs from `N`)
* `{"op":"binary_statevector","n":N,"items":[…],"psi":[…]}` → `{"ok":[[re,im],…]} | {"err":…}` —
  `BinaryBackend(N).statevector(items, psi)` -/
namespace QG.Driver
open Lean QG.Model.Optimizer QG.Model.Binary

abbrev GMat := Mat GInt

def getGInt (j : Json) : Except String GInt := do
  let a ← j.getArr?
  match a.toList with
  | [re, im] => pure (← re.getInt?, ← im.getInt?)
  | _ => throw "bad scalar"

def getMat (j : Json) : Except String GMat := do
  let rows ← j.getArr?
  rows.toList.mapM fun r => do
    let es ← r.getArr?
    es.toList.mapM getGInt

def getRaw (j : Json) : Except String (Raw GMat GMat) := do
  let a ← j.getArr?
  match a.toList with
  | [m, qs] =>
    let mat ← getMat m
    let ql ← qs.getArr?
    let qi ← ql.toList.mapM fun q => q.getInt?
    match qi with
    | [q] => if q < 0 then throw "negative qubit" else pure (.single mat q.toNat)
    | [q, r] =>
      if q < 0 then throw "negative qubit"
      else if r = -1 then pure (.padded mat q.toNat)
      else if r < 0 then throw "negative qubit"
      else pure (.pair mat q.toNat r.toNat)
    | _ => throw "bad qubit list"
  | _ => throw "bad item"

def jGInt (x : GInt) : Json := Json.arr #[Json.num (JsonNumber.fromInt x.1), Json.num (JsonNumber.fromInt x.2)]
def jMat (m : GMat) : Json := Json.arr (m.toArray.map fun r => Json.arr (r.toArray.map jGInt))
def jNat (n : Nat) : Json := Json.num (JsonNumber.fromNat n)

def jItem : Item GMat GMat → Json
  | .one m q => Json.arr #[jMat m, Json.arr #[jNat q]]
  | .two m a b => Json.arr #[jMat m, Json.arr #[jNat a, jNat b]]

def handleOptimize (j : Json) : Except String Json := do
  let n ← getNat j "n"
  let nq := match getNat j "nq" with
    | .ok v => v
    | .error _ => n
  let lv ← getArr j "levels"
  let levels ← lv.toList.mapM fun l => l.getInt?
  let items ← getArr j "items"
  let raw ← items.toList.mapM getRaw
  let out := levels.map fun level =>
    match optimize (listOps gint) level nq raw with
    | .error e => jErr e.name
    | .ok l => jOk (Json.arr (l.toArray.map jItem))
  pure (jOk (Json.arr out.toArray))

def handleBinary (j : Json) : Except String Json := do
  let n ← getNat j "n"
  let items ← getArr j "items"
  let raw ← items.toList.mapM getRaw
  let psiJ ← getArr j "psi"
  let psi ← psiJ.toList.mapM getGInt
  match statevector gint (listOps gint) (listEntries gint) n raw psi with
  | .error e => pure (jErr e.name)
  | .ok v => pure (jOk (Json.arr (v.toArray.map jGInt)))

def c02Handlers : List (String × (Json → Except String Json)) :=
  [("optimize", handleOptimize), ("binary_statevector", handleBinary)]

end QG.Driver
