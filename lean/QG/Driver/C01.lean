import QG.Driver.Util
import QG.Model.Backend
/-! Line-protocol handlers for C01 (layer-based backends).

value op   {"op":"value","backend":"standard"|"efficient"|"ones","n":N,"min":a,"opt":b,
            "mats":[[dim,[re,im,re,im,…]],…],"layers":[[k,…],…],"psi":[re,im,…]}
           a layer entry `k ≥ 0` is the matrix `mats[k]`, `-1` is the scalar placeholder `1`.
           → {"ok":[re,im,…]} | {"err":"<exception class>"}
plan op    {"op":"plan","backend":…,"n":N,"min":a,"opt":b,"layer":[c,…]}
           entry codes: 0 = placeholder, 1 = np.eye(2), 2 = other 2x2, 4 = 4x4.  Runs the SAME shape-level code on symbolic
           matrices → {"ok":{"kind":"dense","dim":d,"factors":[…]}} | {"ok":{"kind":"skip"}} |
           {"ok":{"kind":"einsum","cs":"aA,…->…","dims":[operand dims],"shape":[tensor shape],"factors":[[…],…]}} | {"err":…}
chunks op  {"op":"chunks","len":k,"min":a,"opt":b} → {"ok":[[i,…],…]} | {"err":…}   (`_chunk_list(list(range(k)), a, b)`)
wf op      {"op":"wf","n":N,"layer":[c,…]} → {"ok":true|false}
items op   {"op":"items","layer":[c,…]} → {"ok":[[q],[q,q+1],…]}   (qubit lists of the item-by-item form, `itemQubits`)
-/
namespace QG.Driver
open Lean QG.Model.Backend

private def getIntList (j : Json) : Except String (List Int) := do
  let a ← j.getArr?
  a.toList.mapM fun x => x.getInt?

private def pairs : List Int → Except String (List GInt)
  | [] => pure []
  | [_] => throw "odd number of components"
  | a :: b :: r => do
    let t ← pairs r
    pure ((a, b) :: t)

private def unpairs (l : List GInt) : Json :=
  Json.arr (l.foldr (fun p acc => toJson p.1 :: toJson p.2 :: acc) []).toArray

private def parseMat (j : Json) : Except String (Mat GInt) := do
  let a ← j.getArr?
  match a.toList with
  | [d, e] =>
    let d ← d.getNat?
    let e ← getIntList e
    let e ← pairs e
    pure ⟨d, e.toArray⟩
  | _ => throw "bad matrix"

private def errJ (e : Err) : Json := jErr e.name

private def cfg (j : Json) : Except String (String × Nat × Nat × Nat) := do
  let b ← getStr j "backend"
  let n ← getNat j "n"
  let mn := (getNat j "min").toOption.getD 3
  let op := (getNat j "opt").toOption.getD 4
  pure (b, n, mn, op)

def handleValue (j : Json) : Except String Json := do
  let (b, n, mn, op) ← cfg j
  let mats ← (← getArr j "mats").toList.mapM parseMat
  let mats := mats.toArray
  let layers ← (← getArr j "layers").toList.mapM fun l => do
    let ks ← getIntList l
    ks.mapM fun (k : Int) =>
      if k < 0 then pure (Block.scalar : Block (Mat GInt))
      else match mats[k.toNat]? with
        | some M => pure (Block.mat M)
        | none => throw "matrix index out of range"
  let psi ← pairs (← getIntList (← j.getObjVal? "psi"))
  let psi := psi.toArray
  let r ← match b with
    | "standard" => pure (standard gint n layers psi)
    | "efficient" => pure (efficient gint n mn op layers psi)
    | "ones" => pure (ones gint n layers psi)
    | _ => throw s!"unknown backend {b}"
  match r with
  | .error e => pure (errJ e)
  | .ok v => pure (jOk (unpairs v.toList))

private def symLayer (codes : List Int) : Except String (List (Block Sym)) :=
  (codes.zip (List.range codes.length)).mapM fun (c, i) =>
    match c with
    | 0 => pure Block.scalar
    | 1 => pure (Block.mat ⟨2, true, [i]⟩)
    | 2 => pure (Block.mat ⟨2, false, [i]⟩)
    | 4 => pure (Block.mat ⟨4, false, [i]⟩)
    | _ => throw "bad entry code"

private def natsJ (l : List Nat) : Json := Json.arr (l.map toJson).toArray

private def planJ (backend : String) (p : LayerPlan Sym) : Json :=
  match p with
  | .skip => Json.mkObj [("kind", "skip")]
  | .dense .int1 => Json.mkObj [("kind", "dense"), ("scalar", "int")]
  | .dense .np0 => Json.mkObj [("kind", "dense"), ("scalar", "np0")]
  | .dense (.arr M) => Json.mkObj [("kind", "dense"), ("dim", toJson M.dim), ("factors", natsJ M.factors)]
  | .einsum legs =>
    let operands := legs.filterMap fun l => l.2
    let cs := if backend == "ones" then onesString (legs.map fun l => l.2.isNone) else effString legs.length
    Json.mkObj [("kind", "einsum"), ("cs", cs), ("dims", natsJ (operands.map Sym.dim)),
                ("shape", natsJ (legs.map fun l => l.1)),
                ("factors", Json.arr (operands.map fun o => natsJ o.factors).toArray)]

def handlePlan (j : Json) : Except String Json := do
  let (b, n, mn, op) ← cfg j
  let layer ← symLayer (← getIntList (← j.getObjVal? "layer"))
  let mp := layer.map Block.toPy
  let r ← match b with
    | "standard" => pure (do let k ← reduceKron symOps mp; pure (LayerPlan.dense k))
    | "efficient" => pure (effLayer symOps n mn op mp)
    | "ones" => pure (onesLayer symOps n mp)
    | _ => throw s!"unknown backend {b}"
  match r with
  | .error e => pure (errJ e)
  | .ok p => pure (jOk (planJ b p))

def handleChunks (j : Json) : Except String Json := do
  let k ← getNat j "len"
  let mn ← getNat j "min"
  let op ← getNat j "opt"
  match chunkList (List.range k) mn op with
  | .error e => pure (errJ e)
  | .ok cs => pure (jOk (Json.arr (cs.map natsJ).toArray))

def handleWf (j : Json) : Except String Json := do
  let n ← getNat j "n"
  let layer ← symLayer (← getIntList (← j.getObjVal? "layer"))
  pure (jOk (Json.bool (wfBlocks Sym.dim layer && layer.length == n)))

/-- {"op":"items","layer":[c,…]} → the qubit lists of the item-by-item form of the layer -/
def handleItems (j : Json) : Except String Json := do
  let layer ← symLayer (← getIntList (← j.getObjVal? "layer"))
  pure (jOk (Json.arr ((itemQubits Sym.dim layer 0).map natsJ).toArray))

def c01Handlers : List (String × (Json → Except String Json)) :=
  [("value", handleValue), ("plan", handlePlan), ("chunks", handleChunks), ("wf", handleWf),
   ("items", handleItems)]

end QG.Driver
