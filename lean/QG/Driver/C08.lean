import QG.Driver.Util
import QG.Model.Wiring
namespace QG.Driver
open Lean QG.Model.Wiring

def parOfJson : Par → Json
  | .T1 q => Json.str s!"T1[{q}]"
  | .T2 q => Json.str s!"T2[{q}]"
  | .p q => Json.str s!"p[{q}]"
  | .rout q => Json.str s!"rout[{q}]"
  | .tm q => Json.str s!"tm[{q}]"
  | .pint c t => Json.str s!"p_int[{c}][{t}]"
  | .tint c t => Json.str s!"t_int[{c}][{t}]"
  | .durDt d => Json.str s!"dur[{d}]"

def natList (j : Json) : Except String (List Nat) := do
  let a ← j.getArr?
  a.toList.mapM (·.getNat?)

def opOfJson (j : Json) : Except String (Op Int) := do
  let a ← j.getArr?
  match a.toList with
  | [n, q, th] =>
    let name ← n.getStr?
    match name with
    | "rz" => pure (.rz (← q.getNat?) (← th.getInt?))
    | "cx" => pure (.cx (← q.getNat?) (← th.getNat?))
    | "ecr" => pure (.ecr (← q.getNat?) (← th.getNat?))
    | "delay" => pure (.delay (← q.getNat?) (← th.getNat?))
    | "measure" => pure (.measure (← q.getNat?) (← th.getNat?))
    | _ => throw s!"bad op {name}"
  | [n, q] =>
    let name ← n.getStr?
    match name with
    | "sx" => pure (.sx (← q.getNat?))
    | "x" => pure (.x (← q.getNat?))
    | "barrier" => pure (.barrier (← natList q))
    | _ => throw s!"bad op {name}"
  | _ => throw "bad op shape"

def errJson : Err → Json
  | .index => jErr "IndexError"
  | .value => jErr "ValueError"
  | .assertion => jErr "AssertionError"

def callJson (c : GateCall Int) : Json :=
  Json.mkObj [("m", Json.str c.method), ("ph", Json.arr (c.phases.toArray.map fun p => Json.num (JsonNumber.fromInt p))),
    ("pars", Json.arr (c.pars.toArray.map parOfJson))]

def entryJson : Entry → Json
  | .one => Json.str "1"
  | .ident => Json.str "I"
  | .tok k => Json.num (JsonNumber.fromNat k)

def intsJson (l : List Int) : Json := Json.arr (l.toArray.map fun p => Json.num (JsonNumber.fromInt p))
def natsJson (l : List Nat) : Json := Json.arr (l.toArray.map fun p => Json.num (JsonNumber.fromNat p))

def gridJson (st : GridState Int) : Json :=
  Json.mkObj [("kind", Json.str "grid"), ("j", st.j), ("s", st.s), ("phi", intsJson st.phi),
    ("grid", Json.arr (st.grid.toArray.map fun r => Json.arr (r.toArray.map entryJson))),
    ("calls", Json.arr (st.calls.reverse.toArray.map callJson))]

def layerJson (st : LayerState Int) : Json :=
  Json.mkObj [("kind", Json.str "layered"), ("s", st.s), ("phi", intsJson st.phi),
    ("mp", Json.arr (st.mp.toArray.map entryJson)),
    ("mp_list", Json.arr (st.mpList.reverse.toArray.map fun r => Json.arr (r.toArray.map entryJson))),
    ("calls", Json.arr (st.calls.reverse.toArray.map callJson))]

/-- tokens of the index-based class: the ordinal of the item's call among all calls (every call made one item) -/
def binItemsJson (items : List (BinItem Int)) : Json :=
  let rec go : List (BinItem Int) → Nat → List Json
    | [], _ => []
    | it :: rest, k =>
      match it.gate with
      | some _ => Json.arr #[Json.num (JsonNumber.fromNat k), Json.num (JsonNumber.fromNat it.i),
          Json.num (JsonNumber.fromInt it.j)] :: go rest (k + 1)
      | none => Json.arr #[Json.str "I", Json.num (JsonNumber.fromNat it.i), Json.num (JsonNumber.fromInt it.j)] :: go rest k
  Json.arr (go items 0).toArray

def binJson (st : BinState Int) : Json :=
  Json.mkObj [("kind", Json.str "binary"), ("phi", intsJson st.phi),
    ("items", binItemsJson st.items.reverse),
    ("calls", Json.arr (st.calls.toArray.map callJson))]

def parOfString (s : String) : Except String Par :=
  -- tokens come back from the harness in the same spelling
  let body := s
  let nums := (body.splitOn "[").drop 1 |>.map fun x => (x.splitOn "]").head!.toNat!
  if s.startsWith "T1[" then pure (.T1 nums[0]!)
  else if s.startsWith "T2[" then pure (.T2 nums[0]!)
  else if s.startsWith "p[" then pure (.p nums[0]!)
  else if s.startsWith "rout[" then pure (.rout nums[0]!)
  else if s.startsWith "tm[" then pure (.tm nums[0]!)
  else if s.startsWith "p_int[" then pure (.pint nums[0]! nums[1]!)
  else if s.startsWith "t_int[" then pure (.tint nums[0]! nums[1]!)
  else if s.startsWith "dur[" then pure (.durDt nums[0]!)
  else throw s!"bad par {s}"

def parsOfJson (j : Json) : Except String (List Par) := do
  let a ← j.getArr?
  a.toList.mapM fun x => do parOfString (← x.getStr?)

/-- circuit-object method calls: ["Rz", i, theta] ["I", i] ["X", i, pars] ["SX", i, pars] ["CNOT", i, k, pars]
["ECR", i, k, pars] ["relaxation", i, pars] ["bitflip", i, pars] -/
def circCallOfJson (j : Json) : Except String (CircCall Int) := do
  let a ← j.getArr?
  match a.toList with
  | [n, i] => do
    let name ← n.getStr?
    if name == "I" then pure (.I (← i.getNat?)) else throw s!"bad call {name}"
  | [n, i, x] => do
    let name ← n.getStr?
    match name with
    | "Rz" => pure (.Rz (← i.getNat?) (← x.getInt?))
    | "X" => pure (.X (← i.getNat?) (← parsOfJson x))
    | "SX" => pure (.SX (← i.getNat?) (← parsOfJson x))
    | "relaxation" => pure (.relaxation (← i.getNat?) (← parsOfJson x))
    | "bitflip" => pure (.bitflip (← i.getNat?) (← parsOfJson x))
    | _ => throw s!"bad call {name}"
  | [n, i, k, x] => do
    let name ← n.getStr?
    match name with
    | "CNOT" => pure (.CNOT (← i.getNat?) (← k.getNat?) (← parsOfJson x))
    | "ECR" => pure (.ECR (← i.getNat?) (← k.getNat?) (← parsOfJson x))
    | _ => throw s!"bad call {name}"
  | _ => throw "bad call shape"

def circCallJson : CircCall Int → Json
  | .Rz i th => Json.arr #[Json.str "Rz", i, Json.num (JsonNumber.fromInt th)]
  | .I i => Json.arr #[Json.str "I", i]
  | .X i p => Json.arr #[Json.str "X", i, Json.arr (p.toArray.map parOfJson)]
  | .SX i p => Json.arr #[Json.str "SX", i, Json.arr (p.toArray.map parOfJson)]
  | .CNOT i k p => Json.arr #[Json.str "CNOT", i, k, Json.arr (p.toArray.map parOfJson)]
  | .ECR i k p => Json.arr #[Json.str "ECR", i, k, Json.arr (p.toArray.map parOfJson)]
  | .relaxation i p => Json.arr #[Json.str "relaxation", i, Json.arr (p.toArray.map parOfJson)]
  | .bitflip i p => Json.arr #[Json.str "bitflip", i, Json.arr (p.toArray.map parOfJson)]

/-- {"op":"run","cls":"binary"|"layered"|"grid","nqubit":n,"ops":[...]} : the whole pipeline of one shot -/
def handleRun (j : Json) : Except String Json := do
  let cls ← getStr j "cls"
  let n ← getNat j "nqubit"
  let ops ← (← getArr j "ops").toList.mapM opOfJson
  let lay := processLayout true ops
  let data := preprocess lay.used ops
  let depth := depthOf data
  let head : List (String × Json) := [("layout", natsJson lay.used),
    ("measured", Json.arr (lay.measured.toArray.map fun (q, c) => Json.arr #[q, c])), ("depth", depth)]
  if cls == "binary" then
    match callsBinary n lay.used data with
    | .error e => pure (errJson e)
    | .ok cs =>
      match foldE (BinState.step intPhase) (BinState.init intPhase n) cs with
      | .error e => pure (errJson e)
      | .ok st => pure (Json.mkObj (head ++ [("circ_calls", Json.arr (cs.toArray.map circCallJson)), ("state", binJson st)]))
  else
    let cs := callsLayered n data
    if cls == "grid" then
      match foldE (GridState.step intPhase) (GridState.init intPhase n depth) cs with
      | .error e => pure (errJson e)
      | .ok st => pure (Json.mkObj (head ++ [("circ_calls", Json.arr (cs.toArray.map circCallJson)), ("state", gridJson st)]))
    else
      match foldE (LayerState.step intPhase) (LayerState.init intPhase n) cs with
      | .error e => pure (errJson e)
      | .ok st => pure (Json.mkObj (head ++ [("circ_calls", Json.arr (cs.toArray.map circCallJson)), ("state", layerJson st)]))

/-- {"op":"steps","cls":..,"n":n,"depth":d,"script":[call | "reset" | "snap"]} : a build / evaluate / reset history
on one circuit object; answers the list of snapshots -/
def handleSteps (j : Json) : Except String Json := do
  let cls ← getStr j "cls"
  let n ← getNat j "n"
  let depth ← getNat j "depth"
  let script ← getArr j "script"
  if cls == "binary" then
    let mut st := BinState.init intPhase n
    let mut out : Array Json := #[]
    for s in script do
      match s.getStr? with
      | .ok "reset" => st := st.reset intPhase
      | .ok "snap" => out := out.push (binJson st)
      | _ =>
        let c ← circCallOfJson s
        match st.step intPhase c with
        | .error e => return Json.mkObj [("snaps", Json.arr out), ("raised", errJson e)]
        | .ok st' => st := st'
    pure (Json.mkObj [("snaps", Json.arr out)])
  else if cls == "grid" then
    let mut st := GridState.init intPhase n depth
    let mut out : Array Json := #[]
    for s in script do
      match s.getStr? with
      | .ok "reset" => st := st.reset intPhase
      | .ok "snap" => out := out.push (gridJson st)
      | _ =>
        let c ← circCallOfJson s
        match st.step intPhase c with
        | .error e => return Json.mkObj [("snaps", Json.arr out), ("raised", errJson e)]
        | .ok st' => st := st'
    pure (Json.mkObj [("snaps", Json.arr out)])
  else
    let mut st := LayerState.init intPhase n
    let mut out : Array Json := #[]
    for s in script do
      match s.getStr? with
      | .ok "reset" => st := st.reset intPhase
      | .ok "snap" => out := out.push (layerJson st)
      | _ =>
        let c ← circCallOfJson s
        match st.step intPhase c with
        | .error e => return Json.mkObj [("snaps", Json.arr out), ("raised", errJson e)]
        | .ok st' => st := st'
    pure (Json.mkObj [("snaps", Json.arr out)])

def c08Handlers : List (String × (Json → Except String Json)) := [("run", handleRun), ("steps", handleSteps)]

end QG.Driver
