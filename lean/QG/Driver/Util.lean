import Lean.Data.Json
/-! JSON helpers for the line-protocol driver (no Mathlib). -/
namespace QG.Driver
open Lean

def bitsOfString (s : String) : Option (List Bool) :=
  s.toList.mapM fun c => if c == '0' then some false else if c == '1' then some true else none

def stringOfBits (l : List Bool) : String := String.ofList (l.map fun b => if b then '1' else '0')

def getNat (j : Json) (k : String) : Except String Nat := do
  let v ← j.getObjVal? k
  v.getNat?

def getInt (j : Json) (k : String) : Except String Int := do
  let v ← j.getObjVal? k
  v.getInt?

def getStr (j : Json) (k : String) : Except String String := do
  let v ← j.getObjVal? k
  v.getStr?

def getArr (j : Json) (k : String) : Except String (Array Json) := do
  let v ← j.getObjVal? k
  v.getArr?

def jErr (e : String) : Json := Json.mkObj [("err", Json.str e)]
def jOk (v : Json) : Json := Json.mkObj [("ok", v)]

end QG.Driver
