import QG.Driver.Util
import QG.Model.PulseValidate
/-! Line-protocol handlers for C13 (no Mathlib).  The model `QG.Model.PulseValidate` is run on core Lean's exact
rationals.  Waveform / parametrisation callables are given as piecewise polynomials with rational coefficients,
so that point values and the integral oracle handed to the model are exact:

  PW = {"breaks": ["3/10", ...], "polys": [["1", "2/3", ...], ...]}      (len polys = len breaks + 1,
        coefficients in ascending degree; piece i applies on [breaks[i-1], breaks[i]) — right-continuous)

This evaluator / integrator is test infrastructure of the correspondence, not part of the model. -/
namespace QG.Driver
open Lean QG.Model.PulseValidate

def parseRat (s : String) : Except String Rat :=
  match s.splitOn "/" with
  | [a] => match a.toInt? with
    | some n => pure (n : Rat)
    | none => throw s!"bad rational {s}"
  | [a, b] => match a.toInt?, b.toNat? with
    | some n, some d => if d = 0 then throw s!"zero denominator {s}" else pure (mkRat n d)
    | _, _ => throw s!"bad rational {s}"
  | _ => throw s!"bad rational {s}"

def showRat (q : Rat) : String := if q.den = 1 then s!"{q.num}" else s!"{q.num}/{q.den}"

def getRat (j : Json) (k : String) : Except String Rat := do parseRat (← getStr j k)

def ratList (a : Array Json) : Except String (List Rat) :=
  a.toList.mapM fun v => do parseRat (← v.getStr?)

structure PW where
  breaks : List Rat
  polys : List (List Rat)

def getPW (j : Json) (k : String) : Except String PW := do
  let o ← j.getObjVal? k
  let bs ← ratList (← getArr o "breaks")
  let ps ← (← getArr o "polys").toList.mapM fun p => do ratList (← p.getArr?)
  if ps.length ≠ bs.length + 1 then throw "PW: len polys ≠ len breaks + 1"
  pure ⟨bs, ps⟩

/-- Horner evaluation, coefficients in ascending degree -/
def polyEval (c : List Rat) (x : Rat) : Rat := c.foldr (fun a acc => a + x * acc) 0

/-- antiderivative vanishing at 0 -/
def polyAnti (c : List Rat) : List Rat :=
  0 :: (c.zipIdx.map fun (a, i) => a / ((i + 1 : Nat) : Rat))

def PW.eval (p : PW) (x : Rat) : Rat :=
  let i := (p.breaks.filter fun b => b ≤ x).length
  polyEval (p.polys.getD i []) x

/-- exact `∫_a^b` of a piecewise polynomial for `a ≤ b` (and minus the reversed integral otherwise) -/
def PW.integ (p : PW) (a b : Rat) : Rat :=
  if b < a then - go b a else go a b
where
  go (a b : Rat) : Rat := Id.run do
    let m := p.polys.length
    let mut s : Rat := 0
    for i in [0:m] do
      let l := if i = 0 then a else max a (p.breaks.getD (i - 1) 0)
      let h := if i + 1 = m then b else min b (p.breaks.getD i 0)
      if l < h then
        let A := polyAnti (p.polys.getD i [])
        s := s + (polyEval A h - polyEval A l)
    return s

def errJson (cls msg : String) : Json := Json.mkObj [("err", Json.str cls), ("msg", Json.str msg)]

/-- {"op":"pulse_init","checks":bool,"eps":"1/1000000","mono_tol":"0","n":10,"f":PW,"F":PW} -/
def handlePulseInit (j : Json) : Except String Json := do
  let checks ← (← j.getObjVal? "checks").getBool?
  let eps ← getRat j "eps"
  let tol ← getRat j "mono_tol"
  let n ← getNat j "n"
  let f ← getPW j "f"
  let F ← getPW j "F"
  match constructRat checks eps tol n f.integ f.eval F.eval with
  | .ok () => pure (jOk Json.null)
  | .error .pulseNotValid => pure (errJson "AssertionError" "Pulse was not valid")
  | .error .paramNotValid => pure (errJson "AssertionError" "Parametrization was not valid")
  | .error .incompatible => pure (errJson "AssertionError" "Pulse and parametrization are incompatible. ")

/-- {"op":"gaussian_validate","type_checks":[bool,...],"denominator":"p/q"} -/
def handleGaussianValidate (j : Json) : Except String Json := do
  let ok ← (← getArr j "type_checks").toList.mapM fun v => v.getBool?
  let d ← getRat j "denominator"
  match gaussianValidateInputsRat ok d with
  | .ok () => pure (jOk Json.null)
  | .error .inputType => pure (errJson "AssertionError" "input type")
  | .error .denominatorZero => pure (errJson "AssertionError" "denominator")

/-- {"op":"linspace","a":"..","b":"..","n":N} -> the model's grid, as exact rationals -/
def handleLinspace (j : Json) : Except String Json := do
  let a ← getRat j "a"
  let b ← getRat j "b"
  let n ← getNat j "n"
  pure (jOk (Json.arr ((linspace a b n).toArray.map fun q => Json.str (showRat q))))

/-- {"op":"pw","f":PW,"xs":[..],"a":"..","b":".."} -> values and the exact integral (test of the test infrastructure) -/
def handlePW (j : Json) : Except String Json := do
  let f ← getPW j "f"
  let xs ← ratList (← getArr j "xs")
  let a ← getRat j "a"
  let b ← getRat j "b"
  pure (jOk (Json.mkObj [("values", Json.arr ((xs.map fun x => Json.str (showRat (f.eval x))).toArray)),
                         ("integral", Json.str (showRat (f.integ a b)))]))

def c13Handlers : List (String × (Json → Except String Json)) :=
  [("pulse_init", handlePulseInit), ("gaussian_validate", handleGaussianValidate),
   ("linspace", handleLinspace), ("pw", handlePW)]

end QG.Driver
