import Mathlib.Tactic
import Mathlib.Data.List.Perm.Basic
import Mathlib.Data.List.Range
import Mathlib.Algebra.BigOperators.Group.List.Basic
import QG.Model.Shots
import QG.Lemmas.Pool

/-! Helper lemmas for C09 (draw sources of the shots, accumulation of their results).  Property
theorems are in `QG/Props/C09.lean`. -/
namespace QG.Lemmas.Shots
open QG.Model.Pool QG.Model.Shots QG.Lemmas.Pool

/-! ### draw sources -/

theorem Src.Disjoint.symm {a b : Src} (h : a.Disjoint b) : b.Disjoint a :=
  fun s k hk => h s k ⟨hk.2, hk.1⟩

theorem disjoint_of_stream_ne {a b : Src} (h : a.stream ≠ b.stream) : a.Disjoint b := by
  rintro s k ⟨⟨h1, _, _⟩, ⟨h2, _, _⟩⟩
  exact h (h1.trans h2.symm)

theorem disjoint_of_le {a b : Src} (h : a.start + a.len ≤ b.start) : a.Disjoint b := by
  rintro s k ⟨⟨_, _, h1⟩, ⟨_, h2, _⟩⟩
  omega

theorem disjointB_iff (a b : Src) : a.disjointB b = true ↔ a.Disjoint b := by
  unfold Src.disjointB
  simp only [Bool.or_eq_true, bne_iff_ne, ne_eq, beq_iff_eq, decide_eq_true_eq]
  constructor
  · rintro ((((h | h) | h) | h) | h)
    · exact disjoint_of_stream_ne h
    · rintro s k ⟨⟨_, _, h1⟩, _⟩; omega
    · rintro s k ⟨_, ⟨_, _, h1⟩⟩; omega
    · exact disjoint_of_le h
    · exact Src.Disjoint.symm (disjoint_of_le h)
  · intro h
    by_contra hc
    push Not at hc
    obtain ⟨⟨⟨⟨h1, h2⟩, h3⟩, h4⟩, h5⟩ := hc
    exact h a.stream (max a.start b.start)
      ⟨⟨rfl, le_max_left _ _, by omega⟩, ⟨h1.symm, le_max_right _ _, by omega⟩⟩

theorem pairwiseDisjointB_iff (es : List Entry) :
    pairwiseDisjointB es = true ↔ es.Pairwise (fun a b => a.src.Disjoint b.src) := by
  induction es with
  | nil => simp [pairwiseDisjointB]
  | cons e es ih =>
    simp only [pairwiseDisjointB, Bool.and_eq_true, List.all_eq_true, disjointB_iff, ih,
      List.pairwise_cons]

/-- two sources that overlap: same stream, same start, both non-empty -/
theorem not_disjoint_of_same_start {a b : Src} (hs : a.stream = b.stream) (hp : a.start = b.start)
    (ha : 0 < a.len) (hb : 0 < b.len) : ¬ a.Disjoint b := by
  intro h
  exact h a.stream a.start ⟨⟨rfl, le_refl _, by omega⟩, ⟨hs.symm, by omega, by omega⟩⟩

/-! ### the argument list -/

theorem mkArgs_index (r p : Bool) (g : Gen) (S : Nat) :
    (mkArgs r p g S).1.map (·.index) = List.range S := by
  unfold mkArgs
  split <;> simp [List.map_map, Function.comp_def]

theorem mkArgs_length (r p : Bool) (g : Gen) (S : Nat) : (mkArgs r p g S).1.length = S := by
  have := congrArg List.length (mkArgs_index r p g S)
  simpa using this

theorem mkArgs_seeded (g : Gen) (S : Nat) :
    ∀ a ∈ (mkArgs true true g S).1, a.seed = some (.child g.pos a.index) := by
  intro a ha
  simp only [mkArgs, Bool.and_self, if_true, List.mem_map, List.mem_range] at ha
  obtain ⟨i, _, rfl⟩ := ha
  rfl

theorem mkArgs_unseeded (r p : Bool) (h : (r && p) = false) (g : Gen) (S : Nat) :
    ∀ a ∈ (mkArgs r p g S).1, a.seed = none := by
  intro a ha
  simp only [mkArgs, h, Bool.false_eq_true, if_false, List.mem_map, List.mem_range] at ha
  obtain ⟨i, _, rfl⟩ := ha
  rfl

theorem mkArgs_gen_unrepaired (r p : Bool) (h : (r && p) = false) (g : Gen) (S : Nat) :
    (mkArgs r p g S).2 = g := by
  simp [mkArgs, h]

/-- every argument of every batch is an argument -/
theorem mem_of_mem_chunks {α : Type} {cs : Nat} (hcs : 1 ≤ cs) {l : List α} {c : List α}
    (hc : c ∈ chunks cs l) {a : α} (ha : a ∈ c) : a ∈ l := by
  have : a ∈ (chunks cs l).flatten := List.mem_flatten.mpr ⟨c, hc, ha⟩
  rwa [chunks_flatten hcs l] at this

/-- chunking commutes with mapping (the batches of the argument list are the batches of the shot numbers) -/
theorem chunks_map {α β : Type} (f : α → β) {cs : Nat} (hcs : 1 ≤ cs) (l : List α) :
    chunks cs (l.map f) = (chunks cs l).map (List.map f) := by
  induction h : l.length using Nat.strong_induction_on generalizing l with
  | _ n ih =>
    by_cases hl : l = []
    · subst hl; simp [chunks_of_nil]
    · have hl' : l.map f ≠ [] := by simpa using hl
      have hpos : 0 < l.length := List.length_pos_of_ne_nil hl
      rw [chunks_of_ne_nil hcs hl, chunks_of_ne_nil hcs hl', List.map_cons, ← List.map_take,
        ← List.map_drop,
        ih (l.drop cs).length (by simp only [List.length_drop]; omega) (l.drop cs) rfl]

/-- number of batches `imap_unordered` cuts `S` shots into for the chunk size `cs` -/
def nBatches (cs S : Nat) : Nat := (chunks cs (List.range S)).length

theorem mkArgs_eq_map (r p : Bool) (g : Gen) (S : Nat) :
    ∃ mk : Nat → Arg, (∀ i, (mk i).index = i) ∧ (mkArgs r p g S).1 = (List.range S).map mk := by
  unfold mkArgs
  split
  · exact ⟨fun i => ⟨i, some (.child g.pos i)⟩, fun _ => rfl, rfl⟩
  · exact ⟨fun i => ⟨i, none⟩, fun _ => rfl, rfl⟩

theorem nBatches_eq (r p : Bool) (g : Gen) (S : Nat) {cs : Nat} (hcs : 1 ≤ cs) :
    (chunks cs (mkArgs r p g S).1).length = nBatches cs S := by
  obtain ⟨mk, _, h⟩ := mkArgs_eq_map r p g S
  rw [h, chunks_map mk hcs]
  simp [nBatches]

/-! ### one process running shots -/

theorem runShots_shots (len : Nat → Nat) (g : Gen) (task : List Arg) :
    (runShots len g task).1.map (·.1) = task.map (·.index) := by
  induction task generalizing g with
  | nil => simp [runShots]
  | cons a as ih => simp [runShots, ih]

/-- re-seeded shots: the source of a shot does not depend on the process's generator -/
theorem runShots_seeded (len : Nat → Nat) (σ : Nat → Stream) (g : Gen) (task : List Arg)
    (h : ∀ a ∈ task, a.seed = some (σ a.index)) :
    (runShots len g task).1 = task.map fun a => (a.index, (⟨σ a.index, 0, len a.index⟩ : Src)) := by
  induction task generalizing g with
  | nil => simp [runShots]
  | cons a as ih =>
    have ha := h a (by simp)
    have ih' := fun g' => ih g' (fun b hb => h b (by simp [hb]))
    simp [runShots, singleShot, ha, ih']

/-- shots that are not re-seeded: consecutive intervals of the process's stream -/
def seqSrcs (len : Nat → Nat) : Gen → List Nat → List (Nat × Src)
  | _, [] => []
  | g, i :: is => (i, ⟨g.stream, g.pos, len i⟩) :: seqSrcs len ⟨g.stream, g.pos + len i⟩ is

theorem runShots_unseeded (len : Nat → Nat) (g : Gen) (task : List Arg)
    (h : ∀ a ∈ task, a.seed = none) :
    (runShots len g task).1 = seqSrcs len g (task.map (·.index)) ∧
      (runShots len g task).2 = ⟨g.stream, g.pos + ((task.map (·.index)).map len).sum⟩ := by
  induction task generalizing g with
  | nil => simp [runShots, seqSrcs]
  | cons a as ih =>
    have ha := h a (by simp)
    obtain ⟨ih1, ih2⟩ := ih ⟨g.stream, g.pos + len a.index⟩ (fun b hb => h b (by simp [hb]))
    simp only [runShots, singleShot, ha, List.map_cons, seqSrcs, List.sum_cons, ih1, ih2]
    exact ⟨trivial, by simp [Nat.add_assoc]⟩

theorem seqSrcs_bounds (len : Nat → Nat) (g : Gen) (is : List Nat) :
    ∀ p ∈ seqSrcs len g is, p.2.stream = g.stream ∧ g.pos ≤ p.2.start ∧
      p.2.start + p.2.len ≤ g.pos + (is.map len).sum := by
  induction is generalizing g with
  | nil => simp [seqSrcs]
  | cons i is ih =>
    intro p hp
    simp only [seqSrcs, List.mem_cons] at hp
    rcases hp with rfl | hp
    · simp
    · have := ih ⟨g.stream, g.pos + len i⟩ p hp
      simp only [List.map_cons, List.sum_cons] at this ⊢
      obtain ⟨t1, t2, t3⟩ := this
      exact ⟨t1, by omega, by omega⟩

theorem seqSrcs_pairwise (len : Nat → Nat) (g : Gen) (is : List Nat) :
    (seqSrcs len g is).Pairwise (fun p q => p.2.Disjoint q.2) := by
  induction is generalizing g with
  | nil => simp [seqSrcs]
  | cons i is ih =>
    simp only [seqSrcs, List.pairwise_cons]
    refine ⟨?_, ih _⟩
    intro q hq
    have := seqSrcs_bounds len ⟨g.stream, g.pos + len i⟩ is q hq
    dsimp only at this
    exact disjoint_of_le (by dsimp only; omega)

/-- number of outputs consumed by the shots `0, …, i-1` -/
def cum (len : Nat → Nat) : Nat → Nat
  | 0 => 0
  | i + 1 => cum len i + len i

theorem cum_mono (len : Nat → Nat) {i j : Nat} (h : i < j) : cum len i + len i ≤ cum len j := by
  induction j with
  | zero => omega
  | succ j ih =>
    rcases Nat.lt_succ_iff_lt_or_eq.mp h with h | rfl
    · have := ih h
      simp only [cum]; omega
    · simp [cum]

theorem sum_map_range_eq_cum (len : Nat → Nat) (S : Nat) : ((List.range S).map len).sum = cum len S := by
  induction S with
  | zero => simp [cum]
  | succ S ih => simp [List.range_succ, ih, cum]

theorem seqSrcs_range' (len : Nat → Nat) (st : Stream) (p0 : Nat) (a n : Nat) :
    seqSrcs len ⟨st, p0 + cum len a⟩ (List.range' a n)
      = (List.range' a n).map fun i => (i, (⟨st, p0 + cum len i, len i⟩ : Src)) := by
  induction n generalizing a with
  | zero => simp [seqSrcs]
  | succ n ih =>
    have := ih (a + 1)
    simp only [cum, ← Nat.add_assoc] at this
    simp [List.range'_succ, seqSrcs, this]

theorem seqSrcs_range (len : Nat → Nat) (st : Stream) (p0 S : Nat) :
    seqSrcs len ⟨st, p0⟩ (List.range S)
      = (List.range S).map fun i => (i, (⟨st, p0 + cum len i, len i⟩ : Src)) := by
  have := seqSrcs_range' len st p0 0 S
  simpa [cum, List.range_eq_range'] using this

/-! ### relabelling generator outputs -/

/-- the positions of all streams a run draws from -/
def used (es : List Entry) : Set (Stream × Nat) := {x | ∃ e ∈ es, e.src.covers x.1 x.2}

/-- the `k`-th output of the stream of shot `i` ↦ the `k`-th output the sequential run gives shot `i` -/
def relabel (len : Nat → Nat) (p0 : Nat) : Stream × Nat → Stream × Nat
  | (.child _ i, k) => (.parent, p0 + cum len i + k)
  | x => x

theorem cum_inj (len : Nat → Nat) {i j k k' : Nat} (hk : k < len i) (hk' : k' < len j)
    (h : cum len i + k = cum len j + k') : i = j ∧ k = k' := by
  rcases Nat.lt_trichotomy i j with hij | rfl | hij
  · have := cum_mono len hij; omega
  · exact ⟨rfl, by omega⟩
  · have := cum_mono len hij; omega

/-! ### the pool at work -/

/-- the shots a schedule executes, whatever the generators are -/
theorem consume_shots (len : Nat → Nat) (tasks : List (List Arg)) (worker : List Nat) :
    ∀ (order : List Nat) (gens : Nat → Gen), (∀ c ∈ order, c < tasks.length ∧ c < worker.length) →
      (consume len tasks worker gens order).map (·.shot)
        = order.flatMap (fun c => ((tasks[c]?).getD []).map (·.index)) := by
  intro order
  induction order with
  | nil => intro _ _; simp [consume]
  | cons c rest ih =>
    intro gens hv
    obtain ⟨h1, h2⟩ := hv c (by simp)
    have ih' := fun gens' => ih gens' (fun k hk => hv k (by simp [hk]))
    have hrs := runShots_shots len (gens worker[c]) tasks[c]
    simp only [consume, List.getElem?_eq_getElem h1, List.getElem?_eq_getElem h2, List.map_append,
      List.map_map, Function.comp_def, ih', List.flatMap_cons, Option.getD_some]
    rw [← hrs]

/-- every executed shot consumes its own number of outputs -/
theorem runShots_len (len : Nat → Nat) (g : Gen) (task : List Arg) :
    ∀ p ∈ (runShots len g task).1, p.2.len = len p.1 := by
  induction task generalizing g with
  | nil => simp [runShots]
  | cons a as ih =>
    intro p hp
    simp only [runShots, List.mem_cons] at hp
    rcases hp with rfl | hp
    · simp [singleShot]
    · exact ih _ p hp

theorem consume_len (len : Nat → Nat) (tasks : List (List Arg)) (worker : List Nat) :
    ∀ (order : List Nat) (gens : Nat → Gen),
      ∀ e ∈ consume len tasks worker gens order, e.src.len = len e.shot := by
  intro order
  induction order with
  | nil => intro _ e he; simp [consume] at he
  | cons c rest ih =>
    intro gens e he
    simp only [consume] at he
    split at he
    · rcases List.mem_append.mp he with he | he
      · obtain ⟨p, hp, rfl⟩ := List.mem_map.mp he
        exact runShots_len len _ _ p hp
      · exact ih _ e he
    · exact ih _ e he

/-- every executed shot ran on the worker the schedule names -/
theorem consume_workers (len : Nat → Nat) (tasks : List (List Arg)) (worker : List Nat) :
    ∀ (order : List Nat) (gens : Nat → Gen),
      ∀ e ∈ consume len tasks worker gens order, e.worker ∈ worker := by
  intro order
  induction order with
  | nil => intro _ e he; simp [consume] at he
  | cons c rest ih =>
    intro gens e he
    simp only [consume] at he
    split at he
    · rename_i task w ht hw
      rcases List.mem_append.mp he with he | he
      · obtain ⟨p, _, rfl⟩ := List.mem_map.mp he
        exact List.mem_of_getElem? hw
      · exact ih _ e he
    · exact ih _ e he

/-- re-seeded shots: the whole run is determined by the schedule's batches, not by any generator -/
theorem consume_seeded (len : Nat → Nat) (σ : Nat → Stream) (tasks : List (List Arg)) (worker : List Nat)
    (hseed : ∀ task ∈ tasks, ∀ a ∈ task, a.seed = some (σ a.index)) :
    ∀ (order : List Nat) (gens : Nat → Gen), (∀ c ∈ order, c < tasks.length ∧ c < worker.length) →
      consume len tasks worker gens order
        = order.flatMap (fun c => ((tasks[c]?).getD []).map fun a =>
            (⟨a.index, (worker[c]?).getD 0, ⟨σ a.index, 0, len a.index⟩⟩ : Entry)) := by
  intro order
  induction order with
  | nil => intro _ _; simp [consume]
  | cons c rest ih =>
    intro gens hv
    obtain ⟨h1, h2⟩ := hv c (by simp)
    have ih' := fun gens' => ih gens' (fun k hk => hv k (by simp [hk]))
    have hrs := runShots_seeded len σ (gens worker[c]) tasks[c] (hseed _ (List.getElem_mem h1))
    simp only [consume, List.getElem?_eq_getElem h1, List.getElem?_eq_getElem h2, hrs, ih',
      List.flatMap_cons, Option.getD_some, List.map_map, Function.comp_def]

/-- shots that are not re-seeded: the first shot a worker runs starts where the worker's generator
stood when the pool was created -/
theorem consume_first_of_worker (len : Nat → Nat) (tasks : List (List Arg)) (worker : List Nat)
    (hne : ∀ task ∈ tasks, task ≠ []) (hseed : ∀ task ∈ tasks, ∀ a ∈ task, a.seed = none) (w : Nat) :
    ∀ (order : List Nat) (gens : Nat → Gen), (∀ c ∈ order, c < tasks.length ∧ c < worker.length) →
      (∃ c ∈ order, worker[c]? = some w) →
      ∃ e ∈ consume len tasks worker gens order,
        e.worker = w ∧ e.src.stream = (gens w).stream ∧ e.src.start = (gens w).pos := by
  intro order
  induction order with
  | nil => intro _ _ h; simp at h
  | cons c rest ih =>
    intro gens hv hex
    obtain ⟨h1, h2⟩ := hv c (by simp)
    have hv' : ∀ k ∈ rest, k < tasks.length ∧ k < worker.length := fun k hk => hv k (by simp [hk])
    simp only [consume, List.getElem?_eq_getElem h1, List.getElem?_eq_getElem h2]
    by_cases hw : worker[c] = w
    · -- the first batch runs on `w`: its first shot
      have htne := hne _ (List.getElem_mem h1)
      obtain ⟨a, as, hta⟩ := List.exists_cons_of_ne_nil htne
      have hsa : a.seed = none := hseed _ (List.getElem_mem h1) a (by rw [hta]; simp)
      refine ⟨⟨a.index, w, ⟨(gens w).stream, (gens w).pos, len a.index⟩⟩, ?_, rfl, rfl, rfl⟩
      apply List.mem_append_left
      rw [hta, hw]
      simp [runShots, singleShot, hsa]
    · -- another worker's batch: `w`'s generator is untouched
      have hex' : ∃ c' ∈ rest, worker[c']? = some w := by
        obtain ⟨c', hc', hwc'⟩ := hex
        rcases List.mem_cons.mp hc' with rfl | hc'
        · rw [List.getElem?_eq_getElem h2] at hwc'
          exact absurd (Option.some.inj hwc') hw
        · exact ⟨c', hc', hwc'⟩
      obtain ⟨e, he, h3, h4, h5⟩ :=
        ih (fun v => if v = worker[c] then (runShots len (gens worker[c]) tasks[c]).2 else gens v) hv' hex'
      have hne' : ¬ w = worker[c] := fun h => hw h.symm
      simp only [hne', if_false] at h4 h5
      exact ⟨e, List.mem_append_right _ he, h3, h4, h5⟩

/-- shots that are not re-seeded, workers on pairwise different streams (`spawn`): every worker
walks along its own stream, so all draw sources are pairwise disjoint -/
theorem consume_unseeded_disjoint (len : Nat → Nat) (tasks : List (List Arg)) (worker : List Nat)
    (hseed : ∀ task ∈ tasks, ∀ a ∈ task, a.seed = none) :
    ∀ (order : List Nat) (gens : Nat → Gen),
      (∀ v w, v ≠ w → (gens v).stream ≠ (gens w).stream) →
      (consume len tasks worker gens order).Pairwise (fun a b => a.src.Disjoint b.src) ∧
      ∀ e ∈ consume len tasks worker gens order,
        e.src.stream = (gens e.worker).stream ∧ (gens e.worker).pos ≤ e.src.start := by
  intro order
  induction order with
  | nil => intro _ _; simp [consume]
  | cons c rest ih =>
    intro gens hinj
    simp only [consume]
    split
    · rename_i task w ht hw
      have hmem : task ∈ tasks := List.mem_of_getElem? ht
      obtain ⟨hr1, hr2⟩ := runShots_unseeded len (gens w) task (hseed _ hmem)
      set g' := (runShots len (gens w) task).2 with hg'
      set gens' : Nat → Gen := fun v => if v = w then g' else gens v with hgens'
      have hinj' : ∀ v u, v ≠ u → (gens' v).stream ≠ (gens' u).stream := by
        intro v u hvu
        simp only [hgens']
        by_cases h1 : v = w <;> by_cases h2 : u = w
        · exact absurd (h1.trans h2.symm) hvu
        · simp only [h1, h2, if_true, if_false, hr2]; exact hinj w u (fun h => h2 h.symm)
        · simp only [h1, h2, if_true, if_false, hr2]; exact hinj v w h1
        · simp only [h1, h2, if_false]; exact hinj v u hvu
      obtain ⟨ih1, ih2⟩ := ih gens' hinj'
      have hbound := seqSrcs_bounds len (gens w) (task.map (·.index))
      have hfirst : ∀ e ∈ (runShots len (gens w) task).1.map (fun p => (⟨p.1, w, p.2⟩ : Entry)),
          e.worker = w ∧ e.src.stream = (gens w).stream ∧ (gens w).pos ≤ e.src.start ∧
            e.src.start + e.src.len ≤ g'.pos := by
        intro e he
        obtain ⟨p, hp, rfl⟩ := List.mem_map.mp he
        rw [hr1] at hp
        obtain ⟨b1, b2, b3⟩ := hbound p hp
        refine ⟨rfl, b1, b2, ?_⟩
        rw [hr2]; exact b3
      refine ⟨?_, ?_⟩
      · rw [List.pairwise_append]
        refine ⟨?_, ih1, ?_⟩
        · rw [List.pairwise_map, hr1]
          exact seqSrcs_pairwise len (gens w) _
        · intro a ha b hb
          obtain ⟨a1, a2, _, a4⟩ := hfirst a ha
          obtain ⟨b1, b2⟩ := ih2 b hb
          by_cases hbw : b.worker = w
          · simp only [hgens', hbw, if_true] at b2
            exact disjoint_of_le (le_trans a4 b2)
          · simp only [hgens', hbw, if_false] at b1
            apply disjoint_of_stream_ne
            rw [a2, b1]
            exact hinj w b.worker (fun h => hbw h.symm)
      · intro e he
        rcases List.mem_append.mp he with he | he
        · obtain ⟨a1, a2, a3, _⟩ := hfirst e he
          rw [a1]; exact ⟨a2, a3⟩
        · obtain ⟨b1, b2⟩ := ih2 e he
          by_cases hbw : e.worker = w
          · simp only [hgens', hbw, if_true] at b1 b2
            rw [hbw]
            rw [hr2] at b1 b2
            exact ⟨b1, by simp only at b2; omega⟩
          · simp only [hgens', hbw, if_false] at b1 b2
            exact ⟨b1, b2⟩
    · exact ih gens hinj

/-! ### accumulation -/

/-- the arithmetic of a field, with an arbitrary test for `x > 0` -/
def fieldNum (K : Type) [Field K] (pos : K → Bool) : Num K :=
  ⟨0, (· + ·), (· / ·), fun n => (n : K), pos⟩

variable {K : Type} [Field K]

theorem addVec_right_comm (pos : K → Bool) (a b c : List K) :
    addVec (fieldNum K pos) (addVec (fieldNum K pos) a b) c
      = addVec (fieldNum K pos) (addVec (fieldNum K pos) a c) b := by
  unfold addVec fieldNum
  induction a generalizing b c with
  | nil => simp
  | cons x xs ih =>
    cases b with
    | nil => cases c <;> simp
    | cons y ys =>
      cases c with
      | nil => simp
      | cons z zs =>
        simp only [List.zipWith_cons_cons, List.cons.injEq]
        exact ⟨by ring, ih ys zs⟩

/-- the accumulated sum does not depend on the order in which the results arrive -/
theorem accumulate_perm (pos : K → Bool) (d : Nat) {l l' : List (List K)} (h : l.Perm l') :
    accumulate (fieldNum K pos) d l = accumulate (fieldNum K pos) d l' := by
  unfold accumulate
  have : RightCommutative (addVec (fieldNum K pos)) := ⟨addVec_right_comm pos⟩
  exact h.foldl_eq _

theorem foldl_addVec_spec (pos : K → Bool) (d : Nat) (rs : List (List K)) (acc : List K)
    (hacc : acc.length = d) (hlen : ∀ r ∈ rs, r.length = d) :
    rs.foldl (addVec (fieldNum K pos)) acc
      = (List.range d).map fun e => acc.getD e 0 + (rs.map fun r => r.getD e 0).sum := by
  induction rs generalizing acc with
  | nil =>
    simp only [List.foldl_nil, List.map_nil, List.sum_nil, add_zero]
    apply List.ext_getElem
    · simp [hacc]
    · intro i h1 h2
      simp [List.getD_eq_getElem?_getD, h1]
  | cons r rs ih =>
    have hr := hlen r (by simp)
    have hl : (addVec (fieldNum K pos) acc r).length = d := by
      simp [addVec, hacc, hr]
    rw [List.foldl_cons, ih _ hl (fun x hx => hlen x (by simp [hx]))]
    apply List.map_congr_left
    intro e he
    have he' : e < d := List.mem_range.mp he
    have h1 : e < acc.length := by omega
    have h2 : e < r.length := by omega
    have h3 : (List.zipWith (fun x1 x2 : K => x1 + x2) acc r)[e]? = some (acc[e] + r[e]) := by
      simp [List.getElem?_zipWith, List.getElem?_eq_getElem h1, List.getElem?_eq_getElem h2]
    simp only [List.map_cons, List.sum_cons, addVec, List.getD_eq_getElem?_getD,
      List.getElem?_eq_getElem h1, List.getElem?_eq_getElem h2, h3,
      Option.getD_some, fieldNum]
    ring

/-- entry `e` of `r_sum` is the sum of the entries `e` of all shot results -/
theorem accumulate_spec (pos : K → Bool) (d : Nat) (rs : List (List K)) (hlen : ∀ r ∈ rs, r.length = d) :
    accumulate (fieldNum K pos) d rs = (List.range d).map fun e => (rs.map fun r => r.getD e 0).sum := by
  unfold accumulate
  rw [foldl_addVec_spec pos d rs _ (by simp) hlen]
  apply List.map_congr_left
  intro e he
  have he' : e < d := List.mem_range.mp he
  simp [fieldNum, List.getD_eq_getElem?_getD, he']

theorem foldl_add_eq_sum (l : List K) (a : K) : l.foldl (· + ·) a = a + l.sum := by
  induction l generalizing a with
  | nil => simp
  | cons x xs ih => simp [ih, add_assoc]

end QG.Lemmas.Shots
