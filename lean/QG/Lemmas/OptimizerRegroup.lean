import Mathlib.Tactic
import QG.Spec.GateAlgebra
/-!
Helper lemmas for C02: level 4 of the optimizer (regrouping the trailing one-qubit gates per qubit).
-/
namespace QG.Lemmas.Optimizer
open QG.Model.Optimizer QG.Spec QG.Spec.GateAlgebra

variable {M2 M4 Op : Type} [Monoid Op] {ops : MatOps M2 M4} {n : Nat}

section
variable (S : GateAlgebra ops n Op)

theorem mergeG1_sem (q : Nat) (hq : q < n) (l : List (G1 M2)) (hl : ∀ g ∈ l, g.q = q) (acc : M2) :
    S.e1 (mergeG1 ops l acc) q = S.sem (l.map (G1.item (M4 := M4))) * S.e1 acc q := by
  induction l generalizing acc with
  | nil => simp [mergeG1]
  | cons g rest ih =>
    have hg : g.q = q := hl g (by simp)
    have := ih (fun x hx => hl x (List.mem_cons_of_mem _ hx)) (ops.mul2 g.m acc)
    simp [mergeG1, this, S.e1_mul _ _ _ hq, hg, mul_assoc]

/-- a one-qubit gate on `a` commutes with a run of one-qubit gates on `q ≠ a` -/
theorem comm_run (A : M2) (a q : Nat) (ha : a < n) (hq : q < n) (haq : a ≠ q) (l : List (G1 M2))
    (hl : ∀ g ∈ l, g.q = q) :
    S.e1 A a * S.sem (l.map (G1.item (M4 := M4))) = S.sem (l.map (G1.item (M4 := M4))) * S.e1 A a := by
  induction l with
  | nil => simp
  | cons g rest ih =>
    have hg : g.q = q := hl g (by simp)
    have ih' := ih (fun x hx => hl x (List.mem_cons_of_mem _ hx))
    simp only [List.map_cons, sem_cons, item_G1, hg]
    rw [← mul_assoc, ih', mul_assoc, S.comm11 _ _ _ _ ha hq haq, mul_assoc]

/-- stable partition of a list of one-qubit gates by "acts on `q`": the gates on `q` may be moved to the front -/
theorem sem_partition (q : Nat) (hq : q < n) (lp : List (G1 M2)) (hlp : ∀ g ∈ lp, g.q < n) :
    S.sem (lp.map (G1.item (M4 := M4))) =
      S.sem ((lp.filter (fun g => !(g.q == q))).map (G1.item (M4 := M4))) *
        S.sem ((lp.filter (fun g => g.q == q)).map (G1.item (M4 := M4))) := by
  induction lp with
  | nil => simp
  | cons g rest ih =>
    have ih' := ih (fun x hx => hlp x (List.mem_cons_of_mem _ hx))
    have hgn : g.q < n := hlp g (by simp)
    by_cases hg : g.q = q
    · simp [hg, ih', mul_assoc]
    · have hb : (g.q == q) = false := by simpa using hg
      simp only [List.filter_cons, hb, Bool.not_false, if_true, List.map_cons, sem_cons, item_G1,
        Bool.false_eq_true, if_false]
      rw [ih', mul_assoc, mul_assoc,
        ← comm_run S g.m g.q q hgn hq hg (rest.filter (fun g => g.q == q)) (by
          intro x hx; simpa using (List.mem_filter.mp hx).2)]

theorem groupItem_spec (q : Nat) (sel : List (G1 M2)) (hselq : ∀ g ∈ sel, g.q = q)
    (hseln : ∀ g ∈ sel, g.q < n) :
    S.sem (groupItem ops q sel) = S.sem (sel.map (G1.item (M4 := M4))) ∧
      (groupItem ops q sel : List (Item M2 M4)).length ≤ sel.length ∧ WFList n (groupItem ops q sel) := by
  unfold groupItem
  match sel, hselq, hseln with
  | [], _, _ => simp [WFList.nil]
  | [g], hselq, hseln =>
    have hg : g.q = q := hselq g (by simp)
    have hq : q < n := hg ▸ hseln g (by simp)
    simp only [List.length_singleton, gt_iff_lt, lt_self_iff_false, if_false]
    exact ⟨by simp [hg], by simp, WFList.cons hq WFList.nil⟩
  | g :: g' :: r, hselq, hseln =>
    have hg : g.q = q := hselq g (by simp)
    have hq : q < n := hg ▸ hseln g (by simp)
    have hl : (g :: g' :: r).length > 1 := by simp
    simp only [hl, if_true]
    refine ⟨?_, by simp, WFList.cons hq WFList.nil⟩
    rw [sem_singleton, item_one, mergeG1_sem S q hq _ hselq, S.e1_one _ hq, mul_one]

theorem regroup_spec (qs : List Nat) (lp : List (G1 M2)) (hqs : ∀ g ∈ lp, g.q ∈ qs)
    (hlp : ∀ g ∈ lp, g.q < n) :
    S.sem (regroup ops qs lp) = S.sem (lp.map (G1.item (M4 := M4))) ∧
      (regroup ops qs lp : List (Item M2 M4)).length ≤ lp.length ∧ WFList n (regroup ops qs lp) := by
  induction qs generalizing lp with
  | nil =>
    have : lp = [] := by
      cases lp with
      | nil => rfl
      | cons g rest => exact absurd (hqs g (by simp)) (by simp)
    subst this
    simp [regroup, WFList.nil]
  | cons q qs ih =>
    unfold regroup
    split_ifs with h1 h2
    · -- len(last_part) > 1
      have hselq : ∀ g ∈ lp.filter (fun g => g.q == q), g.q = q := by
        intro g hg; simpa using (List.mem_filter.mp hg).2
      have hseln : ∀ g ∈ lp.filter (fun g => g.q == q), g.q < n :=
        fun g hg => hlp g (List.mem_filter.mp hg).1
      have hrestq : ∀ g ∈ lp.filter (fun g => !(g.q == q)), g.q ∈ qs := by
        intro g hg
        have hm := List.mem_filter.mp hg
        have : g.q ≠ q := by simpa using hm.2
        rcases List.mem_cons.mp (hqs g hm.1) with h | h
        · exact absurd h this
        · exact h
      have hrestn : ∀ g ∈ lp.filter (fun g => !(g.q == q)), g.q < n :=
        fun g hg => hlp g (List.mem_filter.mp hg).1
      obtain ⟨ih1, ih2, ih3⟩ := ih _ hrestq hrestn
      obtain ⟨hh1, hh2, hh3⟩ := groupItem_spec (ops := ops) S q _ hselq hseln
      have hlen : (lp.filter (fun g => g.q == q)).length + (lp.filter (fun g => !(g.q == q))).length
          = lp.length := by
        have := List.length_eq_length_filter_add (l := lp) (fun g => g.q == q)
        omega
      refine ⟨?_, ?_, hh3.append ih3⟩
      · rw [sem_append, hh1, ih1]
        by_cases hq : q < n
        · exact (sem_partition S q hq lp hlp).symm
        · -- no gate acts on `q`
          have hsel0 : lp.filter (fun g => g.q == q) = [] := by
            apply List.filter_eq_nil_iff.mpr
            intro g hg
            have hgq : g.q ≠ q := fun h => hq (h ▸ hlp g hg)
            simpa using hgq
          have hrest' : lp.filter (fun g => !(g.q == q)) = lp := by
            apply List.filter_eq_self.mpr
            intro g hg
            have hgq : g.q ≠ q := fun h => hq (h ▸ hlp g hg)
            simpa using hgq
          simp [hsel0, hrest']
      · rw [List.length_append]; omega
    · -- len(last_part) == 1
      refine ⟨rfl, by simp, ?_⟩
      intro x hx
      obtain ⟨g, hg, rfl⟩ := List.mem_map.mp hx
      exact hlp g hg
    · -- len(last_part) == 0
      have : lp = [] := by
        apply List.eq_nil_of_length_eq_zero; omega
      subst this
      simp [WFList.nil]

end

/-! ### the scans of level 4 -/

theorem allOnes_some (gl : List (Item M2 M4)) (lp : List (G1 M2)) (h : allOnes gl = some lp) :
    gl = lp.map G1.item := by
  induction gl generalizing lp with
  | nil => simp [allOnes] at h; subst h; rfl
  | cons x xs ih =>
    cases x with
    | two m a b => simp [allOnes] at h
    | one m q =>
      simp only [allOnes, Option.map_eq_some_iff] at h
      obtain ⟨l', hl', rfl⟩ := h
      simp [ih l' hl', G1.item]

theorem allOnes_none (gl : List (Item M2 M4)) (h : allOnes gl = none) : ∃ x ∈ gl, Item.isTwo x = true := by
  induction gl with
  | nil => simp [allOnes] at h
  | cons x xs ih =>
    cases x with
    | two m a b => exact ⟨Item.two m a b, by simp, rfl⟩
    | one m q =>
      simp only [allOnes, Option.map_eq_none_iff] at h
      obtain ⟨y, hy, hy'⟩ := ih h
      exact ⟨y, List.mem_cons_of_mem _ hy, hy'⟩

theorem leadingOnes_spec (l : List (Item M2 M4)) (h : ∃ x ∈ l, Item.isTwo x = true) :
    ∃ lo m a b more, leadingOnes l = .ok lo ∧ l = lo.map G1.item ++ Item.two m a b :: more := by
  induction l with
  | nil => simp at h
  | cons x xs ih =>
    cases x with
    | two m a b => exact ⟨[], m, a, b, xs, by simp [leadingOnes], by simp⟩
    | one m q =>
      have : ∃ x ∈ xs, Item.isTwo x = true := by
        obtain ⟨y, hy, hy'⟩ := h
        rcases List.mem_cons.mp hy with rfl | hy
        · simp [Item.isTwo] at hy'
        · exact ⟨y, hy, hy'⟩
      obtain ⟨lo, m', a, b, more, h1, h2⟩ := ih this
      exact ⟨⟨m, q⟩ :: lo, m', a, b, more, by simp [leadingOnes, h1], by simp [h2, G1.item]⟩

/-- level 4 never raises on a non-empty well-formed list (all qubits `< n ≤ nq`), preserves the
operator and the well-formedness and does not lengthen the list -/
theorem level4_spec (S : GateAlgebra ops n Op) (nq : Nat) (hnq : n ≤ nq) (gl : List (Item M2 M4))
    (hwf : WFList n gl) (hne : gl ≠ []) :
    ∃ out, level4 ops nq gl = .ok out ∧ S.sem out = S.sem gl ∧ out.length ≤ gl.length ∧ WFList n out := by
  have hrange : ∀ {lp : List (G1 M2)}, (∀ g ∈ lp, g.q < n) → ∀ g ∈ lp, g.q ∈ List.range nq := by
    intro lp h g hg
    exact List.mem_range.mpr (lt_of_lt_of_le (h g hg) hnq)
  unfold level4
  split
  · exact absurd rfl hne
  · split
    · -- there is a two-qubit gate
      rename_i hall
      obtain ⟨x, hx, hx'⟩ := allOnes_none gl hall
      obtain ⟨lo, m, a, b, more, h1, h2⟩ := leadingOnes_spec gl.reverse ⟨x, by simpa using hx, hx'⟩
      have hgl : gl = (more.reverse ++ [Item.two m a b]) ++ lo.reverse.map G1.item := by
        have := congrArg List.reverse h2
        simpa [List.map_reverse] using this
      simp only [h1]
      split_ifs with hl
      · have hlo : ∀ g ∈ lo.reverse, g.q < n := by
          intro g hg
          have : WFList n ((more.reverse ++ [Item.two m a b]) ++ lo.reverse.map G1.item) := hgl ▸ hwf
          exact this.right (G1.item g) (List.mem_map_of_mem hg)
        obtain ⟨r1, r2, r3⟩ := regroup_spec (ops := ops) (M4 := M4) S (List.range nq) lo.reverse (hrange hlo) hlo
        have htake : gl.take (gl.length - lo.length) = more.reverse ++ [Item.two m a b] := by
          conv_lhs => rw [hgl]
          have : ((more.reverse ++ [Item.two m a b]) ++ lo.reverse.map (G1.item (M4 := M4))).length - lo.length
              = (more.reverse ++ [Item.two m a b]).length := by
            simp; omega
          rw [this, List.take_left']
          rfl
        refine ⟨_, rfl, ?_, ?_, ?_⟩
        · rw [htake, sem_append, r1]
          conv_rhs => rw [hgl, sem_append]
        · rw [htake, List.length_append]
          conv_rhs => rw [hgl]
          simp only [List.length_append, List.length_map, List.length_reverse] at r2 ⊢
          omega
        · rw [htake]
          have : WFList n ((more.reverse ++ [Item.two m a b]) ++ lo.reverse.map G1.item) := hgl ▸ hwf
          exact this.left.append r3
      · exact ⟨gl, rfl, rfl, le_refl _, hwf⟩
    · -- only one-qubit gates
      rename_i lp hall
      have hgl := allOnes_some gl lp hall
      split_ifs with hl
      · have hlp : ∀ g ∈ lp, g.q < n := by
          intro g hg
          exact hwf (G1.item g) (by rw [hgl]; exact List.mem_map_of_mem hg)
        obtain ⟨r1, r2, r3⟩ := regroup_spec (ops := ops) (M4 := M4) S (List.range nq) lp (hrange hlp) hlp
        refine ⟨_, rfl, ?_, ?_, r3⟩
        · rw [r1, hgl]
        · rw [hgl, List.length_map]; exact r2
      · exact ⟨gl, rfl, rfl, le_refl _, hwf⟩

end QG.Lemmas.Optimizer
