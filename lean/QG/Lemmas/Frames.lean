import Mathlib.Tactic
import QG.Gen.Frames

/-!
Helper lemmas for C03: the six **frame identities** of the noise-free gate set, for all phases, over a generic
field in the frame variables of `QG/Gen/Frames.lean` (regenerated from `gates.py` on every run).

`rz u ub = diag(ub, u)` is `Rz(φ) = diag(e^{-iφ/2}, e^{iφ/2})` with `u = e^{iφ/2}`; a phase shift by `k·π/8` multiplies
`u` by `z^k`.  Standard gates: `X`, `SX = ½[[1+i, 1-i],[1-i, 1+i]]`, `CX` (control = slot 0 / slot 1),
`ECR = (1/√2)[[0,0,1,i],[0,0,i,1],[1,-i,0,0],[-i,1,0,0]]` (control = slot 0) and its mirror image, with `i = z⁴`,
`1/√2 = (z² + z⁻²)/2`.
-/
namespace QG.Lemmas.Frames
open QG.Gen.Frames Matrix

variable {K : Type} [Field K] [CharZero K]

def rz (u ub : K) : Matrix (Fin 2) (Fin 2) K := !![ub, 0; 0, u]

/-- `np.kron` of two diagonal 2x2 matrices -/
def rz2 (u ub v vb : K) : Matrix (Fin 4) (Fin 4) K :=
  !![ub * vb, 0, 0, 0; 0, ub * v, 0, 0; 0, 0, u * vb, 0; 0, 0, 0, u * v]

def stdX : Matrix (Fin 2) (Fin 2) K := !![0, 1; 1, 0]
def stdSX (z : K) : Matrix (Fin 2) (Fin 2) K :=
  !![(1 + z ^ 4) / 2, (1 - z ^ 4) / 2; (1 - z ^ 4) / 2, (1 + z ^ 4) / 2]
/-- CNOT, control = slot 0 -/
def stdCX : Matrix (Fin 4) (Fin 4) K := !![1, 0, 0, 0; 0, 1, 0, 0; 0, 0, 0, 1; 0, 0, 1, 0]
/-- CNOT, control = slot 1 -/
def stdCXr : Matrix (Fin 4) (Fin 4) K := !![1, 0, 0, 0; 0, 0, 0, 1; 0, 0, 1, 0; 0, 1, 0, 0]
/-- ECR, control = slot 0 -/
def stdECR (z zb : K) : Matrix (Fin 4) (Fin 4) K :=
  ((z ^ 2 + zb ^ 2) / 2) • !![0, 0, 1, z ^ 4; 0, 0, z ^ 4, 1; 1, -(z ^ 4), 0, 0; -(z ^ 4), 1, 0, 0]
/-- ECR, control = slot 1 -/
def stdECRr (z zb : K) : Matrix (Fin 4) (Fin 4) K :=
  ((z ^ 2 + zb ^ 2) / 2) • !![0, 1, 0, z ^ 4; 1, 0, -(z ^ 4), 0; 0, z ^ 4, 0, 1; -(z ^ 4), 0, 1, 0]

/-- the environment of a call with the phase arguments negated (`X(-phi)`) -/
def negEnv (e : Env K) : Env K := { e with u := e.ub, ub := e.u, v := e.vb, vb := e.v }

theorem negEnv_rel (e : Env K) (h : e.Rel) : (negEnv e).Rel := by
  obtain ⟨hu, hv, hz, hz8⟩ := h
  exact ⟨by simpa [negEnv, mul_comm] using hu, by simpa [negEnv, mul_comm] using hv, hz, hz8⟩

variable (e : Env K) (h : e.Rel)
include h

/-- `X · Rz(φ) = i · Rz(φ) · X_sim(−φ)` -/
theorem frame_X : stdX * rz e.u e.ub = (e.z ^ 4) • (rz e.u e.ub * X (negEnv e)) := by
  rw [X_closed _ (negEnv_rel e h)]
  obtain ⟨hu, hv, hz, hz8⟩ := h
  ext a b; fin_cases a <;> fin_cases b <;>
    simp [stdX, rz, X_closed_form, X_f0, negEnv, Matrix.mul_apply, Fin.sum_univ_two] <;> grind

/-- `SX · Rz(φ) = e^{iπ/4} · Rz(φ) · SX_sim(−φ)` -/
theorem frame_SX : stdSX e.z * rz e.u e.ub = (e.z ^ 2) • (rz e.u e.ub * SX (negEnv e)) := by
  rw [SX_closed _ (negEnv_rel e h)]
  obtain ⟨hu, hv, hz, hz8⟩ := h
  ext a b; fin_cases a <;> fin_cases b <;>
    simp [stdSX, rz, SX_closed_form, SX_f0, negEnv, Matrix.mul_apply, Fin.sum_univ_two] <;> grind

/-- forward CNOT: `CX · (Rz φc ⊗ Rz φt) = z¹⁰ · (Rz(φc − π/2) ⊗ Rz φt) · CNOT_sim(φc, φt)` -/
theorem frame_CNOT :
    stdCX * rz2 e.u e.ub e.v e.vb = (e.z ^ 10) • (rz2 (e.u * e.zb ^ 2) (e.ub * e.z ^ 2) e.v e.vb * CNOT e) := by
  rw [CNOT_closed e h]
  obtain ⟨hu, hv, hz, hz8⟩ := h
  ext a b; fin_cases a <;> fin_cases b <;>
    simp [stdCX, rz2, CNOT_closed_form, CNOT_c3, Matrix.mul_apply, Fin.sum_univ_four] <;> grind

/-- reversed CNOT (slots = (target, control), called with `(phi_ctr, phi_trg)`):
`CX_r · (Rz φt ⊗ Rz φc) = z¹⁴ · (Rz(φt + π/2) ⊗ Rz(φc + 3π/2)) · CNOT_inv_sim(φc, φt)` -/
theorem frame_CNOT_inv :
    stdCXr * rz2 e.v e.vb e.u e.ub
      = (e.z ^ 14) • (rz2 (e.v * e.z ^ 2) (e.vb * e.zb ^ 2) (e.u * e.z ^ 6) (e.ub * e.zb ^ 6) * CNOT_inv e) := by
  rw [CNOT_inv_closed e h]
  obtain ⟨hu, hv, hz, hz8⟩ := h
  ext a b; fin_cases a <;> fin_cases b <;>
    simp [stdCXr, rz2, CNOT_inv_closed_form, CNOT_inv_c4, Matrix.mul_apply, Fin.sum_univ_four] <;> grind

/-- forward ECR: no phase update, no scalar -/
theorem frame_ECR : stdECR e.z e.zb * rz2 e.u e.ub e.v e.vb = rz2 e.u e.ub e.v e.vb * ECR e := by
  rw [ECR_closed e h]
  obtain ⟨hu, hv, hz, hz8⟩ := h
  ext a b; fin_cases a <;> fin_cases b <;>
    simp [stdECR, rz2, ECR_closed_form, ECR_c2, Matrix.mul_apply, Fin.sum_univ_four] <;> grind

/-- reversed ECR (called with the phases in slot order) -/
theorem frame_ECR_inv : stdECRr e.z e.zb * rz2 e.u e.ub e.v e.vb = rz2 e.u e.ub e.v e.vb * ECR_inv e := by
  rw [ECR_inv_closed e h]
  obtain ⟨hu, hv, hz, hz8⟩ := h
  ext a b; fin_cases a <;> fin_cases b <;>
    simp [stdECRr, rz2, ECR_inv_closed_form, ECR_inv_c4, Matrix.mul_apply, Fin.sum_univ_four] <;> grind

end QG.Lemmas.Frames
