import Mathlib.Tactic
import QG.Spec.Register
import QG.Lemmas.BinaryBits
import QG.Lemmas.BinarySpec
/-!
Helper lemmas for C02 (index-based backend): one pass of `for item in mp_list_opt` applies the register
embedding of the item to the flat state vector.
-/
namespace QG.Lemmas.Binary
open QG.Model.Optimizer QG.Model.Binary QG.Spec QG.Spec.Register

variable {R : Type} [CommSemiring R]

theorem range4 : List.range 4 = [0, 1, 2, 3] := by decide
theorem range16 : List.range 16 = [0, 1, 2, 3, 4, 5, 6, 7, 8, 9, 10, 11, 12, 13, 14, 15] := by decide

theorem fmtBin2 (j : Nat) (hj : j < 4) : fmtBin 2 j = [j.testBit 1] ++ [j.testBit 0] := by
  rw [fmtBin_of_lt 2 j (by norm_num; exact hj)]
  simp [bitsBE, List.range_succ]

theorem fmtBin4 (j : Nat) (hj : j < 16) :
    fmtBin 4 j = [j.testBit 3, j.testBit 2] ++ [j.testBit 1, j.testBit 0] := by
  rw [fmtBin_of_lt 4 j (by norm_num; exact hj)]
  simp [bitsBE, List.range_succ]

theorem sum_zero_list {α : Type} (l : List α) : (l.map fun _ => (0 : R)).sum = 0 := by
  induction l with
  | nil => rfl
  | cons a l ih => simp

/-! ### from triplets to the new state -/

/-- if every pass of the inner loop yields the pure triplet `trip i j`, all indices are in range and the
row sums are the values of `φ`, then `create_sparse(...).dot(psi)` is the flat list of `φ` -/
theorem sparse_assemble (N : Nat) (item : Item (M2 R) (M4 R)) (qn qu : List Nat)
    (hlen : qn.length + qu.length = N) (trip : Nat → Nat → Nat × Nat × R)
    (htrip : ∀ i, i < 2 ^ qn.length → ∀ j, j < 2 ^ (2 * qu.length) →
      sparseTriplet (regEntries R) item qn qu N qn.length qu.length i j = .ok (trip i j))
    (hrange : ∀ i j, (trip i j).1 < 2 ^ N ∧ (trip i j).2.1 < 2 ^ N)
    (psi : List R) (hpsi : psi.length = 2 ^ N) (φ : State R N)
    (hsum : ∀ x0 : BV N, ((List.range (2 ^ qn.length)).map fun i => ((List.range (2 ^ (2 * qu.length))).map fun j =>
        if (trip i j).1 = idx x0 then (trip i j).2.2 * psi.getD (trip i j).2.1 0 else 0).sum).sum = φ x0) :
    (match createSparse (regEntries R) item qn qu N with
      | Except.error e => Except.error e
      | Except.ok T => spmv (semiringScalar R) (2 ^ N) T psi) = Except.ok (listOf φ) := by
  rw [createSparse_ok (regEntries R) item qn qu N hlen trip htrip]
  obtain ⟨out, h1, h2, h3⟩ := spmv_spec (2 ^ N)
    ((List.range (2 ^ qn.length)).map fun i => (List.range (2 ^ (2 * qu.length))).map (trip i)).flatten psi hpsi
    (by
      intro t ht
      obtain ⟨l, hl, htl⟩ := List.mem_flatten.mp ht
      obtain ⟨i, _, rfl⟩ := List.mem_map.mp hl
      obtain ⟨j, _, rfl⟩ := List.mem_map.mp htl
      exact hrange i j)
  simp only [h1]
  congr 1
  apply List.ext_getElem?
  intro r
  by_cases hr : r < 2 ^ N
  · rw [h3 r hr, listOf_getElem? _ _ hr, sum_map_flatten]
    congr 1
    rw [← hsum (bitsFn N r), idx_bitsFn N r hr, List.map_map]
    congr 1
    apply List.map_congr_left
    intro i _
    simp only [Function.comp, List.map_map]
    rfl
  · rw [List.getElem?_eq_none (by omega), List.getElem?_eq_none (by rw [listOf_length]; omega)]

/-! ### a one-qubit item, at least one idle qubit (`create_sparse`) -/

section one
variable (N q : Nat) (hq : q < N)

include hq in
theorem sparseTriplet_one (g : M2 R) (i : Nat) (hi : i < 2 ^ (N - 1)) (j : Nat) (hj : j < 4) :
    sparseTriplet (regEntries R) (Item.one g q) ((List.range N).erase q) [q] N (N - 1) 1 i j =
      .ok (idx (P N ((List.range N).erase q) (bitsBE (N - 1) i) [q] [j.testBit 1]),
           idx (P N ((List.range N).erase q) (bitsBE (N - 1) i) [q] [j.testBit 0]),
           g (j.testBit 1) (j.testBit 0)) := by
  have sp := split_one N q hq
  obtain ⟨s, h1, h2, h3, h4⟩ := joinStr_halves sp (bitsBE (N - 1) i) [j.testBit 1] [j.testBit 0]
    (bitsBE_length _ _) rfl rfl
  unfold sparseTriplet
  simp only [fmtBin_double (N - 1) i hi, Nat.mul_one, fmtBin2 j hj, h1, h2, h3]
  have e1 := (h4 q hq).1
  have e2 := (h4 q hq).2
  simp only [place, List.mem_singleton, if_true, List.idxOf_cons_self, List.getD_cons_zero] at e1 e2
  simp only [entryOf, getE_of_getElem? _ _ _ e1, getE_of_getElem? _ _ _ e2, regEntries]

theorem cond_one (u : List Bool) (hu : u.length = N - 1) (c : Bool) (x0 : BV N) :
    idx (P N ((List.range N).erase q) u [q] [c]) = idx x0 ↔
      u = ((List.range N).erase q).map (bitAt x0) ∧ c = x0 ⟨q, hq⟩ := by
  rw [idx_inj, P_eq_iff (split_one N q hq) u [c] hu rfl x0]
  simp [bitAt, hq]

theorem P_one_upd (d : Bool) (x0 : BV N) :
    P N ((List.range N).erase q) (((List.range N).erase q).map (bitAt x0)) [q] [d] = upd x0 ⟨q, hq⟩ d := by
  funext p
  rw [P_restrict (split_one N q hq)]
  by_cases hp : p.val = q
  · have : p = ⟨q, hq⟩ := Fin.ext hp
    subst this
    simp [upd_same]
  · have : p ≠ ⟨q, hq⟩ := fun h => hp (by rw [h])
    simp [hp, upd_other _ _ _ _ this]

theorem row_sum_one (g : M2 R) (ψ : State R N) (x0 : BV N) :
    ((List.range (2 ^ (N - 1))).map fun i => ((List.range 4).map fun j =>
        if idx (P N ((List.range N).erase q) (bitsBE (N - 1) i) [q] [j.testBit 1]) = idx x0
        then g (j.testBit 1) (j.testBit 0) * ψ (P N ((List.range N).erase q) (bitsBE (N - 1) i) [q] [j.testBit 0])
        else 0).sum).sum = E1 g ⟨q, hq⟩ ψ x0 := by
  obtain ⟨u0, hu0⟩ : ∃ u0, u0 = ((List.range N).erase q).map (bitAt x0) := ⟨_, rfl⟩
  obtain ⟨G, hG⟩ : ∃ G : R, G = ((List.range 4).map fun j =>
      if j.testBit 1 = x0 ⟨q, hq⟩ then g (x0 ⟨q, hq⟩) (j.testBit 0) * ψ (upd x0 ⟨q, hq⟩ (j.testBit 0)) else 0).sum :=
    ⟨_, rfl⟩
  have hinner : ∀ i, ((List.range 4).map fun j =>
        if idx (P N ((List.range N).erase q) (bitsBE (N - 1) i) [q] [j.testBit 1]) = idx x0
        then g (j.testBit 1) (j.testBit 0) * ψ (P N ((List.range N).erase q) (bitsBE (N - 1) i) [q] [j.testBit 0])
        else 0).sum = if bitsBE (N - 1) i = u0 then G else 0 := by
    intro i
    by_cases hc : bitsBE (N - 1) i = u0
    · rw [if_pos hc, hG]
      congr 1
      apply List.map_congr_left
      intro j _
      have hcond := cond_one N q hq (bitsBE (N - 1) i) (bitsBE_length _ _) (j.testBit 1) x0
      rw [← hu0] at hcond
      by_cases hj : j.testBit 1 = x0 ⟨q, hq⟩
      · rw [if_pos (hcond.mpr ⟨hc, hj⟩), if_pos hj, hj, hc, hu0, P_one_upd N q hq]
      · rw [if_neg (fun h => hj (hcond.mp h).2), if_neg hj]
    · rw [if_neg hc]
      have : ((List.range 4).map fun j =>
          if idx (P N ((List.range N).erase q) (bitsBE (N - 1) i) [q] [j.testBit 1]) = idx x0
          then g (j.testBit 1) (j.testBit 0) * ψ (P N ((List.range N).erase q) (bitsBE (N - 1) i) [q] [j.testBit 0])
          else 0) = (List.range 4).map fun _ => (0 : R) := by
        apply List.map_congr_left
        intro j _
        rw [if_neg]
        rw [cond_one N q hq _ (bitsBE_length _ _), ← hu0]
        exact fun h => hc h.1
      rw [this, sum_zero_list]
  simp only [hinner]
  rw [sum_bits_single (N - 1) u0 (by simp [hu0, (split_one N q hq).hqn]) G, hG, range4]
  simp only [E1, Fintype.sum_bool, List.map_cons, List.map_nil, List.sum_cons, List.sum_nil]
  cases hx : x0 ⟨q, hq⟩ <;> simp [Nat.testBit] <;> ring

/-- one pass of `for item in mp_list_opt` for a one-qubit item when at least one qubit is idle -/
theorem applyItem_one_sparse (hN : 2 ≤ N) (g : M2 R) (psi : List R) (hpsi : psi.length = 2 ^ N) :
    applyItem (semiringScalar R) (regEntries R) N psi (Item.one g q) =
      .ok (listOf (E1 g ⟨q, hq⟩ (vecOf psi))) := by
  have sp := split_one N q hq
  have hk : ((List.range N).erase q).length ≠ 0 := by rw [sp.hqn]; omega
  unfold applyItem
  simp only [removeE_range N q hq, hk, if_false]
  apply sparse_assemble N (Item.one g q) ((List.range N).erase q) [q] (by rw [sp.hqn]; simp; omega)
    (fun i j => (idx (P N ((List.range N).erase q) (bitsBE (N - 1) i) [q] [j.testBit 1]),
           idx (P N ((List.range N).erase q) (bitsBE (N - 1) i) [q] [j.testBit 0]),
           g (j.testBit 1) (j.testBit 0)))
  · intro i hi j hj
    rw [sp.hqn] at hi ⊢
    exact sparseTriplet_one N q hq g i hi j (by simpa using hj)
  · intro i j; exact ⟨idx_lt _, idx_lt _⟩
  · exact hpsi
  · intro x0
    rw [sp.hqn]
    exact row_sum_one N q hq g (vecOf psi) x0

end one

/-! ### a two-qubit item, at least one idle qubit (`create_sparse`) -/

section two
variable (N a b : Nat) (ha : a < N) (hb : b < N) (hab : a ≠ b)

include ha hb hab in
theorem sparseTriplet_two (g : M4 R) (i : Nat) (hi : i < 2 ^ (N - 2)) (j : Nat) (hj : j < 16) :
    sparseTriplet (regEntries R) (Item.two g a b) (((List.range N).erase a).erase b) [a, b] N (N - 2) 2 i j =
      .ok (idx (P N (((List.range N).erase a).erase b) (bitsBE (N - 2) i) [a, b] [j.testBit 3, j.testBit 2]),
           idx (P N (((List.range N).erase a).erase b) (bitsBE (N - 2) i) [a, b] [j.testBit 1, j.testBit 0]),
           g (j.testBit 3, j.testBit 2) (j.testBit 1, j.testBit 0)) := by
  have sp := split_two N a b ha hb hab
  obtain ⟨s, h1, h2, h3, h4⟩ := joinStr_halves sp (bitsBE (N - 2) i) [j.testBit 3, j.testBit 2]
    [j.testBit 1, j.testBit 0] (bitsBE_length _ _) rfl rfl
  unfold sparseTriplet
  simp only [fmtBin_double (N - 2) i hi, show 2 * 2 = 4 from rfl, fmtBin4 j hj, h1, h2, h3]
  have e1 := (h4 a ha).1
  have e2 := (h4 a ha).2
  have e3 := (h4 b hb).1
  have e4 := (h4 b hb).2
  have hba : b ≠ a := fun h => hab h.symm
  have hidx : List.idxOf b [a, b] = 1 := by
    rw [List.idxOf_cons_ne _ (by simpa using hab)]; simp
  simp only [place, List.mem_cons, true_or, or_true, List.not_mem_nil, or_false, if_true,
    List.idxOf_cons_self, List.getD_cons_zero, hidx, List.getD_cons_succ] at e1 e2 e3 e4
  simp only [entryOf, getE_of_getElem? _ _ _ e1, getE_of_getElem? _ _ _ e2, getE_of_getElem? _ _ _ e3,
    getE_of_getElem? _ _ _ e4, regEntries]

include hab in
theorem cond_two (u : List Bool) (hu : u.length = N - 2) (c1 c2 : Bool) (x0 : BV N) :
    idx (P N (((List.range N).erase a).erase b) u [a, b] [c1, c2]) = idx x0 ↔
      u = (((List.range N).erase a).erase b).map (bitAt x0) ∧ c1 = x0 ⟨a, ha⟩ ∧ c2 = x0 ⟨b, hb⟩ := by
  rw [idx_inj, P_eq_iff (split_two N a b ha hb hab) u [c1, c2] hu rfl x0]
  simp [bitAt, ha, hb]

include hab in
theorem P_two_upd (d1 d2 : Bool) (x0 : BV N) :
    P N (((List.range N).erase a).erase b) ((((List.range N).erase a).erase b).map (bitAt x0)) [a, b] [d1, d2] =
      upd (upd x0 ⟨a, ha⟩ d1) ⟨b, hb⟩ d2 := by
  funext p
  rw [P_restrict (split_two N a b ha hb hab)]
  by_cases hpb : p.val = b
  · have : p = ⟨b, hb⟩ := Fin.ext hpb
    subst this
    have hidx : List.idxOf b [a, b] = 1 := by
      rw [List.idxOf_cons_ne _ (by simpa using hab)]; simp
    simp [upd_same, hidx]
  · have hpb' : p ≠ ⟨b, hb⟩ := fun h => hpb (by rw [h])
    rw [upd_other _ _ _ _ hpb']
    by_cases hpa : p.val = a
    · have : p = ⟨a, ha⟩ := Fin.ext hpa
      subst this
      simp [upd_same]
    · have hpa' : p ≠ ⟨a, ha⟩ := fun h => hpa (by rw [h])
      simp [hpa, hpb, upd_other _ _ _ _ hpa']

include hab in
theorem row_sum_two (g : M4 R) (ψ : State R N) (x0 : BV N) :
    ((List.range (2 ^ (N - 2))).map fun i => ((List.range 16).map fun j =>
        if idx (P N (((List.range N).erase a).erase b) (bitsBE (N - 2) i) [a, b] [j.testBit 3, j.testBit 2]) = idx x0
        then g (j.testBit 3, j.testBit 2) (j.testBit 1, j.testBit 0) *
          ψ (P N (((List.range N).erase a).erase b) (bitsBE (N - 2) i) [a, b] [j.testBit 1, j.testBit 0])
        else 0).sum).sum = E2 g ⟨a, ha⟩ ⟨b, hb⟩ ψ x0 := by
  obtain ⟨u0, hu0⟩ : ∃ u0, u0 = (((List.range N).erase a).erase b).map (bitAt x0) := ⟨_, rfl⟩
  obtain ⟨G, hG⟩ : ∃ G : R, G = ((List.range 16).map fun j =>
      if j.testBit 3 = x0 ⟨a, ha⟩ ∧ j.testBit 2 = x0 ⟨b, hb⟩
      then g (x0 ⟨a, ha⟩, x0 ⟨b, hb⟩) (j.testBit 1, j.testBit 0) *
        ψ (upd (upd x0 ⟨a, ha⟩ (j.testBit 1)) ⟨b, hb⟩ (j.testBit 0)) else 0).sum :=
    ⟨_, rfl⟩
  have hinner : ∀ i, ((List.range 16).map fun j =>
        if idx (P N (((List.range N).erase a).erase b) (bitsBE (N - 2) i) [a, b] [j.testBit 3, j.testBit 2]) = idx x0
        then g (j.testBit 3, j.testBit 2) (j.testBit 1, j.testBit 0) *
          ψ (P N (((List.range N).erase a).erase b) (bitsBE (N - 2) i) [a, b] [j.testBit 1, j.testBit 0])
        else 0).sum = if bitsBE (N - 2) i = u0 then G else 0 := by
    intro i
    by_cases hc : bitsBE (N - 2) i = u0
    · rw [if_pos hc, hG]
      congr 1
      apply List.map_congr_left
      intro j _
      have hcond := cond_two N a b ha hb hab (bitsBE (N - 2) i) (bitsBE_length _ _) (j.testBit 3) (j.testBit 2) x0
      rw [← hu0] at hcond
      by_cases hj : j.testBit 3 = x0 ⟨a, ha⟩ ∧ j.testBit 2 = x0 ⟨b, hb⟩
      · rw [if_pos (hcond.mpr ⟨hc, hj⟩), if_pos hj, hj.1, hj.2, hc, hu0, P_two_upd N a b ha hb hab]
      · rw [if_neg (fun h => hj (hcond.mp h).2), if_neg hj]
    · rw [if_neg hc]
      have : ((List.range 16).map fun j =>
          if idx (P N (((List.range N).erase a).erase b) (bitsBE (N - 2) i) [a, b] [j.testBit 3, j.testBit 2]) = idx x0
          then g (j.testBit 3, j.testBit 2) (j.testBit 1, j.testBit 0) *
            ψ (P N (((List.range N).erase a).erase b) (bitsBE (N - 2) i) [a, b] [j.testBit 1, j.testBit 0])
          else 0) = (List.range 16).map fun _ => (0 : R) := by
        apply List.map_congr_left
        intro j _
        rw [if_neg]
        rw [cond_two N a b ha hb hab _ (bitsBE_length _ _), ← hu0]
        exact fun h => hc h.1
      rw [this, sum_zero_list]
  simp only [hinner]
  rw [sum_bits_single (N - 2) u0 (by simp [hu0, (split_two N a b ha hb hab).hqn]) G, hG, range16]
  simp only [E2, Fintype.sum_prod_type, Fintype.sum_bool, List.map_cons, List.map_nil, List.sum_cons, List.sum_nil]
  cases hx : x0 ⟨a, ha⟩ <;> cases hy : x0 ⟨b, hb⟩ <;> simp [Nat.testBit] <;> ring

include hab in
/-- one pass of `for item in mp_list_opt` for a two-qubit item when at least one qubit is idle -/
theorem applyItem_two_sparse (hN : 3 ≤ N) (g : M4 R) (psi : List R) (hpsi : psi.length = 2 ^ N) :
    applyItem (semiringScalar R) (regEntries R) N psi (Item.two g a b) =
      .ok (listOf (E2 g ⟨a, ha⟩ ⟨b, hb⟩ (vecOf psi))) := by
  have sp := split_two N a b ha hb hab
  have hk : (((List.range N).erase a).erase b).length ≠ 0 := by rw [sp.hqn]; omega
  have hmemb : b ∈ (List.range N).erase a :=
    (List.Nodup.mem_erase_iff List.nodup_range).mpr ⟨fun h => hab h.symm, List.mem_range.mpr hb⟩
  unfold applyItem
  simp only [removeE_range N a ha, removeE_mem b _ hmemb, hk, if_false]
  apply sparse_assemble N (Item.two g a b) (((List.range N).erase a).erase b) [a, b]
    (by rw [sp.hqn]; simp; omega)
    (fun i j => (idx (P N (((List.range N).erase a).erase b) (bitsBE (N - 2) i) [a, b] [j.testBit 3, j.testBit 2]),
           idx (P N (((List.range N).erase a).erase b) (bitsBE (N - 2) i) [a, b] [j.testBit 1, j.testBit 0]),
           g (j.testBit 3, j.testBit 2) (j.testBit 1, j.testBit 0)))
  · intro i hi j hj
    rw [sp.hqn] at hi ⊢
    exact sparseTriplet_two N a b ha hb hab g i hi j (by simpa using hj)
  · intro i j; exact ⟨idx_lt _, idx_lt _⟩
  · exact hpsi
  · intro x0
    rw [sp.hqn]
    exact row_sum_two N a b ha hb hab g (vecOf psi) x0

end two

/-! ### no idle qubit (`create_dense`): a one-qubit register, a two-qubit gate on a two-qubit register -/

theorem bv1_ext (z z' : BV 1) (h : z 0 = z' 0) : z = z' := by
  funext p
  have : p = 0 := Subsingleton.elim _ _
  rw [this, h]

theorem upd1 (z : BV 1) (b : Bool) : upd z 0 b = bitsFn 1 b.toNat := by
  apply bv1_ext
  rw [upd_same]
  cases b <;> simp [bitsFn]

theorem bv2_ext (z z' : BV 2) (h0 : z 0 = z' 0) (h1 : z 1 = z' 1) : z = z' := by
  funext p
  fin_cases p
  · exact h0
  · exact h1

theorem upd2_01 (z : BV 2) (c d : Bool) : upd (upd z 0 c) 1 d = bitsFn 2 (2 * c.toNat + d.toNat) := by
  apply bv2_ext
  · rw [upd_other _ _ _ _ (by decide), upd_same]
    cases c <;> cases d <;> decide
  · rw [upd_same]
    cases c <;> cases d <;> decide

theorem upd2_10 (z : BV 2) (c d : Bool) : upd (upd z 1 c) 0 d = bitsFn 2 (c.toNat + 2 * d.toNat) := by
  apply bv2_ext
  · rw [upd_same]
    cases c <;> cases d <;> decide
  · rw [upd_other _ _ _ _ (by decide), upd_same]
    cases c <;> cases d <;> decide

theorem vecOf_bitsFn (N : Nat) (psi : List R) (i : Nat) (hi : i < 2 ^ N) :
    (vecOf psi : State R N) (bitsFn N i) = psi.getD i 0 := by
  simp [vecOf, idx_bitsFn N i hi]

theorem applyItem_one_dense (g : M2 R) (psi : List R) (hpsi : psi.length = 2 ^ 1) :
    applyItem (semiringScalar R) (regEntries R) 1 psi (Item.one g 0) =
      .ok (listOf (E1 g (0 : Fin 1) (vecOf psi))) := by
  obtain ⟨x, y, rfl⟩ : ∃ x y, psi = [x, y] := by
    match psi, hpsi with
    | [x, y], _ => exact ⟨x, y, rfl⟩
  have hr1 : List.range 1 = [0] := rfl
  have hr2 : List.range (2 ^ 1) = [0, 1] := rfl
  have f0 : fmtBin 1 0 = [false] := by decide
  have f1 : fmtBin 1 1 = [true] := by decide
  have b0 : bitsFn 1 0 (0 : Fin 1) = false := by simp [bitsFn]
  have b1 : bitsFn 1 1 (0 : Fin 1) = true := by simp [bitsFn]
  simp only [applyItem, hr1, removeE, if_true, List.length_nil, createDense, List.length_cons, hr2, mapE, entryOf,
    f0, f1, getE, List.cons_append, List.nil_append, List.getElem?_cons_zero, List.getElem?_cons_succ,
    Nat.zero_add, matVec, dot, semiringScalar, regEntries, ne_eq, not_true_eq_false, if_false, List.map_cons,
    List.map_nil, listOf, E1, Fintype.sum_bool, upd1, b0, b1, Bool.toNat_true, Bool.toNat_false,
    vecOf_bitsFn 1 [x, y] 0 (by norm_num), vecOf_bitsFn 1 [x, y] 1 (by norm_num)]
  simp only [List.getD_cons_zero, List.getD_cons_succ]
  congr 1
  simp only [List.cons.injEq, and_true]
  constructor <;> ring

theorem applyItem_two_dense (g : M4 R) (a b : Fin 2) (hab : a ≠ b) (psi : List R) (hpsi : psi.length = 2 ^ 2) :
    applyItem (semiringScalar R) (regEntries R) 2 psi (Item.two g a.val b.val) =
      .ok (listOf (E2 g a b (vecOf psi))) := by
  obtain ⟨x, y, z, w, rfl⟩ : ∃ x y z w, psi = [x, y, z, w] := by
    match psi, hpsi with
    | [x, y, z, w], _ => exact ⟨x, y, z, w, rfl⟩
  have hr1 : List.range 2 = [0, 1] := rfl
  have hr2 : List.range (2 ^ 2) = [0, 1, 2, 3] := rfl
  have f0 : fmtBin 2 0 = [false, false] := by decide
  have f1 : fmtBin 2 1 = [false, true] := by decide
  have f2 : fmtBin 2 2 = [true, false] := by decide
  have f3 : fmtBin 2 3 = [true, true] := by decide
  have b00 : bitsFn 2 0 (0 : Fin 2) = false := by decide
  have b01 : bitsFn 2 0 (1 : Fin 2) = false := by decide
  have b10 : bitsFn 2 1 (0 : Fin 2) = false := by decide
  have b11 : bitsFn 2 1 (1 : Fin 2) = true := by decide
  have b20 : bitsFn 2 2 (0 : Fin 2) = true := by decide
  have b21 : bitsFn 2 2 (1 : Fin 2) = false := by decide
  have b30 : bitsFn 2 3 (0 : Fin 2) = true := by decide
  have b31 : bitsFn 2 3 (1 : Fin 2) = true := by decide
  have v0 := vecOf_bitsFn 2 [x, y, z, w] 0 (by norm_num)
  have v1 := vecOf_bitsFn 2 [x, y, z, w] 1 (by norm_num)
  have v2 := vecOf_bitsFn 2 [x, y, z, w] 2 (by norm_num)
  have v3 := vecOf_bitsFn 2 [x, y, z, w] 3 (by norm_num)
  simp only [List.getD_cons_zero, List.getD_cons_succ] at v0 v1 v2 v3
  fin_cases a <;> fin_cases b
  · exact absurd rfl hab
  · -- (0, 1)
    simp only [Fin.zero_eta, Fin.mk_one, Fin.isValue, applyItem, hr1, removeE, if_true,
      one_ne_zero, if_false, List.length_nil, createDense, List.length_cons, hr2, mapE, entryOf, f0, f1, f2, f3, getE,
      List.cons_append, List.nil_append, List.getElem?_cons_zero, List.getElem?_cons_succ, Nat.zero_add,
      Nat.reduceAdd, matVec, dot, semiringScalar, regEntries, ne_eq, not_true_eq_false, List.map_cons, List.map_nil,
      listOf, E2, Fintype.sum_prod_type, Fintype.sum_bool, upd2_01, b00, b01, b10, b11, b20, b21, b30, b31,
      Bool.toNat_true, Bool.toNat_false, Nat.mul_one, Nat.mul_zero, v0, v1, v2, v3]
    congr 1
    simp only [List.cons.injEq, and_true]
    refine ⟨?_, ?_, ?_, ?_⟩ <;> ring
  · -- (1, 0)
    simp only [Fin.zero_eta, Fin.mk_one, Fin.isValue, applyItem, hr1, removeE, if_true,
      zero_ne_one, if_false, List.length_nil, createDense, List.length_cons, hr2, mapE, entryOf, f0, f1,
      f2, f3, getE, List.cons_append, List.nil_append, List.getElem?_cons_zero, List.getElem?_cons_succ,
      Nat.zero_add, Nat.reduceAdd, matVec, dot, semiringScalar, regEntries, ne_eq, not_true_eq_false, List.map_cons,
      List.map_nil, listOf, E2, Fintype.sum_prod_type, Fintype.sum_bool, upd2_10, b00, b01, b10, b11, b20, b21,
      b30, b31, Bool.toNat_true, Bool.toNat_false, Nat.mul_one, Nat.mul_zero, v0, v1, v2, v3]
    congr 1
    simp only [List.cons.injEq, and_true]
    refine ⟨?_, ?_, ?_, ?_⟩ <;> ring
  · exact absurd rfl hab

/-- `create_dense` on a one-qubit register returns the matrix of the embedding: entry `(i, j)` is
`g (bit of i) (bit of j)` -/
theorem createDense_one (g : M2 R) :
    createDense (regEntries R) (Item.one g 0) [] [0] 1 =
      .ok ((List.range (2 ^ 1)).map fun i => (List.range (2 ^ 1)).map fun j =>
        g (bitsFn 1 i (0 : Fin 1)) (bitsFn 1 j (0 : Fin 1))) := by
  have hr2 : List.range (2 ^ 1) = [0, 1] := rfl
  have f0 : fmtBin 1 0 = [false] := by decide
  have f1 : fmtBin 1 1 = [true] := by decide
  have b0 : bitsFn 1 0 (0 : Fin 1) = false := by decide
  have b1 : bitsFn 1 1 (0 : Fin 1) = true := by decide
  simp only [createDense, List.length_nil, List.length_cons, hr2, mapE, entryOf, f0, f1, getE, List.cons_append,
    List.nil_append, List.getElem?_cons_zero, List.getElem?_cons_succ, Nat.zero_add, regEntries, ne_eq,
    not_true_eq_false, if_false, List.map_cons, List.map_nil, b0, b1]

/-- `create_dense` for a two-qubit gate on a two-qubit register returns the matrix of the embedding: entry
`(i, j)` is `g (bits a, b of i) (bits a, b of j)` -/
theorem createDense_two (g : M4 R) (a b : Fin 2) (hab : a ≠ b) :
    createDense (regEntries R) (Item.two g a.val b.val) [] [a.val, b.val] 2 =
      .ok ((List.range (2 ^ 2)).map fun i => (List.range (2 ^ 2)).map fun j =>
        g (bitsFn 2 i a, bitsFn 2 i b) (bitsFn 2 j a, bitsFn 2 j b)) := by
  have hr2 : List.range (2 ^ 2) = [0, 1, 2, 3] := rfl
  have f0 : fmtBin 2 0 = [false, false] := by decide
  have f1 : fmtBin 2 1 = [false, true] := by decide
  have f2 : fmtBin 2 2 = [true, false] := by decide
  have f3 : fmtBin 2 3 = [true, true] := by decide
  have b00 : bitsFn 2 0 (0 : Fin 2) = false := by decide
  have b01 : bitsFn 2 0 (1 : Fin 2) = false := by decide
  have b10 : bitsFn 2 1 (0 : Fin 2) = false := by decide
  have b11 : bitsFn 2 1 (1 : Fin 2) = true := by decide
  have b20 : bitsFn 2 2 (0 : Fin 2) = true := by decide
  have b21 : bitsFn 2 2 (1 : Fin 2) = false := by decide
  have b30 : bitsFn 2 3 (0 : Fin 2) = true := by decide
  have b31 : bitsFn 2 3 (1 : Fin 2) = true := by decide
  fin_cases a <;> fin_cases b
  · exact absurd rfl hab
  · simp only [Fin.zero_eta, Fin.mk_one, Fin.isValue, createDense, List.length_nil,
      List.length_cons, hr2, mapE, entryOf, f0, f1, f2, f3, getE, List.cons_append, List.nil_append,
      List.getElem?_cons_zero, List.getElem?_cons_succ, Nat.zero_add, Nat.reduceAdd, regEntries, ne_eq,
      not_true_eq_false, if_false, List.map_cons, List.map_nil, b00, b01, b10, b11, b20, b21, b30, b31]
  · simp only [Fin.zero_eta, Fin.mk_one, Fin.isValue, createDense, List.length_nil,
      List.length_cons, hr2, mapE, entryOf, f0, f1, f2, f3, getE, List.cons_append, List.nil_append,
      List.getElem?_cons_zero, List.getElem?_cons_succ, Nat.zero_add, Nat.reduceAdd, regEntries, ne_eq,
      not_true_eq_false, if_false, List.map_cons, List.map_nil, b00, b01, b10, b11, b20, b21, b30, b31]
  · exact absurd rfl hab

/-- `create_sparse` for a one-qubit item: the triplets exist and their sum acts like `E1` -/
theorem createSparse_one (N q : Nat) (hq : q < N) (g : M2 R) :
    ∃ T, createSparse (regEntries R) (Item.one g q) ((List.range N).erase q) [q] N = .ok T ∧
      ∀ psi : List R, psi.length = 2 ^ N →
        spmv (semiringScalar R) (2 ^ N) T psi = .ok (listOf (E1 g ⟨q, hq⟩ (vecOf psi))) := by
  have sp := split_one N q hq
  have hlen : ((List.range N).erase q).length + [q].length = N := by rw [sp.hqn]; simp; omega
  have htrip : ∀ i, i < 2 ^ ((List.range N).erase q).length → ∀ j, j < 2 ^ (2 * [q].length) →
      sparseTriplet (regEntries R) (Item.one g q) ((List.range N).erase q) [q] N
        ((List.range N).erase q).length [q].length i j =
      .ok (idx (P N ((List.range N).erase q) (bitsBE (N - 1) i) [q] [j.testBit 1]),
           idx (P N ((List.range N).erase q) (bitsBE (N - 1) i) [q] [j.testBit 0]),
           g (j.testBit 1) (j.testBit 0)) := by
    intro i hi j hj
    rw [sp.hqn] at hi ⊢
    exact sparseTriplet_one N q hq g i hi j (by simpa using hj)
  refine ⟨_, createSparse_ok (regEntries R) _ _ _ N hlen _ htrip, ?_⟩
  intro psi hpsi
  have := sparse_assemble N (Item.one g q) ((List.range N).erase q) [q] hlen _ htrip
    (fun i j => ⟨idx_lt _, idx_lt _⟩) psi hpsi (E1 g ⟨q, hq⟩ (vecOf psi))
    (by intro x0; rw [sp.hqn]; exact row_sum_one N q hq g (vecOf psi) x0)
  rw [createSparse_ok (regEntries R) _ _ _ N hlen _ htrip] at this
  exact this

/-- `create_sparse` for a two-qubit item: the triplets exist and their sum acts like `E2` -/
theorem createSparse_two (N a b : Nat) (ha : a < N) (hb : b < N) (hab : a ≠ b) (g : M4 R) :
    ∃ T, createSparse (regEntries R) (Item.two g a b) (((List.range N).erase a).erase b) [a, b] N = .ok T ∧
      ∀ psi : List R, psi.length = 2 ^ N →
        spmv (semiringScalar R) (2 ^ N) T psi = .ok (listOf (E2 g ⟨a, ha⟩ ⟨b, hb⟩ (vecOf psi))) := by
  have sp := split_two N a b ha hb hab
  have hlen : (((List.range N).erase a).erase b).length + [a, b].length = N := by rw [sp.hqn]; simp; omega
  have htrip : ∀ i, i < 2 ^ (((List.range N).erase a).erase b).length → ∀ j, j < 2 ^ (2 * [a, b].length) →
      sparseTriplet (regEntries R) (Item.two g a b) (((List.range N).erase a).erase b) [a, b] N
        (((List.range N).erase a).erase b).length [a, b].length i j =
      .ok (idx (P N (((List.range N).erase a).erase b) (bitsBE (N - 2) i) [a, b] [j.testBit 3, j.testBit 2]),
           idx (P N (((List.range N).erase a).erase b) (bitsBE (N - 2) i) [a, b] [j.testBit 1, j.testBit 0]),
           g (j.testBit 3, j.testBit 2) (j.testBit 1, j.testBit 0)) := by
    intro i hi j hj
    rw [sp.hqn] at hi ⊢
    exact sparseTriplet_two N a b ha hb hab g i hi j (by simpa using hj)
  refine ⟨_, createSparse_ok (regEntries R) _ _ _ N hlen _ htrip, ?_⟩
  intro psi hpsi
  have := sparse_assemble N (Item.two g a b) (((List.range N).erase a).erase b) [a, b] hlen _ htrip
    (fun i j => ⟨idx_lt _, idx_lt _⟩) psi hpsi (E2 g ⟨a, ha⟩ ⟨b, hb⟩ (vecOf psi))
    (by intro x0; rw [sp.hqn]; exact row_sum_two N a b ha hb hab g (vecOf psi) x0)
  rw [createSparse_ok (regEntries R) _ _ _ N hlen _ htrip] at this
  exact this

/-! ### every well-formed item, and lists of items -/

open QG.Spec.GateAlgebra in
/-- one pass of `for item in mp_list_opt:` applies the register embedding of the item -/
theorem applyItem_spec (N : Nat) (item : Item (M2 R) (M4 R)) (hwf : WFItem N item) (psi : List R)
    (hpsi : psi.length = 2 ^ N) :
    applyItem (semiringScalar R) (regEntries R) N psi item =
      .ok (listOf ((gateAlgebra R N).item item (vecOf psi))) := by
  cases item with
  | one g q =>
    have hq : q < N := hwf
    have hitem : (gateAlgebra R N).item (Item.one g q) = E1 g ⟨q, hq⟩ := e1_eq g q hq
    rw [hitem]
    by_cases hN : 2 ≤ N
    · exact applyItem_one_sparse N q hq hN g psi hpsi
    · have hN1 : N = 1 := by omega
      subst hN1
      have hq0 : q = 0 := by omega
      subst hq0
      exact applyItem_one_dense g psi hpsi
  | two g a b =>
    obtain ⟨ha, hb, hab⟩ : a < N ∧ b < N ∧ a ≠ b := hwf
    have hitem : (gateAlgebra R N).item (Item.two g a b) = E2 g ⟨a, ha⟩ ⟨b, hb⟩ := e2_eq g a b ha hb
    rw [hitem]
    by_cases hN : 3 ≤ N
    · exact applyItem_two_sparse N a b ha hb hab hN g psi hpsi
    · have hN2 : N = 2 := by omega
      subst hN2
      exact applyItem_two_dense g ⟨a, ha⟩ ⟨b, hb⟩ (fun h => hab (Fin.mk.inj_iff.mp h)) psi hpsi

open QG.Spec.GateAlgebra in
/-- the loop over the (optimised) list applies the product of the embeddings in list order -/
theorem applyItems_spec (N : Nat) (l : List (Item (M2 R) (M4 R))) (hwf : WFList N l) (psi : List R)
    (hpsi : psi.length = 2 ^ N) :
    applyItems (semiringScalar R) (regEntries R) N l psi =
      .ok (listOf ((gateAlgebra R N).sem l (vecOf psi))) := by
  induction l generalizing psi with
  | nil =>
    simp only [applyItems, sem_nil]
    rw [show ((1 : Op R N) (vecOf psi)) = vecOf psi from rfl, listOf_vecOf psi hpsi]
  | cons g rest ih =>
    simp only [applyItems, applyItem_spec N g hwf.head psi hpsi]
    rw [ih hwf.tail _ (listOf_length _), vecOf_listOf, sem_cons]
    rfl

end QG.Lemmas.Binary
