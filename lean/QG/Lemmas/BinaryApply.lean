import Mathlib.Tactic
import QG.Spec.Register
import QG.Lemmas.BinaryBits
import QG.Lemmas.BinarySpec
/-!
Helper lemmas for C02 (index-based backend): one pass of `for item in mp_list_opt` applies the register
embedding of the item to the flat state vector.
-/
namespace QG.Lemmas.Binary
open QG.Model.Optimizer QG.Model.Binary QG.Spec QG.Spec.Register

variable {R : Type} [CommSemiring R]

theorem range4 : List.range 4 = [0, 1, 2, 3] := by decide
theorem range16 : List.range 16 = [0, 1, 2, 3, 4, 5, 6, 7, 8, 9, 10, 11, 12, 13, 14, 15] := by decide

theorem fmtBin2 (j : Nat) (hj : j < 4) : fmtBin 2 j = [j.testBit 1] ++ [j.testBit 0] := by
  rw [fmtBin_of_lt 2 j (by norm_num; exact hj)]
  simp [bitsBE, List.range_succ]

theorem fmtBin4 (j : Nat) (hj : j < 16) :
    fmtBin 4 j = [j.testBit 3, j.testBit 2] ++ [j.testBit 1, j.testBit 0] := by
  rw [fmtBin_of_lt 4 j (by norm_num; exact hj)]
  simp [bitsBE, List.range_succ]

theorem sum_zero_list {α : Type} (l : List α) : (l.map fun _ => (0 : R)).sum = 0 := by
  induction l with
  | nil => rfl
  | cons a l ih => simp [ih]

/-! ### a one-qubit item, at least one idle qubit (`create_sparse`) -/

section one
variable (N q : Nat) (hq : q < N)

theorem sparseTriplet_one (g : M2 R) (i : Nat) (hi : i < 2 ^ (N - 1)) (j : Nat) (hj : j < 4) :
    sparseTriplet (regEntries R) (Item.one g q) ((List.range N).erase q) [q] N (N - 1) 1 i j =
      .ok (idx (P N ((List.range N).erase q) (bitsBE (N - 1) i) [q] [j.testBit 1]),
           idx (P N ((List.range N).erase q) (bitsBE (N - 1) i) [q] [j.testBit 0]),
           g (j.testBit 1) (j.testBit 0)) := by
  have sp := split_one N q hq
  obtain ⟨s, h1, h2, h3, h4⟩ := joinStr_halves sp (bitsBE (N - 1) i) [j.testBit 1] [j.testBit 0]
    (bitsBE_length _ _) rfl rfl
  unfold sparseTriplet
  simp only [fmtBin_double (N - 1) i hi, Nat.mul_one, fmtBin2 j hj, h1, h2, h3]
  have e1 := (h4 q hq).1
  have e2 := (h4 q hq).2
  simp only [place, List.mem_singleton, if_true, List.idxOf_cons_self, List.getD_cons_zero] at e1 e2
  simp only [entryOf, getE_of_getElem? _ _ _ e1, getE_of_getElem? _ _ _ e2, regEntries]

theorem cond_one (u : List Bool) (hu : u.length = N - 1) (c : Bool) (x0 : BV N) :
    idx (P N ((List.range N).erase q) u [q] [c]) = idx x0 ↔
      u = ((List.range N).erase q).map (bitAt x0) ∧ c = x0 ⟨q, hq⟩ := by
  rw [idx_inj, P_eq_iff (split_one N q hq) u [c] hu rfl x0]
  simp [bitAt, hq]

theorem P_one_upd (d : Bool) (x0 : BV N) :
    P N ((List.range N).erase q) (((List.range N).erase q).map (bitAt x0)) [q] [d] = upd x0 ⟨q, hq⟩ d := by
  funext p
  rw [P_restrict (split_one N q hq)]
  by_cases hp : p.val = q
  · have : p = ⟨q, hq⟩ := Fin.ext hp
    subst this
    simp [upd_same]
  · have : p ≠ ⟨q, hq⟩ := fun h => hp (by rw [h])
    simp [hp, upd_other _ _ _ _ this]

theorem row_sum_one (g : M2 R) (ψ : State R N) (x0 : BV N) :
    ((List.range (2 ^ (N - 1))).map fun i => ((List.range 4).map fun j =>
        if idx (P N ((List.range N).erase q) (bitsBE (N - 1) i) [q] [j.testBit 1]) = idx x0
        then g (j.testBit 1) (j.testBit 0) * ψ (P N ((List.range N).erase q) (bitsBE (N - 1) i) [q] [j.testBit 0])
        else 0).sum).sum = E1 g ⟨q, hq⟩ ψ x0 := by
  set u0 := ((List.range N).erase q).map (bitAt x0) with hu0
  set G : R := ((List.range 4).map fun j =>
      if j.testBit 1 = x0 ⟨q, hq⟩ then g (x0 ⟨q, hq⟩) (j.testBit 0) * ψ (upd x0 ⟨q, hq⟩ (j.testBit 0)) else 0).sum
    with hG
  have hinner : ∀ i, ((List.range 4).map fun j =>
        if idx (P N ((List.range N).erase q) (bitsBE (N - 1) i) [q] [j.testBit 1]) = idx x0
        then g (j.testBit 1) (j.testBit 0) * ψ (P N ((List.range N).erase q) (bitsBE (N - 1) i) [q] [j.testBit 0])
        else 0).sum = if bitsBE (N - 1) i = u0 then G else 0 := by
    intro i
    by_cases hc : bitsBE (N - 1) i = u0
    · rw [if_pos hc, hG]
      congr 1
      apply List.map_congr_left
      intro j _
      simp only [cond_one N q hq _ (bitsBE_length _ _), ← hu0, hc, true_and]
      by_cases hj : j.testBit 1 = x0 ⟨q, hq⟩
      · rw [if_pos hj, if_pos hj, hj, hu0, P_one_upd N q hq]
      · rw [if_neg hj, if_neg hj]
    · rw [if_neg hc]
      have : ((List.range 4).map fun j =>
          if idx (P N ((List.range N).erase q) (bitsBE (N - 1) i) [q] [j.testBit 1]) = idx x0
          then g (j.testBit 1) (j.testBit 0) * ψ (P N ((List.range N).erase q) (bitsBE (N - 1) i) [q] [j.testBit 0])
          else 0) = (List.range 4).map fun _ => (0 : R) := by
        apply List.map_congr_left
        intro j _
        rw [if_neg]
        rw [cond_one N q hq _ (bitsBE_length _ _)]
        exact fun h => hc h.1
      rw [this, sum_zero_list]
  simp only [hinner]
  rw [sum_bits_single (N - 1) u0 (by simp [hu0, (split_one N q hq).hqn]) G, hG, range4]
  simp only [E1, Fintype.sum_bool, List.map_cons, List.map_nil, List.sum_cons, List.sum_nil]
  cases hx : x0 ⟨q, hq⟩ <;> simp [Nat.testBit] <;> ring

end one

end QG.Lemmas.Binary
