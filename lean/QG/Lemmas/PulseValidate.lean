import Mathlib.Algebra.Order.Field.Basic
import Mathlib.Algebra.Order.AbsoluteValue.Basic
import Mathlib.Tactic
import QG.Model.PulseValidate

/-!
Helper lemmas about the executable validator model `QG.Model.PulseValidate` on a linearly ordered field
(`Rat`, on which the driver runs it, and `ℝ`): the Boolean functions are characterised by the
conditions they test, with the grids written in closed form.
-/
namespace QG.Lemmas.PulseValidate
open QG.Model.PulseValidate

variable {α : Type} [Field α] [LinearOrder α] [IsStrictOrderedRing α]

theorem absv_eq_abs (x : α) : absv x = |x| := by
  unfold absv
  split_ifs with h
  · exact (abs_of_neg h).symm
  · exact (abs_of_nonneg (not_lt.mp h)).symm

/-- `k`-th point of `np.linspace(a, b, n)` -/
def grid (a b : α) (n k : ℕ) : α := a + (k : α) * ((b - a) / ((n - 1 : ℕ) : α))

theorem mem_linspace (a b : α) (n : ℕ) (x : α) :
    x ∈ linspace a b n ↔ ∃ k, k < n ∧ x = grid a b n k := by
  match n with
  | 0 => simp [linspace]
  | 1 =>
    simp only [linspace, List.mem_singleton, Nat.lt_one_iff]
    constructor
    · intro h; exact ⟨0, rfl, by simp [grid, h]⟩
    · rintro ⟨k, rfl, h⟩; simpa [grid] using h
  | n + 2 =>
    simp only [linspace, List.mem_map, List.mem_range, grid]
    constructor
    · rintro ⟨k, hk, rfl⟩; exact ⟨k, hk, rfl⟩
    · rintro ⟨k, hk, rfl⟩; exact ⟨k, hk, rfl⟩

theorem all_linspace (a b : α) (n : ℕ) (p : α → Bool) :
    (linspace a b n).all p = true ↔ ∀ k, k < n → p (grid a b n k) = true := by
  rw [List.all_eq_true]
  constructor
  · intro h k hk; exact h _ ((mem_linspace a b n _).mpr ⟨k, hk, rfl⟩)
  · intro h x hx
    obtain ⟨k, hk, rfl⟩ := (mem_linspace a b n x).mp hx
    exact h k hk

/-- grid points lie between the end points -/
theorem grid_mem (a b : α) (hab : a ≤ b) (n k : ℕ) (hk : k < n) :
    a ≤ grid a b n k ∧ grid a b n k ≤ b := by
  unfold grid
  have hba : 0 ≤ b - a := sub_nonneg.mpr hab
  rcases Nat.eq_zero_or_pos (n - 1) with h0 | hpos
  · have hk0 : k = 0 := by omega
    subst hk0
    simp [hab]
  · have hm : (0 : α) < ((n - 1 : ℕ) : α) := by exact_mod_cast hpos
    have hkm : (k : α) ≤ ((n - 1 : ℕ) : α) := by exact_mod_cast (by omega : k ≤ n - 1)
    have hk0 : (0 : α) ≤ (k : α) := Nat.cast_nonneg k
    have h1 : 0 ≤ (k : α) * ((b - a) / ((n - 1 : ℕ) : α)) := mul_nonneg hk0 (div_nonneg hba hm.le)
    have h2 : (k : α) * ((b - a) / ((n - 1 : ℕ) : α)) ≤ b - a := by
      rw [mul_div_assoc', div_le_iff₀ hm]
      calc (k : α) * (b - a) ≤ ((n - 1 : ℕ) : α) * (b - a) := mul_le_mul_of_nonneg_right hkm hba
        _ = (b - a) * ((n - 1 : ℕ) : α) := mul_comm _ _
    constructor <;> linarith

theorem pulseIsValid_iff (ε : α) (n : ℕ) (integ : α → α → α) (f : α → α) :
    pulseIsValid ε n integ f = true ↔
      |integ 0 1 - 1| < ε ∧ ∀ k, k < n → 0 ≤ f (grid 0 1 n k) := by
  unfold pulseIsValid
  simp only [Bool.and_eq_true, decide_eq_true_eq, absv_eq_abs, all_linspace]

theorem paramIsValid_iff (ε τ : α) (n : ℕ) (F : α → α) :
    paramIsValid ε τ n F = true ↔
      |F 0| < ε ∧ |F 1 - 1| < ε ∧ ∀ k, k < n → F (grid 0 (1 - ε) n k) - τ ≤ F (grid 0 (1 - ε) n k + ε) := by
  unfold paramIsValid
  simp only [Bool.and_eq_true, decide_eq_true_eq, absv_eq_abs, all_linspace, sub_zero, and_assoc]

theorem compatLoop_iff (ε : α) (integ : α → α → α) (F : α → α) (l : List α) :
    compatLoop ε integ F l = true ↔ ∀ x ∈ l, |integ 0 x - F x| ≤ ε := by
  induction l with
  | nil => simp [compatLoop]
  | cons x xs ih =>
    unfold compatLoop
    split_ifs with h
    · rw [absv_eq_abs] at h
      simp only [List.mem_cons, forall_eq_or_imp, false_iff, not_and]
      intro h2; exact absurd h2 (not_le.mpr h)
    · rw [absv_eq_abs] at h
      rw [ih]
      simp only [List.mem_cons, forall_eq_or_imp]
      exact ⟨fun h2 => ⟨not_lt.mp h, h2⟩, fun h2 => h2.2⟩

theorem areCompatible_iff (ε : α) (n : ℕ) (integ : α → α → α) (F : α → α) :
    areCompatible ε n integ F = true ↔
      ∀ k, k < n → |integ 0 (grid ε (1 - ε) n k) - F (grid ε (1 - ε) n k)| ≤ ε := by
  unfold areCompatible
  rw [compatLoop_iff]
  constructor
  · intro h k hk; exact h _ ((mem_linspace _ _ n _).mpr ⟨k, hk, rfl⟩)
  · intro h x hx
    obtain ⟨k, hk, rfl⟩ := (mem_linspace _ _ n x).mp hx
    exact h k hk

end QG.Lemmas.PulseValidate
