import Mathlib.Tactic
import QG.Model.Wiring

/-!
Helper development for C03 (layered classes): a **simulation** between the layered circuit machine
(`LayerState`: Standard / Efficient / OneCircuit) and the index-based machine (`BinState`).

A layer is read the way the layer-based backends read it (C01, `layersItems`): walking the list with a qubit
offset, the scalar placeholder `1` has width 0, a 2x2 entry at offset `q` is the item `[M, [q]]`, a 4x4 entry at
offset `q` is the item `[G, [q, q+1]]`.  `allItems st` is the item list of all completed layers followed by the
layer under construction (whose unfilled rows are still `1`, width 0).

`step_sim`: whenever a build call is issued *in row order* (`AtRow`: the row of a one-qubit gate or the lower row of
a two-qubit gate on adjacent rows is the number `s` of rows already filled in the current layer — which is how
`_apply_gates_on_circuit` issues them, `rowOrdered_callsLayered`), the layered machine and the index-based machine,
given the same call, stay related: same phases, and `allItems` of the layered object is the item list of the
index-based object.  So everything proved about the operator of the index-based item list (the frame invariant,
`QG.Lemmas.Frame.binary_run_inv`) transfers to the layers.
-/
namespace QG.Lemmas.LayerSim
open QG.Model.Wiring

variable {Φ : Type}

def isTwo (m : String) : Bool := m == "CNOT" || m == "CNOT_inv" || m == "ECR" || m == "ECR_inv"

/-- the gate-set call a token stands for (`calls` is newest first) -/
def callAt (calls : List (GateCall Φ)) (k : Nat) : Option (GateCall Φ) := calls.reverse[k]?

def entryWidth (calls : List (GateCall Φ)) : Entry → Nat
  | .one => 0
  | .ident => 1
  | .tok k => match callAt calls k with
    | some c => if isTwo c.method then 2 else 1
    | none => 1

def entryItem (calls : List (GateCall Φ)) (q : Nat) : Entry → List (BinItem Φ)
  | .one => []
  | .ident => [⟨none, q, -1⟩]
  | .tok k => match callAt calls k with
    | some c => if isTwo c.method then [⟨some c, q, ((q + 1 : Nat) : Int)⟩] else [⟨some c, q, -1⟩]
    | none => []

def width (calls : List (GateCall Φ)) (l : List Entry) : Nat := (l.map (entryWidth calls)).sum

/-- the items of one layer, in row order, starting at qubit offset `q` -/
def layerItems (calls : List (GateCall Φ)) : Nat → List Entry → List (BinItem Φ)
  | _, [] => []
  | q, e :: es => entryItem calls q e ++ layerItems calls (q + entryWidth calls e) es

/-- all items of the object, oldest first: completed layers, then the layer under construction -/
def allItems (st : LayerState Φ) : List (BinItem Φ) :=
  (st.mpList.reverse ++ [st.mp]).flatMap (layerItems st.calls 0)

def validE (calls : List (GateCall Φ)) : Entry → Prop
  | .tok k => k < calls.length
  | _ => True

/-! ### list lemmas -/

@[simp] theorem entryWidth_one (calls : List (GateCall Φ)) : entryWidth calls Entry.one = 0 := rfl
@[simp] theorem entryItem_one (calls : List (GateCall Φ)) (q : Nat) : entryItem calls q Entry.one = [] := rfl

theorem width_append (calls : List (GateCall Φ)) (l1 l2 : List Entry) :
    width calls (l1 ++ l2) = width calls l1 + width calls l2 := by
  simp [width]

theorem layerItems_append (calls : List (GateCall Φ)) (q : Nat) (l1 l2 : List Entry) :
    layerItems calls q (l1 ++ l2) = layerItems calls q l1 ++ layerItems calls (q + width calls l1) l2 := by
  induction l1 generalizing q with
  | nil => simp [layerItems, width]
  | cons e es ih =>
    simp only [List.cons_append, layerItems, ih, List.append_assoc]
    congr 3
    simp only [width, List.map_cons, List.sum_cons]; omega

theorem width_ones (calls : List (GateCall Φ)) (k : Nat) : width calls (List.replicate k Entry.one) = 0 := by
  induction k with
  | zero => rfl
  | succ k ih => simp [List.replicate_succ, width, entryWidth] at ih ⊢

theorem layerItems_ones (calls : List (GateCall Φ)) (q k : Nat) : layerItems calls q (List.replicate k Entry.one) = [] := by
  induction k generalizing q with
  | zero => rfl
  | succ k ih => simp [List.replicate_succ, layerItems, entryItem, entryWidth, ih]

theorem callAt_push (calls : List (GateCall Φ)) (c : GateCall Φ) (k : Nat) (hk : k < calls.length) :
    callAt (c :: calls) k = callAt calls k := by
  unfold callAt
  rw [List.reverse_cons, List.getElem?_append_left (by simpa using hk)]

theorem callAt_new (calls : List (GateCall Φ)) (c : GateCall Φ) : callAt (c :: calls) calls.length = some c := by
  unfold callAt
  rw [List.reverse_cons, List.getElem?_append_right (by simp)]
  simp

theorem entry_push (calls : List (GateCall Φ)) (c : GateCall Φ) (e : Entry) (h : validE calls e) (q : Nat) :
    entryWidth (c :: calls) e = entryWidth calls e ∧ entryItem (c :: calls) q e = entryItem calls q e := by
  cases e with
  | one => exact ⟨rfl, rfl⟩
  | ident => exact ⟨rfl, rfl⟩
  | tok k => simp only [entryWidth, entryItem, callAt_push calls c k h, and_self]

theorem valid_push (calls : List (GateCall Φ)) (c : GateCall Φ) (e : Entry) (h : validE calls e) : validE (c :: calls) e := by
  cases e with
  | tok k => simp only [validE, List.length_cons] at h ⊢; omega
  | _ => trivial

theorem layer_push (calls : List (GateCall Φ)) (c : GateCall Φ) (l : List Entry) (h : ∀ e ∈ l, validE calls e) (q : Nat) :
    width (c :: calls) l = width calls l ∧ layerItems (c :: calls) q l = layerItems calls q l := by
  induction l generalizing q with
  | nil => exact ⟨rfl, rfl⟩
  | cons e es ih =>
    obtain ⟨hw, hi⟩ := entry_push calls c e (h e (by simp)) q
    have ih' := fun q => ih (fun e he => h e (by simp [he])) q
    constructor
    · have := (ih' 0).1
      simp only [width, List.map_cons, List.sum_cons] at this ⊢
      rw [hw, this]
    · simp only [layerItems, hw, hi, (ih' _).2]

/-! ### the shape of a layer: segments `[I]`, `[M₂]`, `[G₄, 1]`, `[1, G₄]` -/

/-- a list of entries made of segments: an identity, the matrix of a one-qubit call, the matrix of a two-qubit call with its
placeholder after it (forward direction) or before it (reversed direction) -/
inductive Segs (calls : List (GateCall Φ)) : List Entry → Prop
  | nil : Segs calls []
  | ident (rest) : Segs calls rest → Segs calls (Entry.ident :: rest)
  | one (k : Nat) (c : GateCall Φ) (rest) : callAt calls k = some c → isTwo c.method = false → Segs calls rest →
      Segs calls (Entry.tok k :: rest)
  | fwd (k : Nat) (c : GateCall Φ) (rest) : callAt calls k = some c → isTwo c.method = true → Segs calls rest →
      Segs calls (Entry.tok k :: Entry.one :: rest)
  | rev (k : Nat) (c : GateCall Φ) (rest) : callAt calls k = some c → isTwo c.method = true → Segs calls rest →
      Segs calls (Entry.one :: Entry.tok k :: rest)

theorem Segs.append {calls : List (GateCall Φ)} {l1 l2 : List Entry} (h1 : Segs calls l1) (h2 : Segs calls l2) :
    Segs calls (l1 ++ l2) := by
  induction h1 with
  | nil => exact h2
  | ident rest _ ih => exact .ident _ ih
  | one k c rest hc h2' _ ih => exact .one k c _ hc h2' ih
  | fwd k c rest hc h2' _ ih => exact .fwd k c _ hc h2' ih
  | rev k c rest hc h2' _ ih => exact .rev k c _ hc h2' ih

theorem callAt_lt {calls : List (GateCall Φ)} {k : Nat} {c : GateCall Φ} (h : callAt calls k = some c) : k < calls.length := by
  unfold callAt at h
  have := (List.getElem?_eq_some_iff.mp h).1
  simpa using this

theorem Segs.push {calls : List (GateCall Φ)} {l : List Entry} (h : Segs calls l) (c0 : GateCall Φ) : Segs (c0 :: calls) l := by
  induction h with
  | nil => exact .nil
  | ident rest _ ih => exact .ident _ ih
  | one k c rest hc h2 _ ih => exact .one k c _ (by rw [callAt_push _ _ _ (callAt_lt hc)]; exact hc) h2 ih
  | fwd k c rest hc h2 _ ih => exact .fwd k c _ (by rw [callAt_push _ _ _ (callAt_lt hc)]; exact hc) h2 ih
  | rev k c rest hc h2 _ ih => exact .rev k c _ (by rw [callAt_push _ _ _ (callAt_lt hc)]; exact hc) h2 ih

/-- what a freshly placed entry of width `w` may be -/
def SegOK (calls : List (GateCall Φ)) (e : Entry) (w : Nat) : Prop :=
  (e = Entry.ident ∧ w = 1) ∨ ∃ k c, e = Entry.tok k ∧ callAt calls k = some c ∧
    ((isTwo c.method = false ∧ w = 1) ∨ (isTwo c.method = true ∧ w = 2))

/-- a gate-set call as the circuit classes issue it: two-qubit methods come with two phases -/
def WS (c : GateCall Φ) : Prop := isTwo c.method = true → c.phases.length = 2

/-! ### the simulation relation -/

structure Rel (n : Nat) (st : LayerState Φ) (b : BinState Φ) : Prop where
  nq : st.nqubit = n
  slt : st.s < n
  phi : b.phi = st.phi
  mp : ∃ A, st.mp = A ++ List.replicate (n - st.s) Entry.one ∧ A.length = st.s ∧ width st.calls A = st.s ∧ Segs st.calls A
  validMp : ∀ e ∈ st.mp, validE st.calls e
  validList : ∀ l ∈ st.mpList, ∀ e ∈ l, validE st.calls e
  items : b.items.reverse = allItems st
  segsList : ∀ l ∈ st.mpList, Segs st.calls l ∧ l.length = n
  ws : ∀ c ∈ st.calls, WS c

theorem rel_init (P : PhaseOps Φ) (n : Nat) (hn : 0 < n) : Rel n (LayerState.init P n) (BinState.init P n) where
  nq := rfl
  slt := hn
  phi := rfl
  mp := ⟨[], by simp [LayerState.init], rfl, rfl, .nil⟩
  validMp := by intro e he; simp [LayerState.init] at he; rw [he.2]; trivial
  validList := by intro l hl; simp [LayerState.init] at hl
  items := by simp [allItems, LayerState.init, BinState.init, layerItems_ones]
  segsList := by intro l hl; simp [LayerState.init] at hl
  ws := by intro c hc; simp [LayerState.init] at hc

/-- recording a gate-set call does not disturb the relation -/
theorem rel_push (n : Nat) (st : LayerState Φ) (b : BinState Φ) (h : Rel n st b) (c : GateCall Φ) (hws : WS c) :
    Rel n { st with calls := c :: st.calls } b where
  nq := h.nq
  slt := h.slt
  phi := h.phi
  mp := by
    obtain ⟨A, hA, hl, hw, hsg⟩ := h.mp
    refine ⟨A, hA, hl, ?_, hsg.push c⟩
    have hv : ∀ e ∈ A, validE st.calls e := fun e he => h.validMp e (by rw [hA]; simp [he])
    show width (c :: st.calls) A = st.s
    rw [(layer_push st.calls c A hv 0).1, hw]
  validMp := fun e he => valid_push _ _ _ (h.validMp e he)
  validList := fun l hl e he => valid_push _ _ _ (h.validList l hl e he)
  items := by
    rw [h.items]
    unfold allItems
    show _ = (st.mpList.reverse ++ [st.mp]).flatMap (layerItems (c :: st.calls) 0)
    apply List.flatMap_congr
    intro l hl
    symm
    refine (layer_push st.calls c l ?_ 0).2
    rcases List.mem_append.mp hl with hl | hl
    · exact h.validList l (by simpa using hl)
    · simp at hl; subst hl; exact h.validMp
  segsList := fun l hl => ⟨(h.segsList l hl).1.push c, (h.segsList l hl).2⟩
  ws := by
    intro c' hc'
    rcases List.mem_cons.mp hc' with rfl | hc'
    · exact hws
    · exact h.ws c' hc'

/-- `apply` of the layered classes with the width and the phases made explicit -/
def placeE (st : LayerState Φ) (i : Nat) (e : Entry) (w : Nat) (phi : List Φ) : Except Err (LayerState Φ) := do
  let mp ← setAt st.mp i e
  pure ({ st with mp := mp, s := st.s + w, phi := phi }).flush

theorem apply1_eq (st : LayerState Φ) (i : Nat) (e : Entry) : st.apply1 i e = placeE st i e 1 st.phi := rfl
theorem apply2_eq (st : LayerState Φ) (i : Nat) (e : Entry) (phi : List Φ) : st.apply2 i e phi = placeE st i e 2 phi := rfl

theorem set_split0 (A : List Entry) (m : Nat) (hm : 0 < m) (e : Entry) :
    (A ++ List.replicate m Entry.one).set A.length e = (A ++ [e]) ++ List.replicate (m - 1) Entry.one := by
  obtain ⟨m', rfl⟩ := Nat.exists_eq_succ_of_ne_zero (by omega : m ≠ 0)
  simp [List.replicate_succ, List.set_append_right]

theorem set_split1 (A : List Entry) (m : Nat) (hm : 1 < m) (e : Entry) :
    (A ++ List.replicate m Entry.one).set (A.length + 1) e = (A ++ [Entry.one, e]) ++ List.replicate (m - 2) Entry.one := by
  obtain ⟨m', rfl⟩ : ∃ m', m = m' + 2 := ⟨m - 2, by omega⟩
  simp [List.replicate_succ, List.set_append_right]

/-- the list-level core of placing an entry in row order: `L = A ++ 1…1` is a layer (or grid column) whose first `s`
rows are filled (`A`, of width `s`); writing `e` to row `s` (or to row `s+1`, leaving the placeholder in row `s`)
gives `B ++ 1…1` with `B` of length and width `s + w`, whose items are those of `A` followed by the new item -/
theorem place_list (calls : List (GateCall Φ)) (n s w i : Nat) (e : Entry) (it : BinItem Φ) (L A : List Entry)
    (hA : L = A ++ List.replicate (n - s) Entry.one) (hl : A.length = s) (hwA : width calls A = s)
    (hAv : ∀ x ∈ A, validE calls x) (hw : entryWidth calls e = w) (hit : entryItem calls s e = [it])
    (hv : validE calls e) (hrow : (i = s ∧ 1 ≤ w) ∨ (i = s + 1 ∧ w = 2)) (hfit : s + w ≤ n) :
    ∃ B, setAt L i e = .ok (B ++ List.replicate (n - (s + w)) Entry.one) ∧ B.length = s + w ∧
      width calls B = s + w ∧ layerItems calls 0 B = layerItems calls 0 A ++ [it] ∧ (∀ x ∈ B, validE calls x) ∧
      (SegOK calls e w → Segs calls A → Segs calls B) := by
  rcases hrow with ⟨hi, hw1⟩ | ⟨hi, hw2⟩
  · refine ⟨A ++ [e] ++ List.replicate (w - 1) Entry.one, ?_, ?_, ?_, ?_, ?_, ?_⟩
    · unfold setAt
      have hlen : i < L.length := by rw [hA]; simp; omega
      rw [if_pos hlen, hA, hi, ← hl, set_split0 A _ (by omega) e]
      congr 1
      rw [List.append_assoc (A ++ [e]), ← List.replicate_add]
      congr 2; omega
    · simp; omega
    · rw [width_append, width_append, width_ones, hwA]; simp [width, hw]
    · rw [layerItems_append, layerItems_append, layerItems_ones, hwA]
      simp [layerItems, hit]
    · intro x hx
      simp only [List.mem_append, List.mem_singleton, List.mem_replicate] at hx
      rcases hx with (hx | hx) | hx
      · exact hAv x hx
      · subst hx; exact hv
      · rw [hx.2]; trivial
    · intro hok hA'
      rcases hok with ⟨rfl, rfl⟩ | ⟨k, c, rfl, hc, ⟨h2, rfl⟩ | ⟨h2, rfl⟩⟩
      · simpa using hA'.append (.ident [] .nil)
      · simpa using hA'.append (.one k c [] hc h2 .nil)
      · have := hA'.append (.fwd k c [] hc h2 .nil)
        simpa [List.replicate] using this
  · subst hw2
    refine ⟨A ++ [Entry.one, e], ?_, ?_, ?_, ?_, ?_, ?_⟩
    · unfold setAt
      have hlen : i < L.length := by rw [hA]; simp; omega
      rw [if_pos hlen, hA, hi, ← hl, set_split1 A _ (by omega) e, Nat.sub_sub]
    · simp; omega
    · rw [width_append, hwA]
      simp only [width, List.map_cons, List.map_nil, List.sum_cons, List.sum_nil, entryWidth_one, hw]
      omega
    · rw [layerItems_append, hwA]
      simp only [layerItems, entryItem_one, entryWidth_one, List.nil_append, Nat.zero_add, Nat.add_zero, hit,
        List.append_nil]
    · intro x hx
      simp only [List.mem_append, List.mem_cons, List.not_mem_nil, or_false] at hx
      rcases hx with hx | hx | hx
      · exact hAv x hx
      · subst hx; trivial
      · subst hx; exact hv
    · intro hok hA'
      rcases hok with ⟨_, h1⟩ | ⟨k, c, rfl, hc, ⟨_, h1⟩ | ⟨h2, _⟩⟩
      · omega
      · omega
      · exact hA'.append (.rev k c [] hc h2 .nil)

/-- **placing an entry in row order keeps the relation**: `e` goes to row `s` (or to row `s+1` with the placeholder
left in row `s`, for a reversed two-qubit gate), has width `w`, and stands for the item `it` at offset `s` -/
theorem placeE_sim (n : Nat) (st st' : LayerState Φ) (b : BinState Φ) (h : Rel n st b) (i w : Nat) (e : Entry)
    (phi : List Φ) (it : BinItem Φ) (hw : entryWidth st.calls e = w) (hit : entryItem st.calls st.s e = [it])
    (hv : validE st.calls e) (hrow : (i = st.s ∧ 1 ≤ w) ∨ (i = st.s + 1 ∧ w = 2)) (hfit : st.s + w ≤ n)
    (hseg : SegOK st.calls e w) (hp : placeE st i e w phi = .ok st') :
    Rel n st' { b with phi := phi, items := it :: b.items } := by
  obtain ⟨A, hA, hl, hwA, hAs⟩ := h.mp
  have hw1 : 1 ≤ w := by rcases hrow with ⟨_, h1⟩ | ⟨_, h2⟩ <;> omega
  unfold placeE at hp
  have hAv : ∀ x ∈ A, validE st.calls x := fun x hx => h.validMp x (by rw [hA]; simp [hx])
  obtain ⟨B, hB, hBl, hBw, hBi, hBv, hBs⟩ := place_list st.calls n st.s w i e it st.mp A hA hl hwA hAv hw hit hv hrow hfit
  have hBseg : Segs st.calls B := hBs hseg hAs
  rw [hB] at hp
  simp only [bind, Except.bind, pure, Except.pure] at hp
  injection hp with hp
  subst hp
  have hitems : b.items.reverse ++ [it] =
      (st.mpList.reverse ++ [B ++ List.replicate (n - (st.s + w)) Entry.one]).flatMap (layerItems st.calls 0) := by
    rw [h.items]
    unfold allItems
    simp only [List.flatMap_append, List.flatMap_cons, List.flatMap_nil, List.append_nil]
    rw [hA, layerItems_append, layerItems_append, layerItems_ones, layerItems_ones, hBi]
    simp
  unfold LayerState.flush
  simp only [h.nq]
  split
  · -- the layer is complete
    rename_i hfull
    have hfull' : st.s + w = n := hfull
    refine ⟨rfl, (by show 0 < n; omega), rfl, ⟨[], by simp, rfl, rfl, .nil⟩, ?_, ?_, ?_, ?_, h.ws⟩
    · intro x hx; simp at hx; rw [hx.2]; trivial
    · intro l hl x hx
      simp only [List.mem_cons] at hl
      rcases hl with hl | hl
      · subst hl
        simp only [List.mem_append, List.mem_replicate] at hx
        rcases hx with hx | hx
        · exact hBv x hx
        · rw [hx.2]; trivial
      · exact h.validList l hl x hx
    · show (it :: b.items).reverse = _
      rw [List.reverse_cons, hitems]
      unfold allItems
      simp [layerItems_ones]
    · intro l hl
      simp only [List.mem_cons] at hl
      rcases hl with hl | hl
      · subst hl
        have h0 : n - (st.s + w) = 0 := by omega
        rw [h0]
        simp only [List.replicate_zero, List.append_nil]
        exact ⟨hBseg, by rw [hBl]; exact hfull'⟩
      · exact h.segsList l hl
  · rename_i hnot
    have hlt : st.s + w < n := by
      have : st.s + w ≠ n := hnot
      omega
    refine ⟨rfl, hlt, rfl, ⟨B, rfl, hBl, hBw, hBseg⟩, ?_, h.validList, ?_, h.segsList, h.ws⟩
    · intro x hx
      simp only [List.mem_append, List.mem_replicate] at hx
      rcases hx with hx | hx
      · exact hBv x hx
      · rw [hx.2]; trivial
    · show (it :: b.items).reverse = _
      rw [List.reverse_cons, hitems]
      rfl

/-! ### one build call -/

/-- the call is issued in row order: a one-qubit gate goes to the first unfilled row `s`, a two-qubit gate to the
adjacent rows `(s, s+1)` in either direction -/
def AtRow (n s : Nat) : CircCall Φ → Prop
  | .Rz _ _ => True
  | .I i => i = s
  | .X i _ => i = s
  | .SX i _ => i = s
  | .relaxation i _ => i = s
  | .bitflip i _ => i = s
  | .CNOT i k _ => (i = s ∧ k = s + 1 ∨ i = s + 1 ∧ k = s) ∧ s + 2 ≤ n
  | .ECR i k _ => (i = s ∧ k = s + 1 ∨ i = s + 1 ∧ k = s) ∧ s + 2 ≤ n

theorem oneQCall_method (P : PhaseOps Φ) (m : String) (phi : List Φ) (i : Nat) (pars : List Par) (wp : Bool)
    (c : GateCall Φ) (h : oneQCall P m phi i pars wp = .ok c) : c.method = m := by
  unfold oneQCall at h
  cases wp with
  | false => simp [pure, Except.pure] at h; rw [← h]
  | true =>
    simp only [if_true, bind, Except.bind] at h
    cases hg : getAt phi i with
    | error e => simp [hg] at h
    | ok p => simp [hg, pure, Except.pure] at h; rw [← h]

theorem twoQCNOT_method (P : PhaseOps Φ) (phi : List Φ) (i k : Nat) (pars : List Par) (t : TwoQ Φ)
    (h : twoQCNOT P phi i k pars = .ok t) : isTwo t.call.method = true := by
  unfold twoQCNOT at h
  simp only [bind, Except.bind] at h
  cases h1 : getAt phi i with
  | error e => simp [h1] at h
  | ok a =>
    cases h2 : getAt phi k with
    | error e => simp [h1, h2] at h
    | ok b =>
      simp only [h1, h2] at h
      split at h
      · cases h3 : setAt phi i (P.add a (P.neg P.halfPi)) with
        | error e => simp [h3] at h
        | ok p' => simp [h3, pure, Except.pure] at h; rw [← h]; rfl
      · cases h3 : setAt phi i (P.add (P.add a P.halfPi) (P.add P.halfPi P.halfPi)) with
        | error e => simp [h3] at h
        | ok p1 =>
          simp only [h3] at h
          cases h4 : getAt p1 k with
          | error e => simp [h4] at h
          | ok c =>
            simp only [h4] at h
            cases h5 : setAt p1 k (P.add c P.halfPi) with
            | error e => simp [h5] at h
            | ok p2 => simp [h5, pure, Except.pure] at h; rw [← h]; rfl

theorem twoQECR_method (phi : List Φ) (i k : Nat) (pars : List Par) (t : TwoQ Φ)
    (h : twoQECR phi i k pars = .ok t) : isTwo t.call.method = true := by
  unfold twoQECR at h
  simp only [bind, Except.bind] at h
  cases h1 : getAt phi i with
  | error e => simp [h1] at h
  | ok a =>
    cases h2 : getAt phi k with
    | error e => simp [h1, h2] at h
    | ok b =>
      simp only [h1, h2] at h
      split at h
      · simp [pure, Except.pure] at h; rw [← h]; rfl
      · simp [pure, Except.pure] at h; rw [← h]; rfl

theorem twoQCNOT_ws (P : PhaseOps Φ) (phi : List Φ) (i k : Nat) (pars : List Par) (t : TwoQ Φ)
    (h : twoQCNOT P phi i k pars = .ok t) : t.call.phases.length = 2 := by
  unfold twoQCNOT at h
  simp only [bind, Except.bind] at h
  cases h1 : getAt phi i with
  | error e => simp [h1] at h
  | ok a =>
    cases h2 : getAt phi k with
    | error e => simp [h1, h2] at h
    | ok b =>
      simp only [h1, h2] at h
      split at h
      · cases h3 : setAt phi i (P.add a (P.neg P.halfPi)) with
        | error e => simp [h3] at h
        | ok p' => simp [h3, pure, Except.pure] at h; rw [← h]; rfl
      · cases h3 : setAt phi i (P.add (P.add a P.halfPi) (P.add P.halfPi P.halfPi)) with
        | error e => simp [h3] at h
        | ok p1 =>
          simp only [h3] at h
          cases h4 : getAt p1 k with
          | error e => simp [h4] at h
          | ok c =>
            simp only [h4] at h
            cases h5 : setAt p1 k (P.add c P.halfPi) with
            | error e => simp [h5] at h
            | ok p2 => simp [h5, pure, Except.pure] at h; rw [← h]; rfl

theorem twoQECR_ws (phi : List Φ) (i k : Nat) (pars : List Par) (t : TwoQ Φ)
    (h : twoQECR phi i k pars = .ok t) : t.call.phases.length = 2 := by
  unfold twoQECR at h
  simp only [bind, Except.bind] at h
  cases h1 : getAt phi i with
  | error e => simp [h1] at h
  | ok a =>
    cases h2 : getAt phi k with
    | error e => simp [h1, h2] at h
    | ok b =>
      simp only [h1, h2] at h
      split at h
      · simp [pure, Except.pure] at h; rw [← h]; rfl
      · simp [pure, Except.pure] at h; rw [← h]; rfl

/-- placing the matrix of a freshly recorded one-qubit call -/
theorem place_one (n : Nat) (st st' : LayerState Φ) (b : BinState Φ) (h : Rel n st b) (c0 : GateCall Φ)
    (h2 : isTwo c0.method = false) (i : Nat) (hi : i = st.s)
    (hp : ({ st with calls := c0 :: st.calls } : LayerState Φ).apply1 i (.tok st.calls.length) = .ok st') :
    Rel n st' { b with phi := st.phi, items := ⟨some c0, i, -1⟩ :: b.items } := by
  have hr := rel_push n st b h c0 (fun h2' => by rw [h2] at h2'; cases h2')
  rw [apply1_eq] at hp
  have := placeE_sim n _ st' b hr i 1 (.tok st.calls.length) st.phi ⟨some c0, i, -1⟩
    (by simp [entryWidth, callAt_new, h2]) (by simp [entryItem, callAt_new, h2, hi])
    (by simp [validE]) (Or.inl ⟨hi, le_refl 1⟩) (by have := h.slt; show st.s + 1 ≤ n; omega)
    (Or.inr ⟨st.calls.length, c0, rfl, callAt_new _ _, Or.inl ⟨h2, rfl⟩⟩) hp
  exact this

/-- placing the matrix of a freshly recorded two-qubit call on rows `(s, s+1)` -/
theorem place_two (n : Nat) (st st' : LayerState Φ) (b : BinState Φ) (h : Rel n st b) (c0 : GateCall Φ)
    (h2 : isTwo c0.method = true) (hws : WS c0) (i k : Nat) (phi : List Φ)
    (hrow : (i = st.s ∧ k = st.s + 1 ∨ i = st.s + 1 ∧ k = st.s) ∧ st.s + 2 ≤ n)
    (hp : ({ st with calls := c0 :: st.calls } : LayerState Φ).apply2 i (.tok st.calls.length) phi = .ok st') :
    Rel n st' { b with phi := phi, items := (if i < k then ⟨some c0, i, (k : Int)⟩ else ⟨some c0, k, (i : Int)⟩) :: b.items } := by
  have hr := rel_push n st b h c0 hws
  rw [apply2_eq] at hp
  have hit : (if i < k then (⟨some c0, i, (k : Int)⟩ : BinItem Φ) else ⟨some c0, k, (i : Int)⟩)
      = ⟨some c0, st.s, ((st.s + 1 : Nat) : Int)⟩ := by
    rcases hrow.1 with ⟨h1, h3⟩ | ⟨h1, h3⟩
    · rw [if_pos (by omega), h1, h3]
    · rw [if_neg (by omega), h1, h3]
  rw [hit]
  exact placeE_sim n _ st' b hr i 2 (.tok st.calls.length) phi _
    (by simp [entryWidth, callAt_new, h2]) (by simp [entryItem, callAt_new, h2])
    (by simp [validE]) (by rcases hrow.1 with ⟨h1, _⟩ | ⟨h1, _⟩; exact Or.inl ⟨h1, by omega⟩; exact Or.inr ⟨h1, rfl⟩)
    hrow.2 (Or.inr ⟨st.calls.length, c0, rfl, callAt_new _ _, Or.inr ⟨h2, rfl⟩⟩) hp

/-- **one build call in row order: the two machines stay related** -/
theorem step_sim (P : PhaseOps Φ) (n : Nat) (st st' : LayerState Φ) (b : BinState Φ) (h : Rel n st b) (c : CircCall Φ)
    (hrow : AtRow n st.s c) (hs : st.step P c = .ok st') :
    ∃ b', b.step P c = .ok b' ∧ Rel n st' b' := by
  cases c with
  | Rz i th =>
    simp only [LayerState.step, bind, Except.bind] at hs
    simp only [BinState.step, bind, Except.bind, h.phi]
    cases h1 : getAt st.phi i with
    | error e => simp [h1] at hs
    | ok p =>
      simp only [h1] at hs ⊢
      cases h2 : setAt st.phi i (P.add p th) with
      | error e => simp [h2] at hs
      | ok phi' =>
        simp only [h2, pure, Except.pure] at hs ⊢
        injection hs with hs
        subst hs
        exact ⟨_, rfl, ⟨h.nq, h.slt, rfl, h.mp, h.validMp, h.validList, h.items, h.segsList, h.ws⟩⟩
  | I i =>
    simp only [LayerState.step] at hs
    refine ⟨_, rfl, ?_⟩
    rw [apply1_eq] at hs
    have := placeE_sim n st st' b h i 1 .ident st.phi ⟨none, i, -1⟩ rfl (by rw [(hrow : i = st.s)]; rfl)
      trivial (Or.inl ⟨hrow, le_refl 1⟩) (by have := h.slt; omega) (Or.inl ⟨rfl, rfl⟩) hs
    rw [← h.phi] at this
    exact this
  | X i pars =>
    simp only [LayerState.step, bind, Except.bind] at hs
    simp only [BinState.step, bind, Except.bind, h.phi]
    cases h1 : oneQCall P "X" st.phi i pars true with
    | error e => simp [h1] at hs
    | ok c0 =>
      simp only [h1, pure, Except.pure] at hs ⊢
      exact ⟨_, rfl, place_one n st st' b h c0 (by rw [oneQCall_method P _ _ _ _ _ _ h1]; decide) i hrow hs⟩
  | SX i pars =>
    simp only [LayerState.step, bind, Except.bind] at hs
    simp only [BinState.step, bind, Except.bind, h.phi]
    cases h1 : oneQCall P "SX" st.phi i pars true with
    | error e => simp [h1] at hs
    | ok c0 =>
      simp only [h1, pure, Except.pure] at hs ⊢
      exact ⟨_, rfl, place_one n st st' b h c0 (by rw [oneQCall_method P _ _ _ _ _ _ h1]; decide) i hrow hs⟩
  | relaxation i pars =>
    simp only [LayerState.step, bind, Except.bind] at hs
    simp only [BinState.step, bind, Except.bind, h.phi]
    cases h1 : oneQCall P "relaxation" st.phi i pars false with
    | error e => simp [h1] at hs
    | ok c0 =>
      simp only [h1, pure, Except.pure] at hs ⊢
      exact ⟨_, rfl, place_one n st st' b h c0 (by rw [oneQCall_method P _ _ _ _ _ _ h1]; decide) i hrow hs⟩
  | bitflip i pars =>
    simp only [LayerState.step, bind, Except.bind] at hs
    simp only [BinState.step, bind, Except.bind, h.phi]
    cases h1 : oneQCall P "bitflip" st.phi i pars false with
    | error e => simp [h1] at hs
    | ok c0 =>
      simp only [h1, pure, Except.pure] at hs ⊢
      exact ⟨_, rfl, place_one n st st' b h c0 (by rw [oneQCall_method P _ _ _ _ _ _ h1]; decide) i hrow hs⟩
  | CNOT i k pars =>
    simp only [LayerState.step, bind, Except.bind] at hs
    simp only [BinState.step, bind, Except.bind, h.phi]
    cases h1 : twoQCNOT P st.phi i k pars with
    | error e => simp [h1] at hs
    | ok t =>
      simp only [h1, pure, Except.pure] at hs ⊢
      exact ⟨_, rfl, place_two n st st' b h t.call (twoQCNOT_method P _ _ _ _ _ h1) (fun _ => twoQCNOT_ws P _ _ _ _ _ h1) i k t.phi hrow hs⟩
  | ECR i k pars =>
    simp only [LayerState.step, bind, Except.bind] at hs
    simp only [BinState.step, bind, Except.bind, h.phi]
    cases h1 : twoQECR st.phi i k pars with
    | error e => simp [h1] at hs
    | ok t =>
      simp only [h1, pure, Except.pure] at hs ⊢
      exact ⟨_, rfl, place_two n st st' b h t.call (twoQECR_method _ _ _ _ _ h1) (fun _ => twoQECR_ws _ _ _ _ _ h1) i k t.phi hrow hs⟩

/-! ### whole call lists -/

/-- the fill counter after a call (the bookkeeping of `apply` and `_update_mp_list`) -/
def nextS (n s : Nat) : CircCall Φ → Nat
  | .Rz _ _ => s
  | .CNOT _ _ _ => if s + 2 = n then 0 else s + 2
  | .ECR _ _ _ => if s + 2 = n then 0 else s + 2
  | _ => if s + 1 = n then 0 else s + 1

def endS (n : Nat) : Nat → List (CircCall Φ) → Nat
  | s, [] => s
  | s, c :: cs => endS n (nextS n s c) cs

/-- every call of the list is issued in row order -/
def RowOrdered (n : Nat) : Nat → List (CircCall Φ) → Prop
  | _, [] => True
  | s, c :: cs => AtRow n s c ∧ RowOrdered n (nextS n s c) cs

theorem placeE_s (n : Nat) (st st' : LayerState Φ) (hn : st.nqubit = n) (i w : Nat) (e : Entry) (phi : List Φ)
    (hp : placeE st i e w phi = .ok st') : st'.s = if st.s + w = n then 0 else st.s + w := by
  unfold placeE at hp
  cases h1 : setAt st.mp i e with
  | error x => simp [h1, bind, Except.bind] at hp
  | ok mp =>
    simp only [h1, bind, Except.bind, pure, Except.pure] at hp
    injection hp with hp
    subst hp
    unfold LayerState.flush
    simp only [hn]
    split <;> rfl

theorem step_s (P : PhaseOps Φ) (n : Nat) (st st' : LayerState Φ) (hn : st.nqubit = n) (c : CircCall Φ)
    (hs : st.step P c = .ok st') : st'.s = nextS n st.s c := by
  cases c with
  | Rz i th =>
    simp only [LayerState.step, bind, Except.bind] at hs
    cases h1 : getAt st.phi i with
    | error e => simp [h1] at hs
    | ok p =>
      simp only [h1] at hs
      cases h2 : setAt st.phi i (P.add p th) with
      | error e => simp [h2] at hs
      | ok phi' => simp only [h2, pure, Except.pure] at hs; injection hs with hs; subst hs; rfl
  | I i => exact placeE_s n st st' hn i 1 _ _ hs
  | X i pars =>
    simp only [LayerState.step, bind, Except.bind] at hs
    cases h1 : oneQCall P "X" st.phi i pars true with
    | error e => simp [h1] at hs
    | ok c0 => simp only [h1] at hs; have := placeE_s n _ st' (by exact hn) i 1 _ _ hs; exact this
  | SX i pars =>
    simp only [LayerState.step, bind, Except.bind] at hs
    cases h1 : oneQCall P "SX" st.phi i pars true with
    | error e => simp [h1] at hs
    | ok c0 => simp only [h1] at hs; have := placeE_s n _ st' (by exact hn) i 1 _ _ hs; exact this
  | relaxation i pars =>
    simp only [LayerState.step, bind, Except.bind] at hs
    cases h1 : oneQCall P "relaxation" st.phi i pars false with
    | error e => simp [h1] at hs
    | ok c0 => simp only [h1] at hs; have := placeE_s n _ st' (by exact hn) i 1 _ _ hs; exact this
  | bitflip i pars =>
    simp only [LayerState.step, bind, Except.bind] at hs
    cases h1 : oneQCall P "bitflip" st.phi i pars false with
    | error e => simp [h1] at hs
    | ok c0 => simp only [h1] at hs; have := placeE_s n _ st' (by exact hn) i 1 _ _ hs; exact this
  | CNOT i k pars =>
    simp only [LayerState.step, bind, Except.bind] at hs
    cases h1 : twoQCNOT P st.phi i k pars with
    | error e => simp [h1] at hs
    | ok t => simp only [h1] at hs; have := placeE_s n _ st' (by exact hn) i 2 _ _ hs; exact this
  | ECR i k pars =>
    simp only [LayerState.step, bind, Except.bind] at hs
    cases h1 : twoQECR st.phi i k pars with
    | error e => simp [h1] at hs
    | ok t => simp only [h1] at hs; have := placeE_s n _ st' (by exact hn) i 2 _ _ hs; exact this

/-- **a whole row-ordered call list: the index-based machine accepts it too and ends related** -/
theorem run_sim (P : PhaseOps Φ) (n : Nat) (cs : List (CircCall Φ)) (st st' : LayerState Φ) (b : BinState Φ)
    (h : Rel n st b) (hrow : RowOrdered n st.s cs) (hs : foldE (LayerState.step P) st cs = .ok st') :
    ∃ b', foldE (BinState.step P) b cs = .ok b' ∧ Rel n st' b' ∧ st'.s = endS n st.s cs := by
  induction cs generalizing st b with
  | nil => simp only [foldE] at hs; injection hs with hs; subst hs; exact ⟨b, rfl, h, rfl⟩
  | cons c rest ih =>
    simp only [foldE, bind, Except.bind] at hs ⊢
    cases h1 : st.step P c with
    | error e => simp [h1] at hs
    | ok s1 =>
      simp only [h1] at hs
      obtain ⟨b1, hb1, hr1⟩ := step_sim P n st s1 b h c hrow.1 h1
      have hs1 := step_s P n st s1 h.nq c h1
      obtain ⟨b', hb', hr', he⟩ := ih s1 b1 hr1 (by rw [hs1]; exact hrow.2) hs
      refine ⟨b', ?_, hr', ?_⟩
      · simp only [hb1]; exact hb'
      · rw [he, hs1]; rfl

/-! ### `_apply_gates_on_circuit` (layered branch) issues its calls in row order -/

theorem rowOrdered_append (n : Nat) (s : Nat) (l1 l2 : List (CircCall Φ)) :
    RowOrdered n s (l1 ++ l2) ↔ RowOrdered n s l1 ∧ RowOrdered n (endS n s l1) l2 := by
  induction l1 generalizing s with
  | nil => simp [RowOrdered, endS]
  | cons c cs ih => simp only [List.cons_append, RowOrdered, endS, ih, and_assoc]

theorem endS_append (n : Nat) (s : Nat) (l1 l2 : List (CircCall Φ)) :
    endS n s (l1 ++ l2) = endS n (endS n s l1) l2 := by
  induction l1 generalizing s with
  | nil => rfl
  | cons c cs ih => simp only [List.cons_append, endS, ih]

/-- rows consumed so far -> value of the fill counter -/
def sOf (n p : Nat) : Nat := if p = n then 0 else p

/-- a one-qubit build call on row `k` -/
def IsOneAt (k : Nat) : CircCall Φ → Prop
  | .I i => i = k
  | .X i _ => i = k
  | .SX i _ => i = k
  | .relaxation i _ => i = k
  | .bitflip i _ => i = k
  | _ => False

theorem oneAt_row (n k : Nat) (hk : k < n) (c : CircCall Φ) (h : IsOneAt k c) :
    AtRow n k c ∧ nextS n k c = sOf n (k + 1) := by
  cases c <;> simp only [IsOneAt] at h <;> first | exact h.elim | (subst h; exact ⟨rfl, rfl⟩)

/-- a stretch of rows `m .. m+len-1`, each receiving exactly one one-qubit call, in ascending order -/
theorem rows_one (n : Nat) (f : Nat → List (CircCall Φ)) (len m : Nat) (hfit : m + len ≤ n)
    (hf : ∀ k, m ≤ k → k < m + len → ∃ c, f k = [c] ∧ IsOneAt k c) :
    RowOrdered n (sOf n m) ((List.range' m len).flatMap f) ∧
      endS n (sOf n m) ((List.range' m len).flatMap f) = sOf n (m + len) := by
  induction len generalizing m with
  | zero => simp [RowOrdered, endS]
  | succ len ih =>
    obtain ⟨c, hc, h1⟩ := hf m (le_refl m) (by omega)
    have hm : m < n := by omega
    have hsm : sOf n m = m := by unfold sOf; rw [if_neg (by omega)]
    obtain ⟨ha, hn⟩ := oneAt_row n m hm c h1
    have := ih (m + 1) (by omega) (fun k hk1 hk2 => hf k (by omega) (by omega))
    simp only [List.range'_succ, List.flatMap_cons, hc, List.singleton_append, RowOrdered, endS, hsm, hn]
    refine ⟨⟨ha, this.1⟩, ?_⟩
    rw [this.2]; congr 1; omega

/-- ops the layered branch can serve: rows in range, two-qubit gates on adjacent rows -/
def LWF (n : Nat) : Op Φ → Prop
  | .sx q => q < n
  | .x q => q < n
  | .delay q _ => q < n
  | .cx c t => c < n ∧ t < n ∧ (t = c + 1 ∨ c = t + 1)
  | .ecr c t => c < n ∧ t < n ∧ (t = c + 1 ∨ c = t + 1)
  | _ => True

theorem range_eq (n : Nat) : List.range n = List.range' 0 n := List.range_eq_range' 

theorem loop_one (n q : Nat) (hq : q < n) (g : Nat → CircCall Φ) (hg : IsOneAt q (g q)) :
    RowOrdered n 0 (layerLoop n fun k => if k = q then some [g k] else none) ∧
      endS n 0 (layerLoop n fun k => if k = q then some [g k] else none) = 0 := by
  unfold layerLoop
  rw [range_eq]
  have := rows_one n (fun k => match (if k = q then some [g k] else none : Option (List (CircCall Φ))) with
      | some cs => cs
      | none => [.I k]) n 0 (by omega) (by
    intro k _ _
    by_cases hkq : k = q
    · subst hkq; exact ⟨g k, by simp, hg⟩
    · exact ⟨.I k, by simp [hkq], rfl⟩)
  have h0 : sOf n 0 = 0 := by unfold sOf; split <;> omega
  have hn : sOf n (0 + n) = 0 := by unfold sOf; simp
  rw [h0, hn] at this
  exact this

theorem loop_two (n c t : Nat) (hc : c < n) (ht : t < n) (hadj : t = c + 1 ∨ c = t + 1) (G : Nat → CircCall Φ)
    (hG : ∀ s, AtRow n s (G c) ↔ ((c = s ∧ t = s + 1 ∨ c = s + 1 ∧ t = s) ∧ s + 2 ≤ n))
    (hN : ∀ s, nextS n s (G c) = if s + 2 = n then 0 else s + 2) :
    RowOrdered n 0 (layerLoop n fun k => if k = c then some [G k] else if k = t then some [] else none) ∧
      endS n 0 (layerLoop n fun k => if k = c then some [G k] else if k = t then some [] else none) = 0 := by
  set f : Nat → List (CircCall Φ) := fun k =>
    match (if k = c then some [G k] else if k = t then some [] else none : Option (List (CircCall Φ))) with
    | some cs => cs
    | none => [.I k] with hfdef
  let a := min c t
  have ha2 : a + 2 ≤ n := by rcases hadj with h | h <;> simp only [a] <;> omega
  have hsplit : List.range n = List.range' 0 a ++ ([a, a + 1] ++ List.range' (a + 2) (n - (a + 2))) := by
    rw [range_eq]
    have h1 : n = a + (2 + (n - (a + 2))) := by omega
    conv_lhs => rw [h1]
    rw [← List.range'_append_1 (s := 0) (m := a), ← List.range'_append_1 (s := 0 + a) (m := 2)]
    simp [List.range'_succ]
  have hmid : f a ++ f (a + 1) = [G c] := by
    rcases hadj with h | h
    · have hac : a = c := by simp only [a]; omega
      simp only [hfdef, hac]
      simp [h]
    · have hat : a = t := by simp only [a]; omega
      have hct : c = a + 1 := by omega
      simp only [hfdef, hat]
      simp [h]
  have hI : ∀ k, k ≠ c → k ≠ t → ∃ x, f k = [x] ∧ IsOneAt k x := by
    intro k h1 h2
    exact ⟨.I k, by simp [hfdef, h1, h2], rfl⟩
  have hpre := rows_one n f a 0 (by omega) (fun k _ hk => hI k (by rcases hadj with h | h <;> simp only [a] at hk <;> omega)
    (by rcases hadj with h | h <;> simp only [a] at hk <;> omega))
  have hsuf := rows_one n f (n - (a + 2)) (a + 2) (by omega) (fun k hk _ => hI k
    (by rcases hadj with h | h <;> simp only [a] at hk <;> omega) (by rcases hadj with h | h <;> simp only [a] at hk <;> omega))
  have h0 : sOf n 0 = 0 := by unfold sOf; split <;> omega
  have hsa : sOf n (0 + a) = a := by unfold sOf; rw [if_neg (by omega)]; omega
  have hend : sOf n (a + 2 + (n - (a + 2))) = 0 := by unfold sOf; rw [if_pos (by omega)]
  rw [h0, hsa] at hpre
  rw [hend] at hsuf
  have hrow : AtRow n a (G c) := (hG a).2 ⟨by rcases hadj with h | h <;> simp only [a] <;> omega, ha2⟩
  have hnext : nextS n a (G c) = sOf n (a + 2) := by rw [hN]; rfl
  show RowOrdered n 0 ((List.range n).flatMap f) ∧ endS n 0 ((List.range n).flatMap f) = 0
  rw [hsplit, List.flatMap_append, List.flatMap_append]
  have hm : [a, a + 1].flatMap f = [G c] := by simpa using hmid
  rw [hm, rowOrdered_append, rowOrdered_append, endS_append, endS_append, hpre.2]
  simp only [RowOrdered, endS, hnext, and_true]
  exact ⟨⟨hpre.1, hrow, hsuf.1⟩, hsuf.2⟩

theorem rowOrdered_op (n : Nat) (op : Op Φ) (h : LWF n op) :
    RowOrdered n 0 (callsLayeredOp n op) ∧ endS n 0 (callsLayeredOp n op) = 0 := by
  cases op with
  | rz q th => exact ⟨⟨trivial, trivial⟩, rfl⟩
  | sx q => exact loop_one n q h (fun k => .SX k [.p k, .T1 k, .T2 q]) rfl
  | x q => exact loop_one n q h (fun k => .X k [.p k, .T1 k, .T2 q]) rfl
  | delay q d => exact loop_one n q h (fun k => .relaxation k [.durDt d, .T1 k, .T2 k]) rfl
  | cx c t => exact loop_two n c t h.1 h.2.1 h.2.2 (fun k => .CNOT k t (twoQubitPars k t)) (fun s => Iff.rfl) (fun s => rfl)
  | ecr c t => exact loop_two n c t h.1 h.2.1 h.2.2 (fun k => .ECR k t (twoQubitPars k t)) (fun s => Iff.rfl) (fun s => rfl)
  | barrier qs => exact ⟨trivial, rfl⟩
  | measure q c => exact ⟨trivial, rfl⟩

/-- **the layered branch of `_apply_gates_on_circuit` issues every call in row order and ends on a layer boundary** -/
theorem rowOrdered_callsLayered (n : Nat) (data : List (Op Φ)) (hwf : ∀ op ∈ data, LWF n op) :
    RowOrdered n 0 (callsLayered n data) ∧ endS n 0 (callsLayered n data) = 0 := by
  unfold callsLayered
  have hbody : RowOrdered n 0 (data.flatMap (callsLayeredOp n)) ∧ endS n 0 (data.flatMap (callsLayeredOp n)) = 0 := by
    induction data with
    | nil => exact ⟨trivial, rfl⟩
    | cons op rest ih =>
      obtain ⟨h1, h2⟩ := rowOrdered_op n op (hwf op (by simp))
      obtain ⟨h3, h4⟩ := ih (fun o ho => hwf o (by simp [ho]))
      simp only [List.flatMap_cons]
      rw [rowOrdered_append, endS_append, h2]
      exact ⟨⟨h1, h3⟩, h4⟩
  have hflip := rows_one n (fun k => [(.bitflip k [.tm k, .rout k] : CircCall Φ)]) n 0 (by omega)
    (fun k _ _ => ⟨_, rfl, rfl⟩)
  have h0 : sOf n 0 = 0 := by unfold sOf; split <;> omega
  have hn : sOf n (0 + n) = 0 := by unfold sOf; simp
  rw [h0, hn] at hflip
  have hmap : (List.range n).map (fun k => (.bitflip k [.tm k, .rout k] : CircCall Φ))
      = (List.range' 0 n).flatMap (fun k => [(.bitflip k [.tm k, .rout k] : CircCall Φ)]) := by
    rw [range_eq]; induction (List.range' 0 n) with
    | nil => rfl
    | cons a l ih => simp [ih]
  rw [hmap, rowOrdered_append, endS_append, hbody.2]
  exact ⟨⟨hbody.1, hflip.1⟩, hflip.2⟩

end QG.Lemmas.LayerSim
