import Mathlib.Probability.Distributions.Gaussian.Real
import Mathlib.Probability.CDF
import Mathlib.MeasureTheory.Integral.IntervalIntegral.Basic

/-!
# Vocabulary for `scipy.stats.norm` (C13) and the Mathlib facts about it

**Mapping table of the C13 translator (trusted; three rows).**  `harness/gen/pulse.py` renders

| Python callable (exactly three positional arguments) | Lean term              |
|-------------------------------------------------------|------------------------|
| `scipy.stats.norm.pdf(x, loc, scale)`                 | `normPdf x loc scale`  |
| `scipy.stats.norm.cdf(x, loc, scale)`                 | `normCdf x loc scale`  |
| `scipy.stats.norm.sf(x, loc, scale)`                  | `normSf x loc scale`   |

with `normPdf`/`normCdf` *defined* below as Mathlib's density `gaussianPDFReal` and distribution
function `cdf (gaussianReal …)` of the Gaussian with mean `loc` and variance `scale²`, and
`normSf = 1 − normCdf`.  `normPdf_eq` shows that for `scale > 0` this is scipy's documented formula
`exp(−((x−loc)/scale)²/2) / (scale·√(2π))`; `normCdf_eq_integral` that the cdf is the integral of the
pdf over `(−∞, x]`.  (For `scale ≤ 0` scipy returns `nan`; the theorems of C13 assume `0 < scale`.)
The check compares the real scipy functions with an independent 50-digit evaluation of these formulas
on every run (a test of this table).
-/
namespace QG.Lemmas.NormalDist
open MeasureTheory ProbabilityTheory Set Real
open scoped NNReal ENNReal

/-- the variance `scale²` as a non-negative real -/
noncomputable def var (scale : ℝ) : ℝ≥0 := ⟨scale ^ 2, sq_nonneg scale⟩

/-- `scipy.stats.norm.pdf(x, loc, scale)` -/
noncomputable def normPdf (x loc scale : ℝ) : ℝ := gaussianPDFReal loc (var scale) x
/-- `scipy.stats.norm.cdf(x, loc, scale)` -/
noncomputable def normCdf (x loc scale : ℝ) : ℝ := cdf (gaussianReal loc (var scale)) x
/-- `scipy.stats.norm.sf(x, loc, scale)` (survival function) -/
noncomputable def normSf (x loc scale : ℝ) : ℝ := 1 - normCdf x loc scale

theorem var_ne_zero {scale : ℝ} (hs : 0 < scale) : var scale ≠ 0 := by
  intro h
  have : (var scale : ℝ) = 0 := by rw [h]; rfl
  have h2 : scale ^ 2 = 0 := this
  exact (pow_ne_zero 2 hs.ne') h2

/-- the density is scipy's documented formula -/
theorem normPdf_eq {scale : ℝ} (hs : 0 < scale) (x loc : ℝ) :
    normPdf x loc scale = Real.exp (-((x - loc) / scale) ^ 2 / 2) / (scale * √(2 * π)) := by
  unfold normPdf gaussianPDFReal
  have hv : ((var scale : ℝ≥0) : ℝ) = scale ^ 2 := rfl
  rw [hv]
  have h1 : √(2 * π * scale ^ 2) = scale * √(2 * π) := by
    rw [Real.sqrt_mul (by positivity), Real.sqrt_sq hs.le, mul_comm]
  rw [h1]
  have h2 : -(x - loc) ^ 2 / (2 * scale ^ 2) = -((x - loc) / scale) ^ 2 / 2 := by
    field_simp
  rw [h2, inv_mul_eq_div]

theorem normPdf_nonneg (x loc scale : ℝ) : 0 ≤ normPdf x loc scale := gaussianPDFReal_nonneg _ _ _

theorem normPdf_pos {scale : ℝ} (hs : 0 < scale) (x loc : ℝ) : 0 < normPdf x loc scale :=
  gaussianPDFReal_pos _ _ _ (var_ne_zero hs)

theorem normPdf_intervalIntegrable (loc scale a b : ℝ) :
    IntervalIntegrable (fun x => normPdf x loc scale) volume a b :=
  (integrable_gaussianPDFReal loc (var scale)).intervalIntegrable

/-- cdf differences are integrals of the pdf -/
theorem normCdf_sub {scale : ℝ} (hs : 0 < scale) (loc : ℝ) {a b : ℝ} (hab : a ≤ b) :
    normCdf b loc scale - normCdf a loc scale = ∫ x in a..b, normPdf x loc scale := by
  unfold normCdf normPdf
  rw [cdf_eq_real, cdf_eq_real, intervalIntegral.integral_of_le hab]
  have hIoc : Iic b \ Iic a = Ioc a b := by
    ext x; simp [and_comm]
  have hsub : (gaussianReal loc (var scale)).real (Iic b) - (gaussianReal loc (var scale)).real (Iic a)
      = (gaussianReal loc (var scale)).real (Ioc a b) := by
    rw [← hIoc, measureReal_sdiff (Iic_subset_Iic.mpr hab) measurableSet_Iic]
  rw [hsub, Measure.real, gaussianReal_apply_eq_integral loc (var_ne_zero hs),
    ENNReal.toReal_ofReal (setIntegral_nonneg measurableSet_Ioc fun x _ => gaussianPDFReal_nonneg loc _ x)]

/-- the cdf is the integral of the pdf over `(−∞, x]` -/
theorem normCdf_eq_integral {scale : ℝ} (hs : 0 < scale) (loc x : ℝ) :
    normCdf x loc scale = ∫ t in Iic x, normPdf t loc scale := by
  unfold normCdf normPdf
  rw [cdf_eq_real, Measure.real, gaussianReal_apply_eq_integral loc (var_ne_zero hs),
    ENNReal.toReal_ofReal (setIntegral_nonneg measurableSet_Iic fun x _ => gaussianPDFReal_nonneg loc _ x)]

theorem normCdf_mono (loc scale : ℝ) : Monotone fun x => normCdf x loc scale :=
  monotone_cdf _

/-- the weight of every non-degenerate interval is positive -/
theorem normCdf_sub_pos {scale : ℝ} (hs : 0 < scale) (loc : ℝ) {a b : ℝ} (hab : a < b) :
    0 < normCdf b loc scale - normCdf a loc scale := by
  rw [normCdf_sub hs loc hab.le]
  apply intervalIntegral.intervalIntegral_pos_of_pos_on
  · exact normPdf_intervalIntegrable loc scale a b
  · intro x _; exact normPdf_pos hs x loc
  · exact hab

end QG.Lemmas.NormalDist
