import QG.Lemmas.Algorithms

/-!
Helper lemmas for C18, part 2: the QFT rotations on an arbitrary basis ket.

1. `rotations_ket` (product form, read off the circuit): for every basis ket `|b⟩`
   `run (qftRotations n) |b⟩ = rⁿ Σ_{t ⊆ {0..n-1}} (∏_{q ∈ t} e_q(b)) |t⟩` with
   `e_q(b) = (−1)^{b_q} ∏_{i<q} (w (q−i))^{b_i}` — qubit `q` is processed while the qubits below it
   still hold their input bits, and later blocks never touch it again.
2. `ePh_eq_pow`: with `w 0 = −1`, `(w (k+1))² = w k` this is `e_q(b) = (w q)^{val (q+1) b}`.
3. `prod_ePh_eq_dft`: `∏_{q ∈ t} e_q(b) = (w (n−1))^{val n b · revVal n t}` — the DFT kernel with the
   output bits reversed.
-/
namespace QG.Lemmas.Algorithms
open QG.Model.Algorithms QG.Spec.Ket

noncomputable section

variable (r : ℂ) (w w' : ℕ → ℂ)

/-- the phase the block of qubit `q` puts on `|1⟩_q`, as the circuit produces it -/
def ePh (q : ℕ) (b : Bits) : ℂ :=
  (if b q then (-1 : ℂ) else 1) * ∏ i ∈ Finset.range q, (if b i then w (q - i) else 1)

/-- a run of controlled phases onto the same target multiplies a ket by the product of the phases -/
theorem run_cps_ket (n m : ℕ) (f : ℕ → ℕ) (c : Bits) :
    runP r w w' ((List.range m).map fun i => Gate.cp false (f i) i n) (ket c)
      = (∏ i ∈ Finset.range m, if c i && c n then w (f i) else 1) • ket c := by
  induction m with
  | zero => simp
  | succ m ih =>
    rw [List.range_succ, List.map_append, runP_append_apply, ih]
    simp only [List.map_cons, List.map_nil, runP_cons, runP_nil, LinearMap.id_apply, map_smul, semP,
      lin_ket]
    rw [smul_smul, Finset.prod_range_succ]
    simp

theorem setLow_zero (b : Bits) (t : Finset ℕ) : setLow 0 b t = b := by
  funext q; simp [setLow]

theorem setLow_upd_false (n : ℕ) (b : Bits) (t : Finset ℕ) (hn : n ∉ t) :
    setLow n (upd b n false) t = setLow (n + 1) b t := by
  funext q
  simp only [setLow, upd]
  by_cases h1 : q < n
  · have : q < n + 1 := by omega
    simp [h1, this]
  · by_cases h2 : q = n
    · subst h2; simp [hn]
    · have : ¬ q < n + 1 := by omega
      simp [h1, this, h2]

theorem setLow_upd_true (n : ℕ) (b : Bits) (t : Finset ℕ) :
    setLow n (upd b n true) t = setLow (n + 1) b (insert n t) := by
  funext q
  simp only [setLow, upd]
  by_cases h1 : q < n
  · have h3 : q < n + 1 := by omega
    have h4 : q ≠ n := by omega
    simp [h1, h3, h4]
  · by_cases h2 : q = n
    · subst h2; simp
    · have : ¬ q < n + 1 := by omega
      simp [h1, this, h2]

theorem ePh_upd (q n : ℕ) (hq : q < n) (b : Bits) (x : Bool) : ePh w q (upd b n x) = ePh w q b := by
  unfold ePh
  have h1 : upd b n x q = b q := by simp [upd, Function.update, Nat.ne_of_lt hq]
  rw [h1]
  congr 1
  refine Finset.prod_congr rfl fun i hi => ?_
  have : i ≠ n := by have := Finset.mem_range.mp hi; omega
  simp [upd, Function.update, this]

/-- **product form** of the QFT rotations on an arbitrary basis ket -/
theorem rotations_ket (n : ℕ) : ∀ b : Bits,
    runP r w w' (qftRotations n) (ket b)
      = r ^ n • ∑ t ∈ (Finset.range n).powerset, (∏ q ∈ t, ePh w q b) • ket (setLow n b t) := by
  induction n with
  | zero => intro b; simp [qftRotations, setLow_zero]
  | succ n ih =>
    intro b
    rw [qftRotations, runP_append_apply, runP_cons]
    have hh : semP r w w' (.h n) (ket b)
        = r • (ket (upd b n false) + (if b n then (-1 : ℂ) else 1) • ket (upd b n true)) := by
      simp [semP]
    have p0 : (∏ i ∈ Finset.range n,
        if upd b n false i && upd b n false n then w (n - i) else 1) = 1 := by
      simp [upd]
    have p1 : (∏ i ∈ Finset.range n, if upd b n true i && upd b n true n then w (n - i) else 1)
        = ∏ i ∈ Finset.range n, if b i then w (n - i) else 1 := by
      refine Finset.prod_congr rfl fun i hi => ?_
      have : i ≠ n := by have := Finset.mem_range.mp hi; omega
      simp [upd, Function.update, this]
    rw [hh]
    simp only [map_smul, map_add]
    rw [run_cps_ket, run_cps_ket, p0, p1, one_smul]
    simp only [map_smul]
    rw [ih, ih]
    have hA : ∀ t ∈ (Finset.range n).powerset,
        (∏ q ∈ t, ePh w q (upd b n false)) • ket (setLow n (upd b n false) t)
          = (∏ q ∈ t, ePh w q b) • ket (setLow (n + 1) b t) := by
      intro t ht
      have hsub := Finset.mem_powerset.mp ht
      have hn : n ∉ t := fun h => by have := Finset.mem_range.mp (hsub h); omega
      rw [setLow_upd_false n b t hn]
      congr 1
      exact Finset.prod_congr rfl fun q hq => ePh_upd w q n (Finset.mem_range.mp (hsub hq)) b false
    have hB : ∀ t ∈ (Finset.range n).powerset,
        (∏ q ∈ t, ePh w q (upd b n true)) • ket (setLow n (upd b n true) t)
          = (∏ q ∈ t, ePh w q b) • ket (setLow (n + 1) b (insert n t)) := by
      intro t ht
      have hsub := Finset.mem_powerset.mp ht
      rw [setLow_upd_true n b t]
      congr 1
      exact Finset.prod_congr rfl fun q hq => ePh_upd w q n (Finset.mem_range.mp (hsub hq)) b true
    rw [Finset.sum_congr rfl hA, Finset.sum_congr rfl hB, Finset.range_add_one,
      Finset.sum_powerset_insert (by simp)]
    have hC : ∀ t ∈ (Finset.range n).powerset,
        (∏ q ∈ insert n t, ePh w q b) • ket (setLow (n + 1) b (insert n t))
          = (ePh w n b * ∏ q ∈ t, ePh w q b) • ket (setLow (n + 1) b (insert n t)) := by
      intro t ht
      have hsub := Finset.mem_powerset.mp ht
      have hn : n ∉ t := fun h => by have := Finset.mem_range.mp (hsub h); omega
      rw [Finset.prod_insert hn]
    rw [Finset.sum_congr rfl hC]
    simp only [smul_add, Finset.smul_sum, smul_smul, pow_succ]
    congr 1
    · refine Finset.sum_congr rfl fun t _ => ?_
      congr 1; ring
    · refine Finset.sum_congr rfl fun t _ => ?_
      congr 1
      unfold ePh
      ring

/-! ### from the product form to the Fourier kernel -/

variable (hw0 : w 0 = -1) (hw2 : ∀ k, w (k + 1) ^ 2 = w k)

include hw2 in
theorem w_pow_two_pow (k j : ℕ) : w (k + j) ^ 2 ^ j = w k := by
  induction j with
  | zero => simp
  | succ j ih => rw [← add_assoc, pow_succ', pow_mul, hw2, ih]

include hw0 hw2 in
theorem w_pow_two_pow_high (q m : ℕ) (hm : q < m) : w q ^ 2 ^ m = 1 := by
  obtain ⟨d, rfl⟩ : ∃ d, m = q + (d + 1) := ⟨m - q - 1, by omega⟩
  have h := w_pow_two_pow w hw2 0 q
  rw [zero_add] at h
  rw [pow_add, pow_mul, h, hw0, pow_succ', pow_mul]
  simp

theorem val_succ (m : ℕ) (b : Bits) : val (m + 1) b = val m b + (if b m then 2 ^ m else 0) := by
  simp [val, Finset.sum_range_succ]

include hw0 hw2 in
/-- the circuit's phase on qubit `q` is `(w q)^{Σ_{i≤q} b_i 2^i}` -/
theorem ePh_eq_pow (q : ℕ) (b : Bits) : ePh w q b = w q ^ val (q + 1) b := by
  unfold ePh val
  rw [← Finset.prod_pow_eq_pow_sum, Finset.prod_range_succ, mul_comm]
  congr 1
  · refine Finset.prod_congr rfl fun i hi => ?_
    have hi' : i < q := Finset.mem_range.mp hi
    by_cases hb : b i
    · have h := w_pow_two_pow w hw2 (q - i) i
      rw [Nat.sub_add_cancel hi'.le] at h
      simp [hb, h]
    · simp [hb]
  · by_cases hb : b q
    · have h := w_pow_two_pow w hw2 0 q
      rw [zero_add] at h
      simp [hb, h, hw0]
    · simp [hb]

include hw0 hw2 in
theorem w_pow_val_high (q : ℕ) (b : Bits) (m : ℕ) (hm : q + 1 ≤ m) :
    w q ^ val m b = w q ^ val (q + 1) b := by
  induction m, hm using Nat.le_induction with
  | base => rfl
  | succ m hm ih =>
    rw [val_succ, pow_add, ih]
    by_cases hb : b m
    · simp [hb, w_pow_two_pow_high w hw0 hw2 q m (by omega)]
    · simp [hb]

theorem revVal_ind (n : ℕ) (t : Finset ℕ) (ht : t ⊆ Finset.range n) :
    revVal n (ind t) = ∑ q ∈ t, 2 ^ (n - 1 - q) := by
  unfold revVal ind
  simp only [decide_eq_true_eq]
  rw [← Finset.sum_filter]
  congr 1
  ext q
  simp only [Finset.mem_filter, Finset.mem_range]
  constructor
  · exact fun h => h.2
  · exact fun h => ⟨Finset.mem_range.mp (ht h), h⟩

include hw0 hw2 in
/-- the product of the circuit's phases is the Fourier kernel with the output bits reversed -/
theorem prod_ePh_eq_dft (n : ℕ) (b : Bits) (t : Finset ℕ) (ht : t ⊆ Finset.range n) :
    ∏ q ∈ t, ePh w q b = w (n - 1) ^ (val n b * revVal n (ind t)) := by
  rw [revVal_ind n t ht, Finset.mul_sum, ← Finset.prod_pow_eq_pow_sum]
  refine Finset.prod_congr rfl fun q hq => ?_
  have hq' : q < n := Finset.mem_range.mp (ht hq)
  rw [ePh_eq_pow w hw0 hw2, mul_comm, pow_mul]
  have h := w_pow_two_pow w hw2 q (n - 1 - q)
  rw [show q + (n - 1 - q) = n - 1 by omega] at h
  rw [h, w_pow_val_high w hw0 hw2 q b n (by omega)]

/-- `revVal` is `val` of the bit-reversed pattern -/
theorem revVal_eq_val_reflect (n : ℕ) (b : Bits) : revVal n b = val n (fun q => b (n - 1 - q)) := by
  unfold revVal val
  rw [← Finset.sum_range_reflect]
  refine Finset.sum_congr rfl fun q hq => ?_
  have : q < n := Finset.mem_range.mp hq
  rw [show n - 1 - (n - 1 - q) = q by omega]

/-- coefficient extraction: the amplitude of `|t⟩` in a combination indexed by subsets -/
theorem sum_ket_ind_apply (S : Finset (Finset ℕ)) (c : Finset ℕ → ℂ) (t : Finset ℕ) (ht : t ∈ S) :
    (∑ u ∈ S, c u • ket (ind u)) (ind t) = c t := by
  rw [Finsupp.finsetSum_apply]
  simp only [ket, Finsupp.smul_apply, smul_eq_mul]
  rw [Finset.sum_eq_single t]
  · simp
  · intro u _ hu
    have : ind u ≠ ind t := fun h => hu (ind_injective h)
    simp [this]
  · intro h; exact absurd ht h

theorem setLow_ind (n : ℕ) (s t : Finset ℕ) (hs : s ⊆ Finset.range n) (ht : t ⊆ Finset.range n) :
    setLow n (ind s) t = ind t := by
  funext q
  simp only [setLow, ind]
  by_cases h : q < n
  · simp [h]
  · have h1 : q ∉ s := fun hq => h (Finset.mem_range.mp (hs hq))
    have h2 : q ∉ t := fun hq => h (Finset.mem_range.mp (ht hq))
    simp [h, h1, h2]

end

end QG.Lemmas.Algorithms
