import Mathlib.Data.List.Basic
import Mathlib.Tactic
import QG.Model.Calibration

/-! Helper lemmas for C20 (`load_from_backend`).  Property theorems are in `QG/Props/C20.lean`. -/
namespace QG.Lemmas.Calibration
open QG.Model.Calibration

variable {Val : Type}

/-! ### per-qubit comprehensions -/

theorem perQubit_ok_iff (m : List (Nat × Val)) (L : List Nat) (vs : List Val) :
    perQubit m L = .ok vs ↔ vs.map some = L.map (fun q => List.lookup q m) := by
  induction L generalizing vs with
  | nil => cases vs <;> simp [perQubit]
  | cons q L ih =>
    simp only [perQubit, List.map_cons]
    cases hq : List.lookup q m with
    | none =>
      simp only [reduceCtorEq, false_iff]
      intro h
      cases vs with
      | nil => simp at h
      | cons v vs => simp at h
    | some v =>
      cases hr : perQubit m L with
      | error e =>
        simp only [reduceCtorEq, false_iff]
        intro h
        cases vs with
        | nil => simp at h
        | cons w ws =>
          simp only [List.map_cons, List.cons.injEq] at h
          have := (ih ws).mpr h.2
          rw [hr] at this
          cases this
      | ok ws =>
        have hws := (ih ws).mp hr
        constructor
        · intro h
          cases h
          simp [hws]
        · intro h
          cases vs with
          | nil => simp at h
          | cons w ws' =>
            simp only [List.map_cons, List.cons.injEq, Option.some.injEq] at h
            have := (ih ws').mpr h.2
            rw [hr] at this
            cases this
            rw [h.1]

theorem perQubit_error_iff (m : List (Nat × Val)) (L : List Nat) (e : Err) :
    perQubit m L = .error e ↔ e = .property ∧ ∃ q ∈ L, List.lookup q m = none := by
  induction L with
  | nil => simp [perQubit]
  | cons q L ih =>
    simp only [perQubit]
    cases hq : List.lookup q m with
    | none =>
      simp only [Except.error.injEq, List.mem_cons, exists_eq_or_imp, hq, true_or, and_true]
      exact eq_comm
    | some v =>
      cases hr : perQubit m L with
      | error e' =>
        have := ih.mp
        simp only [Except.error.injEq, List.mem_cons, exists_eq_or_imp, hq, reduceCtorEq, false_or]
        rw [hr] at ih
        simpa using ih
      | ok ws =>
        simp only [reduceCtorEq, List.mem_cons, exists_eq_or_imp, hq, false_or, false_iff]
        rw [hr] at ih
        simpa using ih

/-- a comprehension succeeds exactly when every requested qubit has the property -/
theorem perQubit_isOk_iff (m : List (Nat × Val)) (L : List Nat) :
    (∃ vs, perQubit m L = .ok vs) ↔ ∀ q ∈ L, (List.lookup q m).isSome := by
  constructor
  · rintro ⟨vs, h⟩ q hq
    by_contra hn
    have : perQubit m L = .error .property :=
      (perQubit_error_iff m L .property).mpr ⟨rfl, q, hq, Option.not_isSome_iff_eq_none.mp hn⟩
    rw [h] at this
    cases this
  · intro h
    cases hr : perQubit m L with
    | ok vs => exact ⟨vs, rfl⟩
    | error e =>
      obtain ⟨_, q, hq, hn⟩ := (perQubit_error_iff m L e).mp hr
      have := h q hq
      rw [hn] at this
      cases this

/-! ### `np.max` -/

theorem foldl_max_spec (L : List Nat) (q : Nat) :
    (L.foldl max q = q ∨ L.foldl max q ∈ L) ∧ q ≤ L.foldl max q ∧ ∀ x ∈ L, x ≤ L.foldl max q := by
  induction L generalizing q with
  | nil => simp
  | cons a L ih =>
    simp only [List.foldl_cons, List.mem_cons, forall_eq_or_imp]
    obtain ⟨h1, h2, h3⟩ := ih (max q a)
    refine ⟨?_, by omega, by omega, h3⟩
    rcases h1 with h | h
    · rw [h]
      rcases Nat.le_total q a with hqa | hqa
      · right; left; omega
      · left; omega
    · right; right; exact h

theorem maxLabel_eq_some_iff (L : List Nat) (M : Nat) :
    maxLabel L = some M ↔ M ∈ L ∧ ∀ q ∈ L, q ≤ M := by
  cases L with
  | nil => simp [maxLabel]
  | cons q L =>
    simp only [maxLabel, Option.some.injEq, List.mem_cons, forall_eq_or_imp]
    obtain ⟨h1, h2, h3⟩ := foldl_max_spec L q
    constructor
    · rintro rfl
      exact ⟨by tauto, h2, h3⟩
    · rintro ⟨hM, hq, hL⟩
      apply Nat.le_antisymm
      · rcases h1 with h | h
        · omega
        · exact hL _ h
      · rcases hM with rfl | hM
        · exact h2
        · exact h3 _ hM

theorem maxLabel_eq_none_iff (L : List Nat) : maxLabel L = none ↔ L = [] := by
  cases L <;> simp [maxLabel]

/-! ### the supported gates of the basis and their calibration tables -/

theorem mem_natives_iff (basis : List String) (g : String) :
    g ∈ natives basis ↔ g ∈ basis ∧ (g = "ecr" ∨ g = "cx") := by
  simp [natives]

theorem natives_eq_nil_iff (basis : List String) :
    natives basis = [] ↔ ∀ x ∈ basis, x ≠ "ecr" ∧ x ≠ "cx" := by
  simp [natives, List.filter_eq_nil_iff]

theorem intInfos_ok_iff (gate2 : List (String × List ((Nat × Nat) × (Val × Val)))) (gs : List String)
    (Gs : List (List ((Nat × Nat) × (Val × Val)))) :
    intInfos gate2 gs = .ok Gs ↔ Gs.map some = gs.map (fun g => List.lookup g gate2) := by
  induction gs generalizing Gs with
  | nil => cases Gs <;> simp [intInfos]
  | cons g gs ih =>
    simp only [intInfos, List.map_cons]
    cases hq : List.lookup g gate2 with
    | none =>
      simp only [reduceCtorEq, false_iff]
      intro h
      cases Gs <;> simp at h
    | some G =>
      cases hr : intInfos gate2 gs with
      | error e =>
        simp only [reduceCtorEq, false_iff]
        intro h
        cases Gs with
        | nil => simp at h
        | cons W Ws =>
          simp only [List.map_cons, List.cons.injEq] at h
          have := (ih Ws).mpr h.2
          rw [hr] at this
          cases this
      | ok Ws =>
        have hws := (ih Ws).mp hr
        constructor
        · intro h
          cases h
          simp [hws]
        · intro h
          cases Gs with
          | nil => simp at h
          | cons W Ws' =>
            simp only [List.map_cons, List.cons.injEq, Option.some.injEq] at h
            have := (ih Ws').mpr h.2
            rw [hr] at this
            cases this
            rw [h.1]

theorem intInfos_error_iff (gate2 : List (String × List ((Nat × Nat) × (Val × Val)))) (gs : List String) (e : Err) :
    intInfos gate2 gs = .error e ↔ e = .property ∧ ∃ g ∈ gs, List.lookup g gate2 = none := by
  induction gs with
  | nil => simp [intInfos]
  | cons g gs ih =>
    simp only [intInfos]
    cases hq : List.lookup g gate2 with
    | none =>
      simp only [Except.error.injEq, List.mem_cons, exists_eq_or_imp, hq, true_or, and_true]
      exact eq_comm
    | some G =>
      cases hr : intInfos gate2 gs with
      | error e' =>
        simp only [Except.error.injEq, List.mem_cons, exists_eq_or_imp, hq, reduceCtorEq, false_or]
        rw [hr] at ih
        simpa using ih
      | ok Ws =>
        simp only [reduceCtorEq, List.mem_cons, exists_eq_or_imp, hq, false_or, false_iff]
        rw [hr] at ih
        simpa using ih

/-- `Gs` tables in basis order: the entry of the first table that has the key -/
def firstHit (Gs : List (List ((Nat × Nat) × (Val × Val)))) (k : Nat × Nat) : Option (Val × Val) :=
  Gs.findSome? fun G => List.lookup k G

theorem firstHit_eq_findSome (gate2 : List (String × List ((Nat × Nat) × (Val × Val)))) (gs : List String)
    (Gs : List (List ((Nat × Nat) × (Val × Val)))) (h : Gs.map some = gs.map (fun g => List.lookup g gate2))
    (k : Nat × Nat) :
    firstHit Gs k = gs.findSome? (fun g => (List.lookup g gate2).bind (List.lookup k)) := by
  induction gs generalizing Gs with
  | nil =>
    cases Gs with
    | nil => rfl
    | cons _ _ => simp at h
  | cons g gs ih =>
    cases Gs with
    | nil => simp at h
    | cons G Gs =>
      simp only [List.map_cons, List.cons.injEq] at h
      simp only [firstHit, List.findSome?_cons, ← h.1, Option.bind_some]
      cases List.lookup k G with
      | some v => rfl
      | none => exact ih Gs h.2

/-! ### tables -/

/-- `t[i][j]` -/
def cell (t : List (List Val)) (i j : Nat) : Option Val := t[i]? >>= fun row => row[j]?

/-- shape `(n, n)` -/
def Square (n : Nat) (t : List (List Val)) : Prop := t.length = n ∧ ∀ row ∈ t, row.length = n

theorem square_zeros (zero : Val) (n : Nat) : Square n (zeros zero n) := by
  refine ⟨by simp [zeros], ?_⟩
  intro row hrow
  simp only [zeros, List.mem_replicate] at hrow
  simp [hrow.2]

theorem cell_zeros (zero : Val) (n i j : Nat) (hi : i < n) (hj : j < n) : cell (zeros zero n) i j = some zero := by
  simp [cell, zeros, hi, hj]

theorem square_setCell (n : Nat) (t : List (List Val)) (i j : Nat) (v : Val) (h : Square n t) :
    Square n (setCell t i j v) := by
  refine ⟨by simp [setCell, h.1], ?_⟩
  intro row hrow
  simp only [setCell] at hrow
  obtain ⟨k, hk, rfl⟩ := List.getElem_of_mem hrow
  rw [List.getElem_modify]
  have hk' : k < t.length := by simpa [List.length_modify] using hk
  split
  · simp only [List.length_set]; exact h.2 _ (List.getElem_mem hk')
  · exact h.2 _ (List.getElem_mem hk')

theorem cell_setCell (n : Nat) (t : List (List Val)) (a b i j : Nat) (v : Val) (h : Square n t)
    (ha : a < n) (hb : b < n) :
    cell (setCell t a b v) i j = if a = i ∧ b = j then some v else cell t i j := by
  simp only [cell, setCell, List.getElem?_modify]
  by_cases hi : i < t.length
  · have hrow : t[i]? = some t[i] := List.getElem?_eq_getElem hi
    have hlen : t[i].length = n := h.2 _ (List.getElem_mem hi)
    rw [hrow]
    by_cases hai : a = i
    · subst hai
      simp only [Option.map_eq_map, Option.map_some, if_true, Option.bind_eq_bind, Option.bind_some, true_and]
      rw [List.getElem?_set]
      by_cases hbj : b = j
      · subst hbj; simp [hlen, hb]
      · simp [hbj]
    · simp [hai]
  · have : t[i]? = none := by simpa using hi
    have hai : a ≠ i := by
      intro e; subst e; rw [h.1] at hi; exact hi ha
    simp [this, hai]

theorem fill_square (n mq : Nat) (G rest : List ((Nat × Nat) × (Val × Val))) (p t : List (List Val))
    (hp : Square n p) (ht : Square n t) :
    Square n (fill mq G rest (p, t)).1 ∧ Square n (fill mq G rest (p, t)).2 := by
  induction rest generalizing p t with
  | nil => exact ⟨hp, ht⟩
  | cons x rest ih =>
    obtain ⟨k, v⟩ := x
    simp only [fill]
    split
    · exact ih p t hp ht
    · split
      · exact ih _ _ (square_setCell n p _ _ _ hp) (square_setCell n t _ _ _ ht)
      · exact ih p t hp ht

/-- after the loop over `rest` (whose keys are keys of the dict `G`), a cell inside the `mq × mq` tables holds the
dict's value if its index pair occurs among the keys of `rest`, and is unchanged otherwise -/
theorem cell_fill (mq : Nat) (hmq : 1 ≤ mq) (G rest : List ((Nat × Nat) × (Val × Val))) (p t : List (List Val))
    (hp : Square mq p) (ht : Square mq t) (hsub : ∀ x ∈ rest, (List.lookup x.1 G).isSome)
    (i j : Nat) (hi : i < mq) (hj : j < mq) :
    cell (fill mq G rest (p, t)).1 i j =
        (if (i, j) ∈ rest.map (·.1) then (List.lookup (i, j) G).map (·.1) else cell p i j) ∧
      cell (fill mq G rest (p, t)).2 i j =
        (if (i, j) ∈ rest.map (·.1) then (List.lookup (i, j) G).map (·.2) else cell t i j) := by
  induction rest generalizing p t with
  | nil => simp [fill]
  | cons x rest ih =>
    obtain ⟨k, v⟩ := x
    have hsub' : ∀ x ∈ rest, (List.lookup x.1 G).isSome := fun x hx => hsub x (List.mem_cons_of_mem _ hx)
    simp only [fill, List.map_cons, List.mem_cons]
    split
    · rename_i hskip
      have hne : (i, j) ≠ k := by
        rintro rfl
        simp only at hskip
        omega
      simp only [hne, false_or]
      exact ih p t hp ht hsub'
    · rename_i hin
      have hk1 : k.1 < mq := by omega
      have hk2 : k.2 < mq := by omega
      split
      · rename_i e l hlk
        obtain ⟨h1, h2⟩ := ih _ _ (square_setCell mq p k.1 k.2 e hp) (square_setCell mq t k.1 k.2 l ht) hsub'
        rw [h1, h2, cell_setCell mq p _ _ _ _ _ hp hk1 hk2, cell_setCell mq t _ _ _ _ _ ht hk1 hk2]
        by_cases hmem : (i, j) ∈ rest.map (·.1)
        · simp [hmem]
        · simp only [List.mem_map] at hmem
          by_cases hkey : (i, j) = k
          · subst hkey
            simp [hlk]
          · have : ¬ (k.1 = i ∧ k.2 = j) := by
              rintro ⟨rfl, rfl⟩; exact hkey rfl
            simp [hkey, this, List.mem_map, hmem]
      · rename_i hlk
        have := hsub (k, v) (by simp)
        rw [hlk] at this
        cases this

theorem lookup_isSome_of_mem {κ α : Type} [BEq κ] [LawfulBEq κ] (G : List (κ × α)) (x : κ × α) (hx : x ∈ G) :
    (List.lookup x.1 G).isSome := by
  induction G with
  | nil => cases hx
  | cons y G ih =>
    obtain ⟨k, v⟩ := y
    rw [List.lookup_cons]
    by_cases h : x.1 = k
    · simp [h]
    · have hb : (x.1 == k) = false := by simpa using h
      rw [hb]
      rcases List.mem_cons.mp hx with rfl | hx
      · exact absurd rfl h
      · exact ih hx

theorem mem_keys_iff_lookup_isSome {κ α : Type} [BEq κ] [LawfulBEq κ] (G : List (κ × α)) (k : κ) :
    k ∈ G.map (·.1) ↔ (List.lookup k G).isSome := by
  induction G with
  | nil => simp
  | cons y G ih =>
    obtain ⟨k', v⟩ := y
    rw [List.lookup_cons]
    by_cases h : k = k'
    · simp [h]
    · have hb : (k == k') = false := by simpa using h
      simp [hb, h, ih]

theorem fillAll_append (mq : Nat) (A B : List (List ((Nat × Nat) × (Val × Val))))
    (acc : List (List Val) × List (List Val)) : fillAll mq (A ++ B) acc = fillAll mq B (fillAll mq A acc) := by
  induction A generalizing acc with
  | nil => rfl
  | cons G A ih => simp only [List.cons_append, fillAll, ih]

theorem fillAll_square (n mq : Nat) (Hs : List (List ((Nat × Nat) × (Val × Val)))) (p t : List (List Val))
    (hp : Square n p) (ht : Square n t) :
    Square n (fillAll mq Hs (p, t)).1 ∧ Square n (fillAll mq Hs (p, t)).2 := by
  induction Hs generalizing p t with
  | nil => exact ⟨hp, ht⟩
  | cons G Hs ih =>
    simp only [fillAll]
    obtain ⟨h1, h2⟩ := fill_square n mq G G p t hp ht
    exact ih _ _ h1 h2

/-- the tables are written in reverse basis order, so inside the `mq × mq` tables a cell ends up with the entry of the
FIRST table (in basis order) that has its index pair as a key, and is unchanged if none has -/
theorem cell_fillAll_reverse (mq : Nat) (hmq : 1 ≤ mq) (Gs : List (List ((Nat × Nat) × (Val × Val))))
    (p t : List (List Val)) (hp : Square mq p) (ht : Square mq t) (i j : Nat) (hi : i < mq) (hj : j < mq) :
    cell (fillAll mq Gs.reverse (p, t)).1 i j =
        (match firstHit Gs (i, j) with | some v => some v.1 | none => cell p i j) ∧
      cell (fillAll mq Gs.reverse (p, t)).2 i j =
        (match firstHit Gs (i, j) with | some v => some v.2 | none => cell t i j) := by
  induction Gs with
  | nil => simp [fillAll, firstHit]
  | cons G Gs ih =>
    obtain ⟨s1, s2⟩ := fillAll_square mq mq Gs.reverse p t hp ht
    have e : fillAll mq (G :: Gs).reverse (p, t) =
        fill mq G G ((fillAll mq Gs.reverse (p, t)).1, (fillAll mq Gs.reverse (p, t)).2) := by
      rw [List.reverse_cons, fillAll_append]
      rfl
    obtain ⟨c1, c2⟩ := cell_fill mq hmq G G _ _ s1 s2 (fun x hx => lookup_isSome_of_mem G x hx) i j hi hj
    rw [e, c1, c2, ih.1, ih.2]
    simp only [firstHit, List.findSome?_cons]
    cases hl : List.lookup (i, j) G with
    | none =>
      have : (i, j) ∉ G.map (·.1) := by rw [mem_keys_iff_lookup_isSome, hl]; simp
      simp [this]
    | some v =>
      have : (i, j) ∈ G.map (·.1) := by rw [mem_keys_iff_lookup_isSome, hl]; rfl
      simp [this]

end QG.Lemmas.Calibration
