import QG.Model.IntegratorCache
/-!
# Lemmas for C10 about `QG.Model.IntegratorCache` (core Lean only)

* Python equality on float64 bit patterns: the only non-identical equal numbers are the two zeros (`Num.pyEq_iff`).
* A key that contains every parameter of `integrate` (after the `float` coercion) determines the request the integration
  routines see up to the sign of a zero (`same_of_key`); the validation is determined as well (`valid_of_same`).
* Cache invariant `Sound`: every entry is `(key r, compute r)` for a validated request `r`.  `integrate_sound`: one
  request preserves it and answers with a value related to the cold answer; `runReqs_sound`, `run_sound` lift this to
  every history on one integrator / on any number of integrators (instance-level `_cache`).
* `integrate_exact`, `prog_run_eq`, `runShots_copied`: exact (bitwise) versions without any assumption on `compute`, for
  requests that do not carry `theta = -0.0`.
-/
namespace QG.IntegratorCache
open QG.Model.IntegratorCache

theorem isZeroBits_iff (b : Nat) : isZeroBits b = true ↔ b = 0 ∨ b = negZeroBits := by
  simp [isZeroBits]

theorem Num.pyEq_refl (x : Num) : x.pyEq x = true := by
  cases x <;> simp [Num.pyEq]

theorem Num.pyEq_iff (x y : Num) :
    x.pyEq y = true ↔ x = y ∨ ((x = .val 0 ∨ x = .val negZeroBits) ∧ (y = .val 0 ∨ y = .val negZeroBits)) := by
  cases x <;> cases y <;> simp [Num.pyEq, isZeroBits]

theorem Num.pos_of_pyEq {x y : Num} (h : x.pyEq y = true) (hx : x.pos = true) : y.pos = true := by
  rcases (Num.pyEq_iff x y).1 h with rfl | ⟨hx0 | hx0, _⟩
  · exact hx
  · subst hx0; simp [Num.pos] at hx
  · subst hx0; simp [Num.pos, negZeroBits, posInfBits] at hx

theorem Num.pos_not_zero {x : Num} (hx : x.pos = true) : x ≠ .val 0 ∧ x ≠ .val negZeroBits := by
  constructor <;> rintro rfl <;> simp [Num.pos, negZeroBits, posInfBits] at hx

/-! ### keys -/
theorem PyVal.pyEq_refl (x : PyVal) : x.pyEq x = true := by
  cases x <;> simp [PyVal.pyEq, Num.pyEq_refl]

theorem Key.pyEq_refl (k : Key) : Key.pyEq k k = true := by
  induction k with
  | nil => rfl
  | cons x xs ih => simp [Key.pyEq, PyVal.pyEq_refl, ih]

/-- a field that is part of the key is determined (up to Python equality) by the key -/
theorem get_pyEq_of_key {fs : List Field} {r r' : Req} {f : Field} (hf : f ∈ fs)
    (h : Key.pyEq (keyOf fs r) (keyOf fs r') = true) : (r.get f).pyEq (r'.get f) = true := by
  induction fs with
  | nil => cases hf
  | cons x xs ih =>
    simp only [keyOf, List.map_cons, Key.pyEq, Bool.and_eq_true] at h
    rcases List.mem_cons.1 hf with rfl | hf
    · exact h.1
    · exact ih hf h.2

/-- conversely, equal fields give equal keys -/
theorem key_pyEq_of_get {fs : List Field} {r r' : Req} (h : ∀ f ∈ fs, (r.get f).pyEq (r'.get f) = true) :
    Key.pyEq (keyOf fs r) (keyOf fs r') = true := by
  induction fs with
  | nil => rfl
  | cons x xs ih =>
    simp only [keyOf, List.map_cons, Key.pyEq, Bool.and_eq_true]
    exact ⟨h x (List.mem_cons_self), ih fun f hf => h f (List.mem_cons_of_mem _ hf)⟩

/-! ### the dictionary -/
variable {V : Type}

theorem lookup_some {c : Cache V} {k : Key} {v : V} (h : c.lookup k = some v) :
    ∃ kv ∈ c, Key.pyEq kv.1 k = true ∧ kv.2 = v := by
  induction c with
  | nil => simp [Cache.lookup] at h
  | cons p t ih =>
    obtain ⟨k', v'⟩ := p
    simp only [Cache.lookup] at h
    split at h
    · rename_i hk
      exact ⟨(k', v'), List.mem_cons_self, hk, by simpa using h⟩
    · obtain ⟨kv, hm, hk⟩ := ih h
      exact ⟨kv, List.mem_cons_of_mem _ hm, hk⟩

theorem lookup_none {c : Cache V} {k : Key} (h : c.lookup k = none) : ∀ kv ∈ c, Key.pyEq kv.1 k = false := by
  induction c with
  | nil => simp
  | cons p t ih =>
    obtain ⟨k', v'⟩ := p
    simp only [Cache.lookup] at h
    split at h
    · cases h
    · rename_i hk
      intro kv hm
      rcases List.mem_cons.1 hm with rfl | hm
      · simpa using hk
      · exact ih h kv hm

/-- after a miss, `d[k] = v` appends -/
theorem store_of_lookup_none {c : Cache V} {k : Key} (v : V) (h : c.lookup k = none) : c.store k v = c ++ [(k, v)] := by
  induction c with
  | nil => rfl
  | cons p t ih =>
    obtain ⟨k', v'⟩ := p
    simp only [Cache.lookup] at h
    split at h
    · cases h
    · rename_i hk
      simp only [Cache.store, hk, List.cons_append]
      simp [ih h]


/-! ### the key determines what the integration routines see -/

/-- two requests are the same for the integration routines up to the sign of a zero (string, numeric types and values) -/
def Same (r r' : Req) : Prop :=
  r.integrand = r'.integrand ∧ r.theta.ty = r'.theta.ty ∧ r.theta.val.pyEq r'.theta.val = true
    ∧ r.a.ty = r'.a.ty ∧ r.a.val.pyEq r'.a.val = true

theorem Same.refl (r : Req) : Same r r := ⟨rfl, rfl, Num.pyEq_refl _, rfl, Num.pyEq_refl _⟩

theorem Num.pyEq_symm {x y : Num} (h : x.pyEq y = true) : y.pyEq x = true := by
  rcases (Num.pyEq_iff x y).1 h with rfl | ⟨a, b⟩
  · exact Num.pyEq_refl _
  · exact (Num.pyEq_iff y x).2 (Or.inr ⟨b, a⟩)

theorem Same.symm {r r' : Req} (h : Same r r') : Same r' r :=
  ⟨h.1.symm, h.2.1.symm, Num.pyEq_symm h.2.2.1, h.2.2.2.1.symm, Num.pyEq_symm h.2.2.2.2⟩

theorem same_of_key {cfg : Config} (hcov : cfg.covers = true) {r r' : Req}
    (h : Key.pyEq (keyOf cfg.keyFields (r.seen cfg.coerced)) (keyOf cfg.keyFields (r'.seen cfg.coerced)) = true) :
    Same (r.seen cfg.coerced) (r'.seen cfg.coerced) := by
  simp only [Config.covers, Bool.and_eq_true, List.contains_iff_mem] at hcov
  obtain ⟨⟨⟨⟨hi, ht⟩, ha⟩, hct⟩, hca⟩ := hcov
  have h1 := get_pyEq_of_key hi h
  have h2 := get_pyEq_of_key ht h
  have h3 := get_pyEq_of_key ha h
  simp only [Req.get, PyVal.pyEq, beq_iff_eq] at h1 h2 h3
  refine ⟨h1, ?_, h2, ?_, h3⟩ <;> simp [Req.seen, hct, hca, Arg.coerce]

theorem valid_of_same {cfg : Config} {r r' : Req} (h : Same r r') (hv : valid cfg r = true) : valid cfg r' = true := by
  simp only [valid, Bool.and_eq_true] at hv ⊢
  exact ⟨h.1 ▸ hv.1, Num.pos_of_pyEq h.2.2.2.2 hv.2⟩

/-! ### the cache invariant -/

/-- every entry was computed, by this integrator's `compute`, from a validated request (in the form the routines see it)
that has exactly this key; `P` restricts the requests considered -/
def Sound (cfg : Config) (compute : Req → V) (P : Req → Prop) (c : Cache V) : Prop :=
  ∀ kv ∈ c, ∃ r0 : Req, P (r0.seen cfg.coerced) ∧ valid cfg (r0.seen cfg.coerced) = true
    ∧ kv.1 = keyOf cfg.keyFields (r0.seen cfg.coerced) ∧ kv.2 = compute (r0.seen cfg.coerced)

theorem Sound.nil {cfg : Config} {compute : Req → V} {P : Req → Prop} : Sound cfg compute P [] := by
  intro kv h; cases h

/-- answers are compared with `Rel` on values; errors must coincide -/
def RelE (Rel : V → V → Prop) : Except Err V → Except Err V → Prop
  | .ok v, .ok w => Rel v w
  | .error e, .error e' => e = e'
  | _, _ => False

theorem cold_eq (cfg : Config) (compute : Req → V) (r : Req) :
    cold cfg compute r = if valid cfg (r.seen cfg.coerced) then .ok (compute (r.seen cfg.coerced)) else .error .assertion := by
  simp only [cold, integrate, Cache.lookup]
  split <;> rfl

/-- one request: the answer is `Rel`-related to the cold answer and the invariant is preserved -/
theorem integrate_sound {cfg : Config} (hcov : cfg.covers = true) {compute : Req → V} {P : Req → Prop}
    {Rel : V → V → Prop}
    (hc : ∀ r r', P r → P r' → valid cfg r = true → Same r r' → Rel (compute r) (compute r'))
    {c : Cache V} (hs : Sound cfg compute P c) (r : Req) (hP : P (r.seen cfg.coerced)) :
    RelE Rel (integrate cfg compute c r).1 (cold cfg compute r) ∧ Sound cfg compute P (integrate cfg compute c r).2 := by
  rw [cold_eq]
  simp only [integrate]
  cases hl : c.lookup (keyOf cfg.keyFields (r.seen cfg.coerced)) with
  | some v =>
    obtain ⟨kv, hm, hk, hv⟩ := lookup_some hl
    obtain ⟨r0, hP0, hv0, hk0, hc0⟩ := hs kv hm
    rw [hk0] at hk
    have hsame := same_of_key hcov hk
    have hvr := valid_of_same hsame hv0
    refine ⟨?_, hs⟩
    simp only [hvr, if_true, RelE]
    rw [← hv, hc0]
    exact hc _ _ hP0 hP hv0 hsame
  | none =>
    by_cases hvr : valid cfg (r.seen cfg.coerced) = true
    · simp only [hvr, if_true, RelE]
      refine ⟨hc _ _ hP hP hvr (Same.refl _), ?_⟩
      rw [store_of_lookup_none _ hl]
      intro kv hm
      rcases List.mem_append.1 hm with hm | hm
      · exact hs kv hm
      · simp only [List.mem_singleton] at hm
        subst hm
        exact ⟨r, hP, hvr, rfl, rfl⟩
    · simp only [hvr, RelE]
      exact ⟨trivial, hs⟩


/-! ### histories on one integrator -/

theorem runReqs_sound {cfg : Config} (hcov : cfg.covers = true) {compute : Req → V} {P : Req → Prop}
    {Rel : V → V → Prop}
    (hc : ∀ r r', P r → P r' → valid cfg r = true → Same r r' → Rel (compute r) (compute r')) :
    ∀ (rs : List Req) (c : Cache V), Sound cfg compute P c → (∀ r ∈ rs, P (r.seen cfg.coerced)) →
      Sound cfg compute P (runReqs cfg compute c rs).1 ∧ (runReqs cfg compute c rs).2.length = rs.length ∧
      ∀ p ∈ rs.zip (runReqs cfg compute c rs).2, RelE Rel p.2 (cold cfg compute p.1) := by
  intro rs
  induction rs with
  | nil => intro c hs _; exact ⟨hs, rfl, by simp [runReqs]⟩
  | cons r rs ih =>
    intro c hs hP
    obtain ⟨h1, h2⟩ := integrate_sound hcov hc hs r (hP r List.mem_cons_self)
    obtain ⟨h3, h4, h5⟩ := ih _ h2 fun r' hr' => hP r' (List.mem_cons_of_mem _ hr')
    refine ⟨h3, by simp [runReqs, h4], ?_⟩
    intro p hp
    simp only [runReqs, List.zip_cons_cons, List.mem_cons] at hp
    rcases hp with rfl | hp
    · exact h1
    · exact h5 p hp

/-! ### exactness: without a negative-zero angle, equal keys are identical requests -/

/-- the request does not carry `theta = -0.0` -/
def NoNegZero (r : Req) : Prop := r.theta.val ≠ .val negZeroBits

instance (r : Req) : Decidable (NoNegZero r) := by unfold NoNegZero; infer_instance

theorem same_eq {cfg : Config} {r r' : Req} (h : Same r r') (hr : NoNegZero r) (hr' : NoNegZero r')
    (hv : valid cfg r = true) : r = r' := by
  obtain ⟨h1, h2, h3, h4, h5⟩ := h
  have ha : r.a.val = r'.a.val := by
    simp only [valid, Bool.and_eq_true] at hv
    have := Num.pos_not_zero hv.2
    rcases (Num.pyEq_iff _ _).1 h5 with h | ⟨h | h, _⟩
    · exact h
    · exact absurd h this.1
    · exact absurd h this.2
  have ht : r.theta.val = r'.theta.val := by
    rcases (Num.pyEq_iff _ _).1 h3 with h | ⟨h | h, h' | h'⟩
    · exact h
    · rw [h, h']
    · exact absurd h' hr'
    · exact absurd h hr
    · exact absurd h hr
  obtain ⟨i, ⟨tt, tv⟩, ⟨at', av⟩⟩ := r
  obtain ⟨i', ⟨tt', tv'⟩, ⟨at'', av'⟩⟩ := r'
  simp_all

theorem RelE_eq {x y : Except Err V} : RelE (· = ·) x y ↔ x = y := by
  cases x <;> cases y <;> simp [RelE]

/-- exact form of `integrate_sound`: no assumption on `compute` at all -/
theorem integrate_exact {cfg : Config} (hcov : cfg.covers = true) {compute : Req → V}
    {c : Cache V} (hs : Sound cfg compute NoNegZero c) (r : Req) (hP : NoNegZero (r.seen cfg.coerced)) :
    (integrate cfg compute c r).1 = cold cfg compute r ∧ Sound cfg compute NoNegZero (integrate cfg compute c r).2 := by
  have := integrate_sound (Rel := (· = ·)) hcov
    (fun r r' hr hr' hv hsame => by rw [same_eq hsame hr hr' hv]) hs r hP
  exact ⟨RelE_eq.1 this.1, this.2⟩


/-! ### several integrators in one process -/

/-- pulses of the objects created by a history of events (object ids are assigned in creation order) -/
def pulsesOf : List Nat → List Event → List Nat
  | ps, [] => ps
  | ps, .new p :: es => pulsesOf (ps ++ [p]) es
  | ps, .copy i :: es =>
    match ps[i]? with
    | some p => pulsesOf (ps ++ [p]) es
    | none => pulsesOf ps es
  | ps, .req _ _ :: es => pulsesOf ps es

/-- invariant of the process state when `_cache` is an instance attribute -/
structure WInv (cfg : Config) (compute : Nat → Req → V) (P : Req → Prop) (w : World V) : Prop where
  loc_lt : ∀ o ∈ w.objs, o.loc < w.cells.length
  same_loc : ∀ o ∈ w.objs, ∀ o' ∈ w.objs, o.loc = o'.loc → o.pulse = o'.pulse
  sound : ∀ o ∈ w.objs, Sound cfg (compute o.pulse) P (w.cells.getD o.loc [])

theorem WInv.init {cfg : Config} {compute : Nat → Req → V} {P : Req → Prop} : WInv cfg compute P World.init :=
  ⟨by simp [World.init], by simp [World.init], by simp [World.init]⟩

theorem getD_append_left {α : Type} (l : List α) (x d : α) {i : Nat} (h : i < l.length) :
    (l ++ [x]).getD i d = l.getD i d := by
  simp [List.getD_eq_getElem?_getD, List.getElem?_append_left h]

theorem getD_append_length {α : Type} (l : List α) (x d : α) : (l ++ [x]).getD l.length d = x := by
  simp [List.getD_eq_getElem?_getD]

theorem winv_alloc {cfg : Config} {compute : Nat → Req → V} {P : Req → Prop} {w : World V}
    (hw : WInv cfg compute P w) (p : Nat) (c : Cache V) (hc : Sound cfg (compute p) P c) :
    WInv cfg compute P ⟨w.cells ++ [c], w.objs ++ [⟨p, w.cells.length⟩]⟩ := by
  constructor
  · intro o ho
    simp only [List.mem_append, List.mem_singleton] at ho
    rcases ho with ho | rfl
    · have := hw.loc_lt o ho; simp; omega
    · simp
  · intro o ho o' ho' hl
    simp only [List.mem_append, List.mem_singleton] at ho ho'
    rcases ho with ho | rfl <;> rcases ho' with ho' | rfl
    · exact hw.same_loc o ho o' ho' hl
    · have := hw.loc_lt o ho; simp at hl; omega
    · have := hw.loc_lt o' ho'; simp at hl; omega
    · rfl
  · intro o ho
    simp only [List.mem_append, List.mem_singleton] at ho
    rcases ho with ho | rfl
    · show Sound cfg (compute o.pulse) P ((w.cells ++ [c]).getD o.loc [])
      rw [getD_append_left _ _ _ (hw.loc_lt o ho)]; exact hw.sound o ho
    · show Sound cfg (compute p) P ((w.cells ++ [c]).getD w.cells.length [])
      rw [getD_append_length]; exact hc

/-- one event: the invariant is preserved, the object table grows as `pulsesOf` says, and a request is answered with a
value `Rel`-related to the cold answer of an integrator with that object's pulse -/
theorem step_sound {cfg : Config} (hcov : cfg.covers = true) {compute : Nat → Req → V} {P : Req → Prop}
    {Rel : V → V → Prop}
    (hc : ∀ p r r', P r → P r' → valid cfg r = true → Same r r' → Rel (compute p r) (compute p r'))
    {w : World V} (hw : WInv cfg compute P w) (e : Event)
    (hP : ∀ i r, e = .req i r → P (r.seen cfg.coerced)) :
    WInv cfg compute P (step cfg true compute w e).1 ∧
    (step cfg true compute w e).1.objs.map (·.pulse) = pulsesOf (w.objs.map (·.pulse)) [e] ∧
    ∀ i r, e = .req i r → ∀ p, (w.objs.map (·.pulse))[i]? = some p →
      ∃ hit res, (step cfg true compute w e).2 = .result hit res ∧ RelE Rel res (cold cfg (compute p) r) := by
  cases e with
  | new p =>
    refine ⟨?_, ?_, ?_⟩
    · simpa [step] using winv_alloc hw p [] Sound.nil
    · simp [step, pulsesOf]
    · intro i r h; cases h
  | copy i =>
    cases ho : w.objs[i]? with
    | none =>
      refine ⟨by simpa [step, ho] using hw, ?_, ?_⟩
      · simp [step, ho, pulsesOf]
      · intro i r h; cases h
    | some o =>
      have hom : o ∈ w.objs := List.mem_of_getElem? ho
      refine ⟨?_, ?_, ?_⟩
      · simpa [step, ho] using winv_alloc hw o.pulse _ (hw.sound o hom)
      · simp [step, ho, pulsesOf]
      · intro i r h; cases h
  | req i r =>
    cases ho : w.objs[i]? with
    | none =>
      refine ⟨by simpa [step, ho] using hw, by simp [step, ho, pulsesOf], ?_⟩
      intro i' r' h p hp
      cases h
      simp [ho] at hp
    | some o =>
      have hom : o ∈ w.objs := List.mem_of_getElem? ho
      obtain ⟨h1, h2⟩ := integrate_sound hcov (hc o.pulse) (hw.sound o hom) r (hP i r rfl)
      refine ⟨?_, by simp [step, ho, pulsesOf], ?_⟩
      · simp only [step, ho]
        constructor
        · intro o' ho'; simpa using hw.loc_lt o' ho'
        · exact hw.same_loc
        · intro o' ho'
          by_cases hl : o'.loc = o.loc
          · have hp := hw.same_loc o' ho' o hom hl
            have hlt := hw.loc_lt o hom
            simpa [List.getD_eq_getElem?_getD, hl, hlt, hp] using h2
          · have : (w.cells.set o.loc (integrate cfg (compute o.pulse) (w.cells.getD o.loc []) r).2).getD o'.loc []
                = w.cells.getD o'.loc [] := by
              simp [List.getD_eq_getElem?_getD, List.getElem?_set_ne (Ne.symm hl)]
            rw [this]; exact hw.sound o' ho'
      · intro i' r' h p hp
        cases h
        simp only [List.getElem?_map, ho, Option.map_some, Option.some.injEq] at hp
        subst hp
        exact ⟨_, _, by simp only [step, ho]; rfl, h1⟩


theorem pulsesOf_cons (ps : List Nat) (e : Event) (es : List Event) :
    pulsesOf ps (e :: es) = pulsesOf (pulsesOf ps [e]) es := by
  cases e with
  | new p => simp [pulsesOf]
  | copy i => simp only [pulsesOf]; split <;> rfl
  | req i r => simp [pulsesOf]

/-- every history of events: each request is answered with a value `Rel`-related to the cold answer of an integrator
built from the pulse of the object it was sent to -/
theorem run_sound {cfg : Config} (hcov : cfg.covers = true) {compute : Nat → Req → V} {P : Req → Prop}
    {Rel : V → V → Prop}
    (hc : ∀ p r r', P r → P r' → valid cfg r = true → Same r r' → Rel (compute p r) (compute p r')) :
    ∀ (es : List Event) (w : World V), WInv cfg compute P w →
      (∀ e ∈ es, ∀ i r, e = .req i r → P (r.seen cfg.coerced)) →
      ∀ k i r p, es[k]? = some (.req i r) → (pulsesOf (w.objs.map (·.pulse)) (es.take k))[i]? = some p →
        ∃ hit res, (run cfg true compute w es).2[k]? = some (.result hit res) ∧
          RelE Rel res (cold cfg (compute p) r) := by
  intro es
  induction es with
  | nil => intro w _ _ k i r p h; simp at h
  | cons e es ih =>
    intro w hw hP k i r p hk hp
    obtain ⟨h1, h2, h3⟩ := step_sound hcov hc hw e (fun i r he => hP e List.mem_cons_self i r he)
    cases k with
    | zero =>
      simp only [List.getElem?_cons_zero, Option.some.injEq] at hk
      simp only [List.take_zero, pulsesOf] at hp
      obtain ⟨hit, res, h4, h5⟩ := h3 i r hk p hp
      exact ⟨hit, res, by simp [run, h4], h5⟩
    | succ k =>
      simp only [List.getElem?_cons_succ] at hk
      simp only [List.take_succ_cons] at hp
      rw [pulsesOf_cons, ← h2] at hp
      obtain ⟨hit, res, h4, h5⟩ := ih _ h1 (fun e' he' => hP e' (List.mem_cons_of_mem _ he')) k i r p hk hp
      exact ⟨hit, res, by simpa [run] using h4, h5⟩

/-! ### sampling programs -/
variable {G M : Type}

/-- warm and cold caches give the same sample and leave the generator in the same state: no assumption on `compute`,
the requests of the run must not carry `theta = -0.0` -/
theorem prog_run_eq {cfg : Config} (hcov : cfg.covers = true) {compute : Req → V} {rng : Rng G V} (p : Prog V M) :
    ∀ (g : G) (c1 c2 : Cache V), Sound cfg compute NoNegZero c1 → Sound cfg compute NoNegZero c2 →
      (∀ r ∈ p.reqs cfg compute rng g c2, NoNegZero (r.seen cfg.coerced)) →
      (p.run cfg compute rng g c1).1 = (p.run cfg compute rng g c2).1 ∧
      (p.run cfg compute rng g c1).2.1 = (p.run cfg compute rng g c2).2.1 ∧
      Sound cfg compute NoNegZero (p.run cfg compute rng g c1).2.2 ∧
      Sound cfg compute NoNegZero (p.run cfg compute rng g c2).2.2 := by
  induction p with
  | ret m => intro g c1 c2 h1 h2 _; exact ⟨rfl, rfl, h1, h2⟩
  | integ r k ih =>
    intro g c1 c2 h1 h2 hr
    have hPr : NoNegZero (r.seen cfg.coerced) := by
      apply hr
      simp only [Prog.reqs]
      split <;> simp
    obtain ⟨e1, s1⟩ := integrate_exact hcov h1 r hPr
    obtain ⟨e2, s2⟩ := integrate_exact hcov h2 r hPr
    rcases hi1 : integrate cfg compute c1 r with ⟨res1, c1'⟩
    rcases hi2 : integrate cfg compute c2 r with ⟨res2, c2'⟩
    rw [hi1] at e1 s1
    rw [hi2] at e2 s2
    simp only at e1 e2 s1 s2
    have : res1 = res2 := e1.trans e2.symm
    subst this
    simp only [Prog.reqs, hi2] at hr
    simp only [Prog.run, hi1, hi2]
    cases res1 with
    | error e => exact ⟨rfl, rfl, s1, s2⟩
    | ok v =>
      simp only at hr ⊢
      exact ih v g c1' c2' s1 s2 fun r' hr' => hr r' (List.mem_cons_of_mem _ hr')
  | normal mean std k ih =>
    intro g c1 c2 h1 h2 hr
    simp only [Prog.run]
    exact ih _ _ c1 c2 h1 h2 (by simpa [Prog.reqs] using hr)
  | mvn mean cov k ih =>
    intro g c1 c2 h1 h2 hr
    simp only [Prog.run]
    exact ih _ _ c1 c2 h1 h2 (by simpa [Prog.reqs] using hr)


/-! ### the sequential shot loop -/
variable {S : Type}

/-- with per-shot deep copies, a sequential run does not depend on the contents of the gate set's integrator cache, leaves the
caller's objects (`s`, the cache) as they were, and consumes the generator identically -/
theorem runShots_copied {cfg : Config} (hcov : cfg.covers = true) {compute : Req → V} {rng : Rng G V}
    (shot : S → Prog V (M × S)) (s : S)
    (hreq : ∀ g c, ∀ r ∈ (shot s).reqs cfg compute rng g c, NoNegZero (r.seen cfg.coerced)) :
    ∀ (n : Nat) (g : G) (c1 c2 : Cache V), Sound cfg compute NoNegZero c1 → Sound cfg compute NoNegZero c2 →
      (runShots cfg compute rng true shot n s g c1).1 = (runShots cfg compute rng true shot n s g c2).1 ∧
      (runShots cfg compute rng true shot n s g c1).2.1 = s ∧
      (runShots cfg compute rng true shot n s g c1).2.2.1 = (runShots cfg compute rng true shot n s g c2).2.2.1 ∧
      (runShots cfg compute rng true shot n s g c1).2.2.2 = c1 := by
  intro n
  induction n with
  | zero => intro g c1 c2 _ _; exact ⟨rfl, rfl, rfl, rfl⟩
  | succ n ih =>
    intro g c1 c2 h1 h2
    obtain ⟨e1, e2, _, _⟩ := prog_run_eq hcov (shot s) g c1 c2 h1 h2 (hreq g c2)
    rcases hr1 : (shot s).run cfg compute rng g c1 with ⟨res1, g1, c1'⟩
    rcases hr2 : (shot s).run cfg compute rng g c2 with ⟨res2, g2, c2'⟩
    rw [hr1, hr2] at e1 e2
    simp only at e1 e2
    subst e1 e2
    simp only [runShots, hr1, hr2]
    cases res1 with
    | error e => exact ⟨rfl, rfl, rfl, rfl⟩
    | ok ms =>
      obtain ⟨m, s'⟩ := ms
      obtain ⟨i1, i2, i3, i4⟩ := ih g1 c1 c2 h1 h2
      simp only [if_true]
      exact ⟨by rw [i1], i2, i3, i4⟩

end QG.IntegratorCache
