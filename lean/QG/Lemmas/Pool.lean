import Mathlib.Tactic
import Mathlib.Data.List.Perm.Subperm
import Mathlib.Data.List.Range
import QG.Model.Pool

/-! Helper lemmas for the helper half of C19 (chunking formula, schedules, the three batch
helpers).  Property theorems are in `QG/Props/C19.lean`. -/
namespace QG.Lemmas.Pool
open QG.Model.Pool

variable {α : Type}

/-! ### the worker count and the chunk size -/

theorem nProcesses_ge_two (cpu : Nat) : 2 ≤ nProcesses cpu := by
  unfold nProcesses; omega

theorem chunksize_pos (S n : Nat) : 1 ≤ chunksize S n := by
  unfold chunksize; omega

/-- `n` chunks of this size are enough for `S` items -/
theorem le_chunksize_mul (S n : Nat) (hn : 1 ≤ n) : S ≤ chunksize S n * n := by
  unfold chunksize
  have h1 := Nat.div_add_mod S n
  have h2 := Nat.mod_lt S (show n > 0 by omega)
  have hcomm : n * (S / n) = S / n * n := Nat.mul_comm _ _
  by_cases hr : S % n > 0
  · simp only [hr, if_true]
    have : S / n + 1 ≤ max 1 (S / n + 1) := le_max_right _ _
    calc S ≤ (S / n + 1) * n := by rw [Nat.succ_mul]; omega
      _ ≤ max 1 (S / n + 1) * n := Nat.mul_le_mul_right _ this
  · simp only [hr, if_false, Nat.add_zero]
    have : S / n ≤ max 1 (S / n) := le_max_right _ _
    calc S ≤ S / n * n := by omega
      _ ≤ max 1 (S / n) * n := Nat.mul_le_mul_right _ this

/-! ### `chunks` -/

theorem chunks_of_nil (cs : Nat) : chunks cs ([] : List α) = [] := by
  rw [chunks]; simp

theorem chunks_of_ne_nil {cs : Nat} (hcs : 1 ≤ cs) {l : List α} (hl : l ≠ []) :
    chunks cs l = l.take cs :: chunks cs (l.drop cs) := by
  rw [chunks]
  have : ¬ (cs = 0 ∨ l = []) := by
    intro h; rcases h with h | h
    · omega
    · exact hl h
  simp [this]

theorem chunks_flatten {cs : Nat} (hcs : 1 ≤ cs) (l : List α) : (chunks cs l).flatten = l := by
  induction h : l.length using Nat.strong_induction_on generalizing l with
  | _ n ih =>
    by_cases hl : l = []
    · subst hl; simp [chunks_of_nil]
    · rw [chunks_of_ne_nil hcs hl, List.flatten_cons,
        ih (l.drop cs).length (by
          have : 0 < l.length := List.length_pos_of_ne_nil hl
          simp only [List.length_drop]; omega) (l.drop cs) rfl,
        List.take_append_drop]

theorem mem_chunks {cs : Nat} (hcs : 1 ≤ cs) (l : List α) :
    ∀ c ∈ chunks cs l, c ≠ [] ∧ c.length ≤ cs := by
  induction h : l.length using Nat.strong_induction_on generalizing l with
  | _ n ih =>
    by_cases hl : l = []
    · subst hl; simp [chunks_of_nil]
    · intro c hc
      rw [chunks_of_ne_nil hcs hl] at hc
      have hpos : 0 < l.length := List.length_pos_of_ne_nil hl
      rcases List.mem_cons.mp hc with rfl | hc
      · refine ⟨?_, by rw [List.length_take]; omega⟩
        intro h0
        have := congrArg List.length h0
        rw [List.length_take, List.length_nil] at this
        omega
      · exact ih (l.drop cs).length (by simp only [List.length_drop]; omega) (l.drop cs) rfl c hc

theorem chunks_length_le {cs : Nat} (hcs : 1 ≤ cs) :
    ∀ (n : Nat) (l : List α), l.length ≤ cs * n → (chunks cs l).length ≤ n := by
  intro n
  induction n with
  | zero =>
    intro l hl
    have : l = [] := List.eq_nil_of_length_eq_zero (by omega)
    subst this; simp [chunks_of_nil]
  | succ n ih =>
    intro l hl
    by_cases hl0 : l = []
    · subst hl0; simp [chunks_of_nil]
    · rw [chunks_of_ne_nil hcs hl0, List.length_cons]
      have := ih (l.drop cs) (by
        simp only [List.length_drop]
        rw [Nat.mul_succ] at hl
        omega)
      omega

/-! ### schedules -/

theorem allDistinct_iff (l : List Nat) : allDistinct l = true ↔ l.Nodup := by
  induction l with
  | nil => simp [allDistinct]
  | cons a l ih => simp [allDistinct, ih, List.nodup_cons]

theorem validB_iff (s : Schedule) (m n : Nat) : s.validB m n = true ↔ s.Valid m n := by
  unfold Schedule.validB Schedule.Valid
  simp only [Bool.and_eq_true, beq_iff_eq, List.all_eq_true, decide_eq_true_eq, allDistinct_iff]
  constructor
  · rintro ⟨⟨⟨⟨h1, h2⟩, h3⟩, h4⟩, h5⟩
    refine ⟨h1, h2, ?_⟩
    have hsub : s.order ⊆ List.range m := fun i hi => List.mem_range.mpr (h4 i hi)
    exact (List.subperm_of_subset h5 hsub).perm_of_length_le (by simp [h3])
  · rintro ⟨h1, h2, h3⟩
    refine ⟨⟨⟨⟨h1, h2⟩, by simpa using h3.length_eq⟩, ?_⟩, ?_⟩
    · intro i hi; exact List.mem_range.mp (h3.subset hi)
    · exact h3.nodup_iff.mpr List.nodup_range

theorem map_range_getElem? (l : List α) (d : α) :
    (List.range l.length).map (fun i => (l[i]?).getD d) = l := by
  apply List.ext_getElem
  · simp
  · intro i h1 h2
    simp at h1
    simp [h1]

theorem flatMap_range_getElem? (l : List (List α)) :
    (List.range l.length).flatMap (fun i => (l[i]?).getD []) = l.flatten := by
  rw [List.flatMap_def, map_range_getElem?]

theorem flatMap_range_getElem?_comp {β : Type} (l : List (List α)) (g : List α → List β) :
    (List.range l.length).flatMap (fun i => g ((l[i]?).getD [])) = l.flatMap g := by
  have h := map_range_getElem? l []
  conv_rhs => rw [← h]
  rw [List.flatMap_map]

/-! ### one task, unpacking -/

/-- the `(label, elapsed)` the pool variant prints for a result -/
def line? : Res → Option (String × String)
  | .pair t l => some (l, t)
  | _ => none

def IsPair (r : Res) : Prop := ∃ t l, r = .pair t l
def NoRaise (r : Res) : Prop := ∀ e, r ≠ .raised e

theorem IsPair.noRaise {r : Res} (h : IsPair r) : NoRaise r := by
  obtain ⟨t, l, rfl⟩ := h
  intro e h; cases h

theorem runTask_ok (sim : α → Res) (w : Nat) (task : List α) (h : ∀ a ∈ task, NoRaise (sim a)) :
    runTask sim w task = (task.map (fun a => (w, a)), .ok (task.map sim)) := by
  induction task with
  | nil => simp [runTask]
  | cons a as ih =>
    have ha := h a (by simp)
    have ih' := ih (fun b hb => h b (by simp [hb]))
    cases hs : sim a with
    | raised e => exact absurd hs (ha e)
    | pair t l => simp [runTask, hs, ih']
    | value e => simp [runTask, hs, ih']

theorem unpack_ok (rs : List Res) (h : ∀ r ∈ rs, IsPair r) :
    unpack rs = (rs.filterMap line?, .ok ()) := by
  induction rs with
  | nil => simp [unpack]
  | cons r rs ih =>
    obtain ⟨t, l, rfl⟩ := h r (by simp)
    have ih' := ih (fun b hb => h b (by simp [hb]))
    simp [unpack, ih', line?]

/-! ### the pool variant's loop -/

theorem consumePool_ok (sim : α → Res) (tasks : List (List α)) (worker : List Nat)
    (hpair : ∀ task ∈ tasks, ∀ a ∈ task, IsPair (sim a)) :
    ∀ order : List Nat, (∀ i ∈ order, i < tasks.length ∧ i < worker.length) →
      (consumePool sim tasks worker order).calls
          = order.flatMap (fun i => ((tasks[i]?).getD []).map (fun a => ((worker[i]?).getD 0, a))) ∧
      (consumePool sim tasks worker order).printed
          = order.flatMap (fun i => (((tasks[i]?).getD []).map sim).filterMap line?) ∧
      (consumePool sim tasks worker order).outcome = .ok () := by
  intro order
  induction order with
  | nil => intro _; simp [consumePool]
  | cons i rest ih =>
    intro hv
    obtain ⟨hi1, hi2⟩ := hv i (by simp)
    obtain ⟨ih1, ih2, ih3⟩ := ih (fun k hk => hv k (by simp [hk]))
    have hmem : tasks[i] ∈ tasks := List.getElem_mem hi1
    have hrt := runTask_ok sim worker[i] tasks[i] (fun a ha => (hpair _ hmem a ha).noRaise)
    have hup := unpack_ok (tasks[i].map sim) (by
      intro r hr
      obtain ⟨a, ha, rfl⟩ := List.mem_map.mp hr
      exact hpair _ hmem a ha)
    simp only [consumePool, List.getElem?_eq_getElem hi1, List.getElem?_eq_getElem hi2, hrt, hup,
      List.flatMap_cons, Option.getD_some, ih1, ih2, ih3]
    exact ⟨trivial, trivial, trivial⟩

/-! ### the executor variant -/

theorem firstRaise_none (rs : List Res) (h : ∀ r ∈ rs, NoRaise r) : firstRaise rs = none := by
  induction rs with
  | nil => rfl
  | cons r rs ih =>
    have ih' := ih (fun b hb => h b (by simp [hb]))
    have hr := h r (by simp)
    cases r with
    | raised e => exact absurd rfl (hr e)
    | pair t l => simpa [firstRaise] using ih'
    | value e => simpa [firstRaise] using ih'

theorem firstRaise_some (rs : List Res) (e : String) (h : firstRaise rs = some e) :
    Res.raised e ∈ rs := by
  induction rs with
  | nil => simp [firstRaise] at h
  | cons r rs ih =>
    cases r with
    | raised e' =>
      simp only [firstRaise, Option.some.injEq] at h
      subst h; simp
    | pair t l => simp only [firstRaise] at h; simp [ih h]
    | value e' => simp only [firstRaise] at h; simp [ih h]

theorem executorCalls_map_snd (args : List α) (s : Schedule)
    (hv : ∀ i ∈ s.order, i < args.length ∧ i < s.worker.length) :
    (executorCalls args s).map (·.2) = s.order.flatMap (fun i => ((args.map fun a => [a])[i]?).getD []) := by
  unfold executorCalls
  generalize s.order = order at hv
  induction order with
  | nil => simp
  | cons i rest ih =>
    obtain ⟨h1, h2⟩ := hv i (by simp)
    have ih' := ih (fun k hk => hv k (by simp [hk]))
    simp [List.getElem?_eq_getElem h1, List.getElem?_eq_getElem h2, ih']

theorem executorCalls_worker (args : List α) (s : Schedule) :
    ∀ c ∈ executorCalls args s, c.1 ∈ s.worker := by
  intro c hc
  unfold executorCalls at hc
  obtain ⟨i, _, hi⟩ := List.mem_filterMap.mp hc
  split at hi
  · rename_i a w ha hw
    simp only [Option.some.injEq] at hi
    subst hi
    exact List.mem_of_getElem? hw
  · simp at hi

end QG.Lemmas.Pool
