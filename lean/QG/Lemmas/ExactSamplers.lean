import Mathlib.Tactic
import Mathlib.Analysis.Normed.Algebra.MatrixExponential
import QG.Lemmas.RelaxationChannel
/-! Helper lemmas for C04 (closed-form samplers): the exponential of `i·a·X` and the Gaussian shot average of
`cos²`, `sin²`, `sin·cos` of a centred Gaussian angle. -/
namespace QG.Lemmas.Exact
open Matrix Complex MeasureTheory ProbabilityTheory
open scoped Matrix.Norms.Operator NNReal ComplexConjugate

/-- Pauli X -/
def σx : Matrix (Fin 2) (Fin 2) ℂ := !![0, 1; 1, 0]
/-- Pauli Y -/
def σy : Matrix (Fin 2) (Fin 2) ℂ := !![0, -I; I, 0]
/-- Pauli Z -/
def σz : Matrix (Fin 2) (Fin 2) ℂ := !![1, 0; 0, -1]

private def P : Matrix (Fin 2) (Fin 2) ℂ := !![1, 1; 1, -1]
private noncomputable def Pinv : Matrix (Fin 2) (Fin 2) ℂ := !![1 / 2, 1 / 2; 1 / 2, -(1 / 2)]

private theorem P_mul_Pinv : P * Pinv = 1 := by
  ext a b; fin_cases a <;> fin_cases b <;> simp [P, Pinv, Matrix.mul_apply, Fin.sum_univ_two] <;> norm_num

private theorem Pinv_mul_P : Pinv * P = 1 := by
  ext a b; fin_cases a <;> fin_cases b <;> simp [P, Pinv, Matrix.mul_apply, Fin.sum_univ_two] <;> norm_num

private theorem diag2 (x y : ℂ) : Matrix.diagonal ![x, y] = !![x, 0; 0, y] := by
  ext r c; fin_cases r <;> fin_cases c <;> simp

/-- `exp(i a X) = cos a · 1 + i sin a · X` -/
theorem exp_I_smul_sigmaX (a : ℂ) :
    NormedSpace.exp ((I * a) • σx) = !![Complex.cos a, I * Complex.sin a; I * Complex.sin a, Complex.cos a] := by
  let U : (Matrix (Fin 2) (Fin 2) ℂ)ˣ := ⟨P, Pinv, P_mul_Pinv, Pinv_mul_P⟩
  have hconj : (I * a) • σx = (U : Matrix (Fin 2) (Fin 2) ℂ) * Matrix.diagonal ![I * a, -(I * a)] * ((U⁻¹ : (Matrix (Fin 2) (Fin 2) ℂ)ˣ) : Matrix (Fin 2) (Fin 2) ℂ) := by
    show (I * a) • σx = P * Matrix.diagonal ![I * a, -(I * a)] * Pinv
    rw [diag2]
    ext r c; fin_cases r <;> fin_cases c <;>
      simp [σx, P, Pinv, Matrix.mul_apply, Fin.sum_univ_two] <;> ring
  rw [hconj, Matrix.exp_units_conj, Matrix.exp_diagonal]
  show P * Matrix.diagonal (NormedSpace.exp ![I * a, -(I * a)]) * Pinv = _
  have hexp : NormedSpace.exp (![I * a, -(I * a)] : Fin 2 → ℂ) = ![cexp (I * a), cexp (-(I * a))] := by
    funext k; rw [Pi.coe_exp]; fin_cases k <;> simp [Complex.exp_eq_exp_ℂ]
  rw [hexp, diag2]
  have hc : Complex.cos a = (cexp (I * a) + cexp (-(I * a))) / 2 := by
    rw [Complex.cos]; ring_nf
  have hs : I * Complex.sin a = (cexp (I * a) - cexp (-(I * a))) / 2 := by
    rw [Complex.sin]
    have : I * ((cexp (-a * I) - cexp (a * I)) * I / 2) = (cexp (-a * I) - cexp (a * I)) * (I * I) / 2 := by ring
    rw [this, Complex.I_mul_I]; ring_nf
  ext r c; fin_cases r <;> fin_cases c <;>
    simp [P, Pinv, Matrix.mul_apply, Fin.sum_univ_two, hc, hs] <;> ring

/-- entries of `G ρ G†` for `G = c·1 + i s·X` with real `c, s`, `c² + s² = 1`, in the double angle -/
theorem bitflip_sandwich_alg (c s : ℂ) (hc : conj c = c) (hs : conj s = s) (h1 : c ^ 2 + s ^ 2 = 1)
    (ρ : Matrix (Fin 2) (Fin 2) ℂ) (a b : Fin 2) :
    ((!![c, I * s; I * s, c] : Matrix (Fin 2) (Fin 2) ℂ) * ρ * (!![c, I * s; I * s, c] : Matrix (Fin 2) (Fin 2) ℂ)ᴴ) a b
      = ((1 / 2 : ℂ) • (ρ + σx * ρ * σx)) a b
        + ((1 / 2 : ℂ) • (ρ - σx * ρ * σx)) a b * (2 * c ^ 2 - 1)
        + ((I / 2) • (σx * ρ - ρ * σx)) a b * (2 * s * c) := by
  fin_cases a <;> fin_cases b <;>
    simp only [σx, Matrix.mul_apply, Fin.sum_univ_two, Matrix.conjTranspose_apply, Matrix.of_apply, Matrix.cons_val',
      Matrix.cons_val_zero, Matrix.cons_val_one, Matrix.cons_val_fin_one, Matrix.head_cons, Matrix.empty_val', Fin.isValue,
      Fin.zero_eta, Fin.mk_one, star_def, map_mul, hc, hs, Complex.conj_I, Matrix.smul_apply, Matrix.add_apply, Matrix.sub_apply,
      smul_eq_mul, zero_mul, mul_zero, add_zero, zero_add, one_mul, mul_one]
  all_goals (have hI := Complex.I_sq; grind)

variable (Δ : ℝ≥0) (ε : ℝ)

theorem E_phase_neg : ∫ w, cexp (-2 * ε * w * I) ∂(gaussianReal 0 Δ) = cexp (-(2 * ε ^ 2 * Δ)) := by
  have := QG.Lemmas.Relax.E_phase Δ (-ε)
  have e : (fun w : ℝ => cexp (2 * ((-ε : ℝ) : ℂ) * w * I)) = fun w : ℝ => cexp (-2 * ε * w * I) := by
    funext w; push_cast; ring_nf
  rw [e] at this; rw [this]; push_cast; ring_nf

/-- shot average of `cos(2εW)` -/
theorem E_cos_two : ∫ w, Complex.cos (2 * ε * w) ∂(gaussianReal 0 Δ) = cexp (-(2 * ε ^ 2 * Δ)) := by
  have e : (fun w : ℝ => Complex.cos (2 * ε * w)) = fun w : ℝ => (cexp (2 * ε * w * I) + cexp (-2 * ε * w * I)) / 2 := by
    funext w; rw [Complex.cos]; ring_nf
  rw [e, integral_div, integral_add, QG.Lemmas.Relax.E_phase, E_phase_neg]
  · ring
  · have := QG.Lemmas.Relax.integrable_phase Δ (2 * ε)
    refine this.congr (Filter.Eventually.of_forall fun w => ?_); push_cast; ring_nf
  · have := QG.Lemmas.Relax.integrable_phase Δ (-2 * ε)
    refine this.congr (Filter.Eventually.of_forall fun w => ?_); push_cast; ring_nf

/-- shot average of `sin(2εW)` (odd) -/
theorem E_sin_two : ∫ w, Complex.sin (2 * ε * w) ∂(gaussianReal 0 Δ) = 0 := by
  have e : (fun w : ℝ => Complex.sin (2 * ε * w)) = fun w : ℝ => (cexp (-2 * ε * w * I) - cexp (2 * ε * w * I)) * I / 2 := by
    funext w; rw [Complex.sin]; ring_nf
  rw [e, integral_div, integral_mul_const, integral_sub, QG.Lemmas.Relax.E_phase, E_phase_neg]
  · ring
  · have := QG.Lemmas.Relax.integrable_phase Δ (-2 * ε)
    refine this.congr (Filter.Eventually.of_forall fun w => ?_); push_cast; ring_nf
  · have := QG.Lemmas.Relax.integrable_phase Δ (2 * ε)
    refine this.congr (Filter.Eventually.of_forall fun w => ?_); push_cast; ring_nf

theorem integrable_cos_two : Integrable (fun w : ℝ => Complex.cos (2 * ε * w)) (gaussianReal 0 Δ) := by
  have e : (fun w : ℝ => Complex.cos (2 * ε * w)) = fun w : ℝ => (cexp (2 * ε * w * I) + cexp (-2 * ε * w * I)) / 2 := by
    funext w; rw [Complex.cos]; ring_nf
  rw [e]
  refine (Integrable.add ?_ ?_).div_const 2
  · have := QG.Lemmas.Relax.integrable_phase Δ (2 * ε)
    refine this.congr (Filter.Eventually.of_forall fun w => ?_); push_cast; ring_nf
  · have := QG.Lemmas.Relax.integrable_phase Δ (-2 * ε)
    refine this.congr (Filter.Eventually.of_forall fun w => ?_); push_cast; ring_nf

theorem integrable_sin_two : Integrable (fun w : ℝ => Complex.sin (2 * ε * w)) (gaussianReal 0 Δ) := by
  have e : (fun w : ℝ => Complex.sin (2 * ε * w)) = fun w : ℝ => (cexp (-2 * ε * w * I) - cexp (2 * ε * w * I)) * I / 2 := by
    funext w; rw [Complex.sin]; ring_nf
  rw [e]
  refine ((Integrable.sub ?_ ?_).mul_const I).div_const 2
  · have := QG.Lemmas.Relax.integrable_phase Δ (-2 * ε)
    refine this.congr (Filter.Eventually.of_forall fun w => ?_); push_cast; ring_nf
  · have := QG.Lemmas.Relax.integrable_phase Δ (2 * ε)
    refine this.congr (Filter.Eventually.of_forall fun w => ?_); push_cast; ring_nf

/-- Gaussian average of `a + b cos(2εW) + c sin(2εW)` -/
theorem E_affine_trig (a b c : ℂ) :
    ∫ w, (a + b * Complex.cos (2 * ε * w) + c * Complex.sin (2 * ε * w)) ∂(gaussianReal 0 Δ)
      = a + b * cexp (-(2 * ε ^ 2 * Δ)) := by
  have hc := integrable_cos_two Δ ε
  have hs := integrable_sin_two Δ ε
  have h1 : Integrable (fun w : ℝ => a + b * Complex.cos (2 * ε * w)) (gaussianReal 0 Δ) :=
    (integrable_const a).add (hc.const_mul b)
  have h2 : Integrable (fun w : ℝ => c * Complex.sin (2 * ε * w)) (gaussianReal 0 Δ) := hs.const_mul c
  rw [integral_add h1 h2, integral_add (integrable_const a) (hc.const_mul b), integral_const_mul, integral_const_mul,
    E_cos_two, E_sin_two, integral_const, probReal_univ]
  simp

end QG.Lemmas.Exact
