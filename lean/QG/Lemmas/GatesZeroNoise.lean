import Mathlib.Tactic
import Mathlib.Analysis.Normed.Algebra.MatrixExponential
import QG.Gen.GateSets

/-! Helper lemmas for C07 (zero noise): each elementary factory at zero noise strength. -/
namespace QG.Lemmas.Gates
open QG.Gen Matrix
open scoped Matrix.Norms.Operator

variable {K : Type} [Field K]

/-- with the three strengths zero both `expm` arguments vanish, whatever the samples are -/
theorem sq_zero_noise_args (v : SingleQubit.Env K) (h1 : v.ed = 0) (h2 : v.e1 = 0) (h3 : v.ep = 0) :
    SingleQubit.driftArg v = 0 ∧ SingleQubit.noiseArg v = 0 := by
  constructor
  · ext a b; fin_cases a <;> fin_cases b <;> simp [SingleQubit.driftArg, SingleQubit.deterministic, h2]
  · ext a b; fin_cases a <;> fin_cases b <;>
      simp [SingleQubit.noiseArg, SingleQubit.Idx, SingleQubit.Idy, SingleQubit.Idz, SingleQubit.Ir,
        SingleQubit.Ip, h1, h2, h3]

theorem cr_zero_noise_args (v : CR.Env K) (h1 : v.ed_cr = 0) (h2 : v.e1_ctr = 0) (h3 : v.ep_ctr = 0)
    (h4 : v.e1_trg = 0) (h5 : v.ep_trg = 0) :
    CR.driftArg v = 0 ∧ CR.noiseArg v = 0 := by
  constructor
  · ext a b; fin_cases a <;> fin_cases b <;>
      simp [CR.driftArg, CR.deterministic_r_ctr, CR.deterministic_r_trg, h2, h4]
  · ext a b; fin_cases a <;> fin_cases b <;>
      simp [CR.noiseArg, CR.Ir_ctr, CR.Ir_trg, CR.Ip_ctr, CR.Ip_trg, CR.Idx_ctr, CR.Idy_ctr, CR.Idz_ctr,
        CR.Idx_trg, CR.Idy_trg, CR.Idz_trg, h1, h2, h3, h4, h5]

/-- the noise-free gate set ignores its noise arguments -/
theorem nf_single_irrel (theta phi p T1 T2 : ℝ) :
    NoiseFree.single_qubit_gate theta phi p T1 T2 = NoiseFree.single_qubit_gate theta phi 0 0 0 := rfl
theorem nf_X_irrel (phi p T1 T2 : ℝ) : NoiseFree.X phi p T1 T2 = NoiseFree.X phi 0 0 0 := rfl
theorem nf_SX_irrel (phi p T1 T2 : ℝ) : NoiseFree.SX phi p T1 T2 = NoiseFree.SX phi 0 0 0 := rfl
theorem nf_CR_irrel (theta phi t p a b c d : ℝ) :
    NoiseFree.CR theta phi t p a b c d = NoiseFree.CR theta phi 0 0 0 0 0 0 := rfl
theorem nf_relax_irrel (Dt T1 T2 : ℝ) : NoiseFree.relaxation Dt T1 T2 = 1 := by
  ext a b; fin_cases a <;> fin_cases b <;> simp [NoiseFree.relaxation]

end QG.Lemmas.Gates
