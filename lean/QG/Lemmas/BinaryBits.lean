import Mathlib.Tactic
import QG.Model.Binary
/-!
Helper lemmas for C02 (index-based backend): binary digit strings (`bitsBE`, `fmtBin`, `intOfBits`),
`mapE`, `removeE`, and the characterisation of `join_str`.
-/
namespace QG.Lemmas.Binary
open QG.Model.Optimizer QG.Model.Binary

/-! ### digit strings -/

theorem foldl_bits (acc : Nat) (l : List Bool) :
    l.foldl (fun a b => 2 * a + b.toNat) acc = acc * 2 ^ l.length + l.foldl (fun a b => 2 * a + b.toNat) 0 := by
  induction l generalizing acc with
  | nil => simp
  | cons b rest ih =>
    simp only [List.foldl_cons, List.length_cons]
    rw [ih (2 * acc + b.toNat), ih (2 * 0 + b.toNat)]
    ring

theorem intOfBits_append (a b : List Bool) :
    intOfBits (a ++ b) = intOfBits a * 2 ^ b.length + intOfBits b := by
  unfold intOfBits
  rw [List.foldl_append, foldl_bits]

theorem intOfBits_append_singleton (l : List Bool) (b : Bool) :
    intOfBits (l ++ [b]) = 2 * intOfBits l + b.toNat := by
  rw [intOfBits_append]; simp [intOfBits]; ring

theorem bitsBE_length (w x : Nat) : (bitsBE w x).length = w := by simp [bitsBE]

theorem bitsBE_getElem? (w x p : Nat) (hp : p < w) : (bitsBE w x)[p]? = some (x.testBit (w - 1 - p)) := by
  simp [bitsBE, hp]

theorem bitsBE_succ (w x : Nat) : bitsBE (w + 1) x = bitsBE w (x / 2) ++ [x.testBit 0] := by
  unfold bitsBE
  rw [List.range_succ, List.map_append]
  congr 1
  · apply List.map_congr_left
    intro p hp
    have hp' : p < w := List.mem_range.mp hp
    have : w + 1 - 1 - p = (w - 1 - p) + 1 := by omega
    rw [this, Nat.testBit_succ]
  · simp

theorem intOfBits_bitsBE (w x : Nat) : intOfBits (bitsBE w x) = x % 2 ^ w := by
  induction w generalizing x with
  | zero => simp [bitsBE, intOfBits, Nat.mod_one]
  | succ w ih =>
    rw [bitsBE_succ, intOfBits_append_singleton, ih, pow_succ, mul_comm (2 ^ w) 2, Nat.mod_mul,
      Nat.testBit_zero]
    rcases Nat.mod_two_eq_zero_or_one x with h | h <;> simp [h]
    omega

theorem intOfBits_bitsBE_of_lt (w x : Nat) (h : x < 2 ^ w) : intOfBits (bitsBE w x) = x := by
  rw [intOfBits_bitsBE, Nat.mod_eq_of_lt h]

theorem intOfBits_lt (l : List Bool) : intOfBits l < 2 ^ l.length := by
  induction l using List.reverseRecOn with
  | nil => simp [intOfBits]
  | append_singleton l b ih =>
    rw [intOfBits_append_singleton, List.length_append, List.length_singleton, pow_succ]
    cases b <;> simp <;> omega

theorem bitsBE_intOfBits (l : List Bool) : bitsBE l.length (intOfBits l) = l := by
  induction l using List.reverseRecOn with
  | nil => simp [bitsBE]
  | append_singleton l b ih =>
    rw [intOfBits_append_singleton, List.length_append, List.length_singleton, bitsBE_succ]
    have h1 : (2 * intOfBits l + b.toNat) / 2 = intOfBits l := by
      cases b
      · simp
      · simp; omega
    have h2 : (2 * intOfBits l + b.toNat).testBit 0 = b := by
      rw [Nat.testBit_zero]; cases b <;> simp
    rw [h1, h2, ih]

/-- on strings of one length `int(s, 2)` is injective -/
theorem intOfBits_inj (a b : List Bool) (hl : a.length = b.length) (h : intOfBits a = intOfBits b) : a = b := by
  rw [← bitsBE_intOfBits a, ← bitsBE_intOfBits b, hl, h]

theorem fmtBin_of_lt (w x : Nat) (h : x < 2 ^ w) : fmtBin w x = bitsBE w x := by simp [fmtBin, h]

/-- the `f"{i*(2**k+1):0{2*k}b}"` trick: both halves of the string are the `k`-digit representation of `i` -/
theorem fmtBin_double (k i : Nat) (hi : i < 2 ^ k) :
    fmtBin (2 * k) (i * (2 ^ k + 1)) = bitsBE k i ++ bitsBE k i := by
  have hval : intOfBits (bitsBE k i ++ bitsBE k i) = i * (2 ^ k + 1) := by
    rw [intOfBits_append, bitsBE_length, intOfBits_bitsBE_of_lt k i hi]; ring
  have hlen : (bitsBE k i ++ bitsBE k i).length = 2 * k := by simp [bitsBE_length]; omega
  have hlt : i * (2 ^ k + 1) < 2 ^ (2 * k) := by
    rw [← hval, ← hlen]; exact intOfBits_lt _
  rw [fmtBin_of_lt _ _ hlt, ← hval, ← hlen, bitsBE_intOfBits]

/-- `i ↦ bitsBE k i` hits every `k`-digit string exactly once on `range (2^k)` -/
theorem bitsBE_eq_iff (k i : Nat) (hi : i < 2 ^ k) (u : List Bool) (hu : u.length = k) :
    bitsBE k i = u ↔ i = intOfBits u := by
  constructor
  · intro h; rw [← h, intOfBits_bitsBE_of_lt k i hi]
  · intro h; rw [h, ← hu, bitsBE_intOfBits]

/-! ### `mapE`, `getE`, `setE`, `removeE` -/

theorem mapE_ok {α β : Type} (f : α → Except Err β) (g : α → β) (l : List α)
    (h : ∀ x ∈ l, f x = .ok (g x)) : mapE f l = .ok (l.map g) := by
  induction l with
  | nil => rfl
  | cons x xs ih =>
    simp only [mapE, h x (by simp), ih (fun y hy => h y (List.mem_cons_of_mem _ hy)), List.map_cons]

theorem getE_ok {α : Type} (l : List α) (i : Nat) (h : i < l.length) : getE l i = .ok l[i] := by
  simp [getE, h]

theorem getE_of_getElem? {α : Type} (l : List α) (i : Nat) (a : α) (h : l[i]? = some a) : getE l i = .ok a := by
  simp [getE, h]

theorem setE_ok {α : Type} (l : List α) (i : Nat) (x : α) (h : i < l.length) : setE l i x = .ok (l.set i x) := by
  simp [setE, h]

theorem removeE_mem (q : Nat) (l : List Nat) (hq : q ∈ l) : removeE q l = .ok (l.erase q) := by
  induction l with
  | nil => simp at hq
  | cons x xs ih =>
    by_cases hx : x = q
    · simp [removeE, hx]
    · have hq' : q ∈ xs := by
        rcases List.mem_cons.mp hq with h | h
        · exact absurd h.symm hx
        · exact h
      have hb : ¬ (x == q) = true := by simpa using hx
      simp [removeE, hx, ih hq', List.erase_cons_tail hb]

theorem removeE_range (N q : Nat) (hq : q < N) : removeE q (List.range N) = .ok ((List.range N).erase q) :=
  removeE_mem q _ (List.mem_range.mpr hq)

/-! ### `join_str` -/

theorem joinLoop_spec (n w : Nat) (src : List Bool) (hsrc : src.length = 2 * w) :
    ∀ (qs : List Nat) (i : Nat) (tot : List Bool), tot.length = 2 * n → (∀ q ∈ qs, q < n) → qs.Nodup →
      i + qs.length ≤ w →
      ∃ tot', joinLoop n w src i qs tot = .ok tot' ∧ tot'.length = 2 * n ∧
        (∀ t (ht : t < qs.length), tot'[qs[t]]? = src[i + t]? ∧ tot'[qs[t] + n]? = src[i + t + w]?) ∧
        (∀ p, (∀ q ∈ qs, p ≠ q ∧ p ≠ q + n) → tot'[p]? = tot[p]?) := by
  intro qs
  induction qs with
  | nil =>
    intro i tot htot _ _ _
    exact ⟨tot, rfl, htot, by intro t ht; simp at ht, by intro p _; rfl⟩
  | cons q qs ih =>
    intro i tot htot hq hnd hi
    have hqn : q < n := hq q (by simp)
    simp only [List.length_cons] at hi
    have h1 : i < src.length := by omega
    have h2 : i + w < src.length := by omega
    have h3 : q < tot.length := by omega
    have h4 : q + n < (tot.set q src[i]).length := by rw [List.length_set]; omega
    obtain ⟨tot', e1, e2, e3, e4⟩ := ih (i + 1) ((tot.set q src[i]).set (q + n) src[i + w])
      (by simp [htot]) (fun x hx => hq x (List.mem_cons_of_mem _ hx)) (List.nodup_cons.mp hnd).2 (by omega)
    have hnotin : q ∉ qs := (List.nodup_cons.mp hnd).1
    refine ⟨tot', ?_, e2, ?_, ?_⟩
    · simp only [joinLoop, getE_ok _ _ h1, setE_ok _ _ _ h3, getE_ok _ _ h2, setE_ok _ _ _ h4]
      exact e1
    · intro t ht
      cases t with
      | zero =>
        simp only [List.getElem_cons_zero, Nat.add_zero]
        constructor
        · rw [e4 q (fun q' hq' => ⟨fun h => hnotin (h ▸ hq'), by have := hq q' (List.mem_cons_of_mem _ hq'); omega⟩)]
          rw [List.getElem?_set_ne (by omega), List.getElem?_set_self h3, List.getElem?_eq_getElem h1]
        · rw [e4 (q + n) (fun q' hq' => ⟨by have := hq q' (List.mem_cons_of_mem _ hq'); omega,
            fun h => hnotin (by have : q = q' := by omega
                                exact this ▸ hq')⟩)]
          rw [List.getElem?_set_self h4, List.getElem?_eq_getElem h2]
      | succ t =>
        simp only [List.getElem_cons_succ]
        have := e3 t (by simpa using ht)
        rw [show i + (t + 1) = i + 1 + t by omega]
        exact this
    · intro p hp
      have hpq := hp q (by simp)
      rw [e4 p (fun q' hq' => hp q' (List.mem_cons_of_mem _ hq'))]
      rw [List.getElem?_set_ne (by omega), List.getElem?_set_ne (by omega)]

/-- the bit `join_str` writes at position `p` of one half of the string: the `v`-bit of `p` if `p` is a
used qubit, the `u`-bit of `p` otherwise -/
def place (qn : List Nat) (u : List Bool) (qu : List Nat) (v : List Bool) (p : Nat) : Bool :=
  if p ∈ qu then v.getD (qu.idxOf p) false else u.getD (qn.idxOf p) false

theorem getElem?_idxOf_getD (l : List Nat) (v : List Bool) (t : Nat) (ht : t < l.length) (hnd : l.Nodup)
    (hv : v.length = l.length) : v[t]? = some (v.getD (l.idxOf l[t]) false) := by
  rw [List.Nodup.idxOf_getElem hnd]
  simp [List.getD, hv, ht]

/-- **`join_str`**: for `k` unused qubits `qn`, `m` used qubits `qu` (together: distinct numbers `< k+m`),
`k_str = u ++ u'`, `m_str = v ++ w`: the result has `2(k+m)` characters; the first half carries
`u` on `qn` and `v` on `qu`, the second half `u'` on `qn` and `w` on `qu`. -/
theorem joinStr_spec (k m : Nat) (qn qu : List Nat) (u u' v w : List Bool) (hqn : qn.length = k)
    (hqu : qu.length = m) (hlt : ∀ p ∈ qn ++ qu, p < k + m) (hnd : (qn ++ qu).Nodup)
    (hu : u.length = k) (hu' : u'.length = k) (hv : v.length = m) (hw : w.length = m) :
    ∃ s, joinStr (u ++ u') (v ++ w) qn qu k m = .ok s ∧ s.length = 2 * (k + m) ∧
      ∀ p, p ∈ qn ∨ p ∈ qu →
        s[p]? = some (place qn u qu v p) ∧ s[p + (k + m)]? = some (place qn u' qu w p) := by
  have hndn : qn.Nodup := (List.nodup_append.mp hnd).1
  have hndu : qu.Nodup := (List.nodup_append.mp hnd).2.1
  have hdisj : ∀ a ∈ qn, ∀ b ∈ qu, a ≠ b := (List.nodup_append.mp hnd).2.2
  obtain ⟨t1, a1, a2, a3, _⟩ := joinLoop_spec (k + m) k (u ++ u') (by simp [hu, hu']; omega) qn 0
    (List.replicate (2 * (k + m)) false) (by simp) (fun q hq => hlt q (List.mem_append_left _ hq)) hndn
    (by omega)
  obtain ⟨t2, b1, b2, b3, b4⟩ := joinLoop_spec (k + m) m (v ++ w) (by simp [hv, hw]; omega) qu 0 t1 a2
    (fun q hq => hlt q (List.mem_append_right _ hq)) hndu (by omega)
  refine ⟨t2, ?_, b2, ?_⟩
  · unfold joinStr
    simp only [hqn, hqu, ne_eq, not_true_eq_false, or_self, if_false, a1]
    exact b1
  · intro p hp
    by_cases hpu : p ∈ qu
    · obtain ⟨t, ht, rfl⟩ := List.getElem_of_mem hpu
      have := b3 t ht
      simp only [Nat.zero_add] at this
      rw [this.1, this.2]
      have e1 : (v ++ w)[t]? = v[t]? := List.getElem?_append_left (by omega)
      have e2 : (v ++ w)[t + m]? = w[t]? := by
        rw [List.getElem?_append_right (by omega)]; congr 1; omega
      rw [e1, e2]
      simp only [place, hpu, if_true]
      exact ⟨getElem?_idxOf_getD qu v t ht hndu (by omega), getElem?_idxOf_getD qu w t ht hndu (by omega)⟩
    · have hpn : p ∈ qn := by tauto
      obtain ⟨t, ht, rfl⟩ := List.getElem_of_mem hpn
      have hfr : ∀ q ∈ qu, qn[t] ≠ q ∧ qn[t] ≠ q + (k + m) := by
        intro q hq
        have := hlt qn[t] (List.mem_append_left _ hpn)
        exact ⟨hdisj _ hpn q hq, by omega⟩
      have hfr' : ∀ q ∈ qu, qn[t] + (k + m) ≠ q ∧ qn[t] + (k + m) ≠ q + (k + m) := by
        intro q hq
        have := hlt q (List.mem_append_right _ hq)
        exact ⟨by omega, fun h => hdisj _ hpn q hq (by omega)⟩
      rw [b4 _ hfr, b4 _ hfr']
      have := a3 t ht
      simp only [Nat.zero_add] at this
      rw [this.1, this.2]
      have e1 : (u ++ u')[t]? = u[t]? := List.getElem?_append_left (by omega)
      have e2 : (u ++ u')[t + k]? = u'[t]? := by
        rw [List.getElem?_append_right (by omega)]; congr 1; omega
      rw [e1, e2]
      simp only [place, hpu, if_false]
      exact ⟨getElem?_idxOf_getD qn u t ht hndn (by omega), getElem?_idxOf_getD qn u' t ht hndn (by omega)⟩

end QG.Lemmas.Binary
