import Mathlib.Tactic
import QG.Spec.Register
import QG.Lemmas.BinaryBits
/-!
Helper lemmas for C02 (index-based backend): the triplet sum of `create_sparse` and the dense matrix of
`create_dense` act on a flat state vector like the register embeddings `E1` / `E2`.
-/
namespace QG.Lemmas.Binary
open QG.Model.Optimizer QG.Model.Binary QG.Spec QG.Spec.Register

variable {R : Type} [CommSemiring R]

/-! ### list sums -/

theorem sum_map_flatten {α : Type} (f : α → R) (L : List (List α)) :
    (L.flatten.map f).sum = (L.map fun l => (l.map f).sum).sum := by
  induction L with
  | nil => simp
  | cons l L ih =>
    simp only [List.flatten_cons, List.map_append, List.sum_append, List.map_cons, List.sum_cons, ih]

theorem sum_range_single (n i0 : Nat) (F : R) :
    ((List.range n).map (fun i => if i = i0 then F else 0)).sum = if i0 < n then F else 0 := by
  induction n with
  | zero => simp
  | succ n ih =>
    rw [List.range_succ, List.map_append, List.sum_append, ih]
    by_cases h1 : i0 < n
    · have : n ≠ i0 := by omega
      simp [h1, this, Nat.lt_succ_of_lt h1]
    · by_cases h2 : n = i0
      · subst h2; simp
      · have : ¬ i0 < n + 1 := by omega
        simp [h1, h2, this]

/-- a sum over `range (2^k)` that selects one `k`-digit string -/
theorem sum_bits_single (k : Nat) (u0 : List Bool) (hu0 : u0.length = k) (F : R) :
    ((List.range (2 ^ k)).map (fun i => if bitsBE k i = u0 then F else 0)).sum = F := by
  have h : (List.range (2 ^ k)).map (fun i => if bitsBE k i = u0 then F else 0) =
      (List.range (2 ^ k)).map (fun i => if i = intOfBits u0 then F else 0) := by
    apply List.map_congr_left
    intro i hi
    have := bitsBE_eq_iff k i (List.mem_range.mp hi) u0 hu0
    by_cases hc : bitsBE k i = u0
    · rw [if_pos hc, if_pos (this.mp hc)]
    · have hne : ¬ i = intOfBits u0 := fun h' => hc (this.mpr h')
      rw [if_neg hc, if_neg hne]
  rw [h, sum_range_single]
  have := intOfBits_lt u0
  rw [hu0] at this
  simp [this]

/-! ### `coo_matrix(...).dot(psi)` -/

theorem foldl_modify_spec (term : Nat × Nat × R → R) (trips : List (Nat × Nat × R)) (init : Array R) :
    (trips.foldl (fun (out : Array R) t => out.modify t.1 (fun x => x + term t)) init).size = init.size ∧
    ∀ r (hr : r < init.size),
      (trips.foldl (fun (out : Array R) t => out.modify t.1 (fun x => x + term t)) init)[r]? =
        some (init[r] + (trips.map (fun t => if t.1 = r then term t else 0)).sum) := by
  induction trips generalizing init with
  | nil => simp
  | cons t ts ih =>
    obtain ⟨h1, h2⟩ := ih (init.modify t.1 (fun x => x + term t))
    simp only [List.foldl_cons, List.map_cons, List.sum_cons]
    refine ⟨by rw [h1, Array.size_modify], ?_⟩
    intro r hr
    rw [h2 r (by rw [Array.size_modify]; exact hr), Array.getElem_modify]
    by_cases hc : t.1 = r
    · simp [hc, add_assoc]
    · simp [hc]

theorem spmv_spec (dim : Nat) (trips : List (Nat × Nat × R)) (psi : List R) (hpsi : psi.length = dim)
    (hrange : ∀ t ∈ trips, t.1 < dim ∧ t.2.1 < dim) :
    ∃ out, spmv (semiringScalar R) dim trips psi = .ok out ∧ out.length = dim ∧
      ∀ r, r < dim → out[r]? =
        some ((trips.map (fun t => if t.1 = r then t.2.2 * psi.getD t.2.1 0 else 0)).sum) := by
  have hany : trips.any (fun t => decide (dim ≤ t.1) || decide (dim ≤ t.2.1)) = false := by
    rw [List.any_eq_false]
    intro t ht
    have := hrange t ht
    simp only [Bool.or_eq_true, decide_eq_true_eq, not_or, not_le]
    exact this
  obtain ⟨h1, h2⟩ := foldl_modify_spec (fun t : Nat × Nat × R => t.2.2 * psi.toArray.getD t.2.1 0) trips
    (Array.replicate dim 0)
  refine ⟨(trips.foldl (fun (out : Array R) t => out.modify t.1
      (fun x => x + t.2.2 * psi.toArray.getD t.2.1 0)) (Array.replicate dim 0)).toList, ?_, ?_, ?_⟩
  · unfold spmv
    simp only [hany, Bool.false_eq_true, if_false, hpsi, ne_eq, not_true_eq_false]
    rfl
  · rw [Array.length_toList, h1]; simp
  · intro r hr
    rw [Array.getElem?_toList, h2 r (by simpa using hr)]
    simp

/-! ### `create_sparse` as a list of pure triplets -/

theorem createSparse_ok {S M2 M4 : Type} (en : Entries S M2 M4) (item : Item M2 M4) (qn qu : List Nat) (N : Nat)
    (hN : qn.length + qu.length = N) (trip : Nat → Nat → Nat × Nat × S)
    (h : ∀ i, i < 2 ^ qn.length → ∀ j, j < 2 ^ (2 * qu.length) →
      sparseTriplet en item qn qu N qn.length qu.length i j = .ok (trip i j)) :
    createSparse en item qn qu N =
      .ok ((List.range (2 ^ qn.length)).map fun i => (List.range (2 ^ (2 * qu.length))).map (trip i)).flatten := by
  unfold createSparse
  simp only [hN, ne_eq, not_true_eq_false, if_false]
  rw [mapE_ok _ (fun i => (List.range (2 ^ (2 * qu.length))).map (trip i))]
  intro i hi
  apply mapE_ok
  intro j hj
  exact h i (List.mem_range.mp hi) j (List.mem_range.mp hj)

/-! ### where `join_str` puts the bits -/

/-- the basis state written into one half of the joined string -/
def P (N : Nat) (qn : List Nat) (u : List Bool) (qu : List Nat) (v : List Bool) : BV N :=
  fun p => place qn u qu v p.val

/-- a bit vector read at a natural-number position (`false` outside) -/
def bitAt {N : Nat} (x : BV N) (p : Nat) : Bool := if h : p < N then x ⟨p, h⟩ else false

theorem bitAt_val {N : Nat} (x : BV N) (p : Fin N) : bitAt x p.val = x p := by simp [bitAt]

/-- the partition of the qubits into unused `qn` and used `qu` -/
structure Split (N k m : Nat) (qn qu : List Nat) : Prop where
  hN : k + m = N
  hqn : qn.length = k
  hqu : qu.length = m
  hlt : ∀ p ∈ qn ++ qu, p < k + m
  hnd : (qn ++ qu).Nodup
  hcov : ∀ p, p < N → p ∈ qn ∨ p ∈ qu

theorem joinStr_halves {N k m : Nat} {qn qu : List Nat} (sp : Split N k m qn qu) (u v w : List Bool)
    (hu : u.length = k) (hv : v.length = m) (hw : w.length = m) :
    ∃ s, joinStr (u ++ u) (v ++ w) qn qu k m = .ok s ∧
      intOfBits (s.take N) = idx (P N qn u qu v) ∧ intOfBits (s.drop N) = idx (P N qn u qu w) ∧
      ∀ p, p < N → s[p]? = some (place qn u qu v p) ∧ s[p + N]? = some (place qn u qu w p) := by
  obtain ⟨s, h1, h2, h3⟩ := joinStr_spec k m qn qu u u v w sp.hqn sp.hqu sp.hlt sp.hnd hu hu hv hw
  have hN := sp.hN
  have hpt : ∀ p, p < N → s[p]? = some (place qn u qu v p) ∧ s[p + N]? = some (place qn u qu w p) := by
    intro p hp
    have := h3 p (sp.hcov p hp)
    rw [hN] at this
    exact this
  refine ⟨s, h1, ?_, ?_, hpt⟩
  · unfold idx
    congr 1
    apply List.ext_getElem?
    intro p
    by_cases hp : p < N
    · rw [List.getElem?_take_of_lt hp, (hpt p hp).1]
      simp [P, hp]
    · rw [List.getElem?_eq_none (by simp; omega), List.getElem?_eq_none (by simp; omega)]
  · unfold idx
    congr 1
    apply List.ext_getElem?
    intro p
    by_cases hp : p < N
    · rw [List.getElem?_drop, Nat.add_comm, (hpt p hp).2]
      simp [P, hp]
    · rw [List.getElem?_eq_none (by simp; omega), List.getElem?_eq_none (by simp; omega)]

theorem P_eq_iff {N k m : Nat} {qn qu : List Nat} (sp : Split N k m qn qu) (u v : List Bool)
    (hu : u.length = k) (hv : v.length = m) (x0 : BV N) :
    P N qn u qu v = x0 ↔ u = qn.map (bitAt x0) ∧ v = qu.map (bitAt x0) := by
  have hndn : qn.Nodup := (List.nodup_append.mp sp.hnd).1
  have hndu : qu.Nodup := (List.nodup_append.mp sp.hnd).2.1
  have hdisj : ∀ a ∈ qn, ∀ b ∈ qu, a ≠ b := (List.nodup_append.mp sp.hnd).2.2
  have hN := sp.hN
  constructor
  · intro h
    constructor
    · apply List.ext_getElem
      · simp [hu, sp.hqn]
      · intro t h1 h2
        have hmem : qn[t]'(by simpa using h2) ∈ qn := List.getElem_mem _
        have hlt : qn[t]'(by simpa using h2) < N := by
          have := sp.hlt _ (List.mem_append_left _ hmem); omega
        have hnu : qn[t]'(by simpa using h2) ∉ qu := fun hm => hdisj _ hmem _ hm rfl
        have := congrFun h ⟨_, hlt⟩
        simp only [P, place, hnu, if_false, List.Nodup.idxOf_getElem hndn] at this
        simp only [List.getElem_map, bitAt, hlt, dif_pos, ← this]
        simp [List.getD, h1]
    · apply List.ext_getElem
      · simp [hv, sp.hqu]
      · intro t h1 h2
        have hmem : qu[t]'(by simpa using h2) ∈ qu := List.getElem_mem _
        have hlt : qu[t]'(by simpa using h2) < N := by
          have := sp.hlt _ (List.mem_append_right _ hmem); omega
        have := congrFun h ⟨_, hlt⟩
        simp only [P, place, hmem, if_true, List.Nodup.idxOf_getElem hndu] at this
        simp only [List.getElem_map, bitAt, hlt, dif_pos, ← this]
        simp [List.getD, h1]
  · rintro ⟨rfl, rfl⟩
    funext p
    simp only [P, place]
    split_ifs with hp
    · have hi : qu.idxOf p.val < qu.length := List.idxOf_lt_length_iff.mpr hp
      simp [List.getD, hi, bitAt_val]
    · have hpn : p.val ∈ qn := by
        rcases sp.hcov p.val p.isLt with h | h
        · exact h
        · exact absurd h hp
      have hi : qn.idxOf p.val < qn.length := List.idxOf_lt_length_iff.mpr hpn
      simp [List.getD, hi, bitAt_val]

/-- with the unused bits taken from `x0`, the joined half is `x0` overwritten on the used qubits -/
theorem P_restrict {N k m : Nat} {qn qu : List Nat} (sp : Split N k m qn qu) (w : List Bool) (x0 : BV N)
    (p : Fin N) :
    P N qn (qn.map (bitAt x0)) qu w p = if p.val ∈ qu then w.getD (qu.idxOf p.val) false else x0 p := by
  simp only [P, place]
  split_ifs with hp
  · rfl
  · have hpn : p.val ∈ qn := by
      rcases sp.hcov p.val p.isLt with h | h
      · exact h
      · exact absurd h hp
    have hi : qn.idxOf p.val < qn.length := List.idxOf_lt_length_iff.mpr hpn
    simp [List.getD, hi, bitAt_val]

/-! ### the qubit lists `statevector` builds -/

theorem split_one (N q : Nat) (hq : q < N) : Split N (N - 1) 1 ((List.range N).erase q) [q] := by
  have hnd : (List.range N).Nodup := List.nodup_range
  have hmem : q ∈ List.range N := List.mem_range.mpr hq
  refine ⟨by omega, ?_, rfl, ?_, ?_, ?_⟩
  · rw [List.length_erase_of_mem hmem, List.length_range]
  · intro p hp
    rcases List.mem_append.mp hp with h | h
    · have := List.mem_range.mp (List.mem_of_mem_erase h); omega
    · simp at h; omega
  · rw [List.nodup_append]
    refine ⟨hnd.erase q, by simp, ?_⟩
    intro a ha b hb
    simp at hb; subst hb
    exact ((List.Nodup.mem_erase_iff hnd).mp ha).1
  · intro p hp
    by_cases h : p = q
    · right; simp [h]
    · left; exact (List.Nodup.mem_erase_iff hnd).mpr ⟨h, List.mem_range.mpr hp⟩

theorem split_two (N a b : Nat) (ha : a < N) (hb : b < N) (hab : a ≠ b) :
    Split N (N - 2) 2 (((List.range N).erase a).erase b) [a, b] := by
  have hnd : (List.range N).Nodup := List.nodup_range
  have hnd1 : ((List.range N).erase a).Nodup := hnd.erase a
  have hmema : a ∈ List.range N := List.mem_range.mpr ha
  have hmemb : b ∈ (List.range N).erase a :=
    (List.Nodup.mem_erase_iff hnd).mpr ⟨fun h => hab h.symm, List.mem_range.mpr hb⟩
  refine ⟨by omega, ?_, rfl, ?_, ?_, ?_⟩
  · rw [List.length_erase_of_mem hmemb, List.length_erase_of_mem hmema, List.length_range]; omega
  · intro p hp
    rcases List.mem_append.mp hp with h | h
    · have := List.mem_range.mp (List.mem_of_mem_erase (List.mem_of_mem_erase h)); omega
    · simp at h; omega
  · rw [List.nodup_append]
    refine ⟨hnd1.erase b, by simp [hab], ?_⟩
    intro x hx y hy
    have h1 := (List.Nodup.mem_erase_iff hnd1).mp hx
    have h2 := (List.Nodup.mem_erase_iff hnd).mp h1.2
    simp at hy
    rcases hy with rfl | rfl
    · exact h2.1
    · exact h1.1
  · intro p hp
    by_cases h1 : p = a
    · right; simp [h1]
    · by_cases h2 : p = b
      · right; simp [h2]
      · left
        exact (List.Nodup.mem_erase_iff hnd1).mpr ⟨h2, (List.Nodup.mem_erase_iff hnd).mpr ⟨h1, List.mem_range.mpr hp⟩⟩

end QG.Lemmas.Binary
