import Mathlib.Tactic
import Mathlib.Analysis.Normed.Algebra.MatrixExponential
import Mathlib.LinearAlgebra.Matrix.Kronecker
import QG.Spec.DetExp
import QG.Gen.GateSets

/-! Helper lemmas for C05: traces of the generated `expm` arguments, determinants of the drives, Jacobi's
formula applied to the sampled-gate form, `det` of `np.kron`. -/
namespace QG.Lemmas.Gates
open QG.Gen Matrix
open scoped Matrix.Norms.Operator Kronecker

variable {K : Type} [Field K]

theorem sq_trace_noise (v : SingleQubit.Env K) : (SingleQubit.noiseArg v).trace = 0 := by
  simp [Matrix.trace, Fin.sum_univ_two, SingleQubit.noiseArg, SingleQubit.Idx, SingleQubit.Idy, SingleQubit.Idz,
    SingleQubit.Ir, SingleQubit.Ip]
  ring

theorem sq_trace_drift (v : SingleQubit.Env K) :
    (SingleQubit.driftArg v).trace = -(v.e1 ^ 2) / 2 * (v.det1 + v.det3) := by
  simp [Matrix.trace, Fin.sum_univ_two, SingleQubit.driftArg, SingleQubit.deterministic]
  ring

theorem sq_det_U (v : SingleQubit.Env K) (h0 : v.c ^ 2 + v.s ^ 2 = 1) (h1 : v.e * v.eb = 1) (h2 : v.i ^ 2 = -1) :
    (SingleQubit.U v).det = 1 := by
  simp [Matrix.det_fin_two, SingleQubit.U]
  linear_combination h0 + (-(v.s^2) * v.i^2 ) * h1 + (- v.s^2) * h2

theorem cr_det_U (v : CR.Env K) (h0 : v.c ^ 2 + v.s ^ 2 = 1) (h1 : v.e * v.eb = 1) (h2 : v.i ^ 2 = -1) :
    (CR.U v).det = 1 := by
  rw [Matrix.det_succ_row_zero]
  simp [Fin.sum_univ_four, CR.U, Matrix.det_fin_three, Fin.succAbove, Matrix.submatrix]
  linear_combination (v.c ^ 2 - v.i ^ 2 * v.s ^ 2 * v.e * v.eb + 1) *
    (h0 + (-(v.s^2) * v.i^2 ) * h1 + (- v.s^2) * h2)

theorem cr_trace_noise (v : CR.Env K) : (CR.noiseArg v).trace = 0 := by
  simp [Matrix.trace, Fin.sum_univ_four, CR.noiseArg, CR.Ir_ctr, CR.Ir_trg, CR.Ip_ctr, CR.Ip_trg, CR.Idx_ctr, CR.Idy_ctr,
    CR.Idz_ctr, CR.Idx_trg, CR.Idy_trg, CR.Idz_trg]
  ring

theorem cr_trace_drift (v : CR.Env K) :
    (CR.driftArg v).trace = -(v.e1_ctr ^ 2) / 2 * (2 * v.a) + -(v.e1_trg ^ 2) / 2 * (2 * (v.det1 + v.det3)) := by
  simp [Matrix.trace, Fin.sum_univ_four, CR.driftArg, CR.deterministic_r_ctr, CR.deterministic_r_trg]
  ring

/-- `det` of `np.kron` of two 2x2 matrices -/
theorem det_kron2 (A B : Matrix (Fin 2) (Fin 2) ℂ) : (QG.Spec.kron2 A B).det = A.det ^ 2 * B.det ^ 2 := by
  unfold QG.Spec.kron2
  rw [Matrix.det_reindex_self, Matrix.det_kronecker]
  simp

/-- a sampled gate `U * exp D * exp N` has determinant `det U * exp (tr D + tr N)` -/
theorem det_gate_form {n : Type} [Fintype n] [DecidableEq n] (U D N : Matrix n n ℂ) :
    (U * NormedSpace.exp D * NormedSpace.exp N).det = U.det * Complex.exp (D.trace + N.trace) := by
  rw [Matrix.det_mul, Matrix.det_mul, QG.Spec.det_exp, QG.Spec.det_exp, Complex.exp_add, mul_assoc]


/-! ### the decay exponent of one qubit: `tau / T1`, and `0` when `T1 = 0` ("off") -/

/-- `tau / T1` with the convention "`T1 = 0` means no relaxation" -/
noncomputable def decay (tau T1 : ℝ) : ℝ := if T1 = 0 then 0 else tau / T1

theorem sq_e1_sq (T1 : ℝ) (h : 0 ≤ T1) : (SingleQubit.e1 T1) ^ 2 = decay SingleQubit.tg T1 := by
  unfold SingleQubit.e1 decay
  split_ifs with h0
  · simp
  · rw [Real.sq_sqrt]; exact div_nonneg (by unfold SingleQubit.tg; norm_num) h

theorem cr_e1c_sq (T1 : ℝ) (h : 0 ≤ T1) : (CR.e1_ctr T1) ^ 2 = decay CR.tg T1 := by
  unfold CR.e1_ctr decay
  split_ifs with h0
  · simp
  · rw [Real.sq_sqrt]; exact div_nonneg (by unfold CR.tg; norm_num) h

theorem cr_e1t_sq (T1 : ℝ) (h : 0 ≤ T1) : (CR.e1_trg T1) ^ 2 = decay CR.tg T1 := by
  unfold CR.e1_trg decay
  split_ifs with h0
  · simp
  · rw [Real.sq_sqrt]; exact div_nonneg (by unfold CR.tg; norm_num) h

theorem relax_e1_sq (T1 : ℝ) (h : 0 ≤ T1) : (Relaxation.e1 T1) ^ 2 = decay Relaxation.tg T1 := by
  unfold Relaxation.e1 decay
  split_ifs with h0
  · simp
  · rw [Real.sq_sqrt]; exact div_nonneg (by unfold Relaxation.tg; norm_num) h

/-- the two drift integrals of a single-qubit pulse add up to the pulse duration `1` (in units of `tg`),
for every pulse shape: `sin²(x/2) + cos²(x/2) = 1` under the integral -/
theorem sq_det1_add_det3 (F : ℝ → ℝ) (hF : Continuous F) (theta : ℝ) :
    SingleQubit.det1 F theta + SingleQubit.det3 F theta = 1 := by
  unfold SingleQubit.det1 SingleQubit.det3
  rw [QG.Spec.integ_add F g3 g7 hF (by unfold g3; fun_prop) (by unfold g7; fun_prop)]
  have : (fun x => g3 x + g7 x) = fun _ => (1 : ℝ) := by
    funext x; unfold g3 g7; exact Real.sin_sq_add_cos_sq _
  rw [this, QG.Spec.integ_const]; simp

/-- the two drift integrals of the cross-resonance pulse add up to its duration `a` (in units of `tg`), for every
pulse shape and every angle -/
theorem cr_det1_add_det3 (F : ℝ → ℝ) (hF : Continuous F) (theta t_cr : ℝ) :
    CR.det1 F theta t_cr + CR.det3 F theta t_cr = CR.a t_cr := by
  unfold CR.det1 CR.det3
  rw [QG.Spec.integ_add F g3 g7 hF (by unfold g3; fun_prop) (by unfold g7; fun_prop)]
  have : (fun x => g3 x + g7 x) = fun _ => (1 : ℝ) := by
    funext x; unfold g3 g7; exact Real.sin_sq_add_cos_sq _
  rw [this, QG.Spec.integ_const]; simp

end QG.Lemmas.Gates
