import Mathlib.Tactic
import QG.Spec.GateAlgebra
import QG.Lemmas.OptimizerRuns
/-!
Helper lemmas for C02: `process_snippet` and level 2 of the optimizer against the abstract gate algebra.
-/
namespace QG.Lemmas.Optimizer
open QG.Model.Optimizer QG.Spec QG.Spec.GateAlgebra

variable {M2 M4 Op : Type} [Monoid Op] {ops : MatOps M2 M4} {n : Nat}

/-- a well-formed snippet: the pair is a pair of distinct qubits `< n`, all one-qubit gates act on
qubits `< n`, and the two trailing gates (if there are two) act on different qubits -/
structure WFSnippet (n : Nat) (s : Snippet M2 M4) : Prop where
  h1 : s.q1 < n
  h2 : s.q2 < n
  h12 : s.q1 ≠ s.q2
  hbefore : ∀ g ∈ s.before, g.q < n
  hafter : ∀ g ∈ s.after, g.q < n
  hadj : ∀ a1 a2, s.after = [a1, a2] → a1.q ≠ a2.q

section
variable (S : GateAlgebra ops n Op)

theorem before_sem (s : Snippet M2 M4) (h1 : s.q1 < n) (h2 : s.q2 < n) (h12 : s.q1 ≠ s.q2) :
    S.e2 (beforePart ops s).2 s.q1 s.q2 * S.sem ((beforePart ops s).1.map G1.item) =
      S.e2 s.g s.q1 s.q2 * S.sem (s.before.map G1.item) := by
  unfold beforePart
  rcases hrev : s.before.reverse with _ | ⟨b1, _ | ⟨b2, rest⟩⟩
  · have : s.before = [] := by simpa using hrev
    simp [this]
  · have : s.before = [b1] := by simpa using congrArg List.reverse hrev
    simp only [this]
    split_ifs with h h'
    · simp [e2_kron_left S _ _ _ _ h1 h2 h12, h]
    · simp [e2_kron_right S _ _ _ _ h1 h2 h12, h']
    · simp
  · have hb : s.before = rest.reverse ++ [b2, b1] := by
      have := congrArg List.reverse hrev; simpa using this
    simp only [hb]
    split_ifs with c1 c2 c3 c4
    · obtain ⟨ha, hb'⟩ := c1
      simp only [List.map_reverse, List.map_append, List.map_cons, List.map_nil, sem_append, sem_cons,
        sem_nil, item_G1, one_mul, S.e2_mul _ _ _ _ h1 h2 h12, S.e2_kron _ _ _ _ h1 h2 h12, ha, hb',
        mul_assoc]
      rw [← mul_assoc (S.e1 b2.m s.q1), S.comm11 _ _ _ _ h1 h2 h12]
      simp [mul_assoc]
    · obtain ⟨ha, hb'⟩ := c2
      simp [sem_append, S.e2_mul _ _ _ _ h1 h2 h12, S.e2_kron _ _ _ _ h1 h2 h12, ha, hb', mul_assoc]
    · simp [sem_append, e2_kron_left S _ _ _ _ h1 h2 h12, c3, mul_assoc]
    · simp [sem_append, e2_kron_right S _ _ _ _ h1 h2 h12, c4, mul_assoc]
    · simp [sem_append, mul_assoc]

theorem after_sem (s : Snippet M2 M4) (g' : M4) (h1 : s.q1 < n) (h2 : s.q2 < n) (h12 : s.q1 ≠ s.q2)
    (hq : ∀ g ∈ s.after, g.q < n) (hadj : ∀ a1 a2, s.after = [a1, a2] → a1.q ≠ a2.q) :
    S.sem ((afterPart ops s g').2.map G1.item) * S.e2 (afterPart ops s g').1 s.q1 s.q2 =
      S.sem (s.after.map G1.item) * S.e2 g' s.q1 s.q2 := by
  unfold afterPart
  rcases hafter : s.after with _ | ⟨a1, _ | ⟨a2, _ | ⟨a3, more⟩⟩⟩
  · simp
  · -- one trailing gate
    simp only
    split_ifs with c1 c2
    · simp [e2_kron_left' S _ _ _ _ h1 h2 h12, c1]
    · simp [e2_kron_right' S _ _ _ _ h1 h2 h12, c2]
    · simp
  · have hne := hadj a1 a2 hafter
    have hq1 : a1.q < n := hq a1 (by simp [hafter])
    have hq2 : a2.q < n := hq a2 (by simp [hafter])
    simp only
    split_ifs with c1 c2 c3 c4 c5 c6
    · obtain ⟨ha, hb⟩ := c1
      simp [S.e2_mul _ _ _ _ h1 h2 h12, S.e2_kron _ _ _ _ h1 h2 h12, ha, hb, mul_assoc]
    · obtain ⟨ha, hb⟩ := c2
      simp only [List.map_nil, sem_nil, one_mul, List.map_cons, sem_cons, item_G1,
        S.e2_mul _ _ _ _ h1 h2 h12, S.e2_kron _ _ _ _ h1 h2 h12, ha, hb, mul_assoc]
      rw [← mul_assoc (S.e1 a1.m s.q1), S.comm11 _ _ _ _ h1 h2 h12]; simp [mul_assoc]
    · obtain ⟨ha, hb⟩ := c3
      simp only [List.map_nil, sem_nil, one_mul, List.map_cons, sem_cons, item_G1,
        e2_kron_left' S _ _ _ _ h1 h2 h12, mul_assoc]
      rw [← ha, ← mul_assoc, ← mul_assoc, S.comm11 _ _ _ _ hq1 hq2 hne]
    · obtain ⟨ha, hb⟩ := c4
      simp only [List.map_nil, sem_nil, one_mul, List.map_cons, sem_cons, item_G1,
        e2_kron_right' S _ _ _ _ h1 h2 h12, mul_assoc]
      rw [← ha, ← mul_assoc, ← mul_assoc, S.comm11 _ _ _ _ hq1 hq2 hne]
    · simp [e2_kron_left' S _ _ _ _ h1 h2 h12, c5, mul_assoc]
    · simp [e2_kron_right' S _ _ _ _ h1 h2 h12, c6, mul_assoc]
    · simp
  · simp

/-- `process_snippet` preserves the operator of a well-formed snippet -/
theorem processSnippet_sem (s : Snippet M2 M4) (hs : WFSnippet n s) :
    S.sem (processSnippet ops s) = S.sem s.items := by
  have hb := before_sem S s hs.h1 hs.h2 hs.h12
  have ha := after_sem S s (beforePart ops s).2 hs.h1 hs.h2 hs.h12 hs.hafter hs.hadj
  simp only [processSnippet, Snippet.items, sem_append, sem_cons, sem_nil, one_mul, item_two]
  rw [← mul_assoc, ha, mul_assoc, hb]

end

theorem before_sub (s : Snippet M2 M4) :
    (beforePart ops s).1.length ≤ s.before.length ∧ ∀ x ∈ (beforePart ops s).1, x ∈ s.before := by
  unfold beforePart
  rcases hrev : s.before.reverse with _ | ⟨b1, _ | ⟨b2, rest⟩⟩
  · simp
  · have : s.before = [b1] := by simpa using congrArg List.reverse hrev
    simp only [this]
    split_ifs <;> simp
  · have hb : s.before = rest.reverse ++ [b2, b1] := by
      have := congrArg List.reverse hrev; simpa using this
    simp only [hb]
    split_ifs <;> simp <;> tauto

theorem after_sub (s : Snippet M2 M4) (g' : M4) :
    (afterPart ops s g').2.length ≤ s.after.length ∧ ∀ x ∈ (afterPart ops s g').2, x ∈ s.after := by
  unfold afterPart
  rcases hafter : s.after with _ | ⟨a1, _ | ⟨a2, _ | ⟨a3, more⟩⟩⟩
  · simp
  · simp only
    split_ifs <;> simp
  · simp only
    split_ifs <;> simp
  · simp

theorem processSnippet_length (s : Snippet M2 M4) :
    (processSnippet ops s).length ≤ s.items.length := by
  have hb := (before_sub (ops := ops) s).1
  have ha := (after_sub (ops := ops) s (beforePart ops s).2).1
  simp only [processSnippet, Snippet.items, List.length_append, List.length_map, List.length_cons,
    List.length_nil]
  omega

theorem processSnippet_wf (s : Snippet M2 M4) (hs : WFSnippet n s) :
    WFList n (processSnippet ops s) := by
  have hb := (before_sub (ops := ops) s).2
  have ha := (after_sub (ops := ops) s (beforePart ops s).2).2
  intro x hx
  simp only [processSnippet, List.mem_append, List.mem_map, List.mem_cons, List.not_mem_nil,
    or_false] at hx
  rcases hx with (⟨g, hg, rfl⟩ | rfl) | ⟨g, hg, rfl⟩
  · exact hs.hbefore g (hb g hg)
  · exact ⟨hs.h1, hs.h2, hs.h12⟩
  · exact hs.hafter g (ha g hg)

/-! ### the loop of level 2 -/

theorem splitAtTwo_spec (gl : List (Item M2 M4)) (h : countTwo gl > 0) :
    ∃ before g q1 q2 rest, splitAtTwo gl = some (before, g, q1, q2, rest) ∧
      gl = before.map G1.item ++ Item.two g q1 q2 :: rest ∧ countTwo rest + 1 = countTwo gl := by
  induction gl with
  | nil => simp [countTwo] at h
  | cons x xs ih =>
    cases x with
    | two g a b => exact ⟨[], g, a, b, xs, by simp [splitAtTwo], by simp, by simp [countTwo]⟩
    | one m q =>
      obtain ⟨before, g, q1, q2, rest, h1, h2, h3⟩ := ih (by simpa [countTwo] using h)
      refine ⟨⟨m, q⟩ :: before, g, q1, q2, rest, by simp [splitAtTwo, h1], ?_, by simpa [countTwo] using h3⟩
      simp [h2, G1.item]

theorem takeAfter_spec (rest : List (Item M2 M4)) :
    rest = (takeAfter rest).1.map G1.item ++ (takeAfter rest).2 ∧
      countTwo (takeAfter rest).2 = countTwo rest := by
  unfold takeAfter
  split <;> simp [G1.item, countTwo]

theorem takeAfter_adj (rest : List (Item M2 M4)) (h : NoAdjSame rest) :
    ∀ a1 a2, (takeAfter rest).1 = [a1, a2] → a1.q ≠ a2.q := by
  unfold takeAfter
  split
  · rename_i m q m' q' r
    intro a1 a2 heq
    simp only [List.cons.injEq, and_true] at heq
    obtain ⟨rfl, rfl⟩ := heq
    have := h.1
    simpa [oneQ] using this
  · intro a1 a2 heq; simp at heq
  · intro a1 a2 heq; simp at heq

theorem noAdjSame_append_right (l₁ l₂ : List (Item M2 M4)) (h : NoAdjSame (l₁ ++ l₂)) : NoAdjSame l₂ := by
  induction l₁ with
  | nil => simpa using h
  | cons x xs ih => exact ih (NoAdjSame.tail h)

theorem level2Loop_spec (S : GateAlgebra ops n Op) (k : Nat) (gl res : List (Item M2 M4))
    (hk : countTwo gl = k) (hwf : WFList n gl) (hres : WFList n res) (hadj : NoAdjSame gl) :
    ∃ out, level2Loop ops k gl res = .ok out ∧ S.sem out = S.sem gl * S.sem res ∧
      out.length ≤ res.length + gl.length ∧ WFList n out := by
  induction k generalizing gl res with
  | zero =>
    exact ⟨res ++ gl, rfl, sem_append S _ _, by simp, hres.append hwf⟩
  | succ k ih =>
    obtain ⟨before, g, q1, q2, rest, h1, h2, h3⟩ := splitAtTwo_spec gl (by omega)
    obtain ⟨h4, h5⟩ := takeAfter_spec rest
    have hadjrest : NoAdjSame rest := by
      have := noAdjSame_append_right (before.map G1.item) _ (h2 ▸ hadj)
      exact this.tail
    have hwfrest : WFList n rest := by
      have : WFList n (before.map G1.item ++ Item.two g q1 q2 :: rest) := h2 ▸ hwf
      exact this.right.tail
    have hpair : q1 < n ∧ q2 < n ∧ q1 ≠ q2 := by
      have : WFList n (before.map G1.item ++ Item.two g q1 q2 :: rest) := h2 ▸ hwf
      exact this.right.head
    set s : Snippet M2 M4 := ⟨before, g, q1, q2, (takeAfter rest).1⟩ with hs
    have hsnip : WFSnippet n s := by
      refine ⟨hpair.1, hpair.2.1, hpair.2.2, ?_, ?_, takeAfter_adj rest hadjrest⟩
      · intro x hx
        have : WFList n (before.map G1.item ++ Item.two g q1 q2 :: rest) := h2 ▸ hwf
        exact this.left (G1.item x) (List.mem_map_of_mem hx)
      · intro x hx
        have : WFList n ((takeAfter rest).1.map G1.item ++ (takeAfter rest).2) := h4 ▸ hwfrest
        exact this.left (G1.item x) (List.mem_map_of_mem hx)
    have hwfrest' : WFList n (takeAfter rest).2 := by
      have : WFList n ((takeAfter rest).1.map G1.item ++ (takeAfter rest).2) := h4 ▸ hwfrest
      exact this.right
    have hadjrest' : NoAdjSame (takeAfter rest).2 :=
      noAdjSame_append_right ((takeAfter rest).1.map G1.item) _ (h4 ▸ hadjrest)
    obtain ⟨out, ho1, ho2, ho3, ho4⟩ := ih (takeAfter rest).2 (res ++ processSnippet ops s)
      (by omega) hwfrest' (hres.append (processSnippet_wf s hsnip)) hadjrest'
    refine ⟨out, ?_, ?_, ?_, ho4⟩
    · simp only [level2Loop, h1]; exact ho1
    · rw [ho2, sem_append, processSnippet_sem S s hsnip]
      have hgl : S.sem gl = S.sem (takeAfter rest).2 * S.sem s.items := by
        conv_lhs => rw [h2]
        simp only [Snippet.items, sem_append, sem_cons, sem_nil, one_mul, hs]
        conv_lhs => rw [h4]
        simp only [sem_append, mul_assoc]
      rw [hgl, mul_assoc]
    · have hlen := processSnippet_length (ops := ops) s
      have hgl : gl.length = s.items.length + (takeAfter rest).2.length := by
        conv_lhs => rw [h2]
        simp only [Snippet.items, List.length_append, List.length_map, List.length_cons, List.length_nil, hs]
        conv_lhs => rw [h4]
        simp only [List.length_append, List.length_map]
        omega
      simp only [List.length_append] at ho3
      omega

/-- level 2 never raises on a well-formed list whose adjacent one-qubit items act on different
qubits, and preserves the operator, the well-formedness and does not lengthen the list -/
theorem level2_spec (S : GateAlgebra ops n Op) (gl : List (Item M2 M4)) (hwf : WFList n gl)
    (hadj : NoAdjSame gl) :
    ∃ out, level2 ops gl = .ok out ∧ S.sem out = S.sem gl ∧ out.length ≤ gl.length ∧ WFList n out := by
  unfold level2
  split
  · obtain ⟨out, h1, h2, h3, h4⟩ := level2Loop_spec S (countTwo gl) gl [] rfl hwf WFList.nil hadj
    exact ⟨out, h1, by simpa using h2, by simpa using h3, h4⟩
  · exact ⟨gl, rfl, rfl, le_refl _, hwf⟩

theorem processSnippet_ne_nil (s : Snippet M2 M4) : processSnippet ops s ≠ [] := by
  simp [processSnippet]

theorem level2Loop_ne_nil (k : Nat) (gl res out : List (Item M2 M4))
    (h : level2Loop ops k gl res = .ok out) (hne : res ≠ [] ∨ gl ≠ []) : out ≠ [] := by
  induction k generalizing gl res with
  | zero =>
    simp only [level2Loop, Except.ok.injEq] at h
    subst h
    rcases hne with h | h <;> simp [h]
  | succ k ih =>
    simp only [level2Loop] at h
    split at h
    · cases h
    · exact ih _ _ h (Or.inl (by simp [processSnippet_ne_nil]))

theorem level2_ne_nil (gl out : List (Item M2 M4)) (h : level2 ops gl = .ok out) (hne : gl ≠ []) :
    out ≠ [] := by
  unfold level2 at h
  split at h
  · exact level2Loop_ne_nil _ _ _ _ h (Or.inr hne)
  · cases h; exact hne

end QG.Lemmas.Optimizer
