import Mathlib.Tactic
import QG.Lemmas.BackendOnes
/-!
# A layer's Kronecker product is the product of the embeddings of its blocks

The flat-index half of the bridge between the layer-based backends (`kron`) and the index-based backend (one embedded
gate after the other).  `embedLegs pre b post` is the block `b` with identities of dimension `pre` on the more
significant and `post` on the less significant side; `applyBlocks` applies the blocks of a layer one after another, each
embedded at its own position (scalar placeholders are 1x1 blocks: they contribute the factor 1 and do not move the
position).  `applyBlocks_eq`: this is multiplication by the layer's Kronecker product.
-/
open Finset QG.Model.Backend
open QG.Spec.KronFlat hiding Leg

set_option linter.unusedSectionVars false

namespace QG.Lemmas.Backend

variable {R : Type} [CommSemiring R]

/-- a block with identities on both sides -/
def embedLegs (pre : ℕ) (b : SLeg R) (post : ℕ) : List (SLeg R) := [(pre, none), b, (post, none)]

/-- apply the blocks one after another (first block first), each embedded at its position; `pre` = total dimension of
the blocks already passed -/
def applyBlocks (pre : ℕ) : List (SLeg R) → (ℕ → R) → (ℕ → R)
  | [], ψ => ψ
  | b :: rest, ψ =>
    applyBlocks (pre * b.1) rest
      (mulVec (pre * b.1 * dims rest) (kronList (embedLegs pre b (dims rest))) ψ)

theorem idx3_div (hi a lo d D : ℕ) (hD : 0 < D) (ha : a < d) (hlo : lo < D) :
    (hi * (d * D) + a * D + lo) / (d * D) = hi ∧ (hi * (d * D) + a * D + lo) % (d * D) = a * D + lo ∧
      (a * D + lo) / D = a ∧ (a * D + lo) % D = lo := by
  have hdD : 0 < d * D := Nat.mul_pos (by omega) hD
  have hlt : a * D + lo < d * D := by
    have : (a + 1) * D ≤ d * D := Nat.mul_le_mul_right D (by omega)
    have : (a + 1) * D = a * D + D := by ring
    omega
  refine ⟨?_, ?_, ?_, ?_⟩
  · rw [Nat.add_assoc, Nat.add_comm, Nat.add_mul_div_right _ _ hdD, Nat.div_eq_of_lt hlt, Nat.zero_add]
  · rw [Nat.add_assoc, Nat.add_comm, Nat.add_mul_mod_self_right, Nat.mod_eq_of_lt hlt]
  · rw [Nat.add_comm, Nat.add_mul_div_right _ _ hD, Nat.div_eq_of_lt hlo, Nat.zero_add]
  · rw [Nat.add_comm, Nat.add_mul_mod_self_right, Nat.mod_eq_of_lt hlo]

/-- identity, `B`, identity -/
theorem einsum_mid (P d D : ℕ) (hD : 0 < D) (B : FMat R) (ψ : ℕ → R) (hi a lo : ℕ) (ha : a < d) (hlo : lo < D) :
    einsumList [((P, none) : SLeg R), (d, some B), (D, none)] ψ (hi * (d * D) + a * D + lo) =
      ∑ b ∈ range d, B a b * ψ (hi * (d * D) + b * D + lo) := by
  obtain ⟨h1, h2, h3, h4⟩ := idx3_div hi a lo d D hD ha hlo
  simp only [einsumList, dims, Nat.mul_one, h1, h2, h3, h4, Nat.div_one, Nat.mod_one, Nat.add_zero]
  refine sum_congr rfl fun b _ => ?_
  congr 2
  ring

/-- identity, `B`, `K` -/
theorem einsum_mid_last (P d D : ℕ) (hD : 0 < D) (B K : FMat R) (ψ : ℕ → R) (hi a lo : ℕ) (ha : a < d)
    (hlo : lo < D) :
    einsumList [((P, none) : SLeg R), (d, some B), (D, some K)] ψ (hi * (d * D) + a * D + lo) =
      ∑ b ∈ range d, B a b * ∑ c ∈ range D, K lo c * ψ (hi * (d * D) + b * D + c) := by
  obtain ⟨h1, h2, h3, h4⟩ := idx3_div hi a lo d D hD ha hlo
  simp only [einsumList, dims, Nat.mul_one, h1, h2, h3, h4, Nat.div_one, Nat.mod_one, Nat.add_zero]
  refine sum_congr rfl fun b _ => ?_
  congr 1
  refine sum_congr rfl fun c _ => ?_
  congr 2
  ring

/-- identity, `K` -/
theorem einsum_last (Q D : ℕ) (hD : 0 < D) (K : FMat R) (φ : ℕ → R) (m lo : ℕ) (hlo : lo < D) :
    einsumList [((Q, none) : SLeg R), (D, some K)] φ (m * D + lo) = ∑ c ∈ range D, K lo c * φ (m * D + c) := by
  have h1 : (m * D + lo) / D = m := by
    rw [Nat.add_comm, Nat.add_mul_div_right _ _ hD, Nat.div_eq_of_lt hlo, Nat.zero_add]
  have h2 : (m * D + lo) % D = lo := by
    rw [Nat.add_comm, Nat.add_mul_mod_self_right, Nat.mod_eq_of_lt hlo]
  simp only [einsumList, dims, Nat.mul_one, h1, h2, Nat.div_one, Nat.mod_one, Nat.add_zero]

/-- every index below `P·d·D` decomposes -/
theorem idx3_exists (P d D i : ℕ) (hD : 0 < D) (hd : 0 < d) (hi : i < P * d * D) :
    ∃ h a lo, h < P ∧ a < d ∧ lo < D ∧ i = h * (d * D) + a * D + lo := by
  have hdD : 0 < d * D := Nat.mul_pos hd hD
  refine ⟨i / (d * D), (i % (d * D)) / D, (i % (d * D)) % D, ?_, ?_, Nat.mod_lt _ hD, ?_⟩
  · rw [Nat.div_lt_iff_lt_mul hdD]; rw [Nat.mul_assoc] at hi; exact hi
  · rw [Nat.div_lt_iff_lt_mul hD]; exact Nat.mod_lt _ hdD
  · have e1 := Nat.div_add_mod i (d * D)
    have e2 := Nat.div_add_mod (i % (d * D)) D
    have e3 : i / (d * D) * (d * D) = d * D * (i / (d * D)) := by ring
    have e4 : i % (d * D) / D * D = D * (i % (d * D) / D) := by ring
    omega

/-- mixed product in contraction form: `(1 ⊗ 1 ⊗ K) (1 ⊗ B ⊗ 1) = 1 ⊗ B ⊗ K` -/
theorem einsum_comp (P d D : ℕ) (hd : 0 < d) (hD : 0 < D) (B K : FMat R) (ψ : ℕ → R) (i : ℕ) (hi : i < P * d * D) :
    einsumList [((P * d, none) : SLeg R), (D, some K)]
        (einsumList [((P, none) : SLeg R), (d, some B), (D, none)] ψ) i =
      einsumList [((P, none) : SLeg R), (d, some B), (D, some K)] ψ i := by
  obtain ⟨h, a, lo, _, ha, hlo, rfl⟩ := idx3_exists P d D i hD hd hi
  rw [einsum_mid_last P d D hD B K ψ h a lo ha hlo]
  have e : h * (d * D) + a * D + lo = (h * d + a) * D + lo := by ring
  rw [e, einsum_last (P * d) D hD K _ (h * d + a) lo hlo]
  have e' : ∀ c, (h * d + a) * D + c = h * (d * D) + a * D + c := fun c => by ring
  simp only [e']
  have : ∀ c ∈ range D, K lo c * einsumList [((P, none) : SLeg R), (d, some B), (D, none)] ψ (h * (d * D) + a * D + c) =
      K lo c * ∑ b ∈ range d, B a b * ψ (h * (d * D) + b * D + c) := by
    intro c hc
    rw [einsum_mid P d D hD B ψ h a c ha (mem_range.mp hc)]
  rw [sum_congr rfl this]
  simp only [mul_sum]
  rw [sum_comm]
  refine sum_congr rfl fun b _ => sum_congr rfl fun c _ => ?_
  ring

theorem good_chunkLeg (rest : List (SLeg R)) (h : ∀ x ∈ rest, Leg.Good x) : Leg.Good (chunkLeg rest) :=
  ⟨dims_pos rest fun y hy => (h y hy).1, isCut_kronList rest h⟩

theorem LEq_chunkLeg (rest : List (SLeg R)) : LEq [chunkLeg rest] rest :=
  ⟨by simp [dims_single, chunkLeg], by rw [kronList_single]; rfl⟩

/-- applying the blocks one after another, each embedded at its position, is multiplication by the Kronecker product of
the whole list (with an identity of dimension `pre` in front) -/
theorem applyBlocks_eq (pre : ℕ) (hpre : 0 < pre) (l : List (SLeg R)) (hg : ∀ x ∈ l, Leg.Good x) (ψ : ℕ → R) (i : ℕ)
    (hi : i < pre * dims l) :
    applyBlocks pre l ψ i = mulVec (pre * dims l) (kronList (((pre, none) : SLeg R) :: l)) ψ i := by
  induction l generalizing pre ψ i with
  | nil =>
    simp only [dims, Nat.mul_one] at hi ⊢
    rw [applyBlocks, kronList_single]
    simp only [legMat]
    rw [mulVec_idMat _ _ _ hi]
  | cons b rest ih =>
    obtain ⟨d, oB⟩ := b
    have hgb : Leg.Good ((d, oB) : SLeg R) := hg _ (by simp)
    have hgr : ∀ x ∈ rest, Leg.Good x := fun x hx => hg x (by simp [hx])
    have hd : 0 < d := hgb.1
    have hD : 0 < dims rest := dims_pos rest fun y hy => (hgr y hy).1
    have hN : pre * dims ((d, oB) :: rest) = pre * d * dims rest := by simp only [dims]; ring
    have hi' : i < pre * d * dims rest := by rw [← hN]; exact hi
    rw [applyBlocks, ih (pre * d) (Nat.mul_pos hpre hd) hgr _ i hi']
    -- everything as contractions over three legs
    set B : FMat R := legMat (d, oB) with hB
    set K : FMat R := kronList rest with hK
    have hposAll : ∀ (o1 : Option (FMat R)) (o2 : Option (FMat R)),
        ∀ x ∈ [((pre, none) : SLeg R), (d, o1), (dims rest, o2)], 0 < x.1 := by
      intro o1 o2 x hx
      simp only [List.mem_cons, List.not_mem_nil, or_false] at hx
      rcases hx with rfl | rfl | rfl <;> assumption
    -- 1. the embedded block
    have h1 : ∀ j < pre * d * dims rest,
        mulVec (pre * d * dims rest) (kronList (embedLegs pre (d, oB) (dims rest))) ψ j =
          einsumList [((pre, none) : SLeg R), (d, some B), (dims rest, none)] ψ j := by
      intro j hj
      have hk : kronList (embedLegs pre (d, oB) (dims rest)) =
          kronList [((pre, none) : SLeg R), (d, some B), (dims rest, none)] := by
        simp only [embedLegs, kronList, legMat, hB, dims]
      have hdm : dims [((pre, none) : SLeg R), (d, some B), (dims rest, none)] = pre * d * dims rest := by
        simp only [dims]; ring
      rw [hk, ← hdm, ← einsumList_eq _ (hposAll _ _) _ _ (by rw [hdm]; exact hj)]
    -- 2. the rest, behind an identity of dimension pre * d
    have h2 : ∀ (φ : ℕ → R), mulVec (pre * d * dims rest) (kronList (((pre * d, none) : SLeg R) :: rest)) φ i =
        einsumList [((pre * d, none) : SLeg R), (dims rest, some K)] φ i := by
      intro φ
      have hl : LEq ([((pre * d, none) : SLeg R)] ++ [chunkLeg rest]) ([((pre * d, none) : SLeg R)] ++ rest) :=
        LEq.append (LEq.refl _) (LEq_chunkLeg rest) (by simpa using good_chunkLeg rest hgr) hgr
      have hk : kronList (((pre * d, none) : SLeg R) :: rest) =
          kronList [((pre * d, none) : SLeg R), (dims rest, some K)] := by
        have := hl.2
        simpa [chunkLeg, hK] using this.symm
      have hdm : dims [((pre * d, none) : SLeg R), (dims rest, some K)] = pre * d * dims rest := by
        simp only [dims]; ring
      rw [hk, ← hdm, ← einsumList_eq _ (by
        intro x hx
        simp only [List.mem_cons, List.not_mem_nil, or_false] at hx
        rcases hx with rfl | rfl
        · exact Nat.mul_pos hpre hd
        · exact hD) _ _ (by rw [hdm]; exact hi')]
    -- 3. the whole list
    have h3 : mulVec (pre * dims ((d, oB) :: rest)) (kronList (((pre, none) : SLeg R) :: (d, oB) :: rest)) ψ i =
        einsumList [((pre, none) : SLeg R), (d, some B), (dims rest, some K)] ψ i := by
      have hl : LEq ([((pre, none) : SLeg R), (d, oB)] ++ [chunkLeg rest]) ([((pre, none) : SLeg R), (d, oB)] ++ rest) :=
        LEq.append (LEq.refl _) (LEq_chunkLeg rest) (by simpa using good_chunkLeg rest hgr) hgr
      have hk : kronList (((pre, none) : SLeg R) :: (d, oB) :: rest) =
          kronList [((pre, none) : SLeg R), (d, some B), (dims rest, some K)] := by
        have := hl.2
        rw [List.cons_append, List.cons_append, List.nil_append, List.cons_append, List.cons_append,
          List.nil_append] at this
        rw [← this]
        simp only [kronList, legMat, chunkLeg, hB, hK, dims]
      have hdm : dims [((pre, none) : SLeg R), (d, some B), (dims rest, some K)] = pre * d * dims rest := by
        simp only [dims]; ring
      rw [hN, hk, ← hdm, ← einsumList_eq _ (hposAll _ _) _ _ (by rw [hdm]; exact hi')]
    rw [h3, ← einsum_comp pre d (dims rest) hd hD B K ψ i hi', h2]
    -- the contraction over the last leg only reads indices below the total dimension
    obtain ⟨h, a, lo, _, ha, hlo, rfl⟩ := idx3_exists pre d (dims rest) i hD hd hi'
    have e : h * (d * dims rest) + a * dims rest + lo = (h * d + a) * dims rest + lo := by ring
    rw [e, einsum_last _ _ hD, einsum_last _ _ hD]
    · refine sum_congr rfl fun c hc => ?_
      congr 1
      apply h1
      have hc' := mem_range.mp hc
      have hlt : h * d + a < pre * d := by
        have : (h + 1) * d ≤ pre * d := Nat.mul_le_mul_right d (by omega)
        have : (h + 1) * d = h * d + d := by ring
        omega
      have : (h * d + a + 1) * dims rest ≤ pre * d * dims rest := Nat.mul_le_mul_right _ (by omega)
      have : (h * d + a + 1) * dims rest = (h * d + a) * dims rest + dims rest := by ring
      omega
    · exact hlo
    · exact hlo

end QG.Lemmas.Backend
