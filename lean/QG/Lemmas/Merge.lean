import Mathlib.Tactic
import Mathlib.Algebra.BigOperators.Group.Finset.Basic
import QG.Model.Merge

/-! Helper lemmas for the merge half of C19 (`post_process_split`).  Property theorems are in
`QG/Props/C19.lean`. -/
namespace QG.Lemmas.Merge
open QG.Model.Merge

variable {α : Type}

/-! ### the file-system map -/

@[simp] theorem read_write_same (fs : FS α) (p : String) (v : List α) :
    read (write fs p v) p = some v := by
  simp [Model.Merge.read, write]

theorem read_write_ne (fs : FS α) {p q : String} (v : List α) (h : q ≠ p) :
    read (write fs p v) q = read fs q := by
  have : (q == p) = false := by simpa using h
  simp [Model.Merge.read, write, List.lookup, this]

theorem isFile_eq_false {fs : FS α} {p : String} : isFile fs p = false ↔ read fs p = none := by
  simp [isFile]

theorem isFile_eq_true {fs : FS α} {p : String} : isFile fs p = true ↔ ∃ a, read fs p = some a := by
  simp [isFile, Option.isSome_iff_exists]

/-! ### specification vocabulary -/

/-- `f 0 + f 1 + … + f (n-1)`, added from the left in this order with the array type's own `+`
(what `target_array = a₀; target_array += a₁; …` computes in one entry); `n ≥ 1` -/
def leftSum (A : Arith α) (f : Nat → α) (n : Nat) : α :=
  (List.range' 1 (n - 1)).foldl (fun x i => A.add x (f i)) (f 0)

/-- the array the merge must write to target `j`: entry `e` is the left sum of the entries `e` of
the sources `j*split … j*split+split-1`, divided by `split`; `c i e` is entry `e` of source `i`
and `L` the common number of entries -/
def meanRow (A : Arith α) (c : Nat → Nat → α) (split L j : Nat) : List α :=
  (List.range L).map fun e => A.divNat (leftSum A (fun i => c (j * split + i) e) split) split

/-- `+` and `/` of a division ring (e.g. `ℚ`, `ℝ`) -/
def fieldArith (K : Type) [DivisionRing K] : Arith K := ⟨(· + ·), fun x n => x / (n : K)⟩

theorem foldl_add_eq_sum {K : Type} [DivisionRing K] (f : Nat → K) (k b : Nat) (x : K) :
    (List.range' k b).foldl (fun x i => x + f i) x = x + ∑ i ∈ Finset.range b, f (k + i) := by
  induction b generalizing k x with
  | zero => simp
  | succ b ih =>
    rw [List.range'_succ, List.foldl_cons, ih, Finset.sum_range_succ', add_assoc]
    congr 1
    rw [add_comm]
    congr 1
    · apply Finset.sum_congr rfl
      intro i _
      congr 1
      omega

theorem leftSum_field {K : Type} [DivisionRing K] (f : Nat → K) (n : Nat) (hn : 1 ≤ n) :
    leftSum (fieldArith K) f n = ∑ i ∈ Finset.range n, f i := by
  unfold leftSum fieldArith
  simp only
  rw [foldl_add_eq_sum]
  obtain ⟨m, rfl⟩ : ∃ m, n = m + 1 := ⟨n - 1, by omega⟩
  rw [Finset.sum_range_succ' f m]
  simp only [Nat.add_sub_cancel]
  rw [add_comm]
  congr 1
  apply Finset.sum_congr rfl
  intro i _
  congr 1
  omega

/-! ### the inner loop -/

theorem accumulate_range (A : Arith α) (fs : FS α) (src : List String) (c : Nat → Nat → α)
    (L base : Nat) :
    ∀ (b k : Nat) (g : Nat → α), base + k + b ≤ src.length →
      (∀ idx (h : idx < src.length), base + k ≤ idx → idx < base + k + b →
        read fs src[idx] = some ((List.range L).map (c idx))) →
      accumulate A fs ((List.range L).map g) ((src.drop (base + k)).take b)
        = .ok ((List.range L).map fun e =>
            (List.range' k b).foldl (fun x i => A.add x (c (base + i) e)) (g e)) := by
  intro b
  induction b with
  | zero => intro k g _ _; simp [accumulate]
  | succ b ih =>
    intro k g hle hread
    have hlt : base + k < src.length := by omega
    rw [List.drop_eq_getElem_cons hlt, List.take_succ_cons, accumulate,
      hread (base + k) hlt (le_refl _) (by omega)]
    simp only [addArr, List.length_map, List.length_range, if_true]
    have hz : List.zipWith A.add ((List.range L).map g) ((List.range L).map (c (base + k)))
        = (List.range L).map (fun e => A.add (g e) (c (base + k) e)) := by
      simp [List.zipWith_map_left, List.zipWith_map_right, List.zipWith_self]
    rw [hz]
    have := ih (k + 1) (fun e => A.add (g e) (c (base + k) e)) (by omega)
      (fun idx h h1 h2 => hread idx h (by omega) (by omega))
    rw [show base + (k + 1) = base + k + 1 from rfl] at this
    rw [this]
    simp [List.range'_succ]

theorem accumulate_err (A : Arith α) (fs : FS α) :
    ∀ (l : List String) (acc : List α) (e : Err), accumulate A fs acc l = .error e → e.isAssertion = false := by
  intro l
  induction l with
  | nil => intro acc e h; simp [accumulate] at h
  | cons f rest ih =>
    intro acc e h
    rw [accumulate] at h
    split at h
    · cases h; rfl
    · split at h
      · rename_i e' he'
        cases h
        unfold addArr at he'
        split at he'
        · cases he'
        · cases he'; rfl
      · exact ih _ _ h

/-! ### the outer loop -/

/-- an exception raised inside the loop is never one of the four assertions -/
theorem mergeLoop_err (A : Arith α) (src : List String) (sp : Nat) :
    ∀ (ts : List String) (i : Nat) (fs : FS α) (e : Err),
      (mergeLoop A src sp i ts fs).2 = .error e → e.isAssertion = false := by
  intro ts
  induction ts with
  | nil => intro i fs e h; simp [mergeLoop] at h
  | cons t ts ih =>
    intro i fs e h
    unfold mergeLoop at h
    split at h
    · cases h; rfl
    · split at h
      · cases h; rfl
      · split at h
        · rename_i e' he'
          cases h
          exact accumulate_err A fs _ _ _ he'
        · exact ih _ _ _ h

theorem mergeLoop_frame (A : Arith α) (src : List String) (sp : Nat) :
    ∀ (ts : List String) (i : Nat) (fs : FS α) (p : String), p ∉ ts →
      read (mergeLoop A src sp i ts fs).1 p = read fs p := by
  intro ts
  induction ts with
  | nil => intro i fs p _; simp [mergeLoop]
  | cons t ts ih =>
    intro i fs p hp
    have hpt : p ≠ t := fun e => hp (by simp [e])
    have hpts : p ∉ ts := fun e => hp (by simp [e])
    unfold mergeLoop
    split
    · rfl
    · split
      · rfl
      · split
        · rfl
        · rw [ih _ _ p hpts, read_write_ne _ _ hpt]

theorem mergeLoop_spec (A : Arith α) (src : List String) (sp : Nat) (hsp : 1 ≤ sp)
    (c : Nat → Nat → α) (len : Nat → Nat) :
    ∀ (ts : List String) (j0 : Nat) (fs : FS α),
      (j0 + ts.length) * sp = src.length →
      (∀ idx (h : idx < src.length),
        read fs src[idx] = some ((List.range (len (idx / sp))).map (c idx))) →
      (∀ t ∈ ts, ∀ idx (h : idx < src.length), src[idx] ≠ t) →
      ∃ post, mergeLoop A src sp (j0 * sp) ts fs = (post, .ok ()) ∧
        (∀ p, p ∉ ts → read post p = read fs p) ∧
        (∀ m (hm : m < ts.length), (∀ m' (hm' : m' < ts.length), m < m' → ts[m'] ≠ ts[m]) →
          read post ts[m] = some (meanRow A c sp (len (j0 + m)) (j0 + m))) := by
  intro ts
  induction ts with
  | nil =>
    intro j0 fs _ _ _
    exact ⟨fs, by simp [mergeLoop], fun _ _ => rfl, fun m hm => absurd hm (by simp)⟩
  | cons t ts ih =>
    intro j0 fs hcount hread hdisj
    simp only [List.length_cons] at hcount
    have hexp : (j0 + (ts.length + 1)) * sp = j0 * sp + sp + ts.length * sp := by ring
    have hlt0 : j0 * sp < src.length := by
      have : 0 ≤ ts.length * sp := Nat.zero_le _
      omega
    have hdiv : ∀ i, i < sp → (j0 * sp + i) / sp = j0 := by
      intro i hi
      apply Nat.div_eq_of_lt_le
      · omega
      · rw [Nat.succ_mul]; omega
    -- first source of the group
    have h0 := hread (j0 * sp) hlt0
    rw [show (j0 * sp) / sp = j0 by simpa using hdiv 0 (by omega)] at h0
    -- the remaining sources of the group
    have hacc := accumulate_range A fs src c (len j0) (j0 * sp) (sp - 1) 1 (c (j0 * sp))
      (by have : 0 ≤ ts.length * sp := Nat.zero_le _; omega)
      (by
        intro idx h h1 h2
        have := hread idx h
        rwa [show idx / sp = j0 by
          have := hdiv (idx - j0 * sp) (by omega)
          rwa [show j0 * sp + (idx - j0 * sp) = idx by omega] at this] at this)
    set row := meanRow A c sp (len j0) j0 with hrow
    have hstep : mergeLoop A src sp (j0 * sp) (t :: ts) fs
        = mergeLoop A src sp ((j0 + 1) * sp) ts (write fs t row) := by
      rw [mergeLoop]
      simp only [List.getElem?_eq_getElem hlt0, h0]
      rw [show j0 * sp + 1 = j0 * sp + 1 from rfl, hacc]
      simp only [List.map_map]
      rw [show (j0 + 1) * sp = j0 * sp + sp by ring]
      congr 2
    -- the rest of the loop on the file system after this write
    have hread' : ∀ idx (h : idx < src.length),
        read (write fs t row) src[idx] = some ((List.range (len (idx / sp))).map (c idx)) := by
      intro idx h
      rw [read_write_ne _ _ (hdisj t (by simp) idx h)]
      exact hread idx h
    obtain ⟨post, hpost, hframe, hval⟩ := ih (j0 + 1) (write fs t row)
      (by rw [← hcount]; ring) hread'
      (fun t' ht' => hdisj t' (by simp [ht']))
    refine ⟨post, by rw [hstep, hpost], ?_, ?_⟩
    · intro p hp
      have hpt : p ≠ t := fun e => hp (by simp [e])
      have hpts : p ∉ ts := fun e => hp (by simp [e])
      rw [hframe p hpts, read_write_ne _ _ hpt]
    · intro m hm hlast
      cases m with
      | zero =>
        have htn : t ∉ ts := by
          intro hmem
          obtain ⟨m', hm', hget⟩ := List.getElem_of_mem hmem
          exact hlast (m' + 1) (by simp; omega) (by omega) (by simpa using hget)
        simp only [List.getElem_cons_zero, Nat.add_zero]
        rw [hframe t htn, read_write_same]
      | succ m =>
        have hm2 : m < ts.length := by simpa using hm
        have := hval m hm2 (by
          intro m' hm' hlt
          have := hlast (m' + 1) (by simp; omega) (by omega)
          simpa using this)
        simp only [List.getElem_cons_succ]
        rw [this, show j0 + 1 + m = j0 + (m + 1) by omega]

end QG.Lemmas.Merge
