import Mathlib.Analysis.SpecialFunctions.Integrals.Basic
import Mathlib.MeasureTheory.Integral.DominatedConvergence
import Mathlib.Tactic

/-!
# Helper lemmas for C12 (integrator): the eight closed forms for the constant pulse

Everything here is about explicit trigonometric expressions `g` (no reference to generated code):
`∫ t in 0..a, g (θ * t / a) = closed form` for `θ ≠ 0`, `0 < a`, the change of variables behind all of
them, and the limit `θ → 0` of any function that equals such an integral away from `0`.
-/
namespace QG.Integrator
open Real intervalIntegral Filter Topology

/-- change of variables used by all eight closed forms -/
theorem integral_comp_scale (g : ℝ → ℝ) (θ a : ℝ) (hθ : θ ≠ 0) (ha : 0 < a) :
    ∫ t in (0:ℝ)..a, g (θ * t / a) = (a / θ) * ∫ x in (0:ℝ)..θ, g x := by
  have h1 : ∀ t, θ * t / a = (θ / a) * t := by intro t; ring
  simp_rw [h1]
  have hk : θ / a ≠ 0 := div_ne_zero hθ ha.ne'
  rw [intervalIntegral.integral_comp_mul_left g hk]
  have : θ / a * a = θ := by field_simp
  simp only [mul_zero, this, smul_eq_mul]
  field_simp

theorem cf_sin_sq (θ a : ℝ) (hθ : θ ≠ 0) (ha : 0 < a) :
    ∫ t in (0:ℝ)..a, sin (θ * t / a) ^ 2 = a * (2*θ - sin (2*θ)) / (4*θ) := by
  rw [integral_comp_scale (fun x => sin x ^ 2) θ a hθ ha, integral_sin_sq]
  simp only [sin_zero, cos_zero]; rw [sin_two_mul]; field_simp; ring

theorem cf_cos_sq (θ a : ℝ) (hθ : θ ≠ 0) (ha : 0 < a) :
    ∫ t in (0:ℝ)..a, cos (θ * t / a) ^ 2 = a * (2*θ + sin (2*θ)) / (4*θ) := by
  rw [integral_comp_scale (fun x => cos x ^ 2) θ a hθ ha, integral_cos_sq]
  simp only [sin_zero, cos_zero]; rw [sin_two_mul]; field_simp; ring

theorem cf_sin (θ a : ℝ) (hθ : θ ≠ 0) (ha : 0 < a) :
    ∫ t in (0:ℝ)..a, sin (θ * t / a) = a * (1 - cos θ) / θ := by
  rw [integral_comp_scale (fun x => sin x) θ a hθ ha, integral_sin]
  simp only [cos_zero]; field_simp

theorem cf_sin_mul_cos (θ a : ℝ) (hθ : θ ≠ 0) (ha : 0 < a) :
    ∫ t in (0:ℝ)..a, sin (θ * t / a) * cos (θ * t / a) = a * (sin θ) ^ 2 / (2*θ) := by
  rw [integral_comp_scale (fun x => sin x * cos x) θ a hθ ha, integral_sin_mul_cos₁]
  simp only [sin_zero]; field_simp; ring

/-- `sin²(y/2) = (1 - cos y)/2` -/
theorem half_sq (y : ℝ) : sin (y / 2) ^ 2 = (1 - cos y) / 2 := by
  have h2 : cos y = cos (2 * (y / 2)) := by congr 1; ring
  have := cos_sq_add_sin_sq (y / 2)
  rw [h2, cos_two_mul]; nlinarith [this]

/-- `cos²(y/2) = (1 + cos y)/2` -/
theorem cos_half_sq (y : ℝ) : cos (y / 2) ^ 2 = (1 + cos y) / 2 := by
  have h2 : cos y = cos (2 * (y / 2)) := by congr 1; ring
  rw [h2, cos_two_mul]; ring

theorem cf_sin_half_sq (θ a : ℝ) (hθ : θ ≠ 0) (ha : 0 < a) :
    ∫ t in (0:ℝ)..a, sin (θ * t / a / 2) ^ 2 = a * (θ - sin θ) / (2*θ) := by
  simp_rw [half_sq]
  have hi : IntervalIntegrable (fun t => cos (θ * t / a)) MeasureTheory.volume 0 a :=
    (Continuous.intervalIntegrable (by fun_prop) _ _)
  rw [intervalIntegral.integral_div, intervalIntegral.integral_sub (by simp) hi,
    integral_comp_scale (fun x => cos x) θ a hθ ha, integral_cos]
  simp; field_simp

theorem cf_cos_half_sq (θ a : ℝ) (hθ : θ ≠ 0) (ha : 0 < a) :
    ∫ t in (0:ℝ)..a, cos (θ * t / a / 2) ^ 2 = a * (θ + sin θ) / (2*θ) := by
  simp_rw [cos_half_sq]
  have hi : IntervalIntegrable (fun t => cos (θ * t / a)) MeasureTheory.volume 0 a :=
    (Continuous.intervalIntegrable (by fun_prop) _ _)
  rw [intervalIntegral.integral_div, intervalIntegral.integral_add (by simp) hi,
    integral_comp_scale (fun x => cos x) θ a hθ ha, integral_cos]
  simp; field_simp

theorem cf_sin_mul_sin_half_sq (θ a : ℝ) (hθ : θ ≠ 0) (ha : 0 < a) :
    ∫ t in (0:ℝ)..a, sin (θ * t / a) * sin (θ * t / a / 2) ^ 2 = a * (sin (θ/2)) ^ 4 / θ := by
  have h : ∀ t, sin (θ * t / a) * sin (θ * t / a / 2) ^ 2
      = (sin (θ * t / a) - sin (θ * t / a) * cos (θ * t / a)) / 2 := by
    intro t; rw [half_sq]; ring
  simp_rw [h]
  have hi1 : IntervalIntegrable (fun t => sin (θ * t / a)) MeasureTheory.volume 0 a :=
    (Continuous.intervalIntegrable (by fun_prop) _ _)
  have hi2 : IntervalIntegrable (fun t => sin (θ * t / a) * cos (θ * t / a)) MeasureTheory.volume 0 a :=
    (Continuous.intervalIntegrable (by fun_prop) _ _)
  rw [intervalIntegral.integral_div, intervalIntegral.integral_sub hi1 hi2, cf_sin θ a hθ ha,
    cf_sin_mul_cos θ a hθ ha]
  have e4 : sin (θ/2) ^ 4 = ((1 - cos θ) / 2) ^ 2 := by rw [← half_sq]; ring
  rw [e4]
  have := sin_sq_add_cos_sq θ
  field_simp
  nlinarith [this]

theorem cf_sin_half_pow4 (θ a : ℝ) (hθ : θ ≠ 0) (ha : 0 < a) :
    ∫ t in (0:ℝ)..a, sin (θ * t / a / 2) ^ 4 = a * (6*θ - 8 * sin θ + sin (2*θ)) / (16*θ) := by
  have h : ∀ t, sin (θ * t / a / 2) ^ 4
      = (1 - 2 * cos (θ * t / a) + cos (θ * t / a) ^ 2) / 4 := by
    intro t
    have e : sin (θ * t / a / 2) ^ 4 = (sin (θ * t / a / 2) ^ 2) ^ 2 := by ring
    rw [e, half_sq]; ring
  simp_rw [h]
  have hi1 : IntervalIntegrable (fun t => (1:ℝ) - 2 * cos (θ * t / a)) MeasureTheory.volume 0 a :=
    (Continuous.intervalIntegrable (by fun_prop) _ _)
  have hi0 : IntervalIntegrable (fun t => 2 * cos (θ * t / a)) MeasureTheory.volume 0 a :=
    (Continuous.intervalIntegrable (by fun_prop) _ _)
  have hi2 : IntervalIntegrable (fun t => cos (θ * t / a) ^ 2) MeasureTheory.volume 0 a :=
    (Continuous.intervalIntegrable (by fun_prop) _ _)
  rw [intervalIntegral.integral_div, intervalIntegral.integral_add hi1 hi2,
    intervalIntegral.integral_sub (by simp) hi0, intervalIntegral.integral_const_mul,
    cf_cos_sq θ a hθ ha, integral_comp_scale (fun x => cos x) θ a hθ ha, integral_cos]
  simp; field_simp; ring

/-- A function `R` that equals `∫₀ᵃ g(θ t / a) dt` for every `θ ≠ 0` tends to `a · g 0` as `θ → 0`
(continuity of the parametric integral in `θ`): the value the analytic lookup must return at `θ = 0`. -/
theorem tendsto_of_closed_form (g : ℝ → ℝ) (hg : Continuous g) (R : ℝ → ℝ) (a : ℝ)
    (h : ∀ θ, θ ≠ 0 → ∫ t in (0:ℝ)..a, g (θ * t / a) = R θ) :
    Tendsto R (𝓝[≠] 0) (𝓝 (a * g 0)) := by
  have hc : Continuous fun θ : ℝ => ∫ t in (0:ℝ)..a, g (θ * t / a) := by
    apply intervalIntegral.continuous_parametric_intervalIntegral_of_continuous'
    exact hg.comp (by fun_prop)
  have h0 : Tendsto (fun θ : ℝ => ∫ t in (0:ℝ)..a, g (θ * t / a)) (𝓝[≠] 0) (𝓝 (a * g 0)) := by
    have := (hc.tendsto 0).mono_left (nhdsWithin_le_nhds (s := {0}ᶜ))
    simpa [mul_comm] using this
  refine h0.congr' ?_
  filter_upwards [self_mem_nhdsWithin] with θ hθ
  exact h θ hθ

/-- at `θ = 0` the integrand is the constant `g 0` -/
theorem integral_at_zero (g : ℝ → ℝ) (a : ℝ) :
    ∫ t in (0:ℝ)..a, g (0 * t / a) = a * g 0 := by
  simp [mul_comm]

end QG.Integrator
