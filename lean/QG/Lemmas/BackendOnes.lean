import Mathlib.Tactic
import QG.Lemmas.BackendEfficient
/-!
# `BackendForOnes`

* `LEq`: two lists of legs with the same total dimension and the same Kronecker product; congruence for `++`.
* `splitRun_flatten` / `splitRun_ne`: both copies of the 19 / 11-or-14 / 8 splitting cut a run into consecutive non-empty
  pieces whose concatenation is the run (splitting lemma).
* `flush_ok`: contracting a run (`_kronecker` of every piece, divide and conquer) appends legs whose Kronecker product is
  the product of the run, and keeps `shape`, `column_is_identity`, `non_one_chunks` in step.
* `Inv`: the invariant of the identity scan — the finished legs followed by the pending identity block / pending run have
  the Kronecker product of the matrices scanned so far; `scanInit_inv`, `scanStep_inv`, `scan_fold`.
* `onesLayer_ok`: both regimes of `BackendForOnes` implement a well-formed layer.
-/
open Finset QG.Model.Backend
open QG.Spec.KronFlat hiding Leg

set_option linter.unusedSectionVars false

namespace QG.Lemmas.Backend

variable {R : Type} [CommSemiring R]

/-! ### lists of legs with the same Kronecker product -/

def LEq (a b : List (SLeg R)) : Prop := dims a = dims b ∧ kronList a = kronList b

theorem LEq.refl (a : List (SLeg R)) : LEq a a := ⟨rfl, rfl⟩
theorem LEq.symm {a b : List (SLeg R)} (h : LEq a b) : LEq b a := ⟨h.1.symm, h.2.symm⟩
theorem LEq.trans {a b c : List (SLeg R)} (h : LEq a b) (h' : LEq b c) : LEq a c :=
  ⟨h.1.trans h'.1, h.2.trans h'.2⟩

theorem LEq.append {a a' b b' : List (SLeg R)} (h : LEq a a') (h' : LEq b b')
    (hb : ∀ x ∈ b, Leg.Good x) (hb' : ∀ x ∈ b', Leg.Good x) : LEq (a ++ b) (a' ++ b') := by
  refine ⟨by rw [dims_append, dims_append, h.1, h'.1], ?_⟩
  rw [kronList_append _ _ hb, kronList_append _ _ hb', h.2, h'.2, h'.1]

theorem kronList_single (x : SLeg R) : kronList [x] = legMat x := by
  simp only [kronList, dims, kron_one_right]

theorem dims_single (x : SLeg R) : dims [x] = x.1 := by
  obtain ⟨d, o⟩ := x; simp [dims]

/-- two adjacent identity legs are one identity leg (`shape[-1] *= 2`) -/
theorem LEq_id_merge (a b : ℕ) (hb : 0 < b) : LEq [((a * b, none) : SLeg R)] [(a, none), (b, none)] := by
  refine ⟨by simp [dims], ?_⟩
  rw [kronList_single, kronList_cons, kronList_single, dims_single]
  simp only [legMat]
  exact (kron_idMat a hb).symm

/-- a matrix that equals `np.eye(2)` is an untouched leg of dimension 2 -/
theorem LEq_id_mat (M : Mat R) (hd : M.dim = 2) (hf : fn M = idMat 2) : LEq [matLeg M] [((2, none) : SLeg R)] := by
  refine ⟨by simp [dims, matLeg, hd], ?_⟩
  rw [kronList_single, kronList_single]
  simp only [matLeg, legMat, hf]

theorem LEq_chunks (cs : List (List (SLeg R))) (hne : ∀ c ∈ cs, c ≠ []) : LEq (cs.map chunkLeg) cs.flatten :=
  ⟨dims_chunks cs, kronList_chunks cs hne⟩

theorem good_none (k : ℕ) (hk : 0 < k) : Leg.Good ((k, none) : SLeg R) := ⟨hk, isCut_idMat k⟩

/-- only untouched legs: the identity -/
theorem kronList_all_none (l : List (SLeg R)) (hpos : ∀ x ∈ l, 0 < x.1) (hnone : ∀ x ∈ l, x.2 = none) :
    kronList l = idMat (dims l) := by
  induction l with
  | nil => rfl
  | cons x rest ih =>
    obtain ⟨d, o⟩ := x
    have ho : o = none := hnone (d, o) (by simp)
    subst ho
    have hr := ih (fun y hy => hpos y (by simp [hy])) (fun y hy => hnone y (by simp [hy]))
    have hD : 0 < dims rest := dims_pos rest fun y hy => hpos y (by simp [hy])
    rw [kronList_cons, hr]
    simp only [legMat, dims]
    exact kron_idMat d hD

/-! ### the splitting of long runs -/

section Split
variable {γ : Type}

theorem slice_append_drop (a b : ℕ) (p : List γ) (hab : a ≤ b) : slice a b p ++ p.drop b = p.drop a := by
  unfold slice
  have : p.drop b = (p.drop a).drop (b - a) := by rw [List.drop_drop]; congr 1; omega
  rw [this, List.take_append_drop]

theorem slice_zero_append_drop (b : ℕ) (p : List γ) : slice 0 b p ++ p.drop b = p := by
  have := slice_append_drop 0 b p (Nat.zero_le _)
  simpa using this

theorem length_slice (a b : ℕ) (p : List γ) : (slice a b p).length = min (b - a) (p.length - a) := by
  simp [slice]

theorem splitRun_cases (mid : Bool) (p : List γ) : ∃ t, 11 ≤ t ∧ splitRun mid p =
    if 19 ≤ p.length then
      [slice 0 (p.length / 4) p, slice (p.length / 4) (2 * p.length / 4) p,
        slice (2 * p.length / 4) (3 * p.length / 4) p, p.drop (3 * p.length / 4)]
    else if t ≤ p.length then
      [slice 0 (p.length / 3) p, slice (p.length / 3) (2 * p.length / 3) p, p.drop (2 * p.length / 3)]
    else if 8 ≤ p.length then [slice 0 (p.length / 2) p, p.drop (p.length / 2)]
    else [p] :=
  ⟨if mid then 11 else 14, by cases mid <;> simp, rfl⟩

/-- splitting lemma: the pieces are consecutive and exhaust the run -/
theorem splitRun_flatten (mid : Bool) (p : List γ) : (splitRun mid p).flatten = p := by
  obtain ⟨t, _, h⟩ := splitRun_cases mid p
  rw [h]
  split_ifs
  · simp only [List.flatten_cons, List.flatten_nil, List.append_nil]
    rw [slice_append_drop _ _ _ (by omega), slice_append_drop _ _ _ (by omega), slice_zero_append_drop]
  · simp only [List.flatten_cons, List.flatten_nil, List.append_nil]
    rw [slice_append_drop _ _ _ (by omega), slice_zero_append_drop]
  · simp only [List.flatten_cons, List.flatten_nil, List.append_nil]
    rw [slice_zero_append_drop]
  · simp

theorem ne_nil_of_length_pos {l : List γ} (h : 0 < l.length) : l ≠ [] := by
  intro hh; subst hh; simp at h

/-- every piece is non-empty -/
theorem splitRun_ne (mid : Bool) (p : List γ) (hp : p ≠ []) : ∀ q ∈ splitRun mid p, q ≠ [] := by
  have hlen : 0 < p.length := List.length_pos_iff.mpr hp
  intro q hq
  obtain ⟨t, ht, h⟩ := splitRun_cases mid p
  rw [h] at hq
  apply ne_nil_of_length_pos
  split_ifs at hq
  · simp only [List.mem_cons, List.not_mem_nil, or_false] at hq
    rcases hq with rfl | rfl | rfl | rfl
    · rw [length_slice]; omega
    · rw [length_slice]; omega
    · rw [length_slice]; omega
    · rw [List.length_drop]; omega
  · simp only [List.mem_cons, List.not_mem_nil, or_false] at hq
    rcases hq with rfl | rfl | rfl
    · rw [length_slice]; omega
    · rw [length_slice]; omega
    · rw [List.length_drop]; omega
  · simp only [List.mem_cons, List.not_mem_nil, or_false] at hq
    rcases hq with rfl | rfl
    · rw [length_slice]; omega
    · rw [List.length_drop]; omega
  · simp only [List.mem_cons, List.not_mem_nil, or_false] at hq
    subst hq; exact hlen

theorem splitRun_ne_nil (mid : Bool) (p : List γ) : splitRun mid p ≠ [] := by
  obtain ⟨t, _, h⟩ := splitRun_cases mid p
  rw [h]
  split_ifs <;> simp

end Split

/-! ### pairing of axes and operands -/

variable [DecidableEq R]

/-- what `shape` / `column_is_identity` record of a leg -/
def erase (x : Leg (Mat R)) : ℕ × Bool := (x.1, x.2.isNone)

theorem mkLegs_erase (D : List (Leg (Mat R))) (h : ∀ x ∈ D, ∀ k, x.2 = some k → k.dim = x.1) :
    mkLegs (matOps (dictOf R)) (D.map erase) (D.filterMap fun x => x.2) = .ok D := by
  induction D with
  | nil => rfl
  | cons x rest ih =>
    obtain ⟨d, o⟩ := x
    have hr := ih fun y hy => h y (by simp [hy])
    cases o with
    | none =>
      simp only [List.map_cons, erase, Option.isNone_none, List.filterMap_cons]
      rw [mkLegs, hr]; rfl
    | some k =>
      have hk : k.dim = d := h (d, some k) (by simp) k rfl
      simp only [List.map_cons, erase, Option.isNone_some, List.filterMap_cons]
      rw [mkLegs, if_neg (by simp [matOps, hk]), hr]; rfl

/-! ### contracting a run -/

/-- the matrix `_kronecker` returns for a piece of a run -/
def kmat (q : List (Mat R)) : Mat R :=
  match kroneckerG (kronM (dictOf R)) q with
  | .ok v => v
  | .error _ => one1 (dictOf R)

theorem kmat_sem (q : List (Mat R)) (hq : q ≠ []) :
    kroneckerG (kronM (dictOf R)) q = .ok (kmat q) ∧ (kmat q).dim = dims (q.map matLeg) ∧
      fn (kmat q) = kronList (q.map matLeg) := by
  obtain ⟨v, hv, h1, h2⟩ := kroneckerG_sem (semOp_kronM (R := R)) q hq
  have : kmat q = v := by unfold kmat; rw [hv]
  rw [this]
  exact ⟨hv, h1, h2⟩

/-- the legs a run is contracted into -/
def runLegs (mid : Bool) (proto : List (Mat R)) : List (Leg (Mat R)) :=
  (splitRun mid proto).map fun q => ((kmat q).dim, some (kmat q))

theorem runLegs_pos (mid : Bool) (proto : List (Mat R)) (hp : proto ≠ []) (hpos : ∀ M ∈ proto, 0 < M.dim) :
    ∀ x ∈ runLegs mid proto, 0 < x.1 := by
  intro x hx
  obtain ⟨q, hq, rfl⟩ := List.mem_map.mp hx
  simp only
  rw [(kmat_sem q (splitRun_ne mid proto hp q hq)).2.1]
  apply dims_pos
  intro y hy
  obtain ⟨M, hM, rfl⟩ := List.mem_map.mp hy
  apply hpos M
  rw [← splitRun_flatten mid proto]
  exact List.mem_flatten.mpr ⟨q, hq, hM⟩

theorem runLegs_dimOK (mid : Bool) (proto : List (Mat R)) :
    ∀ x ∈ runLegs mid proto, ∀ k, x.2 = some k → k.dim = x.1 := by
  intro x hx k hk
  obtain ⟨q, _, rfl⟩ := List.mem_map.mp hx
  simp only [Option.some.injEq] at hk
  subst hk; rfl

theorem runLegs_LEq (mid : Bool) (proto : List (Mat R)) (hp : proto ≠ []) :
    LEq ((runLegs mid proto).map legSem) (proto.map matLeg) := by
  have h1 : (runLegs mid proto).map legSem = ((splitRun mid proto).map (List.map matLeg)).map chunkLeg := by
    simp only [runLegs, List.map_map]
    apply List.map_congr_left
    intro q hq
    obtain ⟨_, h1, h2⟩ := kmat_sem q (splitRun_ne mid proto hp q hq)
    simp only [Function.comp, legSem, Option.map_some, chunkLeg, h1, h2]
  rw [h1]
  have h2 := LEq_chunks ((splitRun mid proto).map (List.map (matLeg (R := R)))) (by
    intro c hc
    obtain ⟨q, hq, rfl⟩ := List.mem_map.mp hc
    simpa using splitRun_ne mid proto hp q hq)
  rwa [← List.map_flatten, splitRun_flatten] at h2

theorem runLegs_filterMap (mid : Bool) (proto : List (Mat R)) :
    (runLegs mid proto).filterMap (fun x => x.2) = (splitRun mid proto).map kmat := by
  simp [runLegs, List.filterMap_map]

theorem runLegs_erase (mid : Bool) (proto : List (Mat R)) :
    (runLegs mid proto).map erase = (splitRun mid proto).map fun q => ((kmat q).dim, false) := by
  simp [runLegs, erase, Function.comp_def]

/-- "contract the previous chunk of non-1s, split if it is too big" -/
theorem flush_ok (mid : Bool) (st : Scan (Mat R)) (r : List (ℕ × Bool)) (hproto : st.proto ≠ [])
    (hlegs : st.legsRev = (dims (st.proto.map matLeg), false) :: r) :
    flush (matOps (dictOf R)) mid st = .ok { st with
      chunksRev := ((runLegs mid st.proto).filterMap fun x => x.2).reverse ++ st.chunksRev,
      legsRev := ((runLegs mid st.proto).map erase).reverse ++ r } := by
  unfold flush
  have hk : (matOps (dictOf R)).kron = kronM (dictOf R) := rfl
  rw [hk, mapM_ok _ kmat _ fun q hq => (kmat_sem q (splitRun_ne mid st.proto hproto q hq)).1]
  rw [runLegs_filterMap, runLegs_erase]
  have hflat := splitRun_flatten mid st.proto
  have hne := splitRun_ne_nil mid st.proto
  rcases hparts : splitRun mid st.proto with _ | ⟨q1, qs⟩
  · exact absurd hparts hne
  · rcases qs with _ | ⟨q2, qs'⟩
    · have hq1 : q1 = st.proto := by rw [hparts] at hflat; simpa using hflat
      have hne1 : q1 ≠ [] := by rw [hq1]; exact hproto
      have hd : (kmat q1).dim = dims (st.proto.map matLeg) := by rw [(kmat_sem q1 hne1).2.1, hq1]
      obtain ⟨legsRev, chunksRev, proto, last⟩ := st
      simp only at hlegs hd ⊢
      simp only [bind, Except.bind, List.map_cons, List.map_nil, pure, Except.pure, List.reverse_cons,
        List.reverse_nil, List.nil_append, List.cons_append, hlegs, hd]
    · obtain ⟨legsRev, chunksRev, proto, last⟩ := st
      simp only at hlegs ⊢
      simp only [bind, Except.bind, List.map_cons, pure, Except.pure, hlegs, setHead, matOps]
      simp

/-! ### the invariant of the identity scan -/

theorem good_done (done : List (Leg (Mat R))) (hpos : ∀ x ∈ done, 0 < x.1)
    (hdim : ∀ x ∈ done, ∀ k, x.2 = some k → k.dim = x.1) : ∀ y ∈ done.map legSem, Leg.Good y := by
  intro y hy
  obtain ⟨x, hx, rfl⟩ := List.mem_map.mp hy
  obtain ⟨d, o⟩ := x
  refine ⟨hpos _ hx, ?_⟩
  cases o with
  | none => exact isCut_idMat d
  | some k =>
    have : k.dim = d := hdim _ hx k rfl
    simp only [legSem, Option.map_some, legMat]
    rw [← this]; exact fn_isCut k

theorem good_protoLegs (proto : List (Mat R)) (hpos : ∀ M ∈ proto, 0 < M.dim) :
    ∀ y ∈ proto.map matLeg, Leg.Good y := by
  intro y hy
  obtain ⟨M, hM, rfl⟩ := List.mem_map.mp hy
  exact good_matLeg M (hpos M hM)

/-- `done` = the finished legs.  Together with the pending identity block (`last = true`) or the pending run of non-identity
factors (`last = false`) they have the Kronecker product of the matrices `P` scanned so far, and the three Python lists
(`shape`/`column_is_identity` zipped in `legsRev`, `non_one_chunks` in `chunksRev`) describe exactly these legs. -/
structure Inv (P : List (Mat R)) (st : Scan (Mat R)) (done : List (Leg (Mat R))) : Prop where
  pos : ∀ x ∈ done, 0 < x.1
  dimOK : ∀ x ∈ done, ∀ k, x.2 = some k → k.dim = x.1
  chunks : st.chunksRev = (done.filterMap fun x => x.2).reverse
  cur : (st.last = true ∧ ∃ k, 0 < k ∧ st.legsRev = (k, true) :: (done.map erase).reverse ∧
            LEq (done.map legSem ++ [((k, none) : SLeg R)]) (P.map matLeg)) ∨
        (st.last = false ∧ st.proto ≠ [] ∧ (∀ M ∈ st.proto, 0 < M.dim) ∧
            st.legsRev = (dims (st.proto.map matLeg), false) :: (done.map erase).reverse ∧
            LEq (done.map legSem ++ st.proto.map matLeg) (P.map matLeg))

/-- the state after the last run has been contracted -/
structure Done (P : List (Mat R)) (st : Scan (Mat R)) (done : List (Leg (Mat R))) : Prop where
  pos : ∀ x ∈ done, 0 < x.1
  dimOK : ∀ x ∈ done, ∀ k, x.2 = some k → k.dim = x.1
  chunks : st.chunksRev = (done.filterMap fun x => x.2).reverse
  legs : st.legsRev = (done.map erase).reverse
  eq : LEq (done.map legSem) (P.map matLeg)

theorem legSem_none (k : ℕ) : legSem ((k, none) : Leg (Mat R)) = (k, none) := rfl

theorem scanInit_inv (m0 : Mat R) (h0 : 0 < m0.dim) :
    Inv [m0] (scanInit (matOps (dictOf R)) m0) [] := by
  have hid : (matOps (dictOf R)).isId m0 = isIdentity (dictOf R) m0 := rfl
  refine ⟨by simp, by simp, rfl, ?_⟩
  by_cases hI : isIdentity (dictOf R) m0 = true
  · left
    obtain ⟨hd, hf⟩ := isIdentity_sound m0 hI
    refine ⟨by simp [scanInit, hid, hI], 2, by omega, by simp [scanInit, hI, matOps, hd], ?_⟩
    simpa using (LEq_id_mat m0 hd hf).symm
  · right
    have hI' : isIdentity (dictOf R) m0 = false := by simpa using hI
    refine ⟨by simp [scanInit, hid, hI'], by simp [scanInit, hid, hI'], ?_, ?_, ?_⟩
    · intro M hM
      simp only [scanInit, hid, hI'] at hM
      simp at hM; subst hM; exact h0
    · simp [scanInit, hI', matOps, dims, matLeg]
    · simp only [scanInit, hid, hI']
      simpa using LEq.refl [matLeg m0]

/-- the loop body preserves the invariant -/
theorem scanStep_inv (P : List (Mat R)) (st : Scan (Mat R)) (done : List (Leg (Mat R))) (h : Inv P st done)
    (m : Mat R) (hm : 0 < m.dim) :
    ∃ st' done', scanStep (matOps (dictOf R)) st m = .ok st' ∧ Inv (P ++ [m]) st' done' := by
  have hid : (matOps (dictOf R)).isId m = isIdentity (dictOf R) m := rfl
  have hdimm : (matOps (dictOf R)).dim m = m.dim := rfl
  have hgd := good_done done h.pos h.dimOK
  rcases h.cur with ⟨hlast, k, hk, hlegs, heq⟩ | ⟨hlast, hproto, hppos, hlegs, heq⟩
  · by_cases hI : isIdentity (dictOf R) m = true
    · -- another identity: shape[-1] *= 2
      obtain ⟨hd, hf⟩ := isIdentity_sound m hI
      refine ⟨{ st with legsRev := bumpHead 2 st.legsRev, last := true }, done,
        by simp [scanStep, hlast, hid, hI, pure, Except.pure], h.pos, h.dimOK, h.chunks,
        Or.inl ⟨rfl, k * 2, by omega, ?_, ?_⟩⟩
      · simp [hlegs, bumpHead]
      · rw [List.map_append]
        have h1 : LEq (done.map legSem ++ [((k, none) : SLeg R)] ++ [((2, none) : SLeg R)])
            (P.map matLeg ++ [matLeg m]) :=
          LEq.append heq (LEq_id_mat m hd hf).symm (by simpa using good_none 2 (by omega))
            (by simpa using good_matLeg m hm)
        have h2 : LEq (done.map legSem ++ [((k * 2, none) : SLeg R)])
            (done.map legSem ++ [((k, none) : SLeg R), ((2, none) : SLeg R)]) :=
          LEq.append (LEq.refl _) (LEq_id_merge k 2 (by omega)) (by simpa using good_none (k * 2) (by omega))
            (by
              intro x hx
              simp only [List.mem_cons, List.not_mem_nil, or_false] at hx
              rcases hx with rfl | rfl
              · exact good_none k hk
              · exact good_none 2 (by omega))
        simpa using h2.trans (by simpa using h1)
    · -- a new run starts
      have hI' : isIdentity (dictOf R) m = false := by simpa using hI
      refine ⟨{ st with proto := [m], legsRev := (m.dim, false) :: st.legsRev, last := false }, done ++ [(k, none)],
        by simp [scanStep, hlast, hid, hI', hdimm, pure, Except.pure], ?_, ?_, ?_,
        Or.inr ⟨rfl, by simp, ?_, ?_, ?_⟩⟩
      · intro x hx
        simp only [List.mem_append, List.mem_singleton] at hx
        rcases hx with hx | rfl
        · exact h.pos x hx
        · exact hk
      · intro x hx k' hk'
        simp only [List.mem_append, List.mem_singleton] at hx
        rcases hx with hx | rfl
        · exact h.dimOK x hx k' hk'
        · simp at hk'
      · simp [h.chunks]
      · intro M hM
        simp at hM; subst hM; exact hm
      · simp [hlegs, erase, dims, matLeg]
      · simp only [List.map_append, List.map_cons, List.map_nil, legSem_none]
        exact LEq.append heq (LEq.refl _) (by simpa using good_matLeg m hm) (by simpa using good_matLeg m hm)
  · by_cases hI : isIdentity (dictOf R) m = true
    · -- the run ends: contract it (thresholds 19 / 11 / 8), then start a block of identities
      obtain ⟨hd, hf⟩ := isIdentity_sound m hI
      have hfl := flush_ok true st _ hproto hlegs
      refine ⟨{ st with
          chunksRev := ((runLegs true st.proto).filterMap fun x => x.2).reverse ++ st.chunksRev,
          legsRev := (2, true) :: (((runLegs true st.proto).map erase).reverse ++ (done.map erase).reverse),
          proto := [], last := true }, done ++ runLegs true st.proto,
        by simp [scanStep, hlast, hid, hI, hfl, bind, Except.bind, pure, Except.pure], ?_, ?_, ?_,
        Or.inl ⟨rfl, 2, by omega, ?_, ?_⟩⟩
      · intro x hx
        simp only [List.mem_append] at hx
        rcases hx with hx | hx
        · exact h.pos x hx
        · exact runLegs_pos true st.proto hproto hppos x hx
      · intro x hx k' hk'
        simp only [List.mem_append] at hx
        rcases hx with hx | hx
        · exact h.dimOK x hx k' hk'
        · exact runLegs_dimOK true st.proto x hx k' hk'
      · simp [h.chunks]
      · simp
      · rw [List.map_append, List.map_append]
        have hrun := runLegs_LEq true st.proto hproto
        have hgr : ∀ y ∈ (runLegs true st.proto).map legSem, Leg.Good y :=
          good_done _ (runLegs_pos true st.proto hproto hppos) (runLegs_dimOK true st.proto)
        have h1 : LEq (done.map legSem ++ (runLegs true st.proto).map legSem) (P.map matLeg) :=
          (LEq.append (LEq.refl _) hrun hgr (good_protoLegs _ hppos)).trans heq
        exact LEq.append h1 (LEq_id_mat m hd hf).symm (by simpa using good_none 2 (by omega))
          (by simpa using good_matLeg m hm)
    · -- the run continues
      have hI' : isIdentity (dictOf R) m = false := by simpa using hI
      refine ⟨{ st with proto := st.proto ++ [m], legsRev := bumpHead m.dim st.legsRev, last := false }, done,
        by simp [scanStep, hlast, hid, hI', hdimm, pure, Except.pure], h.pos, h.dimOK, h.chunks,
        Or.inr ⟨rfl, by simp, ?_, ?_, ?_⟩⟩
      · intro M hM
        simp only [List.mem_append, List.mem_singleton] at hM
        rcases hM with hM | rfl
        · exact hppos M hM
        · exact hm
      · simp [hlegs, bumpHead, dims_append, dims, matLeg]
      · simp only [List.map_append, List.map_cons, List.map_nil]
        rw [← List.append_assoc]
        exact LEq.append heq (LEq.refl _) (by simpa using good_matLeg m hm) (by simpa using good_matLeg m hm)

theorem scan_fold (rest : List (Mat R)) (hpos : ∀ M ∈ rest, 0 < M.dim) (P : List (Mat R)) (st : Scan (Mat R))
    (done : List (Leg (Mat R))) (h : Inv P st done) :
    ∃ st' done', rest.foldlM (scanStep (matOps (dictOf R))) st = .ok st' ∧ Inv (P ++ rest) st' done' := by
  induction rest generalizing P st done with
  | nil => exact ⟨st, done, rfl, by simpa using h⟩
  | cons m ms ih =>
    obtain ⟨st1, done1, h1, hinv1⟩ := scanStep_inv P st done h m (hpos m (by simp))
    obtain ⟨st2, done2, h2, hinv2⟩ := ih (fun M hM => hpos M (by simp [hM])) _ _ _ hinv1
    refine ⟨st2, done2, ?_, by simpa using hinv2⟩
    rw [List.foldlM_cons, h1]
    exact h2

/-- the statements after the loop -/
theorem scan_finish (P : List (Mat R)) (st : Scan (Mat R)) (done : List (Leg (Mat R))) (h : Inv P st done) :
    ∃ st' done', (if st.last then (pure st : Except Err (Scan (Mat R)))
        else if st.proto.isEmpty then Except.error Err.assertion
        else flush (matOps (dictOf R)) false st) = .ok st' ∧ Done P st' done' := by
  have hgd := good_done done h.pos h.dimOK
  rcases h.cur with ⟨hlast, k, hk, hlegs, heq⟩ | ⟨hlast, hproto, hppos, hlegs, heq⟩
  · refine ⟨st, done ++ [(k, none)], by simp [hlast, pure, Except.pure], ?_, ?_, ?_, ?_, ?_⟩
    · intro x hx
      simp only [List.mem_append, List.mem_singleton] at hx
      rcases hx with hx | rfl
      · exact h.pos x hx
      · exact hk
    · intro x hx k' hk'
      simp only [List.mem_append, List.mem_singleton] at hx
      rcases hx with hx | rfl
      · exact h.dimOK x hx k' hk'
      · simp at hk'
    · simp [h.chunks]
    · simp [hlegs, erase]
    · simpa [legSem_none] using heq
  · have hfl := flush_ok false st _ hproto hlegs
    have hemp : st.proto.isEmpty = false := by
      cases hp : st.proto with
      | nil => exact absurd hp hproto
      | cons _ _ => rfl
    refine ⟨_, done ++ runLegs false st.proto, by simp only [hlast, hemp, hfl]; rfl, ?_, ?_, ?_, ?_, ?_⟩
    · intro x hx
      simp only [List.mem_append] at hx
      rcases hx with hx | hx
      · exact h.pos x hx
      · exact runLegs_pos false st.proto hproto hppos x hx
    · intro x hx k' hk'
      simp only [List.mem_append] at hx
      rcases hx with hx | hx
      · exact h.dimOK x hx k' hk'
      · exact runLegs_dimOK false st.proto x hx k' hk'
    · simp [h.chunks]
    · simp
    · rw [List.map_append]
      have hrun := runLegs_LEq false st.proto hproto
      have hgr : ∀ y ∈ (runLegs false st.proto).map legSem, Leg.Good y :=
        good_done _ (runLegs_pos false st.proto hproto hppos) (runLegs_dimOK false st.proto)
      exact (LEq.append (LEq.refl _) hrun hgr (good_protoLegs _ hppos)).trans heq

/-! ### the matrices of a layer -/

/-- `[m for m in mp if isinstance(m, np.ndarray)]` -/
def matsOf (l : Layer (Mat R)) : List (Mat R) :=
  l.filterMap fun b => match b with
    | .mat M => some M
    | .scalar => none

theorem filterMap_toPy (l : Layer (Mat R)) (f : PyVal (Mat R) → Option (Mat R)) (h1 : ∀ M, f (.arr M) = some M)
    (h2 : f .int1 = none) : (l.map Block.toPy).filterMap f = matsOf l := by
  induction l with
  | nil => rfl
  | cons b rest ih =>
    cases b with
    | scalar => simpa [matsOf, Block.toPy, h2] using ih
    | mat M => simpa [matsOf, Block.toPy, h1] using ih

theorem matsOf_pos (l : Layer (Mat R)) (hg : ∀ x ∈ l.map blockLeg, Leg.Good x) : ∀ M ∈ matsOf l, 0 < M.dim := by
  intro M hM
  simp only [matsOf, List.mem_filterMap] at hM
  obtain ⟨b, hb, hbM⟩ := hM
  cases b with
  | scalar => simp at hbM
  | mat M' =>
    simp only [Option.some.injEq] at hbM
    subst hbM
    exact (hg (blockLeg (.mat M')) (List.mem_map.mpr ⟨_, hb, rfl⟩)).1

/-- dropping the scalar placeholders does not change the Kronecker product -/
theorem matsOf_LEq (l : Layer (Mat R)) (hg : ∀ x ∈ l.map blockLeg, Leg.Good x) :
    LEq ((matsOf l).map matLeg) (l.map blockLeg) := by
  induction l with
  | nil => exact LEq.refl _
  | cons b rest ih =>
    have hgr : ∀ x ∈ rest.map blockLeg, Leg.Good x := fun x hx => hg x (by simp only [List.map_cons]; exact List.mem_cons_of_mem _ hx)
    have hr := ih hgr
    cases b with
    | scalar =>
      have e : matsOf (Block.scalar :: rest) = matsOf rest := by simp [matsOf]
      rw [e]
      refine hr.trans ⟨?_, ?_⟩
      · simp [dims_cons, blockLeg, Block.toPy, pvLeg]
      · simp only [List.map_cons, blockLeg, Block.toPy, pvLeg]
        exact (kronList_scalar_cons _ hgr).symm
    | mat M =>
      have e : matsOf (Block.mat M :: rest) = M :: matsOf rest := by simp [matsOf]
      rw [e]
      have hM : Leg.Good (matLeg M) := hg (blockLeg (.mat M)) (by simp)
      have := LEq.append (LEq.refl [matLeg M]) hr (good_protoLegs _ (matsOf_pos rest hgr)) hgr
      simpa [blockLeg, Block.toPy, pvLeg] using this

theorem matsOf_ne (l : Layer (Mat R)) (h : l.any isMat = true) : matsOf l ≠ [] := by
  induction l with
  | nil => simp at h
  | cons b rest ih =>
    cases b with
    | mat M => simp [matsOf]
    | scalar =>
      have : matsOf (Block.scalar :: rest) = matsOf rest := by simp [matsOf]
      rw [this]
      exact ih (by simpa [isMat] using h)

/-! ### BackendForOnes -/

theorem ok_bind {α β : Type} (a : α) (f : α → Except Err β) : (Except.ok a >>= f) = f a := rfl

/-- the statements after the loop, followed by a continuation (the `do` block distributes it over the branches) -/
theorem finish_bind (st1 st2 : Scan (Mat R)) {β : Type} (K : Scan (Mat R) → Except Err β)
    (hfin : (if st1.last then (pure st1 : Except Err (Scan (Mat R)))
        else if st1.proto.isEmpty then Except.error Err.assertion
        else flush (matOps (dictOf R)) false st1) = .ok st2) :
    (if st1.last = true then (pure st1 >>= K)
      else if st1.proto.isEmpty = true then ((Except.error Err.assertion : Except Err (Scan (Mat R))) >>= K)
      else (flush (matOps (dictOf R)) false st1 >>= K)) = K st2 := by
  by_cases hl : st1.last = true
  · rw [if_pos hl] at hfin ⊢
    have : st1 = st2 := by simpa [pure, Except.pure] using hfin
    subst this; rfl
  · rw [if_neg hl] at hfin ⊢
    by_cases he : st1.proto.isEmpty = true
    · rw [if_pos he] at hfin; cases hfin
    · rw [if_neg he] at hfin ⊢
      rw [hfin]; rfl

/-- `_opt_einsum_ignoring_ones` implements a well-formed layer -/
theorem onesEinsum_ok {n : ℕ} {l : Layer (Mat R)} (hwf : WFI l) (hlen : l.length = n) (hn : 1 ≤ n)
    (hmats : (matsOf l).length ≤ 26) :
    ∃ p, onesEinsum (matOps (dictOf R)) (l.map Block.toPy) = .ok p ∧ PlanOK n l p := by
  have hl : l ≠ [] := by intro hh; subst hh; simp at hlen; omega
  have hgood := hwf.good
  have hpos := matsOf_pos l hgood
  have hleq := matsOf_LEq l hgood
  have hdims : dims (l.map blockLeg) = 2 ^ n := by rw [hwf.length_dims, hlen]
  unfold onesEinsum
  simp only
  rw [filterMap_toPy l _ (fun _ => rfl) rfl, if_neg (by omega)]
  rcases hms : matsOf l with _ | ⟨m0, rest⟩
  · exact absurd hms (matsOf_ne l (hwf.any_isMat hl))
  · rw [hms] at hpos hleq
    obtain ⟨st1, done1, hfold, hinv1⟩ := scan_fold rest (fun M hM => hpos M (by simp [hM])) [m0] _ []
      (scanInit_inv m0 (hpos m0 (by simp)))
    obtain ⟨st2, done2, hfin, hdone⟩ := scan_finish _ st1 done1 hinv1
    have hPP : [m0] ++ rest = m0 :: rest := rfl
    rw [hPP] at hdone
    dsimp only
    rw [hfold, ok_bind, finish_bind st1 st2 _ hfin]
    have hrev : st2.legsRev.reverse = done2.map erase := by rw [hdone.legs, List.reverse_reverse]
    have hcrev : st2.chunksRev.reverse = done2.filterMap fun x => x.2 := by
      rw [hdone.chunks, List.reverse_reverse]
    have hd2 : dims (done2.map legSem) = 2 ^ n := by rw [hdone.eq.1, hleq.1, hdims]
    have hk2 : kronList (done2.map legSem) = layerMat l := by rw [hdone.eq.2, hleq.2]; rfl
    by_cases hall : (st2.legsRev.all fun p => p.2) = true
    · refine ⟨.skip, by rw [if_pos hall]; rfl, ?_⟩
      show layerMat l = idMat (2 ^ n)
      rw [← hk2, ← hd2]
      apply kronList_all_none
      · intro y hy
        obtain ⟨x, hx, rfl⟩ := List.mem_map.mp hy
        exact hdone.pos x hx
      · intro y hy
        obtain ⟨x, hx, rfl⟩ := List.mem_map.mp hy
        rw [hdone.legs, List.all_reverse, List.all_map, List.all_eq_true] at hall
        have := hall x hx
        simp only [Function.comp, erase, Option.isNone_iff_eq_none] at this
        simp [legSem, this]
    · refine ⟨.einsum done2, ?_, hdone.pos, by rw [legDims_eq, hd2], hk2⟩
      rw [if_neg hall, hrev, hcrev, mkLegs_erase done2 hdone.dimOK]
      rfl

/-- both regimes of `BackendForOnes` implement a well-formed layer -/
theorem onesLayer_ok {n : ℕ} {l : Layer (Mat R)} (hwf : WFI l) (hlen : l.length = n) (hn : 1 ≤ n)
    (hmats : (matsOf l).length ≤ 26) :
    ∃ p, onesLayer (matOps (dictOf R)) n (l.map Block.toPy) = .ok p ∧ PlanOK n l p := by
  unfold onesLayer
  split
  · -- n ≤ 6: `_kronecker(mp) @ psi`
    have hl : l ≠ [] := by intro hh; subst hh; simp at hlen; omega
    obtain ⟨v, hv, h1, h2⟩ := kroneckerG_sem (semOp_pyKron (R := R)) (l.map Block.toPy) (by simpa using hl)
    rw [map_pvLeg_toPy] at h1 h2
    rw [hwf.length_dims, hlen] at h1
    have h2n : 2 ≤ 2 ^ n := by
      calc 2 = 2 ^ 1 := rfl
        _ ≤ 2 ^ n := Nat.pow_le_pow_right (by omega) hn
    cases v with
    | arr K =>
      refine ⟨.dense (.arr K), by rw [hv]; rfl, K, rfl, h1, h2⟩
    | int1 => simp [pvLeg] at h1; omega
    | np0 => simp [pvLeg] at h1; omega
  · exact onesEinsum_ok hwf hlen hn hmats

end QG.Lemmas.Backend
