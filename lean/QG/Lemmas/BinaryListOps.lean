import Mathlib.Tactic
import Mathlib.NumberTheory.Zsqrtd.GaussianInt
import QG.Spec.Register
import QG.Lemmas.BinaryApply
/-!
Helper lemmas for C02: the list-of-rows matrix arithmetic that the model driver executes
(`QG.Model.Binary.listOps`, `listEntries`, over Gaussian integers `gint`) is a gate algebra on the
register, so the property theorems apply to exactly the functions the correspondence runs.

A list-of-rows matrix `A` is read through `Mat.get` (missing entries are `0`), so no shape hypothesis is
needed: `toM2 A` / `toM4 A` are the Mathlib matrices with those entries and `Mat.identity`, `Mat.mul`,
`Mat.kron2` commute with them.
-/
namespace QG.Lemmas.Binary
open QG.Model.Optimizer QG.Model.Binary QG.Spec QG.Spec.Register

variable {R : Type} [CommSemiring R]

/-- the 2x2 matrix read from a list of rows -/
def toM2 (A : Mat R) : M2 R := Matrix.of fun a b => Mat.get (semiringScalar R) A a.toNat b.toNat

/-- the 4x4 matrix read from a list of rows; `(a, b)` ↔ row/column `2a + b` -/
def toM4 (A : Mat R) : M4 R :=
  Matrix.of fun x y => Mat.get (semiringScalar R) A (2 * x.1.toNat + x.2.toNat) (2 * y.1.toNat + y.2.toNat)

theorem toM2_identity : toM2 (Mat.identity (semiringScalar R) 2) = 1 := by
  ext a b
  cases a <;> cases b <;> simp [toM2, Mat.identity, Mat.get, semiringScalar, List.range_succ]

theorem toM2_mul (B A : Mat R) : toM2 (Mat.mul (semiringScalar R) 2 B A) = toM2 B * toM2 A := by
  ext a b
  cases a <;> cases b <;>
    simp [toM2, Mat.mul, Mat.get, sumRange, semiringScalar, List.range_succ, Matrix.mul_apply] <;> ring

theorem toM4_identity : toM4 (Mat.identity (semiringScalar R) 4) = 1 := by
  ext ⟨a, b⟩ ⟨c, d⟩
  cases a <;> cases b <;> cases c <;> cases d <;>
    simp [toM4, Mat.identity, Mat.get, semiringScalar, List.range_succ]

theorem toM4_mul (B A : Mat R) : toM4 (Mat.mul (semiringScalar R) 4 B A) = toM4 B * toM4 A := by
  ext ⟨a, b⟩ ⟨c, d⟩
  cases a <;> cases b <;> cases c <;> cases d <;>
    simp [toM4, Mat.mul, Mat.get, sumRange, semiringScalar, List.range_succ, Matrix.mul_apply,
      Fintype.sum_prod_type] <;> ring

theorem toM4_kron (A B : Mat R) :
    toM4 (Mat.kron2 (semiringScalar R) A B) = Matrix.kroneckerMap (· * ·) (toM2 A) (toM2 B) := by
  ext ⟨a, b⟩ ⟨c, d⟩
  cases a <;> cases b <;> cases c <;> cases d <;>
    simp [toM4, toM2, Mat.kron2, Mat.get, semiringScalar, List.range_succ, Matrix.kroneckerMap_apply]

/-- **the driver's matrix arithmetic is a gate algebra on the register** -/
def listGateAlgebra (R : Type) [CommSemiring R] (n : Nat) :
    GateAlgebra (listOps (semiringScalar R)) n (Op R n) where
  e1 A q := e1 (toM2 A) q
  e2 A a b := e2 (toM4 A) a b
  e1_one q hq := by
    show e1 (toM2 (Mat.identity (semiringScalar R) 2)) q = 1
    rw [toM2_identity]; exact (gateAlgebra R n).e1_one q hq
  e1_mul A B q hq := by
    show e1 (toM2 (Mat.mul (semiringScalar R) 2 B A)) q = _
    rw [toM2_mul]; exact (gateAlgebra R n).e1_mul (toM2 A) (toM2 B) q hq
  e2_one a b ha hb h := by
    show e2 (toM4 (Mat.identity (semiringScalar R) 4)) a b = 1
    rw [toM4_identity]; exact (gateAlgebra R n).e2_one a b ha hb h
  e2_mul A B a b ha hb h := by
    show e2 (toM4 (Mat.mul (semiringScalar R) 4 B A)) a b = _
    rw [toM4_mul]; exact (gateAlgebra R n).e2_mul (toM4 A) (toM4 B) a b ha hb h
  e2_kron A B a b ha hb h := by
    show e2 (toM4 (Mat.kron2 (semiringScalar R) A B)) a b = _
    rw [toM4_kron]; exact (gateAlgebra R n).e2_kron (toM2 A) (toM2 B) a b ha hb h
  comm11 A B a b ha hb h := (gateAlgebra R n).comm11 (toM2 A) (toM2 B) a b ha hb h
  comm12 A G q a b hq ha hb h hqa hqb := (gateAlgebra R n).comm12 (toM2 A) (toM4 G) q a b hq ha hb h hqa hqb

/-- an item with list matrices as an item with Mathlib matrices -/
def mapItem : Item (Mat R) (Mat R) → Item (M2 R) (M4 R)
  | .one g q => .one (toM2 g) q
  | .two g a b => .two (toM4 g) a b

theorem entryOf_list (item : Item (Mat R) (Mat R)) (s : List Bool) (N : Nat) :
    entryOf (listEntries (semiringScalar R)) item s N = entryOf (regEntries R) (mapItem item) s N := by
  cases item with
  | one g q => rfl
  | two g a b => rfl

theorem mapE_congr {α β : Type} (f g : α → Except Err β) (l : List α) (h : ∀ x ∈ l, f x = g x) :
    mapE f l = mapE g l := by
  induction l with
  | nil => rfl
  | cons x xs ih =>
    simp only [mapE, h x (by simp), ih (fun y hy => h y (List.mem_cons_of_mem _ hy))]

theorem applyItem_list (N : Nat) (psi : List R) (item : Item (Mat R) (Mat R)) :
    applyItem (semiringScalar R) (listEntries (semiringScalar R)) N psi item =
      applyItem (semiringScalar R) (regEntries R) N psi (mapItem item) := by
  have hsp : ∀ qn qu, createSparse (listEntries (semiringScalar R)) item qn qu N =
      createSparse (regEntries R) (mapItem item) qn qu N := by
    intro qn qu
    unfold createSparse
    have : ∀ i j, sparseTriplet (listEntries (semiringScalar R)) item qn qu N qn.length qu.length i j =
        sparseTriplet (regEntries R) (mapItem item) qn qu N qn.length qu.length i j := by
      intro i j
      unfold sparseTriplet
      simp only [entryOf_list]
    simp only [this]
  have hde : ∀ qn qu, createDense (listEntries (semiringScalar R)) item qn qu N =
      createDense (regEntries R) (mapItem item) qn qu N := by
    intro qn qu
    unfold createDense
    simp only [entryOf_list]
  cases item with
  | one g q => simp only [applyItem, mapItem, hsp, hde]
  | two g a b => simp only [applyItem, mapItem, hsp, hde]

open QG.Spec.GateAlgebra in
theorem applyItems_list (N : Nat) (l : List (Item (Mat R) (Mat R))) (hwf : WFList N l) (psi : List R)
    (hpsi : psi.length = 2 ^ N) :
    applyItems (semiringScalar R) (listEntries (semiringScalar R)) N l psi =
      .ok (listOf ((listGateAlgebra R N).sem l (vecOf psi))) := by
  induction l generalizing psi with
  | nil =>
    simp only [applyItems, sem_nil]
    rw [show ((1 : Op R N) (vecOf psi)) = vecOf psi from rfl, listOf_vecOf psi hpsi]
  | cons g rest ih =>
    have hg : WFItem N (mapItem g) := by
      have := hwf.head
      cases g <;> exact this
    have hitem : (gateAlgebra R N).item (mapItem g) = (listGateAlgebra R N).item g := by
      cases g <;> rfl
    simp only [applyItems, applyItem_list, applyItem_spec N (mapItem g) hg psi hpsi]
    rw [ih hwf.tail _ (listOf_length _), vecOf_listOf, sem_cons, hitem]
    rfl

/-! ### Gaussian integers -/

/-- `Int × Int` with the model's `gint` operations is the ring of Gaussian integers -/
def gintEquiv : GInt ≃ GaussianInt where
  toFun x := ⟨x.1, x.2⟩
  invFun z := (z.re, z.im)
  left_inv _ := rfl
  right_inv _ := rfl

/-- the commutative ring structure of `ℤ[i]` on `Int × Int` (a definition, not an instance: `Int × Int`
also carries the componentwise product ring) -/
@[reducible] def gintCommRing : CommRing GInt := gintEquiv.commRing

/-- the driver's scalar dictionary is the dictionary of that ring -/
theorem gint_eq : gint = @semiringScalar GInt gintCommRing.toCommSemiring := by
  simp only [gint, semiringScalar, Scalar.mk.injEq]
  refine ⟨rfl, rfl, ?_, ?_⟩
  · funext x y
    rfl
  · funext x y
    show (x.1 * y.1 - x.2 * y.2, x.1 * y.2 + x.2 * y.1) = gintEquiv.symm (gintEquiv x * gintEquiv y)
    apply Prod.ext
    · simp [gintEquiv, Zsqrtd.re_mul]; ring
    · simp [gintEquiv, Zsqrtd.im_mul]

end QG.Lemmas.Binary
