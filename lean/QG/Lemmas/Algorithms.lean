import Mathlib.Data.Finset.Powerset
import Mathlib.Algebra.BigOperators.Group.Finset.Powerset
import Mathlib.Tactic
import QG.Spec.Ket

/-!
Helper lemmas for C18, part 1: running instruction lists in the ket semantics, the GHZ fan-out,
the uniform superposition and the Hadamard / inverse-QFT benchmark (for an abstract amplitude `r`
with `2 r² = 1` and abstract phases with `w k · w' k = 1`), the values of the concrete constants,
and the list facts about the measurement tail.
-/
namespace QG.Lemmas.Algorithms
open Finsupp Finset QG.Model.Algorithms QG.Spec.Ket

noncomputable section

/-! ### list facts about the model -/

theorem measurePairs_append_of_unitary (l₁ l₂ : List Gate) (h : ∀ g ∈ l₁, ∀ q c, g ≠ Gate.measure q c) :
    measurePairs (l₁ ++ l₂) = measurePairs l₂ := by
  induction l₁ with
  | nil => rfl
  | cons g l ih =>
    have ih' := ih fun g' hg' => h g' (List.mem_cons_of_mem _ hg')
    cases g with
    | measure q c => exact absurd rfl (h _ (by simp) q c)
    | h _ => simpa [measurePairs] using ih'
    | cp _ _ _ _ => simpa [measurePairs] using ih'
    | swap _ _ => simpa [measurePairs] using ih'
    | cx _ _ => simpa [measurePairs] using ih'
    | barrier _ => simpa [measurePairs] using ih'

theorem measurePairs_map_measure (l : List ℕ) :
    measurePairs (l.map fun q => Gate.measure q q) = l.map fun q => (q, q) := by
  induction l with
  | nil => rfl
  | cons a l ih => simp [measurePairs, ih]

theorem measurePairs_measureAll (n : ℕ) :
    measurePairs (measureAll n) = (List.range n).map fun q => (q, q) := by
  simp [measureAll, measurePairs, measurePairs_map_measure]

/-- a gate that is one of `h`, `cp`, `swap`, `cx` -/
def Gate.IsUnitary : Gate → Prop
  | .h _ | .cp _ _ _ _ | .swap _ _ | .cx _ _ => True
  | .barrier _ | .measure _ _ => False

theorem isUnitary_inv {g : Gate} (h : Gate.IsUnitary g) : Gate.IsUnitary g.inv := by
  cases g <;> simp_all [Gate.IsUnitary, Gate.inv]

theorem qftRotations_unitary (n : ℕ) : ∀ g ∈ qftRotations n, Gate.IsUnitary g := by
  induction n with
  | zero => simp [qftRotations]
  | succ n ih =>
    intro g hg
    simp only [qftRotations, List.cons_append, List.mem_cons, List.mem_append, List.mem_map] at hg
    rcases hg with rfl | ⟨i, _, rfl⟩ | hg
    · trivial
    · trivial
    · exact ih g hg

theorem qftRotations_no_cx (n c t : ℕ) : Gate.cx c t ∉ qftRotations n := by
  induction n with
  | zero => simp [qftRotations]
  | succ n ih =>
    intro hg
    simp only [qftRotations, List.cons_append, List.mem_cons, List.mem_append, List.mem_map] at hg
    rcases hg with hg | ⟨i, _, hg⟩ | hg
    · cases hg
    · cases hg
    · exact ih hg

theorem hadamardReverseQftBody_unitary (n : ℕ) : ∀ g ∈ hadamardReverseQftBody n, Gate.IsUnitary g := by
  intro g hg
  simp only [hadamardReverseQftBody, inverse, List.mem_map, List.mem_reverse, List.mem_append] at hg
  obtain ⟨g', hg', rfl⟩ := hg
  apply isUnitary_inv
  rcases hg' with (hg' | hg') | hg'
  · exact qftRotations_unitary n g' hg'
  · simp only [swapRegisters, List.mem_map] at hg'
    obtain ⟨_, _, rfl⟩ := hg'; trivial
  · simp only [hLayer, List.mem_map] at hg'
    obtain ⟨_, _, rfl⟩ := hg'; trivial

theorem ghzBody_unitary (n : ℕ) : ∀ g ∈ ghzBody n, Gate.IsUnitary g := by
  intro g hg
  simp only [ghzBody, List.mem_cons, List.mem_map] at hg
  rcases hg with rfl | ⟨_, _, rfl⟩ <;> trivial

theorem unitary_ne_measure {g : Gate} (h : Gate.IsUnitary g) (q c : ℕ) : g ≠ Gate.measure q c := by
  rintro rfl; exact h

/-! ### running lists -/

variable (r : ℂ) (w w' : ℕ → ℂ)

@[simp] theorem runP_nil : runP r w w' [] = LinearMap.id := rfl

theorem runP_cons (g : Gate) (l : List Gate) (ψ : St) :
    runP r w w' (g :: l) ψ = runP r w w' l (semP r w w' g ψ) := rfl

theorem runP_append (l₁ l₂ : List Gate) :
    runP r w w' (l₁ ++ l₂) = runP r w w' l₂ ∘ₗ runP r w w' l₁ := by
  induction l₁ with
  | nil => simp
  | cons g l ih => simp only [List.cons_append, runP, ih, LinearMap.comp_assoc]

theorem runP_append_apply (l₁ l₂ : List Gate) (ψ : St) :
    runP r w w' (l₁ ++ l₂) ψ = runP r w w' l₂ (runP r w w' l₁ ψ) := by
  rw [runP_append]; rfl

theorem runP_measureAll (n : ℕ) : runP r w w' (measureAll n) = LinearMap.id := by
  have h : ∀ l : List ℕ, runP r w w' (l.map fun q => Gate.measure q q) = LinearMap.id := by
    intro l
    induction l with
    | nil => rfl
    | cons a l ih => simp only [List.map_cons, runP, ih, semP]; rfl
  simp only [measureAll, runP, h, semP]; rfl

/-! ### GHZ -/

theorem cx_zero (t : ℕ) : semP r w w' (.cx 0 t) (ket zero) = ket zero := by
  simp only [semP, lin_ket]
  congr 1; funext q; by_cases h : q = t <;> simp [upd, Function.update, h, zero]

theorem cx_ones (t : ℕ) (ht : 0 < t) : semP r w w' (.cx 0 t) (ket (ones t)) = ket (ones (t + 1)) := by
  simp only [semP, lin_ket]
  congr 1; funext q
  by_cases h : q = t
  · subst h; simp [upd, Function.update, ones, ht]
  · simp only [upd, Function.update, h, ones, dite_false]
    have : (q < t + 1) ↔ (q < t) := by omega
    simp [this]

theorem h_zero : semP r w w' (.h 0) (ket zero) = r • (ket zero + ket (ones 1)) := by
  simp only [semP, lin_ket]
  congr 2
  · congr 1; funext q; by_cases h : q = 0 <;> simp [upd, Function.update, h, zero]
  · have : upd zero 0 true = ones 1 := by
      funext q; by_cases h : q = 0
      · subst h; simp [ones, upd]
      · simp only [upd, Function.update, h, dite_false, zero, ones]
        have : ¬ q < 1 := by omega
        simp [this]
    simp [zero, this]

/-- the fan-out `cx(0,1), …, cx(0,k)` -/
theorem fan_spec (k : ℕ) :
    runP r w w' ((List.range' 1 k).map fun j => Gate.cx 0 j) (r • (ket zero + ket (ones 1)))
      = r • (ket zero + ket (ones (k + 1))) := by
  induction k with
  | zero => simp
  | succ k ih =>
    rw [List.range'_1_concat, List.map_append, runP_append_apply, ih]
    simp only [List.map_cons, List.map_nil, runP_cons, runP_nil, LinearMap.id_apply, map_smul, map_add]
    rw [cx_zero, show 1 + k = k + 1 by omega, cx_ones _ _ _ _ (by omega)]

/-- GHZ body on `|0…0⟩`, every `n ≥ 1` -/
theorem ghzBody_state (n : ℕ) (hn : 1 ≤ n) :
    runP r w w' (ghzBody n) (ket zero) = r • (ket zero + ket (ones n)) := by
  rw [ghzBody, runP_cons, h_zero, fan_spec]
  congr; omega

theorem zero_ne_ones (n : ℕ) (hn : 1 ≤ n) : zero ≠ ones n := by
  intro h
  have := congrFun h 0
  simp [zero, ones] at this
  omega

/-! ### inverse lists -/

variable (hr : 2 * r * r = 1) (hw : ∀ k, w k * w' k = 1)

include hr hw in
/-- every unitary gate is undone by its inverse -/
theorem semP_inv_comp (g : Gate) (hg : Gate.IsUnitary g) (hcx : ∀ c t, g = .cx c t → c ≠ t) :
    semP r w w' g.inv ∘ₗ semP r w w' g = LinearMap.id := by
  apply lin_ext; intro b
  have h2 : r * r = 1 / 2 := by linear_combination hr / 2
  cases g with
  | h q =>
    simp only [Gate.inv, semP, LinearMap.comp_apply, lin_ket, map_smul, map_add, LinearMap.id_apply]
    have hu1 : ∀ x y, upd (upd b q x) q y = upd b q y := by intro x y; simp [upd]
    have hs : ∀ x, upd b q x q = x := by intro x; simp [upd]
    simp only [hu1, hs]
    cases hb : b q
    · have : upd b q false = b := by rw [← hb]; simp [upd]
      simp only [this, smul_add, smul_smul]
      simp
      rw [h2]; module
    · have : upd b q true = b := by rw [← hb]; simp [upd]
      simp only [this, smul_add, smul_smul]
      simp
      rw [h2]; module
  | cp i k a c =>
    simp only [Gate.inv, semP, LinearMap.comp_apply, lin_ket, map_smul, LinearMap.id_apply, smul_smul]
    cases hb : (b a && b c) <;> cases i <;> simp [hw, mul_comm (w' k)]
  | swap a c =>
    simp only [Gate.inv, semP, LinearMap.comp_apply, lin_ket, LinearMap.id_apply]
    congr 1
    funext x
    by_cases hxc : x = c
    · subst hxc
      by_cases hxa : x = a
      · subst hxa; simp [upd]
      · simp [upd, Ne.symm hxa]
    · by_cases hxa : x = a
      · subst hxa; simp [upd, hxc]
      · simp [upd, hxa, hxc]
  | cx c t =>
    have hct : c ≠ t := hcx c t rfl
    simp only [Gate.inv, semP, LinearMap.comp_apply, lin_ket, LinearMap.id_apply]
    congr 1
    funext x
    by_cases hxt : x = t
    · subst hxt; simp [upd, hct]
    · simp [upd, hxt]
  | barrier _ => exact hg.elim
  | measure _ _ => exact hg.elim

include hr hw in
/-- running the inverted, reversed list undoes the list -/
theorem runP_inverse (l : List Gate) (hl : ∀ g ∈ l, Gate.IsUnitary g)
    (hcx : ∀ g ∈ l, ∀ c t, g = .cx c t → c ≠ t) :
    runP r w w' (inverse l) ∘ₗ runP r w w' l = LinearMap.id := by
  induction l with
  | nil => simp [inverse]
  | cons g l ih =>
    have e : inverse (g :: l) = inverse l ++ [g.inv] := by simp [inverse]
    rw [e, runP_append]
    have h1 : runP r w w' [g.inv] = semP r w w' g.inv := by simp [runP]
    rw [h1]
    have ih' := ih (fun g' hg' => hl g' (List.mem_cons_of_mem _ hg'))
      (fun g' hg' => hcx g' (List.mem_cons_of_mem _ hg'))
    calc (semP r w w' g.inv ∘ₗ runP r w w' (inverse l)) ∘ₗ runP r w w' (g :: l)
        = semP r w w' g.inv ∘ₗ (runP r w w' (inverse l) ∘ₗ runP r w w' l) ∘ₗ semP r w w' g := by
          simp [runP, LinearMap.comp_assoc]
      _ = LinearMap.id := by
          rw [ih']
          simp [semP_inv_comp r w w' hr hw g (hl g (by simp)) (hcx g (by simp))]

/-! ### the uniform superposition -/

/-- uniform superposition over the qubits in `s` (all others 0), with amplitude `r^|s|` -/
def unif (s : Finset ℕ) : St := r ^ s.card • ∑ t ∈ s.powerset, ket (ind t)

theorem ind_empty : ind ∅ = zero := by funext q; simp [ind, zero]

theorem ind_injective : Function.Injective ind := by
  intro s t h
  ext q
  have := congrFun h q
  simpa [ind] using this

theorem upd_ind_false (t : Finset ℕ) (q : ℕ) (hq : q ∉ t) : upd (ind t) q false = ind t := by
  funext x; by_cases h : x = q
  · subst h; simp [upd, ind, hq]
  · simp [upd, ind, h]

theorem upd_ind_true (t : Finset ℕ) (q : ℕ) : upd (ind t) q true = ind (insert q t) := by
  funext x; by_cases h : x = q
  · subst h; simp [upd, ind]
  · simp [upd, ind, h]

/-- Hadamard on a fresh qubit extends the uniform superposition -/
theorem h_unif (s : Finset ℕ) (q : ℕ) (hq : q ∉ s) :
    semP r w w' (.h q) (unif r s) = unif r (insert q s) := by
  unfold unif
  rw [map_smul, map_sum, Finset.sum_powerset_insert hq, Finset.card_insert_of_notMem hq, pow_succ,
    mul_smul]
  congr 1
  rw [← Finset.sum_add_distrib, Finset.smul_sum]
  refine Finset.sum_congr rfl fun t ht => ?_
  have hqt : q ∉ t := fun h => hq (Finset.mem_powerset.mp ht h)
  simp only [semP, lin_ket]
  have : ind t q = false := by simp [ind, hqt]
  simp [this, upd_ind_false t q hqt, upd_ind_true]

/-- a controlled phase whose control is outside `s` does nothing to `unif s` -/
theorem cp_unif (s : Finset ℕ) (inv : Bool) (k i j : ℕ) (hi : i ∉ s) :
    semP r w w' (.cp inv k i j) (unif r s) = unif r s := by
  unfold unif
  rw [map_smul, map_sum]
  congr 1
  refine Finset.sum_congr rfl fun t ht => ?_
  have hit : i ∉ t := fun h => hi (Finset.mem_powerset.mp ht h)
  simp [semP, ind, hit]

theorem unif_empty : unif r ∅ = ket zero := by
  simp [unif, ind_empty]

theorem run_cps (s : Finset ℕ) (n : ℕ) (is : List ℕ) (h : ∀ i ∈ is, i ∉ s) (f : ℕ → ℕ) (inv : Bool) :
    runP r w w' (is.map fun i => Gate.cp inv (f i) i n) (unif r s) = unif r s := by
  induction is with
  | nil => simp
  | cons i is ih =>
    rw [List.map_cons, runP_cons, cp_unif r w w' s inv _ i n (h i (by simp))]
    exact ih fun j hj => h j (by simp [hj])

private theorem union_step (s : Finset ℕ) (n : ℕ) :
    insert n s ∪ Finset.range n = s ∪ Finset.range (n + 1) := by
  ext q
  simp only [Finset.mem_union, Finset.mem_insert, Finset.mem_range]
  constructor
  · rintro ((rfl | h) | h)
    · right; omega
    · left; exact h
    · right; omega
  · rintro (h | h)
    · left; right; exact h
    · by_cases hq : q = n
      · left; left; exact hq
      · right; omega

/-- the rotations act on `|0…0⟩` like a layer of Hadamards: every control is still `|0⟩` when used -/
theorem rotations_unif (n : ℕ) : ∀ s : Finset ℕ, (∀ q ∈ s, n ≤ q) →
    runP r w w' (qftRotations n) (unif r s) = unif r (s ∪ Finset.range n) := by
  induction n with
  | zero => intro s _; simp [qftRotations]
  | succ n ih =>
    intro s hs
    have hn : n ∉ s := fun h => by have := hs n h; omega
    rw [qftRotations, runP_append_apply, runP_cons, h_unif r w w' s n hn]
    rw [run_cps r w w' (insert n s) n (List.range n)
      (fun i hi => by
        have hi' : i < n := List.mem_range.mp hi
        simp only [Finset.mem_insert, not_or]
        exact ⟨by omega, fun h => by have := hs i h; omega⟩) (fun i => n - i) false]
    rw [ih (insert n s) (fun q hq => by
      rcases Finset.mem_insert.mp hq with rfl | hq
      · exact le_rfl
      · have := hs q hq; omega)]
    rw [union_step]

theorem rotations_zero (n : ℕ) :
    runP r w w' (qftRotations n) (ket zero) = unif r (Finset.range n) := by
  rw [← unif_empty r, rotations_unif r w w' n ∅ (by simp)]; simp

/-- the H layer applied in descending order (what `inverse()` produces) -/
theorem hlayer_rev (n : ℕ) : ∀ s : Finset ℕ, (∀ q ∈ s, n ≤ q) →
    runP r w w' (inverse (hLayer n)) (unif r s) = unif r (s ∪ Finset.range n) := by
  induction n with
  | zero => intro s _; simp [hLayer, inverse]
  | succ n ih =>
    intro s hs
    have hn : n ∉ s := fun h => by have := hs n h; omega
    have e : inverse (hLayer (n + 1)) = Gate.h n :: inverse (hLayer n) := by
      simp [inverse, hLayer, List.range_succ, Gate.inv]
    rw [e, runP_cons, h_unif r w w' s n hn, ih (insert n s) (fun q hq => by
      rcases Finset.mem_insert.mp hq with rfl | hq
      · exact le_rfl
      · have := hs q hq; omega)]
    rw [union_step]

/-- swapping two qubits of `s` leaves `unif s` unchanged -/
theorem swap_unif (s : Finset ℕ) (a c : ℕ) (ha : a ∈ s) (hc : c ∈ s) :
    semP r w w' (.swap a c) (unif r s) = unif r s := by
  unfold unif
  rw [map_smul, map_sum]
  congr 1
  let e : ℕ ≃ ℕ := Equiv.swap a c
  have hse : ∀ t : Finset ℕ, t ⊆ s → t.map e.toEmbedding ⊆ s := by
    intro t ht x hx
    rw [Finset.mem_map_equiv] at hx
    have := ht hx
    by_cases hxa : x = a
    · subst hxa; exact ha
    · by_cases hxc : x = c
      · subst hxc; exact hc
      · have : e.symm x = x := by simp [e, Equiv.swap_apply_of_ne_of_ne hxa hxc]
        rw [this] at hx; exact ht hx
  have hker : ∀ t : Finset ℕ, semP r w w' (.swap a c) (ket (ind t)) = ket (ind (t.map e.toEmbedding)) := by
    intro t
    simp only [semP, lin_ket]
    congr 1
    funext x
    simp only [ind, upd, Finset.mem_map_equiv, e, Equiv.symm_swap]
    by_cases hxc : x = c
    · subst hxc; simp [Function.update]
    · by_cases hxa : x = a
      · subst hxa; simp [Function.update, hxc, Equiv.swap_apply_left]
      · simp [Function.update, hxa, hxc, Equiv.swap_apply_of_ne_of_ne hxa hxc, ind]
  simp_rw [hker]
  refine Finset.sum_nbij' (fun t => t.map e.toEmbedding) (fun t => t.map e.toEmbedding) ?_ ?_ ?_ ?_ ?_
  · intro t ht; exact Finset.mem_powerset.mpr (hse t (Finset.mem_powerset.mp ht))
  · intro t ht; exact Finset.mem_powerset.mpr (hse t (Finset.mem_powerset.mp ht))
  · intro t _; ext x; simp [Finset.mem_map_equiv, e]
  · intro t _; ext x; simp [Finset.mem_map_equiv, e]
  · intro t _; ext x; simp [e]

theorem run_swaps_like (n : ℕ) (l : List Gate)
    (hl : ∀ g ∈ l, ∃ a c, g = Gate.swap a c ∧ a < n ∧ c < n) :
    runP r w w' l (unif r (Finset.range n)) = unif r (Finset.range n) := by
  induction l with
  | nil => simp
  | cons g l ih =>
    obtain ⟨a, c, rfl, ha, hc⟩ := hl g (by simp)
    rw [runP_cons, swap_unif r w w' _ a c (Finset.mem_range.mpr ha) (Finset.mem_range.mpr hc)]
    exact ih fun g hg => hl g (by simp [hg])

include hr hw in
/-- the Hadamard / inverse-QFT body maps `|0…0⟩` to `|0…0⟩`, every `n` -/
theorem hinvqftBody_zero (n : ℕ) :
    runP r w w' (hadamardReverseQftBody n) (ket zero) = ket zero := by
  have e : hadamardReverseQftBody n
      = (inverse (hLayer n) ++ inverse (swapRegisters n)) ++ inverse (qftRotations n) := by
    simp [hadamardReverseQftBody, inverse, List.reverse_append, List.map_append]
  rw [e, runP_append_apply, runP_append_apply]
  -- H layer (descending order)
  rw [← unif_empty r, hlayer_rev r w w' n ∅ (by simp), Finset.empty_union]
  -- swaps
  rw [run_swaps_like r w w' n (inverse (swapRegisters n)) (by
    intro g hg
    simp only [inverse, swapRegisters, List.mem_map, List.mem_reverse, List.mem_range] at hg
    obtain ⟨g', ⟨q, hq, rfl⟩, rfl⟩ := hg
    exact ⟨q, n - q - 1, rfl, by omega, by omega⟩)]
  -- inverse rotations undo the rotations
  rw [← rotations_zero r w w' n]
  have := runP_inverse r w w' hr hw (qftRotations n) (qftRotations_unitary n)
    (fun g hg c t hgt => absurd (hgt ▸ hg) (qftRotations_no_cx n c t))
  have h := congrArg (fun f => f (ket zero)) this
  rw [unif_empty r]
  simpa using h

/-! ### the concrete constants -/

theorem rHalf_sq : 2 * rHalf * rHalf = 1 := by
  have h2 : Real.sqrt 2 * Real.sqrt 2 = 2 := Real.mul_self_sqrt (by norm_num)
  have hne : Real.sqrt 2 ≠ 0 := by
    intro h; rw [h] at h2; norm_num at h2
  have : (2 : ℝ) * (Real.sqrt 2)⁻¹ * (Real.sqrt 2)⁻¹ = 1 := by
    field_simp; linarith
  unfold rHalf
  exact_mod_cast this

theorem normSq_rHalf : Complex.normSq rHalf = 1 / 2 := by
  have h2 : Real.sqrt 2 * Real.sqrt 2 = 2 := Real.mul_self_sqrt (by norm_num)
  unfold rHalf
  rw [Complex.normSq_ofReal, ← mul_inv, h2]; norm_num

theorem wPhase_mul_wPhase' (k : ℕ) : wPhase k * wPhase' k = 1 := by
  unfold wPhase wPhase'
  rw [← Complex.exp_add, add_neg_cancel, Complex.exp_zero]

theorem wPhase_zero : wPhase 0 = -1 := by
  unfold wPhase
  rw [pow_zero, div_one, mul_comm, Complex.exp_pi_mul_I]

theorem wPhase_succ_sq (k : ℕ) : wPhase (k + 1) ^ 2 = wPhase k := by
  unfold wPhase
  rw [← Complex.exp_nat_mul]
  congr 1
  rw [pow_succ]
  have : (2 : ℂ) ^ k ≠ 0 := pow_ne_zero _ two_ne_zero
  field_simp
  push_cast
  ring

/-- `w (n-1)` is the primitive `2^n`-th root of unity `exp(2πi/2^n)` -/
theorem wPhase_pred (n : ℕ) (hn : 1 ≤ n) :
    wPhase (n - 1) = Complex.exp (2 * Real.pi * Complex.I / 2 ^ n) := by
  obtain ⟨m, rfl⟩ : ∃ m, n = m + 1 := ⟨n - 1, by omega⟩
  unfold wPhase
  congr 1
  rw [Nat.add_sub_cancel, pow_succ]
  have : (2 : ℂ) ^ m ≠ 0 := pow_ne_zero _ two_ne_zero
  field_simp

end

end QG.Lemmas.Algorithms
