import Mathlib.Tactic
import QG.Lemmas.BackendLayers
/-!
# `StandardBackend` and `EfficientBackend`

* `chunkList_ok`: for `opt ≥ 1` and `len ≥ 2·opt`, `_chunk_list` returns a partition of the list into non-empty
  consecutive chunks (for every `min`, merged short tail included); `chunkList_map`: the cut depends only on the length.
* `effLayer_ok`: on a well-formed layer every regime of `EfficientBackend` produces a plan that implements the layer.
* `standard_ok`: the propagator product of `StandardBackend` applied to `ψ` is `specApply`.
-/
open Finset QG.Model.Backend
open QG.Spec.KronFlat hiding Leg

set_option linter.unusedSectionVars false

namespace QG.Lemmas.Backend

variable {R : Type} [CommSemiring R]

/-! ### `_chunk_list` -/

section Chunk
variable {γ : Type}

/-- `[l[i:i + opt] for i in range(0, len(l), opt)]` -/
def rawChunks (l : List γ) (op : ℕ) : List (List γ) :=
  (List.range ((l.length + op - 1) / op)).map fun k => (l.drop (k * op)).take op

/-- "recombine last chunk if necessary" -/
def mergeTail (chunks : List (List γ)) (mn : ℕ) : Except Err (List (List γ)) :=
  match chunks.reverse with
  | [] => .error .index
  | last :: before =>
    if last.length < mn then
      match before with
      | [] => .error .index
      | prev :: rest => .ok (rest.reverse ++ [prev ++ last])
    else .ok chunks

theorem chunkList_eq (l : List γ) (mn op : ℕ) :
    chunkList l mn op =
      if l.length < 2 * op then .error .assertion
      else if op = 0 then .error .value
      else mergeTail (rawChunks l op) mn := rfl

theorem flatten_chunks_take (l : List γ) (op m : ℕ) :
    ((List.range m).map fun k => (l.drop (k * op)).take op).flatten = l.take (m * op) := by
  induction m with
  | zero => simp
  | succ m ih =>
    rw [List.range_succ, List.map_append, List.flatten_append, ih, Nat.succ_mul, List.take_add]
    simp

theorem ceil_mul_ge (len op : ℕ) (hop : 0 < op) : len ≤ (len + op - 1) / op * op := by
  have := Nat.div_add_mod (len + op - 1) op
  have := Nat.mod_lt (len + op - 1) hop
  rw [Nat.mul_comm]
  omega

theorem rawChunks_flatten (l : List γ) (op : ℕ) (hop : 0 < op) : (rawChunks l op).flatten = l := by
  unfold rawChunks
  rw [flatten_chunks_take]
  exact List.take_of_length_le (ceil_mul_ge _ _ hop)

theorem rawChunks_ne (l : List γ) (op : ℕ) (hop : 0 < op) : ∀ c ∈ rawChunks l op, c ≠ [] := by
  intro c hc
  unfold rawChunks at hc
  obtain ⟨k, hk, rfl⟩ := List.mem_map.mp hc
  rw [List.mem_range] at hk
  intro hh
  have hlen := congrArg List.length hh
  rw [List.length_take, List.length_drop, List.length_nil] at hlen
  have h1 : (l.length + op - 1) / op * op ≤ l.length + op - 1 := Nat.div_mul_le_self _ _
  have h2 : (k + 1) * op ≤ (l.length + op - 1) / op * op := Nat.mul_le_mul_right op hk
  have h3 : (k + 1) * op = k * op + op := Nat.succ_mul k op
  omega

theorem rawChunks_length (l : List γ) (op : ℕ) : (rawChunks l op).length = (l.length + op - 1) / op := by
  simp [rawChunks]

theorem mergeTail_ok (chunks : List (List γ)) (mn : ℕ) (h2 : 2 ≤ chunks.length) (hne : ∀ c ∈ chunks, c ≠ []) :
    ∃ cs, mergeTail chunks mn = .ok cs ∧ cs.flatten = chunks.flatten ∧ (∀ c ∈ cs, c ≠ []) ∧
      cs.length ≤ chunks.length := by
  unfold mergeTail
  rcases hrev : chunks.reverse with _ | ⟨last, before⟩
  · have := congrArg List.length hrev
    rw [List.length_reverse, List.length_nil] at this; omega
  · have hch : chunks = before.reverse ++ [last] := by
      have := congrArg List.reverse hrev; simpa using this
    simp only
    split
    · rcases before with _ | ⟨prev, rest⟩
      · subst hch; simp at h2
      · simp only
        refine ⟨_, rfl, ?_, ?_, ?_⟩
        · subst hch; simp
        · intro c hc
          simp only [List.mem_append, List.mem_reverse, List.mem_singleton] at hc
          rcases hc with hc | rfl
          · exact hne c (by subst hch; simp [hc])
          · have : prev ≠ [] := hne prev (by subst hch; simp)
            simp [this]
        · subst hch; simp
    · exact ⟨chunks, rfl, rfl, hne, le_refl _⟩

/-- `_chunk_list` returns a partition into non-empty consecutive chunks -/
theorem chunkList_ok (l : List γ) (mn op : ℕ) (hop : 0 < op) (hlen : 2 * op ≤ l.length) :
    ∃ cs, chunkList l mn op = .ok cs ∧ cs.flatten = l ∧ ∀ c ∈ cs, c ≠ [] := by
  rw [chunkList_eq, if_neg (by omega), if_neg (by omega)]
  have h2 : 2 ≤ (rawChunks l op).length := by
    rw [rawChunks_length]
    have := ceil_mul_ge l.length op hop
    by_contra hcon
    have : (l.length + op - 1) / op ≤ 1 := by omega
    have : (l.length + op - 1) / op * op ≤ 1 * op := Nat.mul_le_mul_right op this
    omega
  obtain ⟨cs, h1, hf, hne, _⟩ := mergeTail_ok (rawChunks l op) mn h2 (rawChunks_ne l op hop)
  exact ⟨cs, h1, by rw [hf, rawChunks_flatten l op hop], hne⟩

/-- the cut depends only on the length of the list -/
theorem chunkList_map {δ : Type} (f : γ → δ) (l : List γ) (mn op : ℕ) :
    chunkList (l.map f) mn op = (chunkList l mn op).map (List.map (List.map f)) := by
  rw [chunkList_eq, chunkList_eq, List.length_map]
  split
  · rfl
  split
  · rfl
  have hraw : rawChunks (l.map f) op = (rawChunks l op).map (List.map f) := by
    simp [rawChunks, List.map_take, List.map_drop]
  rw [hraw]
  generalize rawChunks l op = chunks
  unfold mergeTail
  rw [← List.map_reverse]
  rcases chunks.reverse with _ | ⟨last, before⟩
  · rfl
  · simp only [List.map_cons, List.length_map]
    split
    · rcases before with _ | ⟨prev, rest⟩
      · rfl
      · simp [Except.map]
    · rfl

/-- the number of chunks (= operands of the contraction) `_chunk_list` makes of a list of `n` entries -/
def numOperands (n mn op : ℕ) : ℕ :=
  match chunkList (List.replicate n ()) mn op with
  | .ok cs => cs.length
  | .error _ => 0

theorem chunkList_length_le (l : List γ) (mn op : ℕ) (cs : List (List γ)) (h : chunkList l mn op = .ok cs) :
    cs.length = numOperands l.length mn op := by
  have hmap := chunkList_map (fun _ => ()) l mn op
  rw [h] at hmap
  have hrep : l.map (fun _ => ()) = List.replicate l.length () := by
    simp
  rw [hrep] at hmap
  unfold numOperands
  rw [hmap]
  simp [Except.map]

end Chunk

/-! ### closed form of the number of chunks -/


theorem ceil_div_eq (n op : ℕ) (hop : 0 < op) :
    (n + op - 1) / op = if n % op = 0 then n / op else n / op + 1 := by
  have h := Nat.div_add_mod n op
  have hr := Nat.mod_lt n hop
  have e1 : (n / op + 1) * op = op * (n / op) + op := by ring
  have e2 : (n / op + 1 + 1) * op = op * (n / op) + op + op := by ring
  have e0 : n / op * op = op * (n / op) := by ring
  split_ifs with h0
  · exact Nat.div_eq_of_lt_le (by omega) (by omega)
  · exact Nat.div_eq_of_lt_le (by omega) (by omega)

theorem mergeTail_length {γ : Type} (chunks : List (List γ)) (mn : ℕ) (last : List γ) (before : List (List γ))
    (hch : chunks = before ++ [last]) (hb : before ≠ []) :
    ∃ cs, mergeTail chunks mn = .ok cs ∧ cs.length = if last.length < mn then before.length else before.length + 1 := by
  unfold mergeTail
  have hrev : chunks.reverse = last :: before.reverse := by rw [hch]; simp
  rw [hrev]
  simp only
  split_ifs with h
  · rcases hbr : before.reverse with _ | ⟨prev, rest⟩
    · have := congrArg List.length hbr
      rw [List.length_reverse, List.length_nil] at this
      exact absurd (List.length_eq_zero_iff.mp this) hb
    · simp only
      refine ⟨_, rfl, ?_⟩
      have := congrArg List.length hbr
      rw [List.length_reverse, List.length_cons] at this
      simp only [List.length_append, List.length_reverse, List.length_cons, List.length_nil]; omega
  · exact ⟨chunks, rfl, by rw [hch]; simp⟩



/-- closed form of the number of operands of the chunked regime: `⌈n / opt⌉` chunks, one less when the last chunk
(`n % opt` entries, or `opt` when `opt ∣ n`) is shorter than `min` and is merged into its predecessor -/
theorem numOperands_eq (n mn op : ℕ) (hop : 1 ≤ op) (hn : 2 * op ≤ n) :
    numOperands n mn op =
      if (if n % op = 0 then op else n % op) < mn then (n + op - 1) / op - 1 else (n + op - 1) / op := by
  unfold numOperands
  rw [chunkList_eq, List.length_replicate, if_neg (by omega), if_neg (by omega)]
  have hk2 : 2 ≤ (n + op - 1) / op := by
    have := ceil_mul_ge n op hop
    by_contra hcon
    have : (n + op - 1) / op ≤ 1 := by omega
    have : (n + op - 1) / op * op ≤ 1 * op := Nat.mul_le_mul_right op this
    omega
  obtain ⟨k', hk'⟩ : ∃ k', (n + op - 1) / op = k' + 1 := ⟨(n + op - 1) / op - 1, by omega⟩
  have hraw : rawChunks (List.replicate n ()) op =
      ((List.range k').map fun k => ((List.replicate n ()).drop (k * op)).take op) ++
        [((List.replicate n ()).drop (k' * op)).take op] := by
    unfold rawChunks
    rw [List.length_replicate, hk', List.range_succ, List.map_append]
    rfl
  have hb : ((List.range k').map fun k => ((List.replicate n ()).drop (k * op)).take op) ≠ [] := by
    intro hh
    have := congrArg List.length hh
    simp at this
    omega
  obtain ⟨cs, hcs, hlen⟩ := mergeTail_length _ mn _ _ hraw hb
  rw [hcs]
  simp only [hlen, List.length_take, List.length_drop, List.length_replicate, List.length_map, List.length_range]
  have hlast : min op (n - k' * op) = if n % op = 0 then op else n % op := by
    have hc := ceil_div_eq n op hop
    have h := Nat.div_add_mod n op
    have hr := Nat.mod_lt n hop
    rw [hk'] at hc
    split_ifs at hc ⊢ with h0
    · have : k' * op = op * (n / op) - op := by
        have : n / op = k' + 1 := hc.symm
        rw [this]; ring_nf; omega
      omega
    · have : k' * op = op * (n / op) := by
        have : k' = n / op := by omega
        rw [this]; ring
      omega
  rw [hlast, hk']
  split_ifs <;> omega


/-! ### EfficientBackend -/

variable [DecidableEq R]

/-- the operand a chunk becomes: `np.atleast_2d(ft.reduce(np.kron, chunk))` -/
def chunkMat (c : List (PyVal (Mat R))) : Mat R :=
  match reduceKron (matOps (dictOf R)) c with
  | .ok v => atleast2d (matOps (dictOf R)) v
  | .error _ => one1 (dictOf R)

theorem atleast2d_sem (v : PyVal (Mat R)) :
    (atleast2d (matOps (dictOf R)) v).dim = (pvLeg v).1 ∧ fn (atleast2d (matOps (dictOf R)) v) = legMat (pvLeg v) := by
  cases v <;> simp [atleast2d, pvLeg, matLeg, matOps, legMat, fn_one1]

theorem chunkMat_sem (c : List (PyVal (Mat R))) (hc : c ≠ []) :
    (∃ v, reduceKron (matOps (dictOf R)) c = .ok v ∧ atleast2d (matOps (dictOf R)) v = chunkMat c) ∧
    (chunkMat c).dim = dims (c.map pvLeg) ∧ fn (chunkMat c) = kronList (c.map pvLeg) := by
  obtain ⟨v, hv, h1, h2⟩ := reduceKron_sem c hc
  have : chunkMat c = atleast2d (matOps (dictOf R)) v := by unfold chunkMat; rw [hv]
  refine ⟨⟨v, hv, this.symm⟩, ?_, ?_⟩
  · rw [this, (atleast2d_sem v).1, h1]
  · rw [this, (atleast2d_sem v).2, h2]

theorem mapM_ok {α β : Type} (f : α → Except Err β) (g : α → β) (l : List α) (h : ∀ x ∈ l, f x = .ok (g x)) :
    l.mapM f = .ok (l.map g) := by
  induction l with
  | nil => rfl
  | cons x rest ih =>
    rw [List.mapM_cons, h x (by simp), ih fun y hy => h y (by simp [hy])]
    rfl

/-- the legs `_opt_einsum_many_matrices` contracts when given the multiplied-out chunks `cs` -/
def chunkLegs (cs : List (List (PyVal (Mat R)))) : List (Leg (Mat R)) :=
  cs.map fun c => ((chunkMat c).dim, some (chunkMat c))

theorem einsumMany_chunks (cs : List (List (PyVal (Mat R)))) (hlen : cs.length ≤ 13) :
    einsumMany (matOps (dictOf R)) (cs.map fun c => PyVal.arr (chunkMat c)) = .ok (.einsum (chunkLegs cs)) := by
  unfold einsumMany
  rw [if_neg (by simp; omega)]
  rw [mapM_ok _ (fun a => match a with
      | .arr M => ((M.dim, some M) : Leg (Mat R))
      | _ => (0, none))]
  · simp [chunkLegs, List.map_map, Function.comp_def]
  · intro x hx
    obtain ⟨c, _, rfl⟩ := List.mem_map.mp hx
    rfl

/-- contracting the multiplied-out chunks of a partition of a well-formed layer implements the layer -/
theorem chunkLegs_planOK {n : ℕ} {l : Layer (Mat R)} (hwf : WFI l) (hlen : l.length = n)
    (cs : List (List (PyVal (Mat R)))) (hflat : cs.flatten = l.map Block.toPy) (hne : ∀ c ∈ cs, c ≠ []) :
    PlanOK n l (.einsum (chunkLegs cs)) := by
  have hgood : ∀ x ∈ (l.map Block.toPy).map pvLeg, Leg.Good x := by
    rw [map_pvLeg_toPy]; exact hwf.good
  have hsem : (chunkLegs cs).map legSem = (cs.map (List.map pvLeg)).map chunkLeg := by
    simp only [chunkLegs, List.map_map]
    apply List.map_congr_left
    intro c hc
    obtain ⟨_, h1, h2⟩ := chunkMat_sem c (hne c hc)
    simp only [Function.comp, legSem, Option.map_some, chunkLeg, h1, h2]
  have hflat' : (cs.map (List.map pvLeg)).flatten = l.map blockLeg := by
    rw [← List.map_flatten, hflat, map_pvLeg_toPy]
  have hdims : dims ((chunkLegs cs).map legSem) = 2 ^ n := by
    rw [hsem, dims_chunks, hflat', hwf.length_dims, hlen]
  refine ⟨?_, ?_, ?_⟩
  · intro x hx
    simp only [chunkLegs, List.mem_map] at hx
    obtain ⟨c, hc, rfl⟩ := hx
    obtain ⟨_, h1, _⟩ := chunkMat_sem c (hne c hc)
    simp only [h1]
    apply dims_pos
    intro y hy
    apply (hgood y _).1
    rw [← hflat, List.map_flatten]
    exact List.mem_flatten.mpr ⟨c.map pvLeg, List.mem_map.mpr ⟨c, hc, rfl⟩, hy⟩
  · rw [legDims_eq, hdims]
  · rw [hsem, kronList_chunks, hflat']
    · rfl
    · intro c hc
      obtain ⟨c', hc', rfl⟩ := List.mem_map.mp hc
      simpa using hne c' hc'

/-- every regime of `EfficientBackend` implements a well-formed layer -/
theorem effLayer_ok {n mn op : ℕ} {l : Layer (Mat R)} (hwf : WFI l) (hlen : l.length = n) (hn : 1 ≤ n)
    (hop : 1 ≤ op) (hops : n < 4 ∨ n < 2 * op ∨ numOperands n mn op ≤ 13) :
    ∃ p, effLayer (matOps (dictOf R)) n mn op (l.map Block.toPy) = .ok p ∧ PlanOK n l p := by
  have hl : l ≠ [] := by intro hh; subst hh; simp at hlen; omega
  unfold effLayer
  split
  · -- n < 4: the whole layer as one matrix
    obtain ⟨K, hK, hd, hf⟩ := reduceKron_arr (l.map Block.toPy) (by rw [any_isArr_map_toPy]; exact hwf.any_isMat hl)
    refine ⟨.dense (.arr K), by rw [hK]; rfl, K, rfl, ?_, ?_⟩
    · rw [hd, map_pvLeg_toPy, hwf.length_dims, hlen]
    · rw [hf, map_pvLeg_toPy]; rfl
  split
  · -- n ≥ 2·opt: chunks
    rename_i h4 h2
    obtain ⟨cs, hcs, hflat, hne⟩ := chunkList_ok (l.map Block.toPy) mn op hop (by simpa [hlen] using h2)
    have hnum : cs.length ≤ 13 := by
      have := chunkList_length_le _ _ _ _ hcs
      rw [List.length_map, hlen] at this
      omega
    refine ⟨.einsum (chunkLegs cs), ?_, chunkLegs_planOK hwf hlen cs hflat hne⟩
    rw [hcs]
    simp only [bind, Except.bind]
    rw [mapM_ok _ (fun c => PyVal.arr (chunkMat c))]
    · exact einsumMany_chunks cs hnum
    · intro c hc
      obtain ⟨⟨v, hv, hv'⟩, _⟩ := chunkMat_sem c (hne c hc)
      rw [hv]
      simp only [pure, Except.pure, hv']
  · -- 4 ≤ n < 2·opt: one split at n / 2 (by list position)
    rename_i h4 h2
    have hn4 : 4 ≤ n := by omega
    have ht : ((l.map Block.toPy).take (n / 2)).any isArr = true := by
      rw [← List.map_take, any_isArr_map_toPy]
      exact hwf.any_take _ (by omega) hl
    have hd : ((l.map Block.toPy).drop (n / 2)).any isArr = true := by
      rw [← List.map_drop, any_isArr_map_toPy]
      exact hwf.any_drop _ (by omega)
    obtain ⟨K1, hK1, _, _⟩ := reduceKron_arr _ ht
    obtain ⟨K2, hK2, _, _⟩ := reduceKron_arr _ hd
    have hne1 : (l.map Block.toPy).take (n / 2) ≠ [] := by intro hh; rw [hh] at ht; simp at ht
    have hne2 : (l.map Block.toPy).drop (n / 2) ≠ [] := by intro hh; rw [hh] at hd; simp at hd
    have e1 : chunkMat ((l.map Block.toPy).take (n / 2)) = K1 := by unfold chunkMat; rw [hK1]; rfl
    have e2 : chunkMat ((l.map Block.toPy).drop (n / 2)) = K2 := by unfold chunkMat; rw [hK2]; rfl
    let cs := [(l.map Block.toPy).take (n / 2), (l.map Block.toPy).drop (n / 2)]
    refine ⟨.einsum (chunkLegs cs), ?_, chunkLegs_planOK hwf hlen cs (by simp [cs]) ?_⟩
    · rw [hK1, hK2]
      simp only [bind, Except.bind]
      have := einsumMany_chunks cs (by simp [cs])
      simpa [cs, e1, e2] using this
    · intro c hc
      simp only [cs, List.mem_cons, List.not_mem_nil, or_false] at hc
      rcases hc with rfl | rfl
      · exact hne1
      · exact hne2

/-! ### StandardBackend -/

theorem specFn_congr (n : ℕ) (L : List (Layer (Mat R))) (v w : ℕ → R) (h : ∀ j < 2 ^ n, v j = w j) :
    ∀ j < 2 ^ n, specFn n L v j = specFn n L w j := by
  induction L generalizing v w with
  | nil => intro j hj; exact h j hj
  | cons l' Ls ih =>
    intro j hj
    simp only [specFn, List.foldl_cons]
    exact ih _ _ (fun j' _ => mulVec_congr (fun _ _ => rfl) h) j hj

theorem layer_reduce {n : ℕ} {l : Layer (Mat R)} (hwf : WFI l) (hlen : l.length = n) (hn : 1 ≤ n) :
    ∃ K : Mat R, reduceKron (matOps (dictOf R)) (l.map Block.toPy) = .ok (.arr K) ∧ K.dim = 2 ^ n ∧
      fn K = layerMat l := by
  have hl : l ≠ [] := by intro hh; subst hh; simp at hlen; omega
  obtain ⟨K, hK, hd, hf⟩ := reduceKron_arr (l.map Block.toPy) (by rw [any_isArr_map_toPy]; exact hwf.any_isMat hl)
  refine ⟨K, hK, ?_, ?_⟩
  · rw [hd, map_pvLeg_toPy, hwf.length_dims, hlen]
  · rw [hf, map_pvLeg_toPy]; rfl

theorem standard_fold {n : ℕ} (hn : 1 ≤ n) (rest : List (Layer (Mat R)))
    (hwf : ∀ l ∈ rest, WFI l ∧ l.length = n) (P : Mat R) (hP : P.dim = 2 ^ n) :
    ∃ Q : Mat R, rest.foldlM (fun p l => do
        let k ← reduceKron (matOps (dictOf R)) (l.map Block.toPy)
        pyMatMul (dictOf R) k p) (PyVal.arr P) = .ok (.arr Q) ∧ Q.dim = 2 ^ n ∧
      ∀ (v : ℕ → R) (i : ℕ), i < 2 ^ n →
        mulVec (2 ^ n) (fn Q) v i = specFn n rest (mulVec (2 ^ n) (fn P) v) i := by
  induction rest generalizing P with
  | nil => exact ⟨P, rfl, hP, fun v i _ => rfl⟩
  | cons l ls ih =>
    obtain ⟨hw, hlen⟩ := hwf l (by simp)
    obtain ⟨K, hK, hKd, hKf⟩ := layer_reduce hw hlen hn
    obtain ⟨C, hC, hCd, hCf⟩ := matMul_eq K P (by rw [hKd, hP])
    obtain ⟨Q, hQ, hQd, hQf⟩ := ih (fun l' hl' => hwf l' (by simp [hl'])) C (by rw [hCd, hKd])
    refine ⟨Q, ?_, hQd, fun v i hi => ?_⟩
    · rw [List.foldlM_cons, hK]
      simp only [bind, Except.bind, pyMatMul, hC]
      exact hQ
    · rw [hQf v i hi]
      simp only [specFn, List.foldl_cons]
      apply specFn_congr n ls _ _ _ i hi
      intro j hj
      rw [← hKf, ← mulVec_mulVec]
      apply mulVec_congr _ (fun _ _ => rfl)
      intro k hk
      rw [hCf, hKd, if_pos ⟨hj, hk⟩]

theorem standard_ok {n : ℕ} (hn : 1 ≤ n) (L : List (Layer (Mat R))) (hL : L ≠ [])
    (hwf : ∀ l ∈ L, WFI l ∧ l.length = n) (ψ : Array R) (hψ : ψ.size = 2 ^ n) :
    standard (dictOf R) n L ψ = .ok (specApply n L ψ) := by
  cases L with
  | nil => exact absurd rfl hL
  | cons l0 rest =>
    obtain ⟨hw, hlen⟩ := hwf l0 (by simp)
    obtain ⟨K, hK, hKd, hKf⟩ := layer_reduce hw hlen hn
    obtain ⟨Q, hQ, hQd, hQf⟩ := standard_fold hn rest (fun l' hl' => hwf l' (by simp [hl'])) K hKd
    unfold standard
    simp only [hK, bind, Except.bind]
    simp only [bind, Except.bind] at hQ
    rw [hQ]
    simp only [pyMatVec]
    rw [matVec_eq Q ψ (by rw [hQd, hψ])]
    congr 1
    apply Array.ext
    · simp [specApply, hQd]
    · intro i h1 h2
      have hi : i < 2 ^ n := by simpa [hQd] using h1
      simp only [specApply, Array.getElem_ofFn, hQd]
      rw [hQf _ i hi, hKf]
      rfl

end QG.Lemmas.Backend
