import Mathlib.Probability.Distributions.Gaussian.Real
import Mathlib.MeasureTheory.Integral.Prod
import Mathlib.MeasureTheory.Measure.CharacteristicFunction.Basic
/-! Helper lemmas for C04 (`relaxation_channel`): Gaussian shot averages of the entries of `G ρ G†`. -/
namespace QG.Lemmas.Relax
open MeasureTheory ProbabilityTheory Complex
open scoped NNReal

/-! Relaxation noisy gate `G(W, X) = [[e^{iεW}, i X e^{-iεW}], [0, d e^{-iεW}]]`,
 `W ~ N(0, Δ)`, `X ~ N(0, V)` independent. Shot average of `G ρ G†`. -/

variable (Δ V : ℝ≥0) (ε d : ℝ)

/-- joint law of the two independent samples -/
noncomputable abbrev law : Measure (ℝ × ℝ) := (gaussianReal 0 Δ).prod (gaussianReal 0 V)

/-- Gaussian characteristic function at `2ε` -/
theorem E_phase : ∫ w, cexp (2 * ε * w * I) ∂(gaussianReal 0 Δ) = cexp (-(2 * ε ^ 2 * Δ)) := by
  have h := charFun_gaussianReal (μ := 0) (v := Δ) (2 * ε)
  rw [charFun_apply_real] at h
  have e1 : (fun w : ℝ => cexp (2 * ε * w * I)) = fun w : ℝ => cexp (((2 * ε : ℝ) : ℂ) * w * I) := by
    funext w; push_cast; ring_nf
  rw [e1, h]; congr 1; push_cast; ring

theorem E_X : ∫ x, ((x : ℝ) : ℂ) ∂(gaussianReal 0 V) = 0 := by
  rw [integral_complex_ofReal, integral_id_gaussianReal]; simp

theorem E_X_sq : ∫ x, (((x : ℝ) : ℂ)) ^ 2 ∂(gaussianReal 0 V) = (V : ℂ) := by
  have h : ∫ x, x ^ 2 ∂(gaussianReal 0 V) = (V : ℝ) := by
    have := variance_fun_id_gaussianReal (μ := 0) (v := V)
    rw [variance_eq_integral measurable_id'.aemeasurable] at this
    simpa using this
  have : (fun x : ℝ => ((x : ℂ)) ^ 2) = fun x : ℝ => (((x ^ 2 : ℝ)) : ℂ) := by
    funext x; push_cast; rfl
  rw [this, integral_complex_ofReal, h]

/-- off-diagonal entry `(G ρ G†)₀₁ = d e^{2iεW} b + i X d c` : its shot average is `d e^{-2ε²Δ} b` -/
theorem coherence_decay (b c : ℂ) :
    ∫ z, ((d : ℂ) * cexp (2 * ε * z.1 * I) * b + I * (z.2 : ℂ) * d * c) ∂(law Δ V)
      = (d : ℂ) * cexp (-(2 * ε ^ 2 * Δ)) * b := by
  have hint1 : Integrable (fun w : ℝ => cexp (2 * ε * w * I)) (gaussianReal 0 Δ) := by
    apply (integrable_const (1 : ℝ)).mono' (by fun_prop)
    filter_upwards with w
    have : (2 * (ε : ℂ) * w * I) = ((2 * ε * w : ℝ) : ℂ) * I := by push_cast; ring
    rw [this, Complex.norm_exp_ofReal_mul_I]
  have hint2 : Integrable (fun x : ℝ => (x : ℂ)) (gaussianReal 0 V) :=
    (memLp_id_gaussianReal (μ := 0) (v := V) 1).integrable le_rfl |>.ofReal
  have hA : Integrable (fun z : ℝ × ℝ => (d : ℂ) * cexp (2 * ε * z.1 * I) * b) (law Δ V) := by
    have := (hint1.mul_prod (integrable_const (1 : ℂ) (μ := gaussianReal 0 V)))
    simpa [mul_comm, mul_left_comm, mul_assoc] using (this.const_mul ((d : ℂ) * b))
  have hB : Integrable (fun z : ℝ × ℝ => I * (z.2 : ℂ) * d * c) (law Δ V) := by
    have := ((integrable_const (1 : ℂ) (μ := gaussianReal 0 Δ)).mul_prod hint2)
    simpa [mul_comm, mul_left_comm, mul_assoc] using (this.const_mul (I * d * c))
  rw [integral_add hA hB]
  have e1 : ∫ z, (d : ℂ) * cexp (2 * ε * z.1 * I) * b ∂(law Δ V) = (d : ℂ) * cexp (-(2 * ε ^ 2 * Δ)) * b := by
    have := integral_prod_mul (μ := gaussianReal 0 Δ) (ν := gaussianReal 0 V)
      (fun w : ℝ => cexp (2 * ε * w * I)) (fun _ : ℝ => (1 : ℂ))
    simp only [mul_one, integral_const, probReal_univ, one_smul] at this
    rw [E_phase] at this
    calc ∫ z, (d : ℂ) * cexp (2 * ε * z.1 * I) * b ∂(law Δ V)
        = (d : ℂ) * b * ∫ z, cexp (2 * ε * z.1 * I) ∂(law Δ V) := by
          rw [← integral_const_mul]; congr 1; funext z; ring
      _ = _ := by rw [this]; ring
  have e2 : ∫ z, I * (z.2 : ℂ) * d * c ∂(law Δ V) = 0 := by
    have := integral_prod_mul (μ := gaussianReal 0 Δ) (ν := gaussianReal 0 V)
      (fun _ : ℝ => (1 : ℂ)) (fun x : ℝ => (x : ℂ))
    simp only [one_mul, integral_const, probReal_univ, one_smul] at this
    rw [E_X] at this
    calc ∫ z, I * (z.2 : ℂ) * d * c ∂(law Δ V)
        = I * d * c * ∫ z, (z.2 : ℂ) ∂(law Δ V) := by
          rw [← integral_const_mul]; congr 1; funext z; ring
      _ = 0 := by rw [this]; ring
  rw [e1, e2, add_zero]


/-- diagonal entry `(G ρ G†)₀₀ = a + X² c + (terms linear in X)`: its shot average is `a + V c` -/
theorem population_gain (a c l : ℂ) :
    ∫ z, (a + ((z.2 : ℂ)) ^ 2 * c + (z.2 : ℂ) * l) ∂(law Δ V) = a + (V : ℂ) * c := by
  have hX : Integrable (fun x : ℝ => (x : ℂ)) (gaussianReal 0 V) :=
    (memLp_id_gaussianReal (μ := 0) (v := V) 1).integrable le_rfl |>.ofReal
  have hX2 : Integrable (fun x : ℝ => ((x : ℂ)) ^ 2) (gaussianReal 0 V) := by
    have h := (memLp_id_gaussianReal (μ := 0) (v := V) 2).integrable_sq
    have : (fun x : ℝ => ((x : ℂ)) ^ 2) = fun x : ℝ => (((x ^ 2 : ℝ)) : ℂ) := by funext x; push_cast; rfl
    rw [this]; exact h.ofReal
  have p1 := integral_prod_mul (μ := gaussianReal 0 Δ) (ν := gaussianReal 0 V)
    (fun _ : ℝ => (1 : ℂ)) (fun x : ℝ => ((x : ℂ)) ^ 2)
  have p2 := integral_prod_mul (μ := gaussianReal 0 Δ) (ν := gaussianReal 0 V)
    (fun _ : ℝ => (1 : ℂ)) (fun x : ℝ => (x : ℂ))
  simp only [one_mul, integral_const, probReal_univ, one_smul] at p1 p2
  rw [E_X_sq] at p1; rw [E_X] at p2
  have i1 : Integrable (fun z : ℝ × ℝ => ((z.2 : ℂ)) ^ 2 * c) (law Δ V) := by
    have := ((integrable_const (1 : ℂ) (μ := gaussianReal 0 Δ)).mul_prod hX2)
    simpa [mul_comm, mul_left_comm, mul_assoc] using (this.const_mul c)
  have i2 : Integrable (fun z : ℝ × ℝ => (z.2 : ℂ) * l) (law Δ V) := by
    have := ((integrable_const (1 : ℂ) (μ := gaussianReal 0 Δ)).mul_prod hX)
    simpa [mul_comm, mul_left_comm, mul_assoc] using (this.const_mul l)
  have i0 : Integrable (fun _ : ℝ × ℝ => a) (law Δ V) := integrable_const _
  have s1 : ∫ z, (a + ((z.2 : ℂ)) ^ 2 * c + (z.2 : ℂ) * l) ∂(law Δ V)
      = ∫ z, (a + ((z.2 : ℂ)) ^ 2 * c) ∂(law Δ V) + ∫ z, (z.2 : ℂ) * l ∂(law Δ V) :=
    integral_add (i0.add i1) i2
  have s2 : ∫ z, (a + ((z.2 : ℂ)) ^ 2 * c) ∂(law Δ V)
      = ∫ _z, a ∂(law Δ V) + ∫ z, ((z.2 : ℂ)) ^ 2 * c ∂(law Δ V) := integral_add i0 i1
  rw [s1, s2]
  have e1 : ∫ z, ((z.2 : ℂ)) ^ 2 * c ∂(law Δ V) = (V : ℂ) * c := by
    rw [integral_mul_const, p1]
  have e2 : ∫ z, (z.2 : ℂ) * l ∂(law Δ V) = 0 := by
    rw [integral_mul_const, p2, zero_mul]
  rw [e1, e2]; simp


theorem integrable_phase (k : ℝ) : Integrable (fun w : ℝ => cexp (k * w * I)) (gaussianReal 0 Δ) := by
  apply (integrable_const (1 : ℝ)).mono' (by fun_prop)
  filter_upwards with w
  have : ((k : ℂ) * w * I) = ((k * w : ℝ) : ℂ) * I := by push_cast; ring
  rw [this, Complex.norm_exp_ofReal_mul_I]

/-- a term `X · h(W)` with `h` integrable averages to zero (independence, `E X = 0`) -/
theorem cross_term_zero (h : ℝ → ℂ) (hh : Integrable h (gaussianReal 0 Δ)) :
    ∫ z, h z.1 * (z.2 : ℂ) ∂(law Δ V) = 0 := by
  have := integral_prod_mul (μ := gaussianReal 0 Δ) (ν := gaussianReal 0 V) h (fun x : ℝ => (x : ℂ))
  rw [E_X, mul_zero] at this
  exact this

theorem integrable_cross (h : ℝ → ℂ) (hh : Integrable h (gaussianReal 0 Δ)) :
    Integrable (fun z : ℝ × ℝ => h z.1 * (z.2 : ℂ)) (law Δ V) :=
  hh.mul_prod ((memLp_id_gaussianReal (μ := 0) (v := V) 1).integrable le_rfl |>.ofReal)

/-- population entry with the cross terms of the relaxation gate: `ρ₀₀ + X² ρ₁₁ + X(l₁ e^{2iεW} + l₂ e^{-2iεW})` -/
theorem population_gain' (a c l1 l2 : ℂ) :
    ∫ z, (a + ((z.2 : ℂ)) ^ 2 * c + (l1 * cexp (2 * ε * z.1 * I) + l2 * cexp (-2 * ε * z.1 * I)) * (z.2 : ℂ)) ∂(law Δ V)
      = a + (V : ℂ) * c := by
  have hh : Integrable (fun w : ℝ => l1 * cexp (2 * ε * w * I) + l2 * cexp (-2 * ε * w * I)) (gaussianReal 0 Δ) := by
    have h1 := (integrable_phase Δ (2 * ε)).const_mul l1
    have h2 := (integrable_phase Δ (-2 * ε)).const_mul l2
    have := h1.add h2
    refine this.congr (Filter.Eventually.of_forall fun w => ?_)
    simp only [Pi.add_apply]; push_cast; ring_nf
  have ic := integrable_cross Δ V _ hh
  have base := population_gain Δ V a c 0
  simp only [mul_zero, add_zero] at base
  have hX2 : Integrable (fun z : ℝ × ℝ => a + ((z.2 : ℂ)) ^ 2 * c) (law Δ V) := by
    have h := (memLp_id_gaussianReal (μ := 0) (v := V) 2).integrable_sq
    have e : (fun x : ℝ => ((x : ℂ)) ^ 2) = fun x : ℝ => (((x ^ 2 : ℝ)) : ℂ) := by funext x; push_cast; rfl
    have h2 : Integrable (fun x : ℝ => ((x : ℂ)) ^ 2) (gaussianReal 0 V) := by rw [e]; exact h.ofReal
    have := ((integrable_const (1 : ℂ) (μ := gaussianReal 0 Δ)).mul_prod h2)
    have i1 : Integrable (fun z : ℝ × ℝ => ((z.2 : ℂ)) ^ 2 * c) (law Δ V) := by
      simpa [mul_comm, mul_left_comm, mul_assoc] using (this.const_mul c)
    exact (integrable_const a).add i1
  have s1 : ∫ z, (a + ((z.2 : ℂ)) ^ 2 * c + (l1 * cexp (2 * ε * z.1 * I) + l2 * cexp (-2 * ε * z.1 * I)) * (z.2 : ℂ)) ∂(law Δ V)
      = ∫ z, (a + ((z.2 : ℂ)) ^ 2 * c) ∂(law Δ V)
        + ∫ z, (l1 * cexp (2 * ε * z.1 * I) + l2 * cexp (-2 * ε * z.1 * I)) * (z.2 : ℂ) ∂(law Δ V) :=
    integral_add hX2 ic
  rw [s1, base, cross_term_zero Δ V _ hh, add_zero]

end QG.Lemmas.Relax
