import Mathlib.Tactic
import Mathlib.Data.Nat.Bitwise
import QG.Lemmas.BackendEmbed
import QG.Spec.Register
/-!
# Bridge between flat-index Kronecker products (C01) and the bit-vector register (C02)

`QG.Spec.Register` describes an `n`-qubit operator by its action on states `BV n → R`; `E1 M q`, `E2 M a b` embed a
one- or two-qubit matrix.  The layer-based backends are specified on flat indices (`QG.Spec.KronFlat`).  Here:

* `E1_flat`, `E2_flat`: under `bitsFn` (flat index ↦ basis state, qubit 0 = most significant bit) the embedding of a gate
  on qubit `q` (resp. the adjacent pair `(q, q+1)`) is multiplication by `1_{2^q} ⊗ M ⊗ 1_{rest}`;
* `itemsFrom`: the item list `[[M, [q]], [G, [q, q+1]], …]` of a layer; `sem_itemsFrom`: applying the items one after the
  other is `applyBlocks`, hence (`applyBlocks_eq`) multiplication by the layer's Kronecker product.
-/
open Finset QG.Model.Backend
open QG.Spec.KronFlat hiding Leg
open QG.Spec QG.Spec.Register

set_option linter.unusedSectionVars false

namespace QG.Lemmas.Backend

variable {R : Type} [CommSemiring R]

/-! ### bits of a flat index -/

theorem testBit_split (A lo k m : ℕ) (hlo : lo < 2 ^ k) :
    (A * 2 ^ k + lo).testBit m = if m < k then lo.testBit m else A.testBit (m - k) := by
  rw [Nat.mul_comm]; exact Nat.testBit_two_pow_mul_add A hlo m

theorem testBit_two_mul_add (hi c t : ℕ) (hc : c < 2) :
    (2 * hi + c).testBit 0 = decide (c = 1) ∧ (2 * hi + c).testBit (t + 1) = hi.testBit t := by
  constructor
  · rw [Nat.testBit_zero]; congr 1; apply propext; omega
  · rw [Nat.testBit_succ]; congr 1; omega

theorem testBit_four_mul_add (hi c t : ℕ) (hc : c < 4) :
    (4 * hi + c).testBit 0 = decide (c % 2 = 1) ∧ (4 * hi + c).testBit 1 = decide (c / 2 = 1) ∧
      (4 * hi + c).testBit (t + 2) = hi.testBit t := by
  refine ⟨?_, ?_, ?_⟩
  · rw [Nat.testBit_zero]; congr 1; apply propext; omega
  · rw [Nat.testBit_succ, Nat.testBit_zero]; congr 1; apply propext; omega
  · rw [Nat.testBit_succ, Nat.testBit_succ]; congr 1; omega

/-! ### matrices of the two worlds -/

/-- a model matrix of dimension 2 as a `Bool`-indexed matrix -/
def toM2 (M : Mat R) : M2 R := fun a b => fn M a.toNat b.toNat

/-- a model matrix of dimension 4 as a `Bool × Bool`-indexed matrix (`M[2a+b, 2c+d]`) -/
def toM4 (M : Mat R) : M4 R := fun ab cd => fn M (2 * ab.1.toNat + ab.2.toNat) (2 * cd.1.toNat + cd.2.toNat)

/-- the flat vector of a state -/
def flatOf {n : ℕ} (φ : State R n) : ℕ → R := fun j => φ (bitsFn n j)

theorem sum_range_two (f : ℕ → R) : ∑ b ∈ range 2, f b = f 0 + f 1 := by
  simp [sum_range_succ]

theorem sum_range_four (f : ℕ → R) : ∑ b ∈ range 4, f b = f 0 + f 1 + f 2 + f 3 := by
  simp [sum_range_succ]

/-! ### one-qubit gate -/

theorem E1_flat {n : ℕ} (M : Mat R) (q : ℕ) (hq : q < n) (φ : State R n) (j : ℕ) (hj : j < 2 ^ n) :
    flatOf (E1 (toM2 M) ⟨q, hq⟩ φ) j =
      einsumList [((2 ^ q, none) : SLeg R), (2, some (fn M)), (2 ^ (n - 1 - q), none)] (flatOf φ) j := by
  set k := n - 1 - q with hk
  have hK : 0 < 2 ^ k := Nat.pow_pos (by omega)
  have hn : 2 ^ n = 2 ^ q * 2 * 2 ^ k := by
    rw [show n = q + 1 + k by omega, pow_add, pow_add]; simp [hk]
  obtain ⟨hi, a, lo, _, ha, hlo, rfl⟩ := idx3_exists (2 ^ q) 2 (2 ^ k) j hK (by omega) (by rw [← hn]; exact hj)
  rw [einsum_mid _ 2 _ hK _ _ hi a lo ha hlo, sum_range_two]
  -- bits
  have hbit : ∀ c, c < 2 → ∀ p : Fin n, bitsFn n (hi * (2 * 2 ^ k) + c * 2 ^ k + lo) p =
      if p.val = q then decide (c = 1) else bitsFn n (hi * (2 * 2 ^ k) + a * 2 ^ k + lo) p := by
    intro c hc p
    have e : ∀ c', hi * (2 * 2 ^ k) + c' * 2 ^ k + lo = (2 * hi + c') * 2 ^ k + lo := fun c' => by ring
    simp only [bitsFn, e, testBit_split _ _ _ _ hlo]
    have hp := p.isLt
    by_cases hpq : p.val = q
    · rw [if_pos hpq, if_neg (by omega), show n - 1 - p.val - k = 0 by omega]
      exact (testBit_two_mul_add hi c 0 hc).1
    · rw [if_neg hpq]
      by_cases hlt : n - 1 - p.val < k
      · rw [if_pos hlt, if_pos hlt]
      · rw [if_neg hlt, if_neg hlt]
        obtain ⟨t, ht⟩ : ∃ t, n - 1 - p.val - k = t + 1 := ⟨n - 1 - p.val - k - 1, by omega⟩
        rw [ht, (testBit_two_mul_add hi c t hc).2, (testBit_two_mul_add hi a t ha).2]
  have hxq : bitsFn n (hi * (2 * 2 ^ k) + a * 2 ^ k + lo) ⟨q, hq⟩ = decide (a = 1) := by
    rw [hbit a ha]; simp
  have hupd : ∀ b : Bool, upd (bitsFn n (hi * (2 * 2 ^ k) + a * 2 ^ k + lo)) ⟨q, hq⟩ b =
      bitsFn n (hi * (2 * 2 ^ k) + b.toNat * 2 ^ k + lo) := by
    intro b
    funext p
    rw [hbit b.toNat (by cases b <;> simp)]
    by_cases hpq : p.val = q
    · have : p = ⟨q, hq⟩ := Fin.ext hpq
      subst this
      simp only [upd_same, if_true]
      cases b <;> simp
    · rw [if_neg hpq, upd_other _ _ _ _ (fun h => hpq (by rw [h]))]
  simp only [flatOf, E1, Fintype.sum_bool, hxq, hupd, toM2]
  have ha' : (decide (a = 1)).toNat = a := by interval_cases a <;> simp
  simp only [ha', Bool.toNat_true, Bool.toNat_false, Nat.one_mul, Nat.zero_mul, Nat.add_zero]
  ring

/-! ### two-qubit gate on an adjacent ascending pair -/

theorem E2_flat {n : ℕ} (M : Mat R) (q : ℕ) (hq : q + 1 < n) (φ : State R n) (j : ℕ) (hj : j < 2 ^ n) :
    flatOf (E2 (toM4 M) ⟨q, by omega⟩ ⟨q + 1, hq⟩ φ) j =
      einsumList [((2 ^ q, none) : SLeg R), (4, some (fn M)), (2 ^ (n - 2 - q), none)] (flatOf φ) j := by
  set k := n - 2 - q with hk
  have hK : 0 < 2 ^ k := Nat.pow_pos (by omega)
  have hn : 2 ^ n = 2 ^ q * 4 * 2 ^ k := by
    rw [show n = q + 2 + k by omega, pow_add, pow_add]; simp [hk]
  obtain ⟨hi, a, lo, _, ha, hlo, rfl⟩ := idx3_exists (2 ^ q) 4 (2 ^ k) j hK (by omega) (by rw [← hn]; exact hj)
  rw [einsum_mid _ 4 _ hK _ _ hi a lo ha hlo, sum_range_four]
  have hbit : ∀ c, c < 4 → ∀ p : Fin n, bitsFn n (hi * (4 * 2 ^ k) + c * 2 ^ k + lo) p =
      if p.val = q then decide (c / 2 = 1) else if p.val = q + 1 then decide (c % 2 = 1)
      else bitsFn n (hi * (4 * 2 ^ k) + a * 2 ^ k + lo) p := by
    intro c hc p
    have e : ∀ c', hi * (4 * 2 ^ k) + c' * 2 ^ k + lo = (4 * hi + c') * 2 ^ k + lo := fun c' => by ring
    simp only [bitsFn, e, testBit_split _ _ _ _ hlo]
    have hp := p.isLt
    by_cases hpq : p.val = q
    · rw [if_pos hpq, if_neg (by omega), show n - 1 - p.val - k = 1 by omega]
      exact (testBit_four_mul_add hi c 0 hc).2.1
    · rw [if_neg hpq]
      by_cases hpq1 : p.val = q + 1
      · rw [if_pos hpq1, if_neg (by omega), show n - 1 - p.val - k = 0 by omega]
        exact (testBit_four_mul_add hi c 0 hc).1
      · rw [if_neg hpq1]
        by_cases hlt : n - 1 - p.val < k
        · rw [if_pos hlt, if_pos hlt]
        · rw [if_neg hlt, if_neg hlt]
          obtain ⟨t, ht⟩ : ∃ t, n - 1 - p.val - k = t + 2 := ⟨n - 1 - p.val - k - 2, by omega⟩
          rw [ht, (testBit_four_mul_add hi c t hc).2.2, (testBit_four_mul_add hi a t ha).2.2]
  have hne : (⟨q, by omega⟩ : Fin n) ≠ ⟨q + 1, hq⟩ := by
    intro h; have := congrArg Fin.val h; simp at this
  have hxq : bitsFn n (hi * (4 * 2 ^ k) + a * 2 ^ k + lo) ⟨q, by omega⟩ = decide (a / 2 = 1) := by
    rw [hbit a ha]; simp
  have hxq1 : bitsFn n (hi * (4 * 2 ^ k) + a * 2 ^ k + lo) ⟨q + 1, hq⟩ = decide (a % 2 = 1) := by
    rw [hbit a ha]; simp
  have hupd : ∀ b c : Bool,
      upd (upd (bitsFn n (hi * (4 * 2 ^ k) + a * 2 ^ k + lo)) ⟨q, by omega⟩ b) ⟨q + 1, hq⟩ c =
        bitsFn n (hi * (4 * 2 ^ k) + (2 * b.toNat + c.toNat) * 2 ^ k + lo) := by
    intro b c
    funext p
    rw [hbit (2 * b.toNat + c.toNat) (by cases b <;> cases c <;> simp)]
    by_cases hpq : p.val = q
    · have hq' : q < n := by omega
      have : p = ⟨q, hq'⟩ := Fin.ext hpq
      rw [this, upd_other _ _ _ _ hne, upd_same]
      cases b <;> cases c <;> simp
    · rw [if_neg hpq]
      by_cases hpq1 : p.val = q + 1
      · have : p = ⟨q + 1, hq⟩ := Fin.ext hpq1
        rw [this, upd_same]
        cases b <;> cases c <;> simp
      · rw [if_neg hpq1, upd_other _ _ _ _ (fun h => hpq1 (by rw [h])),
          upd_other _ _ _ _ (fun h => hpq (by rw [h]))]
  simp only [flatOf, E2, Fintype.sum_prod_type, Fintype.sum_bool, hxq, hxq1, hupd, toM4]
  have ha' : 2 * (decide (a / 2 = 1)).toNat + (decide (a % 2 = 1)).toNat = a := by
    interval_cases a <;> simp
  simp only [ha', Bool.toNat_true, Bool.toNat_false]
  norm_num
  ring

end QG.Lemmas.Backend
