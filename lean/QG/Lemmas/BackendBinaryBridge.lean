import Mathlib.Tactic
import Mathlib.Data.Nat.Bitwise
import QG.Lemmas.BackendEmbed
import QG.Lemmas.BackendCorollaries
import QG.Spec.Register
/-!
# Bridge between flat-index Kronecker products (C01) and the bit-vector register (C02)

`QG.Spec.Register` describes an `n`-qubit operator by its action on states `BV n → R`; `E1 M q`, `E2 M a b` embed a
one- or two-qubit matrix.  The layer-based backends are specified on flat indices (`QG.Spec.KronFlat`).  Here:

* `E1_flat`, `E2_flat`: under `bitsFn` (flat index ↦ basis state, qubit 0 = most significant bit) the embedding of a gate
  on qubit `q` (resp. the adjacent pair `(q, q+1)`) is multiplication by `1_{2^q} ⊗ M ⊗ 1_{rest}`;
* `itemsFrom`: the item list `[[M, [q]], [G, [q, q+1]], …]` of a layer; `sem_itemsFrom`: applying the items one after the
  other is `applyBlocks`, hence (`applyBlocks_eq`) multiplication by the layer's Kronecker product.
-/
open Finset QG.Model.Backend
open QG.Spec.KronFlat hiding Leg
open QG.Spec QG.Spec.Register

set_option linter.unusedSectionVars false

namespace QG.Lemmas.Backend

variable {R : Type} [CommSemiring R]

/-! ### bits of a flat index -/

theorem testBit_split (A lo k m : ℕ) (hlo : lo < 2 ^ k) :
    (A * 2 ^ k + lo).testBit m = if m < k then lo.testBit m else A.testBit (m - k) := by
  rw [Nat.mul_comm]; exact Nat.testBit_two_pow_mul_add A hlo m

theorem testBit_two_mul_add (hi c t : ℕ) (hc : c < 2) :
    (2 * hi + c).testBit 0 = decide (c = 1) ∧ (2 * hi + c).testBit (t + 1) = hi.testBit t := by
  constructor
  · rw [Nat.testBit_zero]; congr 1; apply propext; omega
  · rw [Nat.testBit_succ]; congr 1; omega

theorem testBit_four_mul_add (hi c t : ℕ) (hc : c < 4) :
    (4 * hi + c).testBit 0 = decide (c % 2 = 1) ∧ (4 * hi + c).testBit 1 = decide (c / 2 = 1) ∧
      (4 * hi + c).testBit (t + 2) = hi.testBit t := by
  refine ⟨?_, ?_, ?_⟩
  · rw [Nat.testBit_zero]; congr 1; apply propext; omega
  · rw [Nat.testBit_succ, Nat.testBit_zero]; congr 1; apply propext; omega
  · rw [Nat.testBit_succ, Nat.testBit_succ]; congr 1; omega

/-! ### matrices of the two worlds -/

/-- a model matrix of dimension 2 as a `Bool`-indexed matrix -/
def toM2 (M : Mat R) : M2 R := fun a b => fn M a.toNat b.toNat

/-- a model matrix of dimension 4 as a `Bool × Bool`-indexed matrix (`M[2a+b, 2c+d]`) -/
def toM4 (M : Mat R) : M4 R := fun ab cd => fn M (2 * ab.1.toNat + ab.2.toNat) (2 * cd.1.toNat + cd.2.toNat)

/-- the flat vector of a state -/
def flatOf {n : ℕ} (φ : State R n) : ℕ → R := fun j => φ (bitsFn n j)

theorem sum_range_two (f : ℕ → R) : ∑ b ∈ range 2, f b = f 0 + f 1 := by
  simp [sum_range_succ]

theorem sum_range_four (f : ℕ → R) : ∑ b ∈ range 4, f b = f 0 + f 1 + f 2 + f 3 := by
  simp [sum_range_succ]

/-! ### one-qubit gate -/

theorem E1_flat {n : ℕ} (M : Mat R) (q : ℕ) (hq : q < n) (φ : State R n) (j : ℕ) (hj : j < 2 ^ n) :
    flatOf (E1 (toM2 M) ⟨q, hq⟩ φ) j =
      einsumList [((2 ^ q, none) : SLeg R), (2, some (fn M)), (2 ^ (n - 1 - q), none)] (flatOf φ) j := by
  set k := n - 1 - q with hk
  have hK : 0 < 2 ^ k := Nat.pow_pos (by omega)
  have hn : 2 ^ n = 2 ^ q * 2 * 2 ^ k := by
    rw [show n = q + 1 + k by omega, pow_add, pow_add]; simp [hk]
  obtain ⟨hi, a, lo, _, ha, hlo, rfl⟩ := idx3_exists (2 ^ q) 2 (2 ^ k) j hK (by omega) (by rw [← hn]; exact hj)
  rw [einsum_mid _ 2 _ hK _ _ hi a lo ha hlo, sum_range_two]
  -- bits
  have hbit : ∀ c, c < 2 → ∀ p : Fin n, bitsFn n (hi * (2 * 2 ^ k) + c * 2 ^ k + lo) p =
      if p.val = q then decide (c = 1) else bitsFn n (hi * (2 * 2 ^ k) + a * 2 ^ k + lo) p := by
    intro c hc p
    have e : ∀ c', hi * (2 * 2 ^ k) + c' * 2 ^ k + lo = (2 * hi + c') * 2 ^ k + lo := fun c' => by ring
    simp only [bitsFn, e, testBit_split _ _ _ _ hlo]
    have hp := p.isLt
    by_cases hpq : p.val = q
    · rw [if_pos hpq, if_neg (by omega), show n - 1 - p.val - k = 0 by omega]
      exact (testBit_two_mul_add hi c 0 hc).1
    · rw [if_neg hpq]
      by_cases hlt : n - 1 - p.val < k
      · rw [if_pos hlt, if_pos hlt]
      · rw [if_neg hlt, if_neg hlt]
        obtain ⟨t, ht⟩ : ∃ t, n - 1 - p.val - k = t + 1 := ⟨n - 1 - p.val - k - 1, by omega⟩
        rw [ht, (testBit_two_mul_add hi c t hc).2, (testBit_two_mul_add hi a t ha).2]
  have hxq : bitsFn n (hi * (2 * 2 ^ k) + a * 2 ^ k + lo) ⟨q, hq⟩ = decide (a = 1) := by
    rw [hbit a ha]; simp
  have hupd : ∀ b : Bool, upd (bitsFn n (hi * (2 * 2 ^ k) + a * 2 ^ k + lo)) ⟨q, hq⟩ b =
      bitsFn n (hi * (2 * 2 ^ k) + b.toNat * 2 ^ k + lo) := by
    intro b
    funext p
    rw [hbit b.toNat (by cases b <;> simp)]
    by_cases hpq : p.val = q
    · have : p = ⟨q, hq⟩ := Fin.ext hpq
      subst this
      simp only [upd_same, if_true]
      cases b <;> simp
    · rw [if_neg hpq, upd_other _ _ _ _ (fun h => hpq (by rw [h]))]
  simp only [flatOf, E1, Fintype.sum_bool, hxq, hupd, toM2]
  have ha' : (decide (a = 1)).toNat = a := by interval_cases a <;> simp
  simp only [ha', Bool.toNat_true, Bool.toNat_false, Nat.one_mul, Nat.zero_mul, Nat.add_zero]
  ring

/-! ### two-qubit gate on an adjacent ascending pair -/

theorem E2_flat {n : ℕ} (M : Mat R) (q : ℕ) (hq : q + 1 < n) (φ : State R n) (j : ℕ) (hj : j < 2 ^ n) :
    flatOf (E2 (toM4 M) ⟨q, by omega⟩ ⟨q + 1, hq⟩ φ) j =
      einsumList [((2 ^ q, none) : SLeg R), (4, some (fn M)), (2 ^ (n - 2 - q), none)] (flatOf φ) j := by
  set k := n - 2 - q with hk
  have hK : 0 < 2 ^ k := Nat.pow_pos (by omega)
  have hn : 2 ^ n = 2 ^ q * 4 * 2 ^ k := by
    rw [show n = q + 2 + k by omega, pow_add, pow_add]; simp [hk]
  obtain ⟨hi, a, lo, _, ha, hlo, rfl⟩ := idx3_exists (2 ^ q) 4 (2 ^ k) j hK (by omega) (by rw [← hn]; exact hj)
  rw [einsum_mid _ 4 _ hK _ _ hi a lo ha hlo, sum_range_four]
  have hbit : ∀ c, c < 4 → ∀ p : Fin n, bitsFn n (hi * (4 * 2 ^ k) + c * 2 ^ k + lo) p =
      if p.val = q then decide (c / 2 = 1) else if p.val = q + 1 then decide (c % 2 = 1)
      else bitsFn n (hi * (4 * 2 ^ k) + a * 2 ^ k + lo) p := by
    intro c hc p
    have e : ∀ c', hi * (4 * 2 ^ k) + c' * 2 ^ k + lo = (4 * hi + c') * 2 ^ k + lo := fun c' => by ring
    simp only [bitsFn, e, testBit_split _ _ _ _ hlo]
    have hp := p.isLt
    by_cases hpq : p.val = q
    · rw [if_pos hpq, if_neg (by omega), show n - 1 - p.val - k = 1 by omega]
      exact (testBit_four_mul_add hi c 0 hc).2.1
    · rw [if_neg hpq]
      by_cases hpq1 : p.val = q + 1
      · rw [if_pos hpq1, if_neg (by omega), show n - 1 - p.val - k = 0 by omega]
        exact (testBit_four_mul_add hi c 0 hc).1
      · rw [if_neg hpq1]
        by_cases hlt : n - 1 - p.val < k
        · rw [if_pos hlt, if_pos hlt]
        · rw [if_neg hlt, if_neg hlt]
          obtain ⟨t, ht⟩ : ∃ t, n - 1 - p.val - k = t + 2 := ⟨n - 1 - p.val - k - 2, by omega⟩
          rw [ht, (testBit_four_mul_add hi c t hc).2.2, (testBit_four_mul_add hi a t ha).2.2]
  have hne : (⟨q, by omega⟩ : Fin n) ≠ ⟨q + 1, hq⟩ := by
    intro h; have := congrArg Fin.val h; simp at this
  have hxq : bitsFn n (hi * (4 * 2 ^ k) + a * 2 ^ k + lo) ⟨q, by omega⟩ = decide (a / 2 = 1) := by
    rw [hbit a ha]; simp
  have hxq1 : bitsFn n (hi * (4 * 2 ^ k) + a * 2 ^ k + lo) ⟨q + 1, hq⟩ = decide (a % 2 = 1) := by
    rw [hbit a ha]; simp
  have hupd : ∀ b c : Bool,
      upd (upd (bitsFn n (hi * (4 * 2 ^ k) + a * 2 ^ k + lo)) ⟨q, by omega⟩ b) ⟨q + 1, hq⟩ c =
        bitsFn n (hi * (4 * 2 ^ k) + (2 * b.toNat + c.toNat) * 2 ^ k + lo) := by
    intro b c
    funext p
    rw [hbit (2 * b.toNat + c.toNat) (by cases b <;> cases c <;> simp)]
    by_cases hpq : p.val = q
    · have hq' : q < n := by omega
      have : p = ⟨q, hq'⟩ := Fin.ext hpq
      rw [this, upd_other _ _ _ _ hne, upd_same]
      cases b <;> cases c <;> simp
    · rw [if_neg hpq]
      by_cases hpq1 : p.val = q + 1
      · have : p = ⟨q + 1, hq⟩ := Fin.ext hpq1
        rw [this, upd_same]
        cases b <;> cases c <;> simp
      · rw [if_neg hpq1, upd_other _ _ _ _ (fun h => hpq1 (by rw [h])),
          upd_other _ _ _ _ (fun h => hpq (by rw [h]))]
  simp only [flatOf, E2, Fintype.sum_prod_type, Fintype.sum_bool, hxq, hxq1, hupd, toM4]
  have ha' : 2 * (decide (a / 2 = 1)).toNat + (decide (a % 2 = 1)).toNat = a := by
    interval_cases a <;> simp
  simp only [ha', Bool.toNat_true, Bool.toNat_false]
  norm_num
  ring

/-! ### the items of a layer -/

/-- the item list of the blocks of a layer whose first block sits on qubit `q`: a 2x2 entry is `[M, [q]]`, a 4x4 entry
with its placeholder (after or before it) is `[G, [q, q+1]]` -/
def itemsFrom : List (Block (Mat R)) → ℕ → List (QG.Model.Optimizer.Item (M2 R) (M4 R))
  | [], _ => []
  | .scalar :: .mat M :: rest, q => .two (toM4 M) q (q + 1) :: itemsFrom rest (q + 2)
  | .scalar :: _, _ => []                                  -- not well formed
  | .mat M :: rest, q =>
    if M.dim = 2 then .one (toM2 M) q :: itemsFrom rest (q + 1)
    else match rest with
      | .scalar :: rest' => .two (toM4 M) q (q + 1) :: itemsFrom rest' (q + 2)
      | _ => []                                            -- not well formed

theorem pow_split2 (q k n : ℕ) (h : q + 1 + k = n) : 2 ^ q * 2 * 2 ^ k = 2 ^ n := by
  subst h; rw [pow_add, pow_add]; norm_num

theorem pow_split4 (q k n : ℕ) (h : q + 2 + k = n) : 2 ^ q * 4 * 2 ^ k = 2 ^ n := by
  subst h; rw [pow_add, pow_add]; norm_num

/-- the qubits of an item -/
def itemQ : QG.Model.Optimizer.Item (M2 R) (M4 R) → List ℕ
  | .one _ q => [q]
  | .two _ a b => [a, b]

/-- the items act on the qubits the (import-free, executable) `itemQubits` of the model lists -/
theorem itemsFrom_qubits (l : List (Block (Mat R))) (q : ℕ) :
    (itemsFrom l q).map itemQ = itemQubits Mat.dim l q := by
  fun_induction itemsFrom l q
  case case4 M rest q h ih =>
    simp only [List.map_cons, itemQ, ih]
    cases rest with
    | nil => simp [itemQubits, h]
    | cons b r => cases b <;> simp [itemQubits, h]
  all_goals simp_all [itemQubits, itemQ]

theorem applyBlocks_congr (pre : ℕ) (l : List (SLeg R)) (v w : ℕ → R) (h : ∀ j < pre * dims l, v j = w j) :
    ∀ i < pre * dims l, applyBlocks pre l v i = applyBlocks pre l w i := by
  induction l generalizing pre v w with
  | nil => intro i hi; exact h i hi
  | cons b rest ih =>
    obtain ⟨d, o⟩ := b
    intro i hi
    have hN : pre * dims ((d, o) :: rest) = pre * d * dims rest := by simp only [dims]; ring
    rw [hN] at h hi
    simp only [applyBlocks]
    exact ih (pre * d) _ _ (fun j _ => mulVec_congr (fun _ _ => rfl) h) i hi

/-- one block, then the rest -/
theorem applyBlocks_step (pre d : ℕ) (hpre : 0 < pre) (hd : 0 < d) (B : FMat R) (rest : List (SLeg R))
    (hD : 0 < dims rest) (v w : ℕ → R)
    (hw : ∀ j < pre * d * dims rest,
      w j = einsumList [((pre, none) : SLeg R), (d, some B), (dims rest, none)] v j) :
    ∀ i < pre * d * dims rest, applyBlocks pre ((d, some B) :: rest) v i = applyBlocks (pre * d) rest w i := by
  intro i hi
  simp only [applyBlocks]
  apply applyBlocks_congr (pre * d) rest _ _ _ i hi
  intro j hj
  rw [hw j hj]
  have hdm : dims [((pre, none) : SLeg R), (d, some B), (dims rest, none)] = pre * d * dims rest := by
    simp only [dims]; ring
  have hpos : ∀ x ∈ [((pre, none) : SLeg R), (d, some B), (dims rest, none)], 0 < x.1 := by
    intro x hx
    simp only [List.mem_cons, List.not_mem_nil, or_false] at hx
    rcases hx with rfl | rfl | rfl <;> assumption
  rw [einsumList_eq _ hpos _ _ (by rw [hdm]; exact hj), hdm]
  rfl

/-- a scalar placeholder is the factor 1 -/
theorem applyBlocks_scalar (pre : ℕ) (hpre : 0 < pre) (rest : List (SLeg R)) (hD : 0 < dims rest) (v : ℕ → R) :
    ∀ i < pre * dims rest,
      applyBlocks pre (((1, some (idMat 1)) : SLeg R) :: rest) v i = applyBlocks pre rest v i := by
  intro i hi
  have hi' : i < pre * 1 * dims rest := by rw [Nat.mul_one]; exact hi
  rw [applyBlocks_step pre 1 hpre (by omega) (idMat 1) rest hD v v ?_ i hi', Nat.mul_one]
  intro j hj
  obtain ⟨h, a, lo, _, ha, hlo, rfl⟩ := idx3_exists pre 1 (dims rest) j hD (by omega) hj
  have ha0 : a = 0 := by omega
  subst ha0
  rw [einsum_mid _ 1 _ hD _ _ h 0 lo (by omega) hlo]
  simp [idMat]

theorem sem_itemsFrom {n : ℕ} (blocks : List (Block (Mat R))) (hw : WFI blocks) (q : ℕ)
    (hqn : q + blocks.length = n) (φ : State R n) :
    ∀ i < 2 ^ n, flatOf ((gateAlgebra R n).sem (itemsFrom blocks q) φ) i =
      applyBlocks (2 ^ q) (blocks.map blockLeg) (flatOf φ) i := by
  induction hw generalizing q φ with
  | nil => intro i _; simp [itemsFrom, applyBlocks, one_apply']
  | m2 M rest hM hr ih =>
    intro i hi
    rw [List.length_cons] at hqn
    have hq : q < n := by omega
    have hlen : rest.length = n - 1 - q := by omega
    have hdr : dims (rest.map blockLeg) = 2 ^ (n - 1 - q) := by rw [hr.length_dims, hlen]
    have hDpos : 0 < dims (rest.map blockLeg) := by rw [hdr]; exact Nat.pow_pos (by omega)
    have hN : 2 ^ q * 2 * dims (rest.map blockLeg) = 2 ^ n := by
      rw [hdr]; exact pow_split2 q _ n (by omega)
    have hitems : itemsFrom (Block.mat M :: rest) q =
        .one (toM2 M) q :: itemsFrom rest (q + 1) := by
      cases rest with
      | nil => simp [itemsFrom, hM]
      | cons b r => cases b <;> simp [itemsFrom, hM]
    rw [hitems, GateAlgebra.sem_cons, mul_apply']
    have hitem : (gateAlgebra R n).item (.one (toM2 M) q) = E1 (toM2 M) ⟨q, hq⟩ := by
      show (e1 (toM2 M) q : Op R n) = _
      exact e1_eq _ _ hq
    rw [hitem, ih (q + 1) (by omega) _ i hi]
    have hb : blockLeg (Block.mat M) = ((2, some (fn M)) : SLeg R) := by
      simp [blockLeg, Block.toPy, pvLeg, matLeg, hM]
    rw [List.map_cons, hb]
    rw [applyBlocks_step (2 ^ q) 2 (Nat.pow_pos (by omega)) (by omega) (fn M) _ hDpos (flatOf φ)
      (flatOf (E1 (toM2 M) ⟨q, hq⟩ φ)) ?_ i (by rw [hN]; exact hi), pow_succ]
    intro j hj
    rw [hdr]
    exact E1_flat M q hq φ j (by rw [← hN]; exact hj)
  | m4after M rest hM hr ih =>
    intro i hi
    rw [List.length_cons, List.length_cons] at hqn
    have hq : q + 1 < n := by omega
    have hlen : rest.length = n - 2 - q := by omega
    have hdr : dims (rest.map blockLeg) = 2 ^ (n - 2 - q) := by rw [hr.length_dims, hlen]
    have hDpos : 0 < dims (rest.map blockLeg) := by rw [hdr]; exact Nat.pow_pos (by omega)
    have hN : 2 ^ q * 4 * dims (rest.map blockLeg) = 2 ^ n := by
      rw [hdr]; exact pow_split4 q _ n (by omega)
    have hitems : itemsFrom (Block.mat M :: Block.scalar :: rest) q =
        .two (toM4 M) q (q + 1) :: itemsFrom rest (q + 2) := by simp [itemsFrom, hM]
    rw [hitems, GateAlgebra.sem_cons, mul_apply']
    have hitem : (gateAlgebra R n).item (.two (toM4 M) q (q + 1)) = E2 (toM4 M) ⟨q, by omega⟩ ⟨q + 1, hq⟩ := by
      show (e2 (toM4 M) q (q + 1) : Op R n) = _
      exact e2_eq _ _ _ (by omega) hq
    rw [hitem, ih (q + 2) (by omega) _ i hi]
    have hb : blockLeg (Block.mat M) = ((4, some (fn M)) : SLeg R) := by
      simp [blockLeg, Block.toPy, pvLeg, matLeg, hM]
    have hs : blockLeg (Block.scalar : Block (Mat R)) = ((1, some (idMat 1)) : SLeg R) := rfl
    rw [List.map_cons, List.map_cons, hb, hs]
    have hds : dims (((1, some (idMat 1)) : SLeg R) :: rest.map blockLeg) = dims (rest.map blockLeg) := by
      simp [dims]
    have hp4 : 2 ^ (q + 2) = 2 ^ q * 4 := by rw [pow_add]; norm_num
    rw [applyBlocks_step (2 ^ q) 4 (Nat.pow_pos (by omega)) (by omega) (fn M) _ (by rw [hds]; exact hDpos) (flatOf φ)
      (flatOf (E2 (toM4 M) ⟨q, by omega⟩ ⟨q + 1, hq⟩ φ)) ?_ i (by rw [hds, hN]; exact hi)]
    · rw [applyBlocks_scalar (2 ^ q * 4) (by positivity) _ hDpos _ i (by rw [hN]; exact hi), hp4]
    · intro j hj
      rw [hds] at hj ⊢
      rw [hdr]
      exact E2_flat M q hq φ j (by rw [← hN]; exact hj)
  | m4before M rest hM hr ih =>
    intro i hi
    rw [List.length_cons, List.length_cons] at hqn
    have hq : q + 1 < n := by omega
    have hlen : rest.length = n - 2 - q := by omega
    have hdr : dims (rest.map blockLeg) = 2 ^ (n - 2 - q) := by rw [hr.length_dims, hlen]
    have hDpos : 0 < dims (rest.map blockLeg) := by rw [hdr]; exact Nat.pow_pos (by omega)
    have hN : 2 ^ q * 4 * dims (rest.map blockLeg) = 2 ^ n := by
      rw [hdr]; exact pow_split4 q _ n (by omega)
    have hitems : itemsFrom (Block.scalar :: Block.mat M :: rest) q =
        .two (toM4 M) q (q + 1) :: itemsFrom rest (q + 2) := by simp [itemsFrom]
    rw [hitems, GateAlgebra.sem_cons, mul_apply']
    have hitem : (gateAlgebra R n).item (.two (toM4 M) q (q + 1)) = E2 (toM4 M) ⟨q, by omega⟩ ⟨q + 1, hq⟩ := by
      show (e2 (toM4 M) q (q + 1) : Op R n) = _
      exact e2_eq _ _ _ (by omega) hq
    rw [hitem, ih (q + 2) (by omega) _ i hi]
    have hb : blockLeg (Block.mat M) = ((4, some (fn M)) : SLeg R) := by
      simp [blockLeg, Block.toPy, pvLeg, matLeg, hM]
    have hs : blockLeg (Block.scalar : Block (Mat R)) = ((1, some (idMat 1)) : SLeg R) := rfl
    rw [List.map_cons, List.map_cons, hb, hs]
    have hdb : dims (((4, some (fn M)) : SLeg R) :: rest.map blockLeg) = 4 * dims (rest.map blockLeg) := by
      simp [dims]
    have hp4 : 2 ^ (q + 2) = 2 ^ q * 4 := by rw [pow_add]; norm_num
    rw [applyBlocks_scalar (2 ^ q) (by positivity) _ (by rw [hdb]; omega) _ i
      (by rw [hdb, ← Nat.mul_assoc, hN]; exact hi)]
    rw [applyBlocks_step (2 ^ q) 4 (Nat.pow_pos (by omega)) (by omega) (fn M) _ hDpos (flatOf φ)
      (flatOf (E2 (toM4 M) ⟨q, by omega⟩ ⟨q + 1, hq⟩ φ)) ?_ i (by rw [hN]; exact hi), hp4]
    intro j hj
    rw [hdr]
    exact E2_flat M q hq φ j (by rw [← hN]; exact hj)

/-! ### whole layer lists -/

open QG.Model.Optimizer in
/-- an item as the caller of `BinaryBackend.statevector` writes it -/
def toRaw : QG.Model.Optimizer.Item (M2 R) (M4 R) → QG.Model.Optimizer.Raw (M2 R) (M4 R)
  | .one m q => .single m q
  | .two m a b => .pair m a b

theorem normalize_toRaw (x : QG.Model.Optimizer.Item (M2 R) (M4 R)) :
    QG.Model.Optimizer.normalize (toRaw x) = x := by
  cases x <;> rfl

/-- the same matrices item by item, layer after layer (every layer starts at qubit 0) -/
def layersItems (L : List (Layer (Mat R))) : List (QG.Model.Optimizer.Item (M2 R) (M4 R)) :=
  L.flatMap fun l => itemsFrom l 0

theorem wf_itemsFrom {n : ℕ} (blocks : List (Block (Mat R))) (hw : WFI blocks) (q : ℕ)
    (hqn : q + blocks.length = n) : GateAlgebra.WFList n (itemsFrom blocks q) := by
  induction hw generalizing q with
  | nil => intro x hx; simp [itemsFrom] at hx
  | m2 M rest hM hr ih =>
    rw [List.length_cons] at hqn
    have hitems : itemsFrom (Block.mat M :: rest) q = .one (toM2 M) q :: itemsFrom rest (q + 1) := by
      cases rest with
      | nil => simp [itemsFrom, hM]
      | cons b r => cases b <;> simp [itemsFrom, hM]
    rw [hitems]
    exact GateAlgebra.WFList.cons (by show q < n; omega) (ih (q + 1) (by omega))
  | m4after M rest hM hr ih =>
    rw [List.length_cons, List.length_cons] at hqn
    have hitems : itemsFrom (Block.mat M :: Block.scalar :: rest) q =
        .two (toM4 M) q (q + 1) :: itemsFrom rest (q + 2) := by simp [itemsFrom, hM]
    rw [hitems]
    exact GateAlgebra.WFList.cons (by show q < n ∧ q + 1 < n ∧ q ≠ q + 1; omega) (ih (q + 2) (by omega))
  | m4before M rest hM hr ih =>
    rw [List.length_cons, List.length_cons] at hqn
    have hitems : itemsFrom (Block.scalar :: Block.mat M :: rest) q =
        .two (toM4 M) q (q + 1) :: itemsFrom rest (q + 2) := by simp [itemsFrom]
    rw [hitems]
    exact GateAlgebra.WFList.cons (by show q < n ∧ q + 1 < n ∧ q ≠ q + 1; omega) (ih (q + 2) (by omega))

theorem itemsFrom_ne (blocks : List (Block (Mat R))) (hw : WFI blocks) (hne : blocks ≠ []) (q : ℕ) :
    itemsFrom blocks q ≠ [] := by
  cases hw with
  | nil => exact absurd rfl hne
  | m2 M rest hM hr =>
    have hitems : itemsFrom (Block.mat M :: rest) q = .one (toM2 M) q :: itemsFrom rest (q + 1) := by
      cases rest with
      | nil => simp [itemsFrom, hM]
      | cons b r => cases b <;> simp [itemsFrom, hM]
    rw [hitems]; simp
  | m4after M rest hM hr => simp [itemsFrom, hM]
  | m4before M rest hM hr => simp [itemsFrom]

theorem wf_layersItems {n : ℕ} (L : List (Layer (Mat R))) (hwf : ∀ l ∈ L, WFI l ∧ l.length = n) :
    GateAlgebra.WFList n (layersItems L) := by
  intro x hx
  simp only [layersItems, List.mem_flatMap] at hx
  obtain ⟨l, hl, hxl⟩ := hx
  obtain ⟨hw, hlen⟩ := hwf l hl
  exact wf_itemsFrom l hw 0 (by omega) x hxl

theorem layersItems_ne {n : ℕ} (hn : 1 ≤ n) (L : List (Layer (Mat R))) (hL : L ≠ [])
    (hwf : ∀ l ∈ L, WFI l ∧ l.length = n) : layersItems L ≠ [] := by
  obtain ⟨l, rest, rfl⟩ := List.exists_cons_of_ne_nil hL
  obtain ⟨hw, hlen⟩ := hwf l (by simp)
  have hl : l ≠ [] := by intro hh; subst hh; simp at hlen; omega
  have := itemsFrom_ne l hw hl 0
  simp only [layersItems, List.flatMap_cons]
  intro hh
  exact this (List.append_eq_nil_iff.mp hh).1

/-- one layer: the items are multiplication by the layer's Kronecker product -/
theorem sem_layer {n : ℕ} (l : Layer (Mat R)) (hw : WFI l) (hlen : l.length = n) (φ : State R n) :
    ∀ i < 2 ^ n, flatOf ((gateAlgebra R n).sem (itemsFrom l 0) φ) i =
      mulVec (2 ^ n) (layerMat l) (flatOf φ) i := by
  intro i hi
  rw [sem_itemsFrom l hw 0 (by omega) φ i hi, pow_zero]
  have hd : dims (l.map blockLeg) = 2 ^ n := by rw [hw.length_dims, hlen]
  rw [applyBlocks_eq 1 (by omega) _ hw.good _ i (by rw [hd, Nat.one_mul]; exact hi), hd, Nat.one_mul]
  have : kronList (((1, none) : SLeg R) :: l.map blockLeg) = layerMat l := by
    rw [kronList_cons]
    exact kron_one_left (isCut_kronList _ hw.good)
  rw [this]

/-- all layers: the items compute `specFn` -/
theorem sem_layers {n : ℕ} (L : List (Layer (Mat R))) (hwf : ∀ l ∈ L, WFI l ∧ l.length = n) (φ : State R n) :
    ∀ i < 2 ^ n, flatOf ((gateAlgebra R n).sem (layersItems L) φ) i = specFn n L (flatOf φ) i := by
  induction L generalizing φ with
  | nil => intro i _; simp [layersItems, specFn, one_apply']
  | cons l rest ih =>
    intro i hi
    obtain ⟨hw, hlen⟩ := hwf l (by simp)
    have hrest := ih (fun l' hl' => hwf l' (by simp [hl']))
    have e : layersItems (l :: rest) = itemsFrom l 0 ++ layersItems rest := by simp [layersItems]
    rw [e, GateAlgebra.sem_append, mul_apply', hrest _ i hi]
    simp only [specFn, List.foldl_cons]
    exact specFn_congr' n rest _ _ (fun j hj => sem_layer l hw hlen φ j hj) i hi

/-- the flat list of a state, as the array of its flat vector -/
theorem listOf_eq_ofFn {n : ℕ} (φ : State R n) :
    listOf φ = (Array.ofFn (n := 2 ^ n) fun i => flatOf φ i.val).toList := by
  apply List.ext_getElem
  · simp [listOf_length]
  · intro i h1 h2
    simp [listOf, flatOf]

theorem flatOf_vecOf {n : ℕ} (ψ : Array R) (j : ℕ) (hj : j < 2 ^ n) :
    flatOf (vecOf ψ.toList : State R n) j = vfn ψ j := by
  simp only [flatOf, vecOf, idx_bitsFn n j hj, vfn]
  simp [List.getD, Array.getD]
  by_cases h : j < ψ.size <;> simp [h]

end QG.Lemmas.Backend
